(* C02 correspondence: lock-step TCP traces (Corr/TcpTrace.v) + the completion / orderly-close /
   no-silent-stall monitor.  [spec] looks only at what the IMPLEMENTATION did (events, state
   snapshots, emitted frames, application results); it never calls Model.Tcp.step. *)
From Coq Require Import ZArith List Bool.
From NP Require Export Model.Seqnum Model.Tcp Corr.TcpTrace.
Import ListNotations.
Open Scope Z_scope.

Definition case := TcpTrace.case.

(* ---- vocabulary of the monitor (plain arithmetic on the observations) ---- *)
Definition bit (fl m : Z) : bool := negb (Z.land fl m =? 0).   (* m = 1 FIN, 4 RST, 16 ACK *)
Definition isFin (fl : Z) : bool := bit fl 1.
Definition isRst (fl : Z) : bool := bit fl 4.
Definition isAck (fl : Z) : bool := bit fl 16.
Definition lenZ {A} (l : list A) : Z := Z.of_nat (length l).
Definition w32 (x : Z) : Z := x mod 4294967296.
Definition connected (t : tcp) : bool := estate t =? 0.
Definition isclosed (t : tcp) : bool := estate t =? 1.
Definition iserror (t : tcp) : bool := estate t =? 2.
Definition timer_on (t : tcp) : bool := tstate (SN t) =? 1.
Definition rto_limit : Z := 60000000000.   (* 60 s in ns *)
Definition wlist (t : tcp) : list wseg := wsent (SN t) ++ wunsent (SN t).
Definition empty_data (w : wseg) : bool := lenZ (w_data w) =? 0.
(* both directions closed and everything (incl. the FIN) acknowledged *)
Definition all_done (t : tcp) : bool :=
  rclosed (RC t) && sclosed (SN t) && (sndUna (SN t) =? sndNxtList (SN t)).

Definition implb' (a b : bool) : bool := negb a || b.

Fixpoint lists_eqb (a b : list (list Z)) : bool :=
  match a, b with
  | [], [] => true
  | x :: a', y :: b' => zlist_eqb x y && lists_eqb a' b'
  | _, _ => false
  end.

(* what the monitor remembers along the trace *)
Record ghost := mkG {
  g_acc : Z;            (* bytes of application writes accepted so far *)
  g_shut : bool;        (* a shutdown of the write side succeeded *)
  g_fins : list Z;      (* stream offsets at which the peer has sent a FIN so far *)
  g_eof : bool;         (* a read reported end of stream *)
  g_nread : Z;          (* bytes read so far *)
  g_dmax : Z }.         (* highest stream offset covered by an emitted data frame *)

(* ---- checks; every failing check contributes its identifier (200 = the known zero-window
        stall pattern, everything else is a violation) ---- *)
Definition ck (id : Z) (ok : bool) : list Z := if ok then [] else [id].

(* (a),(b),(e): conditions on one state snapshot.  acc = accepted bytes up to and including this step *)
Definition snap_checks (iss acc : Z) (t : tcp) : list Z :=
  let s := SN t in
  (* (a) data or a FIN in flight => the retransmission timer runs *)
  ck 11 (implb' (connected t && negb (sndUna s =? sndNxt s)) (timer_on t)) ++
  (* (b) data queued, nothing in flight, no timer, room in the congestion window (or a congestion
         window that can never admit a segment): nothing but a
         segment from the peer can make the sender move.  Behind a zero window this is the known
         missing-persist-timer pattern; in any other situation it is a plain stall. *)
  (if connected t && negb (lenZ (wunsent s) =? 0) && (sndUna s =? sndNxt s) && negb (timer_on t)
      && ((outstanding s <? cwnd s) || (cwnd s <? 1))
   then match wunsent s with
        | w :: _ => if negb (empty_data w) && (sndWnd s =? 0) then [200] else [12]
        | [] => []
        end
   else []) ++
  (* (e) connected <-> the closing exchange is not complete; closed -> it is complete *)
  ck 13 (implb' (connected t) (negb (all_done t)) && implb' (isclosed t) (all_done t)) ++
  ck 14 (Bool.eqb (rclosed (RC t)) (rcvClosedE t) && Bool.eqb (sclosed s) (sndClosedE t)) ++
  (* (d) the write list: only data before the shutdown; afterwards data then exactly one FIN element
         at the very end (or everything acknowledged); sndNxtList counts the FIN as one number *)
  ck 15 (if sndClosedE t
         then (sndNxtList s =? w32 (iss + 1 + acc + 1)) &&
              match rev (wlist t) with
              | [] => sndUna s =? sndNxtList s
              | l :: r => empty_data l && forallb (fun w => negb (empty_data w)) r
              end
         else (sndNxtList s =? w32 (iss + 1 + acc)) && forallb (fun w => negb (empty_data w)) (wlist t)).

(* (d) frames of one step, in emission order; returns the new g_dmax and the failing checks *)
Fixpoint frame_checks (iss acc : Z) (shut : bool) (w : list Z) (post : tcp) (dmax : Z) (fr : list frame)
  : Z * list Z :=
  match fr with
  | [] => (dmax, [])
  | f :: r =>
      let off := w32 (f_seq f - iss - 1) in
      let n := lenZ (f_data f) in
      let dmax' := if (0 <? n) && (dmax <? off + n) then off + n else dmax in
      let c1 := if isRst (f_flags f) then ck 23 (iserror post)
                else
                  (* data is the slice of the accepted writes its sequence number names, and ends at or
                     before the end of what was written (so never at or beyond the FIN) *)
                  ck 29 ((n =? 0) || (is_slice w (f_data f) off && (off + n <=? acc))) ++
                  (if isFin (f_flags f)
                   then ck 31 (shut && (w32 (f_seq f + n) =? w32 (iss + 1 + acc)) && (dmax' =? acc)
                               && (sndNxt (SN post) =? w32 (f_seq f + n + 1))
                               && (sndNxtList (SN post) =? w32 (f_seq f + n + 1)))
                   else []) in
      let '(d, c2) := frame_checks iss acc shut w post dmax' r in
      (d, c1 ++ c2)
  end.

Definition fin_offset (irs : Z) (s : seg) : Z := w32 (s_seq s + lenZ (s_data s) - irs - 1).

Definition step_checks (iss irs : Z) (w : list Z) (g : ghost) (pre : tcp) (o : obs) : ghost * list Z :=
  let post := o_st o in
  let fr := o_frames o in
  let acc' := match o_ev o, o_res o with
              | EWrite _, RCount n => g_acc g + n
              | _, _ => g_acc g end in
  let shut' := match o_ev o, o_res o with
               | EShutW, RCount 0 => g_shut g || connected pre
               | _, _ => g_shut g end in
  let fins' := match o_ev o with
               | ESeg s _ => if isFin (s_flags s) then fin_offset irs s :: g_fins g else g_fins g
               | _ => g_fins g end in
  let '(dmax', cf) := frame_checks iss acc' shut' w post (g_dmax g) fr in
  let cs := snap_checks iss acc' post in
  (* (e) how the connection may fail: a reset from the peer, or the retransmission limit *)
  let ce :=
    ck 21 (implb' (connected pre && iserror post)
             (match o_ev o with
              | ESeg s _ => isRst (s_flags s)
              | ERto => timer_on pre && (rto_limit <=? rto (SN pre))
              | _ => false end)) in
  (* an expiry of the running timer: explicit failure at the limit, otherwise back-off and a
     retransmission of the oldest unacknowledged segment when the peer's window is open *)
  let cr :=
    match o_ev o with
    | ERto =>
        if connected pre && timer_on pre then
          if rto_limit <=? rto (SN pre)
          then ck 22 (iserror post && existsb (fun f => isRst (f_flags f)) fr)
          else ck 22 ((rto (SN post) =? 2 * rto (SN pre)) && negb (iserror post) &&
                      match wlist pre with
                      | hd :: _ =>
                          implb' (empty_data hd || (0 <? sndWnd (SN pre)))
                                 (match fr with f :: _ => f_seq f =? sndUna (SN pre) | [] => false end)
                      | [] => true
                      end)
        else []
    | _ => [] end in
  (* write side: shutdown takes effect, nothing is accepted afterwards *)
  let cw :=
    match o_ev o, o_res o with
    | EShutW, RCount 0 => ck 24 (implb' (connected pre) (sndClosedE post))
    | EWrite _, RCount n => ck 24 (implb' (g_shut g) (n <=? 0))
    | _, _ => [] end in
  (* (c) reads and end of stream *)
  let crd :=
    match o_ev o with
    | ERead =>
        (match o_res o with
         | RBytes b => ck 25 (negb (g_eof g))
         | RErr e => if e =? -6 then ck 25 (existsb (Z.eqb (g_nread g)) (g_fins g)) else []
         | _ => [] end) ++
        (if connected pre then
           ck 26 (match rcvList pre, o_res o with
                  | [], RErr e => e =? (if rcvClosedE pre then -6 else -5)
                  | v :: _, RBytes b => zlist_eqb v b
                  | _, _ => false end)
         else [])
    | _ => [] end in
  (* receive side: closes exactly on a FIN that is next in sequence, is then frozen *)
  let cc :=
    (if rclosed (RC pre)
     then ck 27 (rclosed (RC post) && (rcvNxt (RC post) =? rcvNxt (RC pre)) &&
                 (lists_eqb (rcvList post) (rcvList pre) ||
                  match rcvList pre with _ :: r => lists_eqb (rcvList post) r | [] => false end))
     else if rclosed (RC post)
     then ck 27 (match o_ev o with ESeg _ _ => true | _ => false end &&
                 existsb (Z.eqb (w32 (rcvNxt (RC post) - irs - 2))) fins')
     else []) ++
    (match o_ev o with
     | ESeg s _ =>
         if isFin (s_flags s) && negb (rclosed (RC pre)) && (lenZ (pending (RC pre)) =? 0)
            && (rcvNxt (RC post) =? w32 (s_seq s + lenZ (s_data s) + 1))
            && negb (rcvNxt (RC post) =? rcvNxt (RC pre))
         then ck 28 (rclosed (RC post) && existsb (fun f => f_ack f =? rcvNxt (RC post)) fr)
         else []
     | _ => [] end) in
  let nread' := match o_res o with RBytes b => g_nread g + lenZ b | _ => g_nread g end in
  let eof' := match o_ev o, o_res o with ERead, RErr e => g_eof g || (e =? -6) | _, _ => g_eof g end in
  (mkG acc' shut' fins' eof' nread' dmax', cf ++ cs ++ ce ++ cr ++ cw ++ crd ++ cc).

Fixpoint trace_checks (iss irs : Z) (w : list Z) (g : ghost) (pre : tcp) (steps : list obs) : list Z :=
  match steps with
  | [] => []
  | o :: r =>
      let '(g', c) := step_checks iss irs w g pre o in
      c ++ trace_checks iss irs w g' (o_st o) r
  end.

(* identifiers of all failing checks of a case (for diagnosis) *)
Definition spec_why (c : case) : list Z :=
  match c with
  | CTrace cfg peer init steps =>
      let iss := cfg_get cfg 0 in
      let irs := cfg_get cfg 1 in
      let w := writes_of steps in
      ck 10 (is_prefix (reads_of steps) peer) ++
      (* a connection that ended in the closed state never sent a reset *)
      ck 30 (implb' (match rev steps with o :: _ => isclosed (o_st o) | [] => false end)
                    (negb (existsb (fun f => isRst (f_flags f)) (frames_of steps)))) ++
      trace_checks iss irs w (mkG 0 false [] false 0 0) init steps
  end.

(* 0 satisfied; 1 violated; 2 violated only in the known pattern C02-zero-window-stall *)
Definition spec (c : case) : Z :=
  let l := spec_why c in
  if existsb (fun x => negb (x =? 200)) l then 1
  else if existsb (Z.eqb 200) l then 2 else 0.

(* classes: 1 FIN sent, 2 FIN received (receive side closed), 4 closed state reached,
   8 zero send window seen, 16 retransmission time-out of a running timer *)
Definition tag (c : case) : Z :=
  match c with
  | CTrace _ _ init steps =>
      (if existsb (fun f => isFin (f_flags f)) (frames_of steps) then 1 else 0) +
      (if existsb (fun o => rclosed (RC (o_st o))) steps then 2 else 0) +
      (if existsb (fun o => isclosed (o_st o)) steps then 4 else 0) +
      (if existsb (fun o => sndWnd (SN (o_st o)) =? 0) steps then 8 else 0) +
      (if existsb (fun o => match o_ev o with ERto => true | _ => false end) steps then 16 else 0)
  end.

Definition judge (c : case) : list Z := [trace_corr c; spec c; tag c].
Definition judge_all (cs : list case) : list Z := flat_map judge cs.
