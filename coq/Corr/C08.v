(* Correspondence vocabulary for C08.  One case = one Fragmentation instance (limits, timeout)
   and the sequence of calls of the exported Fragmentation.Process made on it, each with what the
   implementation returned (done, bytes, Size() of the returned view, panicked) and a read-only
   snapshot taken after the call (f.size, len(f.reassemblers), ids in rList order).  [judge] is
   evaluated by vm_compute.  Concurrent delivery: [CConc] = one Fragmentation, K goroutines' call
   lists and a CONTROLLED schedule of mutex-protected phases with a snapshot after every step,
   compared with Model/FragConc.v; [CStress] = outcome of uncontrolled goroutines (monitor only).

   Byte strings are written as lists of segments so that 64 KB payloads stay cheap to parse:
   [Raw l] is the literal bytes, [Pat salt off len] is the position-dependent test pattern
   [patbyte salt i] for i in [off, off+len) (the driver builds datagrams from the same formula and
   run-length encodes what the implementation returned against it; the encoding is lossless, any
   byte that does not match is emitted as Raw). *)
From Coq Require Import ZArith Bool List.
From NP Require Import Model.Frag Model.FragConc.
Import ListNotations.
Open Scope Z_scope.

Inductive seg := Raw (l : list Z) | Pat (salt off len : Z).

(* patbyte salt i = low byte of i*31 + (i>>8)*7 + salt: neighbouring positions, positions 8 apart
   and positions 256 apart all differ; the period is 65536.  [pat_fuel] produces it incrementally
   ([x] = patbyte salt i, [lo] = i land 255). *)
Definition patbyte (salt i : Z) : Z := Z.land (i * 31 + Z.shiftr i 8 * 7 + salt) 255.
Fixpoint pat_fuel (fuel : nat) (x lo : Z) : list Z :=
  match fuel with
  | O => []
  | S k => x :: (if lo =? 255 then pat_fuel k (Z.land (x + 38) 255) 0
                 else pat_fuel k (Z.land (x + 31) 255) (lo + 1))
  end.
Definition seg_bytes (s : seg) : list Z :=
  match s with
  | Raw l => l
  | Pat salt off len => pat_fuel (Z.to_nat len) (patbyte salt off) (Z.land off 255)
  end.
Definition bytes_of (p : list seg) : list Z := flat_map seg_bytes p.

(* one call: inputs, then the implementation's outputs *)
Inductive op :=
| Op (id first last : Z) (more : bool) (pl : list seg) (now : Z)
     (done : bool) (ret : list seg) (rsize : Z) (panicked : bool)
     (fsize nmap : Z) (lids : list Z).

Inductive case :=
(* kind: 1 consistent fragments, no expiry, no eviction;  2 consistent fragments with expiry
   classes;  3 consistent fragments with small memory limits;  4 malformed stream.
   high/low/timeout = arguments of NewFragmentation (timeout in [now] units); dgs = id -> datagram *)
| CRun (kind high low timeout : Z) (dgs : list (Z * list seg)) (ops : list op)
(* hash.Hash3Words(a, b, c, initval) = r *)
| CHash (a b c iv r : Z)
(* concurrent delivery under a CONTROLLED schedule (harness/cmd/h_c08/conc.go): kind 5 exhaustive /
   sampled interleavings of 2 goroutines on one id, 6 random 3-goroutine schedules, 7 with
   reassembly timeouts ([now] = burst number of the call's phase-1 step, timeout 0), 8 small
   limits.  progs = per goroutine its calls with what the implementation returned; steps = the
   schedule, one entry per granted phase, with the snapshot taken after it *)
| CConc (kind high low timeout : Z) (dgs : list (Z * list seg)) (progs : list (list cop)) (steps : list cstepobs)
(* UNCONTROLLED stress outcome (plain goroutines; [count] rounds ended like this): goes through
   the monitor only, corr = 0 by construction *)
| CStress (high low : Z) (dgs : list (Z * list seg)) (progs : list (list cop)) (count : Z)
(* status: 0 returned not done, 1 returned done, 2 panicked (or hung), 3 never started *)
with cop := COp (id first last : Z) (more : bool) (pl : list seg) (now : Z) (status : Z) (ret : list seg) (rsize : Z)
with cstepobs := CS (t fsize nmap : Z) (lids : list Z).

Fixpoint list_eqb (a b : list Z) : bool :=
  match a, b with
  | [], [] => true
  | x :: a', y :: b' => (x =? y) && list_eqb a' b'
  | _, _ => false
  end.

(* a call with its byte strings expanded (done once per case, shared by corr and spec) *)
Inductive xop :=
| XOp (id first last : Z) (more : bool) (pl : list Z) (now : Z)
      (done : bool) (ret : list Z) (rsize : Z) (panicked : bool)
      (fsize nmap : Z) (lids : list Z).
Definition expand_op (o : op) : xop :=
  match o with
  | Op id first last more pl now done ret rsize panicked fsize nmap lids =>
      XOp id first last more (bytes_of pl) now done (bytes_of ret) rsize panicked fsize nmap lids
  end.
(* id -> (datagram bytes, their number) *)
Definition expand_dgs (dgs : list (Z * list seg)) : list (Z * (list Z * Z)) :=
  map (fun p => let d := bytes_of (snd p) in (fst p, (d, zlen d))) dgs.

(* ---------------------------------------------------------------- corr: model vs implementation *)
Definition ids_of (f : fstate) : list Z := map r_id (f_rs f).

Fixpoint corr_ops (f : fstate) (ops : list xop) : Z :=
  match ops with
  | [] => 0
  | XOp id first last more pl now done ret rsize panicked fsize nmap lids :: t =>
      let '(f', (mres, mdone, mpanic)) := fprocess f id first last more pl now in
      if Bool.eqb mdone done && Bool.eqb mpanic panicked && list_eqb mres ret
         && (zlen mres =? rsize)
         && (panicked || ((f_size f' =? fsize) && (Z.of_nat (length (f_rs f')) =? nmap)
                          && list_eqb (ids_of f') lids))
      then (if panicked then 0 else corr_ops f' t)   (* the driver stops a run at a panic *)
      else 1
  end.

Definition corr_run (high low timeout : Z) (xo : list xop) : Z :=
  corr_ops (newFragmentation high low timeout) xo.

(* ---- concurrent runs: the model Model/FragConc.v on the same programs and the same schedule.
   After EVERY step the model's (f.size, number of map entries, ids in list order) must be the
   snapshot; at the end every goroutine's sequence of results (bytes, done, panicked) must be the
   model's sequence of return / panic events of that thread. *)
Inductive xcop := XCop (id first last : Z) (more : bool) (pl : list Z) (now : Z) (status : Z) (ret : list Z) (rsize : Z).
Definition expand_cop (o : cop) : xcop :=
  match o with COp id first last more pl now status ret rsize => XCop id first last more (bytes_of pl) now status (bytes_of ret) rsize end.
Definition call_of (o : xcop) : call :=
  match o with XCop id first last more pl now _ _ _ => mkCall id first last more pl now end.

Fixpoint corr_steps (cf : conf) (steps : list cstepobs) : option conf :=
  match steps with
  | [] => Some cf
  | CS t fsize nmap lids :: r =>
      let cf' := cstep rprocess cf (Z.to_nat t) in
      let s := cf_s cf' in
      if (c_size s =? fsize) && (Z.of_nat (length (c_map s)) =? nmap)
         && list_eqb (map (fun o => r_id (getobj s o)) (c_list s)) lids
      then corr_steps cf' r else None
  end.

(* what the implementation reported for the calls of one goroutine that were started *)
Fixpoint impl_results (p : list xcop) : list (list Z * bool * bool) :=
  match p with
  | [] => []
  | XCop _ _ _ _ _ _ status ret _ :: t =>
      if status =? 3 then impl_results t
      else (ret, status =? 1, status =? 2) :: impl_results t
  end.
Fixpoint results_eqb (a b : list (list Z * bool * bool)) : bool :=
  match a, b with
  | [], [] => true
  | (r1, d1, p1) :: a', (r2, d2, p2) :: b' => list_eqb r1 r2 && Bool.eqb d1 d2 && Bool.eqb p1 p2 && results_eqb a' b'
  | _, _ => false
  end.
Definition model_results (t : nat) (tr : list ev) : list (list Z * bool * bool) :=
  map snd (filter (fun e => (fst e =? t)%nat) (rets tr)).
Fixpoint corr_threads (t : nat) (xp : list (list xcop)) (tr : list ev) : bool :=
  match xp with
  | [] => true
  | p :: r => results_eqb (impl_results p) (model_results t tr) && corr_threads (S t) r tr
  end.

Definition corr_conc (high low timeout : Z) (xp : list (list xcop)) (steps : list cstepobs) : Z :=
  match corr_steps (cinit high low timeout (map (map call_of) xp)) steps with
  | None => 1
  | Some cf => if corr_threads 0 xp (trace (cf_s cf)) then 0 else 1
  end.

Definition corr (c : case) : Z :=
  match c with
  | CRun _ high low timeout _ ops => corr_run high low timeout (map expand_op ops)
  | CHash a b c iv r => if hash3words a b c iv =? r then 0 else 1
  | CConc _ high low timeout _ progs steps => corr_conc high low timeout (map (map expand_cop) progs) steps
  | CStress _ _ _ _ _ => 0
  end.

(* ---------------------------------------------------------------- spec: property monitor
   Written from the property text, independently of the model functions: for a stream of
   consistent fragments the oracle tracks, per id, the (first,last) ranges seen since the current
   reassembly started (it starts with the first fragment after a delivery, or after the
   reassembly timeout measured from that first fragment) and demands
     done  <->  those ranges cover [0,|D|),   bytes = D when done,   nothing otherwise.
   For every stream: no panic, bytes only when done, Size() = number of bytes, and the memory
   accounting invariants ([acct_ok]). *)
Fixpoint dg_lookup (id : Z) (dgs : list (Z * (list Z * Z))) : option (list Z * Z) :=
  match dgs with
  | [] => None
  | (i, d) :: t => if i =? id then Some d else dg_lookup id t
  end.

(* pl is a prefix of l *)
Fixpoint is_prefix (pl l : list Z) : bool :=
  match pl, l with
  | [], _ => true
  | x :: pl', y :: l' => (x =? y) && is_prefix pl' l'
  | _ :: _, [] => false
  end.
(* the call describes a fragment of D (n = |D|): 8-aligned first, inside D, payload = D[first..last],
   more <-> it does not end the datagram *)
Definition is_frag_of (D : list Z) (n first last : Z) (more : bool) (pl : list Z) : bool :=
  (0 <=? first) && (first mod 8 =? 0) && (first <=? last) && (last <? n)
  && (zlen pl =? last - first + 1) && is_prefix pl (zdrop first D) && Bool.eqb more (last <? n - 1).

(* memory accounting, for every stream (property clause: f.size is the number of stored payload
   bytes, never negative; map and list hold the same reassemblers; after a call either the high
   limit is respected or the eviction walk reached the low limit or emptied the list).
   lowc = the low limit as NewFragmentation clamps it: max 0 (min low high). *)
Fixpoint nodupb (l : list Z) : bool :=
  match l with [] => true | x :: t => negb (existsb (Z.eqb x) t) && nodupb t end.
Definition acct_ok (high low fsize nmap : Z) (lids : list Z) : bool :=
  let lowc := Z.max 0 (Z.min low high) in
  (0 <=? fsize) && (Z.of_nat (length lids) =? nmap) && nodupb lids
  && ((fsize <=? high) || (fsize <=? lowc) || (nmap =? 0)).

(* oracle state: per id (ranges seen in the current reassembly, (time of its first fragment,
   (bytes of that first fragment, bytes of all fragments of the reassembly))) *)
Definition oval := (list (Z * Z) * (Z * (Z * Z)))%type.
Definition ost := list (Z * oval).
Fixpoint ost_get (id : Z) (s : ost) : option oval :=
  match s with [] => None | (i, v) :: t => if i =? id then Some v else ost_get id t end.
Fixpoint ost_del (id : Z) (s : ost) : ost :=
  match s with [] => [] | (i, v) :: t => if i =? id then ost_del id t else (i, v) :: ost_del id t end.
Definition ost_lo (s : ost) : Z := fold_right (fun e acc => fst (snd (snd (snd e))) + acc) 0 s.
Definition ost_hi (s : ost) : Z := fold_right (fun e acc => snd (snd (snd (snd e))) + acc) 0 s.
Definition ost_has (s : ost) (id : Z) : bool := match ost_get id s with Some _ => true | None => false end.

(* exact = the oracle predicts done (kinds 1, 2: no eviction); then it also predicts which ids
   have a reassembly in progress and brackets f.size: the first fragment of a reassembly is always
   stored, and nothing but the fragments passed since then can be.  Otherwise (kind 3: eviction
   may drop reassemblies) done may only be claimed when the oracle's ranges cover, and the
   returned bytes must be D. *)
Fixpoint spec_consistent (exact : bool) (high low timeout : Z) (dgs : list (Z * (list Z * Z))) (s : ost) (ops : list xop) : Z :=
  match ops with
  | [] => 0
  | XOp id first last more pl now done rb rsize panicked fsize nmap lids :: t =>
      match dg_lookup id dgs with
      | None => 1
      | Some (D, n) =>
          if negb (is_frag_of D n first last more pl) then 1 else
          let len := last - first + 1 in
          let '(seen, (t0, (lo, hi))) :=
            match ost_get id s with
            | Some (seen, (t0, lh)) => if timeout <? now - t0 then ([], (now, (len, 0))) else (seen, (t0, lh))
            | None => ([], (now, (len, 0)))
            end in
          let seen' := seen ++ [(first, last)] in
          let cov := coveredb seen' n in
          if panicked then 1
          else if negb (zlen rb =? rsize) then 1
          else if done && negb cov then 1
          else if exact && cov && negb done then 1
          else if done && negb (list_eqb rb D) then 1
          else if negb done && negb (list_eqb rb []) then 1
          else if negb (acct_ok high low fsize nmap lids) then 1
          else
            (* not exact (kind 3): an eviction may have dropped fragments, so the ranges keep
               accumulating until a delivery: "done -> covered" stays a sound requirement *)
            let s' := if done then ost_del id s else (id, (seen', (t0, (lo, hi + len)))) :: ost_del id s in
            if exact && negb ((nmap =? Z.of_nat (length s')) && forallb (ost_has s') lids
                              && (ost_lo s' <=? fsize) && (fsize <=? ost_hi s')) then 1
            else spec_consistent exact high low timeout dgs s' t
      end
  end.

Fixpoint spec_any (high low : Z) (ops : list xop) : Z :=
  match ops with
  | [] => 0
  | XOp _ _ _ _ _ _ done rb rsize panicked fsize nmap lids :: t =>
      if panicked then 1
      else if negb (zlen rb =? rsize) then 1
      else if negb done && negb (list_eqb rb []) then 1
      else if negb (acct_ok high low fsize nmap lids) then 1
      else spec_any high low t
  end.

Definition spec_run (kind high low timeout : Z) (xd : list (Z * (list Z * Z))) (xo : list xop) : Z :=
  if (kind =? 1) || (kind =? 2) then spec_consistent true high low timeout xd [] xo
  else if kind =? 3 then spec_consistent false high low timeout xd [] xo
  else spec_any high low xo.

(* ---- concurrent runs: the monitor, on the implementation's observations only (written from the
   property text, independent of Model/FragConc.v):
   - no call panicked (or hung);
   - a call returns bytes only with done, and Size() is the number of bytes;
   - every call's id has a datagram D in dgs and the call is a consistent fragment of D (the
     generator's promise); a call that returned done returned exactly D;
   - the number of calls on an id that returned done is at most the number of complete fragment
     sets the started calls on that id can supply: the least multiplicity with which a byte position of
     [0,|D|) is covered by them (each fragment is handed to exactly one reassembler, a delivery needs
     every position covered inside one reassembler).  The multiplicity is piecewise constant with
     breakpoints at the fragments' firsts and last+1s, so it is evaluated there and at 0.  With the
     duplicate-of-the-completing-fragment shapes the bound is 1: "at most one call returned done";
   - every snapshot: f.size >= 0, the map has as many entries as the list, list ids pairwise distinct. *)
Definition xc_id (o : xcop) : Z := match o with XCop id _ _ _ _ _ _ _ _ => id end.
Definition xc_status (o : xcop) : Z := match o with XCop _ _ _ _ _ _ st _ _ => st end.
Definition mult_at (calls : list xcop) (x : Z) : Z :=
  fold_right (fun o acc => match o with XCop _ first last _ _ _ st _ _ =>
                if negb (st =? 3) && (first <=? x) && (x <=? last) then 1 + acc else acc end) 0 calls.
Definition min_mult (calls : list xcop) (n : Z) : Z :=
  let cands := 0 :: flat_map (fun o => match o with XCop _ first last _ _ _ _ _ _ => [first; last + 1] end) calls in
  fold_right (fun x acc => if (0 <=? x) && (x <? n) then Z.min acc (mult_at calls x) else acc) (mult_at calls 0) cands.
Definition count_done (calls : list xcop) : Z :=
  fold_right (fun o acc => if xc_status o =? 1 then 1 + acc else acc) 0 calls.

Definition call_okb (dgs : list (Z * (list Z * Z))) (o : xcop) : bool :=
  match o with
  | XCop id first last more pl _ st ret rsize =>
      match dg_lookup id dgs with
      | None => false
      | Some (D, n) =>
          is_frag_of D n first last more pl
          && negb (st =? 2)
          && ((st =? 3) || (zlen ret =? rsize))
          && (negb (st =? 0) || list_eqb ret [])
          && (negb (st =? 1) || list_eqb ret D)
          && (negb (st =? 3) || list_eqb ret [])
      end
  end.

(* [lower]: the run can neither time a reassembler out nor evict one (default limits, no clock
   jumps); then a reassembler is only ever released by the completion of its datagram, so when the
   started calls on an id cover the datagram at least once, at least one of them returned it *)
Definition id_okb (lower : bool) (calls : list xcop) (d : Z * (list Z * Z)) : bool :=
  let mine := filter (fun o => xc_id o =? fst d) calls in
  (count_done mine <=? min_mult mine (snd (snd d)))
  && (negb lower || (min_mult mine (snd (snd d)) <? 1) || (1 <=? count_done mine)).

Definition snap_okb (st : cstepobs) : bool :=
  match st with CS _ fsize nmap lids => (0 <=? fsize) && (Z.of_nat (length lids) =? nmap) && nodupb lids end.

Definition spec_conc (lower : bool) (xd : list (Z * (list Z * Z))) (xp : list (list xcop)) (steps : list cstepobs) : Z :=
  let calls := concat xp in
  if forallb (call_okb xd) calls && forallb (id_okb lower calls) xd && forallb snap_okb steps then 0 else 1.
(* controlled runs of kind 5 (two goroutines, one id) and 6 (random three-goroutine runs) use the
   default limits and no clock jumps; 7 = eviction runs, 8 = timeout runs *)
Definition lower_kind (kind : Z) : bool := (kind =? 5) || (kind =? 6).

Definition spec (c : case) : Z :=
  match c with
  | CRun kind high low timeout dgs ops => spec_run kind high low timeout (expand_dgs dgs) (map expand_op ops)
  | CHash a b c iv r => if (0 <=? r) && (r <? 2^32) then 0 else 1
  | CConc kind _ _ _ dgs progs steps => spec_conc (lower_kind kind) (expand_dgs dgs) (map (map expand_cop) progs) steps
  | CStress _ _ dgs progs _ => spec_conc true (expand_dgs dgs) (map (map expand_cop) progs) []
  end.

(* tag: 0 = trivial (no call); kind (1..4) when no call returned a datagram; kind + 4 (5..8) when
   at least one did; 9 = Hash3Words; controlled concurrent runs: 10 + 2*(kind-5) (10, 12, 14, 16) when
   nothing was delivered, +1 (11, 13, 15, 17) when a datagram was; 18 = uncontrolled stress outcome *)
Definition any_cdone (progs : list (list cop)) : bool :=
  existsb (existsb (fun o => match o with COp _ _ _ _ _ _ st _ _ => st =? 1 end)) progs.
Definition any_done (ops : list op) : bool :=
  existsb (fun o => match o with Op _ _ _ _ _ _ done _ _ _ _ _ _ => done end) ops.
Definition tag (c : case) : Z :=
  match c with
  | CRun kind _ _ _ _ ops =>
      match ops with [] => 0 | _ => if any_done ops then kind + 4 else kind end
  | CHash _ _ _ _ _ => 9
  | CConc kind _ _ _ _ progs steps =>
      match steps with [] => 0 | _ => 10 + 2 * (kind - 5) + (if any_cdone progs then 1 else 0) end
  | CStress _ _ _ _ _ => 18
  end.

(* judge c = [corr c; spec c; tag c], with the byte strings of a run expanded once *)
Definition judge (c : case) : list Z :=
  match c with
  | CRun kind high low timeout dgs ops =>
      let xo := map expand_op ops in
      [corr_run high low timeout xo; spec_run kind high low timeout (expand_dgs dgs) xo; tag c]
  | CHash _ _ _ _ _ => [corr c; spec c; tag c]
  | CConc kind high low timeout dgs progs steps =>
      let xp := map (map expand_cop) progs in
      [corr_conc high low timeout xp steps; spec_conc (lower_kind kind) (expand_dgs dgs) xp steps; tag c]
  | CStress _ _ _ _ _ => [corr c; spec c; tag c]
  end.
Lemma judge_eq : forall c, judge c = [corr c; spec c; tag c].
Proof. destruct c; reflexivity. Qed.
Definition judge_all (cs : list case) : list Z := flat_map judge cs.
