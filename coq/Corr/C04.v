(* C04 correspondence: lock-step TCP traces (Corr/TcpTrace.v) + the window/MSS monitor.
   [spec] looks only at what the IMPLEMENTATION did in the trace (events, state snapshots, emitted
   frames, application results); it never calls Model.Tcp.step or any model function (only the
   record projections of the trace vocabulary and plain arithmetic). *)
From Coq Require Import ZArith List Bool.
From NP Require Export Model.Seqnum Model.Tcp Corr.TcpTrace.
Import ListNotations.
Open Scope Z_scope.

Definition case := TcpTrace.case.

(* ---- plain arithmetic on 32-bit sequence numbers ---- *)
Definition w32 (x : Z) : Z := x mod 4294967296.
(* signed distance from b to a, in [-2^31, 2^31) *)
Definition sdiff (a b : Z) : Z :=
  let d := w32 (a - b) in if 2147483648 <=? d then d - 4294967296 else d.
Definition bit (fl m : Z) : bool := negb (Z.land fl m =? 0).
Definition flen (f : frame) : Z := Z.of_nat (length (f_data f)).
Definition isRst (f : frame) : bool := bit (f_flags f) 4.
Definition zmin (a b : Z) : Z := if a <? b then a else b.
Definition blen (l : list Z) : Z := Z.of_nat (length l).

(* code combination: 0 ok, 1 violation, 2 = known pattern C04-edge-rounding; 1 dominates *)
Definition comb (a b : Z) : Z := if (a =? 1) || (b =? 1) then 1 else Z.max a b.
Definition viol (b : bool) : Z := if b then 1 else 0.

(* tag bits *)
Definition tZeroOwn := 1.        (* the stack advertised a zero window *)
Definition tWndLimited := 2.     (* new data was cut exactly at the peer's right edge *)
Definition tPeerScaled := 4.     (* a peer window was scaled (sndWndScale > 0) *)
Definition tOwnScaled := 8.      (* own window advertised with rcvWndScale > 0 *)
Definition tSmallBuf := 16.      (* receive buffer <= 4096 *)
Definition tRexmitShrunk := 32.  (* retransmission beyond a window the peer shrank *)
Definition tPeerZero := 64.      (* peer advertised zero window while data was waiting *)
Definition tInOrder := 128.      (* in-order data inside the advertised window was delivered *)
Definition tReopen := 256.       (* window update after the application read *)
Definition tBufFull := 512.      (* receive buffer full in a snapshot *)
Definition tRounding := 1024.    (* advertised edge moved left by rounding (known pattern) *)

Record mon := mkMon {
  m_prev : tcp;          (* previous snapshot *)
  m_hi : Z;              (* highest sequence end emitted so far *)
  m_edge : Z;            (* right edge advertised by the last non-RST frame *)
  m_wnd : Z;             (* raw window of the last non-RST frame *)
  m_maxpe : Z;           (* highest right edge the peer has offered so far *)
  m_rd : Z;              (* bytes the application has read so far *)
  m_cover : Z;           (* stream offset up to which not-wholly-outside segments cover the stream *)
  m_ivs : list (Z * Z);  (* offset intervals of the segments that were not wholly outside the window *)
  m_code : Z;
  m_tags : Z }.

(* extend [cover] through the intervals (fuel = number of intervals + 1 passes) *)
Fixpoint cover_pass (ivs : list (Z * Z)) (c : Z) : Z :=
  match ivs with
  | [] => c
  | (a, b) :: r => cover_pass r (if (a <=? c) && (c <? b) then b else c)
  end.
Fixpoint cover_fix (fuel : nat) (ivs : list (Z * Z)) (c : Z) : Z :=
  match fuel with
  | O => c
  | S f => let c' := cover_pass ivs c in if c' =? c then c else cover_fix f ivs c'
  end.

(* per-frame checks; acc = (hi, edge, wnd, code, tags) *)
Record facc := mkFacc { a_hi : Z; a_edge : Z; a_wnd : Z; a_code : Z; a_tags : Z }.

Definition frame_check (mss mtu iphdr : Z) (st : tcp) (s : Z) (maxpe : Z) (a : facc) (f : frame) : facc :=
  let una := sndUna (SN st) in
  let edgeP := w32 (una + sndWnd (SN st)) in
  let n := flen f in
  let endd := w32 (f_seq f + n) in
  let isnew := 0 <? sdiff endd (a_hi a) in
  let inwin := (sdiff endd edgeP <=? 0) && (0 <=? sdiff (f_seq f) una) in
  (* (a) new data never beyond the window in force; old data never beyond any edge ever offered *)
  let va := (0 <? n) && negb inwin && (isnew || (0 <? sdiff endd maxpe)) in
  (* (b) segment size: sender limit, peer MSS option, MTU *)
  let hdr := 20 + iphdr + (if tsOk st then 12 else 0) in
  let vb := (maxPayload (SN st) <? n) || (negb (mss =? 0) && (mss <? n)) || ((0 <? n) && (mtu <? n + hdr)) in
  let endf := w32 (endd + (if bit (f_flags f) 1 then 1 else 0)) in
  let hi' := if 0 <? sdiff endf (a_hi a) then endf else a_hi a in
  let t1 := (if (0 <? n) && isnew && (endd =? edgeP) then tWndLimited else 0) in
  let t2 := (if (0 <? n) && negb isnew && negb inwin then tRexmitShrunk else 0) in
  if isRst f then
    mkFacc hi' (a_edge a) (a_wnd a) (comb (a_code a) (viol (va || vb))) (Z.lor (a_tags a) (Z.lor t1 t2))
  else
    (* (c) the advertised right edge never moves left, never exceeds rcvAcc *)
    let ed := w32 (f_ack f + Z.shiftl (f_wnd f) s) in
    let d := sdiff ed (a_edge a) in
    let cc := if d <? 0 then (if (0 <? s) && (- Z.shiftl 1 s <? d) then 2 else 1) else 0 in
    let vacc := (0 <? sdiff ed (rcvAcc (RC st))) || (65535 <? f_wnd f) in
    let t3 := (if f_wnd f =? 0 then tZeroOwn else 0) in
    let t4 := (if 0 <? s then tOwnScaled else 0) in
    let t5 := (if cc =? 2 then tRounding else 0) in
    mkFacc hi' ed (f_wnd f) (comb (comb (a_code a) (viol (va || vb || vacc))) cc)
           (Z.lor (a_tags a) (Z.lor (Z.lor t1 t2) (Z.lor t3 (Z.lor t4 t5)))).

Definition nonrst (fr : list frame) : list frame := filter (fun f => negb (isRst f)) fr.

Definition mon_step (cfg peer : list Z) (m : mon) (o : obs) : mon :=
  let irs := cfg_get cfg 1 in
  let mss := cfg_get cfg 2 in
  let mtu := if cfg_get cfg 3 =? 0 then 1500 else cfg_get cfg 3 in
  let iphdr := if cfg_get cfg 4 =? 0 then 20 else 40 in
  let prev := m_prev m in
  let st := o_st o in
  let fr := o_frames o in
  let s := rcvWndScale (RC prev) in
  (* was the segment handed to the established-state processing? *)
  let processed := match o_ev o with
                   | ESeg g _ => (estate prev =? 0) && negb (bit (s_flags g) 4) && bit (s_flags g) 16
                                 && negb (tsOk prev && negb (s_ts g))
                   | _ => false end in
  (* (a1) incoming windows are scaled by the negotiated shift before use *)
  let va1 := match o_ev o with
             | ESeg g _ => processed && negb (sndWnd (SN st) =? w32 (Z.shiftl (s_wnd g) (sndWndScale (SN prev))))
             | _ => false end in
  let vscale := negb (sndWndScale (SN st) =? sndWndScale (SN prev)) || negb (rcvWndScale (RC st) =? s)
                || (maxPayload (SN prev) <? maxPayload (SN st)) in
  let edgeP := w32 (sndUna (SN st) + sndWnd (SN st)) in
  let maxpe := if 0 <? sdiff edgeP (m_maxpe m) then edgeP else m_maxpe m in
  let a := fold_left (frame_check mss mtu iphdr st s maxpe) fr
                     (mkFacc (m_hi m) (m_edge m) (m_wnd m) 0 0) in
  let nr := nonrst fr in
  (* (w) the last frame advertises exactly the scaled, clamped distance rcvNxt..rcvAcc *)
  let vw := match rev nr with
            | f :: _ => negb (f_ack f =? rcvNxt (RC st))
                        || negb (f_wnd f =? zmin 65535 (Z.shiftr (w32 (rcvAcc (RC st) - f_ack f)) s))
            | [] => false end in
  (* (e1) receive buffer full: every frame of this step advertises a zero window *)
  let full := rcvBufSize st <=? rcvBufUsed st in
  let ve1 := full && existsb (fun f => negb (f_wnd f =? 0)) nr in
  (* (d) delivery *)
  let queued_prev := blen (concat (rcvList prev)) in
  let delivered_prev := m_rd m + queued_prev in
  let '(ivs, cover) :=
    match o_ev o with
    | ESeg g _ =>
        let n := blen (s_data g) in
        if 0 <? n then
          let off := sdiff (s_seq g) (w32 (irs + 1)) in
          let nxto := w32 (rcvNxt (RC prev) - irs - 1) in
          let acco := nxto + w32 (rcvAcc (RC prev) - rcvNxt (RC prev)) in
          let outside := (off + n <=? nxto) || (acco <=? off) in
          if outside then (m_ivs m, m_cover m)
          else let ivs := (off, off + n) :: m_ivs m in (ivs, cover_fix (S (length ivs)) ivs (m_cover m))
        else (m_ivs m, m_cover m)
    | _ => (m_ivs m, m_cover m)
    end in
  let '(rd, vread) := match o_res o with
                      | RBytes b => (m_rd m + blen b, negb (is_slice peer b (m_rd m)))
                      | _ => (m_rd m, false) end in
  let queued := concat (rcvList st) in
  let delivered := rd + blen queued in
  let vd := vread || negb (is_slice peer queued rd) || (cover <? delivered) in
  (* (d+) in-order data that fits the advertised window is delivered in this very step *)
  let inorder := match o_ev o with
                 | ESeg g _ => processed && negb (rclosed (RC prev)) && (0 <? blen (s_data g))
                               && (s_seq g =? w32 (irs + 1 + delivered_prev))
                               && (sdiff (w32 (s_seq g + blen (s_data g))) (m_edge m) <=? 0)
                 | _ => false end in
  let vdp := match o_ev o with
             | ESeg g _ => inorder && (delivered <? delivered_prev + blen (s_data g))
             | _ => false end in
  (* (e2) first read that reopens a window advertised as zero: a window update must go out *)
  let avail := if rcvBufSize st <=? rcvBufUsed st then 0 else rcvBufSize st - rcvBufUsed st in
  let reopen := match o_ev o, o_res o with
                | ERead, RBytes _ => (estate st =? 0) && (m_wnd m =? 0) && (0 <? Z.shiftr avail s)
                | _, _ => false end in
  let ve2 := reopen && negb (existsb (fun f => 0 <? f_wnd f) nr) in
  let tags := Z.lor (a_tags a)
               (Z.lor (if processed && (0 <? sndWndScale (SN prev)) then tPeerScaled else 0)
               (Z.lor (if rcvBufSize st <=? 4096 then tSmallBuf else 0)
               (Z.lor (if (sndWnd (SN st) =? 0) && negb (Nat.eqb (length (wunsent (SN st))) 0) then tPeerZero else 0)
               (Z.lor (if inorder then tInOrder else 0)
               (Z.lor (if reopen then tReopen else 0)
                      (if full then tBufFull else 0)))))) in
  mkMon st (a_hi a) (a_edge a) (a_wnd a) maxpe rd cover ivs
        (comb (m_code m) (comb (a_code a) (viol (va1 || vscale || vw || ve1 || vd || vdp || ve2))))
        (Z.lor (m_tags m) tags).

(* (h) what the handshake left behind: the window field of the peer's SYN-ACK is never scaled
   (RFC 7323 2.2) and the send scale is the one the peer offered (none offered: 0).  cfg 5 = window
   field of the SYN-ACK, cfg 6 = the peer's scale option (-1 = absent; the stack always offers one). *)
Definition hs_viol (cfg : list Z) (init : tcp) : bool :=
  if Nat.ltb (length cfg) 7 then false
  else negb (sndWnd (SN init) =? cfg_get cfg 5)
       || negb (sndWndScale (SN init) =? Z.max 0 (cfg_get cfg 6))
       (* the stack's own scale is the shift it announced in its SYN (cfg 12; -1 = none) whenever
          the peer sent the option at all - a peer shift of 0 included - and 0 otherwise: the peer
          reads every later window field as field << announced shift *)
       || (Nat.leb 13 (length cfg)
           && negb (rcvWndScale (RC init) =? (if cfg_get cfg 6 <? 0 then 0 else Z.max 0 (cfg_get cfg 12)))).

Definition mon_init (cfg : list Z) (init : tcp) : mon :=
  let irs := cfg_get cfg 1 in
  let s := rcvWndScale (RC init) in
  let w0 := zmin 65535 (Z.shiftr (w32 (rcvAcc (RC init) - rcvNxt (RC init))) s) in
  mkMon init (sndNxt (SN init)) (w32 (rcvNxt (RC init) + Z.shiftl w0 s)) w0
        (w32 (sndUna (SN init) + (if Nat.ltb (length cfg) 7 then sndWnd (SN init) else cfg_get cfg 5))) 0
        (w32 (rcvNxt (RC init) - irs - 1)) [] (viol (hs_viol cfg init)) 0.

Definition mon_run (c : case) : mon :=
  match c with
  | CTrace cfg peer init steps => fold_left (mon_step cfg peer) steps (mon_init cfg init)
  end.

(* 0 = satisfied; 1 = violated; 2 = violated only in the known pattern C04-edge-rounding (with a
   receive window scale > 0 the advertised right edge moved left by less than 2^scale) *)
Definition spec (c : case) : Z := m_code (mon_run c).

(* bit set of the non-trivial classes the trace reached (0 = trivial) *)
Definition tag (c : case) : Z := m_tags (mon_run c).

(* = [trace_corr c; spec c; tag c], with the monitor run once *)
Definition judge (c : case) : list Z := let m := mon_run c in [trace_corr c; m_code m; m_tags m].
Definition judge_all (cs : list case) : list Z := flat_map judge cs.
