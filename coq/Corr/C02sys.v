(* C02, second phase: TWO REAL endpoints of the implementation joined by a driver-controlled network
   (harness/cmd/h_tcp2), in lock step with the closed-system model of Proofs/TcpNetP.v
   ([sys_step]: a network move hands an endpoint a copy of the k-th frame the other one has emitted
   so far), in the incremental form [Model.TcpSys.isys_step] (proved equal to [sys_run] in
   Proofs/TcpSysLiveBaseP.v).
   A case = the handshake's parameters, both initial snapshots, and for every move: the move, both
   snapshots after it ([None] = the driver compared the snapshot field by field with the previous
   one of that endpoint and found it identical), the frames either side emitted in that move, and
   the application-visible result.  kind 1 = a pumped schedule (fair pump with a drop set, see
   Model/TcpSys.v), kind 2 = a random closed-system schedule.
   [corr]: first divergence between the model and the implementation (states of BOTH endpoints,
   frames of both, result), and both initial snapshots against Model/TcpEst.v.
   [spec]: the property monitor; looks at the implementation's observations only, never calls the
   model's step.
   Loss of handshake packets is out of scope here (the driver shuttles the three handshake packets
   without loss; the handshake runs in real time inside handshake.execute). *)
From Coq Require Import ZArith List Bool.
From NP Require Export Model.Seqnum Model.Tcp Corr.TcpTrace Proofs.TcpNetP.
From NP Require Import Model.TcpSys.
From NP Require Model.TcpHs Model.TcpEst.
Import ListNotations.
Open Scope Z_scope.

Record sobs := mkO2 {
  so_mv : move;
  so_a : option tcp; so_b : option tcp;          (* snapshots after the move; None = unchanged *)
  so_fa : list frame; so_fb : list frame;        (* frames emitted in this move by A / by B *)
  so_res : result }.

(* cfg = [issA; issB; window field of A's SYN; window field of B's SYN-ACK;
          SYN options: MSS; WS (-1 absent); timestamps; SACK-permitted;
          SYN-ACK options: MSS; WS; timestamps; SACK-permitted;
          stack SACK of A; of B; rcvBuf A; sndBuf A; rcvBuf B (the listener's); sndBuf B; link MTU A; B]
   drops = the drop set of a pumped schedule: k = A's k-th frame, 1000 + k = B's k-th frame *)
Inductive case := CSys (kind : Z) (cfg : list Z) (drops : list Z) (a0 b0 : tcp) (steps : list sobs).

Definition upd (prev : tcp) (o : option tcp) : tcp := match o with Some t => t | None => prev end.

(* ------------------------------------------------------------------ correspondence *)

(* codes: 1000*k + 1 A's state differs after move k, + 2 B's state, + 3 A's frames, + 4 B's frames,
   + 5 the result *)
Fixpoint corr_from (k : Z) (s : sys) (ia ib : tcp) (steps : list sobs) : Z :=
  match steps with
  | [] => 0
  | o :: rest =>
      let '(s', r) := isys_step s (so_mv o) in
      let ia' := upd ia (so_a o) in
      let ib' := upd ib (so_b o) in
      let fa := skipn (length (oA s)) (oA s') in
      let fb := skipn (length (oB s)) (oB s') in
      if negb (zlist_eqb (encList encF fa) (encList encF (so_fa o))) then 1000 * k + 3
      else if negb (zlist_eqb (encList encF fb) (encList encF (so_fb o))) then 1000 * k + 4
      else if negb (zlist_eqb (encT (sA s')) (encT ia')) then 1000 * k + 1
      else if negb (zlist_eqb (encT (sB s')) (encT ib')) then 1000 * k + 2
      else if negb (zlist_eqb (encRes r) (encRes (so_res o))) then 1000 * k + 5
      else corr_from (k + 1) s' ia' ib' rest
  end.

(* the states the handshake leaves behind: A's against active_established (fed with what B's
   SYN-ACK carried), B's against passive_established (fed with what A's SYN carried), and the pair
   against est_pair (the function of the two stacks' configurations the bounded theorems start from).
   1 = A differs, 2 = B differs, 3 = est_pair differs *)
Definition init_corr (cfg : list Z) (a0 b0 : tcp) : Z :=
  if Nat.ltb (length cfg) 20 then 0 else
  let g := fun i => nth i cfg 0 in
  let nz := fun i => negb (g i =? 0) in
  let syn := TcpHs.mkSO (g 4%nat) (g 5%nat) (nz 6%nat) (nz 7%nat) in
  let synack := TcpHs.mkSO (g 8%nat) (g 9%nat) (nz 10%nat) (nz 11%nat) in
  let ea := TcpEst.active_established (g 0%nat) (g 1%nat) (g 3%nat) synack (nz 12%nat) (g 14%nat) (g 15%nat) (g 18%nat) 20 in
  let eb := TcpEst.passive_established (g 1%nat) (g 0%nat) (g 2%nat) syn (nz 13%nat) (g 16%nat) (g 17%nat) (g 19%nat - 20) in
  match ea with
  | None => 1
  | Some a =>
      if negb (zlist_eqb (encT a) (encT a0)) then 1
      else if negb (zlist_eqb (encT eb) (encT b0)) then 2
      else match est_pair (g 0%nat) (g 1%nat) (g 18%nat) (g 19%nat) (g 14%nat) (g 15%nat) (g 16%nat) (g 17%nat)
                          (nz 12%nat) (nz 13%nat) with
           | Some (a', b') => if zlist_eqb (encT a') (encT a0) && zlist_eqb (encT b') (encT b0) then 0 else 3
           | None => 3
           end
  end.

Definition corr (c : case) : Z :=
  match c with
  | CSys _ cfg _ a0 b0 steps =>
      let i := init_corr cfg a0 b0 in
      if negb (i =? 0) then i else corr_from 1 (sys0 a0 b0) a0 b0 steps
  end.

(* ------------------------------------------------------------------ the property monitor *)

Definition bit (fl m : Z) : bool := negb (Z.land fl m =? 0).
Definition isFin (fl : Z) : bool := bit fl 1.
Definition isRst (fl : Z) : bool := bit fl 4.
Definition lenZ {A} (l : list A) : Z := Z.of_nat (length l).
Definition connected (t : tcp) : bool := estate t =? 0.
Definition isclosed (t : tcp) : bool := estate t =? 1.
Definition iserror (t : tcp) : bool := estate t =? 2.
Definition rto_limit : Z := 60000000000.
Definition ck (id : Z) (ok : bool) : list Z := if ok then [] else [id].
Definition implb' (a b : bool) : bool := negb a || b.

(* one direction of the connection as the two applications see it *)
Record dir := mkDir {
  d_wr : list Z;     (* bytes the writer's writes were accepted for *)
  d_rd : list Z;     (* bytes the reader has read *)
  d_shut : bool;     (* the writer shut down its write side (successfully, while connected) *)
  d_eof : bool }.    (* the reader was told end of stream *)

(* an application call by the WRITER of direction d *)
Definition dir_writer (d : dir) (pre : tcp) (a : aev) (r : result) : dir * list Z :=
  match a, r with
  | AWrite b, RCount n =>
      (mkDir (d_wr d ++ (if n <=? lenZ b then firstn (Z.to_nat n) b else b)) (d_rd d) (d_shut d) (d_eof d),
       (* nothing is accepted after the shutdown, nor after the peer was told end of stream *)
       ck 45 (implb' (d_shut d || d_eof d) (n <=? 0)))
  | AShutW, RCount _ => (mkDir (d_wr d) (d_rd d) (d_shut d || connected pre) (d_eof d), [])
  | _, _ => (d, [])
  end.

(* an application call by the READER of direction d *)
Definition dir_reader (d : dir) (a : aev) (r : result) : dir * list Z :=
  match a, r with
  | ARead, RBytes b =>
      let rd := d_rd d ++ b in
      (mkDir (d_wr d) rd (d_shut d) (d_eof d),
       (* (i) C01: what was read is a prefix of what the other side's writes were accepted for;
          (ii) no data after end of stream *)
       ck 41 (is_prefix rd (d_wr d)) ++ ck 44 (negb (d_eof d)))
  | ARead, RErr e =>
      if e =? -6 then
        (mkDir (d_wr d) (d_rd d) (d_shut d) true,
         (* (ii) end of stream only after the writer shut down and after ALL bytes *)
         ck 43 (d_shut d && zlist_eqb (d_rd d) (d_wr d)))
      else (d, [])
  | _, _ => (d, [])
  end.

Record mon := mkMon {
  m_ab : dir; m_ba : dir;         (* A writes / B reads; B writes / A reads *)
  m_fa : list frame;              (* every frame A has emitted so far, oldest first *)
  m_fb : list frame;
  m_rto : bool;                   (* a retransmission time-out fired *)
  m_simul : bool;                 (* both sides had shut down before either had seen the other's FIN *)
  m_limit : Z }.                  (* number of endpoints that failed at the time-out limit (rto >= 60 s) *)

Definition mon0 : mon := mkMon (mkDir [] [] false false) (mkDir [] [] false false) [] [] false false 0.

Definition rst_at (l : list frame) (k : nat) : bool :=
  match nth_error l k with Some f => isRst (f_flags f) | None => false end.

Definition step_mon (m : mon) (pa pb : tcp) (o : sobs) (na nb : tcp) : mon * list Z :=
  let '(ab, ba, c) :=
    match so_mv o with
    | MAppA a => let '(ab', c1) := dir_writer (m_ab m) pa a (so_res o) in
                 let '(ba', c2) := dir_reader (m_ba m) a (so_res o) in (ab', ba', c1 ++ c2)
    | MAppB a => let '(ba', c1) := dir_writer (m_ba m) pb a (so_res o) in
                 let '(ab', c2) := dir_reader (m_ab m) a (so_res o) in (ab', ba', c1 ++ c2)
    | _ => (m_ab m, m_ba m, [])
    end in
  (* how a connected endpoint may fail: its own retransmission limit, or a reset that the OTHER
     endpoint really emitted (the network never forges one) and that is delivered to it now *)
  let a_may_fail := match so_mv o with
                    | MAppA ARto => rto_limit <=? rto (SN pa)
                    | MDeliverA k _ _ _ => rst_at (m_fb m) k
                    | _ => false end in
  let b_may_fail := match so_mv o with
                    | MAppB ARto => rto_limit <=? rto (SN pb)
                    | MDeliverB k _ _ _ => rst_at (m_fa m) k
                    | _ => false end in
  let is_rto := match so_mv o with MAppA ARto => true | MAppB ARto => true | _ => false end in
  let limit := match so_mv o with
               | MAppA ARto => if connected pa && (rto_limit <=? rto (SN pa)) && iserror na then 1 else 0
               | MAppB ARto => if connected pb && (rto_limit <=? rto (SN pb)) && iserror nb then 1 else 0
               | _ => 0 end in
  let simul := sndClosedE na && sndClosedE nb && negb (rclosed (RC na)) && negb (rclosed (RC nb)) in
  (mkMon ab ba (m_fa m ++ so_fa o) (m_fb m ++ so_fb o) (m_rto m || is_rto) (m_simul m || simul) (m_limit m + limit),
   c ++ ck 46 (implb' (connected pa && iserror na) a_may_fail)
     ++ ck 47 (implb' (connected pb && iserror nb) b_may_fail)
     (* the closed and the error state are final *)
     ++ ck 50 (implb' (negb (connected pa)) (estate na =? estate pa) && implb' (negb (connected pb)) (estate nb =? estate pb))).

Fixpoint run_mon (m : mon) (ia ib : tcp) (steps : list sobs) : mon * tcp * tcp * list Z :=
  match steps with
  | [] => (m, ia, ib, [])
  | o :: rest =>
      let na := upd ia (so_a o) in
      let nb := upd ib (so_b o) in
      let '(m', c) := step_mon m ia ib o na nb in
      let '(mf, fa, fb, c') := run_mon m' na nb rest in
      (mf, fa, fb, c ++ c')
  end.

(* the KNOWN finding C02-zero-window-stall (same pattern as Corr/C02.v check 200): a connected
   endpoint with data at writeNext, nothing in flight, a zero send window, the timer not running
   and room in the congestion window *)
Definition zw_stalled (t : tcp) : bool :=
  let s := SN t in
  connected t && (sndUna s =? sndNxt s) && negb (tstate s =? 1) && (outstanding s <? cwnd s) && (sndWnd s =? 0) &&
  match wunsent s with w :: _ => negb (lenZ (w_data w) =? 0) | [] => false end.

(* the final-ACK shape: endpoint X reached the closed state and the LAST frame it ever emitted (the
   acknowledgement that completes the closing exchange for its peer) is in the drop set; there is no
   TIME-WAIT state, a closed endpoint ignores every later segment, so the peer Y keeps
   retransmitting and fails EXPLICITLY at the retransmission limit (exactly one reset, emitted by
   the time-out at rto >= 60 s); everything was delivered with end of stream in both directions.
   The property text promises closed/closed only "when no packet of the closing exchange is lost";
   otherwise "the connection fails with an explicit error" - this is that case. *)
Definition last_dropped (drops : list Z) (base : Z) (emitted : list frame) : bool :=
  existsb (Z.eqb (base + lenZ emitted - 1)) drops && negb (lenZ emitted =? 0).

Definition spec_why (c : case) : list Z :=
  match c with
  | CSys kind cfg drops a0 b0 steps =>
      let '(m, fa, fb, cs) := run_mon mon0 a0 b0 steps in
      let fr := m_fa m ++ m_fb m in
      let nrst := lenZ (filter (fun f => isRst (f_flags f)) fr) in
      let complete :=
        zlist_eqb (d_rd (m_ab m)) (d_wr (m_ab m)) && zlist_eqb (d_rd (m_ba m)) (d_wr (m_ba m)) &&
        d_eof (m_ab m) && d_eof (m_ba m) in
      cs ++
      (* a reset is only ever emitted by an endpoint failing at the retransmission limit *)
      ck 48 (nrst =? m_limit m) ++
      (* a connection whose endpoints both ended closed never sent a reset *)
      ck 49 (implb' (isclosed fa && isclosed fb) (nrst =? 0)) ++
      (if kind =? 1 then
         (* (iii) a pumped schedule ends with both endpoints closed without error, everything
                  delivered followed by end of stream both ways, and no reset *)
         if isclosed fa && isclosed fb then ck 52 complete
         else if zw_stalled fa || zw_stalled fb then [200]
         else if complete && negb (lenZ drops =? 0) && (nrst =? 1) && (m_limit m =? 1) &&
                 ((isclosed fa && iserror fb && last_dropped drops 0 (m_fa m)) ||
                  (isclosed fb && iserror fa && last_dropped drops 1000 (m_fb m)))
         then [300]
         else [51]
       else [])
  end.

(* 0 satisfied; 1 violated; 2 violated only in the known pattern C02-zero-window-stall.
   The final-ACK shape (300) is what the property text allows after the loss of a packet of the
   closing exchange (an explicit failure, everything delivered): it is counted as satisfied and
   made visible by tag bit 64. *)
Definition spec (c : case) : Z :=
  let l := spec_why c in
  if existsb (fun x => negb (x =? 200) && negb (x =? 300)) l then 1
  else if existsb (Z.eqb 200) l then 2 else 0.

(* bits: 1 a frame was dropped, 2 a retransmission time-out fired, 4 both endpoints ended closed,
   8 data moved in both directions, 16 simultaneous close (both shut down before either saw the
   other's FIN), 32 random schedule, 64 ended in the final-ACK shape, 128 ended in the known
   zero-window stall *)
Definition tag (c : case) : Z :=
  match c with
  | CSys kind cfg drops a0 b0 steps =>
      let '(m, fa, fb, _) := run_mon mon0 a0 b0 steps in
      let why := spec_why c in
      (if lenZ drops =? 0 then 0 else 1) +
      (if m_rto m then 2 else 0) +
      (if isclosed fa && isclosed fb then 4 else 0) +
      (if negb (lenZ (d_rd (m_ab m)) =? 0) && negb (lenZ (d_rd (m_ba m)) =? 0) then 8 else 0) +
      (if m_simul m then 16 else 0) +
      (if kind =? 2 then 32 else 0) +
      (if existsb (Z.eqb 300) why then 64 else 0) +
      (if existsb (Z.eqb 200) why then 128 else 0)
  end.

Definition judge (c : case) : list Z := [corr c; spec c; tag c].
Definition judge_all (cs : list case) : list Z := flat_map judge cs.
