(* Proofs about Model/Ilist.v: the representation invariant of the intrusive doubly-linked list
   and its preservation by every list method. *)
From Coq Require Import ZArith List Lia Bool.
From NP Require Import Model.Ilist.
Import ListNotations.
Open Scope Z_scope.

(* [dseg nx pv from p l to lastp]: following [nx] from pointer [from] visits exactly the entries
   of [l] in order and arrives at pointer [to]; the [pv] field of each visited entry points to
   its predecessor ([p] for the first); [lastp] is the last entry visited ([p] if none). *)
Fixpoint dseg (nx pv : Z -> ptr) (from p : ptr) (l : list Z) (to lastp : ptr) : Prop :=
  match l with
  | [] => from = to /\ p = lastp
  | x :: l' => from = Some x /\ pv x = p /\ dseg nx pv (nx x) (Some x) l' to lastp
  end.

(* "the heap segment head -> tail represents list l, NoDup l, prev pointers mirror it" *)
Definition dll_repr (s : st) (l : list Z) : Prop :=
  NoDup l /\ dseg (nxt s) (prv s) (lhead s) None l None (ltail s).

Lemma upd_same : forall f k v, upd f k v k = v.
Proof. intros f k v. unfold upd. rewrite Z.eqb_refl. reflexivity. Qed.

Lemma upd_other : forall f k v x, x <> k -> upd f k v x = f x.
Proof.
  intros f k v x Hne. unfold upd. destruct (x =? k) eqn:E; [|reflexivity].
  apply Z.eqb_eq in E. contradiction.
Qed.

Lemma dseg_frame : forall nx pv nx' pv' l f p t lp,
  (forall x, In x l -> nx' x = nx x /\ pv' x = pv x) ->
  dseg nx pv f p l t lp -> dseg nx' pv' f p l t lp.
Proof.
  intros nx pv nx' pv' l. induction l as [|x l IH]; intros f p t lp Hagree Hseg.
  - exact Hseg.
  - cbn [dseg] in *. destruct Hseg as [Hf [Hp Hrest]].
    destruct (Hagree x (or_introl eq_refl)) as [Hnx Hpv].
    split; [exact Hf|]. split; [rewrite Hpv; exact Hp|].
    rewrite Hnx. apply IH; [|exact Hrest].
    intros y Hy. apply Hagree. right. exact Hy.
Qed.

Lemma dseg_app : forall nx pv l1 l2 f p t lp,
  dseg nx pv f p (l1 ++ l2) t lp <->
  exists m mp, dseg nx pv f p l1 m mp /\ dseg nx pv m mp l2 t lp.
Proof.
  intros nx pv l1. induction l1 as [|x l1 IH]; intros l2 f p t lp.
  - cbn [app dseg]. split.
    + intros H. exists f, p. split; [split; reflexivity|exact H].
    + intros [m [mp [[Hm Hmp] H]]]. subst. exact H.
  - cbn [app dseg]. split.
    + intros [Hf [Hp Hrest]]. apply IH in Hrest. destruct Hrest as [m [mp [H1 H2]]].
      exists m, mp. split; [split; [exact Hf|split; [exact Hp|exact H1]]|exact H2].
    + intros [m [mp [[Hf [Hp H1]] H2]]]. split; [exact Hf|]. split; [exact Hp|].
      apply IH. exists m, mp. split; assumption.
Qed.

(* a non-empty segment: its last entry is [lastp] *)
Lemma dseg_snoc : forall nx pv l q f p t lp,
  dseg nx pv f p (l ++ [q]) t lp <->
  exists mp, dseg nx pv f p l (Some q) mp /\ pv q = mp /\ nx q = t /\ lp = Some q.
Proof.
  intros nx pv l q f p t lp. rewrite dseg_app. cbn [dseg]. split.
  - intros [m [mp [H1 [Hm [Hpv [Hnx Hlp]]]]]]. subst m. exists mp.
    split; [exact H1|]. split; [exact Hpv|]. split; [exact Hnx|]. symmetry. exact Hlp.
  - intros [mp [H1 [Hpv [Hnx Hlp]]]]. exists (Some q), mp.
    split; [exact H1|]. split; [reflexivity|]. split; [exact Hpv|]. split; [exact Hnx|].
    symmetry. exact Hlp.
Qed.

Lemma list_rev_case : forall (l : list Z), l = [] \/ exists l' q, l = l' ++ [q].
Proof.
  intros l. destruct l as [|x l]; [left; reflexivity|right].
  destruct (exists_last (l := x :: l)) as [l' [q Hq]]; [discriminate|].
  exists l', q. exact Hq.
Qed.

Lemma NoDup_app_l : forall (l1 l2 : list Z), NoDup (l1 ++ l2) -> NoDup l1.
Proof.
  intros l1. induction l1 as [|x l1 IH]; intros l2 H; [constructor|].
  cbn [app] in H. inversion H as [|y l Hnin Hnd]; subst. constructor.
  - intros Hin. apply Hnin. apply in_or_app. left. exact Hin.
  - apply IH with l2. exact Hnd.
Qed.

Lemma NoDup_app_r : forall (l1 l2 : list Z), NoDup (l1 ++ l2) -> NoDup l2.
Proof.
  intros l1. induction l1 as [|x l1 IH]; intros l2 H; [exact H|].
  cbn [app] in H. inversion H; subst. apply IH. assumption.
Qed.

Lemma NoDup_app_disj : forall (l1 l2 : list Z) x, NoDup (l1 ++ l2) -> In x l1 -> In x l2 -> False.
Proof.
  intros l1. induction l1 as [|y l1 IH]; intros l2 x H H1 H2; [contradiction|].
  cbn [app] in H. inversion H as [|z l Hnin Hnd]; subst. destruct H1 as [H1|H1].
  - subst. apply Hnin. apply in_or_app. right. exact H2.
  - apply (IH l2 x Hnd H1 H2).
Qed.

Lemma NoDup_app_intro : forall (l1 l2 : list Z),
  NoDup l1 -> NoDup l2 -> (forall x, In x l1 -> In x l2 -> False) -> NoDup (l1 ++ l2).
Proof.
  intros l1. induction l1 as [|y l1 IH]; intros l2 H1 H2 Hd; [exact H2|].
  cbn [app]. inversion H1 as [|z l Hnin Hnd]; subst. constructor.
  - intros Hin. apply in_app_or in Hin. destruct Hin as [Hin|Hin]; [contradiction|].
    apply (Hd y (or_introl eq_refl) Hin).
  - apply IH; [exact Hnd|exact H2|]. intros x Hx1 Hx2. apply (Hd x (or_intror Hx1) Hx2).
Qed.

(* ---------------------------------------------------------------- iteration terminates *)

(* acyclicity: a represented list is walked to its end with fuel = its length *)
Lemma walk_dseg : forall nx pv l f p lp fuel,
  dseg nx pv f p l None lp -> (length l <= fuel)%nat -> walk fuel nx f = Some l.
Proof.
  intros nx pv l. induction l as [|x l IH]; intros f p lp fuel Hseg Hfuel.
  - cbn [dseg] in Hseg. destruct Hseg as [Hf _]. subst f. destruct fuel; reflexivity.
  - cbn [dseg] in Hseg. destruct Hseg as [Hf [_ Hrest]]. subst f.
    destruct fuel as [|fuel]; [cbn [length] in Hfuel; lia|].
    cbn [walk]. rewrite (IH _ _ _ fuel Hrest); [reflexivity|cbn [length] in Hfuel; lia].
Qed.

Lemma toList_repr : forall s l fuel,
  dll_repr s l -> (length l <= fuel)%nat -> toList fuel s = Some l.
Proof.
  intros s l fuel [_ Hseg] Hfuel. unfold toList. apply (walk_dseg _ _ _ _ _ _ _ Hseg Hfuel).
Qed.

(* the representation is functional: a heap represents at most one list *)
Lemma dll_repr_unique : forall s l1 l2, dll_repr s l1 -> dll_repr s l2 -> l1 = l2.
Proof.
  intros s l1 l2 H1 H2.
  pose proof (toList_repr s l1 (length l1 + length l2) H1 ltac:(lia)) as E1.
  pose proof (toList_repr s l2 (length l1 + length l2) H2 ltac:(lia)) as E2.
  rewrite E1 in E2. injection E2 as E2. exact E2.
Qed.

(* prev pointers mirror the list: walking backwards from the tail yields the reversed list *)
Lemma walk_back_dseg : forall nx pv l f p t lp fuel rest,
  dseg nx pv f p l t lp -> walk fuel pv p = Some rest ->
  walk (fuel + length l) pv lp = Some (rev l ++ rest).
Proof.
  intros nx pv l. induction l as [|x l IH]; intros f p t lp fuel rest Hseg Hw.
  - cbn [dseg] in Hseg. destruct Hseg as [_ Hp]. subst lp.
    cbn [length rev app]. rewrite Nat.add_0_r. exact Hw.
  - cbn [dseg] in Hseg. destruct Hseg as [_ [Hpv Hrest]].
    assert (Hx : walk (S fuel) pv (Some x) = Some (x :: rest)).
    { cbn [walk]. rewrite Hpv, Hw. reflexivity. }
    pose proof (IH _ _ _ _ _ _ Hrest Hx) as H.
    cbn [length rev]. rewrite <- app_assoc. cbn [app].
    replace (fuel + S (length l))%nat with (S fuel + length l)%nat by lia. exact H.
Qed.

Lemma toListRev_repr : forall s l fuel,
  dll_repr s l -> (length l <= fuel)%nat -> toListRev fuel s = Some (rev l).
Proof.
  intros s l fuel [_ Hseg] Hfuel. unfold toListRev.
  assert (H0 : walk (fuel - length l) (prv s) None = Some []) by (destruct (fuel - length l)%nat; reflexivity).
  pose proof (walk_back_dseg _ _ _ _ _ _ _ _ _ Hseg H0) as H.
  rewrite app_nil_r in H. replace (fuel - length l + length l)%nat with fuel in H by lia. exact H.
Qed.

Lemma repr_head_tail : forall s l, dll_repr s l ->
  lhead s = hd_error l /\ ltail s = hd_error (rev l).
Proof.
  intros s l [_ Hseg]. split.
  - destruct l as [|x l]; cbn [dseg] in Hseg; destruct Hseg as [H _]; exact H.
  - destruct (list_rev_case l) as [E|[l' [q E]]]; subst l.
    + cbn [dseg] in Hseg. destruct Hseg as [_ H]. symmetry. exact H.
    + apply dseg_snoc in Hseg. destruct Hseg as [mp [_ [_ [_ Hlp]]]].
      rewrite rev_app_distr. cbn [rev app hd_error]. exact Hlp.
Qed.

Lemma isEmptyL_repr : forall s l, dll_repr s l -> (isEmptyL s = true <-> l = []).
Proof.
  intros s l H. destruct (repr_head_tail s l H) as [Hh _]. unfold isEmptyL. rewrite Hh.
  destruct l; cbn [hd_error]; split; intros E; try reflexivity; discriminate.
Qed.

(* ---------------------------------------------------------------- the list methods *)

Lemma empty_repr : dll_repr emptyL [].
Proof. split; [constructor|]. cbn. split; reflexivity. Qed.

Lemma reset_repr : forall s, dll_repr (reset s) [].
Proof. intros s. split; [constructor|]. cbn. split; reflexivity. Qed.

Lemma pushBack_repr : forall s l e,
  dll_repr s l -> ~ In e l -> dll_repr (pushBack s e) (l ++ [e]).
Proof.
  intros s l e [Hnd Hseg] Hnin. split.
  { apply NoDup_app_intro; [exact Hnd|constructor; [intros []|constructor]|].
    intros x Hx [Hx'|[]]. subst. contradiction. }
  destruct (list_rev_case l) as [E|[l' [q E]]]; subst l.
  - cbn [dseg] in Hseg. destruct Hseg as [Hh Ht].
    unfold pushBack. cbn. rewrite <- Ht. cbn.
    split; [reflexivity|]. split; [apply upd_same|]. split; [apply upd_same|reflexivity].
  - apply dseg_snoc in Hseg. destruct Hseg as [mp [Hl' [Hpq [Hnq Ht]]]].
    assert (Hqe : q <> e). { intros ->. apply Hnin. apply in_or_app. right. left. reflexivity. }
    assert (Hql' : ~ In q l').
    { intros Hin. apply (NoDup_app_disj l' [q] q Hnd Hin). left. reflexivity. }
    unfold pushBack. cbn. rewrite Ht. cbn.
    apply dseg_snoc. exists (Some q). split.
    + apply dseg_snoc. exists mp. split.
      * apply dseg_frame with (nx := nxt s) (pv := prv s); [|exact Hl'].
        intros x Hx. split.
        -- rewrite upd_other; [apply upd_other|]; intros ->; [apply Hnin; apply in_or_app; left; exact Hx|contradiction].
        -- apply upd_other. intros ->. apply Hnin. apply in_or_app. left. exact Hx.
      * split; [rewrite upd_other; [exact Hpq|exact Hqe]|]. split; [apply upd_same|reflexivity].
    + split; [apply upd_same|]. split; [|reflexivity].
      rewrite upd_other; [apply upd_same|]. intros E. apply Hqe. symmetry. exact E.
Qed.

Lemma pushFront_repr : forall s l e,
  dll_repr s l -> ~ In e l -> dll_repr (pushFront s e) (e :: l).
Proof.
  intros s l e [Hnd Hseg] Hnin. split; [constructor; assumption|].
  destruct l as [|x l].
  - cbn [dseg] in Hseg. destruct Hseg as [Hh Ht].
    unfold pushFront. cbn. rewrite Hh. cbn.
    split; [reflexivity|]. split; [apply upd_same|]. rewrite upd_same. split; reflexivity.
  - cbn [dseg] in Hseg. destruct Hseg as [Hh [Hpx Hrest]].
    assert (Hxe : x <> e). { intros ->. apply Hnin. left. reflexivity. }
    assert (Hxl : ~ In x l). { inversion Hnd; assumption. }
    unfold pushFront. cbn. rewrite Hh. cbn.
    split; [reflexivity|]. split.
    { rewrite upd_other; [apply upd_same|]. intros E. apply Hxe. symmetry. exact E. }
    rewrite upd_same. split; [reflexivity|]. split; [apply upd_same|].
    rewrite upd_other; [|exact Hxe].
    apply dseg_frame with (nx := nxt s) (pv := prv s); [|exact Hrest].
    intros y Hy. split.
    + apply upd_other. intros ->. apply Hnin. right. exact Hy.
    + rewrite upd_other; [apply upd_other|]; intros ->; [apply Hnin; right; exact Hy|contradiction].
Qed.

(* the list without e, written without reference to the model *)
Definition without (e : Z) (l : list Z) : list Z := filter (fun x => negb (x =? e)) l.

Lemma without_notin : forall e l, ~ In e l -> without e l = l.
Proof.
  intros e l. induction l as [|x l IH]; intros Hnin; [reflexivity|].
  unfold without in *. cbn [filter]. destruct (x =? e) eqn:E.
  - apply Z.eqb_eq in E. subst. exfalso. apply Hnin. left. reflexivity.
  - cbn [negb]. rewrite IH; [reflexivity|]. intros Hin. apply Hnin. right. exact Hin.
Qed.

Lemma without_split : forall e l1 l2, NoDup (l1 ++ e :: l2) -> without e (l1 ++ e :: l2) = l1 ++ l2.
Proof.
  intros e l1 l2 Hnd. unfold without. rewrite filter_app. cbn [filter]. rewrite Z.eqb_refl. cbn [negb].
  fold (without e l1). fold (without e l2).
  rewrite without_notin, without_notin; [reflexivity| |].
  - apply NoDup_app_r in Hnd. inversion Hnd; assumption.
  - intros Hin. apply (NoDup_app_disj l1 (e :: l2) e Hnd Hin). left. reflexivity.
Qed.

Lemma remove_repr_split : forall s l1 l2 e,
  dll_repr s (l1 ++ e :: l2) -> dll_repr (removeE s e) (l1 ++ l2).
Proof.
  intros s l1 l2 e [Hnd Hseg].
  assert (Hnd' : NoDup (l1 ++ l2)).
  { apply NoDup_remove_1 with (a := e). exact Hnd. }
  split; [exact Hnd'|].
  apply dseg_app in Hseg. destruct Hseg as [m [mp [H1 H2]]].
  cbn [dseg] in H2. destruct H2 as [Hm [Hpe H2]]. subst m.
  assert (He1 : ~ In e l1).
  { intros Hin. apply (NoDup_app_disj l1 (e :: l2) e Hnd Hin). left. reflexivity. }
  assert (He2 : ~ In e l2).
  { apply NoDup_app_r in Hnd. inversion Hnd; assumption. }
  assert (Hd12 : forall x, In x l1 -> In x l2 -> False).
  { intros x Hx1 Hx2. apply (NoDup_app_disj l1 (e :: l2) x Hnd Hx1). right. exact Hx2. }
  unfold removeE. rewrite Hpe.
  destruct (list_rev_case l1) as [E1|[l1' [q E1]]]; subst l1.
  - (* e is the head: l.head = next *)
    cbn [dseg] in H1. destruct H1 as [Hh Hmp]. subst mp.
    destruct l2 as [|n l2].
    + cbn [dseg] in H2. destruct H2 as [Hne Ht]. rewrite Hne. cbn. split; reflexivity.
    + cbn [dseg] in H2. destruct H2 as [Hne [Hpn H2]]. rewrite Hne. cbn.
      split; [reflexivity|]. split; [apply upd_same|].
      assert (Hnl2 : ~ In n l2). { apply NoDup_app_r in Hnd'. inversion Hnd'; assumption. }
      apply dseg_frame with (nx := nxt s) (pv := prv s); [|exact H2].
      intros x Hx. split; [reflexivity|]. apply upd_other. intros ->. contradiction.
  - (* e has a predecessor q: q.next = next *)
    apply dseg_snoc in H1. destruct H1 as [mq [H1 [Hpq [Hnq Hmp]]]]. subst mp.
    assert (Hql1' : ~ In q l1').
    { apply NoDup_app_l in Hnd'. intros Hin. apply (NoDup_app_disj l1' [q] q Hnd' Hin). left. reflexivity. }
    assert (Hq2 : ~ In q l2).
    { intros Hin. apply (Hd12 q); [apply in_or_app; right; left; reflexivity|exact Hin]. }
    destruct l2 as [|n l2].
    + cbn [dseg] in H2. destruct H2 as [Hne Ht]. rewrite Hne. cbn.
      rewrite app_nil_r. apply dseg_snoc. exists mq. split.
      * apply dseg_frame with (nx := nxt s) (pv := prv s); [|exact H1].
        intros x Hx. split; [|reflexivity]. apply upd_other. intros ->. contradiction.
      * split; [exact Hpq|]. split; [apply upd_same|reflexivity].
    + cbn [dseg] in H2. destruct H2 as [Hne [Hpn H2]]. rewrite Hne. cbn.
      assert (Hnl2 : ~ In n l2). { apply NoDup_app_r in Hnd'. inversion Hnd'; assumption. }
      assert (Hn_q : n <> q). { intros ->. apply Hq2. left. reflexivity. }
      apply dseg_app. exists (Some n), (Some q). split.
      * apply dseg_snoc. exists mq. split.
        -- apply dseg_frame with (nx := nxt s) (pv := prv s); [|exact H1].
           intros x Hx. split.
           ++ apply upd_other. intros ->. contradiction.
           ++ apply upd_other. intros ->. apply (Hd12 n); [apply in_or_app; left; exact Hx|left; reflexivity].
        -- split; [rewrite upd_other; [exact Hpq|intros E; apply Hn_q; symmetry; exact E]|].
           split; [apply upd_same|reflexivity].
      * cbn [dseg]. split; [reflexivity|]. split; [apply upd_same|].
        rewrite upd_other; [|exact Hn_q].
        apply dseg_frame with (nx := nxt s) (pv := prv s); [|exact H2].
        intros x Hx. split.
        -- apply upd_other. intros ->. apply Hq2. right. exact Hx.
        -- apply upd_other. intros ->. contradiction.
Qed.

Lemma remove_repr : forall s l e,
  dll_repr s l -> In e l -> dll_repr (removeE s e) (without e l).
Proof.
  intros s l e Hr Hin. apply in_split in Hin. destruct Hin as [l1 [l2 E]]. subst l.
  rewrite without_split; [|exact (proj1 Hr)]. apply remove_repr_split. exact Hr.
Qed.

Lemma insertAfter_repr : forall s l1 l2 b e,
  dll_repr s (l1 ++ b :: l2) -> ~ In e (l1 ++ b :: l2) ->
  dll_repr (insertAfter s b e) (l1 ++ b :: e :: l2).
Proof.
  intros s l1 l2 b e [Hnd Hseg] Hnin.
  assert (He1 : ~ In e l1). { intros H. apply Hnin. apply in_or_app. left. exact H. }
  assert (Heb : e <> b). { intros ->. apply Hnin. apply in_or_app. right. left. reflexivity. }
  assert (He2 : ~ In e l2). { intros H. apply Hnin. apply in_or_app. right. right. exact H. }
  assert (Hb1 : ~ In b l1).
  { intros Hin. apply (NoDup_app_disj l1 (b :: l2) b Hnd Hin). left. reflexivity. }
  assert (Hb2 : ~ In b l2). { apply NoDup_app_r in Hnd. inversion Hnd; assumption. }
  split.
  { apply NoDup_app_intro.
    - apply NoDup_app_l in Hnd. exact Hnd.
    - apply NoDup_app_r in Hnd. inversion Hnd as [|x l Hx Hl]; subst.
      constructor; [intros [H|H]; [apply Heb; exact H|contradiction]|].
      constructor; assumption.
    - intros x Hx1 [Hx|[Hx|Hx]].
      + subst. contradiction.
      + subst. contradiction.
      + apply (NoDup_app_disj l1 (b :: l2) x Hnd Hx1). right. exact Hx. }
  apply dseg_app in Hseg. destruct Hseg as [m [mp [H1 H2]]].
  cbn [dseg] in H2. destruct H2 as [Hm [Hpb H2]]. subst m.
  unfold insertAfter.
  apply dseg_app. exists (Some b), mp. split.
  - destruct l2 as [|a l2]; [cbn [dseg] in H2; destruct H2 as [Hnb Ht]; rewrite Hnb|
                             cbn [dseg] in H2; destruct H2 as [Hnb [Hpa H2]]; rewrite Hnb]; cbn;
    (apply dseg_frame with (nx := nxt s) (pv := prv s); [|exact H1]);
    intros x Hx; (split; [rewrite upd_other; [apply upd_other|]; intros ->; contradiction|]).
    + apply upd_other. intros ->. contradiction.
    + rewrite upd_other; [apply upd_other; intros ->; contradiction|].
      intros ->. apply (NoDup_app_disj l1 (b :: a :: l2) a Hnd Hx). right. left. reflexivity.
  - destruct l2 as [|a l2].
    + cbn [dseg] in H2. destruct H2 as [Hnb Ht]. rewrite Hnb. cbn.
      split; [reflexivity|]. split; [rewrite upd_other; [exact Hpb|intros E; apply Heb; symmetry; exact E]|].
      rewrite upd_same. split; [reflexivity|]. split; [apply upd_same|].
      rewrite upd_other; [|exact Heb]. rewrite upd_same. split; reflexivity.
    + cbn [dseg] in H2. destruct H2 as [Hnb [Hpa H2]]. rewrite Hnb. cbn.
      assert (Hab : a <> b). { intros ->. apply Hb2. left. reflexivity. }
      assert (Hae : a <> e). { intros ->. apply He2. left. reflexivity. }
      assert (Hal2 : ~ In a l2). { apply NoDup_app_r in Hnd. inversion Hnd as [|x l Hx Hl]; subst. inversion Hl; assumption. }
      split; [reflexivity|]. split.
      { rewrite upd_other; [rewrite upd_other; [exact Hpb|intros E; apply Heb; symmetry; exact E]|].
        intros E. apply Hab. symmetry. exact E. }
      rewrite upd_same. split; [reflexivity|]. split.
      { rewrite upd_other; [apply upd_same|]. intros E. apply Hae. symmetry. exact E. }
      rewrite upd_other; [|exact Heb]. rewrite upd_same.
      split; [reflexivity|]. split; [apply upd_same|].
      rewrite upd_other; [|exact Hab]. rewrite upd_other; [|exact Hae].
      apply dseg_frame with (nx := nxt s) (pv := prv s); [|exact H2].
      intros x Hx. split.
      * rewrite upd_other; [apply upd_other|]; intros ->; [apply He2|apply Hb2]; right; exact Hx.
      * rewrite upd_other; [apply upd_other|]; intros ->; [apply He2; right; exact Hx|contradiction].
Qed.

Lemma insertBefore_repr : forall s l1 l2 a e,
  dll_repr s (l1 ++ a :: l2) -> ~ In e (l1 ++ a :: l2) ->
  dll_repr (insertBefore s a e) (l1 ++ e :: a :: l2).
Proof.
  intros s l1 l2 a e [Hnd Hseg] Hnin.
  assert (He1 : ~ In e l1). { intros H. apply Hnin. apply in_or_app. left. exact H. }
  assert (Hea : e <> a). { intros ->. apply Hnin. apply in_or_app. right. left. reflexivity. }
  assert (He2 : ~ In e l2). { intros H. apply Hnin. apply in_or_app. right. right. exact H. }
  assert (Ha1 : ~ In a l1).
  { intros Hin. apply (NoDup_app_disj l1 (a :: l2) a Hnd Hin). left. reflexivity. }
  assert (Ha2 : ~ In a l2). { apply NoDup_app_r in Hnd. inversion Hnd; assumption. }
  split.
  { apply NoDup_app_intro.
    - apply NoDup_app_l in Hnd. exact Hnd.
    - apply NoDup_app_r in Hnd. constructor; [|exact Hnd].
      intros [H|H]; [apply Hea; symmetry; exact H|contradiction].
    - intros x Hx1 [Hx|Hx].
      + subst. contradiction.
      + apply (NoDup_app_disj l1 (a :: l2) x Hnd Hx1 Hx). }
  apply dseg_app in Hseg. destruct Hseg as [m [mp [H1 H2]]].
  cbn [dseg] in H2. destruct H2 as [Hm [Hpa H2]]. subst m.
  unfold insertBefore. rewrite Hpa.
  assert (Hframe2 : forall nx' pv', (forall x, In x l2 -> nx' x = nxt s x /\ pv' x = prv s x) ->
                     dseg nx' pv' (nxt s a) (Some a) l2 None (ltail s)).
  { intros nx' pv' Hag. apply dseg_frame with (nx := nxt s) (pv := prv s); assumption. }
  destruct (list_rev_case l1) as [E1|[l1' [q E1]]]; subst l1.
  - cbn [dseg] in H1. destruct H1 as [Hh Hmp]. subst mp. cbn.
    split; [reflexivity|]. split; [rewrite upd_other; [apply upd_same|exact Hea]|].
    rewrite upd_same. split; [reflexivity|]. split; [apply upd_same|].
    rewrite upd_other; [|intros E; apply Hea; symmetry; exact E].
    apply Hframe2. intros x Hx. split.
    + apply upd_other. intros ->. contradiction.
    + rewrite upd_other; [apply upd_other|]; intros ->; contradiction.
  - apply dseg_snoc in H1. destruct H1 as [mq [H1 [Hpq [Hnq Hmp]]]]. subst mp. cbn.
    assert (Hqa : q <> a). { intros ->. apply Ha1. apply in_or_app. right. left. reflexivity. }
    assert (Hqe : q <> e). { intros ->. apply He1. apply in_or_app. right. left. reflexivity. }
    assert (Hql1' : ~ In q l1').
    { apply NoDup_app_l in Hnd. intros Hin. apply (NoDup_app_disj l1' [q] q Hnd Hin). left. reflexivity. }
    assert (Hq2 : ~ In q l2).
    { intros Hin. apply (NoDup_app_disj (l1' ++ [q]) (a :: l2) q Hnd); [apply in_or_app; right; left; reflexivity|right; exact Hin]. }
    apply dseg_app. exists (Some e), (Some q). split.
    + apply dseg_snoc. exists mq. split.
      * apply dseg_frame with (nx := nxt s) (pv := prv s); [|exact H1].
        intros x Hx. split.
        -- rewrite upd_other; [apply upd_other|]; intros ->;
             [apply He1; apply in_or_app; left; exact Hx|contradiction].
        -- rewrite upd_other; [apply upd_other|]; intros ->;
             [apply He1|apply Ha1]; apply in_or_app; left; exact Hx.
      * split; [rewrite upd_other; [rewrite upd_other; [exact Hpq|exact Hqe]|exact Hqa]|].
        split; [apply upd_same|reflexivity].
    + cbn [dseg]. split; [reflexivity|]. split; [rewrite upd_other; [apply upd_same|exact Hea]|].
      rewrite upd_other; [|intros E; apply Hqe; symmetry; exact E]. rewrite upd_same.
      split; [reflexivity|]. split; [apply upd_same|].
      rewrite upd_other; [|intros E; apply Hqa; symmetry; exact E].
      rewrite upd_other; [|intros E; apply Hea; symmetry; exact E].
      apply Hframe2. intros x Hx. split.
      * rewrite upd_other; [apply upd_other|]; intros ->; contradiction.
      * rewrite upd_other; [apply upd_other|]; intros ->; contradiction.
Qed.

(* PushBackList: both lists live on one heap; the second is given by its head and tail *)
Lemma pushBackList_repr : forall s mh mt l1 l2,
  dll_repr s l1 -> dll_repr (mkSt (nxt s) (prv s) mh mt) l2 -> NoDup (l1 ++ l2) ->
  exists s', pushBackList s mh mt = Some (s', (None, None)) /\ dll_repr s' (l1 ++ l2).
Proof.
  intros s mh mt l1 l2 [Hnd1 H1] [Hnd2 H2] Hnd. cbn in H2. unfold pushBackList.
  destruct (list_rev_case l1) as [E1|[l1' [q E1]]]; subst l1.
  - cbn [dseg] in H1. destruct H1 as [Hh Ht]. rewrite Hh.
    eexists. split; [reflexivity|]. split; [exact Hnd|]. cbn. exact H2.
  - pose proof H1 as H1'. apply dseg_snoc in H1. destruct H1 as [mq [H1 [Hpq [Hnq Ht]]]].
    assert (Hhd : exists h, lhead s = Some h).
    { destruct l1' as [|x l1']; cbn [dseg app] in H1'; destruct H1' as [Hf _]; eexists; exact Hf. }
    destruct Hhd as [h Hh]. rewrite Hh.
    destruct l2 as [|y l2].
    + cbn [dseg] in H2. destruct H2 as [Hmh Hmt]. rewrite Hmh.
      eexists. split; [reflexivity|]. rewrite app_nil_r. split; [exact Hnd1|exact H1'].
    + cbn [dseg] in H2. destruct H2 as [Hmh [Hpy H2]]. rewrite Hmh, Ht.
      eexists. split; [reflexivity|]. split; [exact Hnd|]. cbn. rewrite ?Ht.
      assert (Hyq : y <> q).
      { intros ->. apply (NoDup_app_disj (l1' ++ [q]) (q :: l2) q Hnd); [apply in_or_app; right|]; left; reflexivity. }
      assert (Hql1' : ~ In q l1').
      { intros Hin. apply (NoDup_app_disj l1' [q] q Hnd1 Hin). left. reflexivity. }
      assert (Hyl2 : ~ In y l2). { inversion Hnd2; assumption. }
      rewrite <- app_assoc. cbn [app]. apply dseg_app. exists (Some q), mq. split.
      * apply dseg_frame with (nx := nxt s) (pv := prv s); [|exact H1].
        intros x Hx. split.
        -- apply upd_other. intros ->. contradiction.
        -- apply upd_other. intros ->.
           apply (NoDup_app_disj (l1' ++ [q]) (y :: l2) y Hnd); [apply in_or_app; left; exact Hx|left; reflexivity].
      * cbn [dseg]. split; [reflexivity|].
        split; [rewrite upd_other; [exact Hpq|intros E; apply Hyq; symmetry; exact E]|].
        rewrite upd_same. split; [reflexivity|]. split; [apply upd_same|].
        rewrite upd_other; [|exact Hyq].
        apply dseg_frame with (nx := nxt s) (pv := prv s); [|exact H2].
        intros x Hx. split.
        -- apply upd_other. intros ->.
           apply (NoDup_app_disj (l1' ++ [q]) (y :: l2) q Hnd); [apply in_or_app; right; left; reflexivity|right; exact Hx].
        -- apply upd_other. intros ->. contradiction.
Qed.

(* non-vacuity: a three-element list built by the methods satisfies the invariant, and the
   heap really is the expected pointer structure *)
Example repr_example :
  dll_repr (removeE (pushFront (pushBack (pushBack (pushBack emptyL 1) 2) 3) 0) 2) [0; 1; 3].
Proof.
  change [0; 1; 3] with ([0; 1] ++ [3]).
  apply (remove_repr_split _ [0; 1] [3] 2).
  apply (pushFront_repr _ [1; 2; 3] 0).
  - apply (pushBack_repr _ [1; 2] 3).
    + apply (pushBack_repr _ [1] 2).
      * apply (pushBack_repr _ [] 1); [exact empty_repr|intros []].
      * cbn. lia.
    + cbn. lia.
  - cbn. lia.
Qed.

Example walk_example :
  let s := removeE (pushFront (pushBack (pushBack (pushBack emptyL 1) 2) 3) 0) 2 in
  toList 3 s = Some [0; 1; 3] /\ toListRev 3 s = Some [3; 1; 0] /\ nxt s 2 = Some 3.
Proof. vm_compute. repeat split. Qed.
