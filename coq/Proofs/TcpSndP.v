(* C01, send direction: every byte the stack puts on the wire is the right byte at the right place.
   Trace-level theorems over Model.Tcp.step / run / run_out (all event lists):
     snd_emits_slices      every emitted segment that carries data carries exactly the bytes
                           W[off, off+len) at sequence number seq_of iss off, W = everything the
                           application's writes were accepted for (before or after the emission)
     fin_after_all_data    a FIN segment is empty and sits at seq_of iss |W|, W = everything accepted
                           before the shutdown; no data frame reaches beyond it
     no_write_after_shutdown   once the write side is shut down no byte is accepted any more
   Invariant: Proofs/TcpSndInvP.v (Inv); sender functions: Proofs/TcpSndLoopP.v.
   Hypotheses: the initial state satisfies Inv (Inv_init: a freshly established connection does),
   acknowledgment numbers are uint32 (they are, in Go: seqnum.Value), and fewer than 2^30 bytes are
   written in total (so that the wrap-around comparisons LessThan/InRange of the code agree with
   the order on stream offsets). *)
From Coq Require Import ZArith List Bool Lia ZifyBool.
From RecordUpdate Require Import RecordSet.
From NP Require Import Model.Seqnum Model.GoHeap Model.Tcp Proofs.SeqnumP Proofs.TcpSndInvP Proofs.TcpSndLoopP.
Import ListNotations RecordSetNotations.
Open Scope Z_scope.

#[local] Arguments sendSegment : simpl never.
#[local] Arguments sendAck : simpl never.
#[local] Arguments sendLoop : simpl never.
#[local] Arguments sendData : simpl never.
#[local] Arguments sndHandle : simpl never.
#[local] Arguments rcvHandle : simpl never.
#[local] Arguments loopExit : simpl never.
#[local] Arguments resetConnection : simpl never.
#[local] Arguments nonZeroWindow : simpl never.
#[local] Arguments rtoExpired : simpl never.

(* ------------------------------------------------------------------ specification side *)

(* the bytes an application call was accepted for *)
Definition accepted (e : event) (r : result) : list Z :=
  match e, r with
  | EWrite d, RCount n => firstn (Z.to_nat n) d
  | _, _ => []
  end.

(* everything accepted along a run *)
Fixpoint written (t : tcp) (es : list event) : list Z :=
  match es with
  | [] => []
  | e :: r => accepted e (snd (step t e)) ++ written (fst (step t e)) r
  end.

(* inputs are well typed: acknowledgment numbers are uint32 *)
Definition ev_ok (e : event) : Prop :=
  match e with ESeg s _ => is_u32 (s_ack s) | _ => True end.

Section Trace.
Variable iss : Z.
Notation Inv := (Inv iss).
Notation InvA := (InvA iss).
Notation good_frame := (good_frame iss).
Notation Ext := (Ext iss).
Notation Keeps := (Keeps iss).
Notation seq_of := (seq_of iss).

Definition Emits (W : list Z) (fin : bool) (t t' : tcp) : Prop :=
  exists fs, out t' = out t ++ fs /\ Forall (good_frame W fin) fs.

Lemma Ext_Emits W fin t t' : Ext W fin t t' -> Emits W fin t t'.
Proof. intros [_ H]. exact H. Qed.
Lemma Ext_closed W fin t t' : Ext W fin t t' -> sndClosedE t' = sndClosedE t.
Proof. intros [H _]. exact H. Qed.
Lemma Keeps_Ext W fin t t' : Keeps t t' -> Ext W fin t t'.
Proof. intros [_ H]. apply H. Qed.
Lemma Inv_of_InvA W t a n : InvA W (sndClosedE t) a n (SN t) -> Inv W t.
Proof. intros H. exists a, n. exact H. Qed.

(* ------------------------------------------------------------------ application write *)

Lemma appWrite_ok W t data idle t' n :
  Inv W t -> appWrite t data idle = (t', n) ->
  let acc := if n <? 0 then [] else firstn (Z.to_nat n) data in
  len (W ++ acc) < BOUND ->
  Inv (W ++ acc) t' /\ Ext (W ++ acc) (sndClosedE t) t t' /\ (sndClosedE t = true -> acc = []).
Proof.
  intros HI. unfold appWrite.
  assert (TRIV : forall k, (k <? 0) = true \/ k = 0 -> (t, k) = (t', n) ->
    let acc := if n <? 0 then [] else firstn (Z.to_nat n) data in
    len (W ++ acc) < BOUND ->
    Inv (W ++ acc) t' /\ Ext (W ++ acc) (sndClosedE t) t t' /\ (sndClosedE t = true -> acc = [])).
  { intros k Hk E. inversion E; subst t' n. cbv zeta.
    assert (EA : (if k <? 0 then [] else firstn (Z.to_nat k) data) = []).
    { destruct Hk as [->| ->]; reflexivity. }
    rewrite EA, app_nil_r. intros _. split; [exact HI|]. split; [apply Ext_refl|reflexivity]. }
  destruct (estate t =? stError); [apply TRIV; left; reflexivity|].
  destruct (negb (estate t =? stConnected)); [apply TRIV; left; reflexivity|].
  destruct (len data =? 0) eqn:EL; [apply TRIV; right; reflexivity|].
  destruct (sndClosedE t) eqn:EC; [apply TRIV; left; reflexivity|].
  destruct (sndBufSize t - sndBufUsed t <=? 0) eqn:EAv; [apply TRIV; left; reflexivity|].
  cbv zeta. intros E. inversion E as [[E1 E2]]. clear E.
  set (v := takeZ (sndBufSize t - sndBufUsed t) data) in *.
  pose proof (len_nonneg v) as Hvn. replace (len v <? 0) with false by lia.
  assert (EV : firstn (Z.to_nat (len v)) data = v) by apply takeZ_len_self.
  rewrite EV.
  assert (Hv : v <> []).
  { apply takeZ_nonnil; [lia|]. intros ->. discriminate. }
  intros HB.
  destruct HI as (a & n0 & HI). rewrite EC in HI.
  match goal with |- context [sendData ?t1 idle] => set (T1 := t1) end.
  assert (H1 : InvA (W ++ v) false a n0 (SN T1)).
  { subst T1. unfold TcpSndInvP.InvA in *. cbn.
    destruct HI as (m & e & fl & nu & fr & H1 & H2 & H3 & H4 & H5 & H6 & H7 & H8 & H9 & H10 & H11 & H12 & H13 & H14 & H15 & H16).
    exists m, e, fl, nu, (fr ++ [mkW 0 0 v]). rewrite H5, <- app_assoc.
    repeat split; auto using chain_mono, fresh_write.
    rewrite H3, seq_of_add. unfold total. rewrite len_app. f_equal.
    rewrite u32_small; [lia|]. rewrite len_app in HB. unfold BOUND in HB.
    change (2^30) with 1073741824 in HB. pose proof (len_nonneg W). lia. }
  destruct (sendData_ok iss (W ++ v) false T1 idle a n0 H1) as (n' & Hn' & H2 & X2).
  assert (X1 : Ext (W ++ v) false t T1) by (apply Ext_pure; reflexivity).
  split; [|split].
  - exists a, n'. rewrite (Ext_closed _ _ _ _ X2).
    assert (CT : sndClosedE T1 = false) by exact EC. rewrite CT. exact H2.
  - eapply Ext_trans; eauto.
  - discriminate.
Qed.

(* ------------------------------------------------------------------ shutdown of the write side *)

Lemma appShutdownWrite_ok W t idle :
  Inv W t ->
  let t' := fst (appShutdownWrite t idle) in
  Inv W t' /\ Emits W (sndClosedE t') t t' /\ (sndClosedE t = true -> sndClosedE t' = true).
Proof.
  intros HI. unfold appShutdownWrite.
  destruct (negb (estate t =? stConnected)).
  { cbn. split; [exact HI|]. split; [apply Ext_Emits, Ext_refl|auto]. }
  destruct (sndClosedE t) eqn:EC.
  { cbn. rewrite EC. split; [exact HI|]. split; [apply Ext_Emits, Ext_refl|auto]. }
  cbv zeta. cbn [fst].
  destruct HI as (a & n0 & HI). rewrite EC in HI.
  match goal with |- context [sendData ?t1 idle] => set (T1 := t1) end.
  assert (H1 : InvA W true a n0 (SN T1)).
  { subst T1. unfold TcpSndInvP.InvA in *. cbn.
    destruct HI as (m & e & fl & nu & fr & H1 & H2 & H3 & H4 & H5 & H6 & H7 & H8 & H9 & H10 & H11 & H12 & H13 & H14 & H15 & H16).
    exists m, e, fl, nu, (fr ++ [mkW 0 0 []]). rewrite H5, <- app_assoc.
    repeat split; auto using chain_shut, fresh_shut.
    rewrite H3, seq_of_add. unfold total. f_equal. lia. }
  destruct (sendData_ok iss W true T1 idle a n0 H1) as (n' & Hn' & H2 & X2).
  assert (C2 : sndClosedE (sendData T1 idle) = true) by (rewrite (Ext_closed _ _ _ _ X2); reflexivity).
  set (t2 := sendData T1 idle) in *. clearbody t2.
  pose proof (loopExit_Keeps iss (t2 <| SN := (SN t2) <| sclosed := true |> |>)) as K.
  set (t3 := loopExit _) in *. clearbody t3.
  assert (K0 : Keeps t2 (t2 <| SN := (SN t2) <| sclosed := true |> |>)).
  { apply Keeps_pure; cbn; [unfold core_eq; cbn; repeat split|reflexivity|reflexivity]. }
  pose proof (Keeps_trans _ _ _ _ K0 K) as K1.
  assert (C3 : sndClosedE t3 = true) by (rewrite (Ext_closed W true _ _ (Keeps_Ext _ _ _ _ K1)); exact C2).
  rewrite C3. split; [|split; [|auto]].
  - eapply Inv_Keeps; [exact K1|]. exists a, n'. rewrite C2. exact H2.
  - apply Ext_Emits in X2. destruct X2 as (f2 & O2 & G2).
    destruct (Keeps_Ext W true _ _ K1) as [_ (f3 & O3 & G3)].
    exists (f2 ++ f3). split; [|apply Forall_app; auto].
    rewrite O3, O2. subst T1. cbn. rewrite app_assoc. reflexivity.
Qed.

(* ------------------------------------------------------------------ an arriving segment *)

Lemma handleSegment_ok W t sg newRto idle :
  Inv W t -> is_u32 (s_ack sg) ->
  Inv W (handleSegment t sg newRto idle) /\ Ext W (sndClosedE t) t (handleSegment t sg newRto idle).
Proof.
  intros HI Hu. unfold handleSegment.
  destruct (negb (estate t =? stConnected)); [split; [exact HI|apply Ext_refl]|].
  assert (TAIL : forall t1, Inv W t1 -> Ext W (sndClosedE t) t t1 ->
    let t2 := if negb (rcvNxt (RC t1) =? maxSentAck (SN t1)) then sendAck t1 else t1 in
    Inv W (loopExit t2) /\ Ext W (sndClosedE t) t (loopExit t2)).
  { intros t1 H1 X1. cbv zeta.
    pose proof (Keeps_trans iss _ _ _ (maybeAck_Keeps iss t1) (loopExit_Keeps iss _)) as K.
    split; [eapply Inv_Keeps; eauto|]. eapply Ext_trans; [exact X1|apply Keeps_Ext, K]. }
  destruct (has (s_flags sg) fRst).
  { destruct (acceptable _ _ _).
    - split; [eapply Inv_Keeps; [apply abortOnReset_Keeps|exact HI]|].
      apply Keeps_Ext, abortOnReset_Keeps.
    - apply TAIL; [exact HI|apply Ext_refl]. }
  apply TAIL.
  - destruct (has (s_flags sg) fAck); [|exact HI].
    destruct (tsOk t && negb (s_ts sg)); [exact HI|].
    pose proof (rcvHandle_Keeps iss t sg) as K. pose proof (Inv_Keeps iss W _ _ K HI) as (a & n & H0).
    destruct (sndHandle_ok iss W _ (rcvHandle t sg) sg
                (u32 (Z.shiftl (s_wnd sg) (sndWndScale (SN t)))) newRto idle a n H0 Hu) as (a' & n' & H1 & X1).
    exists a', n'. rewrite (Ext_closed _ _ _ _ X1). exact H1.
  - destruct (has (s_flags sg) fAck); [|apply Ext_refl].
    destruct (tsOk t && negb (s_ts sg)); [apply Ext_refl|].
    pose proof (rcvHandle_Keeps iss t sg) as K. pose proof (Inv_Keeps iss W _ _ K HI) as (a & n & H0).
    destruct (sndHandle_ok iss W _ (rcvHandle t sg) sg
                (u32 (Z.shiftl (s_wnd sg) (sndWndScale (SN t)))) newRto idle a n H0 Hu) as (a' & n' & H1 & X1).
    pose proof (Keeps_Ext W (sndClosedE t) _ _ K) as X0.
    rewrite (Ext_closed _ _ _ _ X0) in X1. eapply Ext_trans; eauto.
Qed.

(* ------------------------------------------------------------------ application read *)

Lemma appRead_Keeps t : Keeps t (fst (fst (appRead t))).
Proof.
  unfold appRead.
  destruct (_ && _); [apply Keeps_refl|].
  destruct (rcvBufUsed t =? 0); [apply Keeps_refl|].
  destruct (rcvList t) as [|v rest]; [apply Keeps_refl|]. cbv zeta. cbn [fst].
  set (t1 := t <| rcvList := rest |> <| rcvBufUsed := rcvBufUsed t - len v |>).
  assert (K1 : Keeps t t1).
  { subst t1. apply Keeps_pure; cbn; [apply core_eq_refl|reflexivity|reflexivity]. }
  clearbody t1.
  destruct (_ && _); [|exact K1].
  eapply Keeps_trans; [exact K1|]. eapply Keeps_trans; [apply nonZeroWindow_Keeps|apply loopExit_Keeps].
Qed.

(* ------------------------------------------------------------------ one event *)

Lemma Emits_nil W fin t t' : out t = [] -> Emits W fin t t' -> Forall (good_frame W fin) (out t').
Proof. intros E (fs & O & G). rewrite O, E. exact G. Qed.

Lemma Inv_out W t o : Inv W t -> Inv W (t <| out := o |>).
Proof. intros H. exact H. Qed.

Lemma step_ok W t e :
  Inv W t -> ev_ok e ->
  let t' := fst (step t e) in
  let W' := W ++ accepted e (snd (step t e)) in
  len W' < BOUND ->
  Inv W' t' /\ Forall (good_frame W' (sndClosedE t')) (out t') /\
  (sndClosedE t = true -> sndClosedE t' = true /\ accepted e (snd (step t e)) = []).
Proof.
  intros HI He. pose proof (Inv_out W t [] HI) as HI0.
  set (t0 := t <| out := [] |>) in HI0.
  assert (O0 : out t0 = []) by reflexivity.
  assert (C0 : sndClosedE t0 = sndClosedE t) by reflexivity.
  destruct e as [sg newRto|data| | |]; unfold step; fold t0; cbv zeta.
  - (* segment *)
    cbn [fst snd accepted]. rewrite app_nil_r. intros _.
    destruct (handleSegment_ok W t0 sg newRto false HI0 He) as (H1 & X1).
    rewrite (Ext_closed _ _ _ _ X1). split; [exact H1|]. split.
    + eapply Emits_nil; [exact O0|apply Ext_Emits, X1].
    + rewrite C0. auto.
  - (* write *)
    destruct (appWrite t0 data false) as [t1 n] eqn:EW.
    pose proof (appWrite_ok W t0 data false t1 n HI0 EW) as H. cbv zeta in H.
    cbn [fst snd].
    assert (EA : accepted (EWrite data) (if n <? 0 then RErr n else RCount n) =
                 (if n <? 0 then [] else firstn (Z.to_nat n) data)).
    { destruct (n <? 0); reflexivity. }
    rewrite EA. intros HB. destruct (H HB) as (H1 & X1 & H3).
    rewrite (Ext_closed _ _ _ _ X1). split; [exact H1|]. split.
    + eapply Emits_nil; [exact O0|apply Ext_Emits, X1].
    + rewrite C0. auto.
  - (* read *)
    pose proof (appRead_Keeps t0) as K.
    destruct (appRead t0) as [[t1 v] err]. cbn [fst snd] in *.
    assert (EA : accepted ERead match v with Some b => RBytes b | None => RErr err end = []) by reflexivity.
    rewrite EA, app_nil_r. intros _.
    pose proof (Keeps_Ext W (sndClosedE t0) _ _ K) as X1.
    rewrite (Ext_closed _ _ _ _ X1). split; [eapply Inv_Keeps; eauto|]. split.
    + eapply Emits_nil; [exact O0|apply Ext_Emits, X1].
    + rewrite C0. auto.
  - (* shutdown *)
    pose proof (appShutdownWrite_ok W t0 false HI0) as H. cbv zeta in H.
    destruct (appShutdownWrite t0 false) as [t1 n]. cbn [fst snd] in *.
    assert (EA : accepted EShutW (if n <? 0 then RErr n else RCount n) = []) by reflexivity.
    rewrite EA, app_nil_r. intros _. destruct H as (H1 & X1 & H3).
    split; [exact H1|]. split.
    + eapply Emits_nil; [exact O0|exact X1].
    + rewrite <- C0. auto.
  - (* retransmission timer *)
    destruct (negb (estate t0 =? stConnected)).
    { cbn [fst snd accepted]. rewrite app_nil_r. intros _. split; [exact HI0|]. split.
      - rewrite O0. constructor.
      - auto. }
    destruct HI0 as (a & n & HA).
    destruct (rtoExpired_ok iss W _ t0 false a n HA) as (n' & H1 & X1).
    destruct (rtoExpired t0 false) as [t1 alive]. cbn [fst snd accepted] in *.
    rewrite app_nil_r. intros _.
    assert (HI1 : Inv W t1) by (exists a, n'; rewrite (Ext_closed _ _ _ _ X1); exact H1).
    assert (K : Keeps t1 (if alive then loopExit t1 else resetConnection t1)).
    { destruct alive; [apply loopExit_Keeps|apply resetConnection_Keeps]. }
    pose proof (Ext_trans iss _ _ _ _ _ X1 (Keeps_Ext W (sndClosedE t0) _ _ K)) as X2.
    rewrite (Ext_closed _ _ _ _ X2). split; [eapply Inv_Keeps; eauto|]. split.
    + eapply Emits_nil; [exact O0|apply Ext_Emits, X2].
    + rewrite C0. auto.
Qed.

(* ------------------------------------------------------------------ all runs *)

Lemma run_cons t e r : run t (e :: r) = run (fst (step t e)) r.
Proof. reflexivity. Qed.

Lemma closed_stays : forall es W t,
  Inv W t -> Forall ev_ok es -> sndClosedE t = true ->
  written t es = [] /\ sndClosedE (run t es) = true.
Proof.
  induction es as [|e r IH]; intros W t HI Hes HC; [split; [reflexivity|exact HC]|].
  inversion Hes as [|e' r' He Hr]; subst.
  pose proof (step_ok W t e HI He) as H. cbv zeta in H.
  assert (HB : len W < BOUND).
  { destruct HI as (a & n & HA). apply InvA_facts in HA. tauto. }
  assert (EA : accepted e (snd (step t e)) = []).
  { destruct e as [sg newRto|data| | |]; try reflexivity.
    (* a write on a closed endpoint: decided by appWrite alone *)
    unfold step. cbv zeta. unfold appWrite. cbn [sndClosedE set]. cbn.
    destruct (estate t =? stError); [reflexivity|].
    destruct (negb (estate t =? stConnected)); [reflexivity|].
    destruct (len data =? 0); [reflexivity|]. rewrite HC. reflexivity. }
  rewrite EA, app_nil_r in H. destruct (H HB) as (H1 & _ & H3). destruct (H3 HC) as [C1 _].
  destruct (IH W _ H1 Hr C1) as [W1 C2].
  cbn [written]. rewrite EA, W1, run_cons. auto.
Qed.

Lemma run_ok : forall es W t,
  Inv W t -> Forall ev_ok es -> len (W ++ written t es) < BOUND ->
  Inv (W ++ written t es) (run t es) /\
  Forall (good_frame (W ++ written t es) (sndClosedE (run t es))) (run_out t es).
Proof.
  induction es as [|e r IH]; intros W t HI Hes HB.
  { cbn. rewrite app_nil_r. split; [exact HI|constructor]. }
  inversion Hes as [|e' r' He Hr]; subst.
  cbn [written run_out] in *. rewrite run_cons. rewrite app_assoc in *.
  set (acc := accepted e (snd (step t e))) in *. set (t1 := fst (step t e)) in *.
  pose proof (step_ok W t e HI He) as H. cbv zeta in H. fold acc t1 in H.
  assert (HB1 : len (W ++ acc) < BOUND).
  { rewrite len_app in HB. pose proof (len_nonneg (written t1 r)). lia. }
  destruct (H HB1) as (H1 & G1 & _).
  destruct (IH (W ++ acc) t1 H1 Hr HB) as (H2 & G2).
  split; [exact H2|]. apply Forall_app. split; [|exact G2].
  eapply Forall_impl; [|exact G1]. intros f Gf. eapply good_frame_mono; [exact Gf|].
  intros HC. apply (closed_stays r (W ++ acc) t1 H1 Hr HC).
Qed.

(* ------------------------------------------------------------------ a freshly established connection *)

Theorem Inv_init t :
  wsent (SN t) = [] -> wunsent (SN t) = [] ->
  sndUna (SN t) = u32 (iss + 1) -> sndNxt (SN t) = u32 (iss + 1) -> sndNxtList (SN t) = u32 (iss + 1) ->
  frLast (SN t) = u32 iss -> 1 <= maxPayload (SN t) -> sndClosedE t = false ->
  Inv [] t.
Proof.
  intros E1 E2 E3 E4 E5 E6 E7 E8. exists 0, 0. rewrite E8.
  unfold TcpSndInvP.InvA, InvC. rewrite E1, E2, E3, E4, E5, E6.
  exists 0, 0, (-1), [], []. unfold total, SeqnumP.seq_of, BOUND. cbn [len length Z.of_nat].
  repeat split; try lia; try apply ch_nil; try (f_equal; lia).
  change 0 with (total [] false). apply fr_nil.
Qed.

End Trace.

(* ------------------------------------------------------------------ a non-trivial run satisfying the hypotheses *)

(* iss = 1000, MSS 10, peer window 25: write 3*MSS+7 bytes (split at MSS and at the window edge),
   an ACK in the middle of the second segment, three duplicate ACKs (fast retransmit of the trimmed
   segment), a time-out (rewind and retransmission), another partial ACK, shutdown, the remaining
   ACKs, a time-out retransmission of the FIN, and a write after the shutdown (refused). *)
Definition ex_t0 : tcp :=
  mkTcp (mkRcvr 5001 70536 0 false [] 0 65536)
        (mkSndr 0 false 0 1000 0 10 maxInt 0 0 25 1001 1001 1001 false [] [] 0 1000000000 10 0 5001 1001)
        [] 0 65536 false 65536 0 false 0 false [].
Definition ex_W : list Z := map Z.of_nat (seq 100 37).
Definition ackseg (ack wnd : Z) : seg := mkSeg 5001 ack fAck wnd [] false false.
Definition ex_es : list event :=
  [ EWrite ex_W; ESeg (ackseg 1016 30) 0;
    ESeg (ackseg 1016 30) 0; ESeg (ackseg 1016 30) 0; ESeg (ackseg 1016 30) 0;
    ERto; ESeg (ackseg 1018 30) 0; EShutW;
    ESeg (ackseg 1026 100) 0; ESeg (ackseg 1038 100) 0; ERto; ESeg (ackseg 1039 100) 0; EWrite [1;2;3] ].

Lemma ex_Inv : Inv 1000 [] ex_t0.
Proof. apply Inv_init; try reflexivity; cbn; lia. Qed.

Lemma ex_ev_ok : forall es, (forall e, In e es -> match e with ESeg s _ => 0 <= s_ack s < 4294967296 | _ => True end) ->
  Forall ev_ok es.
Proof.
  intros es H. apply Forall_forall. intros e He. specialize (H e He).
  destruct e; cbn; auto; unfold is_u32; consts; exact H.
Qed.

Example ex_run :
  Inv 1000 [] ex_t0 /\ Forall ev_ok ex_es /\
  written ex_t0 ex_es = ex_W /\ len ([] ++ written ex_t0 ex_es) < 2^30 /\
  map (fun f => (f_seq f, f_flags f, f_data f)) (run_out ex_t0 ex_es) =
    [(1001, 24, map Z.of_nat (seq 100 10)); (1011, 24, map Z.of_nat (seq 110 10));
     (1021, 24, map Z.of_nat (seq 120 5));                     (* split at the window edge *)
     (1026, 24, map Z.of_nat (seq 125 10)); (1036, 24, map Z.of_nat (seq 135 2));
     (1016, 24, map Z.of_nat (seq 115 5));                     (* fast retransmit after the partial ack *)
     (1016, 24, map Z.of_nat (seq 115 5));                     (* time-out retransmission *)
     (1026, 24, map Z.of_nat (seq 125 10)); (1036, 24, map Z.of_nat (seq 135 2));
     (1038, 17, []); (1038, 17, [])].                          (* FIN at iss+1+37, and its retransmission *)
Proof.
  split; [exact ex_Inv|]. split.
  { apply ex_ev_ok. intros e He. cbn in He.
    repeat (destruct He as [<-|He]; [cbn; try lia; exact I|]). destruct He. }
  split; [vm_compute; reflexivity|]. split; [vm_compute; reflexivity|].
  vm_compute. reflexivity.
Qed.

(* ------------------------------------------------------------------ the defect that was fixed in /repo *)

(* the ack loop as it was before "fix: partial ACK trims segment data without advancing its
   sequence number": the partial-trim branches keep w_seq *)
Fixpoint ackLoop_old (fuel : nat) (sent unsent : list wseg) (ackLeft removed : Z) : list wseg * list wseg * Z :=
  match fuel with
  | O => (sent, unsent, removed)
  | S f =>
      if negb (0 <? ackLeft) then (sent, unsent, removed) else
      match sent, unsent with
      | w :: sent', _ =>
          let dl := wlogicalLen w in
          if ackLeft <? dl then
            (mkW (w_seq w) (w_flags w) (dropZ ackLeft (w_data w)) :: sent', unsent, removed)
          else ackLoop_old f sent' unsent (u32 (ackLeft - dl)) (removed + 1)
      | [], w :: unsent' =>
          let dl := wlogicalLen w in
          if ackLeft <? dl then
            ([], mkW (w_seq w) (w_flags w) (dropZ ackLeft (w_data w)) :: unsent', removed)
          else ackLoop_old f [] unsent' (u32 (ackLeft - dl)) (removed + 1)
      | [], [] => (sent, unsent, removed)
      end
  end.

(* sndHandle / handleSegment / step / run_out with ackLoop_old in place of ackLoop, otherwise verbatim *)
Definition sndHandle_old (t : tcp) (sg : seg) (wnd : Z) (newRto : Z) (idle : bool) : tcp :=
  let s0 := SN t in
  let clampRto := if newRto <? minRTO then minRTO else newRto in
  let s1 := if negb (tsOk t) && lessThan (rttSeq s0) (s_ack sg)
            then s0 <| rto := clampRto |> <| rttSeq := sndNxt s0 |> else s0 in
  let segLog := plogicalLen (s_flags sg) (s_data sg) in
  let '(s2, rtx) := checkDuplicateAck s1 (s_ack sg) segLog wnd in
  let s3 := s2 <| sndWnd := wnd |> in
  let ack := s_ack sg in
  let t3 := t <| SN := s3 |> in
  let t4 :=
    if inRange (u32 (ack - 1)) (sndUna s3) (sndNxt s3) then
      let s4 := s3 <| dupAck := 0 |> <| tstate := if tstate s3 =? tDisabled then tDisabled else tOrphaned |> in
      let s5 := if tsOk t && s_tsecr sg then s4 <| rto := clampRto |> else s4 in
      let acked := size (sndUna s5) ack in
      let '(sent', unsent', removed) :=
        ackLoop_old (S (length (wsent s5) + length (wunsent s5))) (wsent s5) (wunsent s5) acked 0 in
      let s6 := s5 <| sndUna := ack |> <| wsent := sent' |> <| wunsent := unsent' |>
                   <| outstanding := outstanding s5 - removed |> in
      let s7 := if frActive s6 then s6 else renoUpdate s6 removed in
      let s8 := if outstanding s7 <? 0 then s7 <| outstanding := 0 |> else s7 in
      t3 <| SN := s8 |> <| sndBufUsed := sndBufUsed t3 - acked |>
    else t3 in
  let t5 := if rtx then resendSegment t4 else t4 in
  sendData t5 idle.

Definition handleSegment_old (t : tcp) (sg : seg) (newRto : Z) (idle : bool) : tcp :=
  if negb (estate t =? stConnected) then t else
  if has (s_flags sg) fRst then
    if acceptable (RC t) (s_seq sg) 0 then resetConnection t
    else
      let t1 := if negb (rcvNxt (RC t) =? maxSentAck (SN t)) then sendAck t else t in loopExit t1
  else
    let t1 :=
      if has (s_flags sg) fAck then
        if tsOk t && negb (s_ts sg) then t
        else
          let wnd := u32 (Z.shiftl (s_wnd sg) (sndWndScale (SN t))) in
          sndHandle_old (rcvHandle t sg) sg wnd newRto idle
      else t in
    let t2 := if negb (rcvNxt (RC t1) =? maxSentAck (SN t1)) then sendAck t1 else t1 in
    loopExit t2.

Definition step_old (t0 : tcp) (e : event) : tcp * result :=
  match e with
  | ESeg s newRto => (handleSegment_old (t0 <| out := [] |>) s newRto false, RNone)
  | _ => step t0 e
  end.

Fixpoint run_out_old (t : tcp) (es : list event) : list frame :=
  match es with
  | [] => []
  | e :: r => let t' := fst (step_old t e) in out t' ++ run_out_old t' r
  end.

(* Before the fix: write, ACK into the middle of the second segment, time-out.  The retransmitted
   segment carries bytes 15..19 of the stream under the sequence number of byte 10: it is not a slice
   of what was written at the offset its sequence number names (for ANY offset with that number).
   With the repaired ackLoop the same run satisfies snd_emits_slices (frame (1016, W[15,20))). *)
Lemma snd_partial_ack_refuted :
  exists t0 es f,
    Inv 1000 [] t0 /\ Forall ev_ok es /\ len ([] ++ written t0 es) < 2^30 /\
    In f (run_out_old t0 es) /\ f_data f <> [] /\
    ~ (exists off, f_seq f = seq_of 1000 off /\ is_slice ([] ++ written t0 es) off (f_data f)).
Proof.
  exists ex_t0, [EWrite ex_W; ESeg (ackseg 1016 30) 0; ERto],
         (mkF 1011 5001 24 65535 (map Z.of_nat (seq 115 5))).
  split; [exact ex_Inv|]. split.
  { apply ex_ev_ok. intros e He. cbn in He.
    repeat (destruct He as [<-|He]; [cbn; try lia; exact I|]). destruct He. }
  split; [vm_compute; reflexivity|]. split.
  { vm_compute. do 5 right. left. reflexivity. }
  split; [discriminate|].
  intros (off & E & S). apply is_slice_firstn_skipn in S. destruct S as (S0 & S1 & S2).
  assert (EW : [] ++ written ex_t0 [EWrite ex_W; ESeg (ackseg 1016 30) 0; ERto] = ex_W)
    by (vm_compute; reflexivity).
  rewrite EW in S1, S2. cbn [f_seq f_data] in *.
  change (len (map Z.of_nat (seq 115 5))) with 5 in S1. change (len ex_W) with 37 in S1.
  assert (off = 10).
  { unfold SeqnumP.seq_of, u32 in E. change (2^32) with 4294967296 in E.
    revert E. Z.div_mod_to_equations. lia. }
  subst off. vm_compute in S2. discriminate.
Qed.

(* the same three events on the repaired model *)
Example snd_partial_ack_fixed :
  map (fun f => (f_seq f, f_data f)) (run_out ex_t0 [EWrite ex_W; ESeg (ackseg 1016 30) 0; ERto]) =
  [(1001, map Z.of_nat (seq 100 10)); (1011, map Z.of_nat (seq 110 10)); (1021, map Z.of_nat (seq 120 5));
   (1026, map Z.of_nat (seq 125 10)); (1036, map Z.of_nat (seq 135 2));
   (1016, map Z.of_nat (seq 115 5))].
Proof. vm_compute. reflexivity. Qed.

(* ================================================================== FINAL THEOREMS (C01, send direction) *)

Section Final.
Variable iss : Z.
Notation Inv := (Inv iss).
Notation seq_of := (seq_of iss).

(* MAIN: every data-carrying frame ever emitted is the slice of the written stream that its
   sequence number names. *)
Theorem snd_emits_slices W0 t0 es :
  Inv W0 t0 -> Forall ev_ok es -> len (W0 ++ written t0 es) < 2^30 ->
  forall f, In f (run_out t0 es) -> f_data f <> [] ->
  exists off, f_seq f = seq_of off /\ is_slice (W0 ++ written t0 es) off (f_data f).
Proof.
  intros HI Hes HB f Hf Hd. destruct (run_ok iss es W0 t0 HI Hes HB) as [_ G].
  rewrite Forall_forall in G. destruct (G f Hf) as [G1 _]. exact (G1 Hd).
Qed.

(* a frame with the FIN flag carries no data, is numbered |W| (W = everything accepted, all of it
   before the shutdown) and is only emitted after the application shut the write side down *)
Theorem fin_after_all_data W0 t0 es :
  Inv W0 t0 -> Forall ev_ok es -> len (W0 ++ written t0 es) < 2^30 ->
  forall f, In f (run_out t0 es) -> has (f_flags f) fFin = true ->
  f_data f = [] /\ f_seq f = seq_of (len (W0 ++ written t0 es)) /\ sndClosedE (run t0 es) = true.
Proof.
  intros HI Hes HB f Hf Hd. destruct (run_ok iss es W0 t0 HI Hes HB) as [_ G].
  rewrite Forall_forall in G. destruct (G f Hf) as [_ G2]. destruct (G2 Hd) as (A & B & C). auto.
Qed.

(* data frames never carry the FIN flag, and they end at or before the FIN's offset *)
Theorem data_before_fin W0 t0 es :
  Inv W0 t0 -> Forall ev_ok es -> len (W0 ++ written t0 es) < 2^30 ->
  forall g, In g (run_out t0 es) -> f_data g <> [] ->
  has (f_flags g) fFin = false /\
  exists off, f_seq g = seq_of off /\ 0 <= off /\ off + len (f_data g) <= len (W0 ++ written t0 es).
Proof.
  intros HI Hes HB g Hg Hd. split.
  - destruct (has (f_flags g) fFin) eqn:E; [|reflexivity].
    destruct (fin_after_all_data W0 t0 es HI Hes HB g Hg E) as (A & _). congruence.
  - destruct (snd_emits_slices W0 t0 es HI Hes HB g Hg Hd) as (off & E & S).
    exists off. apply slice_bounds in S. tauto.
Qed.

(* after the shutdown nothing is accepted any more: W is final *)
Theorem no_write_after_shutdown W t es :
  Inv W t -> Forall ev_ok es -> sndClosedE t = true ->
  written t es = [] /\ sndClosedE (run t es) = true.
Proof. apply (closed_stays iss). Qed.

(* ... and every single write is refused *)
Theorem write_refused_after_shutdown t d :
  sndClosedE t = true -> exists c, snd (step t (EWrite d)) = RErr c \/ snd (step t (EWrite d)) = RCount 0.
Proof.
  intros HC. unfold step. cbv zeta. unfold appWrite. cbn [sndClosedE set]. cbn.
  destruct (estate t =? stError); [exists (-3); left; reflexivity|].
  destruct (negb (estate t =? stConnected)); [exists (-1); left; reflexivity|].
  destruct (len d =? 0); [exists 0; right; reflexivity|]. rewrite HC.
  exists (-1); left; reflexivity.
Qed.

(* the shutdown takes effect on a connected endpoint *)
Theorem shutdown_closes t :
  estate t = stConnected -> sndClosedE (fst (step t EShutW)) = true.
Proof.
  intros HE. pose proof (loopExit_Keeps iss) as LK.
  unfold step. cbv zeta. unfold appShutdownWrite. cbn [estate set]. cbn. rewrite HE.
  change (negb (stConnected =? stConnected)) with false. cbn match.
  destruct (sndClosedE t) eqn:EC; [cbn; exact EC|].
  cbv zeta.
  match goal with |- context [loopExit ?x] => set (X := x) end.
  assert (sndClosedE X = true).
  { subst X. cbn.
    match goal with |- context [sendData ?t1 false] =>
      pose proof (sendData_closed t1 false) as SC end.
    rewrite SC. reflexivity. }
  destruct (loopExit X) eqn:EL.
  destruct (LK X) as [_ K]. destruct (K [] false) as [C _]. rewrite EL in C. cbn in *. congruence.
Qed.


(* a freshly established connection (newSender: sndUna = sndNxt = sndNxtList = iss+1, fr.last = iss,
   empty write list, mss >= 1, write side open) *)
Definition established (t : tcp) : Prop :=
  wsent (SN t) = [] /\ wunsent (SN t) = [] /\
  sndUna (SN t) = u32 (iss + 1) /\ sndNxt (SN t) = u32 (iss + 1) /\ sndNxtList (SN t) = u32 (iss + 1) /\
  frLast (SN t) = u32 iss /\ 1 <= maxPayload (SN t) /\ sndClosedE t = false.

Lemma established_Inv t : established t -> Inv [] t.
Proof. intros (E1 & E2 & E3 & E4 & E5 & E6 & E7 & E8). apply Inv_init; assumption. Qed.

(* the two main theorems from connection establishment on: W is exactly what was written *)
Theorem snd_emits_slices_established t0 es :
  established t0 -> Forall ev_ok es -> len (written t0 es) < 2^30 ->
  forall f, In f (run_out t0 es) -> f_data f <> [] ->
  exists off, f_seq f = seq_of off /\ is_slice (written t0 es) off (f_data f).
Proof. intros HE. apply (snd_emits_slices [] t0 es (established_Inv t0 HE)). Qed.

Theorem fin_after_all_data_established t0 es :
  established t0 -> Forall ev_ok es -> len (written t0 es) < 2^30 ->
  forall f, In f (run_out t0 es) -> has (f_flags f) fFin = true ->
  f_data f = [] /\ f_seq f = seq_of (len (written t0 es)) /\ sndClosedE (run t0 es) = true.
Proof. intros HE. apply (fin_after_all_data [] t0 es (established_Inv t0 HE)). Qed.

(* the same in the form the run-time monitor (Corr/C01.v: spec) checks: the offset is read off the
   frame's sequence number *)
Theorem snd_emits_slices_monitor W0 t0 es :
  Inv W0 t0 -> Forall ev_ok es -> len (W0 ++ written t0 es) < 2^30 ->
  forall f, In f (run_out t0 es) -> f_data f <> [] ->
  is_slice (W0 ++ written t0 es) (u32 (f_seq f - iss - 1)) (f_data f).
Proof.
  intros HI Hes HB f Hf Hd.
  destruct (snd_emits_slices W0 t0 es HI Hes HB f Hf Hd) as (off & E & S).
  pose proof (slice_bounds _ _ _ S) as [B1 B2]. pose proof (len_nonneg (f_data f)) as B3.
  replace (u32 (f_seq f - iss - 1)) with off; [exact S|].
  rewrite E. unfold SeqnumP.seq_of, u32. change (2^30) with 1073741824 in HB.
  change (2^32) with 4294967296. Z.div_mod_to_equations. lia.
Qed.

End Final.
