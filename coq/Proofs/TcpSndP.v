From Coq Require Import ZArith List Bool Lia ZifyBool.
From RecordUpdate Require Import RecordSet.
From NP Require Import Model.Seqnum Model.GoHeap Model.Tcp Proofs.SeqnumP.
Import ListNotations RecordSetNotations.
Open Scope Z_scope.

Lemma test1 (s : sndr) c : sndUna (s <| cwnd := c |>) = sndUna s.
Proof. cbn. reflexivity. Qed.

Lemma test2 (t : tcp) d fl sq : SN (sendSegment t d fl sq) = (SN t) <| maxSentAck := rcvNxt (RC t) |>.
Proof. unfold sendSegment, getSendParams. cbn. reflexivity. Qed.

Lemma test3 (t : tcp) d fl sq : exists ak wnd, out (sendSegment t d fl sq) = out t ++ [mkF sq ak fl wnd d].
Proof. unfold sendSegment, getSendParams. cbn. eauto. Qed.
