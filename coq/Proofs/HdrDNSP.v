(* Lemmas about Model/HdrDNS.v (protocol/header/dns.go, query side). *)
From Coq Require Import ZArith List Bool Lia ZifyBool.
From NP Require Import Model.Bytes Model.HdrDNS Proofs.BytesP.
Import ListNotations.
Open Scope Z_scope.

Lemma w8_len (seg : list Z) : (length seg <= 255)%nat -> w8 (Z.of_nat (length seg)) = Z.of_nat (length seg).
Proof. intros H. unfold w8. change (2^8) with 256. apply Z.mod_small. lia. Qed.

Lemma getDomain_cons (seg : list Z) ls : dns_getDomain (seg :: ls) = (w8 (Z.of_nat (length seg)) :: seg) ++ dns_getDomain ls.
Proof. unfold dns_getDomain. cbn [flat_map]. rewrite <- app_assoc. reflexivity. Qed.

(* the independent RFC 1035 reader recovers the labels from what getDomain wrote *)
Lemma rfc1035_reads_getDomain labels : forall rest fuel,
  Forall wf_label labels -> (length labels < fuel)%nat ->
  rfc1035_labels fuel (dns_getDomain labels ++ rest) = Some (labels, rest).
Proof.
  induction labels as [|seg ls IH]; intros rest fuel Hwf Hf.
  - destruct fuel as [|fuel]; [cbn [length] in Hf; lia|]. reflexivity.
  - inversion Hwf as [|? ? [Hlen Hok] Hrest]; subst.
    destruct fuel as [|fuel]; [lia|]. cbn [length] in Hf.
    rewrite getDomain_cons, w8_len by lia. rewrite <- app_assoc. cbn [app rfc1035_labels].
    destruct (Z.eqb_spec (Z.of_nat (length seg)) 0) as [Z0|Z0]; [lia|].
    rewrite Nat2Z.id.
    destruct (Nat.ltb_spec (length (seg ++ dns_getDomain ls ++ rest)) (length seg)) as [L|L];
      [rewrite app_length in L; lia|].
    rewrite skipn_app, skipn_all, Nat.sub_diag. cbn [skipn app].
    rewrite IH by (try assumption; lia).
    rewrite firstn_app, Nat.sub_diag, firstn_all. cbn [firstn]. rewrite app_nil_r. reflexivity.
Qed.

(* GetDomainLen walks the same labels and returns the number of QNAME bytes *)
Lemma domainLen_loop_spec labels : forall pre rest fuel rs,
  Forall wf_label labels -> (length labels < fuel)%nat ->
  dns_domainLen_loop fuel (pre ++ dns_getDomain labels ++ rest) (length pre) rs =
  DOk (rs + Z.of_nat (length (dns_getDomain labels))).
Proof.
  induction labels as [|seg ls IH]; intros pre rest fuel rs Hwf Hf.
  - destruct fuel as [|fuel]; [cbn [length] in Hf; lia|]. cbn [dns_domainLen_loop].
    rewrite nth_error_app2, Nat.sub_diag by lia. cbn. apply f_equal. lia.
  - inversion Hwf as [|? ? [Hlen Hok] Hrest]; subst.
    destruct fuel as [|fuel]; [lia|]. cbn [length] in Hf. cbn [dns_domainLen_loop].
    rewrite getDomain_cons, w8_len by lia.
    rewrite nth_error_app2, Nat.sub_diag by lia. cbn [app nth_error].
    destruct (Z.eqb_spec (Z.of_nat (length seg)) 0) as [Z0|Z0]; [lia|].
    rewrite Nat2Z.id.
    specialize (IH (pre ++ Z.of_nat (length seg) :: seg) rest fuel (rs + 1 + Z.of_nat (length seg)) Hrest ltac:(lia)).
    rewrite <- !app_assoc in IH. cbn [app] in IH. rewrite <- !app_assoc.
    replace (length (pre ++ Z.of_nat (length seg) :: seg)) with (length pre + length seg + 1)%nat in IH
      by (rewrite app_length; cbn [length]; lia).
    rewrite IH. apply f_equal. cbn [length]. rewrite app_length. lia.
Qed.

Theorem dns_question_roundtrip h labels qtype qclass :
  length h = 12%nat -> Forall wf_label labels -> 0 <= qtype < 65536 -> 0 <= qclass < 65536 ->
  let d := dns_setQuestion h labels qtype qclass in
  (* GetDomainLen = number of QNAME bytes *)
  dns_getDomainLen d = DOk (Z.of_nat (length (dns_getDomain labels))) /\
  (* the 12 header bytes are kept, and an RFC 1035 reader finds the labels, then QTYPE and QCLASS *)
  firstn 12 d = h /\
  exists rest, rfc1035_labels (S (length labels)) (skipn 12 d) = Some (labels, rest) /\
    get16 rest 0 = Some qtype /\ get16 rest 2 = Some qclass /\ length rest = 4%nat.
Proof.
  intros Hh Hwf Hqt Hqc d. subst d. unfold dns_setQuestion. split; [|split].
  - unfold dns_getDomainLen. rewrite <- app_assoc, <- Hh.
    pose proof (domainLen_loop_spec labels h [w8 (qtype / 2 ^ 8); w8 qtype; w8 (qclass / 2 ^ 8); w8 qclass]
                  (S (length (h ++ dns_getDomain labels ++ [w8 (qtype / 2 ^ 8); w8 qtype; w8 (qclass / 2 ^ 8); w8 qclass])))
                  0 Hwf) as H.
    rewrite H; [apply f_equal; lia|].
    rewrite !app_length. assert (Q : (length labels <= length (dns_getDomain labels))%nat); [|lia].
    clear. unfold dns_getDomain. rewrite app_length. induction labels as [|s l IH]; cbn [flat_map length]; [lia|].
    rewrite app_length. cbn [length] in *. lia.
  - rewrite <- app_assoc, <- Hh, firstn_app, Nat.sub_diag, firstn_all. cbn [firstn]. apply app_nil_r.
  - exists [w8 (qtype / 2 ^ 8); w8 qtype; w8 (qclass / 2 ^ 8); w8 qclass].
    rewrite <- app_assoc, <- Hh, skipn_app, skipn_all, Nat.sub_diag. cbn [skipn app].
    split; [apply rfc1035_reads_getDomain; [exact Hwf|lia]|].
    unfold get16. cbn [nth_error obind]. rewrite !be16_rt by lia. repeat split.
Qed.

Theorem dns_header_roundtrip d id qd an ns qa :
  (12 <= length d)%nat -> 0 <= id < 65536 -> 0 <= qd < 65536 -> 0 <= an < 65536 -> 0 <= ns < 65536 ->
  0 <= qa < 65536 ->
  exists d', obind (dns_setheader d id) (fun d1 => dns_setCount d1 qd an ns qa) = Some d' /\
    dns_getId d' = Some id /\ dns_getQDCount d' = Some qd /\ dns_getANCount d' = Some an /\
    dns_getNSCount d' = Some ns /\ dns_getARCount d' = Some qa /\
    get16 d' 2 = Some 256 /\ skipn 12 d' = skipn 12 d.
Proof.
  intros Hl Hid Hqd Han Hns Hqa.
  do 12 (destruct d as [|?x d]; [cbn [length] in Hl; lia|]).
  unfold dns_setheader, dns_setCount, dns_getId, dns_getQDCount, dns_getANCount, dns_getNSCount, dns_getARCount.
  cbn -[Z.mul Z.add Z.sub Z.div Z.modulo Z.pow w8 w16].
  eexists. split; [reflexivity|].
  cbn -[Z.mul Z.add Z.sub Z.div Z.modulo Z.pow w8 w16].
  rewrite !be16_rt by lia.
  repeat split.
Qed.
