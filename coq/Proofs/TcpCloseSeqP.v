(* Lemmas for C02, part 2: facts that need the sequence-space invariant of the write list
   (Proofs/TcpSndInvP.v, Inv, proved for all runs in Proofs/TcpSndP.v): in every reachable state
   with something in flight the head of the retransmission queue is the oldest unacknowledged
   segment, so the back-off theorem applies to every reachable state. *)
From Coq Require Import ZArith List Bool Lia ZifyBool.
From RecordUpdate Require Import RecordSet.
From NP Require Import Model.Seqnum Model.GoHeap Model.Tcp Proofs.SeqnumP.
From NP Require Proofs.TcpSndInvP Proofs.TcpSndLoopP Proofs.TcpSndP.
From NP Require Import Proofs.TcpCloseP.
Import ListNotations RecordSetNotations.
Open Scope Z_scope.

Module I := TcpSndInvP.
Module SP := TcpSndP.

Lemma fresh_at_end W o fr : I.fresh W true o fr -> o = len W + 1 -> fr = [].
Proof.
  intros H E. inversion H as [|o' d r Hd Hs Hc E1 E2|Hf E1 E2]; subst; auto.
  - apply I.slice_bounds in Hs. pose proof (TcpCloseP.len_nonneg d). lia.
  - lia.
Qed.

Lemma u32_is x : is_u32 (u32 x).
Proof. word. Qed.

Lemma seq_of_step iss a dn : u32 (seq_of iss a + dn) = seq_of iss (a + dn).
Proof. unfold seq_of. unfold u32. rewrite Zplus_mod_idemp_l. f_equal. lia. Qed.

(* in a state satisfying the write-list invariant, with something in flight, the head of the
   retransmission queue is the oldest unacknowledged segment *)
Lemma Inv_oldest iss W t :
  I.Inv iss W t -> sndUna (SN t) <> sndNxt (SN t) ->
  oldest_in_flight t /\ 1 <= maxPayload (SN t) /\ is_u32 (sndUna (SN t)).
Proof.
  intros (a & n & HA) NE. unfold I.InvA, I.InvC in HA.
  destruct HA as (m & e & fl & nu & fr & H1 & H2 & H3 & H4 & H5 & H6 & H7 & H8 & H9 & H10 & H11 & H12 & H13 & H14 & H15 & H16).
  assert (AN : a < n).
  { destruct (Z.eq_dec a n) as [->|]; [|lia]. exfalso. apply NE. congruence. }
  pose proof (I.chain_app _ _ _ _ _ _ _ _ H4 H6) as C.
  pose proof (I.fresh_hi _ _ _ _ H7) as Hhi.
  assert (Ht : I.total W (sndClosedE t) <= len W + 1) by (unfold I.total; destruct (sndClosedE t); lia).
  assert (BD : len W < 2^30) by exact H16.
  split; [|split; [exact H15|rewrite H1; unfold seq_of; apply u32_is]].
  unfold oldest_in_flight. rewrite H5, app_assoc.
  inversion C as [o E1 E2 E3|o d r e' Hd Hs Hc E1 E2 E3|Hf E1 E2 E3].
  - exfalso. lia.
  - exists (mkW (seq_of iss a) I.fDATA d), (r ++ fr), (n - a).
    split; [reflexivity|]. split; [left; split; [reflexivity|exact Hd]|]. split; [cbn; congruence|].
    split; [rewrite H1, H2, seq_of_step; f_equal; lia|].
    apply I.slice_bounds in Hs. cbn [w_data]. change (2^31) with 2147483648. change (2^30) with 1073741824 in BD. lia.
  - assert (FR : fr = []).
    { apply (fresh_at_end W e fr); [rewrite <- Hf; exact H7|]. lia. }
    subst fr. exists (mkW (seq_of iss (len W)) I.fFINACK []), [], (n - a).
    split; [reflexivity|]. split; [right; auto|]. split; [cbn; congruence|].
    split; [rewrite H1, H2, seq_of_step; f_equal; lia|].
    cbn [w_data]. change (len []) with 0. change (2^31) with 2147483648. change (2^30) with 1073741824 in BD. lia.
Qed.

(* invariants of all reachable states, bundled *)
Definition reach_inv (iss : Z) (W : list Z) (t : tcp) : Prop :=
  I.Inv iss W t /\ close_inv t /\ timer_ok t.

Lemma reach_inv_run iss W t es :
  reach_inv iss W t -> Forall SP.ev_ok es -> len (W ++ SP.written t es) < 2^30 ->
  reach_inv iss (W ++ SP.written t es) (run t es).
Proof.
  intros (A & B & C) F L. split; [|split].
  - apply (SP.run_ok iss es W t A F L).
  - apply closed_iff_all_done. exact B.
  - apply timer_armed_when_outstanding. exact C.
Qed.

Lemma reach_rto_ready iss W t :
  reach_inv iss W t -> estate t = stConnected -> sndUna (SN t) <> sndNxt (SN t) -> rto_ready t.
Proof.
  intros (A & B & C) EC NE. destruct (Inv_oldest iss W t A NE) as (O & M & U).
  unfold rto_ready. split; [exact EC|]. split; [apply C; assumption|].
  split; [apply (proj1 (proj2 B)); exact EC|]. auto.
Qed.

(* (1)+(2) for every reachable state: with data or a FIN in flight the timer runs, its expiry either
   fails the connection explicitly (limit reached) or backs off, re-arms and retransmits the oldest
   segment (unless the peer's window is closed for it) *)
Theorem outstanding_implies_progress iss W t :
  reach_inv iss W t -> estate t = stConnected -> sndUna (SN t) <> sndNxt (SN t) ->
  tstate (SN t) = tEnabled /\
  let t' := fst (step t ERto) in
  (maxRTO <= rto (SN t) /\ estate t' = stError /\ out t' = [rst_frame t]) \/
  (rto (SN t) < maxRTO /\ rto_ready t' /\ rto (SN t') = 2 * rto (SN t) /\ sndUna (SN t') = sndUna (SN t) /\
   (out t' = [] \/
    exists f w rest, out t' = [f] /\ wsent (SN t) ++ wunsent (SN t) = w :: rest /\
      f_seq f = sndUna (SN t) /\ f_flags f = w_flags w /\
      f_data f = takeZ (len (f_data f)) (w_data w) /\ (w_data w <> [] -> f_data f <> []))).
Proof.
  intros R EC NE. pose proof (reach_rto_ready iss W t R EC NE) as RR.
  split; [apply RR|]. cbv zeta.
  destruct (Z_le_gt_dec maxRTO (rto (SN t))) as [L|G].
  - left. split; [exact L|]. apply rto_expiry_fails; [exact EC|apply RR|exact L].
  - right. split; [lia|]. apply rto_expiry_retransmits; [exact RR|lia].
Qed.

Theorem rto_backoff_reachable iss W t :
  reach_inv iss W t -> estate t = stConnected -> sndUna (SN t) <> sndNxt (SN t) -> minRTO <= rto (SN t) ->
  let k := expiries_left 9 (rto (SN t)) in
  (1 <= k <= 10)%nat /\
  estate (run t (repeat ERto k)) = stError /\
  (forall j, (j < k)%nat ->
     rto_ready (run t (repeat ERto j)) /\ rto (SN (run t (repeat ERto j))) = 2 ^ Z.of_nat j * rto (SN t) /\
     sndUna (SN (run t (repeat ERto j))) = sndUna (SN t)).
Proof. intros R EC NE M. apply rto_backoff_terminates; [eapply reach_rto_ready; eauto|exact M]. Qed.

Example fresh_reach_inv iss irs mp wnd : is_u32 iss -> 1 <= mp -> reach_inv iss [] (fresh_conn iss irs mp wnd).
Proof.
  intros U M. split; [|split; [apply fresh_close_inv|apply fresh_timer_ok]].
  apply SP.Inv_init; try reflexivity; [|exact M].
  cbn. unfold is_u32 in U. unfold u32. symmetry. apply Z.mod_small. exact U.
Qed.

(* ------------------------------------------------------------------ (3) the FIN is queued behind all data *)
Definition data_elem (w : wseg) : Prop := w_data w <> [].
Definition fin_elem (w : wseg) : Prop := w_data w = [].

Lemma chain_shape iss W fin o l e :
  I.chain iss W fin o l e ->
  (Forall data_elem l /\ (l <> [] -> e <= len W)) \/
  (exists l' f, l = l' ++ [f] /\ Forall data_elem l' /\ fin_elem f /\ e = len W + 1 /\ fin = true).
Proof.
  induction 1 as [o|o d r e Hd Hs Hc IH|Hf].
  - left. split; [constructor|congruence].
  - destruct IH as [[F B]|(l' & f & E & F & FE & EE & FF)].
    + left. split; [constructor; [exact Hd|exact F]|]. intros _.
      destruct r as [|x r].
      * inversion Hc; subst. apply I.slice_bounds in Hs. lia.
      * apply B. congruence.
    + right. exists (mkW (seq_of iss o) I.fDATA d :: l'), f. rewrite E. repeat split; auto.
      all: try (constructor; [exact Hd|exact F]).
  - right. exists [], (mkW (seq_of iss (len W)) I.fFINACK []). repeat split; auto.
Qed.

Lemma fresh_shape W o fr :
  I.fresh W true o fr -> o <= len W ->
  exists l' f, fr = l' ++ [f] /\ Forall data_elem l' /\ fin_elem f.
Proof.
  intros H. remember true as fin eqn:Ef. induction H as [|o d r Hd Hs Hc IH|Hf]; intros L; subst fin.
  - unfold I.total in L. lia.
  - destruct (Z_le_gt_dec (o + len d) (len W)) as [L2|G].
    + destruct (IH L2) as (l' & f & E & F & FE). exists (mkW 0 0 d :: l'), f. rewrite E.
      repeat split; auto. all: try (constructor; [exact Hd|exact F]).
    + apply I.slice_bounds in Hs. lia.
  - exists [], (mkW 0 0 []). repeat split; auto.
Qed.

(* after the shutdown: the write list is some data elements followed by exactly one FIN element, or
   everything including the FIN has been acknowledged; sndNxtList counts the FIN as one number *)
Lemma fin_queued_last iss W t :
  I.Inv iss W t -> sndClosedE t = true ->
  sndNxtList (SN t) = seq_of iss (len W + 1) /\
  ((wsent (SN t) ++ wunsent (SN t) = [] /\ sndUna (SN t) = sndNxtList (SN t)) \/
   exists l f, wsent (SN t) ++ wunsent (SN t) = l ++ [f] /\ Forall data_elem l /\ fin_elem f).
Proof.
  intros (a & n & HA) SC. unfold I.InvA, I.InvC in HA. rewrite SC in HA.
  destruct HA as (m & e & fl & nu & fr & H1 & H2 & H3 & H4 & H5 & H6 & H7 & H8 & H9 & H10 & H11 & H12 & H13 & H14 & H15 & H16).
  split; [exact H3|].
  pose proof (I.chain_app _ _ _ _ _ _ _ _ H4 H6) as C. rewrite H5, app_assoc.
  pose proof (I.fresh_hi _ _ _ _ H7) as Hhi. unfold I.total in Hhi.
  destruct (chain_shape _ _ _ _ _ _ C) as [[F B]|(l' & f & E & F & FE & EE & _)].
  - destruct (Z_le_gt_dec e (len W)) as [L|G].
    + destruct (fresh_shape W e fr H7 L) as (l' & f & E & F' & FE). right.
      exists ((wsent (SN t) ++ nu) ++ l'), f. rewrite E, app_assoc. repeat split; auto. apply Forall_app; auto.
    + assert (EE : e = len W + 1) by lia.
      assert (LN : wsent (SN t) ++ nu = []).
      { destruct (wsent (SN t) ++ nu) as [|x l]; [reflexivity|]. exfalso. assert (e <= len W) by (apply B; congruence). lia. }
      assert (FR : fr = []) by (apply (fresh_at_end W e fr H7 EE)).
      left. rewrite LN, FR. split; [reflexivity|]. rewrite LN in C. inversion C; subst. rewrite H1, H3. reflexivity.
  - assert (FR : fr = []) by (apply (fresh_at_end W e fr H7 EE)).
    right. exists l', f. rewrite E, FR, app_nil_r. auto.
Qed.

(* before the shutdown the write list holds data only, and sndNxtList is the end of the written stream *)
Lemma no_fin_before_shutdown iss W t :
  I.Inv iss W t -> sndClosedE t = false ->
  sndNxtList (SN t) = seq_of iss (len W) /\ Forall data_elem (wsent (SN t) ++ wunsent (SN t)).
Proof.
  intros (a & n & HA) SC. unfold I.InvA, I.InvC in HA. rewrite SC in HA.
  destruct HA as (m & e & fl & nu & fr & H1 & H2 & H3 & H4 & H5 & H6 & H7 & H8 & H9 & H10 & H11 & H12 & H13 & H14 & H15 & H16).
  split; [rewrite H3; unfold I.total; f_equal; lia|].
  pose proof (I.chain_app _ _ _ _ _ _ _ _ H4 H6) as C. rewrite H5, app_assoc.
  apply Forall_app. split.
  - destruct (chain_shape _ _ _ _ _ _ C) as [[F _]|(_ & _ & _ & _ & _ & _ & X)]; [exact F|discriminate].
  - clear -H7. remember false as fin eqn:Ef. induction H7 as [|o d r Hd Hs Hc IH|Hf]; subst fin.
    + constructor. + constructor; [exact Hd|apply IH; reflexivity]. + discriminate.
Qed.

(* what does hold of "never permanently quiet": with anything in flight *)
Lemma no_silent_stall_partial iss W t :
  reach_inv iss W t -> estate t = stConnected -> sndUna (SN t) <> sndNxt (SN t) -> minRTO <= rto (SN t) ->
  tstate (SN t) = tEnabled /\
  exists k, (1 <= k <= 10)%nat /\ estate (run t (repeat ERto k)) = stError.
Proof.
  intros R EC NE M. split; [apply (reach_rto_ready iss W t R EC NE)|].
  destruct (rto_backoff_reachable iss W t R EC NE M) as (A & B & _). eauto.
Qed.
