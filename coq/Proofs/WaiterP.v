(* Proofs about Model/Waiter.v: the wait queue refines the abstract specification of
   Model/WaiterSpec.v on every history that respects the API contract; the clauses of C17 are
   consequences. *)
From Coq Require Import ZArith List Lia Bool.
From NP Require Import Model.Ilist Model.WaiterSpec Model.Waiter Proofs.IlistP.
Import ListNotations.
Open Scope Z_scope.

(* ---------------------------------------------------------------- refinement relation *)

Definition R (w : world) (a : astate) : Prop :=
  dll_repr (wl w) (map fst (areg a)) /\
  (forall e m, In (e, m) (areg a) -> wmask w e = m) /\
  (forall e, wch w e = if mem e (atok a) then 1 else 0) /\
  wlog w = alog a.

Lemma R_init : R w0 a0.
Proof.
  split; [exact empty_repr|]. split; [intros e m []|]. split; [intros e; reflexivity|reflexivity].
Qed.

Lemma updZ_same : forall f k v, updZ f k v k = v.
Proof. intros. unfold updZ. rewrite Z.eqb_refl. reflexivity. Qed.

Lemma updZ_other : forall f k v x, x <> k -> updZ f k v x = f x.
Proof.
  intros f k v x Hne. unfold updZ. destruct (x =? k) eqn:E; [|reflexivity].
  apply Z.eqb_eq in E. contradiction.
Qed.

Lemma mem_cons : forall e x l, mem e (x :: l) = (e =? x) || mem e l.
Proof. reflexivity. Qed.

Lemma mem_In : forall e l, mem e l = true <-> In e l.
Proof.
  intros e l. unfold mem. rewrite existsb_exists. split.
  - intros [x [Hx E]]. apply Z.eqb_eq in E. subst. exact Hx.
  - intros H. exists e. split; [exact H|apply Z.eqb_refl].
Qed.

Lemma mem_filter_ne : forall e e' l,
  mem e' (filter (fun x => negb (x =? e)) l) = if e' =? e then false else mem e' l.
Proof.
  intros e e' l. induction l as [|x l IH]; [destruct (e' =? e); reflexivity|].
  cbn [filter]. destruct (x =? e) eqn:Exe; cbn [negb].
  - rewrite IH, mem_cons. apply Z.eqb_eq in Exe. subst x.
    destruct (e' =? e); reflexivity.
  - rewrite !mem_cons, IH. destruct (e' =? e) eqn:E1; [|reflexivity].
    apply Z.eqb_eq in E1. subst e'. rewrite Z.eqb_sym, Exe. reflexivity.
Qed.

(* ---------------------------------------------------------------- list facts of the spec *)

Lemma map_fst_other : forall e r, map fst (filter (other e) r) = without e (map fst r).
Proof.
  intros e r. induction r as [|[x m] r IH]; [reflexivity|].
  unfold without in *. cbn [filter map fst other]. unfold other at 1. cbn [fst].
  destruct (x =? e); cbn [negb map fst]; rewrite IH; reflexivity.
Qed.

Lemma filter_length_le' : forall (A : Type) (f : A -> bool) l, (length (filter f l) <= length l)%nat.
Proof.
  intros A f l. induction l as [|x l IH]; [apply le_n|].
  cbn [filter]. destruct (f x); cbn [length]; lia.
Qed.

Lemma reg_step_length : forall r o, (length (reg_step r o) <= S (length r))%nat.
Proof.
  intros r o. destruct o; cbn [reg_step]; try lia.
  - rewrite app_length. cbn [length]. lia.
  - pose proof (filter_length_le' _ (other e) r). lia.
Qed.

Lemma fold_scb_areg : forall k inv a, areg (fold_left (scb k) inv a) = areg a.
Proof.
  intros k inv. induction inv as [|x inv IH]; intros a; [reflexivity|].
  cbn [fold_left]. rewrite IH. unfold scb. destruct (k x); reflexivity.
Qed.

Lemma sstep_areg : forall k a o, areg (fst (sstep k a o)) = reg_step (areg a) o.
Proof.
  intros k a o. destruct o; cbn [sstep fst reg_step areg]; try reflexivity.
  - apply fold_scb_areg.
  - destruct (mem e (atok a)); reflexivity.
Qed.

Lemma sfinal_areg : forall k ops a, areg (sfinal k a ops) = fold_left reg_step ops (areg a).
Proof.
  intros k ops. induction ops as [|o ops IH]; intros a; [reflexivity|].
  unfold sfinal in *. cbn [fold_left]. rewrite IH, sstep_areg. reflexivity.
Qed.

Lemma sfinal_registered : forall k ops, areg (sfinal k a0 ops) = registered ops.
Proof. intros k ops. apply sfinal_areg. Qed.

Lemma sfinal_app : forall k a o1 o2, sfinal k a (o1 ++ o2) = sfinal k (sfinal k a o1) o2.
Proof. intros. unfold sfinal. apply fold_left_app. Qed.

Lemma sobs_app : forall k o1 o2 a, sobs k a (o1 ++ o2) = sobs k a o1 ++ sobs k (sfinal k a o1) o2.
Proof.
  intros k o1. induction o1 as [|o o1 IH]; intros o2 a; [reflexivity|].
  cbn [app sobs]. rewrite IH. reflexivity.
Qed.

Lemma sobs_length : forall k ops a, length (sobs k a ops) = length ops.
Proof.
  intros k ops. induction ops as [|o ops IH]; intros a; [reflexivity|].
  cbn [sobs length]. rewrite IH. reflexivity.
Qed.

Lemma registered_snoc : forall ops o, registered (ops ++ [o]) = reg_step (registered ops) o.
Proof. intros. unfold registered. rewrite fold_left_app. reflexivity. Qed.

Lemma contract_app : forall o1 o2 r,
  contract r (o1 ++ o2) <-> contract r o1 /\ contract (fold_left reg_step o1 r) o2.
Proof.
  intros o1. induction o1 as [|o o1 IH]; intros o2 r.
  - cbn [app contract fold_left]. tauto.
  - cbn [app contract fold_left]. rewrite IH. tauto.
Qed.

Lemma contractb_spec : forall ops r, contractb r ops = true <-> contract r ops.
Proof.
  intros ops. induction ops as [|o ops IH]; intros r; [cbn; tauto|].
  cbn [contractb contract]. rewrite andb_true_iff, IH.
  assert (H : op_okb r o = true <-> op_ok r o).
  { destruct o; cbn [op_okb op_ok]; try tauto.
    - rewrite negb_true_iff, <- not_true_iff_false, mem_In. tauto.
    - apply mem_In. }
  tauto.
Qed.

(* the registered entries are pairwise distinct under the contract *)
Lemma reg_step_NoDup : forall r o, NoDup (map fst r) -> op_ok r o -> NoDup (map fst (reg_step r o)).
Proof.
  intros r o Hnd Hok. destruct o; cbn [reg_step]; try exact Hnd.
  - cbn [op_ok] in Hok. rewrite map_app. cbn [map fst].
    apply NoDup_app_intro; [exact Hnd|constructor; [intros []|constructor]|].
    intros x Hx [E|[]]. subst. contradiction.
  - rewrite map_fst_other. unfold without. apply NoDup_filter. exact Hnd.
Qed.

Lemma contract_NoDup : forall ops r,
  NoDup (map fst r) -> contract r ops -> NoDup (map fst (fold_left reg_step ops r)).
Proof.
  intros ops. induction ops as [|o ops IH]; intros r Hnd Hc; [exact Hnd|].
  cbn [contract] in Hc. destruct Hc as [Hok Hc]. cbn [fold_left].
  apply IH; [apply reg_step_NoDup; assumption|exact Hc].
Qed.

Lemma registered_NoDup : forall ops, contract [] ops -> NoDup (map fst (registered ops)).
Proof. intros ops Hc. apply contract_NoDup; [constructor|exact Hc]. Qed.

Lemma to_notify_In : forall m r e,
  In e (to_notify m r) <-> exists mk, In (e, mk) r /\ Z.land m mk <> 0.
Proof.
  intros m r e. unfold to_notify. rewrite in_map_iff. split.
  - intros [[e' mk] [E Hin]]. cbn [fst] in E. subst e'. apply filter_In in Hin.
    destruct Hin as [Hin Hi]. exists mk. split; [exact Hin|].
    unfold interested in Hi. cbn [snd] in Hi. apply negb_true_iff in Hi.
    apply Z.eqb_neq in Hi. exact Hi.
  - intros [mk [Hin Hne]]. exists (e, mk). split; [reflexivity|]. apply filter_In.
    split; [exact Hin|]. unfold interested. cbn [snd]. apply negb_true_iff.
    apply Z.eqb_neq. exact Hne.
Qed.

Lemma NoDup_map_filter : forall (f : Z * Z -> bool) r, NoDup (map fst r) -> NoDup (map fst (filter f r)).
Proof.
  intros f r. induction r as [|p r IH]; intros Hnd; [constructor|].
  cbn [map] in Hnd. inversion Hnd as [|x l Hnin Hnd']; subst.
  cbn [filter]. destruct (f p); [|apply IH; exact Hnd'].
  cbn [map]. constructor; [|apply IH; exact Hnd'].
  intros Hin. apply Hnin. apply in_map_iff in Hin. destruct Hin as [q [E Hq]].
  apply filter_In in Hq. apply in_map_iff. exists q. split; [exact E|exact (proj1 Hq)].
Qed.

Lemma to_notify_NoDup : forall m r, NoDup (map fst r) -> NoDup (to_notify m r).
Proof. intros m r H. unfold to_notify. apply NoDup_map_filter. exact H. Qed.

(* the masks recorded by [registered] are functional under the contract *)
Lemma NoDup_fst_functional : forall (r : list (Z * Z)) e m1 m2,
  NoDup (map fst r) -> In (e, m1) r -> In (e, m2) r -> m1 = m2.
Proof.
  intros r. induction r as [|[x m] r IH]; intros e m1 m2 Hnd H1 H2; [contradiction|].
  cbn [map fst] in Hnd. inversion Hnd as [|y l Hnin Hnd']; subst.
  destruct H1 as [H1|H1], H2 as [H2|H2].
  - congruence.
  - injection H1 as -> ->. exfalso. apply Hnin. apply in_map_iff. exists (e, m2). split; [reflexivity|exact H2].
  - injection H2 as -> ->. exfalso. apply Hnin. apply in_map_iff. exists (e, m1). split; [reflexivity|exact H1].
  - apply (IH e m1 m2 Hnd' H1 H2).
Qed.

(* what "registered at that moment" means in terms of the history itself: (e, mk) is
   registered after [ops] iff the history contains a Register e mk that is followed by no
   further Register/Unregister of e *)
Definition touches (e : Z) (o : op) : Prop :=
  o = OUnregister e \/ exists m, o = ORegister e m.

Lemma list_rev_case_op : forall (l : list op), l = [] \/ exists l' q, l = l' ++ [q].
Proof.
  intros l. destruct l as [|x l]; [left; reflexivity|right].
  destruct (exists_last (l := x :: l)) as [l' [q Hq]]; [discriminate|].
  exists l', q. exact Hq.
Qed.

Lemma registered_last_op : forall ops e mk,
  contract [] ops ->
  (In (e, mk) (registered ops) <->
   exists ops1 ops2, ops = ops1 ++ ORegister e mk :: ops2 /\ forall o, In o ops2 -> ~ touches e o).
Proof.
  intros ops. induction ops as [|o ops IH] using rev_ind; intros e mk Hc.
  - cbn. split; [intros []|]. intros [o1 [o2 [E _]]]. destruct o1; discriminate.
  - apply contract_app in Hc. destruct Hc as [Hc [Hok _]]. fold (registered ops) in Hok.
    rewrite registered_snoc. specialize (IH e mk Hc). split.
    + intros Hin.
      assert (Hcase : (In (e, mk) (registered ops) /\ ~ touches e o) \/ o = ORegister e mk).
      { destruct o; cbn [reg_step] in Hin.
        - apply in_app_or in Hin. destruct Hin as [Hin|[E|[]]].
          + left. split; [exact Hin|]. intros [E|[m' E]]; [discriminate|].
            injection E as -> ->. cbn [op_ok] in Hok. apply Hok.
            apply in_map_iff. exists (e, mk). split; [reflexivity|exact Hin].
          + right. injection E as -> ->. reflexivity.
        - apply filter_In in Hin. destruct Hin as [Hin Ho]. left. split; [exact Hin|].
          intros [E|[m' E]]; [|discriminate]. injection E as ->.
          unfold other in Ho. cbn [fst] in Ho. rewrite Z.eqb_refl in Ho. discriminate.
        - left. split; [exact Hin|]. intros [E|[m' E]]; discriminate.
        - left. split; [exact Hin|]. intros [E|[m' E]]; discriminate.
        - left. split; [exact Hin|]. intros [E|[m' E]]; discriminate.
        - left. split; [exact Hin|]. intros [E|[m' E]]; discriminate. }
      destruct Hcase as [[Hin' Hnt]|E].
      * apply IH in Hin'. destruct Hin' as [o1 [o2 [E Hq]]]. exists o1, (o2 ++ [o]). split.
        -- rewrite E, <- app_assoc. reflexivity.
        -- intros x Hx. apply in_app_or in Hx. destruct Hx as [Hx|[Hx|[]]]; [apply Hq; exact Hx|].
           subst x. exact Hnt.
      * subst o. exists ops, []. split; [reflexivity|intros x []].
    + intros [o1 [o2 [E Hq]]].
      destruct (list_rev_case_op o2) as [E2|[o2' [x E2]]]; subst o2.
      * apply app_inj_tail in E. destruct E as [_ E]. subst o. cbn [reg_step].
        apply in_or_app. right. left. reflexivity.
      * change (o1 ++ ORegister e mk :: o2' ++ [x]) with (o1 ++ (ORegister e mk :: o2') ++ [x]) in E.
        rewrite app_assoc in E. apply app_inj_tail in E. destruct E as [E Ex]. subst x.
        assert (Hin : In (e, mk) (registered ops)).
        { apply IH. exists o1, o2'. split; [exact E|]. intros y Hy. apply Hq.
          apply in_or_app. left. exact Hy. }
        assert (Hnt : ~ touches e o). { apply Hq. apply in_or_app. right. left. reflexivity. }
        destruct o; cbn [reg_step]; try exact Hin.
        -- apply in_or_app. left. exact Hin.
        -- apply filter_In. split; [exact Hin|]. unfold other. cbn [fst].
           apply negb_true_iff. apply Z.eqb_neq. intros ->. apply Hnt. left. reflexivity.
Qed.

(* ---------------------------------------------------------------- the model's loops *)

Lemma callback_wl : forall k w e, wl (callback k w e) = wl w.
Proof.
  intros k w e. unfold callback, chanSend. destruct (k e); [reflexivity|].
  destruct (wch w e <? chcap); reflexivity.
Qed.

Lemma callback_wmask : forall k w e, wmask (callback k w e) = wmask w.
Proof.
  intros k w e. unfold callback, chanSend. destruct (k e); [reflexivity|].
  destruct (wch w e <? chcap); reflexivity.
Qed.

Definition minterested (m : Z) (w : world) (e : Z) : bool := negb (Z.land m (wmask w e) =? 0).

(* Notify terminates on a represented list (acyclicity) and calls back exactly the entries of
   the list whose stored mask intersects m, in list order *)
Lemma notifyLoop_spec : forall k m l fuel w it p lp,
  dseg (nxt (wl w)) (prv (wl w)) it p l None lp -> (length l <= fuel)%nat ->
  notifyLoop fuel k w it m =
    Some (fold_left (callback k) (filter (minterested m w) l) w, filter (minterested m w) l).
Proof.
  intros k m l. induction l as [|x l IH]; intros fuel w it p lp Hseg Hfuel.
  - cbn [dseg] in Hseg. destruct Hseg as [Hit _]. subst it. destruct fuel; reflexivity.
  - cbn [dseg] in Hseg. destruct Hseg as [Hit [_ Hrest]]. subst it.
    destruct fuel as [|fuel]; [cbn [length] in Hfuel; lia|].
    cbn [notifyLoop filter].
    change (negb (Z.land m (wmask w x) =? 0)) with (minterested m w x).
    destruct (minterested m w x) eqn:Ei.
    + assert (Hrest' : dseg (nxt (wl (callback k w x))) (prv (wl (callback k w x)))
                         (nxt (wl (callback k w x)) x) (Some x) l None lp).
      { rewrite callback_wl. exact Hrest. }
      rewrite (IH fuel _ _ _ _ Hrest'); [|cbn [length] in Hfuel; lia].
      assert (Hf : filter (minterested m (callback k w x)) l = filter (minterested m w) l).
      { apply filter_ext. intros e. unfold minterested. rewrite callback_wmask. reflexivity. }
      rewrite Hf. reflexivity.
    + apply (IH fuel _ _ _ _ Hrest). cbn [length] in Hfuel. lia.
Qed.

Lemma eventsLoop_spec : forall l fuel w it p lp r,
  dseg (nxt (wl w)) (prv (wl w)) it p l None lp -> (length l <= fuel)%nat ->
  eventsLoop fuel w it r = Some (fold_left (fun acc e => Z.lor acc (wmask w e)) l r).
Proof.
  intros l. induction l as [|x l IH]; intros fuel w it p lp r Hseg Hfuel.
  - cbn [dseg] in Hseg. destruct Hseg as [Hit _]. subst it. destruct fuel; reflexivity.
  - cbn [dseg] in Hseg. destruct Hseg as [Hit [_ Hrest]]. subst it.
    destruct fuel as [|fuel]; [cbn [length] in Hfuel; lia|].
    cbn [eventsLoop fold_left]. apply (IH fuel _ _ _ _ _ Hrest). cbn [length] in Hfuel. lia.
Qed.

Lemma fold_masks_union : forall (f : Z -> Z) r x,
  (forall e m, In (e, m) r -> f e = m) ->
  fold_left (fun acc e => Z.lor acc (f e)) (map fst r) x = Z.lor x (union_masks r).
Proof.
  intros f r. induction r as [|[e m] r IH]; intros x Hag.
  - cbn. rewrite Z.lor_0_r. reflexivity.
  - cbn [map fst fold_left union_masks fold_right snd].
    rewrite IH; [|intros e' m' H; apply Hag; right; exact H].
    rewrite (Hag e m (or_introl eq_refl)). fold (union_masks r). rewrite Z.lor_assoc. reflexivity.
Qed.

Lemma filter_minterested : forall m w r,
  (forall e mk, In (e, mk) r -> wmask w e = mk) ->
  filter (minterested m w) (map fst r) = to_notify m r.
Proof.
  intros m w r. unfold to_notify. induction r as [|[e mk] r IH]; intros Hag; [reflexivity|].
  cbn [map fst filter]. unfold minterested at 1, interested at 1. cbn [snd].
  rewrite (Hag e mk (or_introl eq_refl)).
  rewrite IH; [|intros e' m' H; apply Hag; right; exact H].
  destruct (negb (Z.land m mk =? 0)); reflexivity.
Qed.

(* the callbacks of one Notify, model side and specification side in lock step *)
Lemma fold_callback_rel : forall k inv w a,
  (forall e, wch w e = if mem e (atok a) then 1 else 0) -> wlog w = alog a ->
  let w' := fold_left (callback k) inv w in
  let a' := fold_left (scb k) inv a in
  (forall e, wch w' e = if mem e (atok a') then 1 else 0) /\ wlog w' = alog a' /\
  wl w' = wl w /\ wmask w' = wmask w.
Proof.
  intros k inv. induction inv as [|x inv IH]; intros w a Htok Hlog.
  - cbn. repeat split; assumption.
  - cbn [fold_left].
    assert (Hstep : (forall e, wch (callback k w x) e = if mem e (atok (scb k a x)) then 1 else 0) /\
                    wlog (callback k w x) = alog (scb k a x)).
    { unfold callback, scb. destruct (k x).
      - cbn. split; [exact Htok|]. rewrite Hlog. reflexivity.
      - unfold chanSend, chcap. cbn [atok alog]. pose proof (Htok x) as Hx.
        destruct (mem x (atok a)) eqn:Em.
        + rewrite Hx. change (1 <? 1) with false. cbn iota.
          split; [|exact Hlog]. intros e. rewrite mem_cons, Htok.
          destruct (e =? x) eqn:E; [|reflexivity]. apply Z.eqb_eq in E. subst. rewrite Em. reflexivity.
        + rewrite Hx. change (0 <? 1) with true. cbn iota. cbn [wch wlog].
          split; [|exact Hlog]. intros e. rewrite mem_cons. unfold updZ.
          destruct (e =? x); [reflexivity|]. apply Htok. }
    destruct Hstep as [Htok' Hlog'].
    destruct (IH _ _ Htok' Hlog') as [H1 [H2 [H3 H4]]].
    split; [exact H1|]. split; [exact H2|].
    rewrite H3, H4, callback_wl, callback_wmask. split; reflexivity.
Qed.

(* ---------------------------------------------------------------- one step refines *)

Lemma step_refines : forall fuel k w a o,
  R w a -> op_ok (areg a) o -> (length (areg a) <= fuel)%nat ->
  exists w', step fuel k w o = Some (w', snd (sstep k a o)) /\ R w' (fst (sstep k a o)).
Proof.
  intros fuel k w a o [Hrepr [Hmask [Htok Hlog]]] Hok Hfuel.
  assert (Hlen : (length (map fst (areg a)) <= fuel)%nat) by (rewrite map_length; exact Hfuel).
  destruct o as [e m|e|m| | |e]; cbn [step sstep fst snd op_ok] in *.
  - (* EventRegister *)
    eexists. split; [reflexivity|]. unfold R, eventRegister. cbn [wl wmask wch wlog areg atok alog reg_step].
    split; [|split; [|split; [exact Htok|exact Hlog]]].
    + rewrite map_app. cbn [map fst]. apply pushBack_repr; assumption.
    + intros e' m' Hin. apply in_app_or in Hin. destruct Hin as [Hin|[E|[]]].
      * rewrite updZ_other; [apply Hmask; exact Hin|]. intros ->. apply Hok.
        apply in_map_iff. exists (e, m'). split; [reflexivity|exact Hin].
      * injection E as -> ->. apply updZ_same.
  - (* EventUnregister *)
    eexists. split; [reflexivity|]. unfold R, eventUnregister. cbn [wl wmask wch wlog areg atok alog reg_step].
    split; [|split; [|split; [exact Htok|exact Hlog]]].
    + rewrite map_fst_other. apply remove_repr; assumption.
    + intros e' m' Hin. apply filter_In in Hin. apply Hmask. exact (proj1 Hin).
  - (* Notify *)
    unfold notify, front. destruct Hrepr as [Hnd Hseg].
    rewrite (notifyLoop_spec k m _ fuel w _ _ _ Hseg Hlen).
    rewrite (filter_minterested m w (areg a) Hmask).
    eexists. split; [reflexivity|].
    destruct (fold_callback_rel k (to_notify m (areg a)) w a Htok Hlog) as [H1 [H2 [H3 H4]]].
    split; [|split; [|split; [exact H1|exact H2]]].
    + rewrite H3, fold_scb_areg. split; assumption.
    + rewrite H4, fold_scb_areg. exact Hmask.
  - (* Events *)
    unfold events, front. destruct Hrepr as [Hnd Hseg].
    rewrite (eventsLoop_spec _ fuel w _ _ _ 0 Hseg Hlen).
    rewrite (fold_masks_union (wmask w) (areg a) 0 Hmask). rewrite Z.lor_0_l.
    eexists. split; [reflexivity|]. repeat split; assumption.
  - (* IsEmpty *)
    eexists. split; [|split; [exact Hrepr|split; [exact Hmask|split; [exact Htok|exact Hlog]]]].
    unfold isEmpty, front. destruct (repr_head_tail _ _ Hrepr) as [Hh _]. rewrite Hh.
    destruct (areg a); reflexivity.
  - (* the waiter takes the token *)
    unfold take. rewrite (Htok e). destruct (mem e (atok a)) eqn:Em; cbn -[mem filter updZ].
    + eexists. split; [reflexivity|]. split; [exact Hrepr|]. split; [exact Hmask|].
      split; [|exact Hlog]. cbn -[mem filter updZ]. intros e'. rewrite mem_filter_ne. unfold updZ.
      destruct (e' =? e) eqn:E; [reflexivity|apply Htok].
    + eexists. split; [reflexivity|]. split; [exact Hrepr|split; [exact Hmask|split; [exact Htok|exact Hlog]]].
Qed.

(* ---------------------------------------------------------------- histories *)

(* every history that respects the contract runs to completion (no walk exhausts its fuel)
   and produces exactly the specification's observations *)
Lemma run_refines : forall fuel k ops w a,
  R w a -> contract (areg a) ops -> (length (areg a) + length ops <= fuel)%nat ->
  exists w', run fuel k w ops = (sobs k a ops, Some w') /\ R w' (sfinal k a ops).
Proof.
  intros fuel k ops. induction ops as [|o ops IH]; intros w a HR Hc Hfuel.
  - exists w. split; [reflexivity|exact HR].
  - cbn [contract] in Hc. destruct Hc as [Hok Hc]. cbn [length] in Hfuel.
    destruct (step_refines fuel k w a o HR Hok ltac:(lia)) as [w1 [Hs HR1]].
    assert (Hc1 : contract (areg (fst (sstep k a o))) ops) by (rewrite sstep_areg; exact Hc).
    assert (Hf1 : (length (areg (fst (sstep k a o))) + length ops <= fuel)%nat).
    { rewrite sstep_areg. pose proof (reg_step_length (areg a) o). lia. }
    destruct (IH w1 _ HR1 Hc1 Hf1) as [w2 [Hr HR2]].
    exists w2. cbn [run sobs]. rewrite Hs, Hr. split; [reflexivity|exact HR2].
Qed.

Lemma R_contents : forall fuel w a,
  R w a -> (length (areg a) <= fuel)%nat -> contents fuel w = Some (areg a).
Proof.
  intros fuel w a [Hrepr [Hmask _]] Hfuel. unfold contents.
  rewrite (toList_repr _ _ fuel Hrepr); [|rewrite map_length; exact Hfuel].
  cbn [option_map]. f_equal. rewrite map_map.
  assert (H : forall r : list (Z * Z), (forall e m, In (e, m) r -> wmask w e = m) ->
              map (fun x => (fst x, wmask w (fst x))) r = r).
  { intros r. induction r as [|[e m] r IHr]; intros Hag; [reflexivity|].
    cbn [map fst]. rewrite (Hag e m (or_introl eq_refl)). f_equal.
    apply IHr. intros e' m' Hin. apply Hag. right. exact Hin. }
  apply H. exact Hmask.
Qed.

Lemma registered_length : forall ops r, (length (fold_left reg_step ops r) <= length r + length ops)%nat.
Proof.
  intros ops. induction ops as [|o ops IH]; intros r; [cbn; lia|].
  cbn [fold_left length]. pose proof (IH (reg_step r o)). pose proof (reg_step_length r o). lia.
Qed.

(* C17 main theorem: refinement of the abstract queue, for all histories *)
Lemma refines_spec : forall k fuel ops,
  contract [] ops -> (length ops <= fuel)%nat ->
  exists w, run fuel k w0 ops = (sobs k a0 ops, Some w) /\
            dll_repr (wl w) (map fst (registered ops)) /\
            contents fuel w = Some (registered ops) /\
            (forall e, wch w e = 0 \/ wch w e = 1).
Proof.
  intros k fuel ops Hc Hfuel.
  destruct (run_refines fuel k ops w0 a0 R_init Hc ltac:(cbn; lia)) as [w [Hr HR]].
  exists w. split; [exact Hr|].
  pose proof (sfinal_registered k ops) as Ereg.
  split; [rewrite <- Ereg; exact (proj1 HR)|]. split.
  - rewrite <- Ereg. apply R_contents; [exact HR|]. rewrite Ereg.
    pose proof (registered_length ops []). cbn [length] in *. unfold registered. lia.
  - intros e. destruct HR as [_ [_ [Htok _]]]. rewrite Htok. destruct (mem e _); [right|left]; reflexivity.
Qed.

(* one more operation after a contract-respecting history *)
Lemma run_snoc : forall k fuel ops o,
  contract [] ops -> op_ok (registered ops) o -> (S (length ops) <= fuel)%nat ->
  exists w, run fuel k w0 (ops ++ [o]) =
            (sobs k a0 ops ++ [snd (sstep k (sfinal k a0 ops) o)], Some w) /\
            R w (sfinal k a0 (ops ++ [o])).
Proof.
  intros k fuel ops o Hc Hok Hfuel.
  assert (Hc' : contract [] (ops ++ [o])).
  { apply contract_app. split; [exact Hc|]. cbn [contract]. split; [exact Hok|exact I]. }
  destruct (run_refines fuel k (ops ++ [o]) w0 a0 R_init Hc') as [w [Hr HR]].
  { rewrite app_length. cbn. lia. }
  exists w. split; [|exact HR]. rewrite Hr, sobs_app. reflexivity.
Qed.

(* "Notify(m) invokes, exactly once, the callback of every entry registered at that moment
   with an intersecting mask, and of no other entry", in registration order *)
Lemma notify_exact : forall k fuel ops m,
  contract [] ops -> (S (length ops) <= fuel)%nat ->
  exists w inv,
    run fuel k w0 (ops ++ [ONotify m]) = (sobs k a0 ops ++ [Ob inv 0], Some w) /\
    inv = to_notify m (registered ops) /\
    NoDup inv /\
    (forall e, In e inv <-> exists mk, In (e, mk) (registered ops) /\ Z.land m mk <> 0).
Proof.
  intros k fuel ops m Hc Hfuel.
  destruct (run_snoc k fuel ops (ONotify m) Hc I Hfuel) as [w [Hr _]].
  exists w, (to_notify m (registered ops)).
  cbn [sstep snd] in Hr. rewrite sfinal_registered in Hr.
  split; [exact Hr|]. split; [reflexivity|]. split.
  - apply to_notify_NoDup. apply registered_NoDup. exact Hc.
  - intros e. apply to_notify_In.
Qed.

(* "an entry gets no callback after its unregistration has returned" *)
Lemma sobs_quiet : forall k e ops a,
  ~ In e (map fst (areg a)) -> (forall m, ~ In (ORegister e m) ops) ->
  Forall (fun ob => ~ In e (invoked ob)) (sobs k a ops).
Proof.
  intros k e ops. induction ops as [|o ops IH]; intros a Hnin Hnr; [constructor|].
  cbn [sobs]. constructor.
  - destruct o; cbn [sstep snd invoked]; try (intros []).
    + intros Hin. apply to_notify_In in Hin. destruct Hin as [mk [Hin _]].
      apply Hnin. apply in_map_iff. exists (e, mk). split; [reflexivity|exact Hin].
    + destruct (mem e0 (atok a)); cbn; intros [].
  - apply IH.
    + rewrite sstep_areg. destruct o; cbn [reg_step]; try exact Hnin.
      * rewrite map_app. cbn [map fst]. intros Hin. apply in_app_or in Hin.
        destruct Hin as [Hin|[E|[]]]; [contradiction|]. subst e0.
        apply (Hnr m). left. reflexivity.
      * rewrite map_fst_other. unfold without. intros Hin. apply filter_In in Hin.
        apply Hnin. exact (proj1 Hin).
    + intros m Hin. apply (Hnr m). right. exact Hin.
Qed.

Lemma no_callback_after_unregister : forall k fuel ops1 e ops2,
  contract [] (ops1 ++ OUnregister e :: ops2) -> (forall m, ~ In (ORegister e m) ops2) ->
  (length (ops1 ++ OUnregister e :: ops2) <= fuel)%nat ->
  exists w obs, run fuel k w0 (ops1 ++ OUnregister e :: ops2) = (obs, Some w) /\
    Forall (fun ob => ~ In e (invoked ob)) (skipn (length ops1) obs).
Proof.
  intros k fuel ops1 e ops2 Hc Hnr Hfuel.
  destruct (run_refines fuel k _ w0 a0 R_init Hc ltac:(cbn; lia)) as [w [Hr _]].
  exists w, (sobs k a0 (ops1 ++ OUnregister e :: ops2)). split; [exact Hr|].
  rewrite sobs_app.
  rewrite skipn_app, skipn_all2; [|rewrite sobs_length; apply le_n].
  rewrite sobs_length, Nat.sub_diag. cbn [app skipn sobs].
  constructor; [cbn; intros []|].
  apply sobs_quiet; [|exact Hnr].
  rewrite sstep_areg. cbn [reg_step]. rewrite map_fst_other. unfold without.
  intros Hin. apply filter_In in Hin. destruct Hin as [_ Hb].
  rewrite Z.eqb_refl in Hb. discriminate.
Qed.

Lemma filter_idem : forall (A : Type) (f : A -> bool) l, filter f (filter f l) = filter f l.
Proof.
  intros A f l. induction l as [|p r IHr]; [reflexivity|].
  cbn [filter]. destruct (f p) eqn:E; [cbn [filter]; rewrite E, IHr; reflexivity|exact IHr].
Qed.

(* "registering or unregistering one entry never loses or duplicates another": every other
   entry's membership, mask and relative position in the queue are untouched *)
Lemma other_entries_untouched : forall k fuel ops o e,
  contract [] (ops ++ [o]) -> (o = OUnregister e \/ exists m, o = ORegister e m) ->
  (S (length ops) <= fuel)%nat ->
  exists w w' c c',
    run fuel k w0 ops = (sobs k a0 ops, Some w) /\ step fuel k w o = Some (w', Ob [] 0) /\
    contents fuel w = Some c /\ contents fuel w' = Some c' /\
    filter (other e) c' = filter (other e) c.
Proof.
  intros k fuel ops o e Hc Ho Hfuel.
  apply contract_app in Hc. destruct Hc as [Hc [Hok _]]. fold (registered ops) in Hok.
  destruct (run_refines fuel k ops w0 a0 R_init Hc ltac:(cbn; lia)) as [w [Hr HR]].
  pose proof (sfinal_registered k ops) as Ereg.
  pose proof (registered_length ops []) as Hlen. fold (registered ops) in Hlen. cbn [length] in Hlen.
  assert (Hok' : op_ok (areg (sfinal k a0 ops)) o) by (rewrite Ereg; exact Hok).
  destruct (step_refines fuel k w _ o HR Hok' ltac:(rewrite Ereg; lia)) as [w' [Hs HR']].
  exists w, w', (registered ops), (reg_step (registered ops) o).
  split; [exact Hr|]. split.
  { rewrite Hs. destruct Ho as [->|[m ->]]; reflexivity. }
  split; [rewrite <- Ereg; apply R_contents; [exact HR|rewrite Ereg; lia]|]. split.
  { rewrite <- Ereg, <- (sstep_areg k). apply R_contents; [exact HR'|].
    rewrite sstep_areg, Ereg. pose proof (reg_step_length (registered ops) o). lia. }
  destruct Ho as [->|[m ->]]; cbn [reg_step].
  - apply filter_idem.
  - rewrite filter_app. cbn [filter]. unfold other at 2. cbn [fst]. rewrite Z.eqb_refl. cbn [negb].
    apply app_nil_r.
Qed.

(* "for channel-backed entries a notification is never lost: after a notify the channel holds
   a token until the waiter takes it" *)
Lemma fold_scb_mono : forall k e inv a,
  mem e (atok a) = true -> mem e (atok (fold_left (scb k) inv a)) = true.
Proof.
  intros k e inv. induction inv as [|x inv IH]; intros a H; [exact H|].
  cbn [fold_left]. apply IH. unfold scb. destruct (k x); cbn [atok]; [exact H|].
  rewrite mem_cons, H. apply orb_true_r.
Qed.

Lemma fold_scb_adds : forall k e inv a,
  In e inv -> k e = KChan -> mem e (atok (fold_left (scb k) inv a)) = true.
Proof.
  intros k e inv. induction inv as [|x inv IH]; intros a Hin Hk; [contradiction|].
  cbn [fold_left]. destruct Hin as [->|Hin]; [|apply IH; assumption].
  apply fold_scb_mono. unfold scb. rewrite Hk. cbn [atok]. rewrite mem_cons, Z.eqb_refl. reflexivity.
Qed.

Lemma token_stays : forall k e ops a,
  mem e (atok a) = true -> ~ In (OTake e) ops -> mem e (atok (sfinal k a ops)) = true.
Proof.
  intros k e ops. induction ops as [|o ops IH]; intros a H Hnt; [exact H|].
  unfold sfinal in *. cbn [fold_left]. apply IH; [|intros Hin; apply Hnt; right; exact Hin].
  destruct o; cbn [sstep fst atok]; try exact H.
  - apply fold_scb_mono. exact H.
  - destruct (mem e0 (atok a)) eqn:Em; [|exact H]. cbn [fst atok]. rewrite mem_filter_ne.
    destruct (e =? e0) eqn:E; [|exact H]. apply Z.eqb_eq in E. subst e0.
    exfalso. apply Hnt. left. reflexivity.
Qed.

Lemma channel_token_kept : forall k fuel ops m e mk ops2,
  contract [] (ops ++ ONotify m :: ops2) -> k e = KChan ->
  In (e, mk) (registered ops) -> Z.land m mk <> 0 -> ~ In (OTake e) ops2 ->
  (length (ops ++ ONotify m :: ops2) <= fuel)%nat ->
  exists w obs w',
    run fuel k w0 (ops ++ ONotify m :: ops2) = (obs, Some w) /\ length obs = length (ops ++ ONotify m :: ops2) /\
    wch w e = 1 /\
    step fuel k w (OTake e) = Some (w', Ob [] 1) /\ wch w' e = 0.
Proof.
  intros k fuel ops m e mk ops2 Hc Hk Hin Hne Hnt Hfuel.
  destruct (run_refines fuel k _ w0 a0 R_init Hc ltac:(cbn; lia)) as [w [Hr HR]].
  assert (Hmem : mem e (atok (sfinal k a0 (ops ++ ONotify m :: ops2))) = true).
  { rewrite sfinal_app. change (ONotify m :: ops2) with ([ONotify m] ++ ops2).
    rewrite sfinal_app. apply token_stays; [|exact Hnt].
    unfold sfinal at 1. cbn [fold_left sstep fst]. apply fold_scb_adds; [|exact Hk].
    rewrite sfinal_registered. apply to_notify_In. exists mk. split; assumption. }
  destruct HR as [_ [_ [Htok _]]].
  assert (Hw : wch w e = 1) by (rewrite Htok, Hmem; reflexivity).
  exists w, (sobs k a0 (ops ++ ONotify m :: ops2)). eexists.
  split; [exact Hr|]. split; [apply sobs_length|]. split; [exact Hw|].
  cbn [step]. unfold take. rewrite Hw. cbn. split; [reflexivity|]. apply updZ_same.
Qed.

(* "Events returns the union of the masks of all registered entries" *)
Lemma events_is_union : forall k fuel ops,
  contract [] ops -> (S (length ops) <= fuel)%nat ->
  exists w, run fuel k w0 (ops ++ [OEvents]) =
            (sobs k a0 ops ++ [Ob [] (union_masks (registered ops))], Some w).
Proof.
  intros k fuel ops Hc Hfuel.
  destruct (run_snoc k fuel ops OEvents Hc I Hfuel) as [w [Hr _]].
  exists w. cbn [sstep snd] in Hr. rewrite sfinal_registered in Hr. exact Hr.
Qed.

Lemma union_masks_testbit : forall r i,
  Z.testbit (union_masks r) i = existsb (fun p => Z.testbit (snd p) i) r.
Proof.
  intros r i. induction r as [|p r IH]; [apply Z.testbit_0_l|].
  cbn [union_masks fold_right existsb]. fold (union_masks r). rewrite Z.lor_spec, IH. reflexivity.
Qed.

Lemma isEmpty_spec : forall k fuel ops,
  contract [] ops -> (S (length ops) <= fuel)%nat ->
  exists w, run fuel k w0 (ops ++ [OIsEmpty]) =
            (sobs k a0 ops ++ [Ob [] (match registered ops with [] => 1 | _ => 0 end)], Some w).
Proof.
  intros k fuel ops Hc Hfuel.
  destruct (run_snoc k fuel ops OIsEmpty Hc I Hfuel) as [w [Hr _]].
  exists w. cbn [sstep snd] in Hr. rewrite sfinal_registered in Hr. exact Hr.
Qed.

(* ---------------------------------------------------------------- why the contract is needed *)

Definition kf : Z -> kind := fun _ => KFunc.

(* registering entry 1 twice, with entry 2 registered in between: entry 2 is still registered
   with an intersecting mask and never unregistered, yet Notify no longer reaches it *)
Lemma double_register_loses_entry :
  let ops := [ORegister 1 1; ORegister 2 1; ORegister 1 1] in
  ~ contract [] ops /\
  In (2, 1) (registered ops) /\ Z.land 1 1 <> 0 /\ ~ In (OUnregister 2) ops /\
  fst (run 10 kf w0 (ops ++ [ONotify 1])) = [Ob [] 0; Ob [] 0; Ob [] 0; Ob [1] 0].
Proof.
  cbn zeta. split.
  { cbn. intros [_ [_ [H _]]]. apply H. left. reflexivity. }
  split; [cbn; right; left; reflexivity|]. split; [discriminate|]. split.
  { cbn. intros [H|[H|[H|[]]]]; discriminate. }
  vm_compute. reflexivity.
Qed.

(* registering the same entry twice in a row makes it its own successor: Notify never returns,
   whatever the fuel *)
Lemma self_loop_hangs : forall fuel k w,
  nxt (wl w) 1 = Some 1 -> wmask w 1 = 1 -> notifyLoop fuel k w (Some 1) 1 = None.
Proof.
  intros fuel k. induction fuel as [|fuel IH]; intros w Hn Hm; [reflexivity|].
  cbn [notifyLoop]. rewrite Hm. cbn.
  rewrite callback_wl, Hn. rewrite IH; [reflexivity| |].
  - rewrite callback_wl. exact Hn.
  - rewrite callback_wmask. exact Hm.
Qed.

Lemma double_register_hangs : forall fuel k,
  run fuel k w0 [ORegister 1 1; ORegister 1 1; ONotify 1] = ([Ob [] 0; Ob [] 0], None).
Proof.
  intros fuel k. cbn [run step]. unfold notify.
  rewrite self_loop_hangs; reflexivity.
Qed.

Lemma contract_needed_refuted :
  (exists k fuel ops e mk m,
     ~ contract [] ops /\ In (e, mk) (registered ops) /\ Z.land m mk <> 0 /\
     ~ In (OUnregister e) ops /\
     exists obs inv, fst (run fuel k w0 (ops ++ [ONotify m])) = obs ++ [Ob inv 0] /\ ~ In e inv) /\
  (exists ops, ~ contract [] ops /\ forall fuel k, snd (run fuel k w0 (ops ++ [ONotify 1])) = None).
Proof.
  split.
  - destruct double_register_loses_entry as [H1 [H2 [H3 [H4 H5]]]].
    exists kf, 10%nat, [ORegister 1 1; ORegister 2 1; ORegister 1 1], 2, 1, 1.
    split; [exact H1|]. split; [exact H2|]. split; [exact H3|]. split; [exact H4|].
    exists [Ob [] 0; Ob [] 0; Ob [] 0], [1]. split; [exact H5|].
    intros [H|[]]. discriminate.
  - exists [ORegister 1 1; ORegister 1 1]. split.
    + cbn. intros [_ [H _]]. apply H. left. reflexivity.
    + intros fuel k. cbn [app]. rewrite double_register_hangs. reflexivity.
Qed.

(* ---------------------------------------------------------------- non-vacuity *)

Definition kmix : Z -> kind := fun e => if e =? 2 then KChan else KFunc.

Definition example_ops : list op :=
  [ORegister 0 1; ORegister 1 2; ORegister 2 3; ONotify 1; OUnregister 0; ONotify 3;
   ORegister 0 4; ONotify 5; OEvents; OTake 2; OTake 2; OIsEmpty].

Example example_contract : contract [] example_ops.
Proof. apply contractb_spec. vm_compute. reflexivity. Qed.

Example example_run :
  fst (run 12 kmix w0 example_ops) =
    [Ob [] 0; Ob [] 0; Ob [] 0; Ob [0; 2] 0; Ob [] 0; Ob [1; 2] 0;
     Ob [] 0; Ob [2; 0] 0; Ob [] 7; Ob [] 1; Ob [] 0; Ob [] 0] /\
  registered example_ops = [(1, 2); (2, 3); (0, 4)] /\
  option_map wlog (snd (run 12 kmix w0 example_ops)) = Some [0; 1; 0].
Proof. vm_compute. repeat split. Qed.
