(* Lemmas about Model/Bytes.v: writes, and the bit-level reader [bits]. *)
From Coq Require Import ZArith List Bool Lia ZifyBool.
From NP Require Import Model.Bytes.
Import ListNotations.
Open Scope Z_scope.

Lemma skipn_skipn {A} (x y : nat) (l : list A) : skipn x (skipn y l) = skipn (x + y) l.
Proof.
  revert y. induction l as [|a l IH]; intros y; [rewrite !skipn_nil; reflexivity|].
  destruct y as [|y]; [rewrite Nat.add_0_r; reflexivity|].
  rewrite Nat.add_succ_r. cbn [skipn]. apply IH.
Qed.

Lemma Forall_firstn {A} (P : A -> Prop) l : forall n, Forall P l -> Forall P (firstn n l).
Proof.
  induction l as [|a l IH]; intros n H; destruct n as [|n]; cbn [firstn]; try constructor.
  - inversion H; assumption.
  - apply IH. inversion H; assumption.
Qed.

Lemma Forall_skipn {A} (P : A -> Prop) l : forall n, Forall P l -> Forall P (skipn n l).
Proof.
  induction l as [|a l IH]; intros n H; destruct n as [|n]; cbn [skipn]; try assumption.
  apply IH. inversion H; assumption.
Qed.

(* ---------- upd / put ---------- *)
Lemma upd_some b : forall i v, (i < length b)%nat ->
  upd b i v = Some (firstn i b ++ v :: skipn (S i) b).
Proof.
  induction b as [|x t IH]; intros i v Hi; cbn [length] in Hi; [lia|].
  destruct i as [|i]; cbn [upd firstn skipn app]; [reflexivity|].
  rewrite IH by lia. reflexivity.
Qed.

Lemma upd_none b : forall i v, (length b <= i)%nat -> upd b i v = None.
Proof.
  induction b as [|x t IH]; intros i v Hi; [destruct i; reflexivity|].
  cbn [length] in Hi. destruct i as [|i]; [lia|]. cbn [upd]. rewrite IH by lia. reflexivity.
Qed.

Lemma upd_length b i v b' : upd b i v = Some b' -> length b' = length b.
Proof.
  intros H. destruct (Nat.lt_ge_cases i (length b)) as [L|L].
  - rewrite upd_some in H by exact L.
    assert (E : b' = firstn i b ++ v :: skipn (S i) b) by congruence. subst b'. clear H.
    rewrite app_length, firstn_length.
    change (length (v :: skipn (S i) b)) with (S (length (skipn (S i) b))). rewrite skipn_length. lia.
  - rewrite upd_none in H by exact L. discriminate H.
Qed.

Lemma put16_some b : forall i v, (S i < length b)%nat ->
  put16 b i v = Some (firstn i b ++ [w8 (v / 2^8); w8 v] ++ skipn (i + 2) b).
Proof.
  induction b as [|x t IH]; intros i v Hi; cbn [length] in Hi; [lia|].
  destruct i as [|i].
  - destruct t as [|y t]; cbn [length] in Hi; [lia|]. reflexivity.
  - specialize (IH i v ltac:(lia)). unfold put16 in *. cbn [upd].
    destruct (upd t i (w8 (v / 2^8))) as [t1|]; cbn [obind] in *; [|discriminate IH].
    cbn [upd]. rewrite IH. reflexivity.
Qed.

Lemma put16_none b i v : (length b <= S i)%nat -> put16 b i v = None.
Proof.
  intros Hi. unfold put16. destruct (upd b i (w8 (v / 2^8))) as [b1|] eqn:E; [|reflexivity].
  cbn [obind]. apply upd_none. rewrite (upd_length _ _ _ _ E). exact Hi.
Qed.

Lemma w8_byte x : is_byte (w8 x).
Proof. unfold is_byte, w8. change (2^8) with 256. apply Z.mod_pos_bound. lia. Qed.

(* ---------- bit strings ---------- *)
Definition is_bit (x : Z) : Prop := x = 0 \/ x = 1.

Lemma bits8_length x : length (bits8 x) = 8%nat.
Proof. reflexivity. Qed.

Lemma bit_mod2 y : is_bit (y mod 2).
Proof. unfold is_bit. Z.div_mod_to_equations. lia. Qed.

Lemma bits8_bits x : Forall is_bit (bits8 x).
Proof. unfold bits8. repeat (apply Forall_cons; [apply bit_mod2|]). apply Forall_nil. Qed.

Lemma to_bits_length b : length (to_bits b) = (8 * length b)%nat.
Proof.
  induction b as [|x t IH]; [reflexivity|].
  unfold to_bits in *. cbn [flat_map]. rewrite app_length, IH, bits8_length. cbn [length]. lia.
Qed.

Lemma to_bits_bits b : Forall is_bit (to_bits b).
Proof.
  induction b as [|x t IH]; [constructor|].
  unfold to_bits in *. cbn [flat_map]. apply Forall_app. split; [apply bits8_bits|exact IH].
Qed.

Lemma to_bits_app a b : to_bits (a ++ b) = to_bits a ++ to_bits b.
Proof. unfold to_bits. apply flat_map_app. Qed.

Lemma skipn_to_bits b : forall i, skipn (8 * i) (to_bits b) = to_bits (skipn i b).
Proof.
  induction b as [|x t IH]; intros i.
  - rewrite !skipn_nil. reflexivity.
  - destruct i as [|i]; [reflexivity|].
    replace (8 * S i)%nat with (8 * i + 8)%nat by lia.
    rewrite <- skipn_skipn. change (skipn 8 (to_bits (x :: t))) with (to_bits t). cbn [skipn]. apply IH.
Qed.

Lemma firstn_to_bits b : forall n, firstn (8 * n) (to_bits b) = to_bits (firstn n b).
Proof.
  induction b as [|x t IH]; intros n.
  - rewrite !firstn_nil. reflexivity.
  - destruct n as [|n]; [reflexivity|].
    replace (8 * S n)%nat with (8 + 8 * n)%nat by lia. cbn [firstn].
    change (to_bits (x :: t)) with (bits8 x ++ to_bits t).
    change (to_bits (x :: firstn n t)) with (bits8 x ++ to_bits (firstn n t)).
    rewrite firstn_app, bits8_length.
    replace (8 + 8 * n - 8)%nat with (8 * n)%nat by lia. rewrite IH.
    f_equal. apply firstn_all2. rewrite bits8_length. lia.
Qed.

Lemma bits_val_snoc l x : bits_val (l ++ [x]) = 2 * bits_val l + x.
Proof. unfold bits_val. rewrite fold_left_app. reflexivity. Qed.

Lemma bits_val_app a b : bits_val (a ++ b) = bits_val a * 2 ^ Z.of_nat (length b) + bits_val b.
Proof.
  induction b as [|x b IH] using rev_ind.
  - rewrite app_nil_r. cbn [length Z.of_nat bits_val fold_left]. change (2^0) with 1. lia.
  - rewrite app_assoc, !bits_val_snoc, IH, app_length. cbn [length].
    replace (Z.of_nat (length b + 1)) with (Z.of_nat (length b) + 1) by lia.
    rewrite Z.pow_add_r by lia. change (2^1) with 2. ring.
Qed.

Lemma bits_val_bound l : Forall is_bit l -> 0 <= bits_val l < 2 ^ Z.of_nat (length l).
Proof.
  induction l as [|x l IH] using rev_ind; intros H.
  - cbn. lia.
  - apply Forall_app in H as [Hl Hx]. inversion Hx as [|? ? Hx0 _]; subst.
    rewrite bits_val_snoc, app_length. cbn [length].
    replace (Z.of_nat (length l + 1)) with (Z.of_nat (length l) + 1) by lia.
    rewrite Z.pow_add_r by lia. change (2^1) with 2. specialize (IH Hl). unfold is_bit in Hx0. lia.
Qed.

Lemma bits_val_bits8 x : is_byte x -> bits_val (bits8 x) = x.
Proof.
  unfold is_byte, bits8, bits_val. intros H. cbn [fold_left]. Z.div_mod_to_equations. lia.
Qed.

Lemma be_int_snoc l x : be_int (l ++ [x]) = be_int l * 256 + x.
Proof. unfold be_int. rewrite fold_left_app. reflexivity. Qed.

Lemma bits_val_to_bits l : bytes_ok l -> bits_val (to_bits l) = be_int l.
Proof.
  induction l as [|x l IH] using rev_ind; intros H; [reflexivity|].
  apply Forall_app in H as [Hl Hx]. inversion Hx as [|? ? Hx0 _]; subst.
  rewrite to_bits_app, bits_val_app, be_int_snoc, IH by exact Hl.
  change (to_bits [x]) with (bits8 x ++ []). rewrite app_nil_r, bits8_length, bits_val_bits8 by exact Hx0.
  reflexivity.
Qed.

(* a field of a bit string, arithmetically *)
Lemma bits_val_field t k len : Forall is_bit t -> (k + len <= length t)%nat ->
  bits_val (firstn len (skipn k t)) =
  (bits_val t / 2 ^ Z.of_nat (length t - k - len)) mod 2 ^ Z.of_nat len.
Proof.
  intros Ht Hl.
  rewrite <- (firstn_skipn k t) at 2. rewrite <- (firstn_skipn len (skipn k t)) at 2.
  rewrite !bits_val_app.
  set (t1 := firstn k t). set (t2 := firstn len (skipn k t)). set (t3 := skipn len (skipn k t)).
  assert (L2 : length t2 = len) by (subst t2; rewrite firstn_length, skipn_length; lia).
  assert (L3 : length t3 = (length t - k - len)%nat) by (subst t3; rewrite !skipn_length; lia).
  assert (B2 : Forall is_bit t2).
  { subst t2. apply Forall_firstn, Forall_skipn, Ht. }
  assert (B3 : Forall is_bit t3).
  { subst t3. apply Forall_skipn, Forall_skipn, Ht. }
  pose proof (bits_val_bound t2 B2) as V2. pose proof (bits_val_bound t3 B3) as V3.
  rewrite app_length, L2, L3 in *.
  set (r := Z.of_nat (length t - k - len)) in *. set (n := Z.of_nat len) in *.
  assert (P1 : 0 < 2 ^ r) by (apply Z.pow_pos_nonneg; lia).
  assert (P2 : 0 < 2 ^ n) by (apply Z.pow_pos_nonneg; lia).
  replace (Z.of_nat (len + (length t - k - len))) with (n + r) by lia.
  rewrite Z.pow_add_r by lia.
  replace (bits_val t1 * (2 ^ n * 2 ^ r) + (bits_val t2 * 2 ^ r + bits_val t3))
    with ((bits_val t1 * 2 ^ n + bits_val t2) * 2 ^ r + bits_val t3) by ring.
  rewrite Z.div_add_l by lia. rewrite (Z.div_small (bits_val t3)) by lia. rewrite Z.add_0_r.
  rewrite Z.add_comm, Z.mod_add by lia. symmetry. apply Z.mod_small. lia.
Qed.

Lemma firstn_skipn_firstn {A} (s : list A) k len m : (k + len <= m)%nat ->
  firstn len (skipn k (firstn m s)) = firstn len (skipn k s).
Proof.
  intros H. rewrite skipn_firstn_comm, firstn_firstn. f_equal. lia.
Qed.

(* THE layout lemma: the [len] bits at bit offset [8*i + k] are obtained by reading the [n]
   bytes that cover them as a big-endian integer, shifting right and masking. *)
Lemma bits_field b i n k len : bytes_ok b -> (i + n <= length b)%nat -> (k + len <= 8 * n)%nat ->
  bits b (8 * i + k) len =
  (be_int (bytes_at b i n) / 2 ^ Z.of_nat (8 * n - k - len)) mod 2 ^ Z.of_nat len.
Proof.
  intros Hb Hi Hk. unfold bits, bytes_at.
  rewrite Nat.add_comm, <- skipn_skipn, skipn_to_bits.
  rewrite <- (firstn_skipn_firstn _ k len (8 * n)) by exact Hk.
  rewrite firstn_to_bits.
  assert (Hok : bytes_ok (firstn n (skipn i b))).
  { apply Forall_firstn, Forall_skipn, Hb. }
  assert (Hlen : length (to_bits (firstn n (skipn i b))) = (8 * n)%nat).
  { rewrite to_bits_length, firstn_length, skipn_length. lia. }
  rewrite bits_val_field by (try apply to_bits_bits; lia).
  rewrite Hlen, bits_val_to_bits by exact Hok. reflexivity.
Qed.

(* decide a property of all bytes by enumeration *)
Lemma forall_bytes (P : Z -> bool) :
  forallb P (map Z.of_nat (seq 0 256)) = true -> forall x, is_byte x -> P x = true.
Proof.
  intros H x Hx. rewrite forallb_forall in H. apply H.
  apply in_map_iff. exists (Z.to_nat x). split; [apply Z2Nat.id; unfold is_byte in Hx; lia|].
  apply in_seq. unfold is_byte in Hx. lia.
Qed.

(* ---------- reads as big-endian integers of the bytes they cover ---------- *)
Lemma nth_error_skipn {A} (l : list A) : forall i j, nth_error (skipn i l) j = nth_error l (i + j).
Proof.
  induction l as [|a l IH]; intros i j.
  - rewrite skipn_nil. destruct j, i; reflexivity.
  - destruct i as [|i]; [reflexivity|]. cbn [skipn Nat.add nth_error]. apply IH.
Qed.

Lemma bytes_at_length b i n : (i + n <= length b)%nat -> length (bytes_at b i n) = n.
Proof. intros H. unfold bytes_at. rewrite firstn_length, skipn_length. lia. Qed.

Lemma bytes_at_ok b i n : bytes_ok b -> bytes_ok (bytes_at b i n).
Proof. intros H. apply Forall_firstn, Forall_skipn, H. Qed.

Lemma be_int_bound l : bytes_ok l -> 0 <= be_int l < 2 ^ (8 * Z.of_nat (length l)).
Proof.
  induction l as [|x l IH] using rev_ind; intros H; [cbn; lia|].
  apply Forall_app in H as [Hl Hx]. inversion Hx as [|? ? Hx0 _]; subst.
  rewrite be_int_snoc, app_length. cbn [length].
  replace (8 * Z.of_nat (length l + 1)) with (8 * Z.of_nat (length l) + 8) by lia.
  rewrite Z.pow_add_r by lia. change (2^8) with 256. specialize (IH Hl). unfold is_byte in Hx0. lia.
Qed.

Lemma get8_be b i : (i + 1 <= length b)%nat -> get8 b i = Some (be_int (bytes_at b i 1)).
Proof.
  intros H. unfold get8, bytes_at. rewrite <- (Nat.add_0_r i) at 1. rewrite <- nth_error_skipn.
  destruct (skipn i b) as [|x t] eqn:E; [apply (f_equal (@length Z)) in E; rewrite skipn_length in E; cbn in E; lia|].
  cbn [nth_error obind firstn be_int fold_left]. apply f_equal. ring.
Qed.

Lemma get16_be b i : (i + 2 <= length b)%nat -> get16 b i = Some (be_int (bytes_at b i 2)).
Proof.
  intros H. unfold get16, bytes_at.
  rewrite <- (Nat.add_0_r i) at 1. replace (S i) with (i + 1)%nat by lia. rewrite <- !nth_error_skipn.
  destruct (skipn i b) as [|x [|y t]] eqn:E;
    try (apply (f_equal (@length Z)) in E; rewrite skipn_length in E; cbn in E; lia).
  cbn [nth_error obind firstn be_int fold_left]. apply f_equal. ring.
Qed.

Lemma get32_be b i : (i + 4 <= length b)%nat -> get32 b i = Some (be_int (bytes_at b i 4)).
Proof.
  intros H. unfold get32, bytes_at.
  replace (S (S (S i))) with (i + 3)%nat by lia. replace (S (S i)) with (i + 2)%nat by lia.
  replace (S i) with (i + 1)%nat by lia. rewrite <- (Nat.add_0_r i) at 1.
  rewrite <- !nth_error_skipn.
  destruct (skipn i b) as [|x [|y [|z [|u t]]]] eqn:E;
    try (apply (f_equal (@length Z)) in E; rewrite skipn_length in E; cbn in E; lia).
  cbn [nth_error obind firstn be_int fold_left]. apply f_equal. ring.
Qed.

Lemma getN_at b i n : (i + n <= length b)%nat -> getN b i n = Some (bytes_at b i n).
Proof. intros H. unfold getN. destruct (Nat.leb_spec (i + n) (length b)); [reflexivity|lia]. Qed.

(* a byte-aligned run of bytes, read bit by bit *)

Lemma bits_byte b i : bytes_ok b -> (i < length b)%nat -> bits b (8 * i) 8 = nth i b 0.
Proof.
  intros Hb Hi. rewrite <- (Nat.add_0_r (8 * i)). rewrite (bits_field b i 1 0 8) by (assumption || lia).
  change (2 ^ Z.of_nat (8 * 1 - 0 - 8)) with 1. change (2 ^ Z.of_nat 8) with 256. rewrite Z.div_1_r.
  unfold bytes_at.
  assert (E : nth i b 0 = nth 0 (skipn i b) 0).
  { rewrite <- (firstn_skipn i b) at 1. rewrite app_nth2 by (rewrite firstn_length; lia).
    rewrite firstn_length. replace (i - Nat.min i (length b))%nat with 0%nat by lia. reflexivity. }
  rewrite E.
  destruct (skipn i b) as [|x t] eqn:ES; [apply (f_equal (@length Z)) in ES; rewrite skipn_length in ES; cbn in ES; lia|].
  cbn [firstn be_int fold_left nth].
  assert (Hx : is_byte x).
  { assert (Hs : bytes_ok (skipn i b)) by apply Forall_skipn, Hb. rewrite ES in Hs. inversion Hs; assumption. }
  unfold is_byte in Hx. rewrite Z.mod_small; lia.
Qed.

Lemma bytes_at_bits b : forall n i, bytes_ok b -> (i + n <= length b)%nat ->
  bytes_at b i n = map (fun j => bits b (8 * i + 8 * j) 8) (seq 0 n).
Proof.
  unfold bytes_at.
  induction n as [|n IH]; intros i Hb Hl; [reflexivity|].
  cbn [seq map]. rewrite <- seq_shift, map_map.
  destruct (skipn i b) as [|x t] eqn:ES; [apply (f_equal (@length Z)) in ES; rewrite skipn_length in ES; cbn in ES; lia|].
  cbn [firstn]. f_equal.
  - rewrite Nat.mul_0_r, Nat.add_0_r, bits_byte by (assumption || lia).
    rewrite <- (firstn_skipn i b) at 1. rewrite app_nth2 by (rewrite firstn_length; lia).
    rewrite firstn_length, ES. replace (i - Nat.min i (length b))%nat with 0%nat by lia. reflexivity.
  - assert (Et : t = skipn (S i) b).
    { replace (S i) with (1 + i)%nat by lia. rewrite <- skipn_skipn, ES. reflexivity. }
    rewrite Et, (IH (S i) Hb ltac:(lia)). apply map_ext. intros j. f_equal. lia.
Qed.

(* ---------- writes keep a byte string a byte string ---------- *)
Lemma upd_ok b i v b' : bytes_ok b -> is_byte v -> upd b i v = Some b' -> bytes_ok b'.
Proof.
  intros Hb Hv H. destruct (Nat.lt_ge_cases i (length b)) as [L|L].
  - rewrite upd_some in H by exact L. assert (E : b' = firstn i b ++ v :: skipn (S i) b) by congruence.
    subst b'. apply Forall_app. split; [apply Forall_firstn, Hb|].
    constructor; [exact Hv|apply Forall_skipn, Hb].
  - rewrite upd_none in H by exact L. discriminate H.
Qed.

Lemma put8_ok b i v b' : bytes_ok b -> put8 b i v = Some b' -> bytes_ok b'.
Proof. intros Hb H. exact (upd_ok b i _ b' Hb (w8_byte v) H). Qed.

Lemma put16_ok b i v b' : bytes_ok b -> put16 b i v = Some b' -> bytes_ok b'.
Proof.
  intros Hb H. unfold put16 in H.
  destruct (upd b i (w8 (v / 2 ^ 8))) as [b1|] eqn:E1; [|discriminate H]. cbn [obind] in H.
  apply (upd_ok b1 (S i) _ b' (upd_ok b i _ b1 Hb (w8_byte _) E1) (w8_byte _) H).
Qed.

Lemma put32_ok b i v b' : bytes_ok b -> put32 b i v = Some b' -> bytes_ok b'.
Proof.
  intros Hb H. unfold put32 in H.
  destruct (upd b i (w8 (v / 2 ^ 24))) as [b1|] eqn:E1; [|discriminate H]. cbn [obind] in H.
  destruct (upd b1 (S i) (w8 (v / 2 ^ 16))) as [b2|] eqn:E2; [|discriminate H]. cbn [obind] in H.
  destruct (upd b2 (S (S i)) (w8 (v / 2 ^ 8))) as [b3|] eqn:E3; [|discriminate H]. cbn [obind] in H.
  pose proof (upd_ok _ _ _ _ Hb (w8_byte _) E1) as H1.
  pose proof (upd_ok _ _ _ _ H1 (w8_byte _) E2) as H2.
  pose proof (upd_ok _ _ _ _ H2 (w8_byte _) E3) as H3.
  exact (upd_ok _ _ _ _ H3 (w8_byte _) H).
Qed.

Lemma copy_into_ok b off n src b' : bytes_ok b -> bytes_ok src -> copy_into b off n src = Some b' -> bytes_ok b'.
Proof.
  intros Hb Hs H. unfold copy_into, set_range in H.
  destruct (off + n <=? length b)%nat; [|discriminate H].
  destruct (off + length (firstn n src) <=? length b)%nat; [|discriminate H].
  assert (E : b' = firstn off b ++ firstn n src ++ skipn (off + length (firstn n src)) b) by congruence.
  subst b'. apply Forall_app. split; [apply Forall_firstn, Hb|].
  apply Forall_app. split; [apply Forall_firstn, Hs|apply Forall_skipn, Hb].
Qed.

Lemma bytes_okb_ok l : bytes_okb l = true -> bytes_ok l.
Proof.
  unfold bytes_okb, bytes_ok. rewrite forallb_forall, Forall_forall. intros H x Hx.
  specialize (H x Hx). unfold is_byteb in H. unfold is_byte. lia.
Qed.

(* big-endian re-assembly of what put16 / put32 wrote *)
Lemma be16_rt v : 0 <= v < 65536 -> w8 (v / 2^8) * 256 + w8 v = v.
Proof. intros H. unfold w8. change (2^8) with 256. Z.div_mod_to_equations. lia. Qed.

Lemma be32_rt v : 0 <= v < 4294967296 ->
  ((w8 (v / 2^24) * 256 + w8 (v / 2^16)) * 256 + w8 (v / 2^8)) * 256 + w8 v = v.
Proof.
  intros H. unfold w8. change (2^8) with 256. change (2^16) with 65536. change (2^24) with 16777216.
  Z.div_mod_to_equations. lia.
Qed.
