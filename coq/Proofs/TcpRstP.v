(* "A reset is never answered" for an established connection (Model/Tcp.v): whatever RST segment
   arrives - acceptable (the connection is aborted) or not (it is ignored) - no frame is emitted in
   that step, provided the endpoint owes no acknowledgement (rcvNxt = maxSentAck, which holds
   between events: C04's receiver invariant RInvAt).  Before the repair of finding F16 the acceptable
   case emitted RST|ACK (resetConnection); [rst_answered_old_refuted] keeps that as a witness. *)
From Coq Require Import ZArith List Bool Lia.
From RecordUpdate Require Import RecordSet.
From NP Require Import Model.Seqnum Model.Tcp.
Import RecordSetNotations.
Import ListNotations.
Open Scope Z_scope.

Lemma loopExit_out t : out (loopExit t) = out t.
Proof. unfold loopExit. destruct (_ && _); [|reflexivity]. destruct (estate t =? stError); reflexivity. Qed.

Lemma handleSegment_rst_quiet t sg r idle :
  has (s_flags sg) fRst = true -> rcvNxt (RC t) = maxSentAck (SN t) ->
  out (handleSegment t sg r idle) = out t.
Proof.
  intros HR HE. unfold handleSegment.
  destruct (negb (estate t =? stConnected)); [reflexivity|].
  rewrite HR. destruct (acceptable _ _ _).
  - reflexivity.
  - rewrite HE, Z.eqb_refl. cbn [negb]. rewrite loopExit_out. reflexivity.
Qed.

Lemma established_rst_not_answered t sg r :
  has (s_flags sg) fRst = true -> rcvNxt (RC t) = maxSentAck (SN t) ->
  out (fst (step t (ESeg sg r))) = [].
Proof.
  intros HR HE. cbn [step fst].
  rewrite (handleSegment_rst_quiet (t <| out := [] |>) sg r false HR); [reflexivity|exact HE].
Qed.

Lemma handleSegment_rst_aborts t sg r idle :
  estate t = stConnected -> has (s_flags sg) fRst = true -> acceptable (RC t) (s_seq sg) 0 = true ->
  estate (handleSegment t sg r idle) = stError.
Proof.
  intros HC HR HA. unfold handleSegment. rewrite HC. cbn [Z.eqb stConnected negb]. rewrite HR, HA. reflexivity.
Qed.

Lemma established_rst_aborts t sg r :
  estate t = stConnected -> has (s_flags sg) fRst = true -> acceptable (RC t) (s_seq sg) 0 = true ->
  estate (fst (step t (ESeg sg r))) = stError.
Proof.
  intros HC HR HA. cbn [step fst]. apply handleSegment_rst_aborts; assumption.
Qed.

(* the code before the repair: handleSegment with resetConnection in the acceptable-RST branch *)
Definition handleSegment_rst_old (t : tcp) (sg : seg) : tcp :=
  if negb (estate t =? stConnected) then t else
  if has (s_flags sg) fRst then
    if acceptable (RC t) (s_seq sg) 0 then resetConnection t else t
  else t.

Lemma rst_answered_old_refuted :
  exists t sg, estate t = stConnected /\ out t = [] /\ has (s_flags sg) fRst = true /\
    exists f, out (handleSegment_rst_old t sg) = [f] /\ has (f_flags f) fRst = true.
Proof.
  exists (mkTcp (mkRcvr 5001 70536 0 false [] 0 65535)
               (mkSndr 0 false 0 1000 0 10 maxInt 0 0 30000 1001 1001 1001 false [] [] 0 1000000000 100 0 5001 1001)
               [] 0 65535 false 65535 0 false 0 false []),
         (mkSeg 5001 0 4 0 [] false false).
  split; [reflexivity|]. split; [reflexivity|]. split; [reflexivity|]. eexists. split; reflexivity.
Qed.
