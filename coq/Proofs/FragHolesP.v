(* Proofs about updateHoles (Model/Frag.v): what the single pass over the hole list does, for
   ALL inputs (no consistency assumption on first/last/more). *)
From Coq Require Import ZArith Bool List Lia ZifyBool.
From NP Require Import Model.Frag.
Import ListNotations.
Open Scope Z_scope.

(* a hole entry is well formed: bounds of uint16; a live (not deleted) hole is non-empty *)
Definition hole_wf (h : hole) : Prop :=
  0 <= h_first h <= 65535 /\ 0 <= h_last h <= 65535 /\ (h_del h = false -> h_first h <= h_last h).

(* x lies in a live hole of hs *)
Definition live_at (hs : list hole) (x : Z) : Prop :=
  exists h, In h hs /\ h_del h = false /\ h_first h <= x <= h_last h.

(* the fragment [first,last] touches hole h: the negation of the loop's skip test *)
Definition overlaps (h : hole) (first last : Z) : Prop := first <= h_last h /\ h_first h <= last.

(* number of deleted entries: what r.deleted counts *)
Fixpoint ndel (hs : list hole) : Z :=
  match hs with [] => 0 | h :: t => (if h_del h then 1 else 0) + ndel t end.

Lemma ndel_cons : forall h t, ndel (h :: t) = (if h_del h then 1 else 0) + ndel t.
Proof. reflexivity. Qed.

Lemma ndel_app : forall a b, ndel (a ++ b) = ndel a + ndel b.
Proof. induction a as [|h t IH]; intros b; cbn [ndel app]; [lia|]. rewrite IH. lia. Qed.

Lemma ndel_bounds : forall hs, 0 <= ndel hs <= Z.of_nat (length hs).
Proof. induction hs as [|h t IH]; cbn [ndel length]; [lia|]. destruct (h_del h); lia. Qed.

(* r.deleted < len(r.holes)  <->  some hole is live *)
Lemma ndel_lt_iff_live : forall hs, ndel hs < Z.of_nat (length hs) <-> exists h, In h hs /\ h_del h = false.
Proof.
  induction hs as [|h t IH]; cbn [ndel length].
  - split; [lia|]. intros [h [[] _]].
  - pose proof (ndel_bounds t) as Hb. destruct (h_del h) eqn:E.
    + split.
      * intros H. destruct (proj1 IH ltac:(lia)) as [h' [Hin Hd]]. exists h'. split; [now right|auto].
      * intros [h' [[->|Hin] Hd]]; [congruence|].
        assert (ndel t < Z.of_nat (length t)) by (apply IH; eauto). lia.
    + split; [|lia]. intros _. exists h. split; [now left|auto].
Qed.

Lemma live_at_app : forall a b x, live_at (a ++ b) x <-> live_at a x \/ live_at b x.
Proof.
  intros a b x. unfold live_at. split.
  - intros [h [Hin R]]. apply in_app_or in Hin. destruct Hin; [left|right]; eauto.
  - intros [[h [Hin R]]|[h [Hin R]]]; exists h; (split; [apply in_or_app; auto|auto]).
Qed.

Lemma u16_id : forall x, 0 <= x <= 65535 -> u16 x = x.
Proof. intros. unfold u16. change (2 ^ 16) with 65536. apply Z.mod_small. lia. Qed.

(* ------------------------------------------------------------------ the loop *)
Lemma uh_loop_cons : forall h t first last more,
  uh_loop (h :: t) first last more =
  let '(t', app, dl, used) := uh_loop t first last more in
  if h_del h || (h_last h <? first) || (last <? h_first h) then (h :: t', app, dl, used)
  else
    let a1 := if h_first h <? first then [mkHole (h_first h) (u16 (first - 1)) false] else [] in
    let a2 := if (last <? h_last h) && more then [mkHole (u16 (last + 1)) (h_last h) false] else [] in
    (mkHole (h_first h) (h_last h) true :: t', a1 ++ a2 ++ app, 1 + dl, true).
Proof. reflexivity. Qed.

Section Loop.
  Variables (first last : Z) (more : bool).
  Hypothesis Hf : 0 <= first <= 65535.
  Hypothesis Hl : 0 <= last <= 65535.

  (* what the pass returns, component by component *)
  Lemma uh_loop_spec : forall hs orig app dl used,
    Forall hole_wf hs ->
    uh_loop hs first last more = (orig, app, dl, used) ->
    length orig = length hs /\
    Forall hole_wf orig /\ Forall hole_wf app /\
    ndel orig = ndel hs + dl /\ ndel app = 0 /\ 0 <= dl /\
    (used = true <-> exists h, In h hs /\ h_del h = false /\ overlaps h first last) /\
    (used = true <-> 1 <= dl) /\
    (forall x, live_at orig x <->
       exists h, In h hs /\ h_del h = false /\ h_first h <= x <= h_last h /\ ~ overlaps h first last) /\
    (forall x, live_at app x <->
       exists h, In h hs /\ h_del h = false /\ h_first h <= x <= h_last h /\ overlaps h first last /\
                 (x < first \/ (last < x /\ more = true))).
  Proof.
    induction hs as [|h t IH]; intros orig app dl used Hwf E.
    - cbn [uh_loop] in E. inversion E; subst. cbn [ndel length].
      repeat split; auto; try lia; try congruence.
      + intros [h [[] _]].
      + intros [h [[] _]].
      + intros [h [[] _]].
      + intros [h [[] _]].
      + intros [h [[] _]].
    - rewrite uh_loop_cons in E.
      destruct (uh_loop t first last more) as [[[t' app'] dl'] used'] eqn:Et.
      inversion Hwf as [|? ? Hh Ht]; subst.
      destruct (IH _ _ _ _ Ht eq_refl) as (L & W1 & W2 & N1 & N2 & D0 & U1 & U2 & LO & LA).
      destruct Hh as (B1 & B2 & B3).
      destruct (h_del h || (h_last h <? first) || (last <? h_first h)) eqn:Skip.
      + (* continue *)
        injection E as <- <- <- <-. rewrite !ndel_cons. cbn [length].
        assert (Hno : h_del h = false -> ~ overlaps h first last) by (unfold overlaps; lia).
        split; [lia|]. split; [constructor; [exact (conj B1 (conj B2 B3))|auto]|]. split; [auto|].
        split; [lia|]. split; [auto|]. split; [auto|]. split; [|split; [auto|split]].
        * rewrite U1. split.
          -- intros [h' [Hin R]]. exists h'. split; [now right|auto].
          -- intros [h' [[->|Hin] [Hd Ho]]]; [exfalso; apply (Hno Hd); auto|]. eauto.
        * intros x. unfold live_at. split.
          -- intros [h' [[<-|Hin] [Hd Hx]]].
             ++ exists h. split; [now left|]. auto.
             ++ destruct (proj1 (LO x)) as [h'' [Hin' R]]; [exists h'; auto|].
                exists h''. split; [now right|auto].
          -- intros [h' [[->|Hin] [Hd [Hx Ho]]]].
             ++ exists h'. split; [now left|auto].
             ++ destruct (proj2 (LO x)) as [h'' [Hin' R]]; [exists h'; auto|].
                exists h''. split; [now right|auto].
        * intros x. rewrite LA. split.
          -- intros [h' [Hin R]]. exists h'. split; [now right|auto].
          -- intros [h' [[->|Hin] [Hd [Hx [Ho R]]]]]; [exfalso; apply (Hno Hd); auto|]. exists h'. auto 6.
      + (* the hole is hit: mark it deleted, append the remainders *)
        assert (Hd : h_del h = false) by lia.
        assert (Hov : overlaps h first last) by (unfold overlaps; lia).
        pose proof (B3 Hd) as Hne.
        set (a1 := if h_first h <? first then [mkHole (h_first h) (u16 (first - 1)) false] else []) in *.
        set (a2 := if (last <? h_last h) && more then [mkHole (u16 (last + 1)) (h_last h) false] else []) in *.
        cbv zeta in E. remember (1 + dl') as dl1 eqn:Edl in E. injection E as <- <- <- <-. rewrite !ndel_cons. cbn [length h_del].
        assert (Wa1 : Forall hole_wf a1).
        { unfold a1. destruct (Z.ltb_spec (h_first h) first); [|constructor].
          constructor; [|constructor]. rewrite u16_id by lia. unfold hole_wf; cbn. lia. }
        assert (Wa2 : Forall hole_wf a2).
        { unfold a2. destruct (Z.ltb_spec last (h_last h)); cbn [andb]; [|constructor].
          destruct more; [|constructor].
          constructor; [|constructor]. rewrite u16_id by lia. unfold hole_wf; cbn. lia. }
        assert (Na1 : ndel a1 = 0) by (unfold a1; destruct (h_first h <? first); reflexivity).
        assert (Na2 : ndel a2 = 0) by (unfold a2; destruct ((last <? h_last h) && more); reflexivity).
        assert (La1 : forall x, live_at a1 x <-> h_first h <= x <= h_last h /\ x < first).
        { intros x. unfold a1, live_at. destruct (Z.ltb_spec (h_first h) first).
          - rewrite u16_id by lia. split.
            + intros [h' [[<-|[]] [_ Hx]]]. cbn in Hx. lia.
            + intros Hx. eexists. split; [now left|]. cbn. lia.
          - split; [intros [h' [[] _]]|lia]. }
        assert (La2 : forall x, live_at a2 x <-> h_first h <= x <= h_last h /\ last < x /\ more = true).
        { intros x. unfold a2, live_at. destruct (Z.ltb_spec last (h_last h)); cbn [andb].
          - destruct more.
            + rewrite u16_id by lia. split.
              * intros [h' [[<-|[]] [_ Hx]]]. cbn in Hx. lia.
              * intros Hx. eexists. split; [now left|]. cbn. lia.
            + split; [intros [h' [[] _]]|intros [_ [_ C]]; congruence].
          - split; [intros [h' [[] _]]|lia]. }
        split; [lia|].
        split; [constructor; [unfold hole_wf; cbn; repeat split; try lia; congruence|auto]|].
        split; [apply Forall_app; split; [auto|apply Forall_app; split; auto]|].
        split; [lia|]. split; [rewrite !ndel_app; lia|]. split; [lia|].
        split; [|split; [split; [lia|auto]|split]].
        * split; [|auto]. intros _. exists h. split; [now left|auto].
        * intros x. unfold live_at. split.
          -- intros [h' [[<-|Hin] [Hd' Hx]]]; [cbn in Hd'; congruence|].
             destruct (proj1 (LO x)) as [h'' [Hin' R]]; [exists h'; auto|].
             exists h''. split; [now right|auto].
          -- intros [h' [[->|Hin] [Hd' [Hx Ho]]]]; [contradiction|].
             destruct (proj2 (LO x)) as [h'' [Hin' R]]; [exists h'; auto|].
             exists h''. split; [now right|auto].
        * intros x. rewrite !live_at_app, La1, La2, LA. split.
          -- intros [Hx|[Hx|[h' [Hin R]]]].
             ++ exists h. split; [now left|]. repeat split; auto; lia.
             ++ exists h. split; [now left|]. repeat split; auto; lia.
             ++ exists h'. split; [now right|auto].
          -- intros [h' [[->|Hin] [Hd' [Hx [Ho [R|R]]]]]].
             ++ left. lia.
             ++ right. left. lia.
             ++ right. right. exists h'. unfold overlaps in *. repeat split; auto; lia.
             ++ right. right. exists h'. unfold overlaps in *. repeat split; auto; lia.
  Qed.
End Loop.

(* updateHoles on the reassembler: everything the rest of the development needs *)
Lemma updateHoles_spec : forall r first last more r1 used,
  0 <= first <= 65535 -> 0 <= last <= 65535 ->
  Forall hole_wf (r_holes r) -> r_deleted r = ndel (r_holes r) ->
  updateHoles r first last more = (r1, used) ->
  Forall hole_wf (r_holes r1) /\ r_deleted r1 = ndel (r_holes r1) /\
  r_id r1 = r_id r /\ r_size r1 = r_size r /\ r_heap r1 = r_heap r /\ r_done r1 = r_done r /\
  r_ctime r1 = r_ctime r /\
  (length (r_holes r) <= length (r_holes r1))%nat /\
  (used = true <-> exists h, In h (r_holes r) /\ h_del h = false /\ overlaps h first last) /\
  (used = true -> 1 <= r_deleted r1) /\
  (forall x, live_at (r_holes r1) x <->
     exists h, In h (r_holes r) /\ h_del h = false /\ h_first h <= x <= h_last h /\
               (overlaps h first last -> x < first \/ (last < x /\ more = true))).
Proof.
  intros r first last more r1 used Hf Hl Hwf Hd E.
  unfold updateHoles in E.
  destruct (uh_loop (r_holes r) first last more) as [[[orig app] dl] u] eqn:El.
  inversion E; subst; clear E. cbn.
  destruct (uh_loop_spec first last more Hf Hl _ _ _ _ _ Hwf El)
    as (L & W1 & W2 & N1 & N2 & D0 & U1 & U2 & LO & LA).
  split; [apply Forall_app; auto|]. split; [rewrite ndel_app; lia|].
  repeat (split; [reflexivity|]).
  split; [rewrite app_length; lia|]. split; [auto|].
  split; [intros Hu; apply U2 in Hu; pose proof (ndel_bounds (r_holes r)); lia|].
  intros x. rewrite live_at_app, LO, LA. split.
  - intros [[h [Hin [Hdl [Hx Hno]]]]|[h [Hin [Hdl [Hx [Ho R]]]]]]; exists h; repeat split; auto; try lia.
    intros; contradiction.
  - intros [h [Hin [Hdl [Hx R]]]].
    destruct (Z_le_dec first (h_last h)) as [A|A]; [destruct (Z_le_dec (h_first h) last) as [B|B]|].
    + right. exists h. repeat split; auto; try lia. apply R. split; auto.
    + left. exists h. repeat split; auto; try lia. unfold overlaps. lia.
    + left. exists h. repeat split; auto; try lia. unfold overlaps. lia.
Qed.

(* where the first bytes of the live holes come from: an old live hole's first, or last+1 of a
   fragment with more=true.  (Used for: no live hole starts beyond the datagram's end.) *)
Lemma uh_loop_first : forall (P : Z -> Prop) first last more,
  0 <= last <= 65535 ->
  (more = true -> P (last + 1)) ->
  forall hs orig app dl used,
  Forall hole_wf hs ->
  (forall h, In h hs -> h_del h = false -> P (h_first h)) ->
  uh_loop hs first last more = (orig, app, dl, used) ->
  forall h, In h (orig ++ app) -> h_del h = false -> P (h_first h).
Proof.
  intros P first last more Hl HP.
  induction hs as [|h t IH]; intros orig app dl used Hwf Hall E h' Hin Hd.
  - cbn [uh_loop] in E. injection E as <- <- <- <-. destruct Hin.
  - rewrite uh_loop_cons in E.
    destruct (uh_loop t first last more) as [[[t' app'] dl'] used'] eqn:Et.
    assert (IH' : forall h, In h (t' ++ app') -> h_del h = false -> P (h_first h)).
    { inversion Hwf; subst. apply (IH _ _ _ _ ltac:(assumption) (fun h Hi => Hall h (or_intror Hi)) eq_refl). }
    destruct (h_del h || (h_last h <? first) || (last <? h_first h)) eqn:Skip.
    + injection E as <- <- <- <-.
      destruct Hin as [<-|Hin]; [apply Hall; [now left|auto]|].
      apply IH'; auto.
    + cbv zeta in E. remember (1 + dl') as dl1 in E. injection E as <- <- <- <-.
      assert (Hdh : h_del h = false) by lia.
      apply in_app_or in Hin. destruct Hin as [[<-|Hin]|Hin]; [cbn in Hd; congruence| |].
      * apply IH'; auto. apply in_or_app. now left.
      * apply in_app_or in Hin. destruct Hin as [Hin|Hin].
        -- destruct (h_first h <? first); [|destruct Hin].
           destruct Hin as [<-|[]]. cbn. apply Hall; [now left|auto].
        -- apply in_app_or in Hin. destruct Hin as [Hin|Hin].
           ++ destruct (Z.ltb_spec last (h_last h)); cbn [andb] in Hin; [|destruct Hin].
              destruct more; [|destruct Hin].
              destruct Hin as [<-|[]]. cbn.
              inversion Hwf as [|? ? [_ [B _]] _]; subst.
              rewrite u16_id by lia. auto.
           ++ apply IH'; auto. apply in_or_app. now right.
Qed.

Lemma updateHoles_first : forall (P : Z -> Prop) r first last more r1 used,
  0 <= last <= 65535 ->
  (more = true -> P (last + 1)) ->
  Forall hole_wf (r_holes r) ->
  (forall h, In h (r_holes r) -> h_del h = false -> P (h_first h)) ->
  updateHoles r first last more = (r1, used) ->
  forall h, In h (r_holes r1) -> h_del h = false -> P (h_first h).
Proof.
  intros P r first last more r1 used Hl HP Hwf Hall E.
  unfold updateHoles in E.
  destruct (uh_loop (r_holes r) first last more) as [[[orig app] dl] u] eqn:El.
  injection E as <- <-. cbn [r_holes].
  eapply uh_loop_first; eauto.
Qed.

Lemma updateHoles_deleted : forall r first last more r1 used,
  0 <= first <= 65535 -> 0 <= last <= 65535 -> Forall hole_wf (r_holes r) ->
  updateHoles r first last more = (r1, used) ->
  (used = false -> r_deleted r1 = r_deleted r) /\ r_deleted r <= r_deleted r1.
Proof.
  intros r first last more r1 used Hf Hl Hwf E.
  unfold updateHoles in E.
  destruct (uh_loop (r_holes r) first last more) as [[[orig app] dl] u] eqn:El.
  injection E as <- <-. cbn [r_deleted].
  destruct (uh_loop_spec first last more Hf Hl _ _ _ _ _ Hwf El)
    as (L & W1 & W2 & N1 & N2 & D0 & U1 & U2 & LO & LA).
  split; [|lia]. intros Hu. destruct (Z_le_dec 1 dl) as [A|A]; [|lia].
  apply U2 in A. congruence.
Qed.
