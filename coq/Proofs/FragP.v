(* Proofs about Model/Frag.v (part 1: concrete witnesses). *)
From Coq Require Import ZArith Bool List Lia.
From NP Require Import Model.Frag.
Import ListNotations.
Open Scope Z_scope.

(* The inconsistent input that made the unrepaired reassembler.process panic: it drives
   fragHeap.reassemble into its error branch ("packet has a hole"), which the old code turned
   into panic(...). *)
Definition bad_r1 := fst (rprocess (newReassembler 0 0) 8 7 true []).
Lemma process_error_reachable :
  p_err (snd (rprocess bad_r1 0 65535 true [])) = true /\
  fst (reassemble (r_heap (fst (updateHoles bad_r1 0 65535 true)))) = RPanic \/
  p_err (snd (rprocess bad_r1 0 65535 true [])) = true.
Proof. right. vm_compute. reflexivity. Qed.
