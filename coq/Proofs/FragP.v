(* Proofs about Fragmentation.Process (Model/Frag.v) for ALL inputs: no panic, size accounting,
   eviction post-condition; plus the witness that the reassemble error branch is reachable. *)
From Coq Require Import ZArith Bool List Lia Permutation ZifyBool.
From NP Require Import Model.Frag Proofs.FragListP Proofs.FragHeapP Proofs.FragHolesP.
Import ListNotations.
Open Scope Z_scope.

(* ------------------------------------------------------------------ the old panic *)
(* The inconsistent input that made the unrepaired reassembler.process panic: (first=8, last=7,
   more) then (first=0, last=65535, more), both with empty payload.  After the second call every
   hole is deleted, reassemble pops offset 0 (size 0) and then offset 8 > 0: its error branch
   ("packet has a hole"), which the old code turned into panic(...).  The repaired code returns
   err, and Fragmentation.Process drops the reassembler and returns not-done. *)
Definition bad_r1 : reasm := fst (rprocess (newReassembler 0 0) 8 7 true []).
Definition bad_r2 : reasm := fst (updateHoles bad_r1 0 65535 true).
Lemma process_error_reachable :
  r_deleted bad_r2 = Z.of_nat (length (r_holes bad_r2)) /\
  fst (reassemble (heap_push (r_heap bad_r2) (mkFrag 0 []))) = RErr /\
  p_err (snd (rprocess bad_r1 0 65535 true [])) = true /\
  snd (fprocess (fst (fprocess (newFragmentation 100 50 10) 0 8 7 true [] 0)) 0 0 65535 true [] 0) = ([], false, false).
Proof. vm_compute. repeat split; reflexivity. Qed.

(* ------------------------------------------------------------------ reassemble never pops an empty heap *)
Lemma reasm_loop_no_panic : forall fuel h size acc,
  (length h <= fuel)%nat -> fst (reasm_loop fuel h size acc) <> RPanic.
Proof.
  induction fuel as [|f IH]; intros h size acc Hl.
  - destruct h; [cbn; discriminate|simpl in Hl; lia].
  - destruct h as [|a t] eqn:Eh; [cbn; discriminate|].
    rewrite <- Eh in *. assert (Hne : h <> []) by (rewrite Eh; discriminate).
    destruct (heap_pop_length h Hne) as (x & h' & Ep & Hlen).
    rewrite Eh. cbn [reasm_loop]. rewrite <- Eh. rewrite Ep.
    destruct (fr_off x <? size); [apply IH; lia|].
    destruct (size <? fr_off x); [cbn; discriminate|apply IH; lia].
Qed.

Lemma reassemble_no_panic : forall h, h <> [] -> fst (reassemble h) <> RPanic.
Proof.
  intros h Hne. unfold reassemble.
  destruct (heap_pop_length h Hne) as (x & h' & Ep & Hlen). rewrite Ep.
  destruct (negb (fr_off x =? 0)); [cbn; discriminate|].
  apply reasm_loop_no_panic. lia.
Qed.

(* ------------------------------------------------------------------ one reassembler, any input *)
Fixpoint heap_bytes (h : fheap) : Z :=
  match h with [] => 0 | it :: t => zlen (fr_pl it) + heap_bytes t end.

Lemma heap_bytes_nonneg : forall h, 0 <= heap_bytes h.
Proof. induction h as [|it t IH]; cbn [heap_bytes]; [lia|]. pose proof (zlen_nonneg (fr_pl it)). lia. Qed.

Lemma heap_bytes_perm : forall h h', Permutation h h' -> heap_bytes h = heap_bytes h'.
Proof. induction 1; cbn [heap_bytes]; lia. Qed.

(* what holds of every reassembler that sits in the map between two calls *)
Record RWf (r : reasm) : Prop := {
  w_done : r_done r = false;
  w_holes : Forall hole_wf (r_holes r);
  w_nonempty : (1 <= length (r_holes r))%nat;
  w_del : r_deleted r = ndel (r_holes r);
  w_heap : 1 <= r_deleted r -> r_heap r <> [];
  (* r.size = number of payload bytes held in the heap *)
  w_size : r_size r = heap_bytes (r_heap r)
}.

Lemma RWf_new : forall id now, RWf (newReassembler id now).
Proof.
  intros. constructor; cbn; auto; try lia.
  constructor; [|constructor]. unfold hole_wf; cbn. lia.
Qed.

Definition u16_range (x : Z) : Prop := 0 <= x <= 65535.

Lemma rprocess_wf : forall r first last more pl r' o,
  RWf r -> u16_range first -> u16_range last ->
  rprocess r first last more pl = (r', o) ->
  p_panic o = false /\
  (p_consumed o = 0 \/ p_consumed o = zlen pl) /\
  r_id r' = r_id r /\ r_ctime r' = r_ctime r /\ r_done r' = false /\
  r_size r' = r_size r + p_consumed o /\
  (p_done o = false -> p_res o = []) /\
  (p_done o = true -> p_err o = false) /\
  (p_done o = false -> p_err o = false ->
     RWf r' /\ forall it, In it (r_heap r') -> it = mkFrag first pl \/ In it (r_heap r)) /\
  (* a delivered datagram is the reassembly of the fragments stored so far plus this one *)
  (p_done o = true ->
     exists H, fst (reassemble H) = ROk (p_res o) /\
               forall it, In it H -> it = mkFrag first pl \/ In it (r_heap r)).
Proof.
  intros r first last more pl r' o W Hf Hl E.
  destruct W as [Wd Wh Wn Wdel Whp Wsz].
  unfold rprocess in E. rewrite Wd in E.
  destruct (updateHoles r first last more) as [r1 used] eqn:Eu.
  destruct (updateHoles_spec r first last more r1 used Hf Hl Wh Wdel Eu)
    as (W1 & D1 & Eid & Esz & Ehp & Edn & Ect & Llen & U1 & U2 & L1).
  destruct (updateHoles_deleted r first last more r1 used Hf Hl Wh Eu) as [Dun Dle].
  set (r2 := if used then
              mkReasm (r_id r1) (r_size r1 + zlen pl) (r_holes r1) (r_deleted r1)
                      (heap_push (r_heap r1) (mkFrag first pl)) (r_done r1) (r_ctime r1)
            else r1) in *.
  set (consumed := if used then zlen pl else 0).
  assert (E2 : (if used then
             (mkReasm (r_id r1) (r_size r1 + zlen pl) (r_holes r1) (r_deleted r1)
                      (heap_push (r_heap r1) (mkFrag first pl)) (r_done r1) (r_ctime r1), zlen pl)
           else (r1, 0)) = (r2, consumed)) by (unfold r2, consumed; destruct used; reflexivity).
  rewrite E2 in E. clear E2.
  assert (Hc : consumed = 0 \/ consumed = zlen pl) by (unfold consumed; destruct used; auto).
  assert (W2 : RWf r2 /\ r_id r2 = r_id r /\ r_ctime r2 = r_ctime r /\ r_size r2 = r_size r + consumed /\
               (forall it, In it (r_heap r2) -> it = mkFrag first pl \/ In it (r_heap r))).
  { unfold r2, consumed. destruct used.
    - split; [|cbn; repeat split; try congruence; try lia].
      + constructor; cbn; auto; try congruence; try lia.
        * intros _ Hnil. pose proof (heap_push_length (r_heap r1) (mkFrag first pl)) as L.
          rewrite Hnil in L. simpl in L. lia.
        * rewrite <- (heap_bytes_perm _ _ (heap_push_perm (r_heap r1) (mkFrag first pl))).
          cbn [heap_bytes fr_pl]. rewrite Ehp, Esz, Wsz. lia.
      + intros it Hin. apply heap_push_in in Hin. rewrite Ehp in Hin. auto.
    - split; [|repeat split; try congruence; try lia].
      + constructor; auto; try congruence; try lia.
        * rewrite Dun by auto. rewrite Ehp. auto.
      + intros it Hin. rewrite Ehp in Hin. auto. }
  destruct W2 as (W2 & Eid2 & Ect2 & Esz2 & Hin2).
  destruct (r_deleted r2 <? Z.of_nat (length (r_holes r2))) eqn:Et.
  - injection E as <- <-. cbn [p_panic p_consumed p_done p_res p_err].
    split; [reflexivity|]. split; [exact Hc|]. split; [exact Eid2|]. split; [exact Ect2|].
    split; [apply (w_done _ W2)|]. split; [exact Esz2|]. split; [reflexivity|]. split; [discriminate|].
    split; [intros _ _; split; [exact W2|exact Hin2]|]. discriminate.
  - assert (Hne : r_heap r2 <> []).
    { apply (w_heap _ W2). pose proof (w_nonempty _ W2). lia. }
    (* the empty-heap branch of the repaired code is dead for a reassembler taken from the map
       between two sequential calls *)
    destruct (length (r_heap r2) =? 0)%nat eqn:Eemp;
      [apply Nat.eqb_eq, length_zero_iff_nil in Eemp; contradiction|].
    pose proof (reassemble_no_panic _ Hne) as Hnp.
    pose proof (w_done _ W2) as Hd2.
    destruct (reassemble (r_heap r2)) as [[bytes| |] h'] eqn:Er; cbn [fst] in Hnp; [| |congruence];
      injection E as <- <-; cbn [p_panic p_consumed p_done p_res p_err set_heap r_id r_ctime r_done r_size].
    + split; [reflexivity|]. split; [exact Hc|]. split; [exact Eid2|]. split; [exact Ect2|].
      split; [exact Hd2|]. split; [exact Esz2|]. split; [discriminate|]. split; [reflexivity|].
      split; [discriminate|]. intros _. exists (r_heap r2). rewrite Er. split; [reflexivity|exact Hin2].
    + split; [reflexivity|]. split; [exact Hc|]. split; [exact Eid2|]. split; [exact Ect2|].
      split; [exact Hd2|]. split; [exact Esz2|]. split; [reflexivity|]. split; [discriminate|].
      split; [intros _ Hx; discriminate|]. discriminate.
Qed.

(* ------------------------------------------------------------------ the map / list of reassemblers *)
Definition sum_sizes (rs : list reasm) : Z := fold_right (fun r acc => r_size r + acc) 0 rs.
Definition ids (rs : list reasm) : list Z := map r_id rs.

Lemma sum_sizes_cons : forall y t, sum_sizes (y :: t) = r_size y + sum_sizes t.
Proof. reflexivity. Qed.

Lemma lookup_some : forall id rs r, lookup id rs = Some r -> In r rs /\ r_id r = id.
Proof.
  induction rs as [|x t IH]; intros r E; cbn [lookup] in E; [discriminate|].
  destruct (Z.eqb_spec (r_id x) id).
  - injection E as <-. split; [now left|auto].
  - destruct (IH _ E). split; [now right|auto].
Qed.

Lemma lookup_none : forall id rs, lookup id rs = None <-> ~ In id (ids rs).
Proof.
  induction rs as [|x t IH]; cbn [lookup ids map In]; [tauto|].
  destruct (Z.eqb_spec (r_id x) id).
  - split; [discriminate|]. intros H. exfalso. apply H. now left.
  - rewrite IH. unfold ids. tauto.
Qed.

Lemma lookup_in_nodup : forall rs r, NoDup (ids rs) -> In r rs -> lookup (r_id r) rs = Some r.
Proof.
  induction rs as [|x t IH]; intros r Hnd Hin; [destruct Hin|].
  cbn [ids map] in Hnd. inversion Hnd as [|? ? Hx Ht]; subst.
  cbn [lookup]. destruct Hin as [->|Hin].
  - now rewrite Z.eqb_refl.
  - destruct (Z.eqb_spec (r_id x) (r_id r)) as [e|]; [|auto].
    exfalso. apply Hx. rewrite e. apply in_map. auto.
Qed.

Lemma remove_id_in : forall id rs x, In x (remove_id id rs) -> In x rs.
Proof.
  induction rs as [|y t IH]; intros x Hin; cbn [remove_id] in Hin; [destruct Hin|].
  destruct (r_id y =? id); [now right|]. destruct Hin as [->|Hin]; [now left|right; auto].
Qed.

Lemma remove_id_ids_in : forall id rs j, In j (ids (remove_id id rs)) -> In j (ids rs).
Proof.
  intros id rs j Hin. unfold ids in *. apply in_map_iff in Hin. destruct Hin as [x [<- Hx]].
  apply in_map. eapply remove_id_in; eauto.
Qed.

Lemma remove_id_nodup : forall id rs, NoDup (ids rs) -> NoDup (ids (remove_id id rs)).
Proof.
  induction rs as [|y t IH]; intros Hnd; cbn [remove_id]; auto.
  cbn [ids map] in Hnd. inversion Hnd as [|? ? Hy Ht]; subst.
  destruct (r_id y =? id); auto.
  cbn [ids map]. constructor; [|apply IH; auto].
  intros Hin. apply Hy. eapply remove_id_ids_in; eauto.
Qed.

Lemma remove_id_lookup_other : forall id rs j, j <> id -> lookup j (remove_id id rs) = lookup j rs.
Proof.
  induction rs as [|y t IH]; intros j Hj; cbn [remove_id lookup]; auto.
  destruct (Z.eqb_spec (r_id y) id) as [e|ne].
  - destruct (Z.eqb_spec (r_id y) j); [lia|auto].
  - cbn [lookup]. destruct (r_id y =? j); auto.
Qed.

Lemma remove_id_lookup_same : forall id rs, NoDup (ids rs) -> lookup id (remove_id id rs) = None.
Proof.
  induction rs as [|y t IH]; intros Hnd; cbn [remove_id]; auto.
  cbn [ids map] in Hnd. inversion Hnd as [|? ? Hy Ht]; subst.
  destruct (Z.eqb_spec (r_id y) id) as [e|ne].
  - apply lookup_none. now rewrite <- e.
  - cbn [lookup]. destruct (Z.eqb_spec (r_id y) id); [lia|auto].
Qed.

Lemma remove_id_sum : forall id rs r, lookup id rs = Some r ->
  sum_sizes (remove_id id rs) = sum_sizes rs - r_size r.
Proof.
  induction rs as [|y t IH]; intros r E; cbn [lookup] in E; [discriminate|].
  cbn [remove_id]. destruct (r_id y =? id).
  - injection E as <-. rewrite sum_sizes_cons. lia.
  - rewrite !sum_sizes_cons. rewrite (IH _ E). lia.
Qed.

Lemma remove_id_length : forall id rs r, lookup id rs = Some r -> S (length (remove_id id rs)) = length rs.
Proof.
  induction rs as [|y t IH]; intros r E; cbn [lookup] in E; [discriminate|].
  cbn [remove_id]. destruct (r_id y =? id); [reflexivity|]. cbn [length]. now rewrite (IH _ E).
Qed.

Lemma store_ids : forall r rs, ids (store r rs) = ids rs.
Proof.
  induction rs as [|y t IH]; cbn [store]; auto.
  destruct (Z.eqb_spec (r_id y) (r_id r)) as [e|]; cbn [ids map]; [now rewrite e|].
  f_equal. apply IH.
Qed.

Lemma store_in : forall r rs x, In x (store r rs) -> x = r \/ In x rs.
Proof.
  induction rs as [|y t IH]; intros x Hin; cbn [store] in Hin; [destruct Hin|].
  destruct (r_id y =? r_id r).
  - destruct Hin as [<-|Hin]; [now left|right; now right].
  - destruct Hin as [<-|Hin]; [right; now left|]. destruct (IH _ Hin); [now left|right; now right].
Qed.

Lemma store_lookup_same : forall r rs old, lookup (r_id r) rs = Some old -> lookup (r_id r) (store r rs) = Some r.
Proof.
  induction rs as [|y t IH]; intros old E; cbn [lookup] in E; [discriminate|].
  cbn [store]. destruct (Z.eqb_spec (r_id y) (r_id r)) as [e|ne]; cbn [lookup].
  - now rewrite Z.eqb_refl.
  - destruct (Z.eqb_spec (r_id y) (r_id r)); [lia|]. eapply IH; eauto.
Qed.

Lemma store_lookup_other : forall r rs j, j <> r_id r -> lookup j (store r rs) = lookup j rs.
Proof.
  induction rs as [|y t IH]; intros j Hj; cbn [store lookup]; auto.
  destruct (Z.eqb_spec (r_id y) (r_id r)) as [e|ne]; cbn [lookup].
  - destruct (Z.eqb_spec (r_id r) j); [lia|]. destruct (Z.eqb_spec (r_id y) j); [lia|auto].
  - destruct (r_id y =? j); auto.
Qed.

Lemma store_sum : forall r rs old, lookup (r_id r) rs = Some old ->
  sum_sizes (store r rs) = sum_sizes rs - r_size old + r_size r.
Proof.
  induction rs as [|y t IH]; intros old E; cbn [lookup] in E; [discriminate|].
  cbn [store]. destruct (r_id y =? r_id r).
  - injection E as <-. rewrite !sum_sizes_cons. lia.
  - rewrite !sum_sizes_cons. rewrite (IH _ E). lia.
Qed.

Lemma store_length : forall r rs, length (store r rs) = length rs.
Proof. intros. rewrite <- (map_length r_id), <- (map_length r_id rs). apply (f_equal (@length Z) (store_ids r rs)). Qed.

Lemma sum_sizes_nonneg : forall rs, Forall RWf rs -> 0 <= sum_sizes rs.
Proof.
  induction rs as [|y t IH]; intros Hall; [cbn; lia|]. rewrite sum_sizes_cons.
  inversion Hall as [|? ? Hy Ht]; subst. pose proof (IH Ht).
  rewrite (w_size _ Hy). pose proof (heap_bytes_nonneg (r_heap y)). lia.
Qed.

Lemma sum_sizes_member : forall rs r, Forall RWf rs -> In r rs -> 0 <= r_size r <= sum_sizes rs.
Proof.
  induction rs as [|y t IH]; intros r Hall Hin; [destruct Hin|].
  inversion Hall as [|? ? Hy Ht]; subst. rewrite sum_sizes_cons.
  pose proof (sum_sizes_nonneg _ Ht) as H0.
  assert (0 <= r_size y) by (rewrite (w_size _ Hy); apply heap_bytes_nonneg).
  destruct Hin as [->|Hin]; [lia|]. pose proof (IH _ Ht Hin). lia.
Qed.

(* ------------------------------------------------------------------ the invariant of Fragmentation *)
Record FInv (f : fstate) : Prop := {
  fi_nodup : NoDup (ids (f_rs f));
  fi_wf : Forall RWf (f_rs f);
  (* f.size is the sum of the reassemblers' sizes, i.e. the number of payload bytes stored *)
  fi_size : f_size f = sum_sizes (f_rs f);
  fi_low : 0 <= f_low f
}.

Lemma FInv_new : forall high low timeout, FInv (newFragmentation high low timeout).
Proof.
  intros. unfold newFragmentation. constructor; cbn; auto; try constructor.
  destruct (high <=? low); destruct (_ <? 0) eqn:E; lia.
Qed.

Lemma release_spec : forall f r, FInv f -> lookup (r_id r) (f_rs f) = Some r ->
  FInv (release f r) /\
  f_rs (release f r) = remove_id (r_id r) (f_rs f) /\
  f_size (release f r) = f_size f - r_size r /\
  f_high (release f r) = f_high f /\ f_low (release f r) = f_low f /\ f_timeout (release f r) = f_timeout f.
Proof.
  intros f r [Hnd Hwf Hsz Hlow] E.
  destruct (lookup_some _ _ _ E) as [Hin _].
  assert (Wr : RWf r) by (rewrite Forall_forall in Hwf; auto).
  pose proof (sum_sizes_member _ _ Hwf Hin) as Hb.
  unfold release. rewrite (w_done _ Wr).
  assert (Hs : (if f_size f - r_size r <? 0 then 0 else f_size f - r_size r) = f_size f - r_size r).
  { destruct (Z.ltb_spec (f_size f - r_size r) 0); lia. }
  rewrite Hs. cbn. repeat split; auto.
  - apply remove_id_nodup; auto.
  - rewrite Forall_forall in *. intros x Hx. apply Hwf. eapply remove_id_in; eauto.
  - cbn [f_size f_rs]. rewrite (remove_id_sum _ _ _ E). lia.
Qed.

(* eviction walk *)
Lemma evict_loop_spec : forall back f,
  FInv f -> NoDup (ids back) -> (forall r, In r back -> lookup (r_id r) (f_rs f) = Some r) ->
  let f' := evict_loop f back in
  FInv f' /\
  f_high f' = f_high f /\ f_low f' = f_low f /\ f_timeout f' = f_timeout f /\
  (forall x, In x (f_rs f') -> In x (f_rs f)) /\
  (forall j, ~ In j (ids back) -> lookup j (f_rs f') = lookup j (f_rs f)) /\
  f_size f' <= f_size f /\
  (f_size f' <= f_low f' \/ forall r, In r back -> lookup (r_id r) (f_rs f') = None).
Proof.
  induction back as [|tail prev IH]; intros f I Hnd Hall; cbn [evict_loop].
  - split; [exact I|]. repeat split; auto; try lia. right. intros r [].
  - destruct (Z.ltb_spec (f_low f) (f_size f)) as [Hgt|Hle].
    + destruct (release_spec f tail I (Hall tail (or_introl eq_refl))) as (I1 & Ers & Esz & Eh & El & Et).
      cbn [ids map] in Hnd. inversion Hnd as [|? ? Htl Hpv]; subst.
      assert (Hall1 : forall r, In r prev -> lookup (r_id r) (f_rs (release f tail)) = Some r).
      { intros r Hr. rewrite Ers. rewrite remove_id_lookup_other; [apply Hall; now right|].
        intros e. apply Htl. rewrite <- e. apply in_map. auto. }
      destruct (IH (release f tail) I1 Hpv Hall1) as (I' & Eh' & El' & Et' & Hsub & Hfr & Hsz' & Hpost).
      split; [auto|]. split; [congruence|]. split; [congruence|]. split; [congruence|].
      assert (Wt : RWf tail).
      { destruct (lookup_some _ _ _ (Hall tail (or_introl eq_refl))) as [Hin _].
        pose proof (fi_wf _ I) as Hwf. rewrite Forall_forall in Hwf. auto. }
      split; [|split; [|split]].
      * intros x Hx. apply Hsub in Hx. rewrite Ers in Hx. eapply remove_id_in; eauto.
      * intros j Hj. cbn [ids map In] in Hj. rewrite Hfr by tauto. rewrite Ers.
        apply remove_id_lookup_other. intros e. apply Hj. now left.
      * pose proof (w_size _ Wt). pose proof (heap_bytes_nonneg (r_heap tail)). lia.
      * destruct Hpost as [Hp|Hp]; [now left|right].
        intros r [<-|Hr]; [|auto].
        (* the tail stays removed *)
        destruct (lookup (r_id tail) (f_rs (evict_loop (release f tail) prev))) as [x|] eqn:Ex; auto.
        exfalso. destruct (lookup_some _ _ _ Ex) as [Hin Hid].
        apply Hsub in Hin.
        assert (Hnone : lookup (r_id tail) (f_rs (release f tail)) = None).
        { rewrite Ers. apply remove_id_lookup_same. apply (fi_nodup _ I). }
        apply lookup_none in Hnone. apply Hnone. rewrite <- Hid. apply in_map. auto.
    + split; [exact I|]. repeat split; auto; try lia.
Qed.

(* ------------------------------------------------------------------ Process in three phases *)
Definition acquire (f : fstate) (id now : Z) : fstate * reasm :=
  match lookup id (f_rs f) with
  | Some r0 =>
      if tooOld r0 now (f_timeout f) then
        let f0 := release f r0 in
        let rn := newReassembler id now in (with_rs f0 (rn :: f_rs f0), rn)
      else (f, r0)
  | None => let rn := newReassembler id now in (with_rs f (rn :: f_rs f), rn)
  end.

Definition finish (f1 : fstate) (r' : reasm) (o : pres) : fstate * (list Z * bool * bool) :=
  let f2 := with_rs f1 (store r' (f_rs f1)) in
  if p_panic o then (f2, ([], false, true))
  else
    let f3 := add_size f2 (p_consumed o) in
    let f4 := if p_done o || p_err o then release f3 r' else f3 in
    let f5 := if f_high f4 <? f_size f4 then evict_loop f4 (rev (f_rs f4)) else f4 in
    (f5, (p_res o, p_done o, false)).

Lemma fprocess_unfold : forall f id first last more pl now,
  fprocess f id first last more pl now =
  let '(f1, r) := acquire f id now in
  let '(r', o) := rprocess r first last more pl in finish f1 r' o.
Proof. reflexivity. Qed.

Lemma FInv_push_new : forall f id now, FInv f -> lookup id (f_rs f) = None ->
  FInv (with_rs f (newReassembler id now :: f_rs f)).
Proof.
  intros f id now [Hnd Hwf Hsz Hlow] Hn. constructor; cbn [with_rs f_rs f_size f_low]; auto.
  - cbn [ids map]. constructor; auto. apply lookup_none in Hn. auto.
  - constructor; auto. apply RWf_new.
Qed.

Lemma acquire_spec : forall f id now f1 r, FInv f -> acquire f id now = (f1, r) ->
  FInv f1 /\ lookup id (f_rs f1) = Some r /\ r_id r = id /\
  f_high f1 = f_high f /\ f_low f1 = f_low f /\ f_timeout f1 = f_timeout f /\
  f_size f1 <= f_size f /\
  (forall j, j <> id -> lookup j (f_rs f1) = lookup j (f_rs f)) /\
  (forall x, In x (f_rs f1) -> x = r \/ In x (f_rs f)) /\
  ((r = newReassembler id now /\
    (lookup id (f_rs f) = None \/
     exists r0, lookup id (f_rs f) = Some r0 /\ tooOld r0 now (f_timeout f) = true)) \/
   (lookup id (f_rs f) = Some r /\ tooOld r now (f_timeout f) = false /\ f1 = f)).
Proof.
  intros f id now f1 r I E. unfold acquire in E.
  destruct (lookup id (f_rs f)) as [r0|] eqn:El.
  - destruct (lookup_some _ _ _ El) as [Hin0 Hid0].
    destruct (tooOld r0 now (f_timeout f)) eqn:Eold.
    + cbv zeta in E. injection E as <- <-.
      assert (El0 : lookup (r_id r0) (f_rs f) = Some r0) by (rewrite Hid0; auto).
      destruct (release_spec f r0 I El0) as (I0 & Ers & Esz & Eh & Elo & Et).
      assert (Hn : lookup id (f_rs (release f r0)) = None).
      { rewrite Ers, Hid0. apply remove_id_lookup_same. apply (fi_nodup _ I). }
      pose proof (FInv_push_new _ id now I0 Hn) as I1.
      split; [exact I1|]. cbn [with_rs f_rs f_high f_low f_timeout f_size lookup newReassembler r_id].
      rewrite Z.eqb_refl.
      assert (W0 : RWf r0) by (pose proof (fi_wf _ I) as Hwf; rewrite Forall_forall in Hwf; auto).
      pose proof (w_size _ W0). pose proof (heap_bytes_nonneg (r_heap r0)).
      repeat split; auto; try lia.
      * intros j Hj. destruct (Z.eqb_spec id j); [lia|]. rewrite Ers, Hid0.
        apply remove_id_lookup_other. auto.
      * intros x [<-|Hx]; [now left|right]. rewrite Ers in Hx. eapply remove_id_in; eauto.
      * left. split; auto. right. exists r0. auto.
    + injection E as <- <-. split; [exact I|]. repeat split; auto; try lia.
  - cbv zeta in E. injection E as <- <-.
    split; [apply FInv_push_new; auto|].
    cbn [with_rs f_rs f_high f_low f_timeout f_size lookup newReassembler r_id]. rewrite Z.eqb_refl.
    repeat split; auto; try lia.
    + intros j Hj. destruct (Z.eqb_spec id j); [lia|auto].
    + intros x [<-|Hx]; auto.
Qed.

Lemma NoDup_rev_ids : forall rs, NoDup (ids rs) -> NoDup (ids (rev rs)).
Proof.
  intros rs H. unfold ids in *. rewrite map_rev. apply NoDup_rev. auto.
Qed.

Ltac fsimpl := cbn [add_size with_rs f_rs f_size f_high f_low f_timeout].

Lemma finish_spec : forall f1 r first last more pl r' o f' out,
  FInv f1 -> lookup (r_id r) (f_rs f1) = Some r ->
  u16_range first -> u16_range last ->
  rprocess r first last more pl = (r', o) ->
  finish f1 r' o = (f', out) ->
  out = (p_res o, p_done o, false) /\ p_panic o = false /\
  FInv f' /\
  f_high f' = f_high f1 /\ f_low f' = f_low f1 /\ f_timeout f' = f_timeout f1 /\
  f_size f' <= f_size f1 + p_consumed o /\
  (forall x, In x (f_rs f') -> (x = r' /\ p_done o = false /\ p_err o = false) \/ In x (f_rs f1)) /\
  (* after the eviction walk: at most lowLimit bytes are kept, or nothing at all *)
  (f_size f' <= f_high f' \/ f_size f' <= f_low f' \/ f_rs f' = []) /\
  (* no eviction when the high limit is not exceeded *)
  (f_size f1 + p_consumed o <= f_high f1 ->
     (forall j, j <> r_id r -> lookup j (f_rs f') = lookup j (f_rs f1)) /\
     lookup (r_id r) (f_rs f') = if p_done o || p_err o then None else Some r').
Proof.
  intros f1 r first last more pl r' o f' out I El Hf Hl Ep Efin.
  destruct (lookup_some _ _ _ El) as [Hin _].
  assert (Wr : RWf r) by (pose proof (fi_wf _ I) as Hwf; rewrite Forall_forall in Hwf; auto).
  destruct (rprocess_wf r first last more pl r' o Wr Hf Hl Ep)
    as (Pp & Pc & Pid & Pct & Pdn & Psz & Pres & Perr & Pwf & _).
  unfold finish in Efin. rewrite Pp in Efin. cbv zeta in Efin.
  set (f2 := with_rs f1 (store r' (f_rs f1))) in *.
  set (f3 := add_size f2 (p_consumed o)) in *.
  assert (El' : lookup (r_id r') (f_rs f1) = Some r) by (rewrite Pid; auto).
  (* f3: r replaced by r', size advanced *)
  assert (Nd3 : NoDup (ids (f_rs f3))) by (unfold f3, f2; fsimpl; rewrite store_ids; apply (fi_nodup _ I)).
  assert (Sz3 : f_size f3 = sum_sizes (f_rs f3)).
  { unfold f3, f2; fsimpl. rewrite (store_sum _ _ _ El'). rewrite (fi_size _ I). lia. }
  assert (Lk3 : lookup (r_id r') (f_rs f3) = Some r') by (unfold f3, f2; fsimpl; eapply store_lookup_same; eauto).
  assert (Lo3 : forall j, j <> r_id r -> lookup j (f_rs f3) = lookup j (f_rs f1)).
  { intros j Hj. unfold f3, f2; fsimpl. apply store_lookup_other. congruence. }
  assert (In3 : forall x, In x (f_rs f3) -> x = r' \/ In x (f_rs f1)) by (intros x Hx; unfold f3, f2 in Hx; apply store_in; auto).
  assert (F3 : f_high f3 = f_high f1 /\ f_low f3 = f_low f1 /\ f_timeout f3 = f_timeout f1 /\
               f_size f3 = f_size f1 + p_consumed o) by (unfold f3, f2; fsimpl; auto).
  destruct F3 as (Eh3 & Elo3 & Et3 & Es3).
  pose proof (zlen_nonneg pl) as Hpl.
  (* f4 *)
  set (f4 := if p_done o || p_err o then release f3 r' else f3) in *.
  assert (I4 : FInv f4 /\ f_high f4 = f_high f1 /\ f_low f4 = f_low f1 /\ f_timeout f4 = f_timeout f1 /\
               f_size f4 <= f_size f1 + p_consumed o /\
               (forall x, In x (f_rs f4) -> (x = r' /\ p_done o = false /\ p_err o = false) \/ In x (f_rs f1)) /\
               (forall j, j <> r_id r -> lookup j (f_rs f4) = lookup j (f_rs f1)) /\
               lookup (r_id r) (f_rs f4) = if p_done o || p_err o then None else Some r').
  { unfold f4. destruct (p_done o || p_err o) eqn:Ede.
    - (* released: the invariant does not need RWf r' *)
      unfold release. rewrite Pdn.
      assert (Hb : 0 <= r_size r' <= f_size f3).
      { rewrite Sz3. rewrite Psz.
        assert (0 <= r_size r) by (rewrite (w_size _ Wr); apply heap_bytes_nonneg).
        split; [lia|].
        unfold f3, f2; fsimpl. rewrite (store_sum _ _ _ El').
        pose proof (sum_sizes_member _ _ (fi_wf _ I) Hin). lia. }
      assert (Hs : (if f_size f3 - r_size r' <? 0 then 0 else f_size f3 - r_size r') = f_size f3 - r_size r').
      { destruct (Z.ltb_spec (f_size f3 - r_size r') 0); lia. }
      rewrite Hs. fsimpl.
      split; [constructor; fsimpl|].
      + apply remove_id_nodup; auto.
      + rewrite Forall_forall. intros x Hx.
        assert (Hx3 : In x (f_rs f3)) by (eapply remove_id_in; eauto).
        destruct (In3 x Hx3) as [->|Hx1].
        * exfalso. assert (Hn : lookup (r_id r') (remove_id (r_id r') (f_rs f3)) = None)
            by (apply remove_id_lookup_same; auto).
          apply lookup_none in Hn. apply Hn. apply in_map. auto.
        * pose proof (fi_wf _ I) as Hwf. rewrite Forall_forall in Hwf. auto.
      + rewrite (remove_id_sum _ _ _ Lk3). lia.
      + rewrite Elo3. apply (fi_low _ I).
      + repeat split; auto; try lia.
        * intros x Hx. right.
          assert (Hx3 : In x (f_rs f3)) by (eapply remove_id_in; eauto).
          destruct (In3 x Hx3) as [->|Hx1]; [|auto].
          exfalso. assert (Hn : lookup (r_id r') (remove_id (r_id r') (f_rs f3)) = None)
            by (apply remove_id_lookup_same; auto).
          apply lookup_none in Hn. apply Hn. apply in_map. auto.
        * intros j Hj. rewrite remove_id_lookup_other by congruence. auto.
        * rewrite <- Pid. apply remove_id_lookup_same. auto.
    - apply orb_false_iff in Ede. destruct Ede as [Ed Ee].
      destruct (Pwf Ed Ee) as [Wr' _].
      split; [constructor; auto|].
      + rewrite Forall_forall. intros x Hx. destruct (In3 x Hx) as [->|Hx1]; auto.
        pose proof (fi_wf _ I) as Hwf. rewrite Forall_forall in Hwf. auto.
      + rewrite Elo3. apply (fi_low _ I).
      + repeat split; auto; try lia.
        * intros x Hx. destruct (In3 x Hx) as [->|Hx1]; auto.
        * rewrite <- Pid. auto. }
  destruct I4 as (I4 & Eh4 & El4 & Et4 & Sz4 & In4 & Lo4 & Lk4).
  destruct (Z.ltb_spec (f_high f4) (f_size f4)) as [Hev|Hnev].
  - (* eviction *)
    destruct (evict_loop_spec (rev (f_rs f4)) f4 I4) as (I5 & Eh5 & El5 & Et5 & Hsub & Hfr & Hsz5 & Hpost).
    + apply NoDup_rev_ids. apply (fi_nodup _ I4).
    + intros x Hx. apply in_rev in Hx. apply lookup_in_nodup; auto. apply (fi_nodup _ I4).
    + injection Efin as <- <-.
      split; [reflexivity|]. split; [exact Pp|]. split; [exact I5|].
      split; [congruence|]. split; [congruence|]. split; [congruence|]. split; [lia|].
      split; [intros x Hx; apply In4; auto|]. split.
      * right. destruct Hpost as [Hp|Hp]; [now left|right].
        destruct (f_rs (evict_loop f4 (rev (f_rs f4)))) as [|x t] eqn:Ers; auto. exfalso.
        assert (Hx : In x (x :: t)) by now left.
        pose proof (Hsub x Hx) as Hx4.
        assert (Hn : lookup (r_id x) (x :: t) = None).
        { apply Hp. apply -> in_rev. auto. }
        apply lookup_none in Hn. apply Hn. apply in_map. auto.
      * intros Hbud. lia.
  - injection Efin as <- <-.
    split; [reflexivity|]. split; [exact Pp|]. split; [exact I4|].
    split; [auto|]. split; [auto|]. split; [auto|]. split; [lia|].
    split; [exact In4|]. split; [left; lia|]. intros _. split; auto.
Qed.
