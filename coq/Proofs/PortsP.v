(* Lemmas about Model/Ports.v (protocol/ports/ports.go). *)
From Coq Require Import ZArith Bool List Lia ZifyBool.
From NP Require Import Model.Ports.
Import ListNotations.
Open Scope Z_scope.

(* ------------------------------------------------------------------ association list *)
Lemma desc_eqb_eq a b : desc_eqb a b = true <-> a = b.
Proof.
  destruct a as [[n1 t1] p1], b as [[n2 t2] p2]. unfold desc_eqb.
  rewrite !andb_true_iff, !Z.eqb_eq. split.
  - intros [[-> ->] ->]. reflexivity.
  - intros H. inversion H. auto.
Qed.
Lemma desc_eqb_refl a : desc_eqb a a = true.
Proof. apply desc_eqb_eq. reflexivity. Qed.
Lemma desc_eqb_neq a b : a <> b -> desc_eqb a b = false.
Proof. intros H. destruct (desc_eqb a b) eqn:E; [apply desc_eqb_eq in E; contradiction|reflexivity]. Qed.
Lemma desc_eq_dec (a b : desc) : {a = b} + {a <> b}.
Proof. destruct (desc_eqb a b) eqn:E; [left; apply desc_eqb_eq; exact E|right; intros H; apply desc_eqb_eq in H; congruence]. Qed.

Lemma lookup_store_same t d v : lookup (store t d v) d = Some v.
Proof.
  induction t as [|[k w] t IH]; cbn [store lookup].
  - rewrite desc_eqb_refl. reflexivity.
  - destruct (desc_eqb k d) eqn:E; cbn [lookup]; rewrite E; [reflexivity|exact IH].
Qed.
Lemma lookup_store_other t d v d' : d <> d' -> lookup (store t d v) d' = lookup t d'.
Proof.
  intros Hne. induction t as [|[k w] t IH]; cbn [store lookup].
  - rewrite desc_eqb_neq by exact Hne. reflexivity.
  - destruct (desc_eqb k d) eqn:E; cbn [lookup].
    + apply desc_eqb_eq in E. subst k. rewrite desc_eqb_neq by exact Hne. reflexivity.
    + rewrite IH. reflexivity.
Qed.
Lemma lookup_delete_same t d : lookup (delete t d) d = None.
Proof.
  induction t as [|[k w] t IH]; cbn [delete lookup]; [reflexivity|].
  destruct (desc_eqb k d) eqn:E; [exact IH|]. cbn [lookup]. rewrite E. exact IH.
Qed.
Lemma lookup_delete_other t d d' : d <> d' -> lookup (delete t d) d' = lookup t d'.
Proof.
  intros Hne. induction t as [|[k w] t IH]; cbn [delete lookup]; [reflexivity|].
  destruct (desc_eqb k d) eqn:E.
  - apply desc_eqb_eq in E. subst k. rewrite desc_eqb_neq by exact Hne. exact IH.
  - cbn [lookup]. rewrite IH. reflexivity.
Qed.

(* ------------------------------------------------------------------ address sets *)
Lemma memZ_In a b : memZ a b = true <-> In a b.
Proof.
  induction b as [|x b IH]; cbn [memZ In]; [split; [discriminate|tauto]|].
  destruct (Z.eqb_spec x a) as [->|Hne]; [tauto|]. rewrite IH. split; [tauto|]. intros [H|H]; [contradiction|exact H].
Qed.
Lemma memZ_addAddr x b a : memZ x (addAddr b a) = (x =? a) || memZ x b.
Proof.
  unfold addAddr. destruct (memZ a b) eqn:E.
  - destruct (Z.eqb_spec x a) as [->|Hne]; [rewrite E; reflexivity|reflexivity].
  - cbn [memZ]. rewrite (Z.eqb_sym a x). destruct (x =? a); reflexivity.
Qed.
Lemma memZ_delAddr x b a : memZ x (delAddr b a) = negb (x =? a) && memZ x b.
Proof.
  induction b as [|y b IH]; cbn [delAddr memZ]; [rewrite andb_false_r; reflexivity|].
  destruct (Z.eqb_spec y a) as [->|Hya].
  - rewrite IH. rewrite (Z.eqb_sym a x). destruct (x =? a); reflexivity.
  - cbn [memZ]. rewrite IH. destruct (Z.eqb_spec y x) as [->|Hyx]; [|reflexivity].
    destruct (Z.eqb_spec x a) as [->|_]; [contradiction|reflexivity].
Qed.
Lemma isEmpty_spec b : isEmpty b = true <-> forall x, memZ x b = false.
Proof.
  destruct b as [|y b]; cbn [isEmpty memZ]; [tauto|]. split; [discriminate|].
  intros H. specialize (H y). rewrite Z.eqb_refl in H. discriminate.
Qed.
Lemma isEmpty_nil b : isEmpty b = true <-> b = [].
Proof. destruct b; cbn; split; congruence. Qed.

(* ------------------------------------------------------------------ bound addresses *)
Definition addrs (t : table) (d : desc) : list Z := match lookup t d with Some b => b | None => [] end.
(* address a is bound at descriptor d *)
Definition bound (t : table) (d : desc) (a : Z) : bool := memZ a (addrs t d).
(* no descriptor with an empty address set is kept *)
Definition wf (t : table) : Prop := forall d b, lookup t d = Some b -> b <> [].
(* observational equality of tables *)
Definition teq (t t' : table) : Prop := forall d a, bound t d a = bound t' d a.

Lemma wf_empty : wf emptyTable.
Proof. intros d b H. discriminate. Qed.

Lemma addr_clash_sym a b : addr_clash a b = addr_clash b a.
Proof. unfold addr_clash. rewrite (Z.eqb_sym a b). destruct (a =? 0), (b =? 0); reflexivity. Qed.

Lemma isAvailable_spec b addr :
  isAvailable b addr = true <-> forall a, memZ a b = true -> addr_clash addr a = false.
Proof.
  unfold isAvailable, anyAddr, addr_clash. destruct (Z.eqb_spec addr 0) as [->|Hne].
  - rewrite isEmpty_spec. split.
    + intros H a Ha. rewrite H in Ha. discriminate.
    + intros H x. destruct (memZ x b) eqn:E; [|reflexivity]. specialize (H x E). discriminate.
  - cbn [orb]. split.
    + intros H a Ha. destruct (memZ 0 b) eqn:E0; [discriminate|]. destruct (memZ addr b) eqn:E1; [discriminate|].
      destruct (Z.eqb_spec a 0) as [->|Ha0]; [congruence|]. destruct (Z.eqb_spec addr a) as [->|Hx]; [congruence|reflexivity].
    + intros H. destruct (memZ 0 b) eqn:E0.
      { specialize (H 0 E0). cbn in H. discriminate. }
      destruct (memZ addr b) eqn:E1; [|reflexivity].
      specialize (H addr E1). rewrite Z.eqb_refl, orb_true_r in H. discriminate.
Qed.

Lemma isAvailable_nil addr : isAvailable [] addr = true.
Proof. unfold isAvailable. destruct (addr =? anyAddr); reflexivity. Qed.

Lemma avail_spec t nets tr addr port :
  isPortAvailableLocked t nets tr addr port = true <->
  forall n a, In n nets -> bound t (n, tr, port) a = true -> addr_clash addr a = false.
Proof.
  induction nets as [|n ns IH]; cbn [isPortAvailableLocked In].
  - split; [intros _ n a []|reflexivity].
  - pose proof (isAvailable_spec (addrs t (n, tr, port)) addr) as Hn.
    set (rest := isPortAvailableLocked t ns tr addr port) in *.
    assert (Hstep : match lookup t (n, tr, port) with
                    | Some addrs0 => if negb (isAvailable addrs0 addr) then false else rest
                    | None => rest end = isAvailable (addrs t (n, tr, port)) addr && rest).
    { unfold addrs. destruct (lookup t (n, tr, port)) as [b|].
      - destruct (isAvailable b addr); reflexivity.
      - rewrite isAvailable_nil. reflexivity. }
    rewrite Hstep, andb_true_iff, IH, Hn. clear Hstep Hn IH. unfold bound. split.
    + intros [H1 H2] m a [<-|Hm] Ha; [apply (H1 a Ha)|apply (H2 m a Hm Ha)].
    + intros H. split; [intros a Ha; apply (H n a (or_introl eq_refl) Ha)|intros m a Hm Ha; apply (H m a (or_intror Hm) Ha)].
Qed.

(* descriptor d is one of (n, tr, port), n in nets *)
Definition names (nets : list Z) (tr port : Z) (d : desc) : bool :=
  existsb (fun n => desc_eqb (n, tr, port) d) nets.

Lemma bound_store_same t d v a : bound (store t d v) d a = memZ a v.
Proof. unfold bound, addrs. rewrite lookup_store_same. reflexivity. Qed.
Lemma bound_store_other t d v d' a : d <> d' -> bound (store t d v) d' a = bound t d' a.
Proof. intros H. unfold bound, addrs. rewrite lookup_store_other by exact H. reflexivity. Qed.

Lemma bound_reserveInsert t nets tr addr port d a :
  bound (reserveInsert t nets tr addr port) d a = bound t d a || ((a =? addr) && names nets tr port d).
Proof.
  revert t. induction nets as [|n ns IH]; intros t; cbn [reserveInsert names existsb].
  - rewrite andb_false_r, orb_false_r. reflexivity.
  - rewrite IH. fold (names ns tr port d). fold (addrs t (n, tr, port)).
    destruct (desc_eq_dec (n, tr, port) d) as [<-|Hne].
    + rewrite bound_store_same, memZ_addAddr, desc_eqb_refl. unfold bound.
      destruct (a =? addr), (memZ a (addrs t (n, tr, port))), (names ns tr port (n, tr, port)); reflexivity.
    + rewrite bound_store_other by exact Hne. rewrite (desc_eqb_neq _ _ Hne). reflexivity.
Qed.

Lemma bound_releasePort t nets tr addr port d a :
  bound (releasePort t nets tr addr port) d a = bound t d a && negb ((a =? addr) && names nets tr port d).
Proof.
  revert t. induction nets as [|n ns IH]; intros t; cbn [releasePort names existsb].
  - rewrite andb_false_r, andb_true_r. reflexivity.
  - rewrite IH. fold (names ns tr port d).
    assert (H1 : bound (match lookup t (n, tr, port) with
                        | Some m => if isEmpty (delAddr m addr) then delete t (n, tr, port)
                                    else store t (n, tr, port) (delAddr m addr)
                        | None => t end) d a
                 = bound t d a && negb ((a =? addr) && desc_eqb (n, tr, port) d)).
    { destruct (desc_eq_dec (n, tr, port) d) as [<-|Hne].
      - rewrite desc_eqb_refl, andb_true_r. unfold bound at 2. unfold addrs.
        destruct (lookup t (n, tr, port)) as [m|] eqn:L.
        + destruct (isEmpty (delAddr m addr)) eqn:Em.
          * unfold bound, addrs. rewrite lookup_delete_same. cbn [memZ].
            pose proof (proj1 (isEmpty_spec _) Em a) as Hx. rewrite memZ_delAddr in Hx. rewrite andb_comm. symmetry. exact Hx.
          * rewrite bound_store_same, memZ_delAddr. apply andb_comm.
        + unfold bound, addrs. rewrite L. reflexivity.
      - rewrite (desc_eqb_neq _ _ Hne), andb_false_r, andb_true_r.
        destruct (lookup t (n, tr, port)) as [m|] eqn:L; [|reflexivity].
        destruct (isEmpty (delAddr m addr)).
        + unfold bound, addrs. rewrite lookup_delete_other by exact Hne. reflexivity.
        + apply bound_store_other. exact Hne. }
    rewrite H1. destruct (bound t d a), (a =? addr), (desc_eqb (n, tr, port) d), (names ns tr port d); reflexivity.
Qed.

Lemma addAddr_nonempty m a : addAddr m a <> [].
Proof. unfold addAddr. destruct (memZ a m) eqn:E; [|discriminate]. destruct m; [discriminate|discriminate]. Qed.

Lemma wf_reserveInsert t nets tr addr port : wf t -> wf (reserveInsert t nets tr addr port).
Proof.
  revert t. induction nets as [|n ns IH]; intros t Hwf; cbn [reserveInsert]; [exact Hwf|].
  apply IH. intros d b Hl. destruct (desc_eq_dec (n, tr, port) d) as [<-|Hne].
  - rewrite lookup_store_same in Hl. inversion Hl. apply addAddr_nonempty.
  - rewrite lookup_store_other in Hl by exact Hne. apply (Hwf d b Hl).
Qed.

Lemma wf_releasePort t nets tr addr port : wf t -> wf (releasePort t nets tr addr port).
Proof.
  revert t. induction nets as [|n ns IH]; intros t Hwf; cbn [releasePort]; [exact Hwf|].
  apply IH. destruct (lookup t (n, tr, port)) as [m|] eqn:L; [|exact Hwf].
  destruct (isEmpty (delAddr m addr)) eqn:Em; intros d b Hl.
  - destruct (desc_eq_dec (n, tr, port) d) as [<-|Hne].
    + rewrite lookup_delete_same in Hl. discriminate.
    + rewrite lookup_delete_other in Hl by exact Hne. apply (Hwf d b Hl).
  - destruct (desc_eq_dec (n, tr, port) d) as [<-|Hne].
    + rewrite lookup_store_same in Hl. inversion Hl. subst b. intros Hb. rewrite Hb in Em. discriminate.
    + rewrite lookup_store_other in Hl by exact Hne. apply (Hwf d b Hl).
Qed.

(* under wf, a descriptor is present exactly when some address is bound there *)
Lemma wf_present t d : wf t -> (lookup t d = None <-> forall a, bound t d a = false).
Proof.
  intros Hwf. unfold bound, addrs. destruct (lookup t d) as [b|] eqn:L.
  - split; [discriminate|]. intros H. exfalso. apply (Hwf d b L). apply isEmpty_nil, isEmpty_spec. exact H.
  - split; [reflexivity|reflexivity].
Qed.

(* ------------------------------------------------------------------ release restores *)
Lemma names_spec nets tr port d :
  names nets tr port d = true <-> exists n, In n nets /\ d = (n, tr, port).
Proof.
  unfold names. rewrite existsb_exists. split.
  - intros (n & Hn & He). apply desc_eqb_eq in He. exists n. split; [exact Hn|symmetry; exact He].
  - intros (n & Hn & ->). exists n. split; [exact Hn|apply desc_eqb_refl].
Qed.
Lemma addr_clash_refl a : addr_clash a a = true.
Proof. unfold addr_clash. rewrite Z.eqb_refl. apply orb_true_r. Qed.

Lemma teq_refl t : teq t t. Proof. intros d a. reflexivity. Qed.
Lemma teq_avail t t' nets tr addr port :
  teq t t' -> isPortAvailableLocked t nets tr addr port = isPortAvailableLocked t' nets tr addr port.
Proof.
  intros H. apply eq_iff_eq_true. rewrite !avail_spec. split; intros H1 n a Hn Hb; apply (H1 n a Hn).
  - rewrite H. exact Hb.
  - rewrite <- H. exact Hb.
Qed.

Lemma release_after_reserve_teq t nets tr addr port :
  isPortAvailableLocked t nets tr addr port = true ->
  teq (releasePort (reserveInsert t nets tr addr port) nets tr addr port) t.
Proof.
  intros Hav d a. rewrite bound_releasePort, bound_reserveInsert.
  destruct ((a =? addr) && names nets tr port d) eqn:X; cbn [negb].
  - rewrite andb_false_r. symmetry. apply andb_true_iff in X as [Ha Hn]. apply Z.eqb_eq in Ha. subst a.
    apply names_spec in Hn as (n & Hn & ->).
    destruct (bound t (n, tr, port) addr) eqn:B; [|reflexivity].
    pose proof (proj1 (avail_spec _ _ _ _ _) Hav n addr Hn B) as Hc. rewrite addr_clash_refl in Hc. discriminate.
  - rewrite orb_false_r, andb_true_r. reflexivity.
Qed.

Lemma teq_present t t' : wf t -> wf t' -> teq t t' -> forall d, lookup t d = None <-> lookup t' d = None.
Proof.
  intros W W' H d. rewrite (wf_present t d W), (wf_present t' d W'). split; intros H1 a; [rewrite <- H|rewrite H]; apply H1.
Qed.

Lemma release_frame t nets tr addr port d a :
  a <> addr \/ names nets tr port d = false ->
  bound (releasePort t nets tr addr port) d a = bound t d a.
Proof.
  intros H. rewrite bound_releasePort. destruct H as [H|H].
  - apply Z.eqb_neq in H. rewrite H. cbn. apply andb_true_r.
  - rewrite H, andb_false_r. cbn. apply andb_true_r.
Qed.
Lemma release_only_shrinks t nets tr addr port d a :
  bound (releasePort t nets tr addr port) d a = true -> bound t d a = true.
Proof. rewrite bound_releasePort. intros H. apply andb_true_iff in H. tauto. Qed.

Lemma inZ_In x l : inZ x l = true <-> In x l.
Proof.
  unfold inZ. rewrite existsb_exists. split.
  - intros (y & Hy & He). apply Z.eqb_eq in He. subst. exact Hy.
  - intros H. exists x. split; [exact H|apply Z.eqb_refl].
Qed.
Lemma common_spec l1 l2 : common l1 l2 = true <-> exists n, In n l1 /\ In n l2.
Proof.
  unfold common. rewrite existsb_exists. split; intros (n & H1 & H2); exists n; (split; [exact H1|apply inZ_In; exact H2]).
Qed.

Lemma conflictb_spec r q :
  conflictb r q = true <->
  r_tr r = r_tr q /\ r_port r = r_port q /\ (exists n, In n (r_nets r) /\ In n (r_nets q)) /\
  addr_clash (r_addr r) (r_addr q) = true.
Proof.
  unfold conflictb. rewrite !andb_true_iff, !Z.eqb_eq, common_spec. tauto.
Qed.
Lemma conflictb_sym r q : conflictb r q = conflictb q r.
Proof.
  apply eq_iff_eq_true. rewrite !conflictb_spec, (addr_clash_sym (r_addr r)).
  split; intros (H1 & H2 & (n & H3 & H4) & H5); (repeat split; [congruence|congruence|exists n; tauto|exact H5]).
Qed.

(* releasing r changes the availability of no tuple that does not conflict with r *)
Lemma release_avail_frame t nets tr addr port nets' tr' addr' port' :
  conflictb (Resv nets' tr' addr' port') (Resv nets tr addr port) = false ->
  isPortAvailableLocked (releasePort t nets tr addr port) nets' tr' addr' port'
  = isPortAvailableLocked t nets' tr' addr' port'.
Proof.
  intros Hnc. apply eq_iff_eq_true. rewrite !avail_spec. split; intros H n a Hn Hb.
  - destruct (bound (releasePort t nets tr addr port) (n, tr', port') a) eqn:B; [apply (H n a Hn B)|].
    rewrite bound_releasePort, Hb in B. cbn [andb] in B. apply negb_false_iff, andb_true_iff in B as [Ha Hnm].
    apply Z.eqb_eq in Ha. subst a. apply names_spec in Hnm as (m & Hm & He). inversion He; subst m tr' port'.
    destruct (addr_clash addr' addr) eqn:C; [|reflexivity].
    assert (Hc : conflictb (Resv nets' tr addr' port) (Resv nets tr addr port) = true).
    { apply conflictb_spec. cbn. repeat split; [exists n; tauto|exact C]. }
    congruence.
  - apply (H n a Hn). apply (release_only_shrinks _ _ _ _ _ _ _ Hb).
Qed.

(* ------------------------------------------------------------------ refinement to the set of live reservations *)
(* reservation r holds address a at descriptor d *)
Definition holds (r : resv) (d : desc) (a : Z) : bool :=
  let '(n, tr, p) := d in inZ n (r_nets r) && (r_tr r =? tr) && (r_port r =? p) && (r_addr r =? a).
Definition covers (live : list resv) (d : desc) (a : Z) : bool := existsb (fun r => holds r d a) live.
(* the table of the code represents the live reservations *)
Definition Rep (t : table) (live : list resv) : Prop := forall d a, bound t d a = covers live d a.

Lemma holds_spec r n tr p a :
  holds r (n, tr, p) a = true <-> In n (r_nets r) /\ r_tr r = tr /\ r_port r = p /\ r_addr r = a.
Proof. unfold holds. rewrite !andb_true_iff, !Z.eqb_eq, inZ_In. tauto. Qed.

Lemma names_holds nets tr addr port d a :
  (a =? addr) && names nets tr port d = holds (Resv nets tr addr port) d a.
Proof.
  destruct d as [[n' tr'] p']. apply eq_iff_eq_true. rewrite holds_spec, andb_true_iff, names_spec, Z.eqb_eq. cbn.
  split.
  - intros [-> (n & Hn & He)]. inversion He; subst. tauto.
  - intros (Hn & -> & -> & ->). split; [reflexivity|exists n'; tauto].
Qed.

Lemma Rep_empty : Rep emptyTable [].
Proof. intros d a. reflexivity. Qed.

Lemma Rep_reserve t live nets tr addr port :
  Rep t live -> Rep (reserveInsert t nets tr addr port) (Resv nets tr addr port :: live).
Proof.
  intros H d a. rewrite bound_reserveInsert, names_holds, H. cbn [covers existsb]. apply orb_comm.
Qed.

Lemma inZ_filter n l nets : inZ n (filter (fun m => negb (inZ m nets)) l) = inZ n l && negb (inZ n nets).
Proof.
  apply eq_iff_eq_true. rewrite andb_true_iff, negb_true_iff, !inZ_In, filter_In, negb_true_iff.
  split; intros [H1 H2]; (split; [exact H1|]).
  - destruct (inZ n nets) eqn:E; [|reflexivity]. congruence.
  - exact H2.
Qed.

Lemma same_key_spec r q : same_key r q = true <-> r_tr r = r_tr q /\ r_addr r = r_addr q /\ r_port r = r_port q.
Proof. unfold same_key. rewrite !andb_true_iff, !Z.eqb_eq. tauto. Qed.

Lemma holds_shrink rel r d a : holds (shrink rel r) d a = holds r d a && negb (holds rel d a).
Proof.
  destruct d as [[n tr] p]. apply eq_iff_eq_true. rewrite andb_true_iff, negb_true_iff.
  unfold shrink. destruct (same_key rel r) eqn:K.
  - apply same_key_spec in K as (K1 & K2 & K3). rewrite !holds_spec. cbn [r_nets r_tr r_addr r_port].
    rewrite <- inZ_In, inZ_filter, andb_true_iff, negb_true_iff, inZ_In. split.
    + intros ((H1 & H2) & H3 & H4 & H5). split; [tauto|].
      destruct (holds rel (n, tr, p) a) eqn:E; [|reflexivity]. apply holds_spec in E as (E1 & _).
      apply inZ_In in E1. congruence.
    + intros ((H1 & H3 & H4 & H5) & Hn). repeat split; try assumption.
      destruct (inZ n (r_nets rel)) eqn:E; [|reflexivity].
      assert (holds rel (n, tr, p) a = true) by (apply holds_spec; apply inZ_In in E; repeat split; congruence).
      congruence.
  - split; [|tauto]. intros H. split; [exact H|].
    destruct (holds rel (n, tr, p) a) eqn:E; [|reflexivity].
    apply holds_spec in H as (_ & H2 & H3 & H4). apply holds_spec in E as (_ & E2 & E3 & E4).
    assert (same_key rel r = true) by (apply same_key_spec; repeat split; congruence). congruence.
Qed.

Lemma covers_release live rel d a :
  covers (live_release live rel) d a = covers live d a && negb (holds rel d a).
Proof.
  unfold live_release, covers. induction live as [|r l IH]; cbn [map filter existsb]; [reflexivity|].
  destruct (has_net (shrink rel r)) eqn:Hn; cbn [existsb]; rewrite IH.
  - rewrite holds_shrink. destruct (holds r d a), (holds rel d a), (existsb (fun r0 => holds r0 d a) l); reflexivity.
  - assert (Hh : holds (shrink rel r) d a = false).
    { destruct d as [[n tr] p]. unfold holds. unfold has_net in Hn. apply negb_false_iff, isEmpty_nil in Hn. rewrite Hn. reflexivity. }
    rewrite holds_shrink in Hh.
    destruct (holds r d a), (holds rel d a), (existsb (fun r0 => holds r0 d a) l); cbn in *; congruence.
Qed.

Lemma Rep_release t live nets tr addr port :
  Rep t live -> Rep (releasePort t nets tr addr port) (live_release live (Resv nets tr addr port)).
Proof.
  intros H d a. rewrite bound_releasePort, covers_release, names_holds, H. reflexivity.
Qed.

Lemma free_of_spec live r : free_of live r = true <-> forall q, In q live -> ~ conflict r q.
Proof.
  unfold free_of, conflict. rewrite forallb_forall. split; intros H q Hq.
  - specialize (H q Hq). apply negb_true_iff in H. congruence.
  - apply negb_true_iff. destruct (conflictb r q) eqn:E; [exfalso; apply (H q Hq E)|reflexivity].
Qed.

(* the availability test of the code = "conflicts with no live reservation" *)
Lemma avail_free_of t live nets tr addr port :
  Rep t live -> isPortAvailableLocked t nets tr addr port = free_of live (Resv nets tr addr port).
Proof.
  intros HR. apply eq_iff_eq_true. rewrite avail_spec, free_of_spec. unfold conflict. split.
  - intros H q Hq Hc. apply conflictb_spec in Hc as (C1 & C2 & (n & C3 & C4) & C5). cbn in C1, C2, C3, C5.
    assert (Hb : bound t (n, tr, port) (r_addr q) = true).
    { rewrite HR. apply existsb_exists. exists q. split; [exact Hq|]. apply holds_spec. repeat split; congruence. }
    rewrite (H n _ C3 Hb) in C5. discriminate.
  - intros H n a Hn Hb. rewrite HR in Hb. apply existsb_exists in Hb as (q & Hq & Hh).
    apply holds_spec in Hh as (H1 & H2 & H3 & H4). destruct (addr_clash addr a) eqn:C; [|reflexivity].
    exfalso. apply (H q Hq). apply conflictb_spec. cbn. repeat split; try congruence. exists n. tauto.
Qed.

(* ------------------------------------------------------------------ exclusivity *)
Lemma shrink_tr rel r : r_tr (shrink rel r) = r_tr r.
Proof. unfold shrink. destruct (same_key rel r); reflexivity. Qed.
Lemma shrink_port rel r : r_port (shrink rel r) = r_port r.
Proof. unfold shrink. destruct (same_key rel r); reflexivity. Qed.
Lemma shrink_addr rel r : r_addr (shrink rel r) = r_addr r.
Proof. unfold shrink. destruct (same_key rel r); reflexivity. Qed.
Lemma shrink_nets rel r n : In n (r_nets (shrink rel r)) -> In n (r_nets r).
Proof. unfold shrink. destruct (same_key rel r); cbn; [rewrite filter_In; tauto|tauto]. Qed.

Lemma conflict_shrink rel a b : conflict (shrink rel a) (shrink rel b) -> conflict a b.
Proof.
  unfold conflict. rewrite !conflictb_spec, !shrink_tr, !shrink_port, !shrink_addr.
  intros (H1 & H2 & (n & H3 & H4) & H5). repeat split; try assumption.
  exists n. split; eapply shrink_nets; eassumption.
Qed.

Lemma exclusive_release live rel : exclusive live -> exclusive (live_release live rel).
Proof.
  unfold live_release. induction live as [|r l IH]; cbn [map filter exclusive]; [tauto|].
  intros [H1 H2]. specialize (IH H2). destruct (has_net (shrink rel r)); [|exact IH].
  cbn [exclusive]. split; [|exact IH]. intros q Hq Hc. apply filter_In in Hq as [Hq _].
  apply in_map_iff in Hq as (q0 & <- & Hq0). apply (H1 q0 Hq0). apply (conflict_shrink rel). exact Hc.
Qed.

Lemma exclusiveb_spec live : exclusiveb live = true <-> exclusive live.
Proof.
  induction live as [|r l IH]; cbn [exclusiveb exclusive]; [tauto|].
  rewrite andb_true_iff, IH, free_of_spec. tauto.
Qed.

(* ------------------------------------------------------------------ the ephemeral search loop *)
Lemma count_nat : Z.of_nat (Z.to_nat count) = count.
Proof. apply Z2Nat.id. unfold count. lia. Qed.
Example count_is_uint16_expr : count = w16 (65535 - firstEphemeral + 1).
Proof. reflexivity. Qed.

Section PickLemmas.
  Variables St E : Type.
  Variable probe : Z -> Z -> Z.
  Variable test : St -> Z -> St * (bool * option E).
  Variable offset : Z.
  Notation loop := (pickLoop probe test offset).

  (* without any assumption on the tester: a failed search has asked about every index and was
     told "no" each time; a returned port was accepted; an error is the tester's *)
  Lemma pickLoop_none_gen n i s s' :
    loop n i s = (s', PickNone) ->
    forall j, i <= j < i + Z.of_nat n -> exists s1 s2, test s1 (probe offset j) = (s2, (false, None)).
  Proof.
    revert i s. induction n as [|n IH]; intros i s H j Hj; [lia|].
    cbn [pickLoop] in H. destruct (test s (probe offset i)) as [s1 [ok [e|]]] eqn:T; [discriminate|].
    destruct ok; [discriminate|].
    destruct (Z.eq_dec j i) as [->|Hne]; [exists s, s1; exact T|].
    apply (IH (i + 1) s1 H). lia.
  Qed.
  Lemma pickLoop_ok_gen n i s s' p :
    loop n i s = (s', PickOk p) ->
    exists j s1, i <= j < i + Z.of_nat n /\ p = probe offset j /\ test s1 p = (s', (true, None)).
  Proof.
    revert i s. induction n as [|n IH]; intros i s H; [discriminate|].
    cbn [pickLoop] in H. destruct (test s (probe offset i)) as [s1 [ok [e|]]] eqn:T; [discriminate|].
    destruct ok.
    - inversion H; subst. exists i, s. split; [lia|]. split; [reflexivity|exact T].
    - destruct (IH (i + 1) s1 H) as (j & s2 & Hj & Hp & Ht). exists j, s2. split; [lia|]. tauto.
  Qed.
  Lemma pickLoop_err_gen n i s s' e :
    loop n i s = (s', PickErr e) ->
    exists j s1 b, i <= j < i + Z.of_nat n /\ test s1 (probe offset j) = (s', (b, Some e)).
  Proof.
    revert i s. induction n as [|n IH]; intros i s H; [discriminate|].
    cbn [pickLoop] in H. destruct (test s (probe offset i)) as [s1 [ok [e1|]]] eqn:T.
    - inversion H; subst. exists i, s, ok. split; [lia|exact T].
    - destruct ok; [discriminate|].
      destruct (IH (i + 1) s1 H) as (j & s2 & b & Hj & Ht). exists j, s2, b. split; [lia|exact Ht].
  Qed.

  (* testers that leave the state alone when they say "no" (pure testers; the reserving tester) *)
  Hypothesis reject_keeps : forall s p s', test s p = (s', (false, None)) -> s' = s.
  Definition rejects (s : St) (k : Z) : Prop := test s (probe offset k) = (s, (false, None)).

  Lemma pickLoop_skip m n i s :
    (forall k, i <= k < i + Z.of_nat m -> rejects s k) ->
    loop (m + n) i s = loop n (i + Z.of_nat m) s.
  Proof.
    revert i. induction m as [|m IH]; intros i H.
    - cbn [Nat.add]. f_equal. lia.
    - cbn [Nat.add pickLoop]. pose proof (H i ltac:(lia)) as Hi. unfold rejects in Hi. rewrite Hi. cbv beta iota. rewrite IH.
      + f_equal. lia.
      + intros k Hk. apply H. lia.
  Qed.

  Lemma pickLoop_none n i s s' :
    loop n i s = (s', PickNone) <-> s' = s /\ forall j, i <= j < i + Z.of_nat n -> rejects s j.
  Proof.
    split.
    - revert i. induction n as [|n IH]; intros i H.
      + inversion H. split; [reflexivity|intros; lia].
      + cbn [pickLoop] in H. destruct (test s (probe offset i)) as [s1 [ok [e|]]] eqn:T; [discriminate|].
        destruct ok; [discriminate|]. pose proof (reject_keeps _ _ _ T) as ->.
        destruct (IH (i + 1) H) as [-> Hr]. split; [reflexivity|]. intros j Hj.
        destruct (Z.eq_dec j i) as [->|Hne]; [exact T|apply Hr; lia].
    - intros [-> H]. rewrite <- (Nat.add_0_r n), (pickLoop_skip n 0 i s H). reflexivity.
  Qed.

  Lemma pickLoop_ok n i s s' p :
    loop n i s = (s', PickOk p) <->
    exists j, i <= j < i + Z.of_nat n /\ p = probe offset j /\ test s p = (s', (true, None)) /\
              forall k, i <= k < j -> rejects s k.
  Proof.
    split.
    - revert i. induction n as [|n IH]; intros i H; [discriminate|].
      cbn [pickLoop] in H. destruct (test s (probe offset i)) as [s1 [ok [e|]]] eqn:T; [discriminate|].
      destruct ok.
      + inversion H; subst. exists i. split; [lia|]. split; [reflexivity|]. split; [exact T|intros; lia].
      + pose proof (reject_keeps _ _ _ T) as ->.
        destruct (IH (i + 1) H) as (j & Hj & Hp & Ht & Hr). exists j. split; [lia|]. split; [exact Hp|]. split; [exact Ht|].
        intros k Hk. destruct (Z.eq_dec k i) as [->|Hne]; [exact T|apply Hr; lia].
    - intros (j & Hj & -> & Ht & Hr).
      replace n with (Z.to_nat (j - i) + S (Z.to_nat (i + Z.of_nat n - j - 1)))%nat by lia.
      rewrite pickLoop_skip by (intros k Hk; apply Hr; lia).
      replace (i + Z.of_nat (Z.to_nat (j - i))) with j by lia. cbn [pickLoop]. rewrite Ht. cbv beta iota. reflexivity.
  Qed.

  Lemma pickLoop_err n i s s' e :
    loop n i s = (s', PickErr e) <->
    exists j b, i <= j < i + Z.of_nat n /\ test s (probe offset j) = (s', (b, Some e)) /\
                forall k, i <= k < j -> rejects s k.
  Proof.
    split.
    - revert i. induction n as [|n IH]; intros i H; [discriminate|].
      cbn [pickLoop] in H. destruct (test s (probe offset i)) as [s1 [ok [e1|]]] eqn:T.
      + inversion H; subst. exists i, ok. split; [lia|]. split; [exact T|intros; lia].
      + destruct ok; [discriminate|]. pose proof (reject_keeps _ _ _ T) as ->.
        destruct (IH (i + 1) H) as (j & b & Hj & Ht & Hr). exists j, b. split; [lia|]. split; [exact Ht|].
        intros k Hk. destruct (Z.eq_dec k i) as [->|Hne]; [exact T|apply Hr; lia].
    - intros (j & b & Hj & Ht & Hr).
      replace n with (Z.to_nat (j - i) + S (Z.to_nat (i + Z.of_nat n - j - 1)))%nat by lia.
      rewrite pickLoop_skip by (intros k Hk; apply Hr; lia).
      replace (i + Z.of_nat (Z.to_nat (j - i))) with j by lia. cbn [pickLoop]. rewrite Ht. cbv beta iota. reflexivity.
  Qed.
End PickLemmas.

(* ------------------------------------------------------------------ the probe sequence *)
Ltac pconsts := change (2^16) with 65536 in *; change (2^32) with 4294967296 in *.

Lemma probePort_closed off i :
  0 <= off < count -> 0 <= i < count -> probePort off i = firstEphemeral + (off + i) mod count.
Proof.
  unfold probePort, w16, w32, firstEphemeral, count. intros Ho Hi. pconsts.
  rewrite (Z.mod_small off), (Z.mod_small i), (Z.mod_small 49536), (Z.mod_small (off + i)) by lia.
  pose proof (Z.mod_pos_bound (off + i) 49536 ltac:(lia)) as Hm.
  rewrite (Z.mod_small ((off + i) mod 49536)) by lia. apply Z.mod_small. lia.
Qed.

Lemma probePort_range off i :
  0 <= off < count -> 0 <= i < count -> 16000 <= probePort off i <= 65535.
Proof.
  intros Ho Hi. rewrite probePort_closed by assumption. unfold firstEphemeral, count in *.
  pose proof (Z.mod_pos_bound (off + i) 49536 ltac:(lia)). lia.
Qed.

(* i |-> (offset + i) mod count is a bijection of [0, count): every port of the range is probed,
   exactly once, whatever the offset *)
Lemma probePort_surj off p :
  0 <= off < count -> 16000 <= p <= 65535 -> exists i, 0 <= i < count /\ probePort off i = p.
Proof.
  intros Ho Hp. exists ((p - firstEphemeral - off) mod count).
  assert (Hi : 0 <= (p - firstEphemeral - off) mod count < count) by (apply Z.mod_pos_bound; unfold count; lia).
  split; [exact Hi|]. rewrite probePort_closed by assumption.
  rewrite Zplus_mod_idemp_r. replace (off + (p - firstEphemeral - off)) with (p - firstEphemeral) by lia.
  rewrite Z.mod_small by (unfold firstEphemeral, count; lia). lia.
Qed.

Lemma probePort_inj off i j :
  0 <= off < count -> 0 <= i < count -> 0 <= j < count -> probePort off i = probePort off j -> i = j.
Proof.
  intros Ho Hi Hj. rewrite !probePort_closed by assumption. unfold firstEphemeral, count in *. intros H.
  assert (H' : (off + i) mod 49536 = (off + j) mod 49536) by lia. clear H.
  revert H'. Z.div_mod_to_equations. lia.
Qed.

(* ------------------------------------------------------------------ PickEphemeralPort with a pure tester *)
Section PurePick.
  Variable E : Type.
  Variable f : Z -> bool * option E.
  Variable offset : Z.
  Hypothesis Hoff : 0 <= offset < count.

  Lemma pure_reject_keeps : forall (s : unit) p s', pureTest f s p = (s', (false, None)) -> s' = s.
  Proof. intros [] p []. reflexivity. Qed.

  Lemma pure_rejects probe s k : rejects unit E probe (pureTest f) offset s k <-> f (probe offset k) = (false, None).
  Proof. unfold rejects, pureTest. split; [intros H; inversion H; reflexivity|intros ->; reflexivity]. Qed.

  (* fails exactly when every port of the range is rejected: for EVERY offset *)
  Lemma ephemeral_complete_pure :
    pickEphemeral offset (pureTest f) tt = (tt, PickNone) <->
    forall p, 16000 <= p <= 65535 -> f p = (false, None).
  Proof.
    unfold pickEphemeral, pickEphemeralWith. rewrite (pickLoop_none unit E _ _ _ pure_reject_keeps), count_nat.
    split.
    - intros [_ H] p Hp. destruct (probePort_surj offset p Hoff Hp) as (i & Hi & <-).
      apply (pure_rejects probePort tt i). apply H. lia.
    - intros H. split; [reflexivity|]. intros j Hj. apply pure_rejects. apply H. apply probePort_range; [exact Hoff|lia].
  Qed.

  Lemma ephemeral_ok_pure p :
    pickEphemeral offset (pureTest f) tt = (tt, PickOk p) <->
    exists j, 0 <= j < count /\ p = probePort offset j /\ f p = (true, None) /\
              forall k, 0 <= k < j -> f (probePort offset k) = (false, None).
  Proof.
    unfold pickEphemeral, pickEphemeralWith. rewrite (pickLoop_ok unit E _ _ _ pure_reject_keeps), count_nat.
    split; intros (j & Hj & Hp & Ht & Hr); exists j; (split; [lia|]); (split; [exact Hp|]).
    - split; [unfold pureTest in Ht; inversion Ht; reflexivity|]. intros k Hk. apply (pure_rejects probePort tt k). apply Hr. lia.
    - split; [unfold pureTest; rewrite Ht; reflexivity|]. intros k Hk. apply pure_rejects. apply Hr. lia.
  Qed.

  Lemma ephemeral_in_range_and_accepted_pure p :
    pickEphemeral offset (pureTest f) tt = (tt, PickOk p) -> 16000 <= p <= 65535 /\ f p = (true, None).
  Proof.
    intros H. apply ephemeral_ok_pure in H as (j & Hj & -> & Ht & _). split; [|exact Ht].
    apply probePort_range; [exact Hoff|exact Hj].
  Qed.

  (* an error of the tester is returned as is, exactly when it is the first non-"no" answer in
     probe order *)
  Lemma ephemeral_err_pure e :
    pickEphemeral offset (pureTest f) tt = (tt, PickErr e) <->
    exists j, 0 <= j < count /\ snd (f (probePort offset j)) = Some e /\
              forall k, 0 <= k < j -> f (probePort offset k) = (false, None).
  Proof.
    unfold pickEphemeral, pickEphemeralWith. rewrite (pickLoop_err unit E _ _ _ pure_reject_keeps), count_nat.
    split.
    - intros (j & b & Hj & Ht & Hr). exists j. split; [lia|]. unfold pureTest in Ht. inversion Ht as [Hf]. rewrite Hf.
      split; [reflexivity|]. intros k Hk. apply (pure_rejects probePort tt k). apply Hr. lia.
    - intros (j & Hj & He & Hr). destruct (f (probePort offset j)) as [b oe] eqn:Fj. cbn in He. subst oe.
      exists j, b. split; [lia|]. split; [unfold pureTest; rewrite Fj; reflexivity|].
      intros k Hk. apply pure_rejects. apply Hr. lia.
  Qed.

  (* if some port of the range is acceptable and the tester never errs, a port is returned *)
  Lemma ephemeral_finds_pure :
    (forall p, snd (f p) = None) -> (exists p, 16000 <= p <= 65535 /\ f p = (true, None)) ->
    exists p, pickEphemeral offset (pureTest f) tt = (tt, PickOk p).
  Proof.
    intros Hne (p & Hp & Hf).
    destruct (pickEphemeral offset (pureTest f) tt) as [[] [q|e|]] eqn:R.
    - exists q. reflexivity.
    - apply ephemeral_err_pure in R as (j & _ & He & _). rewrite Hne in He. discriminate.
    - rewrite ephemeral_complete_pure in R. rewrite (R p Hp) in Hf. discriminate.
  Qed.
End PurePick.

(* the arithmetic before the repair (sum formed in 16 bits) is NOT complete: from offset 49535 the
   search never asks about port 49535 *)
Lemma ephemeral16_complete_refuted :
  exists offset p, 0 <= offset < count /\ 16000 <= p <= 65535 /\
    pickEphemeral16 offset (pureTest (fun x => (x =? p, @None Z))) tt = (tt, PickNone).
Proof.
  exists 49535, 49535. split; [unfold count; lia|]. split; [lia|]. vm_compute. reflexivity.
Qed.

(* ------------------------------------------------------------------ ReservePort *)
Lemma reserveTester_reject_keeps nets tr addr :
  forall t p t', reserveTester nets tr addr t p = (t', (false, None)) -> t' = t.
Proof.
  intros t p t'. unfold reserveTester, reserveSpecificPort.
  destruct (isPortAvailableLocked t nets tr addr p); cbn; intros H; inversion H; reflexivity.
Qed.
Lemma reserveTester_no_err nets tr addr t p t' b e : reserveTester nets tr addr t p <> (t', (b, Some e)).
Proof.
  unfold reserveTester. destruct (reserveSpecificPort t nets tr addr p). intros H. inversion H.
Qed.
Lemma reserveTester_ok nets tr addr t p t' :
  reserveTester nets tr addr t p = (t', (true, None)) <->
  isPortAvailableLocked t nets tr addr p = true /\ t' = reserveInsert t nets tr addr p.
Proof.
  unfold reserveTester, reserveSpecificPort.
  destruct (isPortAvailableLocked t nets tr addr p); cbn; split.
  - intros H. inversion H. tauto.
  - intros [_ ->]. reflexivity.
  - intros H. inversion H.
  - intros [H _]. discriminate.
Qed.
Lemma reserveTester_rejects probe offset nets tr addr t k :
  rejects table Z probe (reserveTester nets tr addr) offset t k <->
  isPortAvailableLocked t nets tr addr (probe offset k) = false.
Proof.
  unfold rejects, reserveTester, reserveSpecificPort.
  destruct (isPortAvailableLocked t nets tr addr (probe offset k)); cbn; split; intros H; try reflexivity; inversion H.
Qed.

Lemma reserveSpecific_spec t nets tr addr port :
  reserveSpecificPort t nets tr addr port =
  if isPortAvailableLocked t nets tr addr port then (reserveInsert t nets tr addr port, true) else (t, false).
Proof. unfold reserveSpecificPort. destruct (isPortAvailableLocked t nets tr addr port); reflexivity. Qed.

(* what any call of ReservePort does (any probe sequence, any offset): either it grants a port
   that was available and inserts it, or it changes nothing *)
Lemma reservePortWith_cases probe t nets tr addr port off t' p e :
  reservePortWith probe t nets tr addr port off = (t', (p, e)) ->
  (e = errNone /\ (port <> 0 -> p = port) /\
   isPortAvailableLocked t nets tr addr p = true /\ t' = reserveInsert t nets tr addr p)
  \/ (e <> errNone /\ t' = t /\ p = 0 /\ (port <> 0 -> e = errPortInUse)).
Proof.
  unfold reservePortWith. destruct (Z.eqb_spec port 0) as [->|Hp]; cbn [negb].
  - unfold pickEphemeralWith.
    destruct (pickLoop probe (reserveTester nets tr addr) off (Z.to_nat count) 0 t) as [t1 [q|e1|]] eqn:L; intros H; inversion H; subst.
    + left. apply (pickLoop_ok table Z _ _ _ (reserveTester_reject_keeps nets tr addr)) in L as (j & _ & _ & Ht & _).
      apply reserveTester_ok in Ht. split; [reflexivity|]. split; [intros X; contradiction|exact Ht].
    + exfalso. apply pickLoop_err_gen in L as (j & s1 & b & _ & Ht). apply (reserveTester_no_err _ _ _ _ _ _ _ _ Ht).
    + right. apply (pickLoop_none table Z _ _ _ (reserveTester_reject_keeps nets tr addr)) in L as [-> _].
      split; [discriminate|]. split; [reflexivity|]. split; [reflexivity|intros X; contradiction].
  - rewrite reserveSpecific_spec. destruct (isPortAvailableLocked t nets tr addr port) eqn:A; intros H; inversion H; subst.
    + left. split; [reflexivity|]. split; [reflexivity|]. split; [exact A|reflexivity].
    + right. split; [discriminate|]. split; [reflexivity|]. split; reflexivity.
Qed.

(* a specific port is granted exactly when it is available *)
Lemma reservePort_specific_iff t nets tr addr port off :
  port <> 0 ->
  (snd (snd (reservePort t nets tr addr port off)) = errNone <-> isPortAvailableLocked t nets tr addr port = true).
Proof.
  intros Hp. unfold reservePort, reservePortWith. apply Z.eqb_neq in Hp. rewrite Hp. cbn [negb].
  rewrite reserveSpecific_spec. destruct (isPortAvailableLocked t nets tr addr port); cbn [snd]; unfold errNone, errPortInUse;
    split; intros H; try reflexivity; discriminate.
Qed.

(* ephemeral request: the port returned is in [16000, 65535] and was available; the request fails
   only with ErrNoPortAvailable, only when NO port of the range is available, and then changes nothing *)
Lemma reservePort_ephemeral_spec t nets tr addr off t' p e :
  0 <= off < count ->
  reservePort t nets tr addr 0 off = (t', (p, e)) ->
  (e = errNone /\ 16000 <= p <= 65535 /\ isPortAvailableLocked t nets tr addr p = true /\
   t' = reserveInsert t nets tr addr p)
  \/ (e = errNoPortAvailable /\ p = 0 /\ t' = t /\
      forall q, 16000 <= q <= 65535 -> isPortAvailableLocked t nets tr addr q = false).
Proof.
  intros Ho. unfold reservePort, reservePortWith. cbn [Z.eqb negb]. unfold pickEphemeralWith.
  destruct (pickLoop probePort (reserveTester nets tr addr) off (Z.to_nat count) 0 t) as [t1 [q|e1|]] eqn:L; intros H; inversion H; subst.
  - left. apply (pickLoop_ok table Z _ _ _ (reserveTester_reject_keeps nets tr addr)) in L as (j & Hj & -> & Ht & _).
    rewrite count_nat in Hj. apply reserveTester_ok in Ht. split; [reflexivity|]. split; [apply probePort_range; [exact Ho|lia]|exact Ht].
  - exfalso. apply pickLoop_err_gen in L as (j & s1 & b & _ & Ht). apply (reserveTester_no_err _ _ _ _ _ _ _ _ Ht).
  - right. apply (pickLoop_none table Z _ _ _ (reserveTester_reject_keeps nets tr addr)) in L as [-> Hr].
    rewrite count_nat in Hr. split; [reflexivity|]. split; [reflexivity|]. split; [reflexivity|].
    intros q Hq. destruct (probePort_surj off q Ho Hq) as (i & Hi & <-).
    apply (reserveTester_rejects probePort off nets tr addr _ i). apply Hr. lia.
Qed.

(* conversely: if some port of the range is available the ephemeral request succeeds *)
Lemma reservePort_ephemeral_succeeds t nets tr addr off q :
  0 <= off < count -> 16000 <= q <= 65535 -> isPortAvailableLocked t nets tr addr q = true ->
  snd (snd (reservePort t nets tr addr 0 off)) = errNone.
Proof.
  intros Ho Hq Ha. destruct (reservePort t nets tr addr 0 off) as [t' [p e]] eqn:R.
  destruct (reservePort_ephemeral_spec _ _ _ _ _ _ _ _ Ho R) as [(-> & _)|(_ & _ & _ & Hall)]; [reflexivity|].
  rewrite (Hall q Hq) in Ha. discriminate.
Qed.

(* ------------------------------------------------------------------ histories *)
Definition Inv (st : hstate) : Prop := Rep (fst st) (snd st) /\ wf (fst st) /\ exclusive (snd st).

Lemma Inv_init : Inv (emptyTable, []).
Proof. split; [exact Rep_empty|]. split; [exact wf_empty|exact I]. Qed.

Lemma Inv_step st o : Inv st -> Inv (step st o).
Proof.
  destruct st as [t live]. intros (HR & HW & HX). cbn [fst snd] in *. destruct o as [nets tr addr port off|nets tr addr port|nets tr addr port]; cbn [step].
  - destruct (reservePort t nets tr addr port off) as [t' [p e]] eqn:R. unfold reservePort in R.
    apply reservePortWith_cases in R as [(-> & _ & Ha & ->)|(He & -> & _)].
    + cbn [Z.eqb errNone]. split; [|split]; cbn [fst snd].
      * apply Rep_reserve. exact HR.
      * apply wf_reserveInsert. exact HW.
      * cbn [exclusive]. split; [|exact HX]. apply free_of_spec. rewrite <- (avail_free_of t live) by exact HR. exact Ha.
    + apply Z.eqb_neq in He. rewrite He. split; [exact HR|]. split; [exact HW|exact HX].
  - split; [|split]; cbn [fst snd].
    + apply Rep_release. exact HR.
    + apply wf_releasePort. exact HW.
    + apply exclusive_release. exact HX.
  - split; [exact HR|]. split; [exact HW|exact HX].
Qed.

Lemma fold_left_inv {A B} (P : A -> Prop) (f : A -> B -> A) :
  (forall a b, P a -> P (f a b)) -> forall l a, P a -> P (fold_left f l a).
Proof. intros Hf l. induction l as [|b l IH]; intros a Ha; cbn [fold_left]; [exact Ha|]. apply IH, Hf, Ha. Qed.

Lemma Inv_run ops : Inv (run ops).
Proof. unfold run. apply fold_left_inv; [intros a b; apply Inv_step|exact Inv_init]. Qed.

(* in every reachable state the reservations granted by the code and not released since are
   pairwise non-conflicting *)
Lemma reservations_exclusive ops : exclusive (snd (run ops)).
Proof. apply Inv_run. Qed.

(* refinement: the table represents exactly the live reservations, and keeps no empty descriptor *)
Lemma run_refines ops :
  (forall n tr port a, bound (fst (run ops)) (n, tr, port) a = true <->
     exists r, In r (snd (run ops)) /\ In n (r_nets r) /\ r_tr r = tr /\ r_port r = port /\ r_addr r = a)
  /\ wf (fst (run ops)).
Proof.
  destruct (Inv_run ops) as (HR & HW & _). split; [|exact HW]. intros n tr port a. rewrite HR. unfold covers.
  rewrite existsb_exists. split; intros (r & Hr & Hh); exists r; (split; [exact Hr|]); apply holds_spec; exact Hh.
Qed.

(* in every reachable state: a specific reserve succeeds iff it conflicts with no live reservation;
   the availability query answers the same question *)
Lemma reserve_ok_iff ops nets tr addr port :
  (snd (reserveSpecificPort (fst (run ops)) nets tr addr port) = true <->
   forall q, In q (snd (run ops)) -> ~ conflict (Resv nets tr addr port) q)
  /\ (isPortAvailable (fst (run ops)) nets tr addr port = true <->
   forall q, In q (snd (run ops)) -> ~ conflict (Resv nets tr addr port) q)
  /\ (port <> 0 -> forall off,
      snd (snd (reservePort (fst (run ops)) nets tr addr port off)) = errNone <->
      forall q, In q (snd (run ops)) -> ~ conflict (Resv nets tr addr port) q).
Proof.
  destruct (Inv_run ops) as (HR & _ & _).
  assert (K : (forall q, In q (snd (run ops)) -> ~ conflict (Resv nets tr addr port) q) <->
              isPortAvailableLocked (fst (run ops)) nets tr addr port = true).
  { rewrite <- free_of_spec, <- (avail_free_of _ _ nets tr addr port HR). tauto. }
  split; [|split].
  - rewrite K, reserveSpecific_spec. destruct (isPortAvailableLocked (fst (run ops)) nets tr addr port); cbn; tauto.
  - rewrite K. unfold isPortAvailable. tauto.
  - intros Hp off. rewrite K. apply reservePort_specific_iff. exact Hp.
Qed.

(* ephemeral request in a reachable state, in terms of the live reservations *)
Lemma reserve_ephemeral_history ops nets tr addr off t' p e :
  0 <= off < count ->
  reservePort (fst (run ops)) nets tr addr 0 off = (t', (p, e)) ->
  (e = errNone /\ 16000 <= p <= 65535 /\ (forall q, In q (snd (run ops)) -> ~ conflict (Resv nets tr addr p) q))
  \/ (e = errNoPortAvailable /\ p = 0 /\ t' = fst (run ops) /\
      forall x, 16000 <= x <= 65535 -> exists q, In q (snd (run ops)) /\ conflict (Resv nets tr addr x) q).
Proof.
  intros Ho R. destruct (Inv_run ops) as (HR & _ & _).
  apply (reservePort_ephemeral_spec _ _ _ _ _ _ _ _ Ho) in R as [(-> & Hp & Ha & _)|(-> & -> & -> & Hall)].
  - left. split; [reflexivity|]. split; [exact Hp|]. apply free_of_spec. rewrite <- (avail_free_of _ _ _ _ _ _ HR). exact Ha.
  - right. split; [reflexivity|]. split; [reflexivity|]. split; [reflexivity|]. intros x Hx.
    specialize (Hall x Hx). rewrite (avail_free_of _ _ _ _ _ _ HR) in Hall. unfold free_of in Hall.
    destruct (forallb_forall (fun q => negb (conflictb (Resv nets tr addr x) q)) (snd (run ops))) as [_ Hb].
    destruct (existsb (conflictb (Resv nets tr addr x)) (snd (run ops))) eqn:Ex.
    + apply existsb_exists in Ex as (q & Hq & Hc). exists q. split; [exact Hq|exact Hc].
    + rewrite Hb in Hall; [discriminate|]. intros q Hq. apply negb_true_iff.
      destruct (conflictb (Resv nets tr addr x) q) eqn:C; [|reflexivity].
      assert (existsb (conflictb (Resv nets tr addr x)) (snd (run ops)) = true) by (apply existsb_exists; exists q; tauto). congruence.
Qed.

(* ------------------------------------------------------------------ release restores *)
Lemma release_restores t nets tr addr port t' :
  wf t -> reserveSpecificPort t nets tr addr port = (t', true) ->
  let t'' := releasePort t' nets tr addr port in
  teq t'' t /\ (forall d, lookup t'' d = None <-> lookup t d = None) /\
  (forall nets' tr' addr' port',
     isPortAvailableLocked t'' nets' tr' addr' port' = isPortAvailableLocked t nets' tr' addr' port') /\
  isPortAvailableLocked t'' nets tr addr port = true.
Proof.
  intros HW. rewrite reserveSpecific_spec. destruct (isPortAvailableLocked t nets tr addr port) eqn:A; intros H; inversion H; subst t'.
  cbn zeta. pose proof (release_after_reserve_teq t nets tr addr port A) as Heq.
  split; [exact Heq|]. split; [|split].
  - apply teq_present; [apply wf_releasePort, wf_reserveInsert, HW|exact HW|exact Heq].
  - intros. apply teq_avail. exact Heq.
  - rewrite (teq_avail _ t) by exact Heq. exact A.
Qed.

(* releasing affects nothing else: every binding other than the named address at the named
   descriptors is untouched, nothing is ever added, and the availability of every tuple that does
   not conflict with the released one is unchanged *)
Lemma release_affects_nothing_else t nets tr addr port :
  (forall d a, a <> addr \/ names nets tr port d = false ->
     bound (releasePort t nets tr addr port) d a = bound t d a)
  /\ (forall d a, bound (releasePort t nets tr addr port) d a = true -> bound t d a = true)
  /\ (forall nets' tr' addr' port',
        ~ conflict (Resv nets' tr' addr' port') (Resv nets tr addr port) ->
        isPortAvailableLocked (releasePort t nets tr addr port) nets' tr' addr' port'
        = isPortAvailableLocked t nets' tr' addr' port').
Proof.
  split; [intros d a; apply release_frame|]. split; [intros d a; apply release_only_shrinks|].
  intros nets' tr' addr' port' Hc. apply release_avail_frame. unfold conflict in Hc.
  destruct (conflictb (Resv nets' tr' addr' port') (Resv nets tr addr port)); [exfalso; apply Hc; reflexivity|reflexivity].
Qed.

(* ------------------------------------------------------------------ the API contract: release what you hold *)
Lemma exclusive_pair live a b : exclusive live -> In a live -> In b live -> a <> b -> ~ conflict a b.
Proof.
  induction live as [|r l IH]; cbn [exclusive In]; [tauto|].
  intros [H1 H2] [Ha|Ha] [Hb|Hb] Hne.
  - congruence.
  - subst r. apply (H1 b Hb).
  - subst r. intros Hc. apply (H1 a Ha). unfold conflict in *. rewrite conflictb_sym. exact Hc.
  - apply (IH H2 Ha Hb Hne).
Qed.

Lemma filter_none {A} (f : A -> bool) l : (forall x, In x l -> f x = false) -> filter f l = [].
Proof.
  induction l as [|x l IH]; intros H; cbn [filter]; [reflexivity|].
  rewrite (H x (or_introl eq_refl)). apply IH. intros y Hy. apply H. right. exact Hy.
Qed.
Lemma filter_all {A} (f : A -> bool) l : (forall x, In x l -> f x = true) -> filter f l = l.
Proof.
  induction l as [|x l IH]; intros H; cbn [filter]; [reflexivity|].
  rewrite (H x (or_introl eq_refl)). f_equal. apply IH. intros y Hy. apply H. right. exact Hy.
Qed.

Lemma shrink_self r : r_nets (shrink r r) = [].
Proof.
  unfold shrink. assert (K : same_key r r = true) by (apply same_key_spec; tauto). rewrite K. cbn [r_nets].
  apply filter_none. intros n Hn. apply negb_false_iff, inZ_In. exact Hn.
Qed.
Lemma shrink_nonconflicting rel q : ~ conflict q rel -> shrink rel q = q.
Proof.
  intros Hnc. unfold shrink. destruct (same_key rel q) eqn:K; [|reflexivity].
  apply same_key_spec in K as (K1 & K2 & K3).
  rewrite filter_all; [destruct q; reflexivity|].
  intros n Hn. apply negb_true_iff. destruct (inZ n (r_nets rel)) eqn:E; [|reflexivity].
  exfalso. apply Hnc. apply conflictb_spec. repeat split; [congruence|congruence|exists n; split; [exact Hn|apply inZ_In; exact E]|].
  rewrite K2. apply addr_clash_refl.
Qed.

Lemma resv_eq_dec_aux (a b : resv) : {a = b} + {a <> b}.
Proof. decide equality; try apply Z.eq_dec. apply (list_eq_dec Z.eq_dec). Qed.

(* when a release names exactly a live reservation (the contract of the API), exactly that
   reservation leaves the live set *)
Lemma live_release_exact live r :
  exclusive live -> In r live -> r_nets r <> [] ->
  forall q, In q (live_release live r) <-> (In q live /\ q <> r /\ r_nets q <> []).
Proof.
  intros HX Hr Hne q. unfold live_release. rewrite filter_In, in_map_iff. unfold has_net. rewrite negb_true_iff.
  split.
  - intros ((q0 & <- & Hq0) & Hn). destruct (resv_eq_dec_aux q0 r) as [->|Hd].
    + rewrite shrink_self in Hn. discriminate.
    + rewrite (shrink_nonconflicting r q0) in * by (apply (exclusive_pair live); assumption).
      split; [exact Hq0|]. split; [exact Hd|]. intros E. rewrite E in Hn. discriminate.
  - intros (Hq & Hd & Hn). split.
    + exists q. split; [|exact Hq]. apply shrink_nonconflicting. apply (exclusive_pair live); assumption.
    + destruct (r_nets q); [contradiction|reflexivity].
Qed.

(* ------------------------------------------------------------------ arbitrary (state-changing) testers *)
Lemma ephemeral_complete_gen {St E} (test : St -> Z -> St * (bool * option E)) offset s s' :
  0 <= offset < count ->
  pickEphemeral offset test s = (s', PickNone) ->
  forall p, 16000 <= p <= 65535 -> exists s1 s2, test s1 p = (s2, (false, None)).
Proof.
  intros Ho H p Hp. destruct (probePort_surj offset p Ho Hp) as (i & Hi & <-).
  apply (pickLoop_none_gen St E probePort test offset _ _ _ _ H). rewrite count_nat. lia.
Qed.
Lemma ephemeral_in_range_and_accepted_gen {St E} (test : St -> Z -> St * (bool * option E)) offset s s' p :
  0 <= offset < count ->
  pickEphemeral offset test s = (s', PickOk p) ->
  16000 <= p <= 65535 /\ exists s1, test s1 p = (s', (true, None)).
Proof.
  intros Ho H. apply pickLoop_ok_gen in H as (j & s1 & Hj & -> & Ht). rewrite count_nat in Hj.
  split; [apply probePort_range; [exact Ho|lia]|exists s1; exact Ht].
Qed.
Lemma ephemeral_error_gen {St E} (test : St -> Z -> St * (bool * option E)) offset s s' e :
  pickEphemeral offset test s = (s', PickErr e) ->
  exists p s1 b, test s1 p = (s', (b, Some e)).
Proof.
  intros H. apply pickLoop_err_gen in H as (j & s1 & b & _ & Ht). exists (probePort offset j), s1, b. exact Ht.
Qed.

(* ------------------------------------------------------------------ examples: the hypotheses are satisfiable *)
Definition ex_ops : list op :=
  [OReserve [4; 6] 6 1 80 0; OReserve [4] 6 2 80 0; OReserve [4] 17 0 53 0;
   OReserve [4; 6] 6 0 0 49535; OReserve [6] 6 0 80 0 (* refused: wildcard against address 1 *);
   OReserve [4] 6 0 0 49535 (* 65535 taken: wraps to 16000 *)].
Example ex_run_live :
  snd (run ex_ops) = [Resv [4] 6 0 16000; Resv [4; 6] 6 0 65535; Resv [4] 17 0 53; Resv [4] 6 2 80; Resv [4; 6] 6 1 80].
Proof. vm_compute. reflexivity. Qed.
(* a release that honours the contract (names a live reservation) in a non-trivial state *)
Example ex_contract :
  In (Resv [4; 6] 6 1 80) (snd (run ex_ops)) /\
  snd (run (ex_ops ++ [ORelease [4; 6] 6 1 80])) = [Resv [4] 6 0 16000; Resv [4; 6] 6 0 65535; Resv [4] 17 0 53; Resv [4] 6 2 80].
Proof. split; [rewrite ex_run_live; cbn; tauto|vm_compute; reflexivity]. Qed.
(* a partial release (one of the two networks) leaves the other network reserved *)
Example ex_partial_release :
  snd (run (ex_ops ++ [ORelease [6] 6 1 80])) = [Resv [4] 6 0 16000; Resv [4; 6] 6 0 65535; Resv [4] 17 0 53; Resv [4] 6 2 80; Resv [4] 6 1 80]
  /\ isPortAvailable (fst (run (ex_ops ++ [ORelease [6] 6 1 80]))) [6] 6 0 80 = true
  /\ isPortAvailable (fst (run (ex_ops ++ [ORelease [6] 6 1 80]))) [4] 6 1 80 = false.
Proof. vm_compute. repeat split; reflexivity. Qed.
(* release_restores applies to a non-empty well-formed table *)
Example ex_release_restores_applicable :
  wf (fst (run ex_ops)) /\ fst (run ex_ops) <> [] /\ snd (reserveSpecificPort (fst (run ex_ops)) [4; 6] 6 3 80) = true.
Proof. split; [apply run_refines|]. split; [vm_compute; discriminate|vm_compute; reflexivity]. Qed.
(* a tester accepting exactly one port: found from every... e.g. offset 49535, port 49535 (the
   pair the 16-bit arithmetic misses) *)
Example ex_fixed_finds : pickEphemeral 49535 (pureTest (fun x => (x =? 49535, @None Z))) tt = (tt, PickOk 49535).
Proof. vm_compute. reflexivity. Qed.

(* ------------------------------------------------------------------ a fast evaluator for the search (used by Corr/C10.v)
   vm_compute of a full 49536-step scan with the wrap-arounds written as [mod] costs seconds; the
   closed form of the probe sequence is proved equal on the whole range of the loop, so the
   correspondence check may run the loop with it. *)
Definition fastProbe (offset i : Z) : Z :=
  let s := offset + i in firstEphemeral + (if s <? count then s else s - count).

Lemma fastProbe_eq off i : 0 <= off < count -> 0 <= i < count -> fastProbe off i = probePort off i.
Proof.
  intros Ho Hi. rewrite probePort_closed by assumption. unfold fastProbe. cbv zeta.
  unfold firstEphemeral, count in *. destruct (Z.ltb_spec (off + i) 49536) as [L|L].
  - rewrite Z.mod_small by lia. reflexivity.
  - f_equal. apply (Zmod_unique (off + i) 49536 1); lia.
Qed.

Lemma pickLoop_ext {St E} probe1 probe2 (test : St -> Z -> St * (bool * option E)) off n i s :
  (forall k, i <= k < i + Z.of_nat n -> probe1 off k = probe2 off k) ->
  pickLoop probe1 test off n i s = pickLoop probe2 test off n i s.
Proof.
  revert i s. induction n as [|n IH]; intros i s H; [reflexivity|].
  cbn [pickLoop]. rewrite (H i) by lia. destruct (test s (probe2 off i)) as [s1 [ok [e|]]]; [reflexivity|].
  destruct ok; [reflexivity|]. apply IH. intros k Hk. apply H. lia.
Qed.

Definition pickEphemeralFast {St E} (offset : Z) (test : St -> Z -> St * (bool * option E)) (s : St) :=
  if (0 <=? offset) && (offset <? count) then pickEphemeralWith fastProbe offset test s
  else pickEphemeral offset test s.

Lemma pickEphemeralFast_eq {St E} offset (test : St -> Z -> St * (bool * option E)) s :
  pickEphemeralFast offset test s = pickEphemeral offset test s.
Proof.
  unfold pickEphemeralFast. destruct ((0 <=? offset) && (offset <? count)) eqn:R; [|reflexivity].
  unfold pickEphemeral, pickEphemeralWith. apply pickLoop_ext. rewrite count_nat. intros k Hk.
  apply fastProbe_eq; lia.
Qed.
