(* C04, auxiliary: Go container/heap (Model/GoHeap.v) keeps the multiset of elements. *)
From Coq Require Import ZArith List Bool Lia Arith.
From NP Require Import Model.GoHeap.
Import ListNotations.
Open Scope Z_scope.

(* ------------------------------------------------------------------ container/heap keeps the multiset:
   any additive measure of the elements is preserved by Push/Pop, and Pop returns the root *)
Section HeapSum.
  Context {A : Type} (less : A -> A -> bool) (f : A -> Z).

  Fixpoint sumf (l : list A) : Z := match l with [] => 0 | x :: r => f x + sumf r end.

  Lemma sumf_app (l1 l2 : list A) : sumf (l1 ++ l2) = sumf l1 + sumf l2.
  Proof. induction l1 as [|x r IH]; cbn [sumf app]; [reflexivity|rewrite IH; lia]. Qed.

  Lemma sumf_set_nth (l : list A) : forall i x y, nth_error l i = Some y -> sumf (set_nth l i x) = sumf l - f y + f x.
  Proof.
    induction l as [|h r IH]; intros [|i] x y H; cbn in *; try discriminate.
    - inversion H; subst. lia.
    - rewrite (IH i x y H). lia.
  Qed.

  Lemma nth_set_nth_same (l : list A) : forall i x y, nth_error l i = Some y -> nth_error (set_nth l i x) i = Some x.
  Proof. induction l as [|h r IH]; intros [|i] x y H; cbn in *; try discriminate; [reflexivity|eapply IH; eassumption]. Qed.

  Lemma nth_set_nth_other (l : list A) : forall i j x, i <> j -> nth_error (set_nth l i x) j = nth_error l j.
  Proof.
    induction l as [|h r IH]; intros [|i] [|j] x H; cbn; try reflexivity; try congruence.
    apply IH. congruence.
  Qed.

  Lemma length_set_nth (l : list A) : forall i x, length (set_nth l i x) = length l.
  Proof. induction l as [|h r IH]; intros [|i] x; cbn; try reflexivity. rewrite IH. reflexivity. Qed.

  Lemma sumf_swap (l : list A) i j : sumf (swap l i j) = sumf l.
  Proof.
    unfold swap. destruct (nth_error l i) as [a|] eqn:Ha; [|reflexivity].
    destruct (nth_error l j) as [b|] eqn:Hb; [|reflexivity].
    destruct (Nat.eq_dec i j) as [->|Hne].
    - rewrite Ha in Hb. inversion Hb; subst b.
      rewrite (sumf_set_nth _ j a a); [|eapply nth_set_nth_same; eassumption].
      rewrite (sumf_set_nth l j a a Ha). lia.
    - rewrite (sumf_set_nth _ j a b); [|rewrite nth_set_nth_other by exact Hne; exact Hb].
      rewrite (sumf_set_nth l i b a Ha). lia.
  Qed.

  Lemma length_swap (l : list A) i j : length (swap l i j) = length l.
  Proof.
    unfold swap. destruct (nth_error l i); [|reflexivity]. destruct (nth_error l j); [|reflexivity].
    rewrite !length_set_nth. reflexivity.
  Qed.

  Lemma nth_swap_other (l : list A) i j m : m <> i -> m <> j -> nth_error (swap l i j) m = nth_error l m.
  Proof.
    intros H1 H2. unfold swap. destruct (nth_error l i); [|reflexivity]. destruct (nth_error l j); [|reflexivity].
    rewrite !nth_set_nth_other by congruence. reflexivity.
  Qed.

  Lemma nth_swap_l (l : list A) i j a b : nth_error l i = Some a -> nth_error l j = Some b ->
    nth_error (swap l i j) j = Some a.
  Proof.
    intros Ha Hb. unfold swap. rewrite Ha, Hb.
    destruct (Nat.eq_dec i j) as [->|Hne].
    - eapply nth_set_nth_same. eapply nth_set_nth_same. exact Ha.
    - eapply nth_set_nth_same. rewrite nth_set_nth_other by exact Hne. exact Hb.
  Qed.

  Lemma sumf_up fuel : forall l j, sumf (up less fuel l j) = sumf l.
  Proof.
    induction fuel as [|fuel IH]; intros l j; cbn [up]; [reflexivity|].
    destruct j; [reflexivity|]. destruct (lessAt less l _ _); [|reflexivity].
    rewrite IH. apply sumf_swap.
  Qed.

  Lemma sumf_down fuel : forall l i n, sumf (down less fuel l i n) = sumf l.
  Proof.
    induction fuel as [|fuel IH]; intros l i n; cbn [down]; [reflexivity|].
    destruct (Nat.leb n _); [reflexivity|]. cbv zeta.
    destruct (lessAt less l _ i); [|reflexivity]. rewrite IH. apply sumf_swap.
  Qed.

  Lemma length_down fuel : forall l i n, length (down less fuel l i n) = length l.
  Proof.
    induction fuel as [|fuel IH]; intros l i n; cbn [down]; [reflexivity|].
    destruct (Nat.leb n _); [reflexivity|]. cbv zeta.
    destruct (lessAt less l _ i); [|reflexivity]. rewrite IH. apply length_swap.
  Qed.

  (* down never touches positions >= n *)
  Lemma nth_down_high fuel : forall l i n m, (i < n)%nat -> (n <= m)%nat ->
    nth_error (down less fuel l i n) m = nth_error l m.
  Proof.
    induction fuel as [|fuel IH]; intros l i n m Hi Hm; cbn [down]; [reflexivity|].
    destruct (Nat.leb n (2 * i + 1)) eqn:E1; [reflexivity|]. apply Nat.leb_gt in E1. cbv zeta.
    set (j := if (Nat.ltb (2 * i + 1 + 1) n && lessAt less l (2 * i + 1 + 1) (2 * i + 1))%bool
              then (2 * i + 1 + 1)%nat else (2 * i + 1)%nat).
    assert (Hj : (j < n)%nat).
    { subst j. destruct (Nat.ltb (2 * i + 1 + 1) n) eqn:E2; cbn [andb].
      - apply Nat.ltb_lt in E2. destruct (lessAt less l _ _); lia.
      - lia. }
    destruct (lessAt less l j i); [|reflexivity].
    rewrite IH by lia. apply nth_swap_other; lia.
  Qed.

  Lemma sumf_push (l : list A) x : sumf (push less l x) = sumf l + f x.
  Proof. unfold push. rewrite sumf_up, sumf_app. cbn [sumf]. lia. Qed.

  Lemma sumf_firstn_last (l : list A) n x : length l = S n -> nth_error l n = Some x -> sumf l = sumf (firstn n l) + f x.
  Proof.
    intros Hl Hx. rewrite <- (firstn_skipn n l) at 1. rewrite sumf_app.
    assert (skipn n l = [x]) as ->; [|cbn [sumf]; lia].
    clear -Hl Hx. revert l Hl Hx. induction n as [|n IH]; intros [|h r] Hl Hx; cbn in *; try discriminate.
    - destruct r; [|discriminate]. inversion Hx; reflexivity.
    - apply IH; [lia|exact Hx].
  Qed.

  (* Pop removes exactly the root *)
  Lemma pop_cons (a : A) r : pop less (a :: r) =
    let l := a :: r in let n := (length l - 1)%nat in
    let l2 := down less (length l) (swap l 0 n) 0 n in
    match nth_error l2 n with Some x => Some (firstn n l2, x) | None => None end.
  Proof. reflexivity. Qed.

  Lemma pop_spec (l : list A) h' x : pop less l = Some (h', x) ->
    hd_error l = Some x /\ sumf l = sumf h' + f x /\ length l = S (length h').
  Proof.
    destruct l as [|a [|b r']]; [discriminate| |].
    { cbn. intros H. inversion H; subst. cbn. repeat split. lia. }
    rewrite pop_cons. remember (a :: b :: r') as l eqn:El. cbv zeta.
    assert (Hlen : length l = S (S (length r'))) by (subst l; reflexivity).
    set (n := (length l - 1)%nat). assert (Hn : n = S (length r')) by (subst n; lia).
    set (l1 := swap l 0 n). set (l2 := down less (length l) l1 0 n).
    destruct (nth_error l2 n) as [y|] eqn:Ey; [|discriminate].
    intros H. inversion H; subst h' y. clear H.
    assert (L2 : length l2 = length l) by (subst l2 l1; rewrite length_down, length_swap; reflexivity).
    assert (Ha : nth_error l 0 = Some a) by (rewrite El; reflexivity).
    assert (Hx : x = a).
    { subst l2. rewrite nth_down_high in Ey by lia.
      assert (exists b, nth_error l n = Some b) as (b0 & Hb).
      { destruct (nth_error l n) eqn:E; [eexists; reflexivity|]. apply nth_error_None in E. lia. }
      subst l1. rewrite (nth_swap_l l 0 n a b0 Ha Hb) in Ey. inversion Ey; reflexivity. }
    subst x. split; [rewrite El; reflexivity|]. split.
    - rewrite <- (sumf_swap l 0 n). fold l1. rewrite <- (sumf_down (length l) l1 0 n). fold l2.
      apply sumf_firstn_last; [lia|exact Ey].
    - rewrite firstn_length. lia.
  Qed.
  Lemma pop_none (l : list A) : pop less l = None -> l = [].
  Proof.
    destruct l as [|a r]; [reflexivity|]. rewrite pop_cons. cbv zeta.
    set (l := a :: r). set (n := (length l - 1)%nat).
    destruct (nth_error _ n) eqn:E; [discriminate|]. intros _.
    apply nth_error_None in E. rewrite length_down, length_swap in E. subst n l. cbn [length] in E. lia.
  Qed.
End HeapSum.
