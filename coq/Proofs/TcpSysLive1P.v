(* Bounded-domain evaluation, connection 1 (see Proofs/TcpSysLiveBaseP.v, Proofs/TcpSysLiveP.v): every
   scenario of [scens cfg1] x every drop set of [dsets] (at most two frames, at least one of them a
   packet of the loss-free exchange), pumped on the model inside the kernel's VM (2 708 runs). *)
From Coq Require Import ZArith List Bool.
From NP Require Import Model.Seqnum Model.Tcp Model.TcpHs Model.TcpEst Proofs.TcpNetP Model.TcpSys Proofs.TcpSysLiveBaseP.
Import ListNotations.
Open Scope Z_scope.

Lemma all_runs_ok_cfg1 : forallb (fun b => forallb (run_ok cfg1 b) (dsets cfg1 b)) (scens cfg1) = true.
Proof. vm_cast_no_check (eq_refl true). Qed.
