(* C01, send direction: the sender functions (snd.go) preserve the write-list invariant of
   Proofs/TcpSndInvP.v and only emit good frames: ackLoop (cumulative and partial ack trimming),
   sendLoop/sendData (numbering, splitting at window/MSS), checkDuplicateAck + resendSegment
   (fast retransmit), rtoExpired (rewind), appWrite, appShutdownWrite. *)
From Coq Require Import ZArith List Bool Lia ZifyBool.
From RecordUpdate Require Import RecordSet.
From NP Require Import Model.Seqnum Model.GoHeap Model.Tcp Proofs.SeqnumP Proofs.TcpSndInvP.
Import ListNotations RecordSetNotations.
Open Scope Z_scope.

#[local] Arguments sendSegment : simpl never.
#[local] Arguments sendAck : simpl never.
#[local] Arguments sendLoop : simpl never.
#[local] Arguments sendData : simpl never.

(* ------------------------------------------------------------------ arithmetic *)

Lemma u32_small x : 0 <= x < 4294967296 -> u32 x = x.
Proof. intros H. unfold u32. apply Z.mod_small. consts. exact H. Qed.
Lemma seq_of_pred iss n : u32 (seq_of iss n - 1) = seq_of iss (n - 1).
Proof. unfold seq_of. word. Qed.
Lemma seq_of_succ iss n : u32 (seq_of iss n + 1) = seq_of iss (n + 1).
Proof. unfold seq_of. word. Qed.
Lemma seq_of_inj iss a b : - 2^32 < a - b < 2^32 -> seq_of iss a = seq_of iss b -> a = b.
Proof. unfold seq_of. word. Qed.
Lemma seq_of_u32 iss a : is_u32 (seq_of iss a).
Proof. unfold seq_of. word. Qed.
Lemma lessThan_size_pos v w : lessThan v w = true -> 1 <= size v w <= 2^31.
Proof. unfold lessThan. rewrite Z.leb_le. word. Qed.
(* an acceptable ack: (ack-1) in [sndUna, sndNxt) *)
Lemma ack_in_range iss a n ack :
  is_u32 ack -> 0 <= n - a < 2^31 ->
  inRange (u32 (ack - 1)) (seq_of iss a) (seq_of iss n) = true ->
  exists k, 1 <= k <= n - a /\ ack = seq_of iss (a + k) /\ size (seq_of iss a) ack = k.
Proof.
  intros Hu Hn H. exists (size (seq_of iss a) ack).
  unfold inRange in H. apply Z.ltb_lt in H. revert Hu Hn H. unfold seq_of. word.
Qed.
(* the range test of checkDuplicateAck: ack in [sndUna, sndNxt+1) *)
Lemma dupack_in_range iss a n ack :
  is_u32 ack -> 0 <= n - a < 2^31 ->
  inRange ack (seq_of iss a) (u32 (seq_of iss n + 1)) = true ->
  exists k, a <= k <= n /\ ack = seq_of iss k.
Proof.
  intros Hu Hn H. exists (a + size (seq_of iss a) ack).
  unfold inRange in H. apply Z.ltb_lt in H. revert Hu Hn H. unfold seq_of. word.
Qed.

Lemma wll_data sq d : len d < 4294967296 -> wlogicalLen (mkW sq fDATA d) = len d.
Proof.
  intros H. unfold wlogicalLen. cbn [w_data w_flags].
  change (has fDATA fSyn) with false. change (has fDATA fFin) with false. cbn match.
  rewrite !Z.add_0_r. apply u32_small. pose proof (len_nonneg d). lia.
Qed.
Lemma wll_fin sq : wlogicalLen (mkW sq fFINACK []) = 1.
Proof. reflexivity. Qed.

Lemma ackLoop_zero fuel s u r : ackLoop fuel s u 0 r = (s, u, r).
Proof. destruct fuel; reflexivity. Qed.

Section Snd.
Variable iss : Z.
Notation chain := (chain iss).
Notation InvC := (InvC iss).
Notation InvA := (InvA iss).
Notation Inv := (Inv iss).
Notation good_frame := (good_frame iss).
Notation Ext := (Ext iss).
Notation seq_of := (seq_of iss).

(* ------------------------------------------------------------------ ackLoop *)

Lemma bound_lt W : len W < BOUND -> len W < 2^32.
Proof. unfold BOUND. consts. change (2^30) with 1073741824. lia. Qed.
Ltac bnd := unfold BOUND in *; change (2^30) with 1073741824 in *; consts.
Lemma chain_hi1 W fin o l e : chain W fin o l e -> l <> [] -> e <= len W + 1.
Proof. intros H L. pose proof (chain_hi _ _ _ _ _ _ H L). unfold total in *. destruct fin; lia. Qed.
Lemma chain_hi2 W fin o l e : chain W fin o l e -> o <= len W + 1 -> e <= len W + 1.
Proof.
  intros H L. destruct l as [|x l]; [inversion H; subst; lia|].
  eapply chain_hi1; [exact H|congruence].
Qed.

(* second phase: acknowledged data removed from the numbered front of wunsent *)
Lemma ackLoop_unsent W fin a nu e :
  chain W fin a nu e -> len W < BOUND ->
  forall fuel fr k r, 0 <= k <= e - a -> (length nu < fuel)%nat ->
  exists nu' r', ackLoop fuel [] (nu ++ fr) k r = ([], nu' ++ fr, r') /\ chain W fin (a + k) nu' e.
Proof.
  intros H HB. pose proof (bound_lt W HB) as HB2.
  induction H as [o|o d rr e Hd Hs Hc IH|Hf]; intros fuel fr k r Hk Hfuel.
  - assert (k = 0) by lia. subst k. rewrite ackLoop_zero. exists [], r. rewrite Z.add_0_r.
    split; [reflexivity|apply ch_nil].
  - destruct (Z.eq_dec k 0) as [->|Hk0].
    { rewrite ackLoop_zero. eexists _, r. rewrite Z.add_0_r. split; [reflexivity|].
      apply ch_data; auto. }
    destruct fuel as [|f]; [cbn in Hfuel; lia|].
    pose proof (slice_bounds _ _ _ Hs) as Hsb. pose proof (chain_le _ _ _ _ _ _ Hc) as Hle.
    pose proof (len_nonneg d) as Hdn.
    assert (Hhi : e <= len W + 1).
    { apply (chain_hi1 W fin o (mkW (seq_of o) fDATA d :: rr) e); [apply ch_data; auto|congruence]. }
    bnd.
    cbn [ackLoop app]. replace (0 <? k) with true by lia. cbn [negb].
    rewrite wll_data by lia. cbn [w_seq w_flags w_data].
    destruct (k <? len d) eqn:Ek.
    + exists (mkW (seq_of (o + k)) fDATA (dropZ k d) :: rr), r. split.
      * rewrite seq_of_add. reflexivity.
      * apply ch_data; [apply dropZ_nonnil; lia|apply slice_drop; [exact Hs|lia]|].
        rewrite len_dropZ by lia. replace (o + k + (len d - k)) with (o + len d) by lia. exact Hc.
    + rewrite u32_small by lia.
      destruct (IH f fr (k - len d) (r + 1)) as (nu' & r' & E & C); [lia|cbn in Hfuel; lia|].
      exists nu', r'. split; [exact E|].
      replace (o + k) with (o + len d + (k - len d)) by lia. exact C.
  - destruct (Z.eq_dec k 0) as [->|Hk0].
    { rewrite ackLoop_zero. eexists _, r. rewrite Z.add_0_r. split; [reflexivity|].
      apply ch_fin; exact Hf. }
    assert (k = 1) by lia. subst k.
    destruct fuel as [|f]; [cbn in Hfuel; lia|].
    cbn [ackLoop app]. change (0 <? 1) with true. cbn [negb]. rewrite wll_fin.
    change (1 <? 1) with false. cbn match. change (u32 (1 - 1)) with 0. rewrite ackLoop_zero.
    exists [], (r + 1). split; [reflexivity|apply ch_nil].
Qed.

(* first phase: removal from wsent, continuing into wunsent *)
Lemma ackLoop_sent W fin a sent m :
  chain W fin a sent m -> len W < BOUND ->
  forall fuel nu fr k r e, chain W fin m nu e -> 0 <= k <= e - a ->
  (length sent + length nu < fuel)%nat ->
  exists sent' nu' r' m',
    ackLoop fuel sent (nu ++ fr) k r = (sent', nu' ++ fr, r') /\
    chain W fin (a + k) sent' m' /\ chain W fin m' nu' e /\ m' = Z.max m (a + k).
Proof.
  intros H HB. pose proof (bound_lt W HB) as HB2.
  induction H as [o|o d rr m Hd Hs Hc IH|Hf]; intros fuel nu fr k r e Hnu Hk Hfuel.
  - destruct (ackLoop_unsent W fin o nu e Hnu HB fuel fr k r Hk) as (nu' & r' & E & C);
      [cbn in Hfuel; lia|].
    exists [], nu', r', (o + k). repeat split; [exact E|apply ch_nil|exact C|lia].
  - pose proof (slice_bounds _ _ _ Hs) as Hsb. pose proof (chain_le _ _ _ _ _ _ Hc) as Hle.
    pose proof (len_nonneg d) as Hdn. pose proof (chain_le _ _ _ _ _ _ Hnu) as Hle2.
    assert (Hhi : m <= len W + 1).
    { apply (chain_hi1 W fin o (mkW (seq_of o) fDATA d :: rr) m); [apply ch_data; auto|congruence]. }
    pose proof (chain_hi2 _ _ _ _ _ Hnu Hhi) as Hhe. bnd.
    destruct (Z.eq_dec k 0) as [->|Hk0].
    { rewrite ackLoop_zero. eexists _, nu, r, m. rewrite Z.add_0_r.
      repeat split; [apply ch_data; auto|exact Hnu|lia]. }
    destruct fuel as [|f]; [cbn in Hfuel; lia|].
    cbn [ackLoop]. replace (0 <? k) with true by lia. cbn [negb].
    rewrite wll_data by lia. cbn [w_seq w_flags w_data].
    destruct (k <? len d) eqn:Ek.
    + exists (mkW (seq_of (o + k)) fDATA (dropZ k d) :: rr), nu, r, m. repeat split.
      * rewrite seq_of_add. reflexivity.
      * apply ch_data; [apply dropZ_nonnil; lia|apply slice_drop; [exact Hs|lia]|].
        rewrite len_dropZ by lia. replace (o + k + (len d - k)) with (o + len d) by lia. exact Hc.
      * exact Hnu.
      * lia.
    + rewrite u32_small by lia.
      destruct (IH f nu fr (k - len d) (r + 1) e Hnu) as (sent' & nu' & r' & m' & E & C1 & C2 & M);
        [lia|cbn in Hfuel; lia|].
      exists sent', nu', r', m'. repeat split; [exact E| |exact C2|lia].
      replace (o + k) with (o + len d + (k - len d)) by lia. exact C1.
  - pose proof (chain_le _ _ _ _ _ _ Hnu) as Hle.
    pose proof (chain_hi2 _ _ _ _ _ Hnu ltac:(lia)) as Hhe. pose proof (len_nonneg W) as HWn. bnd.
    destruct (Z.eq_dec k 0) as [->|Hk0].
    { rewrite ackLoop_zero. eexists _, nu, r, (len W + 1). rewrite Z.add_0_r.
      repeat split; [apply ch_fin; exact Hf|exact Hnu|lia]. }
    destruct fuel as [|f]; [cbn in Hfuel; lia|].
    cbn [ackLoop]. replace (0 <? k) with true by lia. cbn [negb]. rewrite wll_fin.
    replace (k <? 1) with false by lia. rewrite u32_small by lia.
    destruct (ackLoop_unsent W fin (len W + 1) nu e Hnu HB f fr (k - 1) (r + 1)) as (nu' & r' & E & C);
      [lia|cbn in Hfuel; lia|].
    exists [], nu', r', (len W + k). repeat split; [exact E|apply ch_nil| |lia].
    replace (len W + k) with (len W + 1 + (k - 1)) by lia. exact C.
Qed.

(* ------------------------------------------------------------------ updates of the sender record *)

Lemma InvA_upd W fin a n s s' :
  InvA W fin a n s ->
  sndUna s' = sndUna s -> sndNxt s' = sndNxt s -> sndNxtList s' = sndNxtList s ->
  wsent s' = wsent s -> wunsent s' = wunsent s -> maxPayload s' = maxPayload s ->
  (frLast s' = frLast s \/ frLast s' = u32 (sndNxt s - 1)) ->
  InvA W fin a n s'.
Proof.
  unfold InvA. intros H E1 E2 E3 E4 E5 E6 E7. rewrite E1, E2, E3, E4, E5, E6.
  destruct E7 as [->| ->]; [exact H|].
  destruct H as (m & e & fl & nu & fr & H1 & H2 & H3 & H4 & H5 & H6 & H7 & H8 & H9 & H10 & H11 & H12 & H13 & H14 & H15).
  exists m, e, (n - 1), nu, fr. rewrite H2 at 2. rewrite seq_of_pred.
  repeat split; auto; lia.
Qed.
Ltac upd H := eapply InvA_upd; [exact H|cbn; try reflexivity ..|cbn; auto].

Lemma Ext_pure W fin t t' : sndClosedE t' = sndClosedE t -> out t' = out t -> Ext W fin t t'.
Proof. intros E O. split; [exact E|]. exists []. rewrite app_nil_r. auto. Qed.

(* ------------------------------------------------------------------ sendLoop *)

(* set the sender record, emit one segment, move sndNxt forward if the segment ends beyond it *)
Definition emit (t : tcp) (s' : sndr) (data : list Z) (flags sq segEnd : Z) : tcp :=
  let t1 := t <| SN := s' |> in
  let t2 := sendSegment t1 data flags sq in
  if lessThan (sndNxt (SN t2)) segEnd then t2 <| SN := (SN t2) <| sndNxt := segEnd |> |> else t2.

Definition numbered (s : sndr) (w : wseg) : wseg :=
  if w_flags w =? 0 then mkW (sndNxt s) (Z.lor fAck fPsh) (w_data w) else w.

Lemma sendLoop_S f t endv limit :
  sendLoop (S f) t endv limit =
  let s := SN t in
  match wunsent s with
  | [] => t
  | w :: rest =>
      if negb (outstanding s <? cwnd s) then t else
      let w1 := numbered s w in
      if len (w_data w1) =? 0 then
        sendLoop f (emit t (s <| wsent := wsent s ++ [mkW (w_seq w1) (Z.lor fAck fFin) []] |> <| wunsent := rest |>)
                          [] (Z.lor fAck fFin) (w_seq w1) (add (w_seq w1) 1)) endv limit
      else if negb (lessThan (w_seq w1) endv) then t <| SN := s <| wunsent := w1 :: rest |> |>
      else
        let available0 := size (w_seq w1) endv in
        let available := if limit <? available0 then limit else available0 in
        let '(w2, rest') :=
          if available <? len (w_data w1) then
            (mkW (w_seq w1) (w_flags w1) (takeZ available (w_data w1)),
             mkW (add (w_seq w1) (u32 available)) (w_flags w1) (dropZ available (w_data w1)) :: rest)
          else (w1, rest) in
        sendLoop f (emit t (s <| outstanding := outstanding s + 1 |> <| wsent := wsent s ++ [w2] |> <| wunsent := rest' |>)
                          (w_data w2) (w_flags w2) (w_seq w2) (add (w_seq w2) (u32 (len (w_data w2))))) endv limit
  end.
Proof. unfold emit, numbered. cbn [sendLoop]. reflexivity. Qed.

Lemma emit_spec W fin t s' data flags sq segEnd q n :
  sndNxt s' = seq_of n -> segEnd = seq_of q -> - 2^31 < q - n < 2^31 ->
  (forall ak wnd, good_frame W fin (mkF sq ak flags wnd data)) ->
  let t3 := emit t s' data flags sq segEnd in
  Ext W fin t t3 /\
  sndNxt (SN t3) = seq_of (Z.max n q) /\
  sndUna (SN t3) = sndUna s' /\ sndNxtList (SN t3) = sndNxtList s' /\ wsent (SN t3) = wsent s' /\
  wunsent (SN t3) = wunsent s' /\ frLast (SN t3) = frLast s' /\ maxPayload (SN t3) = maxPayload s'.
Proof.
  intros Hn Hq Hb G. unfold emit. cbv zeta. rewrite sendSegment_SN. cbn [sndNxt set]. cbn.
  rewrite Hn, Hq, lessThan_offsets by lia.
  pose proof (sendSegment_Ext iss W fin (t <| SN := s' |>) data flags sq G) as E.
  assert (E0 : Ext W fin t (t <| SN := s' |>)) by (apply Ext_pure; reflexivity).
  destruct (n <? q) eqn:L.
  - split.
    + eapply Ext_trans; [exact E0|]. eapply Ext_trans; [exact E|]. apply Ext_pure; reflexivity.
    + cbn. rewrite Z.max_r by lia. repeat split; reflexivity.
  - split.
    + eapply Ext_trans; [exact E0|exact E].
    + rewrite sendSegment_SN. cbn. rewrite Z.max_l by lia. repeat split; try reflexivity. exact Hn.
Qed.

Lemma emit_closed t s' d fl sq se : sndClosedE (emit t s' d fl sq se) = sndClosedE t.
Proof.
  unfold emit. cbv zeta. destruct (lessThan _ _); cbn; rewrite sendSegment_closed; reflexivity.
Qed.

Lemma sendLoop_closed : forall f t endv limit, sndClosedE (sendLoop f t endv limit) = sndClosedE t.
Proof.
  induction f as [|f IH]; intros t endv limit; [reflexivity|].
  rewrite sendLoop_S. cbv zeta.
  destruct (wunsent (SN t)) as [|w rest]; [reflexivity|].
  destruct (negb (outstanding (SN t) <? cwnd (SN t))); [reflexivity|].
  destruct (len (w_data (numbered (SN t) w)) =? 0); [rewrite IH, emit_closed; reflexivity|].
  destruct (negb (lessThan (w_seq (numbered (SN t) w)) endv)); [reflexivity|].
  destruct (_ <? len (w_data (numbered (SN t) w))); rewrite IH, emit_closed; reflexivity.
Qed.

Lemma sendData_closed t idle : sndClosedE (sendData t idle) = sndClosedE t.
Proof.
  unfold sendData. cbv zeta.
  match goal with |- context [sendLoop ?f ?t1 ?e ?l] =>
    pose proof (sendLoop_closed f t1 e l) as H; set (X := sendLoop f t1 e l) in * end.
  clearbody X. cbn in H. destruct (_ && _); cbn; exact H.
Qed.

(* what the head of wunsent looks like once sendLoop has numbered it *)
Lemma head_cases W fin a n s w rest :
  InvA W fin a n s -> wunsent s = w :: rest ->
  exists m, chain W fin a (wsent s) m /\ 0 <= a /\ a <= m /\ m <= n /\ n <= len W + 1 /\
  ((exists d nu1 e1 fr1, numbered s w = mkW (seq_of m) fDATA d /\ d <> [] /\ is_slice W m d /\
      chain W fin (m + len d) nu1 e1 /\ fresh W fin e1 fr1 /\ rest = nu1 ++ fr1 /\ n <= e1) \/
   (w_data (numbered s w) = [] /\ w_seq (numbered s w) = seq_of (len W) /\ m = len W /\ fin = true /\
      fresh W fin (len W + 1) rest)).
Proof.
  unfold InvA. intros (m & e & fl & nu & fr & H1 & H2 & H3 & H4 & H5 & H6 & H7 & H8 & H9 & H10 & H11 & H12 & H13 & H14 & H15 & H16) EU.
  exists m. pose proof (fresh_hi _ _ _ _ H7) as Hhi.
  assert (Ht : total W fin <= len W + 1) by (unfold total; destruct fin; lia).
  repeat split; auto; try lia.
  rewrite H5 in EU. unfold numbered. rewrite H2.
  destruct nu as [|x nu'].
  - (* the head is fresh *)
    inversion H6; subst. cbn [app] in EU. subst fr. assert (n = e) by lia. subst n.
    inversion H7 as [|o d r Hd Hs Hc E1 E2|Hf E1 E2]; subst.
    + cbn. left. exists d, [], (e + len d), rest.
      repeat split; auto; [apply ch_nil|pose proof (len_nonneg d); lia].
    + cbn. right. repeat split; auto.
      replace (len W + 1) with (total W true) by reflexivity. apply fr_nil.
  - cbn [app] in EU. inversion EU; subst x rest.
    inversion H6 as [|o d r e' Hd Hs Hc E1 E2 E3|Hf E1 E2 E3]; subst.
    + cbn. left. exists d, nu', e, fr. repeat split; auto.
    + cbn. right. repeat split; auto.
Qed.

Lemma sendLoop_ok W fin : forall fuel t endv limit a n,
  1 <= limit -> InvA W fin a n (SN t) ->
  exists n', n <= n' /\ InvA W fin a n' (SN (sendLoop fuel t endv limit)) /\
             Ext W fin t (sendLoop fuel t endv limit).
Proof.
  induction fuel as [|f IH]; intros t endv limit a n Hl HI.
  { exists n. cbn. split; [lia|]. split; [exact HI|apply Ext_refl]. }
  rewrite sendLoop_S. cbv zeta.
  destruct (wunsent (SN t)) as [|w rest] eqn:EU.
  { exists n. split; [lia|]. split; [exact HI|apply Ext_refl]. }
  destruct (negb (outstanding (SN t) <? cwnd (SN t))).
  { exists n. split; [lia|]. split; [exact HI|apply Ext_refl]. }
  destruct (head_cases W fin a n (SN t) w rest HI EU) as (m & Hsent & Ha0 & Ham & Hmn & Hnw & Hcase).
  pose proof HI as HI0.
  unfold InvA in HI. destruct HI as (m0 & e0 & fl & nu0 & fr0 & I1 & I2 & I3 & _ & _ & _ & _ & _ & _ & _ & _ & I12 & I13 & I14 & I15 & I16).
  pose proof (bound_lt W I16) as HB2. unfold BOUND in I16. change (2^30) with 1073741824 in I16.
  set (w1 := numbered (SN t) w) in *. clearbody w1.
  destruct Hcase as [(d & nu1 & e1 & fr1 & Ew & Hd & Hs & Hc & Hfr & Er & Hne)|(Ed & Eq & Em & Ef & Hfr)].
  - (* data segment *)
    subst w1. cbn [w_data w_seq w_flags].
    pose proof (slice_bounds _ _ _ Hs) as Hsb. pose proof (len_pos_nonnil _ Hd) as Hdp.
    pose proof (chain_le _ _ _ _ _ _ Hc) as Hce. pose proof (fresh_hi _ _ _ _ Hfr) as Hfh.
    assert (Ht : total W fin <= len W + 1) by (unfold total; destruct fin; lia).
    replace (len d =? 0) with false by lia.
    destruct (lessThan (seq_of m) endv) eqn:LT; cbn [negb].
    2:{ (* window closed *)
      exists n. split; [lia|]. split; [|apply Ext_pure; reflexivity].
      unfold InvA. cbn. rewrite I1, I2, I3.
      exists m, e1, fl, (mkW (seq_of m) fDATA d :: nu1), fr1. rewrite Er.
      repeat split; auto; try lia. apply ch_data; auto. }
    apply lessThan_size_pos in LT.
    set (av := if limit <? size (seq_of m) endv then limit else size (seq_of m) endv).
    assert (Hav : 1 <= av <= 2^31) by (subst av; destruct (limit <? _) eqn:?; lia).
    clearbody av. consts.
    destruct (av <? len d) eqn:SP.
    + (* split at av *)
      cbn [w_data w_seq w_flags].
      rewrite (len_takeZ av d) by lia. rewrite (u32_small av) by lia. rewrite !seq_of_add.
      match goal with |- context [emit t ?s' ?dd ?ff ?sq ?se] =>
        destruct (emit_spec W fin t s' dd ff sq se (m + av) n) as (X & N1 & N2 & N3 & N4 & N5 & N6 & N7);
          [cbn; exact I2|reflexivity|consts; lia|intros; apply good_data, slice_take, Hs|];
        cbn in N2, N3, N4, N5, N6, N7;
        set (t3 := emit t s' dd ff sq se) in * end.
      clearbody t3.
      destruct (IH t3 endv limit a (Z.max n (m + av)) Hl) as (n' & Hn' & HI' & X').
      { unfold InvA. rewrite N1, N2, N3, N4, N5, N6, N7, I1, I3.
        exists (m + av), e1, fl, (mkW (seq_of (m + av)) fDATA (dropZ av d) :: nu1), fr1. rewrite Er.
        repeat split; auto; try lia.
        - assert (C : chain W fin a (wsent (SN t) ++ [mkW (seq_of m) fDATA (takeZ av d)])
                        (m + len (takeZ av d))).
          { apply chain_snoc_data; [exact Hsent|apply takeZ_nonnil; [lia|exact Hd]|apply slice_take, Hs]. }
          rewrite len_takeZ in C by lia. exact C.
        - apply ch_data; [apply dropZ_nonnil; lia|apply slice_drop; [exact Hs|lia]|].
          rewrite len_dropZ by lia. replace (m + av + (len d - av)) with (m + len d) by lia. exact Hc. }
      exists n'. split; [lia|]. split; [exact HI'|eapply Ext_trans; eauto].
    + (* whole segment *)
      cbn [w_data w_seq w_flags].
      rewrite (u32_small (len d)) by lia. rewrite !seq_of_add.
      match goal with |- context [emit t ?s' ?dd ?ff ?sq ?se] =>
        destruct (emit_spec W fin t s' dd ff sq se (m + len d) n) as (X & N1 & N2 & N3 & N4 & N5 & N6 & N7);
          [cbn; exact I2|reflexivity|consts; lia|intros; apply good_data, Hs|];
        cbn in N2, N3, N4, N5, N6, N7;
        set (t3 := emit t s' dd ff sq se) in * end.
      clearbody t3.
      destruct (IH t3 endv limit a (Z.max n (m + len d)) Hl) as (n' & Hn' & HI' & X').
      { unfold InvA. rewrite N1, N2, N3, N4, N5, N6, N7, I1, I3.
        exists (m + len d), e1, fl, nu1, fr1. rewrite Er.
        repeat split; auto; try lia.
        apply chain_snoc_data; auto. }
      exists n'. split; [lia|]. split; [exact HI'|eapply Ext_trans; eauto].
  - (* FIN *)
    rewrite Ed, Eq. change (len [] =? 0) with true. cbn match. rewrite seq_of_add.
    change (Z.lor fAck fFin) with 17.
    subst fin.
    match goal with |- context [emit t ?s' ?dd ?ff ?sq ?se] =>
      destruct (emit_spec W true t s' dd ff sq se (len W + 1) n) as (X & N1 & N2 & N3 & N4 & N5 & N6 & N7);
        [cbn; exact I2|reflexivity|consts; lia|intros; apply good_fin|];
      cbn in N2, N3, N4, N5, N6, N7;
      set (t3 := emit t s' dd ff sq se) in * end.
    clearbody t3.
    destruct (IH t3 endv limit a (Z.max n (len W + 1)) Hl) as (n' & Hn' & HI' & X').
    { unfold InvA. rewrite N1, N2, N3, N4, N5, N6, N7, I1, I3.
      exists (len W + 1), (len W + 1), fl, [], rest.
      repeat split; auto; try lia.
      - subst m. eapply chain_app; [exact Hsent|]. apply ch_fin. reflexivity.
      - apply ch_nil. }
    exists n'. split; [lia|]. split; [exact HI'|eapply Ext_trans; eauto].
Qed.

(* ------------------------------------------------------------------ sendData *)

Lemma InvA_mp W fin a n s : InvA W fin a n s -> 1 <= maxPayload s.
Proof. unfold InvA, InvC. intros (m & e & fl & nu & fr & H). tauto. Qed.

Lemma sendData_ok W fin t idle a n :
  InvA W fin a n (SN t) ->
  exists n', n <= n' /\ InvA W fin a n' (SN (sendData t idle)) /\ Ext W fin t (sendData t idle).
Proof.
  intros HI. unfold sendData. cbv zeta.
  set (s1 := if negb (frActive (SN t)) && idle && (InitialCwnd <? cwnd (SN t))
             then (SN t) <| cwnd := InitialCwnd |> else SN t).
  assert (H1 : InvA W fin a n s1).
  { subst s1. destruct (_ && _); [|exact HI]. upd HI. }
  clearbody s1.
  assert (H1' : InvA W fin a n (SN (t <| SN := s1 |>))) by exact H1.
  destruct (sendLoop_ok W fin (S (wbytes (wunsent s1))) (t <| SN := s1 |>)
              (add (sndUna s1) (sndWnd s1)) (maxPayload s1) a n (InvA_mp _ _ _ _ _ H1) H1')
    as (n' & Hn & HI' & X).
  exists n'. split; [exact Hn|].
  assert (X0 : Ext W fin t (t <| SN := s1 |>)) by (apply Ext_pure; reflexivity).
  destruct (_ && _).
  - split; [upd HI'|]. eapply Ext_trans; [exact X0|]. eapply Ext_trans; [exact X|].
    apply Ext_pure; reflexivity.
  - split; [exact HI'|]. eapply Ext_trans; eauto.
Qed.

(* ------------------------------------------------------------------ duplicate acks, fast retransmit *)

Lemma InvA_facts W fin a n s : InvA W fin a n s ->
  sndUna s = seq_of a /\ sndNxt s = seq_of n /\ 0 <= a /\ a <= n /\ n <= len W + 1 /\ len W < BOUND /\
    exists fl, frLast s = seq_of fl /\ -1 <= fl < n.
Proof.
  unfold InvA. intros (m & e & fl & nu & fr & H1 & H2 & H3 & H4 & H5 & H6 & H7 & H8 & H9 & H10 & H11 & H12 & H13 & H14 & H15 & H16).
  pose proof (fresh_hi _ _ _ _ H7) as Hhi.
  assert (Ht : total W fin <= len W + 1) by (unfold total; destruct fin; lia).
  repeat split; auto; try lia. exists fl. auto.
Qed.

Lemma cda_ok W fin a n s ack sl wnd s2 rtx :
  InvA W fin a n s -> is_u32 ack -> checkDuplicateAck s ack sl wnd = (s2, rtx) ->
  InvA W fin a n s2 /\ (rtx = true -> exists k, ack = seq_of k /\ a <= k < n).
Proof.
  intros HI Hu. destruct (InvA_facts _ _ _ _ _ HI) as (E1 & E2 & Ha & Han & Hn & HB & fl & E3 & Hfl).
  bnd. unfold checkDuplicateAck. cbv zeta.
  destruct (frActive s).
  - destruct (negb (inRange ack (sndUna s) (u32 (sndNxt s + 1)))) eqn:R.
    { intros E; inversion E; subst. split; [exact HI|discriminate]. }
    destruct (lessThan (frLast s) ack) eqn:L.
    { intros E; inversion E; subst. split; [|discriminate]. unfold leaveFastRecovery. upd HI. }
    destruct (_ || _).
    { intros E; inversion E; subst. split; [exact HI|discriminate]. }
    destruct (ack =? frFirst s).
    { intros E; inversion E; subst. split; [|discriminate]. destruct (_ <? _); [upd HI|exact HI]. }
    intros E; inversion E; subst. split; [upd HI|]. intros _.
    rewrite E1, E2 in R. apply negb_false_iff in R.
    destruct (dupack_in_range iss a n ack Hu ltac:(consts; lia) R) as (k & Hk & ->).
    exists k. split; [reflexivity|]. rewrite E3, lessThan_offsets in L by (consts; lia). lia.
  - destruct (_ || _) eqn:C.
    { intros E; inversion E; subst. split; [upd HI|discriminate]. }
    destruct (_ <? _).
    { intros E; inversion E; subst. split; [upd HI|discriminate]. }
    destruct (lessThan (frLast _) ack); cbn [negb].
    2:{ intros E; inversion E; subst. split; [upd HI|discriminate]. }
    intros E; inversion E; subst. split.
    + unfold enterFastRecovery, reduceSsthresh. upd HI.
    + intros _. exists a. rewrite E1, E2 in C.
      assert (ack = seq_of a /\ ack <> seq_of n) as [-> Hne] by lia.
      split; [reflexivity|]. assert (a <> n) by congruence. lia.
Qed.

Lemma head_numbered W fin a n s : InvA W fin a n s -> a < n ->
  exists w l, wsent s ++ wunsent s = w :: l /\
    forall ak wnd, good_frame W fin (mkF (w_seq w) ak (w_flags w) wnd (w_data w)).
Proof.
  unfold InvA. intros (m & e & fl & nu & fr & H1 & H2 & H3 & H4 & H5 & H6 & H7 & H8 & H9 & H10 & H11 & H12 & H13 & H14 & H15 & H16) L.
  pose proof (chain_app _ _ _ _ _ _ _ _ H4 H6) as C. rewrite H5, app_assoc.
  destruct (wsent s ++ nu) as [|w l] eqn:EL.
  - inversion C; subst. lia.
  - exists w, (l ++ fr). split; [reflexivity|]. intros ak wnd.
    inversion C as [|o d r e' Hd Hs Hc E1 E2 E3|Hf E1 E2 E3]; subst; cbn [w_seq w_flags w_data].
    + apply good_data. exact Hs.
    + apply good_fin.
Qed.

Lemma resend_ok W fin t a n : InvA W fin a n (SN t) -> a < n ->
  InvA W fin a n (SN (resendSegment t)) /\ Ext W fin t (resendSegment t).
Proof.
  intros HI L. unfold resendSegment. cbv zeta. cbn [SN set]. cbn.
  destruct (head_numbered _ _ _ _ _ HI L) as (w & l & E & G). rewrite E.
  split.
  - rewrite sendSegment_SN. cbn. upd HI.
  - eapply Ext_trans; [|apply sendSegment_Ext; exact G]. apply Ext_pure; reflexivity.
Qed.

(* ------------------------------------------------------------------ ack processing *)

(* the part of sender.handleRcvdSegment that removes acknowledged data *)
Definition ackStep (t : tcp) (s3 : sndr) (sg : seg) (clampRto : Z) : tcp :=
  let ack := s_ack sg in
  let t3 := t <| SN := s3 |> in
  if inRange (u32 (ack - 1)) (sndUna s3) (sndNxt s3) then
    let s4 := s3 <| dupAck := 0 |> <| tstate := if tstate s3 =? tDisabled then tDisabled else tOrphaned |> in
    let s5 := if tsOk t && s_tsecr sg then s4 <| rto := clampRto |> else s4 in
    let acked := size (sndUna s5) ack in
    let '(sent', unsent', removed) :=
      ackLoop (S (length (wsent s5) + length (wunsent s5))) (wsent s5) (wunsent s5) acked 0 in
    let s6 := s5 <| sndUna := ack |> <| wsent := sent' |> <| wunsent := unsent' |>
                 <| outstanding := outstanding s5 - removed |> in
    let s7 := if frActive s6 then s6 else renoUpdate s6 removed in
    let s8 := if outstanding s7 <? 0 then s7 <| outstanding := 0 |> else s7 in
    t3 <| SN := s8 |> <| sndBufUsed := sndBufUsed t3 - acked |>
  else t3.

Lemma sndHandle_eq t sg wnd newRto idle :
  sndHandle t sg wnd newRto idle =
  let s0 := SN t in
  let clampRto := if newRto <? minRTO then minRTO else newRto in
  let s1 := if negb (tsOk t) && lessThan (rttSeq s0) (s_ack sg)
            then s0 <| rto := clampRto |> <| rttSeq := sndNxt s0 |> else s0 in
  let segLog := plogicalLen (s_flags sg) (s_data sg) in
  let '(s2, rtx) := checkDuplicateAck s1 (s_ack sg) segLog wnd in
  let t4 := ackStep t (s2 <| sndWnd := wnd |>) sg clampRto in
  let t5 := if rtx then resendSegment t4 else t4 in
  sendData t5 idle.
Proof.
  unfold sndHandle, ackStep. cbv zeta.
  destruct (checkDuplicateAck _ _ _ _) as [s2 rtx]. reflexivity.
Qed.

Lemma renoCA_core s k : core_eq s (renoCA s k).
Proof. unfold renoCA. cbv zeta. destruct (_ <=? _); unfold core_eq; cbn; repeat split. Qed.
Lemma renoUpdate_core s k : core_eq s (renoUpdate s k).
Proof.
  unfold renoUpdate. destruct (_ <? _); [|apply renoCA_core]. cbv zeta.
  destruct (ssthresh s <=? cwnd s + k).
  - destruct (_ =? 0); [unfold core_eq; cbn; repeat split|].
    eapply core_eq_trans; [|apply renoCA_core]. unfold core_eq; cbn; repeat split.
  - destruct (_ =? 0); [unfold core_eq; cbn; repeat split|].
    eapply core_eq_trans; [|apply renoCA_core]. unfold core_eq; cbn; repeat split.
Qed.

Lemma ackStep_ok W fin t s3 sg clampRto a n :
  InvA W fin a n s3 -> is_u32 (s_ack sg) ->
  exists a', a <= a' /\ InvA W fin a' n (SN (ackStep t s3 sg clampRto)) /\
    Ext W fin t (ackStep t s3 sg clampRto) /\
    (forall k, s_ack sg = seq_of k -> a <= k < n -> a' < n).
Proof.
  intros HI Hu. pose proof HI as HI0.
  destruct (InvA_facts _ _ _ _ _ HI) as (E1 & E2 & Ha & Han & Hn & HB & fl & E3 & Hfl).
  unfold ackStep. cbv zeta.
  destruct (inRange _ _ _) eqn:R.
  2:{ exists a. split; [lia|]. split; [exact HI|]. split; [apply Ext_pure; reflexivity|]. intros; lia. }
  bnd. rewrite E1, E2 in R.
  destruct (ack_in_range iss a n (s_ack sg) Hu ltac:(consts; lia) R) as (k & Hk & Eack & Esz).
  set (s5 := if tsOk t && s_tsecr sg then _ else _).
  assert (H5 : InvA W fin a n s5).
  { subst s5. destruct (_ && _); upd HI. }
  assert (EU5 : sndUna s5 = sndUna s3) by (subst s5; destruct (_ && _); reflexivity).
  clearbody s5. rewrite EU5, E1, Esz.
  unfold InvA in H5.
  destruct H5 as (m & e & fl' & nu & fr & H1 & H2 & H3 & H4 & H5 & H6 & H7 & H8 & H9 & H10 & H11 & H12 & H13 & H14 & H15 & H16).
  destruct (ackLoop_sent W fin a (wsent s5) m H4 H16
              (S (length (wsent s5) + length (wunsent s5))) nu fr k 0 e H6 ltac:(lia))
    as (sent' & nu' & r' & m' & EA & C1 & C2 & EM).
  { rewrite H5, app_length. lia. }
  rewrite <- H5 in EA. rewrite EA.
  exists (a + k). split; [lia|]. split; [|split].
  - set (s6 := s5 <| sndUna := s_ack sg |> <| wsent := sent' |> <| wunsent := nu' ++ fr |>
                  <| outstanding := outstanding s5 - r' |>).
    assert (I6 : InvA W fin (a + k) n s6).
    { unfold InvA. subst s6. cbn. rewrite H2, H3, H12.
      exists m', e, fl', nu', fr. repeat split; auto; lia. }
    clearbody s6.
    set (s7 := if frActive s6 then s6 else renoUpdate s6 r').
    assert (I7 : InvA W fin (a + k) n s7).
    { subst s7. destruct (frActive s6); [exact I6|].
      eapply InvA_core; [apply renoUpdate_core|exact I6]. }
    clearbody s7. cbn [SN set]. cbn.
    destruct (_ <? 0); [upd I7|exact I7].
  - apply Ext_pure; reflexivity.
  - intros k0 E0 Hk0. rewrite Eack in E0. apply seq_of_inj in E0; [lia|consts; lia].
Qed.

Lemma sndHandle_ok W fin t sg wnd newRto idle a n :
  InvA W fin a n (SN t) -> is_u32 (s_ack sg) ->
  exists a' n', InvA W fin a' n' (SN (sndHandle t sg wnd newRto idle)) /\
    Ext W fin t (sndHandle t sg wnd newRto idle).
Proof.
  intros HI Hu. rewrite sndHandle_eq. cbv zeta.
  set (s1 := if negb (tsOk t) && lessThan (rttSeq (SN t)) (s_ack sg) then _ else _).
  assert (H1 : InvA W fin a n s1).
  { subst s1. destruct (_ && _); [upd HI|exact HI]. }
  clearbody s1.
  destruct (checkDuplicateAck s1 (s_ack sg) (plogicalLen (s_flags sg) (s_data sg)) wnd) as [s2 rtx] eqn:EC.
  destruct (cda_ok _ _ _ _ _ _ _ _ _ _ H1 Hu EC) as (H2 & Hrtx).
  assert (H3 : InvA W fin a n (s2 <| sndWnd := wnd |>)) by upd H2.
  destruct (ackStep_ok W fin t (s2 <| sndWnd := wnd |>) sg
              (if newRto <? minRTO then minRTO else newRto) a n H3 Hu) as (a' & Ha' & H4 & X4 & Hlt).
  set (t4 := ackStep t (s2 <| sndWnd := wnd |>) sg (if newRto <? minRTO then minRTO else newRto)) in *.
  clearbody t4.
  assert (H5 : InvA W fin a' n (SN (if rtx then resendSegment t4 else t4)) /\
    Ext W fin t4 (if rtx then resendSegment t4 else t4)).
  { destruct rtx; [|split; [exact H4|apply Ext_refl]].
    destruct (Hrtx eq_refl) as (k & Ek & Hk). apply resend_ok; [exact H4|]. eapply Hlt; eauto. }
  destruct H5 as [H5 X5].
  destruct (sendData_ok W fin _ idle a' n H5) as (n' & Hn' & H6 & X6).
  exists a', n'. split; [exact H6|]. eapply Ext_trans; [exact X4|]. eapply Ext_trans; eauto.
Qed.

(* ------------------------------------------------------------------ retransmission time-out *)

Lemma rtoExpired_ok W fin t idle a n :
  InvA W fin a n (SN t) ->
  exists n', InvA W fin a n' (SN (fst (rtoExpired t idle))) /\ Ext W fin t (fst (rtoExpired t idle)).
Proof.
  intros HI. unfold rtoExpired. cbv zeta.
  destruct (tstate (SN t) =? tOrphaned).
  { exists n. cbn. split; [upd HI|apply Ext_pure; reflexivity]. }
  destruct (negb (tstate (SN t) =? tEnabled)).
  { exists n. cbn. split; [exact HI|apply Ext_refl]. }
  cbn [rto set]. cbn.
  destruct (maxRTO <=? rto (SN t)).
  { exists n. cbn. split; [upd HI|apply Ext_pure; reflexivity]. }
  cbn [fst].
  match goal with |- context [sendData (t <| SN := ?s5 |>) idle] => set (S5 := s5) end.
  assert (H5 : InvA W fin a n S5).
  { subst S5. destruct (InvA_facts _ _ _ _ _ HI) as (E1 & E2 & Ha & Han & Hn & HB & fl & E3 & Hfl).
    unfold InvA in *.
    destruct HI as (m & e & fl' & nu & fr & H1 & H2 & H3 & H4 & H5 & H6 & H7 & H8 & H9 & H10 & H11 & H12 & H13 & H14 & H15 & H16).
    unfold reduceSsthresh, leaveFastRecovery. destruct (frActive (SN t)); cbn;
      rewrite H1, H3, H5, app_assoc, H2, seq_of_pred;
      exists a, e, (n - 1), (wsent (SN t) ++ nu), fr;
      (repeat split; auto; try lia; [apply ch_nil|eapply chain_app; eauto]). }
  clearbody S5.
  assert (H5' : InvA W fin a n (SN (t <| SN := S5 |>))) by exact H5.
  destruct (sendData_ok W fin (t <| SN := S5 |>) idle a n H5') as (n' & Hn' & H6 & X6).
  exists n'. split; [exact H6|]. eapply Ext_trans; [|exact X6]. apply Ext_pure; reflexivity.
Qed.

End Snd.
