(* C01, send direction: the sender functions (snd.go) preserve the write-list invariant of
   Proofs/TcpSndInvP.v and only emit good frames: ackLoop (cumulative and partial ack trimming),
   sendLoop/sendData (numbering, splitting at window/MSS), checkDuplicateAck + resendSegment
   (fast retransmit), rtoExpired (rewind), appWrite, appShutdownWrite. *)
From Coq Require Import ZArith List Bool Lia ZifyBool.
From RecordUpdate Require Import RecordSet.
From NP Require Import Model.Seqnum Model.GoHeap Model.Tcp Proofs.SeqnumP Proofs.TcpSndInvP.
Import ListNotations RecordSetNotations.
Open Scope Z_scope.

#[local] Arguments sendSegment : simpl never.
#[local] Arguments sendAck : simpl never.
#[local] Arguments sendLoop : simpl never.
#[local] Arguments sendData : simpl never.

(* ------------------------------------------------------------------ arithmetic *)

Lemma u32_small x : 0 <= x < 4294967296 -> u32 x = x.
Proof. intros H. unfold u32. apply Z.mod_small. consts. exact H. Qed.
Lemma seq_of_pred iss n : u32 (seq_of iss n - 1) = seq_of iss (n - 1).
Proof. unfold seq_of. word. Qed.
Lemma seq_of_succ iss n : u32 (seq_of iss n + 1) = seq_of iss (n + 1).
Proof. unfold seq_of. word. Qed.
Lemma seq_of_inj iss a b : - 2^32 < a - b < 2^32 -> seq_of iss a = seq_of iss b -> a = b.
Proof. unfold seq_of. word. Qed.
Lemma seq_of_u32 iss a : is_u32 (seq_of iss a).
Proof. unfold seq_of. word. Qed.
Lemma lessThan_size_pos v w : lessThan v w = true -> 1 <= size v w <= 2^31.
Proof. unfold lessThan. rewrite Z.leb_le. word. Qed.
(* an acceptable ack: (ack-1) in [sndUna, sndNxt) *)
Lemma ack_in_range iss a n ack :
  is_u32 ack -> 0 <= n - a < 2^31 ->
  inRange (u32 (ack - 1)) (seq_of iss a) (seq_of iss n) = true ->
  exists k, 1 <= k <= n - a /\ ack = seq_of iss (a + k) /\ size (seq_of iss a) ack = k.
Proof.
  intros Hu Hn H. exists (size (seq_of iss a) ack).
  unfold inRange in H. apply Z.ltb_lt in H. revert Hu Hn H. unfold seq_of. word.
Qed.
(* the range test of checkDuplicateAck: ack in [sndUna, sndNxt+1) *)
Lemma dupack_in_range iss a n ack :
  is_u32 ack -> 0 <= n - a < 2^31 ->
  inRange ack (seq_of iss a) (u32 (seq_of iss n + 1)) = true ->
  exists k, a <= k <= n /\ ack = seq_of iss k.
Proof.
  intros Hu Hn H. exists (a + size (seq_of iss a) ack).
  unfold inRange in H. apply Z.ltb_lt in H. revert Hu Hn H. unfold seq_of. word.
Qed.

Lemma wll_data sq d : len d < 4294967296 -> wlogicalLen (mkW sq fDATA d) = len d.
Proof.
  intros H. unfold wlogicalLen. cbn [w_data w_flags].
  change (has fDATA fSyn) with false. change (has fDATA fFin) with false. cbn match.
  rewrite !Z.add_0_r. apply u32_small. pose proof (len_nonneg d). lia.
Qed.
Lemma wll_fin sq : wlogicalLen (mkW sq fFINACK []) = 1.
Proof. reflexivity. Qed.

Lemma ackLoop_zero fuel s u r : ackLoop fuel s u 0 r = (s, u, r).
Proof. destruct fuel; reflexivity. Qed.

Section Snd.
Variable iss : Z.
Notation chain := (chain iss).
Notation InvC := (InvC iss).
Notation InvA := (InvA iss).
Notation Inv := (Inv iss).
Notation good_frame := (good_frame iss).
Notation Ext := (Ext iss).
Notation seq_of := (seq_of iss).

(* ------------------------------------------------------------------ ackLoop *)

Lemma bound_lt W : len W < BOUND -> len W < 2^32.
Proof. unfold BOUND. consts. change (2^30) with 1073741824. lia. Qed.
Ltac bnd := unfold BOUND in *; change (2^30) with 1073741824 in *; consts.
Lemma chain_hi1 W fin o l e : chain W fin o l e -> l <> [] -> e <= len W + 1.
Proof. intros H L. pose proof (chain_hi _ _ _ _ _ _ H L). unfold total in *. destruct fin; lia. Qed.
Lemma chain_hi2 W fin o l e : chain W fin o l e -> o <= len W + 1 -> e <= len W + 1.
Proof.
  intros H L. destruct l as [|x l]; [inversion H; subst; lia|].
  eapply chain_hi1; [exact H|congruence].
Qed.

(* second phase: acknowledged data removed from the numbered front of wunsent *)
Lemma ackLoop_unsent W fin a nu e :
  chain W fin a nu e -> len W < BOUND ->
  forall fuel fr k r, 0 <= k <= e - a -> (length nu < fuel)%nat ->
  exists nu' r', ackLoop fuel [] (nu ++ fr) k r = ([], nu' ++ fr, r') /\ chain W fin (a + k) nu' e.
Proof.
  intros H HB. pose proof (bound_lt W HB) as HB2.
  induction H as [o|o d rr e Hd Hs Hc IH|Hf]; intros fuel fr k r Hk Hfuel.
  - assert (k = 0) by lia. subst k. rewrite ackLoop_zero. exists [], r. rewrite Z.add_0_r.
    split; [reflexivity|apply ch_nil].
  - destruct (Z.eq_dec k 0) as [->|Hk0].
    { rewrite ackLoop_zero. eexists _, r. rewrite Z.add_0_r. split; [reflexivity|].
      apply ch_data; auto. }
    destruct fuel as [|f]; [cbn in Hfuel; lia|].
    pose proof (slice_bounds _ _ _ Hs) as Hsb. pose proof (chain_le _ _ _ _ _ _ Hc) as Hle.
    pose proof (len_nonneg d) as Hdn.
    assert (Hhi : e <= len W + 1).
    { apply (chain_hi1 W fin o (mkW (seq_of o) fDATA d :: rr) e); [apply ch_data; auto|congruence]. }
    bnd.
    cbn [ackLoop app]. replace (0 <? k) with true by lia. cbn [negb].
    rewrite wll_data by lia. cbn [w_seq w_flags w_data].
    destruct (k <? len d) eqn:Ek.
    + exists (mkW (seq_of (o + k)) fDATA (dropZ k d) :: rr), r. split.
      * rewrite seq_of_add. reflexivity.
      * apply ch_data; [apply dropZ_nonnil; lia|apply slice_drop; [exact Hs|lia]|].
        rewrite len_dropZ by lia. replace (o + k + (len d - k)) with (o + len d) by lia. exact Hc.
    + rewrite u32_small by lia.
      destruct (IH f fr (k - len d) (r + 1)) as (nu' & r' & E & C); [lia|cbn in Hfuel; lia|].
      exists nu', r'. split; [exact E|].
      replace (o + k) with (o + len d + (k - len d)) by lia. exact C.
  - destruct (Z.eq_dec k 0) as [->|Hk0].
    { rewrite ackLoop_zero. eexists _, r. rewrite Z.add_0_r. split; [reflexivity|].
      apply ch_fin; exact Hf. }
    assert (k = 1) by lia. subst k.
    destruct fuel as [|f]; [cbn in Hfuel; lia|].
    cbn [ackLoop app]. change (0 <? 1) with true. cbn [negb]. rewrite wll_fin.
    change (1 <? 1) with false. cbn match. change (u32 (1 - 1)) with 0. rewrite ackLoop_zero.
    exists [], (r + 1). split; [reflexivity|apply ch_nil].
Qed.

(* first phase: removal from wsent, continuing into wunsent *)
Lemma ackLoop_sent W fin a sent m :
  chain W fin a sent m -> len W < BOUND ->
  forall fuel nu fr k r e, chain W fin m nu e -> 0 <= k <= e - a ->
  (length sent + length nu < fuel)%nat ->
  exists sent' nu' r' m',
    ackLoop fuel sent (nu ++ fr) k r = (sent', nu' ++ fr, r') /\
    chain W fin (a + k) sent' m' /\ chain W fin m' nu' e /\ m' = Z.max m (a + k).
Proof.
  intros H HB. pose proof (bound_lt W HB) as HB2.
  induction H as [o|o d rr m Hd Hs Hc IH|Hf]; intros fuel nu fr k r e Hnu Hk Hfuel.
  - destruct (ackLoop_unsent W fin o nu e Hnu HB fuel fr k r Hk) as (nu' & r' & E & C);
      [cbn in Hfuel; lia|].
    exists [], nu', r', (o + k). repeat split; [exact E|apply ch_nil|exact C|lia].
  - pose proof (slice_bounds _ _ _ Hs) as Hsb. pose proof (chain_le _ _ _ _ _ _ Hc) as Hle.
    pose proof (len_nonneg d) as Hdn. pose proof (chain_le _ _ _ _ _ _ Hnu) as Hle2.
    assert (Hhi : m <= len W + 1).
    { apply (chain_hi1 W fin o (mkW (seq_of o) fDATA d :: rr) m); [apply ch_data; auto|congruence]. }
    pose proof (chain_hi2 _ _ _ _ _ Hnu Hhi) as Hhe. bnd.
    destruct (Z.eq_dec k 0) as [->|Hk0].
    { rewrite ackLoop_zero. eexists _, nu, r, m. rewrite Z.add_0_r.
      repeat split; [apply ch_data; auto|exact Hnu|lia]. }
    destruct fuel as [|f]; [cbn in Hfuel; lia|].
    cbn [ackLoop]. replace (0 <? k) with true by lia. cbn [negb].
    rewrite wll_data by lia. cbn [w_seq w_flags w_data].
    destruct (k <? len d) eqn:Ek.
    + exists (mkW (seq_of (o + k)) fDATA (dropZ k d) :: rr), nu, r, m. repeat split.
      * rewrite seq_of_add. reflexivity.
      * apply ch_data; [apply dropZ_nonnil; lia|apply slice_drop; [exact Hs|lia]|].
        rewrite len_dropZ by lia. replace (o + k + (len d - k)) with (o + len d) by lia. exact Hc.
      * exact Hnu.
      * lia.
    + rewrite u32_small by lia.
      destruct (IH f nu fr (k - len d) (r + 1) e Hnu) as (sent' & nu' & r' & m' & E & C1 & C2 & M);
        [lia|cbn in Hfuel; lia|].
      exists sent', nu', r', m'. repeat split; [exact E| |exact C2|lia].
      replace (o + k) with (o + len d + (k - len d)) by lia. exact C1.
  - pose proof (chain_le _ _ _ _ _ _ Hnu) as Hle.
    pose proof (chain_hi2 _ _ _ _ _ Hnu ltac:(lia)) as Hhe. pose proof (len_nonneg W) as HWn. bnd.
    destruct (Z.eq_dec k 0) as [->|Hk0].
    { rewrite ackLoop_zero. eexists _, nu, r, (len W + 1). rewrite Z.add_0_r.
      repeat split; [apply ch_fin; exact Hf|exact Hnu|lia]. }
    destruct fuel as [|f]; [cbn in Hfuel; lia|].
    cbn [ackLoop]. replace (0 <? k) with true by lia. cbn [negb]. rewrite wll_fin.
    replace (k <? 1) with false by lia. rewrite u32_small by lia.
    destruct (ackLoop_unsent W fin (len W + 1) nu e Hnu HB f fr (k - 1) (r + 1)) as (nu' & r' & E & C);
      [lia|cbn in Hfuel; lia|].
    exists [], nu', r', (len W + k). repeat split; [exact E|apply ch_nil| |lia].
    replace (len W + k) with (len W + 1 + (k - 1)) by lia. exact C.
Qed.

(* ------------------------------------------------------------------ updates of the sender record *)

Lemma InvA_upd W fin a n s s' :
  InvA W fin a n s ->
  sndUna s' = sndUna s -> sndNxt s' = sndNxt s -> sndNxtList s' = sndNxtList s ->
  wsent s' = wsent s -> wunsent s' = wunsent s -> maxPayload s' = maxPayload s ->
  (frLast s' = frLast s \/ frLast s' = u32 (sndNxt s - 1)) ->
  InvA W fin a n s'.
Proof.
  unfold InvA. intros H E1 E2 E3 E4 E5 E6 E7. rewrite E1, E2, E3, E4, E5, E6.
  destruct E7 as [->| ->]; [exact H|].
  destruct H as (m & e & fl & nu & fr & H1 & H2 & H3 & H4 & H5 & H6 & H7 & H8 & H9 & H10 & H11 & H12 & H13 & H14 & H15).
  exists m, e, (n - 1), nu, fr. rewrite H2 at 2. rewrite seq_of_pred.
  repeat split; auto; lia.
Qed.
Ltac upd H := eapply InvA_upd; [exact H|cbn; try reflexivity ..|cbn; auto].

Lemma Ext_pure W fin t t' : sndClosedE t' = sndClosedE t -> out t' = out t -> Ext W fin t t'.
Proof. intros E O. split; [exact E|]. exists []. rewrite app_nil_r. auto. Qed.

(* ------------------------------------------------------------------ sendLoop *)

(* set the sender record, emit one segment, move sndNxt forward if the segment ends beyond it *)
Definition emit (t : tcp) (s' : sndr) (data : list Z) (flags sq segEnd : Z) : tcp :=
  let t1 := t <| SN := s' |> in
  let t2 := sendSegment t1 data flags sq in
  if lessThan (sndNxt (SN t2)) segEnd then t2 <| SN := (SN t2) <| sndNxt := segEnd |> |> else t2.

Definition numbered (s : sndr) (w : wseg) : wseg :=
  if w_flags w =? 0 then mkW (sndNxt s) (Z.lor fAck fPsh) (w_data w) else w.

Lemma sendLoop_S f t endv limit :
  sendLoop (S f) t endv limit =
  let s := SN t in
  match wunsent s with
  | [] => t
  | w :: rest =>
      if negb (outstanding s <? cwnd s) then t else
      let w1 := numbered s w in
      if len (w_data w1) =? 0 then
        sendLoop f (emit t (s <| wsent := wsent s ++ [mkW (w_seq w1) (Z.lor fAck fFin) []] |> <| wunsent := rest |>)
                          [] (Z.lor fAck fFin) (w_seq w1) (add (w_seq w1) 1)) endv limit
      else if negb (lessThan (w_seq w1) endv) then t <| SN := s <| wunsent := w1 :: rest |> |>
      else
        let available0 := size (w_seq w1) endv in
        let available := if limit <? available0 then limit else available0 in
        let '(w2, rest') :=
          if available <? len (w_data w1) then
            (mkW (w_seq w1) (w_flags w1) (takeZ available (w_data w1)),
             mkW (add (w_seq w1) (u32 available)) (w_flags w1) (dropZ available (w_data w1)) :: rest)
          else (w1, rest) in
        sendLoop f (emit t (s <| outstanding := outstanding s + 1 |> <| wsent := wsent s ++ [w2] |> <| wunsent := rest' |>)
                          (w_data w2) (w_flags w2) (w_seq w2) (add (w_seq w2) (u32 (len (w_data w2))))) endv limit
  end.
Proof. reflexivity. Qed.

Lemma emit_spec W fin t s' data flags sq segEnd q n :
  sndNxt s' = seq_of n -> segEnd = seq_of q -> - 2^31 < q - n < 2^31 ->
  (forall ak wnd, good_frame W fin (mkF sq ak flags wnd data)) ->
  let t3 := emit t s' data flags sq segEnd in
  Ext W fin t t3 /\
  sndNxt (SN t3) = seq_of (Z.max n q) /\
  sndUna (SN t3) = sndUna s' /\ sndNxtList (SN t3) = sndNxtList s' /\ wsent (SN t3) = wsent s' /\
  wunsent (SN t3) = wunsent s' /\ frLast (SN t3) = frLast s' /\ maxPayload (SN t3) = maxPayload s'.
Proof.
  intros Hn Hq Hb G. unfold emit. cbv zeta. rewrite sendSegment_SN. cbn [sndNxt set]. cbn.
  rewrite Hn, Hq, lessThan_offsets by lia.
  pose proof (sendSegment_Ext iss W fin (t <| SN := s' |>) data flags sq G) as E.
  assert (E0 : Ext W fin t (t <| SN := s' |>)) by (apply Ext_pure; reflexivity).
  destruct (n <? q) eqn:L.
  - split.
    + eapply Ext_trans; [exact E0|]. eapply Ext_trans; [exact E|]. apply Ext_pure; reflexivity.
    + cbn. rewrite Z.max_r by lia. repeat split; reflexivity.
  - split.
    + eapply Ext_trans; [exact E0|exact E].
    + rewrite sendSegment_SN. cbn. rewrite Z.max_l by lia. repeat split; try reflexivity. exact Hn.
Qed.

(* what the head of wunsent looks like once sendLoop has numbered it *)
Lemma head_cases W fin a n s w rest :
  InvA W fin a n s -> wunsent s = w :: rest ->
  exists m, chain W fin a (wsent s) m /\ 0 <= a /\ a <= m /\ m <= n /\ n <= len W + 1 /\
  ((exists d nu1 e1 fr1, numbered s w = mkW (seq_of m) fDATA d /\ d <> [] /\ is_slice W m d /\
      chain W fin (m + len d) nu1 e1 /\ fresh W fin e1 fr1 /\ rest = nu1 ++ fr1 /\ n <= e1) \/
   (w_data (numbered s w) = [] /\ w_seq (numbered s w) = seq_of (len W) /\ m = len W /\ fin = true /\
      fresh W fin (len W + 1) rest)).
Proof.
  unfold InvA. intros (m & e & fl & nu & fr & H1 & H2 & H3 & H4 & H5 & H6 & H7 & H8 & H9 & H10 & H11 & H12 & H13 & H14 & H15 & H16) EU.
  exists m. pose proof (fresh_hi _ _ _ _ H7) as Hhi.
  assert (Ht : total W fin <= len W + 1) by (unfold total; destruct fin; lia).
  repeat split; auto; try lia.
  rewrite H5 in EU. unfold numbered. rewrite H2.
  destruct nu as [|x nu'].
  - (* the head is fresh *)
    inversion H6; subst. cbn [app] in EU. assert (n = e) by lia. subst n.
    inversion H7 as [E1 E2|o d r Hd Hs Hc E1 E2|Hf E1 E2]; subst.
    + rewrite <- E2 in EU. discriminate.
    + rewrite <- E2 in EU. inversion EU; subst. cbn. left. exists d, [], (e + len d), rest.
      repeat split; auto; [apply ch_nil|pose proof (len_nonneg d); lia].
    + rewrite <- E2 in EU. inversion EU; subst. cbn. right. repeat split; auto.
      replace (len W + 1) with (total W true) by reflexivity. apply fr_nil.
  - cbn [app] in EU. inversion EU; subst x rest.
    inversion H6 as [o E1 E2 E3|o d r e' Hd Hs Hc E1 E2 E3|Hf E1 E2 E3]; subst.
    + cbn. left. exists d, nu', e, fr. repeat split; auto.
    + cbn. right. repeat split; auto.
Qed.

Lemma sendLoop_ok W fin : forall fuel t endv limit a n,
  1 <= limit -> InvA W fin a n (SN t) ->
  exists n', n <= n' /\ InvA W fin a n' (SN (sendLoop fuel t endv limit)) /\
             Ext W fin t (sendLoop fuel t endv limit).
Proof.
  induction fuel as [|f IH]; intros t endv limit a n Hl HI.
  { exists n. cbn. split; [lia|]. split; [exact HI|apply Ext_refl]. }
  rewrite sendLoop_S. cbv zeta.
  destruct (wunsent (SN t)) as [|w rest] eqn:EU.
  { exists n. split; [lia|]. split; [exact HI|apply Ext_refl]. }
  destruct (negb (outstanding (SN t) <? cwnd (SN t))).
  { exists n. split; [lia|]. split; [exact HI|apply Ext_refl]. }
  destruct (head_cases W fin a n (SN t) w rest HI EU) as (m & Hsent & Ha0 & Ham & Hmn & Hnw & Hcase).
  pose proof HI as HI0.
  unfold InvA in HI. destruct HI as (m0 & e0 & fl & nu0 & fr0 & I1 & I2 & I3 & _ & _ & _ & _ & _ & _ & _ & _ & I12 & I13 & I14 & I15 & I16).
  pose proof (bound_lt W I16) as HB2. unfold BOUND in I16. change (2^30) with 1073741824 in I16.
  set (w1 := numbered (SN t) w) in *. clearbody w1.
  destruct Hcase as [(d & nu1 & e1 & fr1 & Ew & Hd & Hs & Hc & Hfr & Er & Hne)|(Ed & Eq & Em & Ef & Hfr)].
  - (* data segment *)
    subst w1. cbn [w_data w_seq w_flags].
    pose proof (slice_bounds _ _ _ Hs) as Hsb. pose proof (len_pos_nonnil _ Hd) as Hdp.
    pose proof (chain_le _ _ _ _ _ _ Hc) as Hce. pose proof (fresh_hi _ _ _ _ Hfr) as Hfh.
    assert (Ht : total W fin <= len W + 1) by (unfold total; destruct fin; lia).
    replace (len d =? 0) with false by lia.
    destruct (lessThan (seq_of m) endv) eqn:LT; cbn [negb].
    2:{ (* window closed *)
      exists n. split; [lia|]. split; [|apply Ext_pure; reflexivity].
      unfold InvA. cbn. rewrite I1, I2, I3.
      exists m, e1, fl, (mkW (seq_of m) fDATA d :: nu1), fr1. rewrite Er.
      repeat split; auto; try lia. apply ch_data; auto. }
    apply lessThan_size_pos in LT.
    set (av := if limit <? size (seq_of m) endv then limit else size (seq_of m) endv).
    assert (Hav : 1 <= av <= 2^31) by (subst av; destruct (limit <? _) eqn:?; lia).
    clearbody av. consts.
    destruct (av <? len d) eqn:SP.
    + (* split at av *)
      cbn [w_data w_seq w_flags].
      rewrite (len_takeZ av d) by lia. rewrite (u32_small av) by lia. rewrite !seq_of_add.
      match goal with |- context [emit t ?s' ?dd ?ff ?sq ?se] =>
        destruct (emit_spec W fin t s' dd ff sq se (m + av) n) as (X & N1 & N2 & N3 & N4 & N5 & N6 & N7);
          [cbn; exact I2|reflexivity|consts; lia|intros; apply good_data, slice_take, Hs|];
        cbn in N2, N3, N4, N5, N6, N7;
        set (t3 := emit t s' dd ff sq se) in * end.
      clearbody t3.
      destruct (IH t3 endv limit a (Z.max n (m + av)) Hl) as (n' & Hn' & HI' & X').
      { unfold InvA. rewrite N1, N2, N3, N4, N5, N6, N7, I1, I3.
        exists (m + av), e1, fl, (mkW (seq_of (m + av)) fDATA (dropZ av d) :: nu1), fr1. rewrite Er.
        repeat split; auto; try lia.
        - replace (m + av) with (m + len (takeZ av d)) at 2 by (rewrite len_takeZ; lia).
          apply chain_snoc_data; [exact Hsent|apply takeZ_nonnil; [lia|exact Hd]|apply slice_take, Hs].
        - apply ch_data; [apply dropZ_nonnil; lia|apply slice_drop; [exact Hs|lia]|].
          rewrite len_dropZ by lia. replace (m + av + (len d - av)) with (m + len d) by lia. exact Hc. }
      exists n'. split; [lia|]. split; [exact HI'|eapply Ext_trans; eauto].
    + (* whole segment *)
      cbn [w_data w_seq w_flags].
      rewrite (u32_small (len d)) by lia. rewrite !seq_of_add.
      match goal with |- context [emit t ?s' ?dd ?ff ?sq ?se] =>
        destruct (emit_spec W fin t s' dd ff sq se (m + len d) n) as (X & N1 & N2 & N3 & N4 & N5 & N6 & N7);
          [cbn; exact I2|reflexivity|consts; lia|intros; apply good_data, Hs|];
        cbn in N2, N3, N4, N5, N6, N7;
        set (t3 := emit t s' dd ff sq se) in * end.
      clearbody t3.
      destruct (IH t3 endv limit a (Z.max n (m + len d)) Hl) as (n' & Hn' & HI' & X').
      { unfold InvA. rewrite N1, N2, N3, N4, N5, N6, N7, I1, I3.
        exists (m + len d), e1, fl, nu1, fr1. rewrite Er.
        repeat split; auto; try lia.
        apply chain_snoc_data; auto. }
      exists n'. split; [lia|]. split; [exact HI'|eapply Ext_trans; eauto].
  - (* FIN *)
    rewrite Ed, Eq. change (len [] =? 0) with true. cbn match. rewrite seq_of_add.
    subst fin.
    match goal with |- context [emit t ?s' ?dd ?ff ?sq ?se] =>
      destruct (emit_spec W true t s' dd ff sq se (len W + 1) n) as (X & N1 & N2 & N3 & N4 & N5 & N6 & N7);
        [cbn; exact I2|reflexivity|consts; lia|intros; apply good_fin|];
      cbn in N2, N3, N4, N5, N6, N7;
      set (t3 := emit t s' dd ff sq se) in * end.
    clearbody t3.
    destruct (IH t3 endv limit a (Z.max n (len W + 1)) Hl) as (n' & Hn' & HI' & X').
    { unfold InvA. rewrite N1, N2, N3, N4, N5, N6, N7, I1, I3.
      exists (len W + 1), (len W + 1), fl, [], rest.
      repeat split; auto; try lia.
      - subst m. eapply chain_app; [exact Hsent|]. apply ch_fin. reflexivity.
      - apply ch_nil. }
    exists n'. split; [lia|]. split; [exact HI'|eapply Ext_trans; eauto].
Qed.

End Snd.
