(* Proofs about Model/Sleep.v (property C19), part 4: what a step's events say about the states
   around it ([step_shape]), and the event monitor of Model/SleepSpec.v follows the state
   ([ghost_step], [ghost_run]). *)
From Coq Require Import ZArith Bool List Arith Lia.
From NP Require Import Model.Sleep Model.SleepSpec Proofs.SleepBaseP Proofs.SleepInvP Proofs.SleepInv2P.
Import ListNotations.

Lemma in_pulls : forall e pl l, In e (map EPull pl ++ l) -> (exists w, e = EPull w) \/ In e l.
Proof.
  intros e pl l H. apply in_app_or in H. destruct H as [H|H]; [left|right; assumption].
  apply in_map_iff in H. destruct H as [w [Hw _]]. exists w. auto.
Qed.

Ltac in_cases :=
  repeat match goal with
  | H : In _ (map EPull _ ++ _) |- _ => apply in_pulls in H; destruct H as [[? H]|H]; [discriminate H|]
  | H : In _ (map EPull _) |- _ => apply in_map_iff in H; destruct H as [? [H _]]; discriminate H
  | H : In _ (_ :: _) |- _ => destruct H as [H|H]; [try discriminate H|]
  | H : In _ [] |- _ => destruct H
  end.

Ltac dmatch2 H :=
  repeat (cbv beta iota zeta in H;
  match type of H with
  | context [match ?x with _ => _ end] =>
      lazymatch x with
      | context [match _ with _ => _ end] => fail
      | _ => destruct x eqn:?; try discriminate H
      end
  end).

Ltac crack2 H Hpc :=
  unfold step_ev, step_gen in H;
  match type of H with (if negb (Nat.ltb ?t ?n) then _ else _) = _ =>
    destruct (Nat.ltb_spec t n) as [Hlt|Hlt]; cbn [negb] in H; [|discriminate H] end;
  rewrite Hpc in H;
  unfold some2, done_next in H; unfold enter_next in H;
  dmatch2 H; cbv beta iota zeta in H; inversion H; subst; clear H.

Lemma step_shape : forall st t st' evs, inv st -> step_ev st t = Some (st', evs) ->
  (forall t', In (ERetFetchNone t') evs -> pc_of st t = PNwLoad1 (CFetch false) /\ shared st = []) /\
  (forall t', In (ERetDone t') evs -> allw st' = [] /\ pc_of st' t = PIdle) /\
  (t <> 0 -> allw st' = allw st /\ (pc_of st' 0 = pc_of st 0 \/ is_parked (pc_of st 0) = true)).
Proof.
  intros st t st' evs Hinv H.
  assert (Hs0 : sleeper_pc (pc_of st t) = true -> t = 0) by (apply sleeper_is_0 with (b := true); exact Hinv).
  destruct (pc_of st t) eqn:Hpc; crack2 H Hpc; norm; unfold pc_of in *; norm.
  all: repeat split; intros; in_cases; try (rewrite (nth_lset_same _ _ _ _ Hlt)); try reflexivity; try assumption.
  all: try (exfalso; match goal with Hn : ?t <> 0 |- _ => apply Hn; apply Hs0; reflexivity end).
  all: try solve [exfalso; match goal with Hn : ?t <> 0, Hb : (?t =? 0) = true |- _ => apply Nat.eqb_eq in Hb; congruence end].
  all: try solve [left; apply nth_lset_other; assumption].
  all: try solve [exfalso; match goal with Hn : ?t <> 0, Hb : (?t =? 0) && _ = true |- _ =>
                    apply andb_prop in Hb; destruct Hb as [Hb _]; apply Nat.eqb_eq in Hb; congruence end].
  right. rewrite (nth_lset_other _ t 0 _ _ H) in Heqp. rewrite Heqp. reflexivity.
Qed.

(* ------------------------------------------------------------------ the event monitor follows the state *)
Definition ghost (st : state) (m : mon) : Prop :=
  m_ok m = true /\ forall w, (ws st w = WAst <-> m_arm m w = true) /\ wident st w = m_ids m w.

Lemma fold_pulls : forall pl m, fold_left mon_step (map EPull pl) m = m.
Proof. induction pl; simpl; intros; [reflexivity|apply IHpl]. Qed.

Lemma wstate_eqb_eq : forall a b, wstate_eqb a b = true -> a = b.
Proof. destruct a, b; simpl; congruence. Qed.

Lemma ghost_step : forall st t st' evs m,
  inv st -> ghost st m -> step_ev st t = Some (st', evs) -> ghost st' (fold_left mon_step evs m).
Proof.
  intros st t st' evs m Hinv [Hok Hg] H.
  assert (Hs0 : sleeper_pc (pc_of st t) = true -> t = 0) by (apply sleeper_is_0 with (b := true); exact Hinv).
  pose proof (i_awcas _ _ Hinv) as Hawc.
  destruct (pc_of st t) eqn:Hpc; crack2 H Hpc; norm.
  all: try (assert (t = 0) by (apply Hs0; reflexivity); subst t).
  all: cbn [fold_left mon_step app]; rewrite ?fold_left_app, ?fold_pulls; cbn [fold_left mon_step].
  all: split; cbn [m_ok m_arm m_ids]; try assumption.
  all: try solve [intros w0; specialize (Hg w0); norm; unfold upd, setf; eqb_cases; ws_facts; intuition congruence].
  - apply wstate_eqb_eq in Heqb. specialize (Hawc _ _ Hpc).
    intros w0; specialize (Hg w0); norm; unfold upd; eqb_cases; intuition congruence.
  - rewrite Hok. destruct (Hg w) as [[Ha _] Hi]. rewrite (Ha Heqw0). rewrite Hi, Z.eqb_refl. reflexivity.
Qed.

Lemma ghost_init : forall ps, ghost (init ps) mon0.
Proof. intros ps. split; [reflexivity|]. intros w. simpl. split; [split; discriminate|reflexivity]. Qed.

Lemma ghost_run : forall sched st st' evs m,
  inv st -> ghost st m -> run st sched = Some (st', evs) -> ghost st' (fold_left mon_step evs m).
Proof.
  induction sched as [|t r IH]; intros st st' evs m Hinv Hg H; unfold run in *; simpl in H.
  - inversion H; subst. exact Hg.
  - destruct (step_gen true st t) as [[s1 e1]|] eqn:Hs; [|discriminate].
    destruct (run_gen true s1 r) as [[s2 e2]|] eqn:Hr; [|discriminate]. inversion H; subst.
    rewrite fold_left_app. eapply IH; [| |exact Hr].
    + eapply inv_step; eauto.
    + eapply ghost_step; eauto.
Qed.

