(* The state a completed handshake hands to the connection (Model/TcpEst.v transfer) satisfies
   the initial conditions of the stream theorems (Proofs/TcpNetP.v conn_init): the handshake model
   and the connection model are joined by a proved lemma, not by an assumption. *)
From Coq Require Import ZArith List Bool Lia.
From NP Require Import Model.Seqnum Model.Tcp Proofs.SeqnumP.
From NP Require Model.TcpHs Model.TcpEst.
From NP Require Proofs.TcpRcvP Proofs.TcpSndP Proofs.TcpNetP.
Import ListNotations.
Open Scope Z_scope.

Lemma maxOptLen_range ts sack : 0 <= TcpEst.maxOptLen ts sack <= 40.
Proof. destruct ts, sack; vm_compute; split; discriminate. Qed.

Lemma initMaxPayload_pos mss mtu ts sack : 1 <= mss -> 1 <= TcpEst.initMaxPayload mss mtu ts sack.
Proof.
  intros H. unfold TcpEst.initMaxPayload. cbv zeta.
  destruct (mss <=? mtu - 20 - TcpEst.maxOptLen ts sack) eqn:E1; [exact H|].
  destruct (mtu - 20 - TcpEst.maxOptLen ts sack <=? 0) eqn:E2; [lia|].
  apply Z.leb_gt in E2. lia.
Qed.

(* never more than the peer's MSS, never more than what fits the route MTU with the largest option block *)
Lemma initMaxPayload_le mss mtu ts sack :
  TcpEst.initMaxPayload mss mtu ts sack <= mss \/ TcpEst.initMaxPayload mss mtu ts sack = 1.
Proof.
  unfold TcpEst.initMaxPayload. cbv zeta.
  destruct (mss <=? mtu - 20 - TcpEst.maxOptLen ts sack) eqn:E1; [left; lia|].
  destruct (mtu - 20 - TcpEst.maxOptLen ts sack <=? 0) eqn:E2; [right; reflexivity|].
  apply Z.leb_gt in E1. left. lia.
Qed.

Lemma initMaxPayload_bound mss mtu ts sack :
  1 <= mss ->
  1 <= TcpEst.initMaxPayload mss mtu ts sack /\
  (TcpEst.initMaxPayload mss mtu ts sack <= mss \/ TcpEst.initMaxPayload mss mtu ts sack = 1).
Proof. intros H. split; [exact (initMaxPayload_pos mss mtu ts sack H)|exact (initMaxPayload_le mss mtu ts sack)]. Qed.

Lemma u32_idem x : u32 (u32 x) = u32 x.
Proof. unfold u32. apply Z.mod_mod. change (2^32) with 4294967296. lia. Qed.

Lemma u32_pred_succ x : u32 (u32 (u32 (x + 1) - 1) + 1) = u32 (x + 1).
Proof.
  unfold u32. change (2^32) with 4294967296.
  rewrite Zplus_mod_idemp_l.
  replace ((x + 1) mod 4294967296 - 1 + 1) with ((x + 1) mod 4294967296) by lia.
  apply Z.mod_mod. lia.
Qed.

Lemma u32_small x : is_u32 x -> u32 x = x.
Proof. unfold is_u32, u32. intros H. apply Z.mod_small. exact H. Qed.

(* ---- sender side *)
Lemma transfer_snd_init h rb sb mtu :
  is_u32 (TcpHs.h_iss h) -> 1 <= TcpHs.h_mss h ->
  TcpNetP.snd_init (TcpHs.h_iss h) (TcpEst.transfer h rb sb mtu).
Proof.
  intros Hi Hm. unfold TcpNetP.snd_init, TcpSndP.established, TcpEst.transfer, TcpEst.newSender. cbn.
  repeat split; try reflexivity.
  - symmetry. apply u32_small. exact Hi.
  - apply initMaxPayload_pos. exact Hm.
Qed.

(* ---- receiver side: the peer's initial sequence number is the handshake's ackNum - 1 *)
Lemma transfer_rcv_init h rb sb mtu irs :
  TcpHs.h_ackNum h = u32 (irs + 1) ->
  TcpNetP.rcv_init irs (TcpEst.transfer h rb sb mtu).
Proof.
  intros Ha. unfold TcpNetP.rcv_init, TcpEst.transfer, TcpEst.newReceiver, seq_of. cbn.
  repeat split; try reflexivity.
  rewrite Ha. replace (irs + 1 + 0) with (irs + 1) by lia. apply u32_pred_succ.
Qed.

(* ---- both ends: two completed handshakes that acknowledged each other's SYN start a connection
        to which the stream theorem applies *)
Theorem handshakes_establish_conn hA hB rbA sbA mtuA rbB sbB mtuB :
  is_u32 (TcpHs.h_iss hA) -> is_u32 (TcpHs.h_iss hB) ->
  1 <= TcpHs.h_mss hA -> 1 <= TcpHs.h_mss hB ->
  TcpHs.h_ackNum hA = u32 (TcpHs.h_iss hB + 1) ->
  TcpHs.h_ackNum hB = u32 (TcpHs.h_iss hA + 1) ->
  TcpNetP.conn_init (TcpHs.h_iss hA) (TcpHs.h_iss hB)
                    (TcpEst.transfer hA rbA sbA mtuA) (TcpEst.transfer hB rbB sbB mtuB).
Proof.
  intros IA IB MA MB AA AB. unfold TcpNetP.conn_init.
  split; [apply transfer_snd_init; assumption|].
  split; [apply transfer_snd_init; assumption|].
  split; [apply transfer_rcv_init; assumption|apply transfer_rcv_init; assumption].
Qed.

(* the stream theorem from the handshakes on *)
Theorem stream_prefix_from_handshakes hA hB rbA sbA mtuA rbB sbB mtuB ms :
  is_u32 (TcpHs.h_iss hA) -> is_u32 (TcpHs.h_iss hB) ->
  1 <= TcpHs.h_mss hA -> 1 <= TcpHs.h_mss hB ->
  TcpHs.h_ackNum hA = u32 (TcpHs.h_iss hB + 1) ->
  TcpHs.h_ackNum hB = u32 (TcpHs.h_iss hA + 1) ->
  let a0 := TcpEst.transfer hA rbA sbA mtuA in
  let b0 := TcpEst.transfer hB rbB sbB mtuB in
  let ea := fst (TcpNetP.sys_run a0 b0 ms) in
  let eb := snd (TcpNetP.sys_run a0 b0 ms) in
  len (TcpSndP.written a0 ea) < 2^30 -> len (TcpSndP.written b0 eb) < 2^30 ->
  (exists rest, concat (TcpRcvP.reads_run b0 eb) ++ rest = TcpSndP.written a0 ea) /\
  (exists rest, concat (TcpRcvP.reads_run a0 ea) ++ rest = TcpSndP.written b0 eb).
Proof.
  intros IA IB MA MB AA AB a0 b0 ea eb.
  apply (TcpNetP.tcp_stream_prefix (TcpHs.h_iss hA) (TcpHs.h_iss hB) a0 b0 ms).
  apply handshakes_establish_conn; assumption.
Qed.

(* ---- an active open answered by a SYN-ACK: what the established state looks like *)
Lemma active_established_spec iss irs peerWnd o stackSack rb sb linkMtu iphdr t :
  is_u32 iss ->
  TcpEst.active_established iss irs peerWnd o stackSack rb sb linkMtu iphdr = Some t ->
  (* the congestion window starts at 10 segments, nothing in flight, timer off *)
  cwnd (SN t) = 10 /\ outstanding (SN t) = 0 /\ tstate (SN t) = tDisabled /\ rto (SN t) = 1000000000 /\
  (* the window field of the SYN-ACK is taken as is: SYN segments are never scaled *)
  sndWnd (SN t) = peerWnd /\
  (* the send scale is the peer's option, 0 when it sent none *)
  sndWndScale (SN t) = (if 0 <? TcpHs.so_ws o then TcpHs.so_ws o else 0) /\
  (* our own scale applies only if the peer sent the option *)
  rcvWndScale (RC t) = (if TcpHs.so_ws o <? 0 then 0 else TcpHs.findWndScale rb) /\
  sndUna (SN t) = u32 (iss + 1) /\ sndNxt (SN t) = u32 (iss + 1) /\
  rcvNxt (RC t) = u32 (irs + 1).
Proof.
  intros Hi. unfold TcpEst.active_established. cbv zeta.
  unfold TcpHs.hsHandle, TcpHs.hsActiveInit. cbn [TcpHs.h_state TcpHs.h_sndWndScale TcpHs.hs_flags].
  replace (TcpHs.has (Z.lor TcpHs.fSyn TcpHs.fAck) TcpHs.fSyn) with true by reflexivity.
  cbn [negb andb]. change (TcpHs.stSynSent =? TcpHs.stSynRcvd) with false. cbv iota.
  change (TcpHs.stSynSent =? TcpHs.stSynSent) with true. cbv iota.
  unfold TcpHs.synSentState. cbn [TcpHs.hs_flags].
  replace (TcpHs.has (Z.lor TcpHs.fSyn TcpHs.fAck) TcpHs.fRst) with false by reflexivity.
  cbv iota.
  unfold TcpHs.checkAck. cbn [TcpHs.hs_flags TcpHs.hs_ack TcpHs.h_iss].
  replace (TcpHs.has (Z.lor TcpHs.fSyn TcpHs.fAck) TcpHs.fAck) with true by reflexivity.
  cbn [andb].
  rewrite Z.eqb_refl. cbn [negb andb]. cbv iota.
  replace (TcpHs.has (Z.lor TcpHs.fSyn TcpHs.fAck) TcpHs.fSyn) with true by reflexivity.
  cbn [negb]. cbv iota.
  cbn [TcpHs.setState TcpHs.enableOpts TcpHs.h_state TcpHs.hs_opts TcpHs.hs_seq].
  change (0 =? 0) with true. change (TcpHs.stCompleted =? TcpHs.stCompleted) with true. cbn [andb]. cbv iota.
  intros E. injection E as <-.
  unfold TcpEst.transfer, TcpEst.newSender, TcpEst.newReceiver, TcpHs.effectiveRcvWndScale. cbn.
  repeat split; try reflexivity.
  replace (irs + 1) with (irs + 1) by reflexivity. apply u32_pred_succ.
Qed.

Lemma active_established_cc iss irs peerWnd o stackSack rb sb linkMtu iphdr t :
  is_u32 iss ->
  TcpEst.active_established iss irs peerWnd o stackSack rb sb linkMtu iphdr = Some t ->
  cwnd (SN t) = 10 /\ outstanding (SN t) = 0 /\ tstate (SN t) = tDisabled /\ rto (SN t) = 1000000000.
Proof.
  intros Hi E. destruct (active_established_spec _ _ _ _ _ _ _ _ _ _ Hi E) as (A & B & C & D & _).
  repeat split; assumption.
Qed.

(* non-vacuity: a SYN-ACK with MSS 1460, window scale 7, timestamps, window field 1000, received
   by a stack with a 2 MiB receive buffer whose ISS is the last value before the wrap *)
Example ex_active_established :
  exists t, TcpEst.active_established 4294967295 2147483647 1000 (TcpHs.mkSO 1460 7 true false) true
                                      2097152 1048576 1500 20 = Some t
            /\ sndWnd (SN t) = 1000 /\ sndWndScale (SN t) = 7 /\ rcvWndScale (RC t) = 6
            /\ maxPayload (SN t) = 1448 /\ sndNxt (SN t) = 0 /\ rcvNxt (RC t) = 2147483648.
Proof. eexists. split; [vm_compute; reflexivity|]. vm_compute. repeat split; reflexivity. Qed.

(* ---- the completed handshake behind an active open *)
Lemma active_established_inv iss irs peerWnd o stackSack rb sb linkMtu iphdr t :
  TcpEst.active_established iss irs peerWnd o stackSack rb sb linkMtu iphdr = Some t ->
  exists h, t = TcpEst.transfer h rb sb (linkMtu - iphdr) /\
            TcpHs.h_iss h = iss /\ TcpHs.h_mss h = TcpHs.so_mss o /\ TcpHs.h_ackNum h = u32 (irs + 1).
Proof.
  unfold TcpEst.active_established. cbv zeta.
  unfold TcpHs.hsHandle, TcpHs.hsActiveInit. cbn [TcpHs.h_state TcpHs.h_sndWndScale TcpHs.hs_flags].
  replace (TcpHs.has (Z.lor TcpHs.fSyn TcpHs.fAck) TcpHs.fSyn) with true by reflexivity.
  cbn [negb andb]. change (TcpHs.stSynSent =? TcpHs.stSynRcvd) with false. cbv iota.
  change (TcpHs.stSynSent =? TcpHs.stSynSent) with true. cbv iota.
  unfold TcpHs.synSentState. cbn [TcpHs.hs_flags].
  replace (TcpHs.has (Z.lor TcpHs.fSyn TcpHs.fAck) TcpHs.fRst) with false by reflexivity.
  cbv iota.
  unfold TcpHs.checkAck. cbn [TcpHs.hs_flags TcpHs.hs_ack TcpHs.h_iss].
  replace (TcpHs.has (Z.lor TcpHs.fSyn TcpHs.fAck) TcpHs.fAck) with true by reflexivity.
  cbn [andb].
  rewrite Z.eqb_refl. cbn [negb andb]. cbv iota.
  replace (TcpHs.has (Z.lor TcpHs.fSyn TcpHs.fAck) TcpHs.fSyn) with true by reflexivity.
  cbn [negb]. cbv iota.
  cbn [TcpHs.setState TcpHs.enableOpts TcpHs.h_state TcpHs.hs_opts TcpHs.hs_seq].
  change (0 =? 0) with true. change (TcpHs.stCompleted =? TcpHs.stCompleted) with true. cbn [andb]. cbv iota.
  intros E. injection E as <-.
  eexists. split; [reflexivity|]. cbn. repeat split; reflexivity.
Qed.

Lemma active_snd_init iss irs peerWnd o stackSack rb sb linkMtu iphdr t :
  is_u32 iss -> 1 <= TcpHs.so_mss o ->
  TcpEst.active_established iss irs peerWnd o stackSack rb sb linkMtu iphdr = Some t ->
  TcpNetP.snd_init iss t /\ TcpNetP.rcv_init irs t.
Proof.
  intros Hi Hm E. destruct (active_established_inv _ _ _ _ _ _ _ _ _ _ E) as (h & -> & H1 & H2 & H3).
  split.
  - rewrite <- H1. apply transfer_snd_init; [rewrite H1; exact Hi|rewrite H2; exact Hm].
  - apply transfer_rcv_init. exact H3.
Qed.

(* ---- passive open: the accepted connection *)
Lemma passive_init iss irs synWnd o stackSack lrcv sb mtu :
  is_u32 iss -> 1 <= TcpHs.so_mss o ->
  let t := TcpEst.passive_established iss irs synWnd o stackSack lrcv sb mtu in
  TcpNetP.snd_init iss t /\ TcpNetP.rcv_init irs t.
Proof.
  intros Hi Hm t. subst t.
  unfold TcpNetP.snd_init, TcpSndP.established, TcpNetP.rcv_init, TcpEst.passive_established,
         TcpEst.newSender, TcpEst.newReceiver, seq_of. cbn.
  repeat split; try reflexivity.
  - symmetry. apply u32_small. exact Hi.
  - apply initMaxPayload_pos. exact Hm.
  - replace (irs + 1 + 0) with (irs + 1) by lia. reflexivity.
Qed.

(* the window an accepted connection starts with is the SYN's window field as it is (a SYN's
   window is never scaled); the scale is the SYN's option; our own scale applies only if the SYN
   carried the option; initial window 10, timer off *)
Lemma passive_established_spec iss irs synWnd o stackSack lrcv sb mtu :
  let t := TcpEst.passive_established iss irs synWnd o stackSack lrcv sb mtu in
  sndWnd (SN t) = synWnd /\
  sndWndScale (SN t) = (if 0 <? TcpHs.so_ws o then TcpHs.so_ws o else 0) /\
  rcvWndScale (RC t) = (if TcpHs.so_ws o <? 0 then 0 else TcpHs.findWndScale lrcv) /\
  cwnd (SN t) = 10 /\ outstanding (SN t) = 0 /\ tstate (SN t) = tDisabled /\
  sndNxt (SN t) = u32 (iss + 1) /\ rcvNxt (RC t) = u32 (irs + 1).
Proof. cbn. repeat split; reflexivity. Qed.

(* ---- a client's active open answered by a listener: the two ends the stream theorem starts from *)
Theorem active_passive_conn issA issB wndA wndB oA oB skA skB rbA sbA linkMtuA iphdrA lrcvB sbB mtuB tA :
  is_u32 issA -> is_u32 issB -> 1 <= TcpHs.so_mss oA -> 1 <= TcpHs.so_mss oB ->
  (* A's SYN carried (issA, wndA, oA); B's SYN-ACK carried (issB, wndB, oB) *)
  TcpEst.active_established issA issB wndB oB skA rbA sbA linkMtuA iphdrA = Some tA ->
  TcpNetP.conn_init issA issB tA (TcpEst.passive_established issB issA wndA oA skB lrcvB sbB mtuB).
Proof.
  intros IA IB MA MB E.
  destruct (active_snd_init _ _ _ _ _ _ _ _ _ _ IA MB E) as [SA RA].
  destruct (passive_init issB issA wndA oA skB lrcvB sbB mtuB IB MA) as [SB RB].
  unfold TcpNetP.conn_init. split; [exact SA|]. split; [exact SB|]. split; [exact RA|exact RB].
Qed.
