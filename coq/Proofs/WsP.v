(* Lemmas about Model/Ws.v and Model/Base64.v: frame encode/decode round trip for every length
   class and masking key, streams of frames, RFC 4648 base64, the accept key, the upgrade checks. *)
From Coq Require Import String.
From Coq Require Import ZArith List Bool Lia.
From NP Require Import Model.Http Model.Base64 Model.Ws Proofs.HttpP.
Import ListNotations.
Open Scope Z_scope.

(* ------------------------------------------------------------------ finite ranges *)
Fixpoint zrange (lo : Z) (n : nat) : list Z :=
  match n with O => [] | S k => lo :: zrange (lo + 1) k end.

Lemma zrange_in : forall n lo x, lo <= x < lo + Z.of_nat n -> In x (zrange lo n).
Proof.
  induction n as [|n IH]; intros lo x Hx; [lia|]. cbn [zrange].
  destruct (Z.eq_dec x lo) as [->|Hne]; [now left|]. right. apply IH. lia.
Qed.

Lemma range_forall : forall (f : Z -> bool) n, forallb f (zrange 0 n) = true ->
  forall x, 0 <= x < Z.of_nat n -> f x = true.
Proof.
  intros f n Hall x Hx. rewrite forallb_forall in Hall. apply Hall. apply zrange_in. lia.
Qed.

(* ------------------------------------------------------------------ big-endian fields *)
Lemma be16_val : forall v, 0 <= v < 65536 -> be_val (be16 v) = v.
Proof.
  intros v Hv. unfold be16, be_val. cbn [fold_left]. change (2 ^ 8) with 256.
  pose proof (Z.div_mod v 256 ltac:(lia)).
  rewrite (Z.mod_small (v / 256) 256) by (split; [apply Z.div_pos; lia | apply Z.div_lt_upper_bound; lia]).
  lia.
Qed.

Lemma be_step : forall v, 0 <= v -> (v / 256) * 256 + v mod 256 = v.
Proof. intros v Hv. pose proof (Z.div_mod v 256 ltac:(lia)). lia. Qed.

Lemma be64_val : forall v, 0 <= v < 2 ^ 64 -> be_val (be64 v) = v.
Proof.
  intros v Hv. unfold be64, be_val. cbn [fold_left].
  change (2 ^ 56) with (256 * 256 * 256 * 256 * 256 * 256 * 256).
  change (2 ^ 48) with (256 * 256 * 256 * 256 * 256 * 256).
  change (2 ^ 40) with (256 * 256 * 256 * 256 * 256).
  change (2 ^ 32) with (256 * 256 * 256 * 256).
  change (2 ^ 24) with (256 * 256 * 256).
  change (2 ^ 16) with (256 * 256).
  change (2 ^ 8) with 256.
  rewrite <- !Z.div_div by lia.
  set (v1 := v / 256). set (v2 := v1 / 256). set (v3 := v2 / 256). set (v4 := v3 / 256).
  set (v5 := v4 / 256). set (v6 := v5 / 256). set (v7 := v6 / 256).
  assert (H1 : 0 <= v1) by (apply Z.div_pos; lia).
  assert (H2 : 0 <= v2) by (apply Z.div_pos; lia).
  assert (H3 : 0 <= v3) by (apply Z.div_pos; lia).
  assert (H4 : 0 <= v4) by (apply Z.div_pos; lia).
  assert (H5 : 0 <= v5) by (apply Z.div_pos; lia).
  assert (H6 : 0 <= v6) by (apply Z.div_pos; lia).
  assert (H7 : 0 <= v7 < 256).
  { split; [apply Z.div_pos; lia|]. subst v7 v6 v5 v4 v3 v2 v1.
    rewrite !Z.div_div by lia. apply Z.div_lt_upper_bound; [lia|]. change (2 ^ 64) with 18446744073709551616 in Hv. lia. }
  rewrite (Z.mod_small v7 256) by lia.
  rewrite Z.mul_0_l, Z.add_0_l.
  assert (E6 : v7 * 256 + v6 mod 256 = v6) by (subst v7; apply be_step; lia).
  assert (E5 : v6 * 256 + v5 mod 256 = v5) by (subst v6; apply be_step; lia).
  assert (E4 : v5 * 256 + v4 mod 256 = v4) by (subst v5; apply be_step; lia).
  assert (E3 : v4 * 256 + v3 mod 256 = v3) by (subst v4; apply be_step; lia).
  assert (E2 : v3 * 256 + v2 mod 256 = v2) by (subst v3; apply be_step; lia).
  assert (E1 : v2 * 256 + v1 mod 256 = v1) by (subst v2; apply be_step; lia).
  rewrite E6, E5, E4, E3, E2, E1. subst v1. apply be_step. lia.
Qed.

(* ------------------------------------------------------------------ Readn *)
Lemma zlen_app : forall a b, zlen (a ++ b) = zlen a + zlen b.
Proof. intros. unfold zlen. rewrite app_length. lia. Qed.
Lemma zlen_nonneg : forall a, 0 <= zlen a.
Proof. intros. unfold zlen. lia. Qed.

(* Readn hands out exactly the next n bytes and leaves the rest *)
Lemma readn_app : forall a t n, n = zlen a -> readn n (a ++ t) = Some (a, t).
Proof.
  intros a t n ->. unfold readn. rewrite zlen_app.
  pose proof (zlen_nonneg a). pose proof (zlen_nonneg t).
  replace (0 <=? zlen a) with true by (symmetry; apply Z.leb_le; lia).
  replace (zlen a <=? zlen a + zlen t) with true by (symmetry; apply Z.leb_le; lia).
  cbn [andb]. unfold zlen. rewrite Nat2Z.id.
  rewrite firstn_app, firstn_all, Nat.sub_diag, skipn_app, skipn_all, Nat.sub_diag. cbn [firstn skipn].
  now rewrite app_nil_r.
Qed.

Lemma readn_short : forall n s, zlen s < n -> readn n s = None.
Proof.
  intros n s Hn. unfold readn. replace (n <=? zlen s) with false by (symmetry; apply Z.leb_gt; lia).
  now rewrite andb_false_r.
Qed.

(* ------------------------------------------------------------------ masking *)
Lemma mask_from_length : forall key b pos, length (mask_from key pos b) = length b.
Proof. intros key b. induction b as [|x b IH]; intros pos; cbn; [reflexivity | now rewrite IH]. Qed.

Lemma mask_from_involutive : forall key b pos, mask_from key pos (mask_from key pos b) = b.
Proof.
  intros key b. induction b as [|x b IH]; intros pos; cbn [mask_from]; [reflexivity|].
  rewrite IH. f_equal. rewrite Z.lxor_assoc, Z.lxor_nilpotent. apply Z.lxor_0_r.
Qed.

(* unmasking undoes masking, for every key (of any length) and every payload *)
Lemma mask_bytes_involutive : forall key b, mask_bytes key (mask_bytes key b) = b.
Proof. intros. apply mask_from_involutive. Qed.

Lemma mask_bytes_zlen : forall key b, zlen (mask_bytes key b) = zlen b.
Proof. intros. unfold zlen, mask_bytes. now rewrite mask_from_length. Qed.

(* maskBytes indexes the key with pos&3 = i mod 4 *)
Lemma mask_from_nth : forall key b pos i, 0 <= pos -> (i < length b)%nat ->
  nth i (mask_from key pos b) 0
  = Z.lxor (nth i b 0) (nth (Z.to_nat ((pos + Z.of_nat i) mod 4)) key 0).
Proof.
  intros key b. induction b as [|x b IH]; intros pos i Hpos Hi; [cbn in Hi; lia|].
  cbn [mask_from]. destruct i as [|i].
  - cbn [nth]. rewrite Z.add_0_r. change 3 with (Z.ones 2). rewrite Z.land_ones by lia. reflexivity.
  - cbn [nth]. rewrite IH by (cbn in Hi; lia).
    replace (pos + 1 + Z.of_nat i) with (pos + Z.of_nat (S i)) by lia. reflexivity.
Qed.

(* ------------------------------------------------------------------ the second header byte *)
Lemma b1_bits : forall x, 0 <= x < 256 ->
  Z.land x 127 = x mod 128 /\ (Z.land x 128 =? 0) = (x <? 128).
Proof.
  intros x Hx.
  assert (Hall : forallb (fun x => (Z.land x 127 =? x mod 128) && Bool.eqb (Z.land x 128 =? 0) (x <? 128))
                         (zrange 0 256) = true) by (vm_compute; reflexivity).
  pose proof (range_forall _ 256%nat Hall x ltac:(lia)) as Hf. cbv beta in Hf.
  apply andb_true_iff in Hf as [H1 H2]. apply Z.eqb_eq in H1. apply Bool.eqb_prop in H2. now split.
Qed.

Lemma to_int64_small : forall x, 0 <= x < 2 ^ 63 -> to_int64 x = x.
Proof. intros x Hx. unfold to_int64. replace (x <? 2 ^ 63) with true by (symmetry; apply Z.ltb_lt; lia). reflexivity. Qed.

(* ------------------------------------------------------------------ decoding one frame *)
Ltac finish_masked k payload rest Hk :=
  rewrite <- app_assoc;
  rewrite (readn_app k _ 4 ltac:(unfold zlen; rewrite Hk; reflexivity)); cbv beta iota;
  replace (zlen payload <? 0) with false by (symmetry; apply Z.ltb_ge; pose proof (zlen_nonneg payload); lia);
  rewrite (readn_app (mask_bytes k payload) rest (zlen payload) (eq_sym (mask_bytes_zlen k payload)));
  cbv beta iota; now rewrite mask_bytes_involutive.

Ltac finish_unmasked payload rest :=
  cbv beta iota;
  replace (zlen payload <? 0) with false by (symmetry; apply Z.ltb_ge; pose proof (zlen_nonneg payload); lia);
  rewrite (readn_app payload rest (zlen payload) eq_refl); reflexivity.

Ltac header_129 :=
  cbv beta iota; cbn [nth];
  change (Z.land 129 finalBit =? 0) with false; cbv iota;
  change (Z.land 129 15 =? CloseMessage) with false; cbv iota;
  change (Z.land 129 15 =? TextMessage) with true; cbn [negb]; cbv iota.

Lemma ws_read_cls0_masked : forall k payload rest, length k = 4%nat -> zlen payload <= 125 ->
  ws_read (rfc_frame 1 1 (Some k) 0 payload ++ rest) = (WOk payload, rest).
Proof.
  intros k payload rest Hk Hlen. pose proof (zlen_nonneg payload) as Hnn.
  change (rfc_frame 1 1 (Some k) 0 payload ++ rest)
    with ([129; 128 + zlen payload] ++ (k ++ mask_bytes k payload) ++ rest).
  unfold ws_read. rewrite (readn_app [129; 128 + zlen payload] _ 2 eq_refl). header_129.
  destruct (b1_bits (128 + zlen payload) ltac:(lia)) as [Hl Hm].
  unfold maskBit. rewrite Hm, Hl.
  replace (128 + zlen payload <? 128) with false by (symmetry; apply Z.ltb_ge; lia).
  replace ((128 + zlen payload) mod 128) with (zlen payload)
    by (rewrite <- Z.add_mod_idemp_l by lia; change (128 mod 128) with 0; rewrite Z.add_0_l, Z.mod_small; lia).
  cbn [negb].
  replace (zlen payload =? 126) with false by (symmetry; apply Z.eqb_neq; lia).
  replace (zlen payload =? 127) with false by (symmetry; apply Z.eqb_neq; lia).
  cbv iota. finish_masked k payload rest Hk.
Qed.

Lemma ws_read_cls0_plain : forall payload rest, zlen payload <= 125 ->
  ws_read (rfc_frame 1 1 None 0 payload ++ rest) = (WOk payload, rest).
Proof.
  intros payload rest Hlen. pose proof (zlen_nonneg payload) as Hnn.
  change (rfc_frame 1 1 None 0 payload ++ rest) with ([129; 0 + zlen payload] ++ payload ++ rest).
  rewrite Z.add_0_l.
  unfold ws_read. rewrite (readn_app [129; zlen payload] _ 2 eq_refl). header_129.
  destruct (b1_bits (zlen payload) ltac:(lia)) as [Hl Hm].
  unfold maskBit. rewrite Hm, Hl.
  replace (zlen payload <? 128) with true by (symmetry; apply Z.ltb_lt; lia).
  rewrite (Z.mod_small (zlen payload) 128) by lia.
  cbn [negb].
  replace (zlen payload =? 126) with false by (symmetry; apply Z.eqb_neq; lia).
  replace (zlen payload =? 127) with false by (symmetry; apply Z.eqb_neq; lia).
  cbv iota. finish_unmasked payload rest.
Qed.

Lemma ws_read_cls1_masked : forall k payload rest, length k = 4%nat -> zlen payload < 65536 ->
  ws_read (rfc_frame 1 1 (Some k) 1 payload ++ rest) = (WOk payload, rest).
Proof.
  intros k payload rest Hk Hlen. pose proof (zlen_nonneg payload) as Hnn.
  change (rfc_frame 1 1 (Some k) 1 payload ++ rest)
    with ([129; 254] ++ be16 (zlen payload) ++ (k ++ mask_bytes k payload) ++ rest).
  unfold ws_read. rewrite (readn_app [129; 254] _ 2 eq_refl). header_129.
  change (Z.land 254 maskBit =? 0) with false. change (Z.land 254 127) with 126.
  change (126 =? 126) with true. cbn [negb]. cbv iota.
  rewrite (readn_app (be16 (zlen payload)) _ 2 eq_refl). cbv beta iota.
  rewrite be16_val by lia. finish_masked k payload rest Hk.
Qed.

Lemma ws_read_cls1_plain : forall payload rest, zlen payload < 65536 ->
  ws_read (rfc_frame 1 1 None 1 payload ++ rest) = (WOk payload, rest).
Proof.
  intros payload rest Hlen. pose proof (zlen_nonneg payload) as Hnn.
  change (rfc_frame 1 1 None 1 payload ++ rest)
    with ([129; 126] ++ be16 (zlen payload) ++ payload ++ rest).
  unfold ws_read. rewrite (readn_app [129; 126] _ 2 eq_refl). header_129.
  change (Z.land 126 maskBit =? 0) with true. change (Z.land 126 127) with 126.
  change (126 =? 126) with true. cbn [negb]. cbv iota.
  rewrite (readn_app (be16 (zlen payload)) _ 2 eq_refl). cbv beta iota.
  rewrite be16_val by lia. finish_unmasked payload rest.
Qed.

Lemma ws_read_cls2_masked : forall k payload rest, length k = 4%nat -> zlen payload < 2 ^ 63 ->
  ws_read (rfc_frame 1 1 (Some k) 2 payload ++ rest) = (WOk payload, rest).
Proof.
  intros k payload rest Hk Hlen. pose proof (zlen_nonneg payload) as Hnn.
  change (rfc_frame 1 1 (Some k) 2 payload ++ rest)
    with ([129; 255] ++ be64 (zlen payload) ++ (k ++ mask_bytes k payload) ++ rest).
  unfold ws_read. rewrite (readn_app [129; 255] _ 2 eq_refl). header_129.
  change (Z.land 255 maskBit =? 0) with false. change (Z.land 255 127) with 127.
  change (127 =? 126) with false. change (127 =? 127) with true. cbn [negb]. cbv iota.
  rewrite (readn_app (be64 (zlen payload)) _ 8 eq_refl). cbv beta iota.
  change (2 ^ 63) with 9223372036854775808 in Hlen.
  rewrite be64_val by (change (2 ^ 64) with 18446744073709551616; lia).
  rewrite to_int64_small by (change (2 ^ 63) with 9223372036854775808; lia).
  finish_masked k payload rest Hk.
Qed.

Lemma ws_read_cls2_plain : forall payload rest, zlen payload < 2 ^ 63 ->
  ws_read (rfc_frame 1 1 None 2 payload ++ rest) = (WOk payload, rest).
Proof.
  intros payload rest Hlen. pose proof (zlen_nonneg payload) as Hnn.
  change (rfc_frame 1 1 None 2 payload ++ rest)
    with ([129; 127] ++ be64 (zlen payload) ++ payload ++ rest).
  unfold ws_read. rewrite (readn_app [129; 127] _ 2 eq_refl). header_129.
  change (Z.land 127 maskBit =? 0) with true. change (Z.land 127 127) with 127.
  change (127 =? 126) with false. change (127 =? 127) with true. cbn [negb]. cbv iota.
  rewrite (readn_app (be64 (zlen payload)) _ 8 eq_refl). cbv beta iota.
  change (2 ^ 63) with 9223372036854775808 in Hlen.
  rewrite be64_val by (change (2 ^ 64) with 18446744073709551616; lia).
  rewrite to_int64_small by (change (2 ^ 63) with 9223372036854775808; lia).
  finish_unmasked payload rest.
Qed.

(* a length class a peer may use for a payload of that length, and a well-formed mask key *)
Definition class_ok (cls len : Z) : Prop :=
  (cls = 0 /\ len <= 125) \/ (cls = 1 /\ len < 65536) \/ (cls = 2 /\ len < 2 ^ 63).
Definition mask_ok (mask : option (list Z)) : Prop :=
  match mask with Some k => length k = 4%nat | None => True end.

(* DECODING.  One ReadData on a stream that starts with a final text frame -- masked with any key
   or not, length in the 7-bit, 16-bit or 64-bit form (also a longer form than necessary) --
   returns exactly the payload and leaves exactly the bytes after the frame. *)
Lemma ws_read_frame : forall mask cls payload rest,
  class_ok cls (zlen payload) -> mask_ok mask ->
  ws_read (rfc_frame 1 1 mask cls payload ++ rest) = (WOk payload, rest).
Proof.
  intros mask cls payload rest Hc Hm. destruct mask as [k|]; cbn in Hm;
    destruct Hc as [[-> Hl] | [[-> Hl] | [-> Hl]]].
  - now apply ws_read_cls0_masked.
  - now apply ws_read_cls1_masked.
  - now apply ws_read_cls2_masked.
  - now apply ws_read_cls0_plain.
  - now apply ws_read_cls1_plain.
  - now apply ws_read_cls2_plain.
Qed.

(* ------------------------------------------------------------------ the bundled encoder *)
Lemma min_class_ok : forall len, 0 <= len < 2 ^ 63 -> class_ok (min_class len) len.
Proof.
  intros len Hlen. unfold min_class, class_ok.
  destruct (len <=? 125) eqn:H1; [apply Z.leb_le in H1; left; split; [reflexivity | lia]|].
  destruct (len <=? 65535) eqn:H2; [apply Z.leb_le in H2; right; left; split; [reflexivity | lia]|].
  right; right. split; [reflexivity | lia].
Qed.

(* SendData writes the RFC 6455 text frame with FIN set, no mask, and the MINIMAL length form:
   7-bit iff len <= 125, 16-bit iff 126 <= len <= 65535, 64-bit iff len >= 65536. *)
Lemma ws_encode_rfc : forall data, zlen data < 2 ^ 63 ->
  ws_encode data = rfc_frame 1 1 None (min_class (zlen data)) data.
Proof.
  intros data Hlen. pose proof (zlen_nonneg data) as Hnn.
  change (2 ^ 63) with 9223372036854775808 in Hlen.
  unfold ws_encode, min_class, rfc_frame. cbv zeta.
  destruct (65536 <=? zlen data) eqn:H1.
  - apply Z.leb_le in H1.
    replace (zlen data <=? 125) with false by (symmetry; apply Z.leb_gt; lia).
    replace (zlen data <=? 65535) with false by (symmetry; apply Z.leb_gt; lia).
    change (2 =? 0) with false. change (2 =? 1) with false. cbv iota.
    rewrite (Z.mod_small (zlen data) (2 ^ 64)) by (change (2 ^ 64) with 18446744073709551616; lia).
    reflexivity.
  - apply Z.leb_gt in H1. destruct (125 <? zlen data) eqn:H2.
    + apply Z.ltb_lt in H2.
      replace (zlen data <=? 125) with false by (symmetry; apply Z.leb_gt; lia).
      replace (zlen data <=? 65535) with true by (symmetry; apply Z.leb_le; lia).
      change (1 =? 0) with false. change (1 =? 1) with true. cbv iota.
      rewrite (Z.mod_small (zlen data) (2 ^ 16)) by (change (2 ^ 16) with 65536; lia). reflexivity.
    + apply Z.ltb_ge in H2.
      replace (zlen data <=? 125) with true by (symmetry; apply Z.leb_le; lia).
      change (0 =? 0) with true. cbv iota.
      rewrite (Z.mod_small (zlen data) 256) by lia. reflexivity.
Qed.

Lemma ws_length_class : forall data, zlen data < 2 ^ 63 ->
  (zlen data <= 125 -> ws_encode data = [129; zlen data] ++ data)
  /\ (126 <= zlen data <= 65535 -> ws_encode data = [129; 126] ++ be16 (zlen data) ++ data)
  /\ (65536 <= zlen data -> ws_encode data = [129; 127] ++ be64 (zlen data) ++ data)
  /\ (nth 1 (ws_encode data) 0 = 126 <-> 126 <= zlen data <= 65535)
  /\ (nth 1 (ws_encode data) 0 = 127 <-> 65536 <= zlen data)
  /\ (nth 1 (ws_encode data) 0 <= 125 <-> zlen data <= 125).
Proof.
  intros data Hlen. pose proof (zlen_nonneg data) as Hnn. rewrite (ws_encode_rfc data Hlen).
  unfold min_class, rfc_frame. cbv zeta.
  destruct (zlen data <=? 125) eqn:H1; [apply Z.leb_le in H1 | apply Z.leb_gt in H1].
  - change (0 =? 0) with true. cbv iota. cbn [app nth]. repeat split; intros; try lia; try reflexivity.
  - destruct (zlen data <=? 65535) eqn:H2; [apply Z.leb_le in H2 | apply Z.leb_gt in H2].
    + change (1 =? 0) with false. change (1 =? 1) with true. cbv iota. cbn [app nth].
      repeat split; intros; try lia; try reflexivity.
    + change (2 =? 0) with false. change (2 =? 1) with false. cbv iota. cbn [app nth].
      repeat split; intros; try lia; try reflexivity.
Qed.

(* ROUND TRIP: what SendData wrote, ReadData returns -- for EVERY payload shorter than 2^63 *)
Lemma ws_roundtrip_plain : forall data rest, zlen data < 2 ^ 63 ->
  ws_read (ws_encode data ++ rest) = (WOk data, rest).
Proof.
  intros data rest Hlen. rewrite (ws_encode_rfc data Hlen).
  apply ws_read_frame; [apply min_class_ok; pose proof (zlen_nonneg data); lia | exact I].
Qed.

(* ... and a masked frame from any peer (browser), for EVERY 4-byte key *)
Lemma ws_roundtrip_masked : forall key data rest, length key = 4%nat -> zlen data < 2 ^ 63 ->
  ws_read (ws_encode_masked key data ++ rest) = (WOk data, rest).
Proof.
  intros key data rest Hk Hlen. unfold ws_encode_masked.
  apply ws_read_frame; [apply min_class_ok; pose proof (zlen_nonneg data); lia | exact Hk].
Qed.

(* a message as put on the wire by either kind of sender *)
Definition wire (km : option (list Z) * list Z) : list Z :=
  match fst km with Some k => ws_encode_masked k (snd km) | None => ws_encode (snd km) end.
Definition msg_ok (km : option (list Z) * list Z) : Prop :=
  mask_ok (fst km) /\ zlen (snd km) < 2 ^ 63.

Lemma ws_read_wire : forall km rest, msg_ok km -> ws_read (wire km ++ rest) = (WOk (snd km), rest).
Proof.
  intros [[k|] data] rest [Hm Hl]; unfold wire; cbn [fst snd] in *.
  - now apply ws_roundtrip_masked.
  - now apply ws_roundtrip_plain.
Qed.

(* STREAM: a sequence of frames decodes to the sequence of messages, each ReadData consuming
   exactly one frame; what follows the last frame is left untouched *)
Lemma ws_stream_roundtrip : forall msgs rest, Forall msg_ok msgs ->
  ws_read_many (length msgs) (flat_map wire msgs ++ rest) = (map (fun km => WOk (snd km)) msgs, rest).
Proof.
  induction msgs as [|km msgs IH]; intros rest Hok; [reflexivity|].
  inversion Hok as [|? ? Hkm Hrest]; subst.
  cbn [length flat_map ws_read_many map]. rewrite <- app_assoc.
  rewrite (ws_read_wire km _ Hkm). rewrite (IH rest Hrest). reflexivity.
Qed.

(* non-vacuity and the error paths of ReadData on concrete frames *)
Example ws_examples :
  ws_read (ws_encode (s2b "Hello")) = (WOk (s2b "Hello"), [])
  (* RFC 6455 5.7: a single-frame masked text message "Hello" *)
  /\ ws_read [129; 133; 55; 250; 33; 61; 127; 159; 77; 81; 88] = (WOk (s2b "Hello"), [])
  (* FIN clear: fragmented messages are refused *)
  /\ fst (ws_read [1; 3; 72; 101; 108]) = WErrFrag
  (* close and binary frames *)
  /\ fst (ws_read [136; 0]) = WErrClose /\ fst (ws_read [130; 1; 7]) = WErrType
  (* a frame cut short: Readn cannot deliver *)
  /\ fst (ws_read [129; 5; 72; 101]) = WErrRead
  (* a 64-bit length with the top bit set is negative as int64: make panics *)
  /\ fst (ws_read ([129; 127; 128; 0; 0; 0; 0; 0; 0; 0] ++ [1; 2; 3])) = WPanic.
Proof. repeat split; reflexivity. Qed.


(* ------------------------------------------------------------------ base64 (RFC 4648) *)
Definition is_byte (x : Z) : Prop := 0 <= x < 256.

Lemma list_ind3 : forall (P : list Z -> Prop),
  P [] -> (forall a, P [a]) -> (forall a b, P [a; b]) ->
  (forall a b c t, P t -> P (a :: b :: c :: t)) -> forall l, P l.
Proof.
  intros P H0 H1 H2 H3. fix IH 1. intros [|a [|b [|c t]]]; [exact H0 | apply H1 | apply H2 | apply H3, IH].
Qed.

Lemma b64_char_val : forall v, 0 <= v < 64 ->
  b64_val (b64_char v) = Some v /\ (b64_char v =? PAD) = false /\ In (b64_char v) b64_alphabet.
Proof.
  intros v Hv.
  assert (Hall : forallb (fun v => match b64_val (b64_char v) with Some w => w =? v | None => false end
                                   && negb (b64_char v =? PAD)) (zrange 0 64) = true)
    by (vm_compute; reflexivity).
  pose proof (range_forall _ 64%nat Hall v ltac:(lia)) as Hf. cbv beta in Hf.
  apply andb_true_iff in Hf as [H1 H2]. apply negb_true_iff in H2.
  destruct (b64_val (b64_char v)) as [w|]; [|discriminate]. apply Z.eqb_eq in H1. subst.
  repeat split; [exact H2|]. unfold b64_char. apply nth_In.
  change (length b64_alphabet) with 64%nat. lia.
Qed.

Lemma sextets : forall a b c, is_byte a -> is_byte b -> is_byte c ->
  let v1 := a / 4 in let v2 := (a mod 4) * 16 + b / 16 in
  let v3 := (b mod 16) * 4 + c / 64 in let v4 := c mod 64 in
  0 <= v1 < 64 /\ 0 <= v2 < 64 /\ 0 <= v3 < 64 /\ 0 <= v4 < 64
  /\ v1 * 4 + v2 / 16 = a /\ (v2 mod 16) * 16 + v3 / 4 = b /\ (v3 mod 4) * 64 + v4 = c.
Proof.
  unfold is_byte. intros a b c Ha Hb Hc. cbv zeta. repeat split; Z.div_mod_to_equations; lia.
Qed.

Lemma quantum3 : forall a b c last, is_byte a -> is_byte b -> is_byte c ->
  b64_quantum (b64_char (a / 4)) (b64_char ((a mod 4) * 16 + b / 16))
              (b64_char ((b mod 16) * 4 + c / 64)) (b64_char (c mod 64)) last = Some [a; b; c].
Proof.
  intros a b c last Ha Hb Hc.
  destruct (sextets a b c Ha Hb Hc) as (R1 & R2 & R3 & R4 & E1 & E2 & E3).
  destruct (b64_char_val _ R1) as (V1 & _ & _). destruct (b64_char_val _ R2) as (V2 & _ & _).
  destruct (b64_char_val _ R3) as (V3 & P3 & _). destruct (b64_char_val _ R4) as (V4 & P4 & _).
  unfold b64_quantum. rewrite V1, V2, P3. cbn [andb]. rewrite V3, P4, V4. now rewrite E1, E2, E3.
Qed.

Lemma quantum2 : forall a b, is_byte a -> is_byte b ->
  b64_quantum (b64_char (a / 4)) (b64_char ((a mod 4) * 16 + b / 16))
              (b64_char ((b mod 16) * 4)) PAD true = Some [a; b].
Proof.
  intros a b Ha Hb.
  destruct (sextets a b 0 Ha Hb ltac:(unfold is_byte; lia)) as (R1 & R2 & R3 & _ & E1 & E2 & _).
  change (0 / 64) with 0 in *. rewrite Z.add_0_r in *.
  destruct (b64_char_val _ R1) as (V1 & _ & _). destruct (b64_char_val _ R2) as (V2 & _ & _).
  destruct (b64_char_val _ R3) as (V3 & P3 & _).
  unfold b64_quantum. rewrite V1, V2, P3. cbn [andb]. rewrite V3. change (PAD =? PAD) with true. cbv iota.
  replace ((b mod 16 * 4) mod 4 =? 0) with true by (symmetry; apply Z.eqb_eq; Z.div_mod_to_equations; lia).
  cbn [andb]. now rewrite E1, E2.
Qed.

Lemma quantum1 : forall a, is_byte a ->
  b64_quantum (b64_char (a / 4)) (b64_char ((a mod 4) * 16)) PAD PAD true = Some [a].
Proof.
  intros a Ha.
  destruct (sextets a 0 0 Ha ltac:(unfold is_byte; lia) ltac:(unfold is_byte; lia)) as (R1 & R2 & _ & _ & E1 & _ & _).
  change (0 / 16) with 0 in *. rewrite Z.add_0_r in *.
  destruct (b64_char_val _ R1) as (V1 & _ & _). destruct (b64_char_val _ R2) as (V2 & _ & _).
  unfold b64_quantum. rewrite V1, V2. change (PAD =? PAD) with true. cbn [andb].
  replace ((a mod 4 * 16) mod 16 =? 0) with true by (symmetry; apply Z.eqb_eq; Z.div_mod_to_equations; lia).
  cbv iota. now rewrite E1.
Qed.

(* RFC 4648: decoding the encoding gives the bytes back *)
Lemma b64_decode_encode : forall l, Forall is_byte l -> b64_decode (b64_encode l) = Some l.
Proof.
  induction l as [| a | a b | a b c t IH] using list_ind3; intros Hl.
  - reflexivity.
  - inversion Hl; subst. cbn [b64_encode b64_decode]. now rewrite quantum1.
  - inversion Hl as [|? ? Ha Hl']; subst. inversion Hl'; subst.
    cbn [b64_encode b64_decode]. now rewrite quantum2.
  - inversion Hl as [|? ? Ha Hl1]; subst. inversion Hl1 as [|? ? Hb Hl2]; subst.
    inversion Hl2 as [|? ? Hc Hl3]; subst.
    cbn [b64_encode b64_decode]. rewrite quantum3 by assumption. cbn [length Nat.ltb Nat.leb].
    now rewrite (IH Hl3).
Qed.

(* 4 characters for every 3 bytes, rounded up *)
Lemma b64_encode_length : forall l, zlen (b64_encode l) = 4 * ((zlen l + 2) / 3).
Proof.
  induction l as [| a | a b | a b c t IH] using list_ind3; try reflexivity.
  cbn [b64_encode]. unfold zlen in *. cbn [length]. rewrite !Nat2Z.inj_succ, IH.
  replace (Z.succ (Z.succ (Z.succ (Z.of_nat (length t)))) + 2) with (Z.of_nat (length t) + 2 + 1 * 3) by lia.
  rewrite Z.div_add by lia. lia.
Qed.

(* only alphabet characters and '=' *)
Lemma b64_encode_alphabet : forall l, Forall is_byte l ->
  Forall (fun c => In c b64_alphabet \/ c = PAD) (b64_encode l).
Proof.
  induction l as [| a | a b | a b c t IH] using list_ind3; intros Hl.
  - constructor.
  - inversion Hl as [|? ? Ha _]; subst.
    destruct (sextets a 0 0 Ha ltac:(unfold is_byte; lia) ltac:(unfold is_byte; lia)) as (R1 & R2 & _).
    change (0 / 16) with 0 in *. rewrite Z.add_0_r in *. cbn [b64_encode].
    constructor; [left; now apply b64_char_val|]. constructor; [left; now apply b64_char_val|]. constructor; [now right|]. constructor; [now right|]. constructor.
  - inversion Hl as [|? ? Ha Hl']; subst. inversion Hl' as [|? ? Hb _]; subst.
    destruct (sextets a b 0 Ha Hb ltac:(unfold is_byte; lia)) as (R1 & R2 & R3 & _).
    change (0 / 64) with 0 in *. rewrite Z.add_0_r in *. cbn [b64_encode].
    constructor; [left; now apply b64_char_val|]. constructor; [left; now apply b64_char_val|]. constructor; [left; now apply b64_char_val|]. constructor; [now right|]. constructor.
  - inversion Hl as [|? ? Ha Hl1]; subst. inversion Hl1 as [|? ? Hb Hl2]; subst.
    inversion Hl2 as [|? ? Hc Hl3]; subst.
    destruct (sextets a b c Ha Hb Hc) as (R1 & R2 & R3 & R4 & _). cbn [b64_encode].
    constructor; [left; now apply b64_char_val|]. constructor; [left; now apply b64_char_val|]. constructor; [left; now apply b64_char_val|]. constructor; [left; now apply b64_char_val|]. now apply IH.
Qed.

(* RFC 4648 section 10 test vectors *)
Example b64_rfc4648_vectors :
  b64_encode (s2b "") = s2b "" /\ b64_encode (s2b "f") = s2b "Zg=="
  /\ b64_encode (s2b "fo") = s2b "Zm8=" /\ b64_encode (s2b "foo") = s2b "Zm9v"
  /\ b64_encode (s2b "foob") = s2b "Zm9vYg==" /\ b64_encode (s2b "fooba") = s2b "Zm9vYmE="
  /\ b64_encode (s2b "foobar") = s2b "Zm9vYmFy"
  /\ b64_decode (s2b "Zm9vYmE=") = Some (s2b "fooba") /\ b64_decode (s2b "Zm9vYmE") = None
  /\ b64_decode (s2b "Zm9vYmF=") = None.
Proof. repeat split; reflexivity. Qed.

(* ------------------------------------------------------------------ accept key *)
Definition GUID_RFC6455 : list Z := s2b "258EAFA5-E914-47DA-95CA-C5AB0DC85B11".

Section AcceptKey.
  Variable H : list Z -> list Z.
  (* all that is assumed of SHA-1: a digest is 20 bytes *)
  Hypothesis H_digest : forall x, length (H x) = 20%nat /\ Forall is_byte (H x).

  (* RFC 6455 4.2.2 item 5.4: Sec-WebSocket-Accept = base64(SHA-1(key ++ GUID)): the RFC 4648
     decoder recovers exactly the digest of key ++ "258EAFA5-E914-47DA-95CA-C5AB0DC85B11"; the
     value is 28 characters of the base64 alphabet, the last one '=' *)
  Lemma accept_key_rfc6455 : forall key,
    b64_decode (compute_accept_key H key) = Some (H (key ++ GUID_RFC6455))
    /\ zlen (compute_accept_key H key) = 28
    /\ Forall (fun c => In c b64_alphabet \/ c = PAD) (compute_accept_key H key)
    /\ nth 27 (compute_accept_key H key) 0 = PAD.
  Proof.
    intros key. unfold compute_accept_key. change KeyGUID with GUID_RFC6455.
    destruct (H_digest (key ++ GUID_RFC6455)) as [Hlen Hb].
    split; [now apply b64_decode_encode|]. split.
    - rewrite b64_encode_length. unfold zlen. rewrite Hlen. reflexivity.
    - split; [now apply b64_encode_alphabet|].
      destruct (H (key ++ GUID_RFC6455)) as [|x0 [|x1 [|x2 [|x3 [|x4 [|x5 [|x6 [|x7 [|x8 [|x9
        [|x10 [|x11 [|x12 [|x13 [|x14 [|x15 [|x16 [|x17 [|x18 [|x19 [|x20 t]]]]]]]]]]]]]]]]]]]]];
        try discriminate. reflexivity.
  Qed.
End AcceptKey.

(* RFC 6455 section 1.3: key "dGhlIHNhbXBsZSBub25jZQ==" gives "s3pPLMBiTxaQ9kYGzzhZRbK+xOo=" --
   with H answering the SHA-1 value of the RFC's example (b3 7a 4f 2c c0 62 4f 16 90 f6 46 06 cf
   38 59 45 b2 be c4 ea) *)
Example accept_key_rfc_example :
  compute_accept_key
    (fun _ => [179; 122; 79; 44; 192; 98; 79; 22; 144; 246; 70; 6; 207; 56; 89; 69; 178; 190; 196; 234])
    (s2b "dGhlIHNhbXBsZSBub25jZQ==") = s2b "s3pPLMBiTxaQ9kYGzzhZRbK+xOo=".
Proof. reflexivity. Qed.

(* ------------------------------------------------------------------ Upgrade *)
Section Upgrade.
  Variable H : list Z -> list Z.

  (* the five checks of upgrade.go, in the words of the code *)
  Definition upgrade_conditions (r : request) : bool :=
    beq (method_raw r) (s2b "GET")
    && beq (get_header (s2b "Sec-WebSocket-Version") (headers r)) (s2b "13")
    && token_list_contains (get_header (s2b "Connection") (headers r)) (s2b "upgrade")
    && beq (get_header (s2b "Upgrade") (headers r)) (s2b "websocket")
    && negb (isnil (get_header (s2b "Sec-WebSocket-Key") (headers r))).

  (* the 101 response is written iff all five hold; then it carries the accept key of the
     request's Sec-WebSocket-Key; otherwise NOTHING is written and an error is returned.  The
     status is never changed on a connection whose status is 200 (w.Error is a no-op there). *)
  Lemma upgrade_checks : forall r st,
    (upgrade_conditions r = true ->
       upgrade H r st = (Some (upgrade_response H (get_header (s2b "Sec-WebSocket-Key") (headers r))), st))
    /\ (upgrade_conditions r = false -> fst (upgrade H r st) = None)
    /\ (st <> 0 -> snd (upgrade H r st) = st).
  Proof.
    intros r st. unfold upgrade_conditions, upgrade.
    destruct (beq (method_raw r) (s2b "GET")); cbn [negb andb];
      [| repeat split; try discriminate; intros; cbn [snd]; now apply set_status_nonzero].
    destruct (beq (get_header (s2b "Sec-WebSocket-Version") (headers r)) (s2b "13")); cbn [negb andb];
      [| repeat split; try discriminate; intros; cbn [snd]; now apply set_status_nonzero].
    destruct (token_list_contains (get_header (s2b "Connection") (headers r)) (s2b "upgrade")); cbn [negb andb];
      [| repeat split; try discriminate; intros; cbn [snd]; now apply set_status_nonzero].
    destruct (beq (get_header (s2b "Upgrade") (headers r)) (s2b "websocket")); cbn [negb andb];
      [| repeat split; try discriminate; intros; cbn [snd]; now apply set_status_nonzero].
    destruct (isnil (get_header (s2b "Sec-WebSocket-Key") (headers r))); cbn [negb andb];
      repeat split; try discriminate; intros; cbn [snd]; try reflexivity; now apply set_status_nonzero.
  Qed.
End Upgrade.

(* tokenListContainsValue: comma-separated, white space trimmed, case-insensitive *)
Example token_list_examples :
  token_list_contains (s2b "Upgrade") (s2b "upgrade") = true
  /\ token_list_contains (s2b "keep-alive, Upgrade") (s2b "upgrade") = true
  /\ token_list_contains (s2b "UPGRADE ,x") (s2b "upgrade") = true
  /\ token_list_contains (s2b "keep-alive") (s2b "upgrade") = false
  /\ token_list_contains (s2b "upgradex") (s2b "upgrade") = false
  /\ token_list_contains (s2b "up,grade") (s2b "upgrade") = false
  /\ token_list_contains [] (s2b "upgrade") = false.
Proof. repeat split; reflexivity. Qed.

(* the request the bundled client sends for an upgrade passes the checks; a POST does not *)
Example upgrade_example :
  let hs := [(s2b "Upgrade", s2b "websocket"); (s2b "Connection", s2b "Upgrade");
             (s2b "Sec-WebSocket-Key", s2b "dGhlIHNhbXBsZSBub25jZQ==");
             (s2b "Sec-WebSocket-Protcol", s2b "chat, superchat"); (s2b "Sec-WebSocket-Version", s2b "13")] in
  upgrade_conditions (mkReq (s2b "GET") 1 (s2b "/ws") HTTP11 3 hs []) = true
  /\ upgrade_conditions (mkReq (s2b "POST") 0 (s2b "/ws") HTTP11 3 hs []) = false
  /\ upgrade_conditions (mkReq (s2b "GET") 1 (s2b "/ws") HTTP11 3 (tl hs) []) = false.
Proof. repeat split; reflexivity. Qed.

(* ------------------------------------------------------------------ the 101 response, client side *)
Lemma notin_contains2 : forall a b l, Forall (fun c => c <> a) l -> contains [a; b] l = false.
Proof.
  unfold contains. intros a b l Hl. induction Hl as [|c l Hc Hl IH]; [reflexivity|].
  cbn [index has_prefix]. apply not_eq_sym in Hc. apply Z.eqb_neq in Hc. rewrite Hc. cbn [andb].
  now destruct (index [a; b] l).
Qed.

Section Handshake.
  Variable H : list Z -> list Z.
  Hypothesis H_digest : forall x, length (H x) = 20%nat /\ Forall is_byte (H x).

  Definition handshake_headers (key : list Z) : hdrs :=
    [(s2b "Upgrade", s2b "websocket"); (s2b "Connection", s2b "Upgrade");
     (s2b "Sec-WebSocket-Accept", compute_accept_key H key)].

  (* the bundled client reads the 101 response with the request parser: "101" in the uri position
     and the accept key in its header map under Sec-WebSocket-Accept (it does not check it) *)
  Lemma upgrade_response_parsed : forall key,
    fst (client_parse (upgrade_response H key))
    = mkReq HTTP11 HTTP_METHOD_UNKNOWN (s2b "101") (s2b "Switching Protocols") HTTP_VERSION_UNKNOWN
            (handshake_headers key) [].
  Proof.
    intros key.
    destruct (accept_key_rfc6455 H H_digest key) as (_ & Hlen & Halpha & _).
    assert (Hval : val_ok (compute_accept_key H key) = true).
    { unfold val_ok. apply andb_true_iff. split.
      - destruct (compute_accept_key H key); [discriminate Hlen | reflexivity].
      - apply negb_true_iff. apply notin_contains2. eapply Forall_impl; [|exact Halpha].
        intros c [Hin | ->]; [|discriminate].
        assert (Hall : forallb (fun c => negb (c =? 13)) b64_alphabet = true) by (vm_compute; reflexivity).
        rewrite forallb_forall in Hall. specialize (Hall c Hin). apply negb_true_iff in Hall.
        now apply Z.eqb_neq in Hall. }
    assert (Hshape : upgrade_response H key
                     = HTTP11 ++ SP ++ s2b "101" ++ SP ++ s2b "Switching Protocols" ++ CRLF
                       ++ (header_block (handshake_headers key) ++ CRLF ++ [])).
    { unfold upgrade_response, handshake_headers, header_block. cbn [flat_map]. unfold header_line.
      cbn [fst snd]. rewrite !app_nil_r. rewrite <- !app_assoc. reflexivity. }
    rewrite Hshape. unfold client_parse, parse.
    rewrite (parse_with_line_gen header_loop HTTP11 (s2b "101") (s2b "Switching Protocols") _ 200
               eq_refl eq_refl eq_refl eq_refl eq_refl).
    cbv zeta. change (eqfold (s2b "Switching Protocols") (s2b "HTTP/1.0")) with false.
    change (eqfold (s2b "Switching Protocols") (s2b "HTTP/1.1")) with false. cbv iota.
    rewrite header_loop_block.
    - rewrite set_headers_distinct by reflexivity. reflexivity.
    - unfold handshake_headers. cbn [forallb]. unfold hdr_ok at 3. cbn [fst snd]. rewrite Hval.
      reflexivity.
    - rewrite app_length. pose proof (header_block_length (handshake_headers key)) as Hbl.
      change (length (handshake_headers key)) with 3%nat in *. lia.
  Qed.
End Handshake.
