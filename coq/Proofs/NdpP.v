(* Proofs about the neighbour discovery model (Model/Ndp.v).
   The specification vocabulary ([nd_is_solicit], [nd_is_advert], [nd_target], [adv_msg],
   [sol_msg], [ip6_hdr], [sn_addr], [Echo.pseudo6] + [rfc1071_sum]) is written with plain list
   slicing and literal byte strings from RFC 4861 4.3 / 4.4, RFC 4291 2.7.1, RFC 2460 3 / 8.1 and
   RFC 1071, independently of the functions of the model. *)
From Coq Require Import ZArith List Bool Lia ZifyBool.
From NP Require Import Model.Bytes Model.Checksum Model.HdrIP Model.Echo Model.Arp Model.Ndp.
From NP Require Import Proofs.BytesP Proofs.ChecksumP.
From NP Require Proofs.EchoP Proofs.ArpP.
Import ListNotations.
Open Scope Z_scope.

(* ------------------------------------------------------------------ specification vocabulary *)
(* [v] = the ICMPv6 message as the handler sees it (the first view of the IPv6 payload).
   RFC 4861 4.3: type 135, code, checksum, 4 reserved bytes, 16-byte target, options;
   4.4: type 136, code, checksum, R|S|O flags + 29 reserved bits, 16-byte target, options *)
Definition nd_is_solicit (v : list Z) : Prop := (24 <= length v)%nat /\ nth 0 v 0 = 135.
Definition nd_is_advert (v : list Z) : Prop := (32 <= length v)%nat /\ nth 0 v 0 = 136.
Definition nd_target (v : list Z) : list Z := bytes_at v 8 16.
(* Go's copy into a 6-byte zeroed field *)
Definition pad6 (m : list Z) : list Z := firstn 6 (m ++ repeat 0 6).
(* the advertisement the property asks for, with checksum field [c]: solicited + override flags,
   the solicited target, a target link-layer address option (type 2, length 1 = 8 bytes) *)
Definition adv_msg (target ll : list Z) (c : Z) : list Z :=
  [136; 0; c / 256; c mod 256; 96; 0; 0; 0] ++ target ++ [2; 1] ++ pad6 ll.
(* a solicitation with a source link-layer address option (type 1) *)
Definition sol_msg (target ll : list Z) (c : Z) : list Z :=
  [135; 0; c / 256; c mod 256; 0; 0; 0; 0] ++ target ++ [1; 1] ++ pad6 ll.
(* RFC 2460 3: version 6, traffic class 0, flow label 0, payload length 32, next header 58, hop limit 255 *)
Definition ip6_hdr (src dst : list Z) : list Z := [96; 0; 0; 0; 0; 32; 58; 255] ++ src ++ dst.
(* RFC 4291 2.7.1: ff02:0:0:0:0:1:ff00::/104 + the low 24 bits of the address *)
Definition sn_addr (a : list Z) : list Z := [255; 2; 0; 0; 0; 0; 0; 0; 0; 0; 0; 1; 255] ++ skipn 13 a.
(* RFC 2464 7: 33:33 + the low 32 bits of the multicast address *)
Definition eth_mcast (a : list Z) : list Z := [51; 51] ++ skipn 12 a.
(* the ICMPv6 checksum of [msg] sent from [src] to [dst] verifies (RFC 4443 2.3) *)
Definition icmp6_verifies (src dst msg : list Z) : Prop :=
  rfc1071_sum (pseudo6 src dst (Z.of_nat (length msg)) ++ msg) 0 = 65535.

(* ------------------------------------------------------------------ helpers *)
Ltac consts :=
  change (2^32) with 4294967296 in *; change (2^24) with 16777216 in *;
  change (2^16) with 65536 in *; change (2^8) with 256 in *.

Ltac bok :=
  repeat match goal with
         | |- bytes_ok _ => unfold bytes_ok
         | |- Forall _ (_ :: _) => constructor
         | |- Forall _ [] => constructor
         | |- Forall _ (_ ++ _) => apply Forall_app; split
         end; try assumption; try (unfold is_byte in *; lia).

Lemma len16 (a : list Z) : length a = 16%nat ->
  exists a0 a1 a2 a3 a4 a5 a6 a7 a8 a9 a10 a11 a12 a13 a14 a15,
    a = [a0; a1; a2; a3; a4; a5; a6; a7; a8; a9; a10; a11; a12; a13; a14; a15].
Proof.
  intros H. do 16 (destruct a as [|? a]; [discriminate H|]). destruct a; [|discriminate H].
  repeat eexists.
Qed.

Lemma bytes_at_len v i n : (i + n <= length v)%nat -> length (bytes_at v i n) = n.
Proof. intros H. unfold bytes_at. rewrite firstn_length, skipn_length. lia. Qed.

Lemma pad6_length m : length (pad6 m) = 6%nat.
Proof. unfold pad6. rewrite firstn_length, app_length, repeat_length. lia. Qed.

Lemma pad6_ok m : bytes_ok m -> bytes_ok (pad6 m).
Proof.
  intros H. unfold pad6. apply Forall_firstn. apply Forall_app. split; [exact H|].
  apply Forall_forall. intros x Hx. apply repeat_spec in Hx. subst. unfold is_byte. lia.
Qed.

Lemma pad6_id m : length m = 6%nat -> pad6 m = m.
Proof.
  intros H. do 6 (destruct m as [|? m]; [discriminate H|]). destruct m; [reflexivity|discriminate H].
Qed.

(* the ICMPv6 checksum of a 4+-byte header with an empty payload: one chain of partial sums *)
Lemma icmp6Checksum_nil a b c d t src dst :
  length (a :: b :: c :: d :: t) = 32%nat ->
  icmp6Checksum (a :: b :: c :: d :: t) src dst [] =
  Some (lnot16 (checksum (a :: b :: 0 :: 0 :: t)
                  (checksum [0; 0; 0; 58] (checksum [0; 0; 0; 32] (checksum dst (checksum src 0)))))).
Proof.
  intros H. unfold icmp6Checksum. rewrite H.
  replace (put32 (repeat 0 4) 0 (w32 (Z.of_nat 32 + vv_size []))) with (Some [0; 0; 0; 32]) by reflexivity.
  cbn [obind upd]. change (vv_toView []) with (@nil Z).
  (* since /repo commit 1404d7f the (empty) payload goes through header.Checksum once *)
  rewrite EchoP.checksum_nil by apply EchoP.checksum_is_u16. reflexivity.
Qed.

(* the chain of partial sums over even-length pieces is the sum over their concatenation *)
Lemma chain_sum src dst h :
  bytes_ok src -> bytes_ok dst -> bytes_ok h ->
  length src = 16%nat -> length dst = 16%nat -> length h = 32%nat ->
  checksum h (checksum [0; 0; 0; 58] (checksum [0; 0; 0; 32] (checksum dst (checksum src 0)))) =
  checksum (src ++ dst ++ [0; 0; 0; 32] ++ [0; 0; 0; 58] ++ h) 0.
Proof.
  intros Hs Hd Hh Ls Ld Lh.
  assert (H0 : is_u16 0) by (unfold is_u16; lia).
  assert (B32 : bytes_ok [0; 0; 0; 32]) by (repeat constructor; unfold is_byte; lia).
  assert (B58 : bytes_ok [0; 0; 0; 58]) by (repeat constructor; unfold is_byte; lia).
  assert (Hside : forall c1 c2, bytes_ok c1 -> bytes_ok c2 -> Nat.even (length c1) = true ->
            (length (c1 ++ c2) <= 100)%nat -> checksum c2 (checksum c1 0) = checksum (c1 ++ c2) 0).
  { intros c1 c2 B1 B2 E L. apply checksum_two_chunks; try assumption. lia. }
  rewrite (Hside src dst) by (first [assumption | rewrite Ls; reflexivity | rewrite app_length; lia]).
  rewrite (Hside (src ++ dst) [0; 0; 0; 32])
    by (first [assumption | apply Forall_app; split; assumption
              | rewrite app_length, Ls, Ld; reflexivity | rewrite !app_length; cbn [length]; lia]).
  rewrite (Hside ((src ++ dst) ++ [0; 0; 0; 32]) [0; 0; 0; 58])
    by (first [assumption | repeat (apply Forall_app; split); assumption
              | rewrite !app_length, Ls, Ld; reflexivity | rewrite !app_length; cbn [length]; lia]).
  rewrite (Hside (((src ++ dst) ++ [0; 0; 0; 32]) ++ [0; 0; 0; 58]) h)
    by (first [assumption | repeat (apply Forall_app; split); assumption
              | rewrite !app_length, Ls, Ld; reflexivity | rewrite !app_length; cbn [length]; lia]).
  rewrite <- !app_assoc. reflexivity.
Qed.

(* a 32-byte ICMPv6 message whose checksum field holds the complement of the chained sum over the
   message with a zeroed field verifies against the pseudo-header *)
Lemma nd_checksum_verifies src dst ty code rest :
  bytes_ok src -> bytes_ok dst -> is_byte ty -> is_byte code -> bytes_ok rest ->
  length src = 16%nat -> length dst = 16%nat -> length rest = 28%nat ->
  let c := lnot16 (checksum (ty :: code :: 0 :: 0 :: rest)
                     (checksum [0; 0; 0; 58] (checksum [0; 0; 0; 32] (checksum dst (checksum src 0))))) in
  icmp6_verifies src dst (ty :: code :: c / 256 :: c mod 256 :: rest).
Proof.
  intros Hs Hd Hty Hco Hr Ls Ld Lr c.
  assert (H0 : is_u16 0) by (unfold is_u16; lia).
  assert (Hh : bytes_ok (ty :: code :: 0 :: 0 :: rest)) by bok.
  subst c. rewrite (chain_sum src dst _ Hs Hd Hh Ls Ld) by (cbn [length]; lia).
  set (pre := src ++ dst ++ [0; 0; 0; 32] ++ [0; 0; 0; 58] ++ [ty; code]).
  assert (Hpre : bytes_ok pre) by (subst pre; bok).
  assert (Lpre : length pre = 42%nat) by (subst pre; rewrite !app_length, Ls, Ld; reflexivity).
  pose proof (checksum_verifies_split pre rest 0 Hpre Hr H0) as V.
  rewrite Lpre in V. specialize (V eq_refl). rewrite Lr in V. specialize (V ltac:(lia)).
  cbv zeta in V.
  assert (E0 : pre ++ [0; 0] ++ rest = src ++ dst ++ [0; 0; 0; 32] ++ [0; 0; 0; 58] ++ ty :: code :: 0 :: 0 :: rest).
  { subst pre. rewrite <- !app_assoc. reflexivity. }
  rewrite E0 in V.
  set (x := checksum (src ++ dst ++ [0; 0; 0; 32] ++ [0; 0; 0; 58] ++ ty :: code :: 0 :: 0 :: rest) 0) in *.
  unfold icmp6_verifies, pseudo6. cbn [length]. rewrite Lr.
  replace (be32 (Z.of_nat 32)) with [0; 0; 0; 32] by reflexivity.
  assert (Hx : is_u16 x).
  { subst x. apply checksum_u16; [bok|exact H0|rewrite !app_length, Ls, Ld; cbn [length]; rewrite Lr; lia]. }
  destruct (lnot16_bytes x Hx) as (B1 & B2 & _).
  rewrite <- checksum_rfc1071.
  - rewrite <- V. subst pre. rewrite <- !app_assoc. reflexivity.
  - bok.
  - exact H0.
  - rewrite !app_length, Ls, Ld. cbn [length]. rewrite Lr. lia.
Qed.

(* Checksum returns a uint16, whatever the buffer *)
Lemma checksum_range buf init : 0 <= checksum buf init < 65536.
Proof.
  unfold checksum. destruct (Nat.odd (length buf)); unfold checksumCombine, w16; consts;
    apply Z.mod_pos_bound; lia.
Qed.

(* ------------------------------------------------------------------ the advertisement, flat *)
(* the checksum the code stores: complement of the chained sum over target (the source of the
   advertisement), requester, length 32, next header 58 and the message with a zeroed field *)
Definition adv_ck (target ll remote : list Z) : Z :=
  lnot16 (checksum ([136; 0; 0; 0; 96; 0; 0; 0] ++ target ++ [2; 1] ++ pad6 ll)
            (checksum [0; 0; 0; 58] (checksum [0; 0; 0; 32] (checksum remote (checksum target 0))))).

Ltac flat :=
  cbv [repeat upd copy_into set_range obind length Nat.ltb Nat.leb Nat.sub Nat.add firstn skipn app
       put16 pad6].

Lemma nd_advert_eq target ll remote : length target = 16%nat ->
  nd_advert target ll remote =
  Some ([136; 0; w8 (adv_ck target ll remote / 2^8); w8 (adv_ck target ll remote); 96; 0; 0; 0] ++
        target ++ [2; 1] ++ pad6 ll).
Proof.
  intros H.
  destruct (len16 target H) as (a0&a1&a2&a3&a4&a5&a6&a7&a8&a9&a10&a11&a12&a13&a14&a15&->).
  unfold nd_advert, copy_before_opt, put8, adv_ck.
  change (w8 ICMPv6NeighborAdvert) with 136. change (ndpSolicitedFlag + ndpOverrideFlag) with 96.
  change ndpOptDstLinkAddr with 2.
  destruct ll as [|m0 [|m1 [|m2 [|m3 [|m4 [|m5 ?]]]]]]; flat;
    rewrite icmp6Checksum_nil by reflexivity; flat; reflexivity.
Qed.

(* ------------------------------------------------------------------ the handler as a decision tree *)
Definition adv_bytes (target ll remote : list Z) : list Z :=
  [136; 0; w8 (adv_ck target ll remote / 2^8); w8 (adv_ck target ll remote); 96; 0; 0; 0] ++
  target ++ [2; 1] ++ pad6 ll.

Lemma nd_handle_eq locals r views :
  nd_handle locals r views =
  let v := vv_first views in
  if (length v <? 4)%nat then NdDone None [] else
  if nth 0 v 0 =? 135 then
    if (length v <? 24)%nat then NdDone None [] else
    if isLocal locals (nd_target v)
    then NdDone (Some (mkNdPacket (nd_target v) (nr_remote r) 255
                         (adv_bytes (nd_target v) (nr_localLink r) (nr_remote r)) (nr_remoteLink r)))
                [(nr_remote r, nr_remoteLink r)]
    else NdDone None []
  else if nth 0 v 0 =? 136 then
    if (length v <? 32)%nat then NdDone None [] else
    NdDone None ((nd_target v, nr_remoteLink r) ::
                 if negb (bytes_eqb (nd_target v) (nr_remote r)) then [(nr_remote r, nr_remoteLink r)] else [])
  else NdOther.
Proof.
  unfold nd_handle. cbv zeta.
  destruct (Nat.ltb_spec (length (vv_first views)) 4) as [H4|H4]; [reflexivity|].
  rewrite EchoP.get8_0 by lia. unfold ICMPv6NeighborSolicit, ICMPv6NeighborAdvert.
  destruct (nth 0 (vv_first views) 0 =? 135).
  - destruct (Nat.ltb_spec (length (vv_first views)) 24) as [H24|H24]; [reflexivity|].
    rewrite getN_at by lia. fold (nd_target (vv_first views)).
    destruct (isLocal locals (nd_target (vv_first views))); cbn [negb]; [|reflexivity].
    rewrite nd_advert_eq by (apply bytes_at_len; lia). reflexivity.
  - destruct (nth 0 (vv_first views) 0 =? 136); [|reflexivity].
    destruct (Nat.ltb_spec (length (vv_first views)) 32) as [H32|H32]; [reflexivity|].
    rewrite getN_at by lia. reflexivity.
Qed.

(* ------------------------------------------------------------------ theorems about handleICMP *)

(* (d) no message, no address set, no route makes the handler index out of range *)
Theorem nd_handle_never_panics locals r views : nd_handle locals r views <> NdPanic.
Proof.
  rewrite nd_handle_eq. cbv zeta.
  repeat match goal with |- context [if ?c then _ else _] => destruct c end; discriminate.
Qed.

(* (a) an advertisement is written iff the message is a solicitation of at least 24 bytes (in the first
   view) whose target is one of the addresses the NIC has an endpoint for *)
Theorem nd_advert_iff_target_local locals r views :
  (exists p l, nd_handle locals r views = NdDone (Some p) l) <->
  (nd_is_solicit (vv_first views) /\ In (nd_target (vv_first views)) locals).
Proof.
  rewrite nd_handle_eq. cbv zeta. unfold nd_is_solicit. rewrite <- ArpP.isLocal_In.
  destruct (Nat.ltb_spec (length (vv_first views)) 4) as [H4|H4].
  { split; [intros (p & l & H); discriminate|intros [[Hl _] _]; lia]. }
  destruct (Z.eqb_spec (nth 0 (vv_first views) 0) 135) as [E|N].
  - destruct (Nat.ltb_spec (length (vv_first views)) 24) as [H24|H24].
    { split; [intros (p & l & H); discriminate|intros [[Hl _] _]; lia]. }
    destruct (isLocal locals (nd_target (vv_first views))).
    + split; [intros _; auto|intros _; eauto].
    + split; [intros (p & l & H); discriminate|intros [_ H]; discriminate].
  - split; [|intros [[_ E] _]; contradiction].
    intros (p & l & H).
    destruct (nth 0 (vv_first views) 0 =? 136); [|discriminate].
    destruct (length (vv_first views) <? 32)%nat; discriminate.
Qed.

(* (b) what is written: from the solicited target to the requester (IPv6 source of the
   solicitation), hop limit 255, sent to the link-layer source of the solicitation; the message
   is [adv_msg]: type 136, code 0, solicited + override flags, the solicited target, a target
   link-layer address option carrying the link endpoint's address *)
Theorem nd_advert_fields locals r views p l :
  nd_handle locals r views = NdDone (Some p) l ->
  let v := vv_first views in
  np_src p = nd_target v /\ np_dst p = nr_remote r /\ np_hop p = 255 /\
  np_linkdst p = nr_remoteLink r /\
  (exists c, 0 <= c < 65536 /\ np_icmp p = adv_msg (nd_target v) (nr_localLink r) c) /\
  l = [(nr_remote r, nr_remoteLink r)].
Proof.
  rewrite nd_handle_eq. cbv zeta.
  repeat match goal with |- context [if ?c then _ else _] => destruct c end; try discriminate.
  intros H. injection H as <- <-. cbn [np_src np_dst np_hop np_linkdst np_icmp].
  repeat split. unfold adv_bytes.
  match goal with |- context [adv_ck ?a ?b ?d] => set (c := adv_ck a b d) end. exists c.
  assert (Hc : 0 <= c < 65536).
  { subst c. unfold adv_ck, lnot16.
    match goal with |- context [checksum ?b ?i] => pose proof (checksum_range b i) end. lia. }
  split; [exact Hc|]. unfold adv_msg, w8. consts.
  rewrite (Z.mod_small (c / 256)) by (Z.div_mod_to_equations; lia). reflexivity.
Qed.

Lemma w8_split c : 0 <= c < 65536 -> w8 (c / 2^8) = c / 256 /\ w8 c = c mod 256.
Proof. intros H. unfold w8. consts. split; [apply Z.mod_small; Z.div_mod_to_equations; lia|reflexivity]. Qed.

(* (b) the checksum of the advertisement verifies against the RFC 2460 pseudo-header built from the
   addresses it is sent with (source = the target, destination = the requester) *)
Theorem nd_advert_checksum locals r views p l :
  nd_handle locals r views = NdDone (Some p) l ->
  bytes_ok (vv_first views) -> bytes_ok (nr_localLink r) -> bytes_ok (nr_remote r) ->
  length (nr_remote r) = 16%nat ->
  length (np_icmp p) = 32%nat /\ icmp6_verifies (np_src p) (np_dst p) (np_icmp p).
Proof.
  rewrite nd_handle_eq. cbv zeta. intros H Hv Hll Hrem Lrem.
  destruct (Nat.ltb_spec (length (vv_first views)) 4) as [H4|H4]; [discriminate|].
  destruct (nth 0 (vv_first views) 0 =? 135).
  2:{ repeat match type of H with context [if ?c then _ else _] => destruct c end; discriminate. }
  destruct (Nat.ltb_spec (length (vv_first views)) 24) as [H24|H24]; [discriminate|].
  destruct (isLocal locals (nd_target (vv_first views))); [|discriminate].
  injection H as <- <-. cbn [np_src np_dst np_icmp].
  set (t := nd_target (vv_first views)).
  assert (Lt : length t = 16%nat) by (apply bytes_at_len; lia).
  assert (Bt : bytes_ok t) by (apply bytes_at_ok, Hv).
  pose proof (pad6_length (nr_localLink r)) as Lp. pose proof (pad6_ok _ Hll) as Bp.
  set (rest := [96; 0; 0; 0] ++ t ++ [2; 1] ++ pad6 (nr_localLink r)).
  assert (Lr : length rest = 28%nat) by (subst rest; rewrite !app_length, Lt, Lp; reflexivity).
  assert (Br : bytes_ok rest) by (subst rest; bok).
  pose proof (nd_checksum_verifies t (nr_remote r) 136 0 rest Bt Hrem ltac:(unfold is_byte; lia)
                ltac:(unfold is_byte; lia) Br Lt Lrem Lr) as V.
  cbv zeta in V. unfold adv_bytes.
  set (c := adv_ck t (nr_localLink r) (nr_remote r)).
  assert (Ec : c = lnot16 (checksum (136 :: 0 :: 0 :: 0 :: rest)
                 (checksum [0; 0; 0; 58] (checksum [0; 0; 0; 32] (checksum (nr_remote r) (checksum t 0)))))) by reflexivity.
  rewrite <- Ec in V.
  assert (Hc : 0 <= c < 65536).
  { rewrite Ec. unfold lnot16.
    match goal with |- context [checksum ?b ?i] => pose proof (checksum_range b i) end. lia. }
  destruct (w8_split c Hc) as [E1 E2]. rewrite E1, E2.
  split; [|exact V].
  change (length ([136; 0; c / 256; c mod 256] ++ rest) = 32%nat). rewrite app_length, Lr. reflexivity.
Qed.

(* the IPv6 header ipv6 WritePacket / LinkAddressRequest put in front of a 32-byte message *)
Lemma ipv6_encode_flat src dst : length src = 16%nat -> length dst = 16%nat ->
  ipv6_encode (repeat 0 40) (mkIPv6 0 0 32 58 255 src dst) = Some (ip6_hdr src dst).
Proof.
  intros Hs Hd.
  destruct (len16 src Hs) as (a0&a1&a2&a3&a4&a5&a6&a7&a8&a9&a10&a11&a12&a13&a14&a15&->).
  destruct (len16 dst Hd) as (b0&b1&b2&b3&b4&b5&b6&b7&b8&b9&b10&b11&b12&b13&b14&b15&->).
  vm_compute. reflexivity.
Qed.

(* (b) the frame: RFC 2460 header with payload length 32, next header 58 (ICMPv6), hop limit 255 *)
Theorem nd_frame_flat p : length (np_src p) = 16%nat -> length (np_dst p) = 16%nat ->
  length (np_icmp p) = 32%nat -> np_hop p = 255 ->
  nd_frame p = Some (ip6_hdr (np_src p) (np_dst p) ++ np_icmp p).
Proof.
  intros Hs Hd Hi Hh. unfold nd_frame, ip6_write. cbn [p_hdr p_payload p_src p_dst p_ttl p_proto length].
  rewrite Hi, Hh. change (w16 (Z.of_nat 32 + Z.of_nat 0)) with 32.
  rewrite ipv6_encode_flat by assumption. cbn [obind]. rewrite app_nil_r. reflexivity.
Qed.

(* (c) what is handed to the link-address cache:
   - from an advertisement of at least 32 bytes: target -> link-layer source of the frame, and the
     IPv6 source -> the same link address (one call when they coincide); whatever the flags, the
     options, the target;
   - from a solicitation that is answered: IPv6 source -> link-layer source of the frame;
   - nothing else. *)
Theorem nd_learns_from_advert locals r views :
  nd_is_advert (vv_first views) ->
  exists l, nd_handle locals r views = NdDone None l /\
    (forall a m, In (a, m) l <->
       (m = nr_remoteLink r /\ (a = nd_target (vv_first views) \/ a = nr_remote r))) /\
    (length l <= 2)%nat.
Proof.
  intros [Hl Ht]. rewrite nd_handle_eq. cbv zeta.
  destruct (Nat.ltb_spec (length (vv_first views)) 4) as [H4|H4]; [lia|].
  rewrite Ht. cbn [Z.eqb Pos.eqb].
  destruct (Nat.ltb_spec (length (vv_first views)) 32) as [H32|H32]; [lia|].
  eexists. split; [reflexivity|].
  destruct (bytes_eqb (nd_target (vv_first views)) (nr_remote r)) eqn:E; cbn [negb].
  - apply ArpP.bytes_eqb_eq in E. split; [|cbn [length]; lia].
    intros a m. cbn [In]. split.
    + intros [H|[]]. injection H as <- <-. auto.
    + intros [-> [->| ->]]; left; rewrite ?E; reflexivity.
  - split; [|cbn [length]; lia].
    intros a m. cbn [In]. split.
    + intros [H|[H|[]]]; injection H as <- <-; auto.
    + intros [-> [->| ->]]; auto.
Qed.

Theorem nd_learns_iff locals r views :
  (exists p l, nd_handle locals r views = NdDone p l /\ l <> []) <->
  (nd_is_advert (vv_first views) \/
   (nd_is_solicit (vv_first views) /\ In (nd_target (vv_first views)) locals)).
Proof.
  rewrite nd_handle_eq. cbv zeta. unfold nd_is_advert, nd_is_solicit. rewrite <- ArpP.isLocal_In.
  destruct (Nat.ltb_spec (length (vv_first views)) 4) as [H4|H4].
  { split; [intros (p & l & H & N); injection H as <- <-; contradiction|intros [[Hl _]|[[Hl _] _]]; lia]. }
  destruct (Z.eqb_spec (nth 0 (vv_first views) 0) 135) as [E|N].
  - destruct (Nat.ltb_spec (length (vv_first views)) 24) as [H24|H24].
    { split; [intros (p & l & H & N); injection H as <- <-; contradiction
             |intros [[_ Ht]|[[Hl _] _]]; [rewrite E in Ht; discriminate|lia]]. }
    destruct (isLocal locals (nd_target (vv_first views))).
    + split; [intros _; right; auto|intros _; do 2 eexists; split; [reflexivity|discriminate]].
    + split; [intros (p & l & H & N); injection H as <- <-; contradiction
             |intros [[_ Ht]|[_ H]]; [rewrite E in Ht|]; discriminate].
  - destruct (Z.eqb_spec (nth 0 (vv_first views) 0) 136) as [E6|N6].
    + destruct (Nat.ltb_spec (length (vv_first views)) 32) as [H32|H32].
      * split; [intros (p & l & H & Nl); injection H as <- <-; contradiction
               |intros [[Hl _]|[[_ Ht] _]]; [lia|contradiction]].
      * split; [intros _; left; auto|intros _; do 2 eexists; split; [reflexivity|discriminate]].
    + split; [intros (p & l & H & Nl); discriminate|intros [[_ Ht]|[[_ Ht] _]]; contradiction].
Qed.

(* everything else (short, other types, solicitations for addresses the NIC does not have) has no
   effect at all or is another ICMPv6 type *)
Theorem nd_ignored locals r views :
  ~ nd_is_advert (vv_first views) ->
  ~ (nd_is_solicit (vv_first views) /\ In (nd_target (vv_first views)) locals) ->
  nd_handle locals r views = NdDone None [] \/ nd_handle locals r views = NdOther.
Proof.
  intros Na Ns.
  pose proof (nd_advert_iff_target_local locals r views) as H1.
  pose proof (nd_learns_iff locals r views) as H2.
  pose proof (nd_handle_never_panics locals r views) as H3.
  destruct (nd_handle locals r views) as [| |[p|] l]; [contradiction|right; reflexivity| |].
  - exfalso. apply Ns, H1. eauto.
  - destruct l as [|x l]; [left; reflexivity|].
    exfalso. destruct H2 as [H2 _].
    destruct H2 as [H|H]; [do 2 eexists; split; [reflexivity|discriminate]|contradiction|contradiction].
Qed.

(* ------------------------------------------------------------------ the whole inbound path *)
Lemma nic6_deliver_total locals views : nic6_deliver locals views <> None.
Proof.
  unfold nic6_deliver. cbv zeta.
  destruct (Nat.ltb_spec (length (vv_first views)) 40) as [H|H]; [discriminate|].
  unfold ipv6_sourceAddress, ipv6_destinationAddress, ipv6_isValid, ipv6_payloadLength, ipv6_nextHeader.
  rewrite !getN_at by lia. cbn [obind].
  destruct (negb (owns locals (bytes_at (vv_first views) 24 16))); [discriminate|].
  destruct (Nat.ltb_spec (length (vv_first views)) 40) as [H'|_]; [lia|].
  rewrite get16_be by lia. cbn [obind].
  destruct (negb _); [discriminate|].
  rewrite get8_be by lia. cbn [obind].
  destruct (_ =? 58); discriminate.
Qed.

(* (d) no frame, whatever its bytes and however it is split into views, makes the inbound path
   (NIC, ipv6 HandlePacket, handleICMP) index out of range *)
Theorem nd_deliver_never_panics locals myMAC srcMAC views :
  nd_deliver locals myMAC srcMAC views <> NdPanic.
Proof.
  unfold nd_deliver. pose proof (nic6_deliver_total locals views) as T.
  destruct (nic6_deliver locals views) as [[| | |]|]; try discriminate; [|contradiction].
  apply nd_handle_never_panics.
Qed.

(* (a), whole path, what holds: an advertisement leaves only for a packet whose IPv6 destination is
   an address (or explicitly joined group) of the NIC and whose ICMPv6 part is a solicitation for an
   address of the NIC; it goes to the packet's IPv6 source and link-layer source, whose mapping is
   what is learned *)
Theorem nd_deliver_answer_partial locals myMAC srcMAC views p l :
  nd_deliver locals myMAC srcMAC views = NdDone (Some p) l ->
  exists dst src vs,
    ipv6_destinationAddress (vv_first views) = Some dst /\
    ipv6_sourceAddress (vv_first views) = Some src /\
    nic6_deliver locals views = Some (NICMP (mkRoute dst src) vs) /\
    In dst locals /\ nd_is_solicit (vv_first vs) /\ In (nd_target (vv_first vs)) locals /\
    np_src p = nd_target (vv_first vs) /\ np_dst p = src /\ np_linkdst p = srcMAC /\
    (exists c, 0 <= c < 65536 /\ np_icmp p = adv_msg (nd_target (vv_first vs)) myMAC c) /\
    l = [(src, srcMAC)].
Proof.
  unfold nd_deliver. intros H.
  destruct (nic6_deliver locals views) as [[| |r vs|]|] eqn:E; try discriminate.
  destruct (EchoP.nic6_route_l _ _ _ _ E) as (Hd & Hs & Hin).
  destruct r as [dst src]. cbn [r_local r_remote] in *.
  exists dst, src, vs. repeat (split; [assumption || reflexivity|]).
  pose proof (nd_advert_fields _ _ _ _ _ H) as F. cbv zeta in F. cbn [nr_remote nr_localLink nr_remoteLink] in F.
  destruct F as (F1 & F2 & _ & F4 & F5 & F6).
  assert (A : nd_is_solicit (vv_first vs) /\ In (nd_target (vv_first vs)) locals).
  { apply (nd_advert_iff_target_local locals (mkNRoute dst src myMAC srcMAC) vs). eauto. }
  destruct A as [A1 A2]. repeat (split; [assumption|]). exact F6.
Qed.

(* (a), whole path, as an equivalence: exactly the packets that get through the NIC's destination
   filter and ipv6 HandlePacket as ICMPv6 and whose message is a solicitation for a NIC address *)
Theorem nd_deliver_answer_iff locals myMAC srcMAC views :
  (exists p l, nd_deliver locals myMAC srcMAC views = NdDone (Some p) l) <->
  (exists r vs, nic6_deliver locals views = Some (NICMP r vs) /\
     nd_is_solicit (vv_first vs) /\ In (nd_target (vv_first vs)) locals).
Proof.
  unfold nd_deliver. split.
  - intros (p & l & H).
    destruct (nic6_deliver locals views) as [[| |r vs|]|]; try discriminate.
    exists r, vs. split; [reflexivity|].
    apply (nd_advert_iff_target_local locals (mkNRoute (r_local r) (r_remote r) myMAC srcMAC) vs). eauto.
  - intros (r & vs & -> & Hs & Ht).
    apply (nd_advert_iff_target_local locals (mkNRoute (r_local r) (r_remote r) myMAC srcMAC) vs). auto.
Qed.

Theorem nd_deliver_foreign_destination_silent locals myMAC srcMAC views dst :
  ipv6_destinationAddress (vv_first views) = Some dst -> ~ In dst locals ->
  nd_deliver locals myMAC srcMAC views = NdDone None [].
Proof.
  intros Hd Hn. unfold nd_deliver.
  rewrite (proj2 (EchoP.echo_foreign_ignored_l locals views dst Hn) Hd). reflexivity.
Qed.

(* ------------------------------------------------------------------ where the code and the property text part *)
Definition A1 : list Z := [32; 1; 13; 184; 0; 0; 0; 0; 0; 0; 0; 0; 0; 0; 0; 1].
Definition P9 : list Z := [32; 1; 13; 184; 0; 0; 0; 0; 0; 0; 0; 0; 0; 0; 0; 9].
Definition M1 : list Z := [2; 0; 0; 0; 0; 1].
Definition M9 : list Z := [2; 0; 0; 0; 0; 9].

Definition MX : list Z := [2; 0; 0; 0; 0; 85].
Definition Z16 : list Z := [0; 0; 0; 0; 0; 0; 0; 0; 0; 0; 0; 0; 0; 0; 0; 0].

Definition ip6_hdr_n (src dst : list Z) (n hop : Z) : list Z :=
  [96; 0; 0; 0; n / 256; n mod 256; 58; hop] ++ src ++ dst.
(* [pkt] is an IPv6 packet that carries the neighbour discovery message [msg] from [src] to [dst]
   and passes the RFC 4861 7.1 validity checks: hop limit 255, code 0, valid checksum *)
Definition rfc_valid_nd (pkt src dst msg : list Z) : Prop :=
  pkt = ip6_hdr_n src dst (Z.of_nat (length msg)) 255 ++ msg /\
  length src = 16%nat /\ length dst = 16%nat /\ nth 1 msg 0 = 0 /\ icmp6_verifies src dst msg.
(* fill in the checksum field of [msg0] (bytes 2, 3 zero) for the given addresses *)
Definition with_ck (src dst msg0 : list Z) : list Z :=
  let c := 65535 - rfc1071_sum (pseudo6 src dst (Z.of_nat (length msg0)) ++ msg0) 0 in
  firstn 2 msg0 ++ [c / 256; c mod 256] ++ skipn 4 msg0.

Ltac witness := repeat split; try reflexivity; try (vm_compute; reflexivity); try (vm_compute; discriminate);
                try (vm_compute; lia); try (cbn [In]; tauto).

(* The property text: "answers a neighbour solicitation if and only if the target is one of its own
   addresses".  REFUTED in the "if" direction for the way solicitations are normally sent (RFC 4861
   7.2.2: to the solicited-node multicast address of the target): the NIC only accepts packets whose
   destination was added with AddAddress and never joins the solicited-node group of its addresses
   itself, so a valid solicitation for the stack's own address is dropped in NIC.DeliverNetworkPacket
   unless the application added the group address too. *)
Theorem nd_answers_iff_target_own_refuted :
  exists locals myMAC srcMAC pkt src msg,
    rfc_valid_nd pkt src (sn_addr (nd_target msg)) msg /\ nd_is_solicit msg /\
    In (nd_target msg) locals /\
    nd_deliver locals myMAC srcMAC [pkt] = NdDone None [].
Proof.
  exists [A1], M1, M9.
  exists (ip6_hdr_n P9 (sn_addr A1) 24 255 ++ with_ck P9 (sn_addr A1) ([135; 0; 0; 0; 0; 0; 0; 0] ++ A1)), P9,
         (with_ck P9 (sn_addr A1) ([135; 0; 0; 0; 0; 0; 0; 0] ++ A1)).
  witness.
Qed.

(* A deviation from RFC 4861 (not from the property text, for which "one of its own addresses" is any
   address the NIC holds): a multicast group added to the NIC (which the application must do to
   receive solicitations at all) counts as a local address for CheckLocalAddress, so a solicitation
   whose target is the group address is answered, with the multicast address as IPv6 source of the
   advertisement (RFC 4861 7.1.1 requires such solicitations to be discarded). *)
Theorem nd_multicast_target_refuted :
  exists locals myMAC srcMAC pkt src dst msg p l,
    rfc_valid_nd pkt src dst msg /\ nd_is_solicit msg /\ nth 0 (nd_target msg) 0 = 255 /\
    nd_deliver locals myMAC srcMAC [pkt] = NdDone (Some p) l /\ np_src p = nd_target msg.
Proof.
  exists [A1; sn_addr A1], M1, M9.
  exists (ip6_hdr_n P9 A1 24 255 ++ with_ck P9 A1 ([135; 0; 0; 0; 0; 0; 0; 0] ++ sn_addr A1)), P9, A1,
         (with_ck P9 A1 ([135; 0; 0; 0; 0; 0; 0; 0] ++ sn_addr A1)).
  eexists. eexists. witness.
Qed.

(* a deviation from RFC 4861 (not from the property text): none of the 7.1.1 / 7.1.2 validity checks is made: a solicitation with hop limit 1 (it
   may come from off-link), a non-zero code and a wrong checksum is answered and learned from *)
Theorem nd_validity_checks_refuted :
  exists locals myMAC srcMAC pkt src dst msg p,
    pkt = ip6_hdr_n src dst (Z.of_nat (length msg)) 1 ++ msg /\ nth 1 msg 0 = 7 /\
    ~ icmp6_verifies src dst msg /\
    nd_deliver locals myMAC srcMAC [pkt] = NdDone (Some p) [(src, srcMAC)].
Proof.
  exists [A1], M1, M9.
  exists (ip6_hdr_n P9 A1 24 1 ++ [135; 7; 0; 0; 0; 0; 0; 0] ++ A1), P9, A1, ([135; 7; 0; 0; 0; 0; 0; 0] ++ A1).
  eexists. witness.
Qed.

(* A deviation from RFC 4861 (not from the property text, for which "the sender's mapping" is the
   sender's address with the link address the frame came from): what is recorded is the link-layer
   SOURCE OF THE FRAME; the source / target link-layer address options are never read.  An
   advertisement that states another link address for its target (RFC 4861 7.2.5: the cache is
   updated from the option) is recorded with the frame's source instead. *)
Theorem nd_learns_stated_address_refuted :
  exists locals myMAC srcMAC pkt src dst msg stated,
    rfc_valid_nd pkt src dst msg /\ nd_is_advert msg /\ bytes_at msg 24 8 = [2; 1] ++ stated /\
    stated <> srcMAC /\
    nd_deliver locals myMAC srcMAC [pkt] = NdDone None [(nd_target msg, srcMAC)].
Proof.
  exists [A1], M1, M9.
  exists (ip6_hdr_n P9 A1 32 255 ++ with_ck P9 A1 ([136; 0; 0; 0; 96; 0; 0; 0] ++ P9 ++ [2; 1] ++ MX)), P9, A1,
         (with_ck P9 A1 ([136; 0; 0; 0; 96; 0; 0; 0] ++ P9 ++ [2; 1] ++ MX)), MX.
  witness.
Qed.

(* a deviation from RFC 4861 (not from the property text): a duplicate-address-detection probe
   (source = the unspecified address) for an own address is
   answered to the unspecified address (RFC 4861 7.2.4: to all-nodes) and the pair
   (unspecified address, link-layer source) is put into the cache (7.2.3: MUST NOT) *)
Theorem nd_unspecified_source_refuted :
  exists locals myMAC srcMAC pkt dst msg p,
    rfc_valid_nd pkt Z16 dst msg /\ nd_is_solicit msg /\
    nd_deliver locals myMAC srcMAC [pkt] = NdDone (Some p) [(Z16, srcMAC)] /\ np_dst p = Z16.
Proof.
  exists [A1], M1, M9.
  exists (ip6_hdr_n Z16 A1 24 255 ++ with_ck Z16 A1 ([135; 0; 0; 0; 0; 0; 0; 0] ++ A1)), A1,
         (with_ck Z16 A1 ([135; 0; 0; 0; 0; 0; 0; 0] ++ A1)).
  eexists. witness.
Qed.

(* ------------------------------------------------------------------ the stack's own solicitation *)
Definition sol_ck (addr ll localAddr : list Z) : Z :=
  lnot16 (checksum ([135; 0; 0; 0; 0; 0; 0; 0] ++ addr ++ [1; 1] ++ pad6 ll)
            (checksum [0; 0; 0; 58] (checksum [0; 0; 0; 32] (checksum (sn_addr addr) (checksum localAddr 0))))).

Lemma nd_request_eq addr localAddr myMAC : length addr = 16%nat -> length localAddr = 16%nat ->
  nd_link_address_request addr localAddr myMAC =
  Some (ip6_hdr localAddr (sn_addr addr) ++
        [135; 0; w8 (sol_ck addr myMAC localAddr / 2^8); w8 (sol_ck addr myMAC localAddr); 0; 0; 0; 0] ++
        addr ++ [1; 1] ++ pad6 myMAC,
        [255; 255; 255; 255; 255; 255], []).
Proof.
  intros Ha Hl.
  assert (Hsn : length (sn_addr addr) = 16%nat).
  { unfold sn_addr. rewrite app_length, skipn_length, Ha. reflexivity. }
  pose proof (ipv6_encode_flat localAddr (sn_addr addr) Hl Hsn) as Henc.
  destruct (len16 addr Ha) as (a0&a1&a2&a3&a4&a5&a6&a7&a8&a9&a10&a11&a12&a13&a14&a15&->).
  unfold nd_link_address_request, solicitedNodeAddr, solicitedNodeMulticastPrefix, copy_before_opt, put8, sol_ck.
  change (w8 ICMPv6NeighborSolicit) with 135. change ndpOptSrcLinkAddr with 1.
  unfold sn_addr in *.
  destruct myMAC as [|m0 [|m1 [|m2 [|m3 [|m4 [|m5 ?]]]]]]; flat;
    rewrite icmp6Checksum_nil by reflexivity; flat;
    cbv [repeat upd copy_into set_range obind length Nat.ltb Nat.leb Nat.sub Nat.add firstn skipn app put16 pad6] in Henc;
    rewrite Henc; reflexivity.
Qed.

(* (e) our own solicitation: from the local address to the solicited-node multicast address of the
   address being resolved, hop limit 255, type 135 code 0, reserved 0, that address as target, a
   source link-layer address option with the link endpoint's address, a checksum that verifies;
   handed to the link endpoint for ff:ff:ff:ff:ff:ff ("a request is broadcast") with an empty
   link-layer source (the Route literal has no LocalLinkAddress: finding C06-ndp-solicit-zero-src-mac) *)
Theorem nd_request_wf addr localAddr myMAC : length addr = 16%nat -> length localAddr = 16%nat ->
  exists c, 0 <= c < 65536 /\
    nd_link_address_request addr localAddr myMAC =
      Some (ip6_hdr localAddr (sn_addr addr) ++ sol_msg addr myMAC c, [255; 255; 255; 255; 255; 255], []) /\
    (bytes_ok addr -> bytes_ok localAddr -> bytes_ok myMAC ->
     icmp6_verifies localAddr (sn_addr addr) (sol_msg addr myMAC c)).
Proof.
  intros Ha Hl. rewrite nd_request_eq by assumption.
  set (c := sol_ck addr myMAC localAddr). exists c.
  assert (Hc : 0 <= c < 65536).
  { subst c. unfold sol_ck, lnot16.
    match goal with |- context [checksum ?b ?i] => pose proof (checksum_range b i) end. lia. }
  destruct (w8_split c Hc) as [E1 E2]. rewrite E1, E2.
  split; [exact Hc|]. split; [reflexivity|].
  intros Ba Bl Bm.
  assert (Hsn : length (sn_addr addr) = 16%nat).
  { unfold sn_addr. rewrite app_length, skipn_length, Ha. reflexivity. }
  assert (Bsn : bytes_ok (sn_addr addr)).
  { unfold sn_addr. apply Forall_app. split; [bok|apply Forall_skipn, Ba]. }
  pose proof (pad6_length myMAC) as Lp. pose proof (pad6_ok _ Bm) as Bp.
  set (rest := [0; 0; 0; 0] ++ addr ++ [1; 1] ++ pad6 myMAC).
  assert (Lr : length rest = 28%nat) by (subst rest; rewrite !app_length, Ha, Lp; reflexivity).
  assert (Br : bytes_ok rest) by (subst rest; bok).
  pose proof (nd_checksum_verifies localAddr (sn_addr addr) 135 0 rest Bl Bsn ltac:(unfold is_byte; lia)
                ltac:(unfold is_byte; lia) Br Hl Hsn Lr) as V.
  cbv zeta in V. exact V.
Qed.

(* the Ethernet destination is the broadcast address, never the multicast address RFC 2464 7 derives
   from the solicited-node address (33:33:ff:xx:xx:xx) *)
Theorem nd_request_link_destination addr localAddr myMAC pkt d s :
  nd_link_address_request addr localAddr myMAC = Some (pkt, d, s) ->
  d = [255; 255; 255; 255; 255; 255] /\ s = [].
Proof.
  unfold nd_link_address_request. intros H.
  repeat match type of H with
         | context [obind ?e _] => destruct e; cbn [obind] in H; [|discriminate H]
         end.
  injection H as _ <- <-. split; reflexivity.
Qed.

Theorem nd_request_eth_multicast_refuted :
  exists addr localAddr myMAC pkt d s,
    length addr = 16%nat /\ nd_link_address_request addr localAddr myMAC = Some (pkt, d, s) /\
    d <> eth_mcast (sn_addr addr).
Proof.
  exists P9, A1, M1. do 3 eexists. split; [reflexivity|]. split; [vm_compute; reflexivity|].
  vm_compute. discriminate.
Qed.

(* LinkAddressRequest indexes out of range (Go panic) for an address shorter than 3 bytes
   (SolicitedNodeAddr: addr[len(addr)-3:]) or longer than 24 (pkt[icmpV6OptOffset-len(addr):]);
   the stack calls it with the next hop of an IPv6 route, 16 bytes, for which [nd_request_wf] holds *)
Theorem nd_request_panics_short addr localAddr myMAC :
  (length addr < 3)%nat -> nd_link_address_request addr localAddr myMAC = None.
Proof.
  intros H. unfold nd_link_address_request, solicitedNodeAddr.
  destruct (Nat.ltb_spec (length addr) 3); [reflexivity|lia].
Qed.

Theorem nd_request_panics_long addr localAddr myMAC :
  (24 < length addr)%nat -> nd_link_address_request addr localAddr myMAC = None.
Proof.
  intros H. unfold nd_link_address_request, solicitedNodeAddr, copy_before_opt.
  destruct (Nat.ltb_spec (length addr) 3); [reflexivity|]. cbn [obind].
  replace (put8 (repeat 0 32) 0 ICMPv6NeighborSolicit) with (Some (135 :: repeat 0 31)) by reflexivity.
  cbn [obind]. destruct (Nat.ltb_spec 24 (length addr)); [reflexivity|lia].
Qed.

(* ------------------------------------------------------------------ examples: the hypotheses are satisfiable *)
(* a real exchange (the bytes are those of a run of the implementation, harness/cmd/h_c12):
   2001:db8::9 (02:00:00:00:00:09) solicits 2001:db8::1; the stack (02:00:00:00:00:01) advertises *)
Example nd_example :
  let sol := [135; 0; 236; 100; 0; 0; 0; 0] ++ A1 ++ [1; 1] ++ M9 in
  let pkt := ip6_hdr P9 A1 ++ sol in
  rfc_valid_nd pkt P9 A1 sol /\ nd_is_solicit sol /\ In (nd_target sol) [A1] /\
  nd_deliver [A1] M1 M9 [pkt] =
    NdDone (Some (mkNdPacket A1 P9 255 ([136; 0; 138; 108; 96; 0; 0; 0] ++ A1 ++ [2; 1] ++ M1) M9)) [(P9, M9)] /\
  icmp6_verifies A1 P9 ([136; 0; 138; 108; 96; 0; 0; 0] ++ A1 ++ [2; 1] ++ M1) /\
  nd_frame (mkNdPacket A1 P9 255 ([136; 0; 138; 108; 96; 0; 0; 0] ++ A1 ++ [2; 1] ++ M1) M9) =
    Some (ip6_hdr A1 P9 ++ [136; 0; 138; 108; 96; 0; 0; 0] ++ A1 ++ [2; 1] ++ M1).
Proof. cbv zeta. witness. Qed.

(* request -> advertisement -> learn round trip between two instances of the model: our solicitation
   for P9, delivered to a peer that owns P9 and has joined its solicited-node group, is answered to
   us; delivered back, the advertisement makes us record P9 -> the peer's link address (the link-layer
   source the frame arrives with) *)
Example nd_round_trip_example :
  exists req adv,
    nd_link_address_request P9 A1 M1 = Some (req, [255; 255; 255; 255; 255; 255], []) /\
    (exists p, nd_deliver [P9; sn_addr P9] M9 M1 [req] = NdDone (Some p) [(A1, M1)] /\
               np_dst p = A1 /\ np_linkdst p = M1 /\ nd_frame p = Some adv) /\
    nd_deliver [A1] M1 M9 [adv] = NdDone None [(P9, M9)] /\
    (* without the group address on the peer's NIC the request is not answered *)
    nd_deliver [P9] M9 M1 [req] = NdDone None [].
Proof.
  eexists. eexists. split; [vm_compute; reflexivity|].
  split; [eexists; split; [vm_compute; reflexivity|witness]|]. witness.
Qed.

(* the advertisement of the property read back field by field (Ethernet: 6-byte link address) *)
Theorem adv_msg_readback target ll c : length target = 16%nat -> length ll = 6%nat ->
  let m := adv_msg target ll c in
  length m = 32%nat /\ nd_is_advert m /\ nth 1 m 0 = 0 /\ nth 4 m 0 = 64 + 32 /\
  nd_target m = target /\ bytes_at m 24 8 = [2; 1] ++ ll.
Proof.
  intros Ht Hl.
  destruct (len16 target Ht) as (a0&a1&a2&a3&a4&a5&a6&a7&a8&a9&a10&a11&a12&a13&a14&a15&->).
  do 6 (destruct ll as [|? ll]; [discriminate Hl|]). destruct ll; [|discriminate Hl].
  cbv zeta. unfold nd_is_advert. repeat split; try reflexivity; cbn [length adv_msg app pad6 firstn]; lia.
Qed.
