(* C01, send direction: vocabulary (slices of the written stream), the sender invariant and the
   frame lemmas for everything that is not the sender proper (emitting, receiver, glue).
   The sender functions themselves are treated in Proofs/TcpSndLoopP.v, the trace-level
   theorems in Proofs/TcpSndP.v. *)
From Coq Require Import ZArith List Bool Lia ZifyBool.
From RecordUpdate Require Import RecordSet.
From NP Require Import Model.Seqnum Model.GoHeap Model.Tcp Proofs.SeqnumP.
Import ListNotations RecordSetNotations.
Open Scope Z_scope.

(* ------------------------------------------------------------------ lists *)

Lemma len_app (a b : list Z) : len (a ++ b) = len a + len b.
Proof. unfold len. rewrite app_length. lia. Qed.
Lemma len_nonneg (a : list Z) : 0 <= len a.
Proof. unfold len. lia. Qed.
Lemma len_nil : len [] = 0.
Proof. reflexivity. Qed.
Lemma len_zero_nil (a : list Z) : len a = 0 -> a = [].
Proof. destruct a; [reflexivity|]. unfold len. cbn [length]. lia. Qed.
Lemma len_pos_nonnil (a : list Z) : a <> [] -> 0 < len a.
Proof. destruct a; [congruence|]. unfold len. cbn [length]. lia. Qed.
Lemma take_drop (k : Z) (d : list Z) : takeZ k d ++ dropZ k d = d.
Proof. apply firstn_skipn. Qed.
Lemma len_takeZ (k : Z) (d : list Z) : 0 <= k <= len d -> len (takeZ k d) = k.
Proof. unfold len, takeZ. intros H. rewrite firstn_length. lia. Qed.
Lemma len_dropZ (k : Z) (d : list Z) : 0 <= k <= len d -> len (dropZ k d) = len d - k.
Proof. unfold len, dropZ. intros H. rewrite skipn_length. lia. Qed.
Lemma takeZ_nonnil (k : Z) (d : list Z) : 1 <= k -> d <> [] -> takeZ k d <> [].
Proof.
  intros Hk Hd. unfold takeZ. destruct d as [|x d]; [congruence|].
  destruct (Z.to_nat k) eqn:E; [lia|]. cbn. congruence.
Qed.
Lemma dropZ_nonnil (k : Z) (d : list Z) : 0 <= k < len d -> dropZ k d <> [].
Proof.
  intros H E. pose proof (len_dropZ k d ltac:(lia)) as L. rewrite E, len_nil in L. lia.
Qed.
Lemma takeZ_len_self (k : Z) (d : list Z) :
  firstn (Z.to_nat (len (takeZ k d))) d = takeZ k d.
Proof.
  unfold len, takeZ. rewrite Nat2Z.id. rewrite firstn_length.
  destruct (Nat.le_ge_cases (Z.to_nat k) (length d)) as [L|L].
  - rewrite Nat.min_l by exact L. reflexivity.
  - rewrite Nat.min_r by exact L. rewrite !firstn_all2; [reflexivity|exact L|lia].
Qed.

(* ------------------------------------------------------------------ specification vocabulary *)

(* d is the part of the stream W that starts at offset off *)
Definition is_slice (W : list Z) (off : Z) (d : list Z) : Prop :=
  exists pre post, W = pre ++ d ++ post /\ len pre = off.

(* the same, said with firstn/skipn *)
Lemma is_slice_firstn_skipn W off d :
  is_slice W off d <->
  0 <= off /\ off + len d <= len W /\ d = firstn (length d) (skipn (Z.to_nat off) W).
Proof.
  split.
  - intros (pre & post & -> & <-). split; [apply len_nonneg|]. split.
    + rewrite !len_app. pose proof (len_nonneg post). lia.
    + unfold len. rewrite Nat2Z.id. rewrite skipn_app, skipn_all, Nat.sub_diag. cbn [skipn app].
      rewrite firstn_app, firstn_all, Nat.sub_diag. cbn [firstn]. rewrite app_nil_r. reflexivity.
  - intros (H0 & H1 & E). exists (firstn (Z.to_nat off) W), (skipn (length d) (skipn (Z.to_nat off) W)).
    split.
    + rewrite E at 1. rewrite firstn_skipn, firstn_skipn. reflexivity.
    + unfold len in *. rewrite firstn_length. lia.
Qed.

Lemma slice_bounds W o d : is_slice W o d -> 0 <= o /\ o + len d <= len W.
Proof.
  intros (pre & post & -> & <-). rewrite !len_app.
  pose proof (len_nonneg pre). pose proof (len_nonneg post). lia.
Qed.
Lemma slice_mono W X o d : is_slice W o d -> is_slice (W ++ X) o d.
Proof.
  intros (pre & post & -> & <-). exists pre, (post ++ X). split; [|reflexivity].
  rewrite <- !app_assoc. reflexivity.
Qed.
Lemma slice_end W v : is_slice (W ++ v) (len W) v.
Proof. exists W, []. rewrite app_nil_r. split; reflexivity. Qed.
Lemma slice_take W o d k : is_slice W o d -> is_slice W o (takeZ k d).
Proof.
  intros (pre & post & -> & <-). exists pre, (dropZ k d ++ post). split; [|reflexivity].
  rewrite <- (take_drop k d) at 1. rewrite <- !app_assoc. reflexivity.
Qed.
Lemma slice_drop W o d k : is_slice W o d -> 0 <= k <= len d -> is_slice W (o + k) (dropZ k d).
Proof.
  intros (pre & post & -> & <-) Hk. exists (pre ++ takeZ k d), post. split.
  - rewrite <- (take_drop k d) at 1. rewrite <- !app_assoc. reflexivity.
  - rewrite len_app, len_takeZ by exact Hk. reflexivity.
Qed.

(* ------------------------------------------------------------------ the write list as a chain of slices *)

Definition fDATA := 24.   (* ACK|PSH *)
Definition fFINACK := 17. (* ACK|FIN *)

Section Chain.
Variable iss : Z.

(* numbered elements: consecutive slices of W from offset o up to offset e; a FIN element, if
   present, is last, sits at offset |W| and occupies one sequence number *)
Inductive chain (W : list Z) (fin : bool) : Z -> list wseg -> Z -> Prop :=
| ch_nil o : chain W fin o [] o
| ch_data o d r e : d <> [] -> is_slice W o d -> chain W fin (o + len d) r e ->
    chain W fin o (mkW (seq_of iss o) fDATA d :: r) e
| ch_fin : fin = true -> chain W fin (len W) [mkW (seq_of iss (len W)) fFINACK []] (len W + 1).

Definition total (W : list Z) (fin : bool) : Z := len W + (if fin then 1 else 0).

(* elements not numbered yet (flags 0, seq 0): consecutive chunks from offset o to the end of W,
   then the FIN request if the application has shut down and it has not been numbered yet *)
Inductive fresh (W : list Z) (fin : bool) : Z -> list wseg -> Prop :=
| fr_nil : fresh W fin (total W fin) []
| fr_data o d r : d <> [] -> is_slice W o d -> fresh W fin (o + len d) r ->
    fresh W fin o (mkW 0 0 d :: r)
| fr_fin : fin = true -> fresh W fin (len W) [mkW 0 0 []].

Lemma chain_le W fin o l e : chain W fin o l e -> o <= e.
Proof.
  induction 1 as [o|o d r e Hd Hs Hc IH|Hf]; [lia| |lia].
  pose proof (len_nonneg d). lia.
Qed.
Lemma chain_app W fin o l1 m l2 e :
  chain W fin o l1 m -> chain W fin m l2 e -> chain W fin o (l1 ++ l2) e.
Proof.
  induction 1 as [o|o d r m Hd Hs Hc IH|Hf]; intros H2.
  - exact H2.
  - cbn [app]. apply ch_data; auto.
  - inversion H2 as [o' E1 E2 E3|o' d r e' Hd Hs Hc E1 E2 E3|Hf' E1 E2 E3]; subst.
    + cbn [app]. apply ch_fin; reflexivity.
    + apply slice_bounds in Hs. apply len_pos_nonnil in Hd. lia.
    + lia.
Qed.
Lemma chain_snoc_data W fin o l m d :
  chain W fin o l m -> d <> [] -> is_slice W m d ->
  chain W fin o (l ++ [mkW (seq_of iss m) fDATA d]) (m + len d).
Proof.
  intros H Hd Hs. eapply chain_app; [exact H|]. apply ch_data; auto. apply ch_nil.
Qed.
Lemma chain_nonempty W fin o l e : chain W fin o l e -> o < e -> l <> [].
Proof. intros H L. inversion H; subst; try congruence. lia. Qed.
Lemma chain_lo W fin o l e : chain W fin o l e -> l <> [] -> 0 <= o.
Proof.
  intros H L. inversion H as [o' E1 E2 E3|o' d r e' Hd Hs Hc E1 E2 E3|Hf E1 E2 E3]; subst.
  - congruence.
  - apply slice_bounds in Hs. lia.
  - apply len_nonneg.
Qed.
Lemma chain_hi W fin o l e : chain W fin o l e -> l <> [] -> e <= total W fin.
Proof.
  unfold total. induction 1 as [o|o d r e Hd Hs Hc IH|Hf]; intros L.
  - congruence.
  - destruct r as [|x r].
    + inversion Hc; subst. apply slice_bounds in Hs. destruct fin; lia.
    + apply IH. congruence.
  - rewrite Hf. cbn match. lia.
Qed.
Lemma fresh_hi W fin o l : fresh W fin o l -> o <= total W fin.
Proof.
  unfold total. induction 1 as [|o d r Hd Hs Hc IH|Hf].
  - unfold total. lia.
  - pose proof (len_nonneg d). lia.
  - rewrite Hf. cbn match. lia.
Qed.

(* growth of W (only while fin = false) and the shutdown request *)
Lemma chain_mono W X o l e : chain W false o l e -> chain (W ++ X) false o l e.
Proof.
  induction 1 as [o|o d r e Hd Hs Hc IH|Hf]; [apply ch_nil| |discriminate].
  apply ch_data; auto using slice_mono.
Qed.
Lemma chain_shut W o l e : chain W false o l e -> chain W true o l e.
Proof.
  induction 1 as [o|o d r e Hd Hs Hc IH|Hf]; [apply ch_nil| |discriminate].
  apply ch_data; auto.
Qed.
Lemma fresh_write W v o l : v <> [] ->
  fresh W false o l -> fresh (W ++ v) false o (l ++ [mkW 0 0 v]).
Proof.
  intros Hv H. remember false as fin eqn:Ef.
  induction H as [|o d r Hd Hs Hc IH|Hf]; subst fin.
  - unfold total. rewrite Z.add_0_r. cbn [app]. apply fr_data; [exact Hv|apply slice_end|].
    replace (len W + len v) with (total (W ++ v) false) by (unfold total; rewrite len_app; lia).
    apply fr_nil.
  - cbn [app]. apply fr_data; auto using slice_mono.
  - discriminate.
Qed.
Lemma fresh_shut W o l : fresh W false o l -> fresh W true o (l ++ [mkW 0 0 []]).
Proof.
  intros H. remember false as fin eqn:Ef.
  induction H as [|o d r Hd Hs Hc IH|Hf]; subst fin.
  - unfold total. rewrite Z.add_0_r. cbn [app]. apply fr_fin. reflexivity.
  - cbn [app]. apply fr_data; auto.
  - discriminate.
Qed.

(* ------------------------------------------------------------------ the invariant *)

Definition BOUND := 2^30.

(* a, n: stream offsets of sndUna and sndNxt.  m: end of wsent; e: end of the numbered part;
   fl: offset of fastRecovery.last *)
Definition InvC (W : list Z) (fin : bool) (a n : Z)
  (una nxt nxtl : Z) (sent unsent : list wseg) (frl mp : Z) : Prop :=
  exists m e fl nu fr,
    una = seq_of iss a /\ nxt = seq_of iss n /\ nxtl = seq_of iss (total W fin) /\
    chain W fin a sent m /\ unsent = nu ++ fr /\ chain W fin m nu e /\ fresh W fin e fr /\
    0 <= a /\ a <= m /\ m <= n /\ n <= e /\
    frl = seq_of iss fl /\ -1 <= fl /\ fl < n /\
    1 <= mp /\ len W < BOUND.

Definition InvA (W : list Z) (fin : bool) (a n : Z) (s : sndr) : Prop :=
  InvC W fin a n (sndUna s) (sndNxt s) (sndNxtList s) (wsent s) (wunsent s) (frLast s) (maxPayload s).

Definition Inv (W : list Z) (t : tcp) : Prop :=
  exists a n, InvA W (sndClosedE t) a n (SN t).

(* what a frame may be: data frames are slices of W at the offset their sequence number names and
   never carry FIN; a FIN frame is empty, sits at offset |W| and needs the shutdown *)
Definition good_frame (W : list Z) (fin : bool) (f : frame) : Prop :=
  (f_data f <> [] -> exists off, f_seq f = seq_of iss off /\ is_slice W off (f_data f)) /\
  (has (f_flags f) fFin = true -> fin = true /\ f_data f = [] /\ f_seq f = seq_of iss (len W)).

Lemma good_frame_mono W X fin fin' f :
  good_frame W fin f -> (fin = true -> X = [] /\ fin' = true) -> good_frame (W ++ X) fin' f.
Proof.
  intros [H1 H2] HX. split.
  - intros Hd. destruct (H1 Hd) as (off & E & S). exists off. auto using slice_mono.
  - intros Hf. destruct (H2 Hf) as (F & D & Q). destruct (HX F) as [-> ->].
    rewrite app_nil_r. auto.
Qed.
Lemma good_empty W fin sq ak fl wnd : has fl fFin = false -> good_frame W fin (mkF sq ak fl wnd []).
Proof. intros H. split; cbn; [congruence|]. rewrite H. discriminate. Qed.
Lemma good_data W fin o d ak wnd : is_slice W o d ->
  good_frame W fin (mkF (seq_of iss o) ak fDATA wnd d).
Proof. intros H. split; cbn; [eauto|discriminate]. Qed.
Lemma good_fin W ak wnd : good_frame W true (mkF (seq_of iss (len W)) ak fFINACK wnd []).
Proof. split; cbn; [congruence|auto]. Qed.

(* t' is t plus some good frames, same application-level shutdown flag *)
Definition Ext (W : list Z) (fin : bool) (t t' : tcp) : Prop :=
  sndClosedE t' = sndClosedE t /\
  exists fs, out t' = out t ++ fs /\ Forall (good_frame W fin) fs.

Lemma Ext_refl W fin t : Ext W fin t t.
Proof. split; [reflexivity|]. exists []. rewrite app_nil_r. auto. Qed.
Lemma Ext_trans W fin t1 t2 t3 : Ext W fin t1 t2 -> Ext W fin t2 t3 -> Ext W fin t1 t3.
Proof.
  intros [C1 (f1 & O1 & G1)] [C2 (f2 & O2 & G2)]. split; [congruence|].
  exists (f1 ++ f2). rewrite O2, O1, app_assoc. split; [reflexivity|].
  apply Forall_app. auto.
Qed.
(* same sender core *)
Definition core_eq (s s' : sndr) : Prop :=
  sndUna s' = sndUna s /\ sndNxt s' = sndNxt s /\ sndNxtList s' = sndNxtList s /\
  wsent s' = wsent s /\ wunsent s' = wunsent s /\ frLast s' = frLast s /\ maxPayload s' = maxPayload s.
Lemma core_eq_refl s : core_eq s s.
Proof. repeat split. Qed.
Lemma core_eq_trans s1 s2 s3 : core_eq s1 s2 -> core_eq s2 s3 -> core_eq s1 s3.
Proof. unfold core_eq. intuition congruence. Qed.
Lemma InvA_core W fin a n s s' : core_eq s s' -> InvA W fin a n s -> InvA W fin a n s'.
Proof.
  unfold core_eq, InvA. intros (E1 & E2 & E3 & E4 & E5 & E6 & E7).
  rewrite E1, E2, E3, E4, E5, E6, E7. auto.
Qed.

(* "frame" relation used for everything outside the sender: core untouched, good frames added *)
Definition Keeps (t t' : tcp) : Prop :=
  core_eq (SN t) (SN t') /\ forall W fin, Ext W fin t t'.
Lemma Keeps_refl t : Keeps t t.
Proof. split; [apply core_eq_refl|intros; apply Ext_refl]. Qed.
Lemma Keeps_trans t1 t2 t3 : Keeps t1 t2 -> Keeps t2 t3 -> Keeps t1 t3.
Proof.
  intros [A1 B1] [A2 B2]. split; [eapply core_eq_trans; eauto|].
  intros W fin. eapply Ext_trans; eauto.
Qed.

(* ------------------------------------------------------------------ emitting *)

Lemma sendSegment_SN t d fl sq :
  SN (sendSegment t d fl sq) = (SN t) <| maxSentAck := rcvNxt (RC t) |>.
Proof. unfold sendSegment, getSendParams. cbn. reflexivity. Qed.
Lemma sendSegment_out t d fl sq :
  exists ak wnd, out (sendSegment t d fl sq) = out t ++ [mkF sq ak fl wnd d].
Proof. unfold sendSegment, getSendParams. cbn. eauto. Qed.
Lemma sendSegment_closed t d fl sq : sndClosedE (sendSegment t d fl sq) = sndClosedE t.
Proof. unfold sendSegment, getSendParams. cbn. reflexivity. Qed.
Lemma sendSegment_core t d fl sq : core_eq (SN t) (SN (sendSegment t d fl sq)).
Proof. rewrite sendSegment_SN. unfold core_eq. cbn. repeat split. Qed.

Lemma sendSegment_Ext W fin t d fl sq :
  (forall ak wnd, good_frame W fin (mkF sq ak fl wnd d)) ->
  Ext W fin t (sendSegment t d fl sq).
Proof.
  intros G. split; [apply sendSegment_closed|].
  destruct (sendSegment_out t d fl sq) as (ak & wnd & E). exists [mkF sq ak fl wnd d].
  split; [exact E|]. constructor; [apply G|constructor].
Qed.

Lemma sendAck_Keeps t : Keeps t (sendAck t).
Proof.
  unfold sendAck. split; [apply sendSegment_core|].
  intros W fin. apply sendSegment_Ext. intros. apply good_empty. reflexivity.
Qed.

Lemma Keeps_pure t t' :
  core_eq (SN t) (SN t') -> sndClosedE t' = sndClosedE t -> out t' = out t -> Keeps t t'.
Proof.
  intros C E O. split; [exact C|]. intros W fin. split; [exact E|].
  exists []. rewrite app_nil_r. auto.
Qed.
Ltac kpure := apply Keeps_pure; cbn; [apply core_eq_refl|reflexivity|reflexivity].

(* ------------------------------------------------------------------ receiver and glue: frame lemmas *)

Lemma readyToRead_Keeps t d : Keeps t (readyToRead t d).
Proof. unfold readyToRead. kpure. Qed.

Lemma consumeSegment_Keeps t fl d sq sl fh :
  Keeps t (fst (fst (consumeSegment t fl d sq sl fh))).
Proof.
  assert (GO : forall t0 sq0 sl0,
    Keeps t0 (if has fl fFin then
        let t1 := t0 <| RC := (RC t0) <| rcvNxt := add sq0 sl0 |> |> in
        let t2 := t1 <| RC := (RC t1) <| rcvNxt := u32 (rcvNxt (RC t1) + 1) |> |> in
        let t3 := sendAck t2 in
        let first := if fh && negb (Nat.eqb (length (pending (RC t3))) 0) then 1%nat else 0%nat in
        t3 <| RC := (RC t3) <| rclosed := true |> <| pending := firstn first (pending (RC t3)) |> |>
           <| rcvClosedE := true |>
      else t0 <| RC := (RC t0) <| rcvNxt := add sq0 sl0 |> |>)).
  { intros t0 sq0 sl0. destruct (has fl fFin); [|kpure]. cbv zeta.
    match goal with |- context [sendAck ?x] =>
      apply Keeps_trans with x; [kpure|];
      apply Keeps_trans with (sendAck x); [apply sendAck_Keeps|];
      generalize (sendAck x); intros t3; kpure end. }
  unfold consumeSegment. cbv zeta.
  destruct (0 <? sl).
  - destruct (negb (inWindow (rcvNxt (RC t)) sq sl)); [apply Keeps_refl|].
    destruct (lessThan sq (rcvNxt (RC t))).
    + eapply Keeps_trans; [apply (readyToRead_Keeps t (dropZ (size sq (rcvNxt (RC t))) d))|].
      specialize (GO (readyToRead t (dropZ (size sq (rcvNxt (RC t))) d))
                     (add sq (size sq (rcvNxt (RC t)))) (u32 (sl - size sq (rcvNxt (RC t))))).
      destruct (has fl fFin); exact GO.
    + eapply Keeps_trans; [apply (readyToRead_Keeps t d)|].
      specialize (GO (readyToRead t d) sq sl). destruct (has fl fFin); exact GO.
  - destruct (negb (sq =? rcvNxt (RC t))); [apply Keeps_refl|].
    specialize (GO t sq sl). destruct (has fl fFin); exact GO.
Qed.

Lemma drainPending_Keeps fuel : forall t, Keeps t (drainPending fuel t).
Proof.
  induction fuel as [|f IH]; intros t; [apply Keeps_refl|].
  cbn [drainPending]. destruct (rclosed (RC t)); [apply Keeps_refl|].
  destruct (pending (RC t)) as [|s ps] eqn:EP; [apply Keeps_refl|].
  assert (POP : forall t0 data, Keeps t0
    match pop pless (pending (RC t0)) with
    | Some (h', _) =>
        drainPending f (t0 <| RC := (RC t0) <| pending := h' |>
                 <| pendUsed := u32 (pendUsed (RC t0) - plogicalLen (p_flags s) data) |> |>)
    | None => t0
    end).
  { intros t0 data. destruct (pop pless (pending (RC t0))) as [[h' x]|]; [|apply Keeps_refl].
    eapply Keeps_trans; [|apply IH]. kpure. }
  destruct (lessThan _ _); [specialize (POP t (p_data s)); rewrite EP in POP; exact POP|].
  pose proof (consumeSegment_Keeps t (p_flags s) (p_data s) (p_seq s) (len (p_data s)) true) as K.
  destruct (consumeSegment t (p_flags s) (p_data s) (p_seq s) (len (p_data s)) true) as [[t1 ok] data'].
  cbn [fst] in K. destruct ok; [|apply Keeps_refl].
  eapply Keeps_trans; [exact K|apply POP].
Qed.

Lemma rcvHandle_Keeps t sg : Keeps t (rcvHandle t sg).
Proof.
  unfold rcvHandle. destruct (rclosed (RC t)); [apply Keeps_refl|]. cbv zeta.
  destruct (negb (acceptable _ _ _)); [apply sendAck_Keeps|].
  pose proof (consumeSegment_Keeps t (s_flags sg) (s_data sg) (s_seq sg) (len (s_data sg)) false) as K.
  destruct (consumeSegment t (s_flags sg) (s_data sg) (s_seq sg) (len (s_data sg)) false) as [[t1 ok] data'].
  cbn [fst] in K. destruct ok; cbn [negb].
  - eapply Keeps_trans; [exact K|apply drainPending_Keeps].
  - destruct (_ || _); [|apply Keeps_refl].
    eapply Keeps_trans; [|apply sendAck_Keeps].
    destruct (_ <? _); [kpure|apply Keeps_refl].
Qed.

Lemma nonZeroWindow_Keeps t : Keeps t (nonZeroWindow t).
Proof. unfold nonZeroWindow. destruct (negb _); [apply Keeps_refl|apply sendAck_Keeps]. Qed.

Lemma loopExit_Keeps t : Keeps t (loopExit t).
Proof.
  unfold loopExit. destruct (_ && _); [|apply Keeps_refl].
  destruct (_ =? _); [apply Keeps_refl|kpure].
Qed.

Lemma abortOnReset_Keeps t : Keeps t (abortOnReset t).
Proof. unfold abortOnReset. kpure. Qed.

Lemma resetConnection_Keeps t : Keeps t (resetConnection t).
Proof.
  unfold resetConnection. split; [cbn; apply core_eq_refl|].
  intros W fin. split; [reflexivity|]. cbn. eexists. split; [reflexivity|].
  constructor; [|constructor]. apply good_empty. reflexivity.
Qed.

Lemma maybeAck_Keeps t : Keeps t (if negb (rcvNxt (RC t) =? maxSentAck (SN t)) then sendAck t else t).
Proof. destruct (negb _); [apply sendAck_Keeps|apply Keeps_refl]. Qed.

Lemma Inv_Keeps W t t' : Keeps t t' -> Inv W t -> Inv W t'.
Proof.
  intros [C E] (a & n & H). destruct (E W (sndClosedE t)) as [EC _].
  exists a, n. rewrite EC. eapply InvA_core; eauto.
Qed.

End Chain.
#[global] Hint Resolve Keeps_refl : core.
