(* Proofs about the link-address cache model (Model/LinkCache.v).

   Organisation
   1. total ("pure") forms of changeState / state / makeAndAddEntry and of the four operations,
      with the lemmas that the option-valued model functions equal them whenever the panic
      branches are not taken;
   2. the structural invariant [Inv] (map entries point at their own slot's key; an incomplete
      entry reached through the map has a waker map; done channels are unique) and its
      preservation: [cache_never_panics];
   3. the history invariant and [cache_get_sound];
   4. the resolver run and [resolution_budget]. *)
From Coq Require Import ZArith List Bool Lia Arith PeanoNat.
From NP Require Import Model.LinkCache.
Import ListNotations.
Open Scope Z_scope.

(* ================================================================== 1. pure forms *)

Lemma st_eqb_eq a b : st_eqb a b = true <-> a = b.
Proof. destruct a, b; cbn; split; intro H; try discriminate; reflexivity. Qed.
Lemma st_eqb_refl a : st_eqb a a = true.
Proof. destruct a; reflexivity. Qed.
Lemma st_eqb_neq a b : st_eqb a b = false <-> a <> b.
Proof. destruct a, b; cbn; split; intro H; try discriminate; try congruence; reflexivity. Qed.

Definition notifs (e : entry) : list ev :=
  map (Notify (e_done e)) (wakers_of e) ++ match e_done e with Some ch => [Close ch] | None => [] end.

Definition cs (e : entry) (ns : st) : entry :=
  if st_eqb (e_s e) ns then e else
  mkEntry (e_addr e) (e_link e) (e_exp e) ns
    (if st_eqb (e_s e) Incomplete then None else e_wakers e) (e_done e).
Definition cs_ev (e : entry) (ns : st) : list ev :=
  if st_eqb (e_s e) ns then [] else if st_eqb (e_s e) Incomplete then notifs e else [].

(* the transitions changeState accepts *)
Definition legal (s ns : st) : Prop := s = ns \/ s = Incomplete \/ (ns = Expired /\ s <> Expired).

Lemma changeState_ok e ns : legal (e_s e) ns -> changeState e ns = Some (cs e ns, cs_ev e ns).
Proof.
  unfold legal, changeState, cs, cs_ev, notifs. intros H.
  destruct (st_eqb (e_s e) ns) eqn:E; [reflexivity|].
  apply st_eqb_neq in E.
  destruct H as [H|[H|[H1 H2]]]; [contradiction| |].
  - rewrite H. reflexivity.
  - subst ns. destruct (e_s e); cbn; try reflexivity. contradiction.
Qed.

(* the panic branches of changeState, spelled out: exactly the illegal transitions *)
Lemma changeState_panics_iff e ns : changeState e ns = None <-> ~ legal (e_s e) ns.
Proof.
  split.
  - intros H L. rewrite (changeState_ok e ns L) in H. discriminate.
  - intros H. unfold changeState, legal in *.
    destruct (e_s e), ns; cbn; try reflexivity; exfalso; apply H; auto;
      right; right; split; congruence.
Qed.

Definition expired_now (e : entry) (now : Z) : bool := negb (st_eqb (e_s e) Expired) && (e_exp e <? now).
Definition stp (e : entry) (now : Z) : entry := if expired_now e now then cs e Expired else e.
Definition stp_ev (e : entry) (now : Z) : list ev := if expired_now e now then cs_ev e Expired else [].

Lemma state_ok e now : state e now = Some (stp e now, stp_ev e now).
Proof.
  unfold state, stp, stp_ev, expired_now.
  destruct (negb (st_eqb (e_s e) Expired) && (e_exp e <? now)) eqn:E; [|reflexivity].
  apply changeState_ok. apply andb_true_iff in E. destruct E as [E _].
  apply negb_true_iff, st_eqb_neq in E. right. right. split; [reflexivity|exact E].
Qed.

Definition relink (e : entry) (v : Z) : entry :=
  mkEntry (e_addr e) v (e_exp e) (e_s e) (e_wakers e) (e_done e).
Definition new_entry (P : params) (c : cache) (now k v : Z) : entry :=
  mkEntry k v (now + p_age P) Incomplete (Some []) (Some (c_chan c)).

Definition alloc (P : params) (c : cache) (now k v : Z) : cache :=
  let i := c_next c in
  let old := c_ent c i in
  let c1 := if opt_nat_eqb (c_map c (e_addr old)) i then set_map c (e_addr old) None else c in
  let c2 := set_map (set_ent c1 i (new_entry P c now k v)) k (Some i) in
  mkCache (c_map c2) (Nat.modulo (i + 1) (p_N P)) (c_ent c2) (c_chan c + 1).
Definition alloc_ev (c : cache) : list ev := cs_ev (c_ent c (c_next c)) Expired.

Lemma makeAndAddEntry_ok P c now k v :
  makeAndAddEntry P c now k v = Some (alloc P c now k v, c_next c, alloc_ev c).
Proof.
  unfold makeAndAddEntry, alloc, alloc_ev, new_entry.
  rewrite changeState_ok; [reflexivity|].
  destruct (e_s (c_ent c (c_next c))); unfold legal; auto;
    right; right; split; congruence.
Qed.

Lemma alloc_map P c now k v x :
  c_map (alloc P c now k v) x =
  if x =? k then Some (c_next c)
  else if opt_nat_eqb (c_map c (e_addr (c_ent c (c_next c)))) (c_next c) && (x =? e_addr (c_ent c (c_next c)))
       then None else c_map c x.
Proof.
  unfold alloc. cbn.
  destruct (x =? k); [reflexivity|].
  destruct (opt_nat_eqb (c_map c (e_addr (c_ent c (c_next c)))) (c_next c)); cbn; reflexivity.
Qed.

Lemma alloc_ent P c now k v j :
  c_ent (alloc P c now k v) j = if Nat.eqb j (c_next c) then new_entry P c now k v else c_ent c j.
Proof.
  unfold alloc. cbn.
  destruct (opt_nat_eqb (c_map c (e_addr (c_ent c (c_next c)))) (c_next c)); cbn; reflexivity.
Qed.

Lemma alloc_next P c now k v : c_next (alloc P c now k v) = Nat.modulo (c_next c + 1) (p_N P).
Proof. reflexivity. Qed.
Lemma alloc_chan P c now k v : c_chan (alloc P c now k v) = c_chan c + 1.
Proof. reflexivity. Qed.

Lemma set_ent_map c i e x : c_map (set_ent c i e) x = c_map c x.
Proof. reflexivity. Qed.
Lemma set_ent_ent c i e j : c_ent (set_ent c i e) j = if Nat.eqb j i then e else c_ent c j.
Proof. reflexivity. Qed.
Lemma set_ent_same c i e : c_ent (set_ent c i e) i = e.
Proof. cbn. rewrite Nat.eqb_refl. reflexivity. Qed.
Lemma set_ent_next c i e : c_next (set_ent c i e) = c_next c.
Proof. reflexivity. Qed.
Lemma set_ent_chan c i e : c_chan (set_ent c i e) = c_chan c.
Proof. reflexivity. Qed.

(* ready-ing the entry in slot j *)
Definition ready_at (c : cache) (j : nat) : cache := set_ent c j (cs (c_ent c j) Ready).

Lemma finish_ready_ok c j evs : e_s (c_ent c j) = Incomplete ->
  finish_ready c j evs = Some (ready_at c j, evs ++ cs_ev (c_ent c j) Ready).
Proof.
  intros H. unfold finish_ready, ready_at. rewrite changeState_ok; [reflexivity|].
  right. left. exact H.
Qed.

(* --- add --- *)
Definition add_p (P : params) (c : cache) (now k v : Z) : cache * list ev :=
  match c_map c k with
  | Some i =>
      let e1 := stp (c_ent c i) now in
      let ev1 := stp_ev (c_ent c i) now in
      let c1 := set_ent c i e1 in
      if negb (st_eqb (e_s e1) Expired) && (e_link e1 =? v) then (c1, ev1)
      else if st_eqb (e_s e1) Incomplete then
        let c2 := set_ent c1 i (relink e1 v) in
        (ready_at c2 i, ev1 ++ cs_ev (relink e1 v) Ready)
      else
        let c2 := alloc P c1 now k v in
        (ready_at c2 (c_next c1), (ev1 ++ alloc_ev c1) ++ cs_ev (new_entry P c1 now k v) Ready)
  | None =>
      let c2 := alloc P c now k v in
      (ready_at c2 (c_next c), alloc_ev c ++ cs_ev (new_entry P c now k v) Ready)
  end.

Lemma alloc_new_slot P c now k v : c_ent (alloc P c now k v) (c_next c) = new_entry P c now k v.
Proof. rewrite alloc_ent, Nat.eqb_refl. reflexivity. Qed.

Lemma add_ok P c now k v : add P c now k v = Some (add_p P c now k v).
Proof.
  unfold add, add_p.
  destruct (c_map c k) as [i|].
  - rewrite state_ok.
    destruct (negb (st_eqb (e_s (stp (c_ent c i) now)) Expired) && (e_link (stp (c_ent c i) now) =? v));
      [reflexivity|].
    destruct (st_eqb (e_s (stp (c_ent c i) now)) Incomplete) eqn:E.
    + apply st_eqb_eq in E. rewrite finish_ready_ok.
      * rewrite set_ent_same. reflexivity.
      * rewrite set_ent_same. exact E.
    + rewrite makeAndAddEntry_ok. rewrite finish_ready_ok.
      * rewrite alloc_new_slot. reflexivity.
      * rewrite alloc_new_slot. reflexivity.
  - rewrite makeAndAddEntry_ok. rewrite finish_ready_ok.
    + rewrite alloc_new_slot. reflexivity.
    + rewrite alloc_new_slot. reflexivity.
Qed.

(* --- checkLinkRequest --- *)
Definition check_p (P : params) (c : cache) (now k attempt : Z) : cache * bool * list ev :=
  match c_map c k with
  | None => (c, true, [])
  | Some i =>
      let e1 := stp (c_ent c i) now in
      let ev1 := stp_ev (c_ent c i) now in
      let c1 := set_ent c i e1 in
      match e_s e1 with
      | Incomplete =>
          if p_attempts P <=? attempt + 1 then (set_ent c1 i (cs e1 Failed), true, ev1 ++ cs_ev e1 Failed)
          else (c1, false, ev1)
      | _ => (c1, true, ev1)
      end
  end.

Lemma check_ok P c now k a : checkLinkRequest P c now k a = Some (check_p P c now k a).
Proof.
  unfold checkLinkRequest, check_p.
  destruct (c_map c k) as [i|]; [|reflexivity].
  rewrite state_ok.
  destruct (e_s (stp (c_ent c i) now)) eqn:E; try reflexivity.
  destruct (p_attempts P <=? a + 1); [|reflexivity].
  rewrite changeState_ok; [reflexivity|]. right. left. exact E.
Qed.

(* --- get --- *)
Definition addWaker_p (e : entry) (w : Z) : entry :=
  mkEntry (e_addr e) (e_link e) (e_exp e) (e_s e)
    (Some (if existsb (Z.eqb w) (wakers_of e) then wakers_of e else wakers_of e ++ [w])) (e_done e).

Lemma addWaker_ok e w : e_wakers e <> None -> addWaker e w = Some (addWaker_p e w).
Proof.
  unfold addWaker, addWaker_p, wakers_of. destruct (e_wakers e); [reflexivity|congruence].
Qed.

Definition get_miss_p (P : params) (c : cache) (now k : Z) (res : option (option Z)) (w : Z) (evs : list ev)
  : cache * gret * list ev :=
  match res with
  | None => (c, GNoLink, evs)
  | Some _ =>
      let c2 := alloc P c now k 0 in
      (set_ent c2 (c_next c) (addWaker_p (new_entry P c now k 0) w), GBlock (Some (c_chan c)) true, evs ++ alloc_ev c)
  end.

Lemma get_miss_ok P c now k res w evs : get_miss P c now k res w evs = Some (get_miss_p P c now k res w evs).
Proof.
  unfold get_miss, get_miss_p. destruct res; [|reflexivity].
  rewrite makeAndAddEntry_ok, alloc_new_slot. rewrite addWaker_ok by (cbn; congruence). reflexivity.
Qed.

Definition get_p (P : params) (c : cache) (now k : Z) (res : option (option Z)) (w : Z)
  : cache * gret * list ev :=
  match res with
  | Some (Some a) => (c, GAddr a, [])
  | _ =>
    match c_map c k with
    | Some i =>
        let e1 := stp (c_ent c i) now in
        let ev1 := stp_ev (c_ent c i) now in
        let c1 := set_ent c i e1 in
        match e_s e1 with
        | Expired => get_miss_p P c1 now k res w ev1
        | Ready => (c1, GAddr (e_link e1), ev1)
        | Failed => (c1, GNoLink, ev1)
        | Incomplete => (set_ent c1 i (addWaker_p e1 w), GBlock (e_done e1) false, ev1)
        end
    | None => get_miss_p P c now k res w []
    end
  end.

(* an incomplete entry reached through the map has a (non-nil) waker map *)
Definition wfw (c : cache) : Prop :=
  forall k i, c_map c k = Some i -> e_s (c_ent c i) = Incomplete -> e_wakers (c_ent c i) <> None.

Lemma cs_fields e ns : e_addr (cs e ns) = e_addr e /\ e_link (cs e ns) = e_link e /\
  e_exp (cs e ns) = e_exp e /\ e_done (cs e ns) = e_done e.
Proof. unfold cs. destruct (st_eqb (e_s e) ns); cbn; auto. Qed.
Lemma cs_state e ns : e_s (cs e ns) = ns.
Proof. unfold cs. destruct (st_eqb (e_s e) ns) eqn:E; [apply st_eqb_eq in E; exact E|reflexivity]. Qed.
Lemma stp_fields e now : e_addr (stp e now) = e_addr e /\ e_link (stp e now) = e_link e /\
  e_exp (stp e now) = e_exp e /\ e_done (stp e now) = e_done e.
Proof. unfold stp. destruct (expired_now e now); [apply cs_fields|auto]. Qed.
(* state() either leaves the entry alone (not past its expiration, or already expired) or expires it *)
Lemma stp_cases e now :
  (stp e now = e /\ stp_ev e now = [] /\ (e_s e = Expired \/ now <= e_exp e)) \/
  (e_s e <> Expired /\ e_exp e < now /\ e_s (stp e now) = Expired /\ stp e now = cs e Expired /\
   stp_ev e now = cs_ev e Expired).
Proof.
  unfold stp, stp_ev, expired_now.
  destruct (st_eqb (e_s e) Expired) eqn:E; cbn.
  - left. apply st_eqb_eq in E. auto.
  - apply st_eqb_neq in E. destruct (Z.ltb_spec (e_exp e) now).
    + right. repeat split; auto. apply cs_state.
    + left. auto.
Qed.

Lemma stp_incomplete_wakers e now : e_s (stp e now) = Incomplete -> stp e now = e.
Proof.
  intros H. destruct (stp_cases e now) as [(H1&_)|(_&_&H2&_)]; [exact H1|congruence].
Qed.

Lemma get_ok P c now k res w : wfw c -> get P c now k res w = Some (get_p P c now k res w).
Proof.
  intros W. unfold get, get_p.
  destruct res as [[a|]|].
  - reflexivity.
  - destruct (c_map c k) as [i|] eqn:M; [|apply get_miss_ok].
    rewrite state_ok.
    destruct (e_s (stp (c_ent c i) now)) eqn:E; try reflexivity; try apply get_miss_ok.
    rewrite addWaker_ok; [reflexivity|].
    pose proof (stp_incomplete_wakers _ _ E) as Hs. rewrite Hs in *. apply (W k i M E).
  - destruct (c_map c k) as [i|] eqn:M; [|apply get_miss_ok].
    rewrite state_ok.
    destruct (e_s (stp (c_ent c i) now)) eqn:E; try reflexivity; try apply get_miss_ok.
    rewrite addWaker_ok; [reflexivity|].
    pose proof (stp_incomplete_wakers _ _ E) as Hs. rewrite Hs in *. apply (W k i M E).
Qed.

Definition step_p (P : params) (c : cache) (o : op) : cache * ret * list ev :=
  match o with
  | OAdd now k v => let '(c', e) := add_p P c now k v in (c', RNone, e)
  | OGet now k res w => let '(c', g, e) := get_p P c now k res w in (c', RGet g, e)
  | OCheck now k a => let '(c', b, e) := check_p P c now k a in (c', RCheck b, e)
  | ORemoveWaker _ k w => (removeWaker c k w, RNone, [])
  end.

Lemma step_ok P c o : wfw c -> step P c o = Some (step_p P c o).
Proof.
  intros W. destruct o as [now k v|now k res w|now k a|now k w]; cbn.
  - rewrite add_ok. destruct (add_p P c now k v). reflexivity.
  - rewrite get_ok by exact W. destruct (get_p P c now k res w) as [[? ?] ?]. reflexivity.
  - rewrite check_ok. destruct (check_p P c now k a) as [[? ?] ?]. reflexivity.
  - reflexivity.
Qed.

(* ================================================================== 2. structural invariant *)

(* a property of every (key, entry) pair reachable through the map *)
Definition allm (c : cache) (Q : Z -> entry -> Prop) : Prop :=
  forall k i, c_map c k = Some i -> Q k (c_ent c i).
(* the map sends a key only to a slot that holds that key *)
Definition inj (c : cache) : Prop := allm c (fun k e => e_addr e = k).
(* done channels: all below the counter, no two slots share one *)
Definition chan_ok (c : cache) : Prop :=
  (forall i ch, e_done (c_ent c i) = Some ch -> ch < c_chan c) /\
  (forall i j ch, e_done (c_ent c i) = Some ch -> e_done (c_ent c j) = Some ch -> i = j).
Definition Inv (c : cache) : Prop := inj c /\ wfw c /\ chan_ok c.

Lemma Inv_init : Inv init.
Proof.
  split; [|split; [|split]].
  - intros k i H. discriminate H.
  - intros k i H. discriminate H.
  - intros i ch H. discriminate H.
  - intros i j ch H. discriminate H.
Qed.

Lemma allm_set_ent c Q i0 e' :
  allm c Q -> (forall k, c_map c k = Some i0 -> Q k e') -> allm (set_ent c i0 e') Q.
Proof.
  intros H H' k i M. rewrite set_ent_map in M. rewrite set_ent_ent.
  destruct (Nat.eqb_spec i i0) as [->|N]; [apply H'; exact M|apply H; exact M].
Qed.

Lemma opt_nat_eqb_true a i : opt_nat_eqb a i = true <-> a = Some i.
Proof.
  unfold opt_nat_eqb. destruct a as [j|]; split; intro H; try discriminate.
  - apply Nat.eqb_eq in H. congruence.
  - injection H as ->. apply Nat.eqb_refl.
Qed.

(* the only key that can point at the slot being recycled is the slot's own key, and the guard
   [c.cache[entry.addr] == entry] deletes exactly that one *)
Lemma alloc_map_other P c now k0 v k i : inj c -> k <> k0 ->
  c_map (alloc P c now k0 v) k = Some i -> c_map c k = Some i /\ i <> c_next c.
Proof.
  intros I N M. rewrite alloc_map in M.
  destruct (Z.eqb_spec k k0) as [->|_]; [contradiction|].
  destruct (opt_nat_eqb (c_map c (e_addr (c_ent c (c_next c)))) (c_next c)) eqn:G; cbn in M.
  - destruct (Z.eqb_spec k (e_addr (c_ent c (c_next c)))) as [->|N2]; [discriminate|].
    split; [exact M|]. intros ->. apply N2. symmetry. apply (I k _ M).
  - split; [exact M|]. intros ->. pose proof (I k _ M) as A. cbn in A.
    rewrite A in G. apply opt_nat_eqb_true in M. congruence.
Qed.

Lemma allm_alloc P c now k0 v Q :
  inj c -> allm c Q -> Q k0 (new_entry P c now k0 v) -> allm (alloc P c now k0 v) Q.
Proof.
  intros I H Hn k i M. rewrite alloc_ent.
  destruct (Z.eq_dec k k0) as [->|N].
  - rewrite alloc_map, Z.eqb_refl in M. injection M as <-. rewrite Nat.eqb_refl. exact Hn.
  - destruct (alloc_map_other P c now k0 v k i I N M) as [M' Ni].
    apply Nat.eqb_neq in Ni. rewrite Ni. apply H. exact M'.
Qed.

Lemma chan_set_ent c i0 e' : chan_ok c -> e_done e' = e_done (c_ent c i0) -> chan_ok (set_ent c i0 e').
Proof.
  intros [H1 H2] D. split.
  - intros i ch. rewrite set_ent_ent, set_ent_chan.
    destruct (Nat.eqb_spec i i0) as [->|N]; [rewrite D|]; apply H1.
  - intros i j ch. rewrite !set_ent_ent.
    destruct (Nat.eqb_spec i i0) as [->|Ni]; destruct (Nat.eqb_spec j i0) as [->|Nj];
      rewrite ?D; try apply H2; auto.
Qed.

Lemma chan_alloc P c now k v : chan_ok c -> chan_ok (alloc P c now k v).
Proof.
  intros [H1 H2]. split.
  - intros i ch. rewrite alloc_ent, alloc_chan.
    destruct (Nat.eqb_spec i (c_next c)) as [->|N].
    + cbn. intros H. injection H as <-. lia.
    + intros H. apply H1 in H. lia.
  - intros i j ch. rewrite !alloc_ent.
    destruct (Nat.eqb_spec i (c_next c)) as [->|Ni]; destruct (Nat.eqb_spec j (c_next c)) as [->|Nj]; cbn.
    + auto.
    + intros A B. injection A as <-. apply H1 in B. lia.
    + intros A B. injection B as <-. apply H1 in A. lia.
    + apply H2.
Qed.

(* what every entry rewrite of every operation respects: the key and the channel stay, an entry
   never becomes incomplete again, an incomplete entry keeps its waker map *)
Definition egood (e e' : entry) : Prop :=
  e_addr e' = e_addr e /\ e_done e' = e_done e /\
  (e_s e' = Incomplete -> e_s e = Incomplete /\ (e_wakers e <> None -> e_wakers e' <> None)).
(* what the rewrites of get / checkLinkRequest / removeWaker respect in addition: the expiration
   stays, and an entry is ready afterwards only if it was, with the same link address *)
Definition equiet (e e' : entry) : Prop :=
  e_exp e' = e_exp e /\ (e_s e' = Ready -> e_s e = Ready /\ e_link e' = e_link e).
Definition egq (e e' : entry) : Prop := egood e e' /\ equiet e e'.

(* An operation on key k at time now changes the cache by a sequence of: rewriting the entry in
   k's slot (related by R) and [a] allocations for k at time now. *)
Inductive upd_ok (P : params) (k now : Z) (R : entry -> entry -> Prop) : nat -> cache -> cache -> Prop :=
| U_refl c : upd_ok P k now R 0 c c
| U_set c i e' a c'' :
    c_map c k = Some i -> R (c_ent c i) e' ->
    upd_ok P k now R a (set_ent c i e') c'' -> upd_ok P k now R a c c''
| U_alloc c v a c'' : upd_ok P k now R a (alloc P c now k v) c'' -> upd_ok P k now R (S a) c c''.

Lemma upd_ok_weaken P k now (R R' : entry -> entry -> Prop) a c c' :
  (forall e e', R e e' -> R' e e') -> upd_ok P k now R a c c' -> upd_ok P k now R' a c c'.
Proof.
  intros HR. induction 1 as [c|c i e' a c3 M H _ IH|c v a c3 _ IH].
  - apply U_refl.
  - eapply U_set; eauto.
  - apply (U_alloc P k now R' c v). exact IH.
Qed.

Lemma inj_set_ent c k i e' : inj c -> c_map c k = Some i -> e_addr e' = e_addr (c_ent c i) -> inj (set_ent c i e').
Proof.
  intros I M A. apply allm_set_ent; [exact I|]. intros k' M'. rewrite A. apply (I k' i M').
Qed.
Lemma inj_alloc P c now k v : inj c -> inj (alloc P c now k v).
Proof. intros I. apply allm_alloc; auto. Qed.

Lemma upd_ok_inv P k now a c c' : upd_ok P k now egood a c c' -> Inv c -> Inv c'.
Proof.
  induction 1 as [c|c i e' a c'' M (A & D & S) _ IH|c v a c'' _ IH]; intros (I & W & C).
  - exact (conj I (conj W C)).
  - apply IH. split; [|split].
    + eapply inj_set_ent; eauto.
    + apply (allm_set_ent c (fun _ e => e_s e = Incomplete -> e_wakers e <> None)); [exact W|].
      intros k' M' E. destruct (S E) as [E0 Hw]. apply Hw. apply (W k' i M' E0).
    + apply chan_set_ent; [exact C|exact D].
  - apply IH. split; [|split].
    + apply inj_alloc; exact I.
    + apply (allm_alloc P c now k v (fun _ e => e_s e = Incomplete -> e_wakers e <> None)); auto.
      cbn. intros _. congruence.
    + apply chan_alloc; exact C.
Qed.

Lemma egood_stp e now : egood e (stp e now).
Proof.
  destruct (stp_fields e now) as (A & _ & _ & D). repeat split; auto.
  - rewrite (stp_incomplete_wakers _ _ H) in H. exact H.
  - rewrite (stp_incomplete_wakers _ _ H). auto.
Qed.
Lemma egood_relink e v : egood e (relink e v).
Proof. repeat split; auto. Qed.
Lemma egood_cs e ns : ns <> Incomplete -> egood e (cs e ns).
Proof.
  intros N. destruct (cs_fields e ns) as (A & _ & _ & D). repeat split; auto;
    rewrite cs_state in H; contradiction.
Qed.
Lemma egood_addWaker e w : egood e (addWaker_p e w).
Proof. repeat split; auto. cbn. congruence. Qed.
Lemma egood_removeWaker e w : egood e (removeWakerE e w).
Proof.
  repeat split; auto. cbn. destruct (e_wakers e); congruence.
Qed.

Lemma stp_ready e now : e_s (stp e now) = Ready -> stp e now = e /\ now <= e_exp e.
Proof.
  intros H. destruct (stp_cases e now) as [(H1&_&[H2|H2])|(_&_&H2&_)].
  - rewrite H1 in H. congruence.
  - auto.
  - congruence.
Qed.

Lemma egq_stp e now : egq e (stp e now).
Proof.
  split; [apply egood_stp|]. destruct (stp_fields e now) as (_ & _ & X & _). split; [exact X|].
  intros H. destruct (stp_ready _ _ H) as [H1 _]. rewrite H1 in *. auto.
Qed.
Lemma egq_addWaker e w : egq e (addWaker_p e w).
Proof. split; [apply egood_addWaker|]. split; auto. Qed.
Lemma egq_removeWaker e w : egq e (removeWakerE e w).
Proof. split; [apply egood_removeWaker|]. split; auto. Qed.
Lemma egq_cs_failed e : egq e (cs e Failed).
Proof.
  split; [apply egood_cs; discriminate|]. destruct (cs_fields e Failed) as (_ & _ & X & _).
  split; [exact X|]. rewrite cs_state. discriminate.
Qed.

Lemma U_set1 P k now (R : entry -> entry -> Prop) c i e' : c_map c k = Some i -> R (c_ent c i) e' -> upd_ok P k now R 0 c (set_ent c i e').
Proof.
  intros M H. eapply U_set; eauto. apply U_refl.
Qed.
Lemma U_alloc1 P k now (R : entry -> entry -> Prop) c v : upd_ok P k now R 1 c (alloc P c now k v).
Proof. apply (U_alloc P k now R c v). apply U_refl. Qed.
Lemma upd_ok_trans P k now (R : entry -> entry -> Prop) a b c c' c'' :
  upd_ok P k now R a c c' -> upd_ok P k now R b c' c'' -> upd_ok P k now R (a + b) c c''.
Proof.
  induction 1 as [c|c i e' a c3 M H _ IH|c v a c3 _ IH]; intros H2; cbn.
  - exact H2.
  - eapply U_set; eauto.
  - apply (U_alloc P k now R c v). apply IH. exact H2.
Qed.

Lemma alloc_map_self P c now k v : c_map (alloc P c now k v) k = Some (c_next c).
Proof. rewrite alloc_map, Z.eqb_refl. reflexivity. Qed.

Lemma U_ready_after_alloc P k now c v :
  upd_ok P k now egood 1 c (ready_at (alloc P c now k v) (c_next c)).
Proof.
  change 1%nat with (1 + 0)%nat. eapply upd_ok_trans; [apply U_alloc1|].
  apply U_set1; [apply alloc_map_self|]. apply egood_cs. discriminate.
Qed.

(* every operation is such an update with at most one allocation *)
Lemma add_upd P c now k v : exists a, (a <= 1)%nat /\ upd_ok P k now egood a c (fst (add_p P c now k v)).
Proof.
  unfold add_p. destruct (c_map c k) as [i|] eqn:M.
  - pose proof (U_set1 P k now egood c i _ M (egood_stp (c_ent c i) now)) as U1.
    set (e1 := stp (c_ent c i) now) in *. set (c1 := set_ent c i e1) in *.
    assert (M1 : c_map c1 k = Some i) by exact M.
    assert (E1 : c_ent c1 i = e1) by apply set_ent_same.
    destruct (negb (st_eqb (e_s e1) Expired) && (e_link e1 =? v)); cbn [fst].
    { exists 0%nat. split; [lia|exact U1]. }
    destruct (st_eqb (e_s e1) Incomplete); cbn [fst].
    + exists 0%nat. split; [lia|].
      change 0%nat with (0 + (0 + 0))%nat. eapply upd_ok_trans; [exact U1|].
      eapply upd_ok_trans.
      * apply U_set1; [exact M1|]. rewrite E1. apply egood_relink.
      * apply U_set1; [exact M1|]. apply egood_cs. discriminate.
    + exists 1%nat. split; [lia|].
      change 1%nat with (0 + 1)%nat. eapply upd_ok_trans; [exact U1|].
      apply U_ready_after_alloc.
  - cbn [fst]. exists 1%nat. split; [lia|]. apply U_ready_after_alloc.
Qed.

Lemma get_miss_upd P c now k res w evs :
  exists a, (a <= 1)%nat /\ upd_ok P k now egq a c (fst (fst (get_miss_p P c now k res w evs))).
Proof.
  unfold get_miss_p. destruct res; cbn [fst].
  - exists 1%nat. split; [lia|]. change 1%nat with (1 + 0)%nat.
    eapply upd_ok_trans; [apply U_alloc1|].
    apply U_set1; [apply alloc_map_self|]. rewrite alloc_new_slot. apply egq_addWaker.
  - exists 0%nat. split; [lia|apply U_refl].
Qed.

Lemma get_upd P c now k res w : exists a, (a <= 1)%nat /\ upd_ok P k now egq a c (fst (fst (get_p P c now k res w))).
Proof.
  assert (G : forall res', exists a, (a <= 1)%nat /\ upd_ok P k now egq a c (fst (fst (
    match c_map c k with
    | Some i =>
        let e1 := stp (c_ent c i) now in
        let ev1 := stp_ev (c_ent c i) now in
        let c1 := set_ent c i e1 in
        match e_s e1 with
        | Expired => get_miss_p P c1 now k res' w ev1
        | Ready => (c1, GAddr (e_link e1), ev1)
        | Failed => (c1, GNoLink, ev1)
        | Incomplete => (set_ent c1 i (addWaker_p e1 w), GBlock (e_done e1) false, ev1)
        end
    | None => get_miss_p P c now k res' w []
    end)))).
  { intros res'. destruct (c_map c k) as [i|] eqn:M; [|apply get_miss_upd].
    pose proof (U_set1 P k now egq c i _ M (egq_stp (c_ent c i) now)) as U1.
    cbv zeta. set (e1 := stp (c_ent c i) now) in *. set (c1 := set_ent c i e1) in *.
    assert (M1 : c_map c1 k = Some i) by exact M.
    assert (E1 : c_ent c1 i = e1) by apply set_ent_same.
    destruct (e_s e1); cbn [fst].
    - exists 0%nat. split; [lia|]. change 0%nat with (0 + 0)%nat. eapply upd_ok_trans; [exact U1|].
      apply U_set1; [exact M1|]. rewrite E1. apply egq_addWaker.
    - exists 0%nat. split; [lia|exact U1].
    - exists 0%nat. split; [lia|exact U1].
    - destruct (get_miss_upd P c1 now k res' w (stp_ev (c_ent c i) now)) as (a & La & Ua).
      exists a. split; [exact La|]. change a with (0 + a)%nat. eapply upd_ok_trans; [exact U1|exact Ua]. }
  unfold get_p. destruct res as [[a|]|]; [|apply G|apply G].
  exists 0%nat. split; [lia|apply U_refl].
Qed.

Lemma check_upd P c now k a : upd_ok P k now egq 0 c (fst (fst (check_p P c now k a))).
Proof.
  unfold check_p. destruct (c_map c k) as [i|] eqn:M; [|apply U_refl].
  pose proof (U_set1 P k now egq c i _ M (egq_stp (c_ent c i) now)) as U1.
  cbv zeta. set (e1 := stp (c_ent c i) now) in *. set (c1 := set_ent c i e1) in *.
  assert (M1 : c_map c1 k = Some i) by exact M.
  destruct (e_s e1); cbn [fst]; try exact U1.
  destruct (p_attempts P <=? a + 1); cbn [fst]; [|exact U1].
  change 0%nat with (0 + 0)%nat. eapply upd_ok_trans; [exact U1|].
  apply U_set1; [exact M1|]. unfold c1. rewrite set_ent_same. apply egq_cs_failed.
Qed.

Lemma removeWaker_upd P c now k w : upd_ok P k now egq 0 c (removeWaker c k w).
Proof.
  unfold removeWaker. destruct (c_map c k) as [i|] eqn:M; [|apply U_refl].
  apply U_set1; [exact M|apply egq_removeWaker].
Qed.

Definition key_of (o : op) : Z :=
  match o with OAdd _ k _ | OGet _ k _ _ | OCheck _ k _ | ORemoveWaker _ k _ => k end.

Lemma egq_egood e e' : egq e e' -> egood e e'.
Proof. intros [H _]. exact H. Qed.

Lemma step_upd P c o : exists a, (a <= 1)%nat /\ upd_ok P (key_of o) (time_of o) egood a c (fst (fst (step_p P c o))).
Proof.
  destruct o as [now k v|now k res w|now k a|now k w]; cbn [step_p key_of time_of].
  - destruct (add_upd P c now k v) as (a & L & U). exists a. split; [exact L|].
    destruct (add_p P c now k v). exact U.
  - destruct (get_upd P c now k res w) as (a & L & U). exists a. split; [exact L|].
    apply (upd_ok_weaken _ _ _ _ _ _ _ _ egq_egood) in U.
    destruct (get_p P c now k res w) as [[? ?] ?]. exact U.
  - exists 0%nat. split; [lia|]. pose proof (check_upd P c now k a) as U.
    apply (upd_ok_weaken _ _ _ _ _ _ _ _ egq_egood) in U.
    destruct (check_p P c now k a) as [[? ?] ?]. exact U.
  - exists 0%nat. split; [lia|]. eapply upd_ok_weaken; [apply egq_egood|apply removeWaker_upd].
Qed.

Lemma step_inv P c o : Inv c -> Inv (fst (fst (step_p P c o))).
Proof.
  intros I. destruct (step_upd P c o) as (a & _ & U). eapply upd_ok_inv; eauto.
Qed.

(* C12: no history of operations reaches a panic: the invalid-transition branches of changeState
   and the write to a nil waker map are unreachable; every history runs to completion *)
Lemma exec_total P : forall ops c, Inv c -> exists c' outs, exec P c ops = Some (c', outs) /\ Inv c'.
Proof.
  induction ops as [|o ops IH]; intros c I.
  - exists c, []. split; [reflexivity|exact I].
  - cbn [exec]. rewrite step_ok by apply I.
    pose proof (step_inv P c o I) as I'.
    destruct (step_p P c o) as [[c1 r] e]. cbn [fst] in I'.
    destruct (IH c1 I') as (c2 & outs & E & I2). rewrite E.
    exists c2, ((r, e) :: outs). split; [reflexivity|exact I2].
Qed.

Theorem cache_never_panics P ops : exists c outs, exec P init ops = Some (c, outs).
Proof.
  destruct (exec_total P ops init Inv_init) as (c & outs & E & _). eauto.
Qed.

(* ================================================================== 3. histories: get is sound *)

(* specification vocabulary, on the history alone: the value v for key k is backed by an add of
   (k, v) at some time t with exp <= t + age, after which every add for k carried the same value *)
Definition fresh (age : Z) (h : list op) (k v exp : Z) : Prop :=
  exists h1 t h2, h = h1 ++ OAdd t k v :: h2 /\
    (forall t' v', In (OAdd t' k v') h2 -> v' = v) /\ exp <= t + age.

(* times of a history are non-decreasing, starting at or after t *)
Fixpoint mono (t : Z) (l : list op) : Prop :=
  match l with [] => True | o :: r => t <= time_of o /\ mono (time_of o) r end.

Lemma fresh_snoc_other age h k v exp o :
  fresh age h k v exp -> (forall t v', o <> OAdd t k v') -> fresh age (h ++ [o]) k v exp.
Proof.
  intros (h1 & t & h2 & -> & A & B) N. exists h1, t, (h2 ++ [o]). split; [|split].
  - rewrite <- app_assoc. reflexivity.
  - intros t' v' I. apply in_app_or in I. destruct I as [I|[I|[]]]; [eauto|]. exfalso. eapply N; eauto.
  - exact B.
Qed.
Lemma fresh_snoc_same age h k v exp t0 :
  fresh age h k v exp -> fresh age (h ++ [OAdd t0 k v]) k v exp.
Proof.
  intros (h1 & t & h2 & -> & A & B). exists h1, t, (h2 ++ [OAdd t0 k v]). split; [|split].
  - rewrite <- app_assoc. reflexivity.
  - intros t' v' I. apply in_app_or in I. destruct I as [I|[I|[]]]; [eauto|]. congruence.
  - exact B.
Qed.
Lemma fresh_new age h k v exp t0 : exp <= t0 + age -> fresh age (h ++ [OAdd t0 k v]) k v exp.
Proof.
  intros B. exists h, t0, []. split; [reflexivity|]. split; [intros ? ? []|exact B].
Qed.

(* the history invariant: a ready entry reached through the map for k carries a value backed by
   the history, and no entry outlives (time of the last operation) + ageLimit *)
Definition QJ (P : params) (h : list op) (t : Z) (k : Z) (e : entry) : Prop :=
  (e_s e = Ready -> fresh (p_age P) h k (e_link e) (e_exp e)) /\ e_exp e <= t + p_age P.
Definition J (P : params) (h : list op) (t : Z) (c : cache) : Prop := allm c (QJ P h t).

Lemma frame_back P k now (R : entry -> entry -> Prop) a c c' :
  (forall e e', R e e' -> e_addr e' = e_addr e) ->
  upd_ok P k now R a c c' -> inj c ->
  forall k2 i, k2 <> k -> c_map c' k2 = Some i -> c_map c k2 = Some i /\ c_ent c' i = c_ent c i.
Proof.
  intros HR. induction 1 as [c|c i0 e' a c3 M H _ IH|c v a c3 _ IH]; intros I k2 i N M2.
  - auto.
  - destruct (IH (inj_set_ent c k i0 e' I M (HR _ _ H)) k2 i N M2) as [M3 E3].
    rewrite set_ent_map in M3. split; [exact M3|]. rewrite E3, set_ent_ent.
    destruct (Nat.eqb_spec i i0) as [->|_]; [|reflexivity].
    exfalso. apply N. rewrite <- (I k2 i0 M3). apply (I k i0 M).
  - destruct (IH (inj_alloc P c now k v I) k2 i N M2) as [M3 E3].
    destruct (alloc_map_other P c now k v k2 i I N M3) as [M4 Ni].
    split; [exact M4|]. rewrite E3, alloc_ent. apply Nat.eqb_neq in Ni. rewrite Ni. reflexivity.
Qed.

(* operations other than add: J is kept (for the same history, extended below) *)
Lemma J_later P h t t' c : t <= t' -> J P h t c -> J P h t' c.
Proof.
  intros L HJ k i M. destruct (HJ k i M) as [A B]. split; [exact A|lia].
Qed.

Lemma quiet_J0 P k now a c c' h :
  upd_ok P k now egq a c c' -> inj c -> J P h now c -> J P h now c'.
Proof.
  induction 1 as [c|c i0 e' a c3 M H _ IH|c v a c3 _ IH]; intros I HJ.
  - exact HJ.
  - destruct H as [(A & D & S) (X & Rd)].
    apply IH; [eapply inj_set_ent; eauto|].
    apply allm_set_ent; [exact HJ|]. intros k2 M2. destruct (HJ k2 i0 M2) as [F B].
    split.
    + intros E. destruct (Rd E) as [E0 Lk]. rewrite Lk, X. apply F. exact E0.
    + rewrite X. exact B.
  - apply IH; [apply inj_alloc; exact I|].
    apply allm_alloc; [exact I|exact HJ|].
    split; [cbn; discriminate|cbn; lia].
Qed.

Lemma quiet_J P k now a c c' h t :
  upd_ok P k now egq a c c' -> inj c -> t <= now -> J P h t c -> J P h now c'.
Proof.
  intros U I L HJ. eapply quiet_J0; eauto. eapply J_later; eauto.
Qed.

Lemma J_snoc_other P h t c o : (forall t' k' v', o <> OAdd t' k' v') -> J P h t c -> J P (h ++ [o]) t c.
Proof.
  intros N HJ k i M. destruct (HJ k i M) as [A B]. split; [|exact B].
  intros E. apply fresh_snoc_other; [apply A; exact E|]. intros t' v'. apply N.
Qed.

(* the entry k's slot holds after add(k, v) at time now *)
Lemma add_view P c now k v j : c_map (fst (add_p P c now k v)) k = Some j ->
  let e' := c_ent (fst (add_p P c now k v)) j in
  (exists i, c_map c k = Some i /\ e_link (c_ent c i) = v /\ e' = stp (c_ent c i) now) \/
  (e_s e' = Ready /\ e_link e' = v /\
   ((exists i, c_map c k = Some i /\ e_exp e' = e_exp (c_ent c i)) \/ e_exp e' = now + p_age P)).
Proof.
  unfold add_p. destruct (c_map c k) as [i|] eqn:M.
  - destruct (stp_fields (c_ent c i) now) as (FA & FL & FX & FD).
    set (e1 := stp (c_ent c i) now) in *.
    destruct (negb (st_eqb (e_s e1) Expired) && (e_link e1 =? v)) eqn:B1; cbn [fst].
    { rewrite set_ent_map, M. intros H. injection H as <-. rewrite set_ent_same. left.
      exists i. split; [reflexivity|]. split; [|reflexivity].
      apply andb_true_iff in B1. destruct B1 as [_ B1]. apply Z.eqb_eq in B1. congruence. }
    destruct (st_eqb (e_s e1) Incomplete) eqn:B2; cbn [fst].
    + unfold ready_at. rewrite !set_ent_map, M. intros H. injection H as <-.
      rewrite !set_ent_same. right. rewrite cs_state.
      destruct (cs_fields (relink e1 v) Ready) as (_ & CL & CX & _). rewrite CL, CX. cbn.
      split; [reflexivity|]. split; [reflexivity|]. left. exists i. split; [reflexivity|exact FX].
    + unfold ready_at. rewrite set_ent_map, alloc_map_self. intros H. injection H as <-.
      rewrite set_ent_same, alloc_new_slot. right. rewrite cs_state.
      destruct (cs_fields (new_entry P (set_ent c i e1) now k v) Ready) as (_ & CL & CX & _).
      rewrite CL, CX. cbn. auto.
  - cbn [fst]. unfold ready_at. rewrite set_ent_map, alloc_map_self. intros H. injection H as <-.
    rewrite set_ent_same, alloc_new_slot. right. rewrite cs_state.
    destruct (cs_fields (new_entry P c now k v) Ready) as (_ & CL & CX & _).
    rewrite CL, CX. cbn. auto.
Qed.

Lemma egood_addr e e' : egood e e' -> e_addr e' = e_addr e.
Proof. intros (A & _). exact A. Qed.
Lemma egq_addr e e' : egq e e' -> e_addr e' = e_addr e.
Proof. intros [(A & _) _]. exact A. Qed.

Lemma add_J P c now k v h t :
  inj c -> t <= now -> J P h t c -> J P (h ++ [OAdd now k v]) now (fst (add_p P c now k v)).
Proof.
  intros I L HJ k2 j M2.
  destruct (Z.eq_dec k2 k) as [->|N].
  - destruct (add_view P c now k v j M2) as [(i & M & Lk & E)|(Rd & Lk & X)].
    + rewrite E. destruct (HJ k i M) as [F B]. destruct (stp_fields (c_ent c i) now) as (_ & FL & FX & _).
      split.
      * intros R. destruct (stp_ready _ _ R) as [S _]. rewrite S in *. rewrite Lk in *.
        apply fresh_snoc_same. apply F. exact R.
      * rewrite FX. lia.
    + unfold QJ. rewrite Lk. split.
      * intros _. apply fresh_new. destruct X as [(i & M & X)|X]; rewrite X; [|lia].
        destruct (HJ k i M) as [_ B]. lia.
      * destruct X as [(i & M & X)|X]; rewrite X; [|lia]. destruct (HJ k i M) as [_ B]. lia.
  - destruct (add_upd P c now k v) as (a & _ & U).
    destruct (frame_back P k now egood a c _ egood_addr U I k2 j N M2) as [M3 E3].
    rewrite E3. destruct (HJ k2 j M3) as [F B]. split; [|lia].
    intros R. apply fresh_snoc_other; [apply F; exact R|]. intros t' v' H. congruence.
Qed.

Lemma step_J P c o h t : Inv c -> t <= time_of o -> J P h t c ->
  J P (h ++ [o]) (time_of o) (fst (fst (step_p P c o))).
Proof.
  intros (I & _) L HJ.
  destruct o as [now k v|now k res w|now k a|now k w]; cbn [step_p time_of] in *.
  - pose proof (add_J P c now k v h t I L HJ) as H. destruct (add_p P c now k v). exact H.
  - destruct (get_upd P c now k res w) as (a & _ & U).
    apply J_snoc_other; [discriminate|].
    pose proof (quiet_J P k now a c _ h t U I L HJ) as H.
    destruct (get_p P c now k res w) as [[? ?] ?]. exact H.
  - apply J_snoc_other; [discriminate|].
    pose proof (quiet_J P k now 0 c _ h t (check_upd P c now k a) I L HJ) as H.
    destruct (check_p P c now k a) as [[? ?] ?]. exact H.
  - apply J_snoc_other; [discriminate|].
    apply (quiet_J P k now 0 c _ h t (removeWaker_upd P c now k w) I L HJ).
Qed.

Lemma exec_J P : forall ops h t c c' outs, Inv c -> J P h t c -> mono t ops ->
  exec P c ops = Some (c', outs) -> Inv c' /\ exists t', J P (h ++ ops) t' c' /\ (forall o, mono t' [o] -> mono t (ops ++ [o]) ).
Proof.
  induction ops as [|o ops IH]; intros h t c c' outs I HJ Mo E.
  - cbn in E. injection E as <- <-. split; [exact I|]. exists t. rewrite app_nil_r. split; [exact HJ|].
    intros o Ho. exact Ho.
  - cbn [exec] in E. rewrite step_ok in E by apply I.
    pose proof (step_inv P c o I) as I1. destruct Mo as [L Mo].
    pose proof (step_J P c o h t I L HJ) as J1.
    destruct (step_p P c o) as [[c1 r] e]. cbn [fst] in *.
    destruct (exec P c1 ops) as [[c2 outs2]|] eqn:E2; [|discriminate]. injection E as <- <-.
    destruct (IH (h ++ [o]) (time_of o) c1 c2 outs2 I1 J1 Mo E2) as (I2 & t' & J2 & Hm).
    split; [exact I2|]. exists t'. rewrite <- app_assoc in J2. split; [exact J2|].
    intros o' Ho'. cbn. split; [exact L|]. apply Hm. exact Ho'.
Qed.

Lemma J_init P t : J P [] t init.
Proof. intros k i M. discriminate M. Qed.

Definition no_static (res : option (option Z)) : Prop := forall a, res <> Some (Some a).

Lemma get_p_addr P c now k res w c' v evs : no_static res ->
  get_p P c now k res w = (c', GAddr v, evs) ->
  exists i, c_map c k = Some i /\ e_s (stp (c_ent c i) now) = Ready /\ v = e_link (stp (c_ent c i) now).
Proof.
  intros NS. unfold get_p, get_miss_p.
  destruct res as [[a|]|]; [exfalso; eapply NS; reflexivity| |].
  - destruct (c_map c k) as [i|] eqn:M; [|discriminate].
    destruct (e_s (stp (c_ent c i) now)) eqn:S; intros H; try discriminate H.
    injection H as _ H _. exists i. auto.
  - destruct (c_map c k) as [i|] eqn:M; [|discriminate].
    destruct (e_s (stp (c_ent c i) now)) eqn:S; intros H; try discriminate H.
    injection H as _ H _. exists i. auto.
Qed.

(* C12: over every history with non-decreasing times, a get for k that is not answered by the
   resolver's static table returns a link address v only if v was added for k, no later add for k
   carried another value, and that add is not older than ageLimit: never another key's value,
   never after expiry *)
Theorem cache_get_sound P t0 h c outs now k res w c' v evs :
  mono t0 (h ++ [OGet now k res w]) ->
  exec P init h = Some (c, outs) ->
  get P c now k res w = Some (c', GAddr v, evs) ->
  no_static res ->
  exists h1 t h2, h = h1 ++ OAdd t k v :: h2 /\
    (forall t' v', In (OAdd t' k v') h2 -> v' = v) /\ now <= t + p_age P.
Proof.
  intros Mo E G NS.
  assert (Mh : mono t0 h).
  { clear - Mo. revert t0 Mo. induction h as [|o h IH]; intros t0 Mo; [exact I|].
    cbn in *. destruct Mo as [L Mo]. split; [exact L|apply IH; exact Mo]. }
  destruct (exec_J P h [] t0 init c outs Inv_init (J_init P t0) Mh E) as (I & t' & HJ & Hm).
  cbn [app] in HJ.
  rewrite get_ok in G by apply I. injection G as G.
  unfold get_p in G.
  destruct (get_p_addr P c now k res w c' v evs NS G) as (i & M & R & ->).
  destruct (stp_ready _ _ R) as [S Lx]. rewrite S in *.
  destruct (HJ k i M) as [F _]. destruct (F R) as (h1 & t & h2 & Eh & A & B).
  exists h1, t, h2. split; [exact Eh|]. split; [exact A|lia].
Qed.

(* ================================================================== 4. the resolver run *)

(* where an event comes from: the entry whose done channel is d *)
Definition ev_from (d : option Z) (x : ev) : Prop :=
  match x with Notify g _ => g = d | Close ch => d = Some ch end.
Definition mentions (ch : Z) (x : ev) : Prop := ev_from (Some ch) x.

Lemma notifs_from e x : In x (notifs e) -> ev_from (e_done e) x.
Proof.
  unfold notifs. intros H. apply in_app_or in H. destruct H as [H|H].
  - apply in_map_iff in H. destruct H as (w & <- & _). reflexivity.
  - destruct (e_done e) as [ch|]; [|contradiction]. destruct H as [<-|[]]. reflexivity.
Qed.
Lemma cs_ev_from e ns x : In x (cs_ev e ns) -> ev_from (e_done e) x.
Proof.
  unfold cs_ev. destruct (st_eqb (e_s e) ns); [intros []|].
  destruct (st_eqb (e_s e) Incomplete); [apply notifs_from|intros []].
Qed.
Lemma stp_ev_from e now x : In x (stp_ev e now) -> ev_from (e_done e) x.
Proof.
  unfold stp_ev. destruct (expired_now e now); [apply cs_ev_from|intros []].
Qed.

(* the events of an operation on key k come from k's slot, from the slot being recycled, or from
   the channel created by this operation *)
Definition ev_src (c : cache) (k : Z) (x : ev) : Prop :=
  (exists j, c_map c k = Some j /\ ev_from (e_done (c_ent c j)) x) \/
  ev_from (e_done (c_ent c (c_next c))) x \/ ev_from (Some (c_chan c)) x.

Lemma alloc_ev_src c k i e1 x : c_map c k = Some i -> e_done e1 = e_done (c_ent c i) ->
  In x (alloc_ev (set_ent c i e1)) -> ev_src c k x.
Proof.
  intros M D H. unfold alloc_ev in H. apply cs_ev_from in H.
  rewrite set_ent_next, set_ent_ent in H.
  destruct (Nat.eqb (c_next c) i).
  - left. exists i. rewrite <- D. auto.
  - right. left. exact H.
Qed.

Lemma add_events P c now k v x : In x (snd (add_p P c now k v)) -> ev_src c k x.
Proof.
  unfold add_p. destruct (c_map c k) as [i|] eqn:M.
  - destruct (stp_fields (c_ent c i) now) as (_ & _ & _ & FD).
    assert (S1 : forall y, In y (stp_ev (c_ent c i) now) -> ev_src c k y).
    { intros y Hy. left. exists i. split; [exact M|]. apply stp_ev_from in Hy. exact Hy. }
    destruct (negb (st_eqb (e_s (stp (c_ent c i) now)) Expired) && (e_link (stp (c_ent c i) now) =? v)); cbn [snd].
    { apply S1. }
    destruct (st_eqb (e_s (stp (c_ent c i) now)) Incomplete); cbn [snd]; intros H.
    + apply in_app_or in H. destruct H as [H|H]; [apply S1; exact H|].
      apply cs_ev_from in H. left. exists i. split; [exact M|]. cbn in H. rewrite FD in H. exact H.
    + apply in_app_or in H. destruct H as [H|H].
      * apply in_app_or in H. destruct H as [H|H]; [apply S1; exact H|].
        eapply alloc_ev_src; eauto.
      * apply cs_ev_from in H. right. right. exact H.
  - cbn [snd]. intros H. apply in_app_or in H. destruct H as [H|H].
    + right. left. unfold alloc_ev in H. apply cs_ev_from in H. exact H.
    + apply cs_ev_from in H. right. right. exact H.
Qed.

Lemma get_miss_events P c c0 now k i e1 res w evs x :
  c_map c0 k = Some i -> e_done e1 = e_done (c_ent c0 i) -> c = set_ent c0 i e1 ->
  (forall y, In y evs -> ev_src c0 k y) ->
  In x (snd (get_miss_p P c now k res w evs)) -> ev_src c0 k x.
Proof.
  intros M D -> Hevs. unfold get_miss_p. destruct res; cbn [snd]; [|apply Hevs].
  intros H. apply in_app_or in H. destruct H as [H|H]; [apply Hevs; exact H|].
  eapply alloc_ev_src; eauto.
Qed.

Lemma get_events P c now k res w x : In x (snd (get_p P c now k res w)) -> ev_src c k x.
Proof.
  assert (G : forall res', In x (snd (
    match c_map c k with
    | Some i =>
        let e1 := stp (c_ent c i) now in
        let ev1 := stp_ev (c_ent c i) now in
        let c1 := set_ent c i e1 in
        match e_s e1 with
        | Expired => get_miss_p P c1 now k res' w ev1
        | Ready => (c1, GAddr (e_link e1), ev1)
        | Failed => (c1, GNoLink, ev1)
        | Incomplete => (set_ent c1 i (addWaker_p e1 w), GBlock (e_done e1) false, ev1)
        end
    | None => get_miss_p P c now k res' w []
    end)) -> ev_src c k x).
  { intros res'. destruct (c_map c k) as [i|] eqn:M.
    - destruct (stp_fields (c_ent c i) now) as (_ & _ & _ & FD).
      assert (S1 : forall y, In y (stp_ev (c_ent c i) now) -> ev_src c k y).
      { intros y Hy. left. exists i. split; [exact M|]. apply stp_ev_from in Hy. exact Hy. }
      cbv zeta. destruct (e_s (stp (c_ent c i) now)); cbn [snd]; try apply S1.
      eapply get_miss_events; eauto.
    - unfold get_miss_p. destruct res'; cbn [snd]; [|intros []].
      intros H. cbn [app] in H. right. left. unfold alloc_ev in H. apply cs_ev_from in H. exact H. }
  unfold get_p. destruct res as [[a|]|]; [intros []|apply G|apply G].
Qed.

Lemma check_events P c now k a x : In x (snd (check_p P c now k a)) -> ev_src c k x.
Proof.
  unfold check_p. destruct (c_map c k) as [i|] eqn:M; [|intros []].
  destruct (stp_fields (c_ent c i) now) as (_ & _ & _ & FD).
  assert (S1 : forall y, In y (stp_ev (c_ent c i) now) -> ev_src c k y).
  { intros y Hy. left. exists i. split; [exact M|]. apply stp_ev_from in Hy. exact Hy. }
  cbv zeta. destruct (e_s (stp (c_ent c i) now)); cbn [snd]; try apply S1.
  destruct (p_attempts P <=? a + 1); cbn [snd]; [|apply S1].
  intros H. apply in_app_or in H. destruct H as [H|H]; [apply S1; exact H|].
  apply cs_ev_from in H. left. exists i. split; [exact M|]. rewrite FD in H. exact H.
Qed.

Lemma step_events P c o x : In x (snd (step_p P c o)) -> ev_src c (key_of o) x.
Proof.
  destruct o as [now k v|now k res w|now k a|now k w]; cbn [step_p key_of].
  - pose proof (add_events P c now k v x) as H. destruct (add_p P c now k v). exact H.
  - pose proof (get_events P c now k res w x) as H. destruct (get_p P c now k res w) as [[? ?] ?]. exact H.
  - pose proof (check_events P c now k a x) as H. destruct (check_p P c now k a) as [[? ?] ?]. exact H.
  - intros [].
Qed.

(* forward frame: an operation on another key leaves k's slot alone unless it recycles it *)
Lemma frame_fwd0 P k' now (R : entry -> entry -> Prop) c c' :
  (forall e e', R e e' -> e_addr e' = e_addr e) ->
  upd_ok P k' now R 0 c c' -> inj c ->
  forall k i, k <> k' -> c_map c k = Some i ->
    c_map c' k = Some i /\ c_ent c' i = c_ent c i /\ c_next c' = c_next c /\ inj c'.
Proof.
  intros HR U. remember 0%nat as a eqn:Ea. revert Ea.
  induction U as [c|c i0 e' a c3 M H _ IH|c v a c3 _ IH]; intros Ea I k i N Mk.
  - auto.
  - destruct (IH Ea (inj_set_ent c k' i0 e' I M (HR _ _ H)) k i N Mk) as (M3 & E3 & N3 & I3).
    split; [exact M3|]. split; [|split; [exact N3|exact I3]].
    rewrite E3, set_ent_ent. destruct (Nat.eqb_spec i i0) as [->|_]; [|reflexivity].
    exfalso. apply N. rewrite <- (I k i0 Mk). apply (I k' i0 M).
  - discriminate.
Qed.

Lemma frame_fwd1 P k' now (R : entry -> entry -> Prop) a c c' :
  (forall e e', R e e' -> e_addr e' = e_addr e) ->
  upd_ok P k' now R a c c' -> (a <= 1)%nat -> inj c ->
  forall k i, k <> k' -> c_map c k = Some i -> c_next c <> i ->
    c_map c' k = Some i /\ c_ent c' i = c_ent c i /\
    (c_next c' = c_next c \/ c_next c' = Nat.modulo (c_next c + 1) (p_N P)).
Proof.
  intros HR. induction 1 as [c|c i0 e' a c3 M H _ IH|c v a c3 U _]; intros La I k i N Mk Nx.
  - auto.
  - destruct (IH La (inj_set_ent c k' i0 e' I M (HR _ _ H)) k i N Mk Nx) as (M3 & E3 & N3).
    split; [exact M3|]. split; [|exact N3].
    rewrite E3, set_ent_ent. destruct (Nat.eqb_spec i i0) as [->|_]; [|reflexivity].
    exfalso. apply N. rewrite <- (I k i0 Mk). apply (I k' i0 M).
  - assert (a = 0)%nat by lia. subst a.
    assert (Mk' : c_map (alloc P c now k' v) k = Some i).
    { rewrite alloc_map. destruct (Z.eqb_spec k k') as [->|_]; [contradiction|].
      destruct (opt_nat_eqb (c_map c (e_addr (c_ent c (c_next c)))) (c_next c)) eqn:G; cbn; [|exact Mk].
      destruct (Z.eqb_spec k (e_addr (c_ent c (c_next c)))) as [->|_]; [|exact Mk].
      apply opt_nat_eqb_true in G. congruence. }
    destruct (frame_fwd0 P k' now R _ _ HR U (inj_alloc P c now k' v I) k i N Mk') as (M3 & E3 & N3 & _).
    split; [exact M3|]. split.
    + rewrite E3, alloc_ent. apply Nat.eqb_neq in Nx. rewrite Nat.eqb_sym, Nx. reflexivity.
    + right. rewrite N3. apply alloc_next.
Qed.

(* ---- the waiting entry ---- *)
(* k's entry is the incomplete one created at t0 with channel ch, and ws are its wakers *)
Definition waiting (P : params) (c : cache) (k : Z) (i : nat) (ch t0 : Z) (ws : list Z) : Prop :=
  c_map c k = Some i /\ c_ent c i = mkEntry k 0 (t0 + p_age P) Incomplete (Some ws) (Some ch).

(* specification side: the wakers registered for k by a history (gets add, removeWaker removes) *)
Definition add_w (w : Z) (ws : list Z) : list Z := if existsb (Z.eqb w) ws then ws else ws ++ [w].
Definition ws_step (k : Z) (ws : list Z) (o : op) : list Z :=
  match o with
  | OGet _ k' (Some (Some _)) _ => ws
  | OGet _ k' _ w => if k' =? k then add_w w ws else ws
  | ORemoveWaker _ k' w => if k' =? k then filter (fun x => negb (x =? w)) ws else ws
  | _ => ws
  end.
(* operations that leave a pending resolution of k pending: no add for k, no check for k *)
Definition calm (k : Z) (o : op) : Prop :=
  match o with OAdd _ k' _ | OCheck _ k' _ => k' <> k | _ => True end.

Definition quiet_evs (ch : Z) (evs : list ev) : Prop := forall x, In x evs -> ~ mentions ch x.

Lemma mod_ne N s a : (0 < N)%nat -> (a + 1 < N)%nat -> Nat.modulo (s + 1 + a) N <> s.
Proof.
  intros HN Ha E.
  destruct (Nat.lt_ge_cases s N) as [Hs|Hs].
  - pose proof (Nat.div_mod_eq (s + 1 + a) N) as D. rewrite E in D.
    assert (Q : (1 + a = N * ((s + 1 + a) / N))%nat) by lia.
    destruct ((s + 1 + a) / N)%nat; nia.
  - pose proof (Nat.mod_upper_bound (s + 1 + a) N ltac:(lia)). lia.
Qed.

Lemma stp_fresh e now : now <= e_exp e -> stp e now = e /\ stp_ev e now = [].
Proof.
  intros H. destruct (stp_cases e now) as [(A & B & _)|(_ & L & _)]; [auto|lia].
Qed.

Lemma get_waiting P c k i ch t0 ws now res w :
  waiting P c k i ch t0 ws -> now <= t0 + p_age P -> (forall s, res <> Some (Some s)) ->
  get_p P c now k res w =
  (set_ent (set_ent c i (mkEntry k 0 (t0 + p_age P) Incomplete (Some ws) (Some ch))) i
           (mkEntry k 0 (t0 + p_age P) Incomplete (Some (add_w w ws)) (Some ch)),
   GBlock (Some ch) false, []).
Proof.
  intros (Mk & Ek) Ht NS.
  assert (S : stp (c_ent c i) now = c_ent c i /\ stp_ev (c_ent c i) now = [])
    by (apply stp_fresh; rewrite Ek; cbn; lia).
  destruct S as [S1 S2].
  assert (Es : e_s (c_ent c i) = Incomplete) by (rewrite Ek; reflexivity).
  unfold get_p. destruct res as [[s|]|]; [exfalso; eapply NS; reflexivity| |];
    rewrite Mk; cbv zeta; rewrite S1, S2, Es, Ek; reflexivity.
Qed.

Lemma step_waiting P c o k i ch t0 ws a :
  Inv c -> (0 < p_N P)%nat -> waiting P c k i ch t0 ws ->
  c_next c = Nat.modulo (i + 1 + a) (p_N P) -> (a + 1 < p_N P)%nat ->
  calm k o -> time_of o <= t0 + p_age P ->
  exists a', waiting P (fst (fst (step_p P c o))) k i ch t0 (ws_step k ws o) /\
    c_next (fst (fst (step_p P c o))) = Nat.modulo (i + 1 + a') (p_N P) /\ (a' <= a + 1)%nat /\
    quiet_evs ch (snd (step_p P c o)).
Proof.
  intros (I & W & C1 & C2) HN (Mk & Ek) Nx Ha Hc Ht.
  assert (Nxi : c_next c <> i) by (rewrite Nx; apply mod_ne; assumption).
  assert (Dk : e_done (c_ent c i) = Some ch) by (rewrite Ek; reflexivity).
  destruct (Z.eq_dec (key_of o) k) as [Ko|Ko].
  - (* an operation on k itself: only get and removeWaker are calm *)
    destruct o as [now k' v|now k' res w|now k' a0|now k' w]; cbn [key_of] in Ko; subst k';
      cbn [calm] in Hc; try contradiction; cbn [time_of] in Ht.
    + cbn [step_p ws_step].
      destruct res as [[s|]|].
      * cbn [get_p fst snd]. exists a. split; [split; assumption|]. split; [exact Nx|]. split; [lia|intros x []].
      * rewrite (get_waiting P c k i ch t0 ws now (Some None) w (conj Mk Ek) Ht) by discriminate.
        cbn [fst snd]. exists a. rewrite Z.eqb_refl. split; [|split; [exact Nx|split; [lia|intros x []]]].
        split; [exact Mk|]. rewrite set_ent_same. reflexivity.
      * rewrite (get_waiting P c k i ch t0 ws now None w (conj Mk Ek) Ht) by discriminate.
        cbn [fst snd]. exists a. rewrite Z.eqb_refl. split; [|split; [exact Nx|split; [lia|intros x []]]].
        split; [exact Mk|]. rewrite set_ent_same. reflexivity.
    + cbn [step_p ws_step fst snd]. unfold removeWaker. rewrite Mk, Z.eqb_refl.
      exists a. split; [|split; [exact Nx|split; [lia|intros x []]]].
      split; [exact Mk|]. rewrite set_ent_same, Ek. reflexivity.
  - (* an operation on another key *)
    assert (Ws : ws_step k ws o = ws).
    { destruct o as [now k' v|now k' res w|now k' a0|now k' w]; cbn [key_of] in Ko; cbn [ws_step]; auto.
      - destruct (Z.eqb_spec k' k); [contradiction|]. destruct res as [[?|]|]; reflexivity.
      - destruct (Z.eqb_spec k' k); [contradiction|reflexivity]. }
    rewrite Ws.
    destruct (step_upd P c o) as (al & Lal & U).
    destruct (frame_fwd1 P (key_of o) (time_of o) egood al c _ egood_addr U Lal I k i
                (fun E => Ko (eq_sym E)) Mk Nxi) as (M3 & E3 & N3).
    assert (Q : quiet_evs ch (snd (step_p P c o))).
    { intros x Hx Hm. apply step_events in Hx. unfold mentions in Hm.
      destruct Hx as [(j & Mj & Fj)|[Fn|Fc]].
      - assert (e_done (c_ent c j) = Some ch) by (destruct x; cbn in *; congruence).
        assert (j = i) by (eapply C2; eauto). subst j.
        apply Ko. rewrite <- (I _ _ Mj). apply (I _ _ Mk).
      - assert (e_done (c_ent c (c_next c)) = Some ch) by (destruct x; cbn in *; congruence).
        apply Nxi. eapply C2; eauto.
      - assert (c_chan c = ch) by (destruct x; cbn in *; congruence).
        apply C1 in Dk. lia. }
    destruct N3 as [N3|N3].
    + exists a. split; [split; [exact M3|rewrite E3; exact Ek]|]. split; [rewrite N3; exact Nx|]. split; [lia|exact Q].
    + exists (a + 1)%nat. split; [split; [exact M3|rewrite E3; exact Ek]|]. split; [|split; [lia|exact Q]].
      rewrite N3, Nx. rewrite Nat.add_mod_idemp_l by lia. f_equal. lia.
Qed.

Definition outs_quiet (ch : Z) (outs : list (ret * list ev)) : Prop :=
  Forall (fun o => quiet_evs ch (snd o)) outs.

Lemma exec_waiting P k i ch t0 : (0 < p_N P)%nat -> forall ops c ws a,
  Inv c -> waiting P c k i ch t0 ws ->
  c_next c = Nat.modulo (i + 1 + a) (p_N P) -> (a + length ops < p_N P)%nat ->
  Forall (fun o => calm k o /\ time_of o <= t0 + p_age P) ops ->
  exists c' outs a', exec P c ops = Some (c', outs) /\ Inv c' /\
    waiting P c' k i ch t0 (fold_left (ws_step k) ops ws) /\
    c_next c' = Nat.modulo (i + 1 + a') (p_N P) /\ (a' <= a + length ops)%nat /\ outs_quiet ch outs.
Proof.
  intros HN. induction ops as [|o ops IH]; intros c ws a I Wt Nx La F.
  - exists c, [], a. cbn. repeat split; try apply I; try apply Wt; auto. lia. constructor.
  - inversion F as [|? ? [Hc Ht] F']; subst.
    cbn [length] in La.
    destruct (step_waiting P c o k i ch t0 ws a I HN Wt Nx ltac:(lia) Hc Ht) as (a1 & W1 & N1 & L1 & Q1).
    pose proof (step_inv P c o I) as I1.
    cbn [exec]. rewrite step_ok by apply I.
    destruct (step_p P c o) as [[c1 r] e]. cbn [fst snd] in *.
    destruct (IH c1 (ws_step k ws o) a1 I1 W1 N1 ltac:(lia) F') as (c2 & outs & a2 & E2 & I2 & W2 & N2 & L2 & Q2).
    rewrite E2. exists c2, ((r, e) :: outs), a2. cbn [fold_left].
    split; [reflexivity|]. split; [exact I2|]. split; [exact W2|]. split; [exact N2|]. split; [cbn [length]; lia|].
    constructor; [exact Q1|exact Q2].
Qed.

(* checkLinkRequest on the waiting entry *)
Lemma check_waiting P c k i ch t0 ws now att :
  waiting P c k i ch t0 ws -> now <= t0 + p_age P ->
  check_p P c now k att =
  if p_attempts P <=? att + 1
  then (set_ent (set_ent c i (mkEntry k 0 (t0 + p_age P) Incomplete (Some ws) (Some ch))) i
                (mkEntry k 0 (t0 + p_age P) Failed None (Some ch)), true,
        map (Notify (Some ch)) ws ++ [Close ch])
  else (set_ent c i (mkEntry k 0 (t0 + p_age P) Incomplete (Some ws) (Some ch)), false, []).
Proof.
  intros (Mk & Ek) Ht. unfold check_p. rewrite Mk. cbv zeta.
  assert (S : stp (c_ent c i) now = c_ent c i /\ stp_ev (c_ent c i) now = [])
    by (apply stp_fresh; rewrite Ek; cbn; lia).
  destruct S as [S1 S2].
  assert (Es : e_s (c_ent c i) = Incomplete) by (rewrite Ek; reflexivity).
  rewrite S1, S2, Es, Ek.
  destruct (p_attempts P <=? att + 1); reflexivity.
Qed.

Lemma waiting_set_same P c k i ch t0 ws : waiting P c k i ch t0 ws ->
  waiting P (set_ent c i (mkEntry k 0 (t0 + p_age P) Incomplete (Some ws) (Some ch))) k i ch t0 ws.
Proof. intros (Mk & Ek). split; [exact Mk|]. rewrite set_ent_same. reflexivity. Qed.

Lemma Inv_set_same c i : Inv c -> Inv (set_ent c i (c_ent c i)).
Proof.
  intros (I & W & C). split; [|split].
  - apply allm_set_ent; [exact I|]. intros k M. apply (I k i M).
  - apply (allm_set_ent c (fun _ e => e_s e = Incomplete -> e_wakers e <> None)); [exact W|].
    intros k M. apply (W k i M).
  - apply chan_set_ent; [exact C|reflexivity].
Qed.

(* requests number i+1, i+2, ... of a run whose request i was sent at t *)
Definition req_times (t T : Z) (n : nat) : list Z := map (fun j => t + Z.of_nat j * T) (seq 1 n).

Lemma req_times_S t T n : req_times t T (S n) = (t + T) :: req_times (t + T) T n.
Proof.
  unfold req_times. cbn [seq map]. f_equal; [lia|].
  rewrite <- seq_shift, map_map. apply map_ext. intros j. lia.
Qed.

(* the run from request number att (sent at t) with one batch of environment operations per
   remaining attempt: requests keep being sent one per timeout, and the last check fails the entry *)
Lemma res_run_fail P T k i ch t0 : (0 < p_N P)%nat -> 0 <= T ->
  forall envs c t att ws a,
  Inv c -> waiting P c k i ch t0 ws ->
  c_next c = Nat.modulo (i + 1 + a) (p_N P) -> (a + length (concat envs) < p_N P)%nat ->
  Forall (fun o => calm k o /\ time_of o <= t0 + p_age P) (concat envs) ->
  t + Z.of_nat (length envs) * T <= t0 + p_age P ->
  att + Z.of_nat (length envs) = p_attempts P -> envs <> [] ->
  exists c' outs,
    res_run P T k c t att envs =
      Some (c', req_times t T (length envs - 1), Some (t + Z.of_nat (length envs) * T),
            outs ++ [(RCheck true, map (Notify (Some ch)) (fold_left (ws_step k) (concat envs) ws) ++ [Close ch])]) /\
    outs_quiet ch outs /\ Inv c' /\
    c_map c' k = Some i /\ c_ent c' i = mkEntry k 0 (t0 + p_age P) Failed None (Some ch).
Proof.
  intros HN HT. induction envs as [|env rest IH]; intros c t att ws a I Wt Nx La F Lt Hatt Hne; [contradiction|].
  cbn [concat] in La, F. rewrite app_length in La. apply Forall_app in F. destruct F as [F1 F2].
  destruct (exec_waiting P k i ch t0 HN env c ws a I Wt Nx ltac:(lia) F1)
    as (c1 & outs1 & a1 & E1 & I1 & W1 & N1 & L1 & Q1).
  cbn [res_run]. rewrite E1. rewrite check_ok.
  cbn [length] in Lt, Hatt.
  rewrite (check_waiting P c1 k i ch t0 _ (t + T) att W1) by nia.
  destruct rest as [|env2 rest2].
  - (* last attempt *)
    assert (B : p_attempts P <=? att + 1 = true) by (apply Z.leb_le; cbn [length] in Hatt; lia).
    rewrite B. cbn [length concat Nat.sub req_times seq map fold_left app].
    eexists; exists outs1.
    rewrite app_nil_r. split; [f_equal; f_equal; f_equal; f_equal; lia|].
    split; [exact Q1|]. split.
    + pose proof (Inv_set_same c1 i I1) as (I' & W' & C').
      destruct W1 as (Mk & Ek). rewrite <- Ek. split; [|split].
      * eapply inj_set_ent; [exact I'|exact Mk|]. rewrite set_ent_same, Ek. reflexivity.
      * apply (allm_set_ent _ (fun _ e => e_s e = Incomplete -> e_wakers e <> None)); [exact W'|].
        intros k' M'. cbn. discriminate.
      * apply chan_set_ent; [exact C'|]. rewrite set_ent_same, Ek. reflexivity.
    + split; [apply W1|apply set_ent_same].
  - (* more attempts to go *)
    assert (B : p_attempts P <=? att + 1 = false).
    { apply Z.leb_gt. cbn [length] in Hatt. lia. }
    rewrite B.
    pose proof (waiting_set_same P c1 k i ch t0 _ W1) as W2.
    pose proof (Inv_set_same c1 i I1) as I2. rewrite (proj2 W1) in I2.
    destruct (IH _ (t + T) (att + 1) (fold_left (ws_step k) env ws) a1 I2 W2
                N1 ltac:(lia) F2 ltac:(cbn [length] in *; lia) ltac:(cbn [length] in *; lia) ltac:(discriminate))
      as (c3 & outs3 & E3 & Q3 & I3 & M3 & Ent3).
    rewrite E3. exists c3, (outs1 ++ (RCheck false, []) :: outs3).
    split.
    + replace (length (env :: env2 :: rest2) - 1)%nat with (S (length (env2 :: rest2) - 1)) by (cbn [length]; lia).
      rewrite req_times_S. cbn [concat]. rewrite !fold_left_app.
      assert (Hq : t + T + Z.of_nat (length (env2 :: rest2)) * T = t + Z.of_nat (length (env :: env2 :: rest2)) * T)
        by (cbn [length]; lia).
      rewrite Hq. rewrite <- app_assoc. reflexivity.
    + split; [|split; [exact I3|split; [exact M3|exact Ent3]]].
      apply Forall_app. split; [exact Q1|]. constructor; [intros x []|exact Q3].
Qed.

(* ---- the theorems ---- *)

Lemma check_p_false P c now k att c' evs :
  check_p P c now k att = (c', false, evs) -> att + 1 < p_attempts P.
Proof.
  unfold check_p. destruct (c_map c k) as [i|]; [|discriminate]. cbv zeta.
  destruct (e_s (stp (c_ent c i) now)); try discriminate.
  destruct (Z.leb_spec (p_attempts P) (att + 1)); [discriminate|]. intros _. lia.
Qed.

(* C12 "repeated ... up to the retry budget": whatever else happens to the cache between the
   timer firings (any operations at all, including adds, evictions and other resolvers' checks),
   a resolver that has sent request number att < attempts sends at most attempts requests in
   total, and its requests are exactly one timeout apart *)
Theorem resolver_budget_upper P T k : forall envs c t att c' reqs fin outs,
  att < p_attempts P ->
  res_run P T k c t att envs = Some (c', reqs, fin, outs) ->
  att + 1 + Z.of_nat (length reqs) <= p_attempts P /\ reqs = req_times t T (length reqs).
Proof.
  induction envs as [|env rest IH]; intros c t att c' reqs fin outs La E.
  - cbn in E. injection E as <- <- <- <-. cbn. split; [lia|reflexivity].
  - cbn [res_run] in E.
    destruct (exec P c env) as [[c1 outs1]|]; [|discriminate].
    rewrite check_ok in E.
    destruct (check_p P c1 (t + T) k att) as [[c2 stop] evs] eqn:Ec.
    destruct stop.
    + injection E as <- <- <- <-. cbn. split; [lia|reflexivity].
    + apply check_p_false in Ec.
      destruct (res_run P T k c2 (t + T) (att + 1) rest) as [[[[c3 reqs3] fin3] outs3]|] eqn:E3; [|discriminate].
      injection E as <- <- <- <-.
      destruct (IH c2 (t + T) (att + 1) c3 reqs3 fin3 outs3 ltac:(lia) E3) as [L R].
      cbn [length]. split; [lia|]. rewrite req_times_S. f_equal. exact R.
Qed.

Lemma NoDup_snoc (w : Z) ws : ~ In w ws -> NoDup ws -> NoDup (ws ++ [w]).
Proof.
  induction ws as [|x ws IH]; intros Hn H; cbn.
  - constructor; [intros []|constructor].
  - inversion H as [|? ? Hx Hws]; subst. constructor.
    + intros Hi. apply in_app_or in Hi. destruct Hi as [Hi|[<-|[]]]; [contradiction|].
      apply Hn. left. reflexivity.
    + apply IH; [|exact Hws]. intros Hi. apply Hn. right. exact Hi.
Qed.

Lemma NoDup_add_w w ws : NoDup ws -> NoDup (add_w w ws).
Proof.
  intros H. unfold add_w. destruct (existsb (Z.eqb w) ws) eqn:E; [exact H|].
  apply NoDup_snoc; [|exact H]. intros Hi.
  assert (existsb (Z.eqb w) ws = true) by (apply existsb_exists; exists w; split; [exact Hi|apply Z.eqb_refl]).
  congruence.
Qed.

Lemma NoDup_ws_step k ws o : NoDup ws -> NoDup (ws_step k ws o).
Proof.
  intros H. destruct o as [now k' v|now k' res w|now k' a0|now k' w]; cbn [ws_step]; auto.
  - destruct res as [[?|]|]; auto; destruct (k' =? k); auto using NoDup_add_w.
  - destruct (k' =? k); auto using NoDup_filter.
Qed.

Lemma NoDup_fold_ws k ops : forall ws, NoDup ws -> NoDup (fold_left (ws_step k) ops ws).
Proof.
  induction ops as [|o ops IH]; intros ws H; [exact H|]. cbn. apply IH. apply NoDup_ws_step. exact H.
Qed.

Lemma get_p_spawn P c now k res w c1 g evs :
  get_p P c now k res w = (c1, GBlock g true, evs) ->
  exists cX, c_chan cX = c_chan c /\
    c1 = set_ent (alloc P cX now k 0) (c_next cX) (addWaker_p (new_entry P cX now k 0) w) /\
    g = Some (c_chan cX).
Proof.
  assert (M : forall cX evs0, get_miss_p P cX now k res w evs0 = (c1, GBlock g true, evs) ->
     c1 = set_ent (alloc P cX now k 0) (c_next cX) (addWaker_p (new_entry P cX now k 0) w) /\
     g = Some (c_chan cX)).
  { intros cX evs0. unfold get_miss_p. destruct res; [|discriminate]. intros H. injection H as <- <- _. auto. }
  unfold get_p. destruct res as [[a|]|]; [discriminate| |].
  - destruct (c_map c k) as [i|].
    + cbv zeta. destruct (e_s (stp (c_ent c i) now)); try discriminate.
      intros H. apply M in H. exists (set_ent c i (stp (c_ent c i) now)). split; [reflexivity|exact H].
    + intros H. apply M in H. exists c. split; [reflexivity|exact H].
  - destruct (c_map c k) as [i|]; cbv zeta; [destruct (e_s (stp (c_ent c i) now))|]; discriminate.
Qed.

(* C12 "a request is broadcast and repeated, and the waiting operation then ... fails with a
   no-link-address error after the retry budget": from the get that starts a resolution of k at
   t0, if until the budget is used up nobody adds k (no reply arrives), the ring is not wrapped
   (fewer operations than slots) and the budget fits into ageLimit, then requests number
   1..attempts-1 are sent at t0+T, t0+2T, ... (number 0 at t0), the check at t0+attempts*T fails
   the entry, every waker registered in the meantime (and not removed) is notified exactly once,
   at that moment and not before, the done channel is closed then, and get now reports
   ErrNoLinkAddress. *)
Theorem resolution_budget P T k c0 t0 w c1 ch evs0 envs :
  Inv c0 -> (0 < p_N P)%nat -> 0 <= T ->
  get P c0 t0 k (Some None) w = Some (c1, GBlock (Some ch) true, evs0) ->
  Z.of_nat (length envs) = p_attempts P -> envs <> [] ->
  p_attempts P * T <= p_age P ->
  (length (concat envs) < p_N P)%nat ->
  Forall (fun o => calm k o /\ time_of o <= t0 + p_age P) (concat envs) ->
  exists c2 outs wsf c3,
    res_run P T k c1 t0 0 envs =
      Some (c2, req_times t0 T (length envs - 1), Some (t0 + p_attempts P * T),
            outs ++ [(RCheck true, map (Notify (Some ch)) wsf ++ [Close ch])]) /\
    wsf = fold_left (ws_step k) (concat envs) [w] /\ NoDup wsf /\
    outs_quiet ch outs /\
    get P c2 (t0 + p_attempts P * T) k None w = Some (c3, GNoLink, []).
Proof.
  intros I0 HN HT G Hlen Hne Hage Hroom F.
  rewrite get_ok in G by apply I0.
  assert (G' : get_p P c0 t0 k (Some None) w = (c1, GBlock (Some ch) true, evs0)) by (injection G as G; exact G).
  clear G. rename G' into G.
  pose proof (step_inv P c0 (OGet t0 k (Some None) w) I0) as I1. unfold step_p in I1. rewrite G in I1. cbn [fst] in I1.
  destruct (get_p_spawn P c0 t0 k (Some None) w c1 (Some ch) evs0 G) as (cX & Ch & -> & Eg).
  injection Eg as ->.
  set (slot := c_next cX) in *.
  assert (Wt : waiting P (set_ent (alloc P cX t0 k 0) slot (addWaker_p (new_entry P cX t0 k 0) w)) k slot (c_chan cX) t0 [w]).
  { split; [apply alloc_map_self|]. rewrite set_ent_same. reflexivity. }
  assert (Nx : c_next (set_ent (alloc P cX t0 k 0) slot (addWaker_p (new_entry P cX t0 k 0) w)) =
               Nat.modulo (slot + 1 + 0) (p_N P)).
  { rewrite set_ent_next, alloc_next, Nat.add_0_r. reflexivity. }
  destruct (res_run_fail P T k slot (c_chan cX) t0 HN HT envs _ t0 0 [w] 0%nat I1 Wt Nx
              ltac:(lia) F ltac:(nia) ltac:(lia) Hne) as (c2 & outs & E & Q & I2 & M2 & Ent2).
  assert (Hfin : t0 + Z.of_nat (length envs) * T = t0 + p_attempts P * T) by (rewrite Hlen; reflexivity).
  rewrite Hfin in E.
  exists c2, outs, (fold_left (ws_step k) (concat envs) [w]).
  eexists. split; [exact E|]. split; [reflexivity|].
  split; [apply NoDup_fold_ws; constructor; [intros []|constructor]|]. split; [exact Q|].
  rewrite get_ok by apply I2. unfold get_p. rewrite M2. cbv zeta.
  assert (S : stp (c_ent c2 slot) (t0 + p_attempts P * T) = c_ent c2 slot /\ stp_ev (c_ent c2 slot) (t0 + p_attempts P * T) = [])
    by (apply stp_fresh; rewrite Ent2; cbn; lia).
  destruct S as [S1 S2]. rewrite S1, S2, Ent2. cbn [e_s]. reflexivity.
Qed.

(* ... "or proceeds using the learned address": an add for k while the entry is waiting makes it
   ready at once, notifies every registered waker exactly once and closes the channel; from then
   on (until the entry expires) get returns the learned address and the resolver's next check
   tells it to stop without another request *)
Theorem resolution_completes_on_add P c k i ch t0 ws now v :
  waiting P c k i ch t0 ws -> now <= t0 + p_age P -> v <> 0 ->
  exists c', add P c now k v = Some (c', map (Notify (Some ch)) ws ++ [Close ch]) /\
    (forall now' res w', now' <= t0 + p_age P -> no_static res ->
       exists c'', get_p P c' now' k res w' = (c'', GAddr v, [])) /\
    (forall now' att, now' <= t0 + p_age P ->
       exists c'', checkLinkRequest P c' now' k att = Some (c'', true, [])).
Proof.
  intros (Mk & Ek) Ht Hv.
  assert (S : forall t', t' <= t0 + p_age P -> stp (c_ent c i) t' = c_ent c i /\ stp_ev (c_ent c i) t' = [])
    by (intros t' Ht'; apply stp_fresh; rewrite Ek; cbn; lia).
  destruct (S now Ht) as [S1 S2].
  assert (Es : e_s (c_ent c i) = Incomplete) by (rewrite Ek; reflexivity).
  assert (El : e_link (c_ent c i) = 0) by (rewrite Ek; reflexivity).
  rewrite add_ok. unfold add_p. rewrite Mk. cbv zeta. rewrite S1, S2, Es, El.
  destruct (Z.eqb_spec 0 v) as [E0|_]; [symmetry in E0; contradiction|].
  cbn [st_eqb negb andb]. rewrite Ek. cbn [app].
  eexists. split; [reflexivity|].
  set (e' := mkEntry k v (t0 + p_age P) Ready None (Some ch)).
  assert (Me : forall c0, c_ent (ready_at (set_ent c0 i (relink (mkEntry k 0 (t0 + p_age P) Incomplete (Some ws) (Some ch)) v)) i) i = e').
  { intros c0. unfold ready_at. rewrite !set_ent_same. reflexivity. }
  split.
  - intros now' res w' Hn NS. unfold get_p.
    destruct res as [[a|]|]; [exfalso; eapply NS; reflexivity| |];
      (unfold ready_at at 1; rewrite !set_ent_map, Mk; cbv zeta; rewrite Me;
       assert (S' : stp e' now' = e' /\ stp_ev e' now' = []) by (apply stp_fresh; cbn; lia);
       destruct S' as [S1' S2']; rewrite S1', S2'; cbn [e_s e' e_link]; eexists; reflexivity).
  - intros now' att Hn. rewrite check_ok. unfold check_p.
    unfold ready_at at 1. rewrite !set_ent_map, Mk. cbv zeta. rewrite Me.
    assert (S' : stp e' now' = e' /\ stp_ev e' now' = []) by (apply stp_fresh; cbn; lia).
    destruct S' as [S1' S2']. rewrite S1', S2'. cbn [e_s e']. eexists. reflexivity.
Qed.

(* the stack's constants (stack.go): 3 requests one second apart, failure 3 s after the first *)
Corollary resolution_budget_stack k c0 t0 w c1 ch evs0 env0 env1 env2 :
  Inv c0 ->
  get stackParams c0 t0 k (Some None) w = Some (c1, GBlock (Some ch) true, evs0) ->
  (length (env0 ++ env1 ++ env2) < 512)%nat ->
  Forall (fun o => calm k o /\ time_of o <= t0 + 60000000000) (env0 ++ env1 ++ env2) ->
  exists c2 outs wsf c3,
    res_run stackParams stackTimeout k c1 t0 0 [env0; env1; env2] =
      Some (c2, [t0 + 1000000000; t0 + 2000000000], Some (t0 + 3000000000),
            outs ++ [(RCheck true, map (Notify (Some ch)) wsf ++ [Close ch])]) /\
    NoDup wsf /\ outs_quiet ch outs /\
    get stackParams c2 (t0 + 3000000000) k None w = Some (c3, GNoLink, []).
Proof.
  intros I0 G Hroom F.
  assert (Hroom' : (length (concat [env0; env1; env2]) < p_N stackParams)%nat).
  { cbn [concat p_N stackParams]. rewrite app_nil_r. exact Hroom. }
  assert (F' : Forall (fun o => calm k o /\ time_of o <= t0 + p_age stackParams) (concat [env0; env1; env2])).
  { cbn [concat p_age stackParams]. rewrite app_nil_r. exact F. }
  destruct (resolution_budget stackParams stackTimeout k c0 t0 w c1 ch evs0 [env0; env1; env2] I0
              ltac:(cbn; lia) ltac:(unfold stackTimeout; lia) G ltac:(reflexivity) ltac:(discriminate)
              ltac:(cbn; unfold stackTimeout; lia) Hroom' F')
    as (c2 & outs & wsf & c3 & E & _ & ND & Q & Gf).
  exists c2, outs, wsf, c3. split; [|auto].
  rewrite E. unfold req_times, stackTimeout. cbn [length Nat.sub seq map p_attempts stackParams].
  change (Z.of_nat 1 * 1000000000) with 1000000000. change (Z.of_nat 2 * 1000000000) with 2000000000.
  change (3 * 1000000000) with 3000000000. reflexivity.
Qed.

(* hypotheses of the theorems above are satisfiable: a real run of the model *)
Example budget_example :
  match get stackParams init 5 7 (Some None) 100 with
  | Some (c1, GBlock (Some 0) true, []) =>
      match res_run stackParams stackTimeout 7 c1 5 0
              [[OGet 6 7 (Some None) 101; OAdd 7 8 42]; [ORemoveWaker 1000000006 7 100]; [OGet 2000000007 8 None 5]] with
      | Some (_, reqs, fin, outs) =>
          reqs = [1000000005; 2000000005] /\ fin = Some 3000000005 /\
          last outs (RNone, []) = (RCheck true, [Notify (Some 0) 101; Close 0])
      | None => False
      end
  | _ => False
  end.
Proof. vm_compute. auto. Qed.

(* the same, stated with the model's [get] (needs the structural invariant for the waker map) *)
Theorem resolution_completes_on_add_get P c k i ch t0 ws now v :
  Inv c -> waiting P c k i ch t0 ws -> now <= t0 + p_age P -> v <> 0 ->
  exists c', add P c now k v = Some (c', map (Notify (Some ch)) ws ++ [Close ch]) /\
    (forall now' res w', now' <= t0 + p_age P -> no_static res ->
       exists c'', get P c' now' k res w' = Some (c'', GAddr v, [])) /\
    (forall now' att, now' <= t0 + p_age P ->
       exists c'', checkLinkRequest P c' now' k att = Some (c'', true, [])).
Proof.
  intros I Wt Ht Hv.
  destruct (resolution_completes_on_add P c k i ch t0 ws now v Wt Ht Hv) as (c' & A & G & C).
  exists c'. split; [exact A|]. split; [|exact C].
  intros now' res w' Hn NS.
  assert (I' : Inv c').
  { pose proof (step_inv P c (OAdd now k v) I) as H. cbn [step_p] in H.
    rewrite add_ok in A. injection A as A. rewrite A in H. exact H. }
  destruct (G now' res w' Hn NS) as (c'' & E). exists c''. rewrite get_ok by apply I'. rewrite E. reflexivity.
Qed.
