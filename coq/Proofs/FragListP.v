(* List utilities of Model/Frag.v with Z counters: zlen, zdrop (TrimFront), ztake, slice. *)
From Coq Require Import ZArith Bool List Lia.
From NP Require Import Model.Frag.
Import ListNotations.
Open Scope Z_scope.

Lemma zlen_length : forall l, zlen l = Z.of_nat (length l).
Proof. induction l as [|x t IH]; cbn [zlen length]; lia. Qed.

Lemma zlen_nonneg : forall l, 0 <= zlen l.
Proof. intros. rewrite zlen_length. lia. Qed.

Lemma zlen_app : forall a b, zlen (a ++ b) = zlen a + zlen b.
Proof. intros. rewrite !zlen_length, app_length. lia. Qed.

Lemma zlen_nil_inv : forall l, zlen l = 0 -> l = [].
Proof. intros [|x t] H; auto. cbn [zlen] in H. pose proof (zlen_nonneg t). lia. Qed.

Lemma zdrop_nonpos : forall n l, n <= 0 -> zdrop n l = l.
Proof. intros n [|x t] Hn; cbn [zdrop]; destruct (Z.leb_spec n 0); auto; lia. Qed.

Lemma zdrop_nil : forall n, zdrop n [] = [].
Proof. intros. cbn [zdrop]. destruct (n <=? 0); auto. Qed.

Lemma zdrop_cons : forall n x t, 0 < n -> zdrop n (x :: t) = zdrop (n - 1) t.
Proof. intros. cbn [zdrop]. destruct (Z.leb_spec n 0); auto; lia. Qed.

Lemma ztake_nonpos : forall n l, n <= 0 -> ztake n l = [].
Proof. intros n [|x t] Hn; cbn [ztake]; destruct (Z.leb_spec n 0); auto; lia. Qed.

Lemma ztake_nil : forall n, ztake n [] = [].
Proof. intros. cbn [ztake]. destruct (n <=? 0); auto. Qed.

Lemma ztake_cons : forall n x t, 0 < n -> ztake n (x :: t) = x :: ztake (n - 1) t.
Proof. intros. cbn [ztake]. destruct (Z.leb_spec n 0); auto; lia. Qed.

Lemma zlen_zdrop : forall l n, 0 <= n -> zlen (zdrop n l) = Z.max 0 (zlen l - n).
Proof.
  induction l as [|x t IH]; intros n Hn.
  - rewrite zdrop_nil. cbn [zlen]. lia.
  - destruct (Z.eq_dec n 0) as [->|Hz].
    + rewrite zdrop_nonpos by lia. pose proof (zlen_nonneg (x :: t)). lia.
    + rewrite zdrop_cons by lia. rewrite IH by lia. cbn [zlen]. pose proof (zlen_nonneg t). lia.
Qed.

Lemma zlen_ztake : forall l n, 0 <= n -> zlen (ztake n l) = Z.min n (zlen l).
Proof.
  induction l as [|x t IH]; intros n Hn.
  - rewrite ztake_nil. cbn [zlen]. lia.
  - destruct (Z.eq_dec n 0) as [->|Hz].
    + rewrite ztake_nonpos by lia. pose proof (zlen_nonneg (x :: t)). cbn [zlen] in *. lia.
    + rewrite ztake_cons by lia. cbn [zlen]. rewrite IH by lia. pose proof (zlen_nonneg t). lia.
Qed.

Lemma ztake_all : forall l n, zlen l <= n -> ztake n l = l.
Proof.
  induction l as [|x t IH]; intros n Hn.
  - apply ztake_nil.
  - cbn [zlen] in Hn. pose proof (zlen_nonneg t).
    rewrite ztake_cons by lia. f_equal. apply IH. lia.
Qed.

Lemma zdrop_all : forall l n, zlen l <= n -> zdrop n l = [].
Proof.
  induction l as [|x t IH]; intros n Hn.
  - apply zdrop_nil.
  - cbn [zlen] in Hn. pose proof (zlen_nonneg t).
    rewrite zdrop_cons by lia. apply IH. lia.
Qed.

(* take k, then m more = take k+m *)
Lemma ztake_split : forall l k m, 0 <= k -> 0 <= m -> ztake k l ++ ztake m (zdrop k l) = ztake (k + m) l.
Proof.
  induction l as [|x t IH]; intros k m Hk Hm.
  - rewrite zdrop_nil, !ztake_nil. reflexivity.
  - destruct (Z.eq_dec k 0) as [->|Hz].
    + rewrite ztake_nonpos, zdrop_nonpos by lia. reflexivity.
    + rewrite zdrop_cons by lia. rewrite !ztake_cons by lia.
      cbn [app]. f_equal. rewrite IH by lia. f_equal. lia.
Qed.

Lemma zdrop_zdrop : forall l a b, 0 <= a -> 0 <= b -> zdrop a (zdrop b l) = zdrop (a + b) l.
Proof.
  induction l as [|x t IH]; intros a b Ha Hb.
  - now rewrite !zdrop_nil.
  - destruct (Z.eq_dec b 0) as [->|Hz].
    + rewrite (zdrop_nonpos 0) by lia. f_equal. lia.
    + rewrite (zdrop_cons b) by lia. rewrite (zdrop_cons (a + b)) by lia.
      rewrite IH by lia. f_equal. lia.
Qed.

Lemma zdrop_ztake : forall l j m, 0 <= j -> zdrop j (ztake m l) = ztake (m - j) (zdrop j l).
Proof.
  induction l as [|x t IH]; intros j m Hj.
  - now rewrite ztake_nil, !zdrop_nil, ztake_nil.
  - destruct (Z.eq_dec j 0) as [->|Hz].
    + rewrite !zdrop_nonpos by lia. f_equal. lia.
    + destruct (Z.leb_spec m 0) as [Hm|Hm].
      * rewrite (ztake_nonpos m) by lia. rewrite zdrop_nil. rewrite ztake_nonpos by lia. reflexivity.
      * rewrite ztake_cons by lia. rewrite !zdrop_cons by lia. rewrite IH by lia. f_equal. lia.
Qed.

(* the bytes of a slice, trimmed at the front: what reassemble appends *)
Lemma trim_slice : forall D off len size, 0 <= off -> off <= size ->
  zdrop (size - off) (slice D off len) = ztake (off + len - size) (zdrop size D).
Proof.
  intros D off len size Ho Hs. unfold slice.
  rewrite zdrop_ztake by lia. rewrite zdrop_zdrop by lia.
  f_equal; [lia|]. f_equal. lia.
Qed.

Lemma zlen_slice : forall D a k, 0 <= a -> 0 <= k -> a + k <= zlen D -> zlen (slice D a k) = k.
Proof.
  intros D a k Ha Hk Hl. unfold slice. rewrite zlen_ztake by lia. rewrite zlen_zdrop by lia. lia.
Qed.

Lemma slice_full : forall D, slice D 0 (zlen D) = D.
Proof. intros. unfold slice. rewrite zdrop_nonpos by lia. apply ztake_all. lia. Qed.
