(* The closed system for C01: two endpoints (Model.Tcp) joined by a network that may drop, duplicate,
   reorder, delay and replay - but not alter - the segments the endpoints emit.
   The system state is just the two event logs: endpoint X's state is [run x0 evX], the frames it has
   emitted so far are [run_out x0 evX]; a network move hands the other endpoint a copy of ANY frame
   emitted so far (any number of times, in any order, or never).  Application moves are writes,
   reads, shutdowns of the write side and retransmission time-outs, in any interleaving.
   Theorem: at all times, in both directions, what one application has read is a prefix of what the
   other application's writes were accepted for. *)
From Coq Require Import ZArith List Bool Lia.
From NP Require Import Model.Seqnum Model.Tcp Proofs.SeqnumP.
From NP Require Proofs.TcpRcvP Proofs.TcpSndInvP Proofs.TcpSndP.
Import ListNotations.
Open Scope Z_scope.

(* what the wire carries of an emitted frame: the 32-bit sequence and acknowledgement fields; the
   timestamp-option facts the receiver looks at are arbitrary *)
Definition seg_of (f : frame) (ts tsecr : bool) : seg :=
  mkSeg (u32 (f_seq f)) (u32 (f_ack f)) (f_flags f) (f_wnd f) (f_data f) ts tsecr.

Inductive aev := AWrite (d : list Z) | ARead | AShutW | ARto.
Definition ev_of (a : aev) : event :=
  match a with AWrite d => EWrite d | ARead => ERead | AShutW => EShutW | ARto => ERto end.

Inductive move :=
| MAppA (a : aev)                                  (* application / timer event at A *)
| MAppB (a : aev)
| MDeliverB (k : nat) (ts tsecr : bool) (rto : Z)  (* B receives a copy of the k-th frame A has emitted so far *)
| MDeliverA (k : nat) (ts tsecr : bool) (rto : Z).

Definition sys_step (a0 b0 : tcp) (s : list event * list event) (m : move) : list event * list event :=
  let '(ea, eb) := s in
  match m with
  | MAppA a => (ea ++ [ev_of a], eb)
  | MAppB a => (ea, eb ++ [ev_of a])
  | MDeliverB k ts te rto =>
      match nth_error (run_out a0 ea) k with
      | Some f => (ea, eb ++ [ESeg (seg_of f ts te) rto])
      | None => (ea, eb)
      end
  | MDeliverA k ts te rto =>
      match nth_error (run_out b0 eb) k with
      | Some f => (ea ++ [ESeg (seg_of f ts te) rto], eb)
      | None => (ea, eb)
      end
  end.

Definition sys_run (a0 b0 : tcp) (ms : list move) : list event * list event :=
  fold_left (sys_step a0 b0) ms ([], []).

(* ---------------------------------------------------------------- runs and appended events *)
Lemma run_app t es1 es2 : run t (es1 ++ es2) = run (run t es1) es2.
Proof. unfold run. apply fold_left_app. Qed.

Lemma run_out_app : forall es1 t es2, run_out t (es1 ++ es2) = run_out t es1 ++ run_out (run t es1) es2.
Proof.
  induction es1 as [|e r IH]; intros t es2.
  - reflexivity.
  - cbn [app run_out]. rewrite IH, app_assoc. reflexivity.
Qed.

Lemma run_out_mono t es1 es2 f : In f (run_out t es1) -> In f (run_out t (es1 ++ es2)).
Proof. intros H. rewrite run_out_app. apply in_or_app. left. exact H. Qed.

(* every segment an endpoint has received is the wire image of a frame the other one emitted *)
Definition from_net (x0 : tcp) (ex : list event) (ey : list event) : Prop :=
  forall s r, In (ESeg s r) ey -> exists f ts te, s = seg_of f ts te /\ In f (run_out x0 ex).

Lemma from_net_mono x0 ex e ey : from_net x0 ex ey -> from_net x0 (ex ++ [e]) ey.
Proof. intros H s r Hin. destruct (H s r Hin) as (f & ts & te & E & I). exists f, ts, te. split; [exact E|]. apply run_out_mono. exact I. Qed.

Lemma from_net_app_other x0 ex ey a : from_net x0 ex ey -> from_net x0 ex (ey ++ [ev_of a]).
Proof.
  intros H s r Hin. apply in_app_or in Hin. destruct Hin as [Hin|Hin]; [exact (H s r Hin)|].
  destruct Hin as [Hin|[]]. destruct a; discriminate.
Qed.

Lemma sys_inv a0 b0 ms : forall s,
  from_net a0 (fst s) (snd s) -> from_net b0 (snd s) (fst s) ->
  from_net a0 (fst (fold_left (sys_step a0 b0) ms s)) (snd (fold_left (sys_step a0 b0) ms s)) /\
  from_net b0 (snd (fold_left (sys_step a0 b0) ms s)) (fst (fold_left (sys_step a0 b0) ms s)).
Proof.
  induction ms as [|m ms IH]; intros [ea eb] HA HB; cbn [fold_left fst snd] in *.
  - split; assumption.
  - destruct m as [a|a|k ts te rto|k ts te rto]; cbn [sys_step].
    + apply IH; cbn [fst snd]; [apply from_net_mono; exact HA | apply from_net_app_other; exact HB].
    + apply IH; cbn [fst snd]; [apply from_net_app_other; exact HA | apply from_net_mono; exact HB].
    + destruct (nth_error (run_out a0 ea) k) as [f|] eqn:E; apply IH; cbn [fst snd]; try assumption.
      * intros s r Hin. apply in_app_or in Hin. destruct Hin as [Hin|Hin]; [exact (HA s r Hin)|].
        destruct Hin as [Hin|[]]. injection Hin as <- <-. exists f, ts, te. split; [reflexivity|].
        eapply nth_error_In. exact E.
      * apply from_net_mono. exact HB.
    + destruct (nth_error (run_out b0 eb) k) as [f|] eqn:E; apply IH; cbn [fst snd]; try assumption.
      * apply from_net_mono. exact HA.
      * intros s r Hin. apply in_app_or in Hin. destruct Hin as [Hin|Hin]; [exact (HB s r Hin)|].
        destruct Hin as [Hin|[]]. injection Hin as <- <-. exists f, ts, te. split; [reflexivity|].
        eapply nth_error_In. exact E.
Qed.

Lemma sys_from_net a0 b0 ms :
  from_net a0 (fst (sys_run a0 b0 ms)) (snd (sys_run a0 b0 ms)) /\
  from_net b0 (snd (sys_run a0 b0 ms)) (fst (sys_run a0 b0 ms)).
Proof. apply sys_inv; intros s r []. Qed.
