(* The closed system for C01: two endpoints (Model.Tcp) joined by a network that may drop, duplicate,
   reorder, delay and replay - but not alter - the segments the endpoints emit.
   The system state is just the two event logs: endpoint X's state is [run x0 evX], the frames it has
   emitted so far are [run_out x0 evX]; a network move hands the other endpoint a copy of ANY frame
   emitted so far (any number of times, in any order, or never).  Application moves are writes,
   reads, shutdowns of the write side and retransmission time-outs, in any interleaving.
   Theorem: at all times, in both directions, what one application has read is a prefix of what the
   other application's writes were accepted for. *)
From Coq Require Import ZArith List Bool Lia.
From NP Require Import Model.Seqnum Model.Tcp Proofs.SeqnumP.
From NP Require Proofs.TcpRcvP Proofs.TcpSndInvP Proofs.TcpSndP.
Import ListNotations.
Open Scope Z_scope.

(* what the wire carries of an emitted frame: the 32-bit sequence and acknowledgement fields; the
   timestamp-option facts the receiver looks at are arbitrary *)
Definition seg_of (f : frame) (ts tsecr : bool) : seg :=
  mkSeg (u32 (f_seq f)) (u32 (f_ack f)) (f_flags f) (f_wnd f) (f_data f) ts tsecr.

Inductive aev := AWrite (d : list Z) | ARead | AShutW | ARto.
Definition ev_of (a : aev) : event :=
  match a with AWrite d => EWrite d | ARead => ERead | AShutW => EShutW | ARto => ERto end.

Inductive move :=
| MAppA (a : aev)                                  (* application / timer event at A *)
| MAppB (a : aev)
| MDeliverB (k : nat) (ts tsecr : bool) (rto : Z)  (* B receives a copy of the k-th frame A has emitted so far *)
| MDeliverA (k : nat) (ts tsecr : bool) (rto : Z).

Definition sys_step (a0 b0 : tcp) (s : list event * list event) (m : move) : list event * list event :=
  let '(ea, eb) := s in
  match m with
  | MAppA a => (ea ++ [ev_of a], eb)
  | MAppB a => (ea, eb ++ [ev_of a])
  | MDeliverB k ts te rto =>
      match nth_error (run_out a0 ea) k with
      | Some f => (ea, eb ++ [ESeg (seg_of f ts te) rto])
      | None => (ea, eb)
      end
  | MDeliverA k ts te rto =>
      match nth_error (run_out b0 eb) k with
      | Some f => (ea ++ [ESeg (seg_of f ts te) rto], eb)
      | None => (ea, eb)
      end
  end.

Definition sys_run (a0 b0 : tcp) (ms : list move) : list event * list event :=
  fold_left (sys_step a0 b0) ms ([], []).

(* ---------------------------------------------------------------- runs and appended events *)
Lemma run_app t es1 es2 : run t (es1 ++ es2) = run (run t es1) es2.
Proof. unfold run. apply fold_left_app. Qed.

Lemma run_out_app : forall es1 t es2, run_out t (es1 ++ es2) = run_out t es1 ++ run_out (run t es1) es2.
Proof.
  induction es1 as [|e r IH]; intros t es2.
  - reflexivity.
  - cbn [app run_out]. rewrite IH, app_assoc. reflexivity.
Qed.

Lemma run_out_mono t es1 es2 f : In f (run_out t es1) -> In f (run_out t (es1 ++ es2)).
Proof. intros H. rewrite run_out_app. apply in_or_app. left. exact H. Qed.

(* every segment an endpoint has received is the wire image of a frame the other one emitted *)
Definition from_net (x0 : tcp) (ex : list event) (ey : list event) : Prop :=
  forall s r, In (ESeg s r) ey -> exists f ts te, s = seg_of f ts te /\ In f (run_out x0 ex).

Lemma from_net_mono x0 ex e ey : from_net x0 ex ey -> from_net x0 (ex ++ [e]) ey.
Proof. intros H s r Hin. destruct (H s r Hin) as (f & ts & te & E & I). exists f, ts, te. split; [exact E|]. apply run_out_mono. exact I. Qed.

Lemma from_net_app_other x0 ex ey a : from_net x0 ex ey -> from_net x0 ex (ey ++ [ev_of a]).
Proof.
  intros H s r Hin. apply in_app_or in Hin. destruct Hin as [Hin|Hin]; [exact (H s r Hin)|].
  destruct Hin as [Hin|[]]. destruct a; discriminate.
Qed.

Lemma sys_inv a0 b0 ms : forall s,
  from_net a0 (fst s) (snd s) -> from_net b0 (snd s) (fst s) ->
  from_net a0 (fst (fold_left (sys_step a0 b0) ms s)) (snd (fold_left (sys_step a0 b0) ms s)) /\
  from_net b0 (snd (fold_left (sys_step a0 b0) ms s)) (fst (fold_left (sys_step a0 b0) ms s)).
Proof.
  induction ms as [|m ms IH]; intros [ea eb] HA HB; cbn [fold_left fst snd] in *.
  - split; assumption.
  - destruct m as [a|a|k ts te rto|k ts te rto]; cbn [sys_step].
    + apply IH; cbn [fst snd]; [apply from_net_mono; exact HA | apply from_net_app_other; exact HB].
    + apply IH; cbn [fst snd]; [apply from_net_app_other; exact HA | apply from_net_mono; exact HB].
    + destruct (nth_error (run_out a0 ea) k) as [f|] eqn:E; apply IH; cbn [fst snd]; try assumption.
      * intros s r Hin. apply in_app_or in Hin. destruct Hin as [Hin|Hin]; [exact (HA s r Hin)|].
        destruct Hin as [Hin|[]]. injection Hin as <- <-. exists f, ts, te. split; [reflexivity|].
        eapply nth_error_In. exact E.
      * apply from_net_mono. exact HB.
    + destruct (nth_error (run_out b0 eb) k) as [f|] eqn:E; apply IH; cbn [fst snd]; try assumption.
      * apply from_net_mono. exact HA.
      * intros s r Hin. apply in_app_or in Hin. destruct Hin as [Hin|Hin]; [exact (HB s r Hin)|].
        destruct Hin as [Hin|[]]. injection Hin as <- <-. exists f, ts, te. split; [reflexivity|].
        eapply nth_error_In. exact E.
Qed.

Lemma sys_from_net a0 b0 ms :
  from_net a0 (fst (sys_run a0 b0 ms)) (snd (sys_run a0 b0 ms)) /\
  from_net b0 (snd (sys_run a0 b0 ms)) (fst (sys_run a0 b0 ms)).
Proof. apply sys_inv; intros s r []. Qed.

(* ---------------------------------------------------------------- one direction *)
Definition snd_init := TcpSndP.established.
Definition rcv_init (irs : Z) (t : tcp) : Prop :=
  rcvNxt (RC t) = seq_of irs 0 /\ rclosed (RC t) = false /\ pending (RC t) = [] /\ rcvList t = [].

Lemma u32_seq_of iss off : u32 (seq_of iss off) = seq_of iss off.
Proof. unfold seq_of, u32. apply Z.mod_mod. change (2^32) with 4294967296. lia. Qed.

(* every segment X's peer received from the network is acceptable input for the receive theorem,
   with P = everything X's application has written so far *)
Lemma delivered_ok2 issX x0 ex ey :
  snd_init issX x0 -> from_net x0 ex ey ->
  (forall s r, In (ESeg s r) ex -> is_u32 (s_ack s)) ->
  len (TcpSndP.written x0 ex) < 2^30 ->
  Forall (TcpRcvP.ev_ok2 (TcpSndP.written x0 ex) issX) ey.
Proof.
  intros HI HN HA HB. set (W := TcpSndP.written x0 ex) in *.
  assert (Hok : Forall TcpSndP.ev_ok ex).
  { apply Forall_forall. intros e He. destruct e as [s r| | | |]; cbn; auto. exact (HA s r He). }
  apply Forall_forall. intros e He. destruct e as [s r| | | |]; cbn; auto.
  destruct (HN s r He) as (f & ts & te & -> & Hf). cbn [seg_of s_data s_flags].
  destruct (f_data f) as [|b d] eqn:ED.
  - destruct (has (f_flags f) fFin) eqn:EF.
    + (* the FIN: empty, at offset |W| *)
      right. destruct (TcpSndP.fin_after_all_data_established issX x0 ex HI Hok HB f Hf EF) as (_ & Hs & _).
      unfold TcpRcvP.seg_slice, TcpRcvP.is_slice. cbn [seg_of s_seq s_flags s_data]. exists (len W).
      rewrite Hs, u32_seq_of, ED. split; [reflexivity|]. split.
      * unfold TcpRcvP.slice_at, TcpRcvP.zlen. cbn [length]. unfold len. split; [lia|]. split; [lia|]. reflexivity.
      * intros _. unfold TcpRcvP.zlen. cbn [length]. unfold len. lia.
    + left. split; reflexivity.
  - (* a data segment: a slice of W at the offset its number names; never carries FIN *)
    right. assert (Hd : f_data f <> []) by (rewrite ED; discriminate).
    destruct (TcpSndP.snd_emits_slices_established issX x0 ex HI Hok HB f Hf Hd) as (off & Hs & Hsl).
    pose proof (TcpSndP.established_Inv issX x0 HI) as HInv.
    assert (HB' : len ([] ++ TcpSndP.written x0 ex) < 2^30) by exact HB.
    destruct (TcpSndP.data_before_fin issX [] x0 ex HInv Hok HB' f Hf Hd) as (Hnf & _).
    unfold TcpRcvP.seg_slice, TcpRcvP.is_slice. cbn [seg_of s_seq s_flags s_data]. exists off.
    rewrite Hs, u32_seq_of. split; [reflexivity|]. split.
    + apply TcpSndInvP.is_slice_firstn_skipn in Hsl. unfold TcpRcvP.slice_at, TcpRcvP.zlen. exact Hsl.
    + intros Hfin. apply TcpRcvP.has_fin in Hfin. congruence.
Qed.

Lemma one_direction issX x0 y0 ex ey :
  snd_init issX x0 -> rcv_init issX y0 -> from_net x0 ex ey ->
  (forall s r, In (ESeg s r) ex -> is_u32 (s_ack s)) ->
  len (TcpSndP.written x0 ex) < 2^30 ->
  exists rest, concat (TcpRcvP.reads_run y0 ey) ++ rest = TcpSndP.written x0 ex.
Proof.
  intros HI (R1 & R2 & R3 & R4) HN HA HB.
  pose proof (delivered_ok2 issX x0 ex ey HI HN HA HB) as Hok.
  pose proof (TcpRcvP.rcv_inv_established (TcpSndP.written x0 ex) issX y0 R1 R2 R3 R4) as Hinv.
  assert (HL : TcpRcvP.zlen (TcpSndP.written x0 ex) < 2^31).
  { change (TcpRcvP.zlen (TcpSndP.written x0 ex)) with (len (TcpSndP.written x0 ex)).
    change (2^30) with 1073741824 in HB. change (2^31) with 2147483648. lia. }
  destruct (TcpRcvP.rcv_reads_prefix2 _ _ [] y0 ey HL Hinv Hok) as (rest & E).
  exists rest. exact E.
Qed.

Lemma from_net_acks x0 ex ey : from_net x0 ex ey -> forall s r, In (ESeg s r) ey -> is_u32 (s_ack s).
Proof.
  intros HN s r Hin. destruct (HN s r Hin) as (f & ts & te & -> & _). cbn [seg_of s_ack].
  unfold is_u32, u32. apply Z.mod_pos_bound. change (2^32) with 4294967296. lia.
Qed.

(* ---------------------------------------------------------------- the closed-system theorem *)
Definition conn_init (issA issB : Z) (a0 b0 : tcp) : Prop :=
  snd_init issA a0 /\ snd_init issB b0 /\ rcv_init issB a0 /\ rcv_init issA b0.

Theorem tcp_stream_prefix issA issB a0 b0 ms :
  conn_init issA issB a0 b0 ->
  let ea := fst (sys_run a0 b0 ms) in
  let eb := snd (sys_run a0 b0 ms) in
  len (TcpSndP.written a0 ea) < 2^30 -> len (TcpSndP.written b0 eb) < 2^30 ->
  (exists rest, concat (TcpRcvP.reads_run b0 eb) ++ rest = TcpSndP.written a0 ea) /\
  (exists rest, concat (TcpRcvP.reads_run a0 ea) ++ rest = TcpSndP.written b0 eb).
Proof.
  intros (SA & SB & RA & RB) ea eb HA HB.
  destruct (sys_from_net a0 b0 ms) as [NA NB]. fold ea eb in NA, NB.
  split.
  - apply (one_direction issA a0 b0 ea eb SA RB NA); [|exact HA].
    exact (from_net_acks b0 eb ea NB).
  - apply (one_direction issB b0 a0 eb ea SB RA NB); [|exact HB].
    exact (from_net_acks a0 ea eb NA).
Qed.

(* "at all times": the statement holds after every prefix of the schedule, because it holds for
   every schedule *)
Corollary tcp_stream_prefix_always issA issB a0 b0 ms k :
  conn_init issA issB a0 b0 ->
  let ms' := firstn k ms in
  let ea := fst (sys_run a0 b0 ms') in
  let eb := snd (sys_run a0 b0 ms') in
  len (TcpSndP.written a0 ea) < 2^30 -> len (TcpSndP.written b0 eb) < 2^30 ->
  (exists rest, concat (TcpRcvP.reads_run b0 eb) ++ rest = TcpSndP.written a0 ea) /\
  (exists rest, concat (TcpRcvP.reads_run a0 ea) ++ rest = TcpSndP.written b0 eb).
Proof. intros H. exact (tcp_stream_prefix issA issB a0 b0 (firstn k ms) H). Qed.

(* ---------------------------------------------------------------- non-vacuity: a concrete connection and schedule *)
Definition fresh (iss irs : Z) : tcp :=
  mkTcp (mkRcvr (u32 (irs + 1)) (u32 (irs + 1 + 65535)) 0 false [] 0 65535)
        (mkSndr 0 false 0 (u32 iss) 0 10 maxInt 0 0 30000 (u32 (iss + 1)) (u32 (iss + 1)) (u32 (iss + 1)) false
                [] [] 0 1000000000 4 0 (u32 (irs + 1)) (u32 (iss + 1)))
        [] 0 65535 false 65535 0 false 0 false [].

Example ex_conn_init : conn_init 4294967290 2147483640 (fresh 4294967290 2147483640) (fresh 2147483640 4294967290).
Proof.
  unfold conn_init, snd_init, rcv_init, TcpSndP.established, fresh, seq_of. cbn.
  repeat split; try reflexivity; lia.
Qed.

(* A writes 10 bytes (MSS 4: three segments, the stream crosses 2^32); the network delivers the third,
   then the first twice, then the second; B reads everything; B writes back and A reads it *)
Definition ex_ms : list move :=
  [MAppA (AWrite [1;2;3;4;5;6;7;8;9;10]); MDeliverB 2 false false 0; MDeliverB 0 false false 0;
   MDeliverB 0 false false 0; MAppB ARead; MDeliverB 1 false false 0; MAppB ARead; MAppB ARead;
   MAppB (AWrite [42;43]); MDeliverA 0 false false 0; MDeliverA 3 false false 0; MAppA ARead].

Example ex_run :
  let a0 := fresh 4294967290 2147483640 in
  let b0 := fresh 2147483640 4294967290 in
  let ea := fst (sys_run a0 b0 ex_ms) in
  let eb := snd (sys_run a0 b0 ex_ms) in
  concat (TcpRcvP.reads_run b0 eb) = [1;2;3;4;5;6;7;8;9;10] /\ TcpSndP.written a0 ea = [1;2;3;4;5;6;7;8;9;10]
  /\ TcpSndP.written b0 eb = [42;43].
Proof. vm_compute. repeat split; reflexivity. Qed.
