(* C04, part 5: the theorems as stated in Properties/C04.v, witnesses and examples. *)
From Coq Require Import ZArith List Bool Lia ZifyBool.
From RecordUpdate Require Import RecordSet.
From NP Require Import Model.Seqnum Model.GoHeap Model.Tcp Proofs.SeqnumP Proofs.TcpWndP Proofs.TcpWndHeapP
  Proofs.TcpWndRcvP Proofs.TcpWndRcv2P Proofs.TcpWndRcv3P.
Import ListNotations RecordSetNotations.
Open Scope Z_scope.

(* ------------------------------------------------------------------ concrete states for examples and witnesses *)
(* an established connection right after the handshake: iss/irs, maxPayload mss (computed by the
   handshake from the peer's MSS option and the route MTU, outside this model), send window shift
   ws, own window shift rws, receive/send buffer sizes, the peer's initial window *)
Definition est (iss irs mss ws rws rbuf sbuf wnd : Z) : tcp :=
  mkTcp (mkRcvr (u32 (irs + 1)) (u32 (irs + 1 + rbuf)) rws false [] 0 rbuf)
        (mkSndr 0 false 0 iss 0 10 maxInt 0 0 wnd (u32 (iss + 1)) (u32 (iss + 1)) (u32 (iss + 1)) false [] [] 0
                1000000000 mss ws (u32 (irs + 1)) (u32 (iss + 1)))
        [] 0 rbuf false sbuf 0 false 0 false [].
Definition ackseg (seq ack wnd : Z) : seg := mkSeg seq ack fAck wnd [] false false.
Definition dataseg (seq ack wnd : Z) (d : list Z) : seg := mkSeg seq ack fAck wnd d false false.
Definition bytes (n : nat) : list Z := map Z.of_nat (seq 0 n).

(* ------------------------------------------------------------------ clause 1: the peer's window *)
(* the bytes of f end at or before una + wnd *)
Definition within_window (una wnd : Z) (f : frame) : Prop :=
  f_data f = [] \/
  (lessThan (f_seq f) (add una wnd) = true /\ len (f_data f) <= size (f_seq f) (add una wnd)).

Lemma frame_ok_within t f : frame_ok t f -> within_window (sndUna (SN t)) (sndWnd (SN t)) f.
Proof. intros [H|(A & B & _)]; [left; exact H|right; split; assumption]. Qed.

Theorem never_beyond_peer_window_sendData t idle : 0 <= maxPayload (SN t) ->
  exists l, out (sendData t idle) = out t ++ l /\
            Forall (within_window (sndUna (SN t)) (sndWnd (SN t))) l /\
            sndUna (SN (sendData t idle)) = sndUna (SN t) /\ sndWnd (SN (sendData t idle)) = sndWnd (SN t).
Proof.
  intros Hm. destruct (sendData_spec t idle Hm) as ((l & O & F) & (U & W & _)).
  exists l. split; [exact O|]. split; [|split; assumption].
  eapply Forall_impl; [|exact F]. intros f. apply frame_ok_within.
Qed.

Theorem never_beyond_peer_window_partial t e : 0 <= maxPayload (SN t) ->
  let t' := fst (step t e) in
  Forall (fun f => within_window (sndUna (SN t')) (sndWnd (SN t')) f \/ fast_rexmit_event t e) (out t').
Proof.
  intros Hm. cbv zeta. destruct (step_frames t e Hm) as (F & _).
  eapply Forall_impl; [|exact F]. intros f [H|H]; [left; apply frame_ok_within; exact H|right; exact H].
Qed.

(* the witness: 5 segments of 100 bytes sent into a window of 1000; the peer then shrinks the window
   to 50 and repeats that ACK; the third duplicate triggers the fast retransmission of the whole
   first segment, 50 bytes beyond the right edge now in force *)
Definition w1_init := est 1000 5000 100 0 0 4096 4096 1000.
Definition w1_events := [EWrite (bytes 500); ESeg (ackseg 5001 1001 50) 0; ESeg (ackseg 5001 1001 50) 0;
                         ESeg (ackseg 5001 1001 50) 0].
Definition w1_last := ESeg (ackseg 5001 1001 50) 0.

Theorem never_beyond_peer_window_refuted :
  exists t0 es e f,
    t0 = w1_init /\
    let t := run t0 es in let t' := fst (step t e) in
    In f (out t') /\ f_data f <> [] /\ fast_rexmit_event t e /\
    ~ within_window (sndUna (SN t')) (sndWnd (SN t')) f.
Proof.
  exists w1_init, w1_events, w1_last, (mkF 1001 5001 (Z.lor fAck fPsh) 4096 (bytes 100)).
  split; [reflexivity|]. cbv zeta. split; [vm_compute; left; reflexivity|]. split; [discriminate|]. split.
  - exists (ackseg 5001 1001 50), 0. split; [reflexivity|]. split; vm_compute; reflexivity.
  - intros [H|(_ & H)]; [discriminate|]. vm_compute in H. apply H. reflexivity.
Qed.

(* ------------------------------------------------------------------ clause 2: segment size *)
Theorem seg_within_mss t e : 0 <= maxPayload (SN t) ->
  let t' := fst (step t e) in
  Forall (fun f => len (f_data f) <= maxPayload (SN t) \/ fast_rexmit_event t e) (out t') /\
  maxPayload (SN t') = maxPayload (SN t).
Proof.
  intros Hm. cbv zeta. destruct (step_frames t e Hm) as (F & (M & _)). split; [|exact M].
  eapply Forall_impl; [|exact F]. intros f [[H|(_ & _ & H)]|H]; [left|left|right; exact H].
  - rewrite H. exact Hm.
  - rewrite <- M. exact H.
Qed.

(* ------------------------------------------------------------------ clause 3: window scaling *)
Theorem window_scaling_applied_in t sg r :
  0 <= maxPayload (SN t) ->
  estate t = stConnected -> has (s_flags sg) fRst = false -> has (s_flags sg) fAck = true ->
  (tsOk t && negb (s_ts sg)) = false ->
  let t' := fst (step t (ESeg sg r)) in
  sndWnd (SN t') = u32 (Z.shiftl (s_wnd sg) (sndWndScale (SN t))) /\ sndWndScale (SN t') = sndWndScale (SN t).
Proof.
  intros Hm He Hr Ha Ht. cbv zeta. unfold step. cbn [fst]. set (t0 := t <| out := [] |>).
  assert (He0 : estate t0 = stConnected) by exact He.
  assert (Ht0 : (tsOk t0 && negb (s_ts sg)) = false) by exact Ht.
  unfold handleSegment. rewrite He0. change (stConnected =? stConnected) with true. cbn [negb].
  rewrite Hr. cbv zeta. rewrite Ha, Ht0.
  pose proof (rcvHandle_ackonly t0 sg) as A. pose proof (ackonly_snd_same _ _ A) as (U&W&M&Sc).
  set (tr := rcvHandle t0 sg) in *.
  destruct (sndHandle_spec tr sg (u32 (Z.shiftl (s_wnd sg) (sndWndScale (SN t0)))) r false) as (_ & M2 & S2 & W2);
    [rewrite M; exact Hm|].
  set (t1 := sndHandle tr sg _ r false) in *.
  assert (A2 : ackonly t1 (loopExit (if negb (rcvNxt (RC t1) =? maxSentAck (SN t1)) then sendAck t1 else t1))).
  { eapply ackonly_trans; [|apply loopExit_ackonly].
    destruct (negb (rcvNxt (RC t1) =? maxSentAck (SN t1))); [apply sendAck_ackonly|apply ackonly_refl]. }
  destruct (ackonly_snd_same _ _ A2) as (_ & W3 & _ & S3).
  split; [rewrite W3; exact W2|rewrite S3, S2, Sc; reflexivity].
Qed.

(* ------------------------------------------------------------------ clauses 3/4/6: what one event advertises *)
(* every frame of an event that is not the RST of a reset carries the clamped, scaled distance
   from its own ack number to a right edge af that only grows and never exceeds the final rcvAcc;
   consecutive advertised edges never move left by 2^s or more (not at all for s = 0); the edge
   advertised last can be read off the resulting state; the advertised window never exceeds the
   free receive buffer space that remains *)
Theorem advertised_window_step b n a t e :
  RInvAt b n a t -> ev_ok e ->
  let s := rcvWndScale (RC t) in let t' := fst (step t e) in
  exists n' a' l r,
    n <= n' /\ a <= a' /\ RInvAt b n' a' t' /\ out t' = l ++ r /\
    (r = [] \/ exists f, r = [f] /\ isReset f /\ estate t' = stError) /\
    monok s (2^s - 1) (adv_edge t) l /\ last_edge s (adv_edge t) l = adv_edge t' /\
    Forall (fun f => exists nf af,
              f_ack f = seq_of b nf /\ f_wnd f = Z.min 65535 (Z.shiftr (af - nf) s) /\
              n <= nf <= af /\ a <= af <= a' /\
              Z.shiftl (f_wnd f) s <= Z.max 0 (rcvBufSize t' - rcvBufUsed t') /\
              (rcvBufSize t' <= rcvBufUsed t' -> f_wnd f = 0)) l.
Proof.
  intros HR He. cbv zeta.
  destruct (rcv_step b n a t e HR He) as (n' & a' & l & r & A1 & A2 & A3 & Asc & A4 & A5 & A6 & A7 & A8).
  assert (Hs : 0 <= rcvWndScale (RC t) <= 14) by (destruct HR as (_&_&_&Q&_); exact Q).
  exists n', a', l, r. repeat (split; [assumption|]).
  eapply Forall_impl; [|exact A8]. intros f (nf & af & B1 & B2 & B3 & B4 & B5).
  exists nf, af. repeat (split; [assumption|]).
  destruct (wnd_of_bounds (af - nf) (rcvWndScale (RC t)) ltac:(lia) ltac:(lia)) as ((W1 & W2) & W3).
  rewrite B2. split; [lia|]. intros Hfull.
  assert (af - nf = 0) by lia. unfold wnd_of. replace (af - nf) with 0 by lia. rewrite Z.shiftr_0_l. reflexivity.
Qed.

(* ------------------------------------------------------------------ clause 4: the advertised right edge along histories *)
Theorem right_edge_monotone_partial b es n a t :
  RInvAt b n a t -> Forall ev_ok es ->
  let s := rcvWndScale (RC t) in
  exists n' a' l r,
    n <= n' /\ a <= a' /\ RInvAt b n' a' (run t es) /\ run_out t es = l ++ r /\
    (r = [] \/ exists f, r = [f] /\ isReset f /\ estate (run t es) = stError) /\
    monok s (2^s - 1) (adv_edge t) l /\
    Forall (fun f => exists nf af, f_ack f = seq_of b nf /\ f_wnd f = Z.min 65535 (Z.shiftr (af - nf) s) /\
                                   n <= nf <= af /\ af <= a') l.
Proof. intros HR He. exact (rcv_run b es n a t HR He). Qed.

Corollary right_edge_monotone_unscaled b es n a t :
  RInvAt b n a t -> Forall ev_ok es -> rcvWndScale (RC t) = 0 ->
  exists l r, run_out t es = l ++ r /\
    (r = [] \/ exists f, r = [f] /\ isReset f /\ estate (run t es) = stError) /\
    monok 0 0 (adv_edge t) l.
Proof.
  intros HR He Hs. destruct (rcv_run b es n a t HR He) as (n' & a' & l & r & _ & _ & _ & A4 & A5 & A6 & _).
  rewrite Hs in A6. exists l, r. repeat split; assumption.
Qed.

(* the witness: window shift 5, 1 MB buffer; the handshake advertised 32768 << 5 from ack 5001;
   after 20 in-order bytes the ACK carries 32767 << 5 from ack 5021: the edge moved 12 to the left *)
Definition w2_init := est 1000 5000 100 0 5 1048576 4096 1000.
Definition w2_event := ESeg (dataseg 5001 1001 1000 (bytes 20)) 0.

Theorem right_edge_monotone_refuted :
  exists b n a t e f,
    t = w2_init /\ RInvAt b n a t /\ ev_ok e /\ out (fst (step t e)) = [f] /\
    lessThan (edge (rcvWndScale (RC t)) f) (adv_edge t) = true /\
    size (edge (rcvWndScale (RC t)) f) (adv_edge t) = 12.
Proof.
  exists 5000, 0, 1048576, w2_init, w2_event, (mkF 1001 5021 fAck 32767 []).
  split; [reflexivity|]. split.
  - unfold RInvAt, PU, P30, P28, P17. vm_compute. repeat split; try reflexivity; try discriminate.
  - split; [vm_compute; discriminate|]. split; [vm_compute; reflexivity|]. split; vm_compute; reflexivity.
Qed.

(* ------------------------------------------------------------------ clause 5 *)
Theorem in_window_accepted_and_delivered t sg r :
  estate t = stConnected -> has (s_flags sg) fRst = false -> has (s_flags sg) fAck = true ->
  (tsOk t && negb (s_ts sg)) = false ->
  rclosed (RC t) = false -> is_u32 (rcvNxt (RC t)) ->
  s_seq sg = rcvNxt (RC t) -> 0 < len (s_data sg) < 2^31 ->
  size (rcvNxt (RC t)) (rcvAcc (RC t)) <> 0 ->
  acceptable (RC t) (s_seq sg) (len (s_data sg)) = true /\
  exists rest, rcvList (fst (step t (ESeg sg r))) = rcvList t ++ [s_data sg] ++ rest.
Proof. exact (inorder_step t sg r). Qed.

Theorem outside_never_delivered t sg r :
  0 < len (s_data sg) ->
  acceptable (RC t) (s_seq sg) (len (s_data sg)) = false \/
  inWindow (rcvNxt (RC t)) (s_seq sg) (len (s_data sg)) = false ->
  rcvList (fst (step t (ESeg sg r))) = rcvList t.
Proof. exact (outside_step t sg r). Qed.

(* in stream offsets: wholly before rcvNxt, or wholly at/after the right edge rcvAcc *)
Theorem outside_never_delivered_offsets b n a o t sg r :
  rcvNxt (RC t) = seq_of b n -> rcvAcc (RC t) = seq_of b a -> s_seq sg = seq_of b o ->
  0 < len (s_data sg) < 2^31 -> n <= a <= n + 2^30 -> - 2^30 <= o - n <= 2^30 ->
  (o + len (s_data sg) <= n \/ a <= o) ->
  rcvList (fst (step t (ESeg sg r))) = rcvList t.
Proof.
  intros Hn Ha Ho Hl Hna Hb Hout. apply outside_step; [lia|]. rewrite Ho.
  eapply wholly_outside; eassumption.
Qed.

(* ------------------------------------------------------------------ clause 6 *)
(* closing: the queued bytes are counted exactly (RInvAt: rcvBufUsed = length of the delivery
   queue), and no frame advertises more than the free space: see advertised_window_step.
   reopening: *)
Theorem window_reopens b n a t v rest :
  RInvAt b n a t -> estate t = stConnected -> rcvList t = v :: rest -> rcvBufUsed t <> 0 ->
  let t1 := t <| rcvList := rest |> <| rcvBufUsed := rcvBufUsed t - len v |> in
  zeroReceiveWindow t = true -> zeroReceiveWindow t1 = false ->
  snd (fst (appRead t)) = Some v /\
  out (fst (fst (appRead t))) =
    out t ++ (if Z.shiftr (u32 (rcvAcc (RC t) - rcvNxt (RC t))) (rcvWndScale (RC t)) =? 0
              then [mkF (sndNxt (SN t)) (rcvNxt (RC t)) fAck
                        (adv_wnd (rcvNxt (RC t)) (newAcc t1) (rcvWndScale (RC t))) []]
              else []) /\
  0 < adv_wnd (rcvNxt (RC t)) (newAcc t1) (rcvWndScale (RC t)).
Proof.
  intros HR He Hv Hu. cbv zeta. intros Hz Hz1.
  destruct (appRead_reopen t v rest He Hv Hu Hz Hz1) as (A & B).
  split; [exact A|]. split; [exact B|]. exact (reopen_nonzero b n a t v rest HR Hv Hz1).
Qed.

(* ------------------------------------------------------------------ the hypotheses are satisfiable *)
Definition ex_rcv := est 1000 5000 100 0 0 300 4096 1000.

Example ex_RInvAt : RInvAt 5000 0 300 ex_rcv.
Proof. unfold RInvAt, PU, P30, P28, P17. vm_compute. repeat split; try reflexivity; discriminate. Qed.

Example ex_events_ok : Forall ev_ok [ESeg (dataseg 5001 1001 1000 (bytes 100)) 0; ERead; EWrite (bytes 250)].
Proof. repeat constructor; vm_compute; discriminate. Qed.

(* three in-order segments of 100 bytes fill the 300-byte buffer: the window closes ... *)
Definition ex_fill := [ESeg (dataseg 5001 1001 1000 (bytes 100)) 0; ESeg (dataseg 5101 1001 1000 (bytes 100)) 0;
                       ESeg (dataseg 5201 1001 1000 (bytes 100)) 0].
Example ex_window_closes :
  map (fun f => (f_ack f, f_wnd f)) (run_out ex_rcv ex_fill) = [(5101, 200); (5201, 100); (5301, 0)] /\
  zeroReceiveWindow (run ex_rcv ex_fill) = true.
Proof. vm_compute. split; reflexivity. Qed.
(* ... and the first read reopens it with a window update *)
Example ex_window_reopens :
  let t := run ex_rcv ex_fill in
  map (fun f => (f_ack f, f_wnd f)) (out (fst (step t ERead))) = [(5301, 100)].
Proof. vm_compute. reflexivity. Qed.

Example ex_inorder :
  let sg := dataseg 5001 1001 1000 (bytes 100) in
  estate ex_rcv = stConnected /\ has (s_flags sg) fRst = false /\ has (s_flags sg) fAck = true /\
  (tsOk ex_rcv && negb (s_ts sg)) = false /\ rclosed (RC ex_rcv) = false /\ is_u32 (rcvNxt (RC ex_rcv)) /\
  s_seq sg = rcvNxt (RC ex_rcv) /\ 0 < len (s_data sg) < 2^31 /\
  size (rcvNxt (RC ex_rcv)) (rcvAcc (RC ex_rcv)) <> 0.
Proof. vm_compute. repeat split; try reflexivity; discriminate. Qed.

Example ex_outside :
  let sg := dataseg 5301 1001 1000 (bytes 100) in    (* wholly at the right edge 5001 + 300 *)
  0 < len (s_data sg) /\ inWindow (rcvNxt (RC ex_rcv)) (s_seq sg) (len (s_data sg)) = false /\
  acceptable (RC ex_rcv) (s_seq sg) (len (s_data sg)) = false.
Proof. vm_compute. repeat split; reflexivity. Qed.

Example ex_sender : 0 <= maxPayload (SN ex_rcv) /\
  map (fun f => (f_seq f, len (f_data f))) (out (fst (step ex_rcv (EWrite (bytes 250))))) =
  [(1001, 100); (1101, 100); (1201, 50)].
Proof. vm_compute. split; [discriminate|reflexivity]. Qed.

(* a window-limited send: 250 bytes into a window of 120 *)
Example ex_window_limited :
  map (fun f => (f_seq f, len (f_data f)))
      (out (fst (step (est 1000 5000 100 0 0 300 4096 120) (EWrite (bytes 250))))) = [(1001, 100); (1101, 20)].
Proof. vm_compute. reflexivity. Qed.

Example ex_scaling_in :
  sndWnd (SN (fst (step (est 1000 5000 100 3 0 300 4096 120) (ESeg (ackseg 5001 1001 50) 0)))) = 400.
Proof. vm_compute. reflexivity. Qed.
