(* Bounded-domain evaluation, connection 2 (see Proofs/TcpSysLiveBaseP.v, Proofs/TcpSysLiveP.v): every
   scenario of [scens cfg2] x every SINGLE packet of the loss-free exchange dropped, pumped on the
   model inside the kernel's VM. *)
From Coq Require Import ZArith List Bool.
From NP Require Import Model.Seqnum Model.Tcp Model.TcpHs Model.TcpEst Proofs.TcpNetP Model.TcpSys Proofs.TcpSysLiveBaseP.
Import ListNotations.
Open Scope Z_scope.

Lemma all_singles_ok_cfg2 : forallb (fun b => forallb (run_ok cfg2 b) (singles cfg2 b)) (scens cfg2) = true.
Proof. vm_cast_no_check (eq_refl true). Qed.
