(* C05, timing clause "a segment is retransmitted by timeout never sooner than 200 ms after its
   previous transmission".  Model.Tcp has no clock (an expiry is an event).  Here the event
   history is given time stamps and the resend timer a deadline, following timer.go/snd.go:
     - sendData calls resendTimer.enable(rto) iff the timer is not enabled at that moment;
     - the timer is taken out of the enabled state only by a real expiry (checkExpiration) or by
       an ACK that acknowledges new data (resendTimer.disable() in handleRcvdSegment);
     - an expiry can only be delivered when the deadline has passed.
   What holds (partial): an expiry never comes sooner than 200 ms after the (re)ARMING of the timer.
   What fails (refuted, finding F11): the fast retransmit does not re-arm, so the time-out
   retransmission of a segment can follow its fast retransmission by less than 200 ms. *)
From Coq Require Import ZArith List Bool Lia ZifyBool.
From NP Require Import Model.Seqnum Model.GoHeap Model.Tcp Proofs.TcpCcP Proofs.TcpCcInvP Proofs.TcpCcRtoP
                       Proofs.TcpCcExP.
Import ListNotations.
Open Scope Z_scope.

Record clock := mkClk { armT : Z; dl : Z }.

(* does this step (re-)arm the timer? *)
Definition rearms (t : tcp) (e : event) : bool :=
  (tstate (SN (fst (step t e))) =? tEnabled) &&
  (negb (tstate (SN t) =? tEnabled) ||
   match e with
   | ERto => (estate t =? stConnected)
   | ESeg sg _ => processed t sg && inRange (u32 (s_ack sg - 1)) (sndUna (SN t)) (sndNxt (SN t))
   | _ => false
   end).

Definition cstep (now : Z) (t : tcp) (e : event) (c : clock) : clock :=
  if rearms t e then mkClk now (now + rto (SN (fst (step t e)))) else c.

Definition liveb (t : tcp) : bool := (estate t =? stConnected) && (tstate (SN t) =? tEnabled).

(* an expiry can be delivered at [now] only if the deadline has passed *)
Definition legal (now : Z) (t : tcp) (e : event) (c : clock) : bool :=
  match e with ERto => if liveb t then dl c <=? now else true | _ => true end.

(* every real expiry of the history comes at least 200 ms after the last arming *)
Fixpoint expiries_ok (t : tcp) (c : clock) (es : list (Z * event)) : bool :=
  match es with
  | [] => true
  | (now, e) :: r =>
      (match e with ERto => if liveb t then armT c + minRTO <=? now else true | _ => true end) &&
      expiries_ok (fst (step t e)) (cstep now t e c) r
  end.

Fixpoint legal_run (t : tcp) (c : clock) (es : list (Z * event)) : bool :=
  match es with
  | [] => true
  | (now, e) :: r => legal now t e c && legal_run (fst (step t e)) (cstep now t e c) r
  end.

Definition armed_ok (t : tcp) (c : clock) : Prop :=
  tstate (SN t) = tEnabled -> armT c + minRTO <= dl c.

Lemma expiry_after_arming es : forall t c g,
  CC (SN t) (bnd g) -> armed_ok t c -> legal_run t c es = true -> expiries_ok t c es = true.
Proof.
  induction es as [|[now e] r IH]; intros t c g HC HA HL; [reflexivity|].
  cbn [legal_run expiries_ok] in *. apply andb_true_iff in HL. destruct HL as (L1 & L2).
  apply andb_true_iff. split.
  - destruct e; try reflexivity. unfold legal in L1. destruct (liveb t) eqn:LV; [|reflexivity].
    unfold liveb in LV. apply andb_true_iff in LV. destruct LV as (_ & TE).
    unfold armed_ok in HA. specialize (HA ltac:(lia)). lia.
  - apply (IH _ _ (gstep t e g)); [apply step_CC; exact HC| |exact L2].
    pose proof (step_CC t e g HC) as HC'.
    unfold armed_ok, cstep. intros TE'. destruct (rearms t e) eqn:RA.
    + cbn [armT dl]. unfold CC in HC'. lia.
    + unfold rearms in RA. rewrite TE' in RA. rewrite Z.eqb_refl in RA. cbn [andb] in RA.
      apply orb_false_iff in RA. destruct RA as (RA & _). apply negb_false_iff in RA.
      apply HA. lia.
Qed.

(* ---- F11: the witness ---- *)
Definition exF : tcp :=
  mkTcp exR (mkSndr 0 false 0 999 0 10 maxInt 0 0 30000 1000 1000 1000 false [] [] 0 minRTO 10 0 5000 1000)
        [] 0 65536 false 65536 0 false 0 false [].
Definition ms (x : Z) : Z := x * 1000000.
Definition dupF := ESeg (mkSeg 5000 1000 fAck 30000 [] false true) minRTO.
Definition histF : list (Z * event) := [(ms 0, wr); (ms 150, dupF); (ms 151, dupF); (ms 152, dupF); (ms 201, ERto)].

Fixpoint trun (t : tcp) (c : clock) (es : list (Z * event)) : tcp * clock :=
  match es with [] => (t, c) | (now, e) :: r => trun (fst (step t e)) (cstep now t e c) r end.

(* seq numbers of the data frames of a step *)
Definition dseqs (t : tcp) : list Z := map f_seq (filter isData (out t)).

Lemma rto_after_fast_retransmit_refuted :
  exists t c es,
    cwnd (SN t) = InitialCwnd /\ ssthresh (SN t) = maxInt /\ outstanding (SN t) = 0 /\ frActive (SN t) = false /\
    rto (SN t) = minRTO /\
    legal_run t c es = true /\ expiries_ok t c es = true /\
    (* the 4th event (t = 152 ms) is the third duplicate ACK: fast retransmission of seq 1000 *)
    third_dupack (fst (trun t c (firstn 3 es))) (mkSeg 5000 1000 fAck 30000 [] false true) /\
    dseqs (fst (trun t c (firstn 4 es))) = [1000] /\
    (* the 5th event (t = 201 ms) is a legal expiry: time-out retransmission of the same segment *)
    nth 4 es (0, ERead) = (ms 201, ERto) /\ liveb (fst (trun t c (firstn 4 es))) = true /\
    dseqs (fst (trun t c es)) = [1000] /\
    ms 201 - ms 152 < minRTO.
Proof.
  exists exF, (mkClk 0 0), histF. unfold third_dupack.
  vm_compute. repeat split; discriminate.
Qed.
