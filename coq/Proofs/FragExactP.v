(* Exact reassembly through Fragmentation.Process, the timeout results, the ipv4 call site and the
   fragment key. *)
From Coq Require Import ZArith Bool List Lia Permutation ZifyBool.
From NP Require Import Model.Frag Proofs.FragListP Proofs.FragHeapP Proofs.FragHolesP Proofs.FragReasmP
  Proofs.FragP Proofs.FragTopP.
Import ListNotations.
Open Scope Z_scope.

Definition dout : list Z * bool * bool := ([], false, false).

Lemma tooOld_ctime : forall r r' now t, r_ctime r' = r_ctime r -> tooOld r' now t = tooOld r now t.
Proof. intros. unfold tooOld. now rewrite H. Qed.

Lemma acquired_some : forall f id now r, lookup id (f_rs f) = Some r ->
  tooOld r now (f_timeout f) = false -> acquired f id now = r.
Proof. intros f id now r El Eo. unfold acquired. now rewrite El, Eo. Qed.

(* As long as the reassembler stored under id neither delivers nor fails, is not expired and the
   memory limit is not reached, Process returns what reassembler.process returns. *)
Lemma bridge : forall id cs f r,
  FInv f -> Forall call_ok cs -> Forall (fun c => c_id c = id) cs ->
  lookup id (f_rs f) = Some r ->
  Forall (fun c => tooOld r (c_now c) (f_timeout f) = false) cs ->
  f_size f + bytes_in cs <= f_high f ->
  forall k, (k < length cs)%nat ->
    (forall j, (j < k)%nat ->
       p_done (nth j (run_r r (map frag_in cs)) dpres) = false /\
       p_err (nth j (run_r r (map frag_in cs)) dpres) = false) ->
    nth k (snd (run f cs)) dout = conv (nth k (run_r r (map frag_in cs)) dpres).
Proof.
  intros id. induction cs as [|c t IH]; intros f r I Hok Hid El Hold Hb k Hk Hbefore; [simpl in Hk; lia|].
  inversion Hok as [|? ? Hc Hokt]; subst. inversion Hid as [|? ? Hidc Hidt]; subst.
  inversion Hold as [|? ? Holdc Holdt]; subst.
  rewrite bytes_in_cons in Hb. pose proof (bytes_in_nonneg t) as Hn.
  cbn [run map run_r]. cbn [frag_in i_first i_last i_more i_pl].
  destruct (step f c) as [f' o] eqn:Es.
  destruct (step_spec f c f' o I Hc Es) as (Eo & _ & I' & Eh & _ & Et & Sz & Cz & _ & _ & NoEv).
  rewrite (acquired_some _ _ _ _ El Holdc) in *.
  destruct (rprocess r (c_first c) (c_last c) (c_more c) (c_pl c)) as [r' po] eqn:Ep.
  cbn [fst snd] in *.
  destruct (run f' t) as [f'' os] eqn:Er. cbn [snd].
  destruct k as [|k]; [cbn [nth]; exact Eo|].
  cbn [nth].
  destruct (Hbefore 0%nat ltac:(lia)) as [Hd He].
  cbn [map run_r frag_in i_first i_last i_more i_pl] in Hd, He. rewrite Ep in Hd, He. cbn [nth] in Hd, He.
  destruct (NoEv ltac:(lia)) as [_ Lk]. rewrite Hd, He in Lk. cbn [orb] in Lk.
  assert (Wr : RWf r).
  { destruct (lookup_some _ _ _ El) as [Hin _]. pose proof (fi_wf _ I) as Hwf. rewrite Forall_forall in Hwf. auto. }
  destruct Hc as [Hf Hl].
  destruct (rprocess_wf r _ _ _ _ r' po Wr Hf Hl Ep) as (_ & _ & _ & Pct & _).
  specialize (IH f' r' I' Hokt Hidt Lk).
  rewrite Er in IH. cbn [snd] in IH. apply IH.
  - rewrite Forall_forall in *. intros x Hx. rewrite Et. rewrite (tooOld_ctime r r'); auto.
  - lia.
  - simpl in Hk. lia.
  - intros j Hj. specialize (Hbefore (S j) ltac:(lia)).
    cbn [map run_r frag_in i_first i_last i_more i_pl] in Hbefore. rewrite Ep in Hbefore. exact Hbefore.
Qed.

(* a call on an id that has no reassembler behaves like a call on the state in which the fresh
   reassembler is already there *)
Lemma step_fresh : forall f c, lookup (c_id c) (f_rs f) = None -> 0 <= f_timeout f ->
  step f c = step (with_rs f (newReassembler (c_id c) (c_now c) :: f_rs f)) c.
Proof.
  intros f c El Ht. unfold step. rewrite !fprocess_unfold.
  assert (E1 : acquire f (c_id c) (c_now c) =
               (with_rs f (newReassembler (c_id c) (c_now c) :: f_rs f), newReassembler (c_id c) (c_now c))).
  { unfold acquire. rewrite El. reflexivity. }
  assert (E2 : acquire (with_rs f (newReassembler (c_id c) (c_now c) :: f_rs f)) (c_id c) (c_now c) =
               (with_rs f (newReassembler (c_id c) (c_now c) :: f_rs f), newReassembler (c_id c) (c_now c))).
  { assert (Eold : tooOld (newReassembler (c_id c) (c_now c)) (c_now c) (f_timeout f) = false).
    { unfold tooOld, newReassembler. cbn [r_ctime].
      destruct (Z.ltb_spec (f_timeout f) (c_now c - c_now c)); [lia|reflexivity]. }
    unfold acquire. cbn [with_rs f_rs lookup f_timeout].
    change (r_id (newReassembler (c_id c) (c_now c))) with (c_id c).
    rewrite Z.eqb_refl, Eold. reflexivity. }
  rewrite E1, E2. reflexivity.
Qed.

(* ------------------------------------------------------------------ main theorem, through Process *)
(* D any datagram payload of 1..65535 bytes (the IPv4 maximum is 65515); cs any finite sequence of
   calls on one id whose arguments are fragments of D (frag_of: 8-aligned first, bytes
   D[first..last], more <-> last < |D|-1; duplicates, overlaps, any order), made on a state that
   has no reassembler for this id (e.g. a fresh Fragmentation; other datagrams may be in
   progress), all within the reassembly timeout of the first one, the memory limit not reached.
   Then the k-th call returns (D, done) if the fragments of calls 0..k cover [0,|D|) and nothing
   otherwise - for every k up to and including the first covering one. *)
Theorem reassembly_exact : forall D id f cs,
  1 <= zlen D <= 65535 ->
  FInv f -> lookup id (f_rs f) = None ->
  Forall (fun c => c_id c = id /\ frag_of D (frag_in c)) cs ->
  (forall c0, hd_error cs = Some c0 -> Forall (fun c => c_now c - c_now c0 <= f_timeout f) cs) ->
  f_size f + bytes_in cs <= f_high f ->
  forall k, (k < length cs)%nat ->
    (forall j, (j < k)%nat -> ~ covers (firstn (S j) (map frag_in cs)) (zlen D)) ->
    (covers (firstn (S k) (map frag_in cs)) (zlen D) -> nth k (snd (run f cs)) dout = (D, true, false)) /\
    (~ covers (firstn (S k) (map frag_in cs)) (zlen D) -> nth k (snd (run f cs)) dout = ([], false, false)).
Proof.
  intros D id f cs Hn I El Hall Htime Hb k Hk Hbefore.
  destruct cs as [|c0 t]; [simpl in Hk; lia|].
  specialize (Htime c0 eq_refl).
  assert (Hid : Forall (fun c => c_id c = id) (c0 :: t)).
  { rewrite Forall_forall in *. intros x Hx. apply (Hall x Hx). }
  assert (Hfr : Forall (frag_of D) (map frag_in (c0 :: t))).
  { rewrite Forall_forall in *. intros x Hx. apply in_map_iff in Hx. destruct Hx as [c [<- Hc]]. apply (Hall c Hc). }
  assert (Hok : Forall call_ok (c0 :: t)).
  { rewrite Forall_forall in *. intros x Hx. destruct (Hall x Hx) as [_ (A & _ & B & C & _)].
    cbn [frag_in i_first i_last] in *. unfold call_ok, u16_range. lia. }
  assert (Hid0 : c_id c0 = id) by (inversion Hid; auto).
  assert (Ht0 : 0 <= f_timeout f).
  { inversion Htime as [|? ? H0 _]; subst. lia. }
  set (r0 := newReassembler id (c_now c0)).
  set (f1 := with_rs f (r0 :: f_rs f)).
  assert (Erun : run f (c0 :: t) = run f1 (c0 :: t)).
  { cbn [run]. rewrite step_fresh by (rewrite ?Hid0; auto). rewrite Hid0. reflexivity. }
  rewrite Erun.
  assert (I1 : FInv f1) by (apply FInv_push_new; auto).
  assert (Lk1 : lookup id (f_rs f1) = Some r0).
  { unfold f1, r0. cbn [with_rs f_rs lookup newReassembler r_id]. now rewrite Z.eqb_refl. }
  pose proof (run_r_spec D Hn (map frag_in (c0 :: t)) r0 [] (RInv_new D Hn id (c_now c0)) Hfr) as Hspec.
  cbn [app] in Hspec.
  assert (Hlen : length (map frag_in (c0 :: t)) = length (c0 :: t)) by apply map_length.
  rewrite (bridge id (c0 :: t) f1 r0 I1 Hok Hid Lk1); auto.
  - destruct (Hspec k ltac:(lia) Hbefore) as (P1 & P2 & Pc & Pn).
    unfold conv. split.
    + intros Hc. destruct (Pc Hc) as [-> ->]. reflexivity.
    + intros Hc. destruct (Pn Hc) as [-> ->]. reflexivity.
  - rewrite Forall_forall in *. intros x Hx. specialize (Htime x Hx).
    unfold tooOld, r0, f1. cbn [newReassembler r_ctime with_rs f_timeout].
    destruct (Z.ltb_spec (f_timeout f) (c_now x - c_now c0)); [lia|reflexivity].
  - intros j Hj.
    destruct (Hspec j ltac:(lia) ltac:(intros j' Hj'; apply Hbefore; lia)) as (P1 & P2 & Pc & Pn).
    split; [|exact P2]. apply Pn. apply Hbefore. auto.
Qed.

Lemma in_firstn : forall A (l : list A) n x, In x (firstn n l) -> In x l.
Proof.
  induction l as [|a t IH]; intros [|n] x H; simpl in H; try contradiction.
  destruct H as [->|H]; [now left|right; eauto].
Qed.

(* incomplete sets deliver nothing: if the fragments never cover the datagram, every call returns
   nothing *)
Theorem incomplete_returns_nothing : forall D id f cs,
  1 <= zlen D <= 65535 ->
  FInv f -> lookup id (f_rs f) = None ->
  Forall (fun c => c_id c = id /\ frag_of D (frag_in c)) cs ->
  (forall c0, hd_error cs = Some c0 -> Forall (fun c => c_now c - c_now c0 <= f_timeout f) cs) ->
  f_size f + bytes_in cs <= f_high f ->
  ~ covers (map frag_in cs) (zlen D) ->
  forall k, (k < length cs)%nat -> nth k (snd (run f cs)) dout = ([], false, false).
Proof.
  intros D id f cs Hn I El Hall Htime Hb Hnc k Hk.
  assert (Hmono : forall j, ~ covers (firstn (S j) (map frag_in cs)) (zlen D)).
  { intros j Hc. apply Hnc. intros x Hx. destruct (Hc x Hx) as [g [Hin Hg]].
    exists g. split; auto. eapply in_firstn; eauto. }
  apply (reassembly_exact D id f cs Hn I El Hall Htime Hb k Hk); auto.
Qed.

(* several datagrams interleaved: each id gets its own exact reassembly.  cs is ANY history on a
   fresh Fragmentation that stays below the memory limit; if the calls on id i are fragments of D
   made within the timeout of the first of them, then the outputs of those calls are as in
   reassembly_exact for the sequence of calls on i alone. *)
Theorem reassembly_exact_interleaved : forall D i high low timeout cs,
  1 <= zlen D <= 65535 ->
  Forall call_ok cs -> bytes_in cs <= high ->
  let ci := filter (on_id i) cs in
  Forall (fun c => frag_of D (frag_in c)) ci ->
  (forall c0, hd_error ci = Some c0 -> Forall (fun c => c_now c - c_now c0 <= timeout) ci) ->
  let outs := outs_of i cs (snd (run (newFragmentation high low timeout) cs)) in
  forall k, (k < length ci)%nat ->
    (forall j, (j < k)%nat -> ~ covers (firstn (S j) (map frag_in ci)) (zlen D)) ->
    (covers (firstn (S k) (map frag_in ci)) (zlen D) -> nth k outs dout = (D, true, false)) /\
    (~ covers (firstn (S k) (map frag_in ci)) (zlen D) -> nth k outs dout = ([], false, false)).
Proof.
  intros D i high low timeout cs Hn Hok Hb ci Hfr Htime outs k Hk Hbefore.
  unfold outs. rewrite (ids_isolated i high low timeout cs Hok Hb). fold ci.
  apply (reassembly_exact D i (newFragmentation high low timeout) ci Hn); auto using FInv_new.
  - rewrite Forall_forall in *. intros x Hx. split; [|auto].
    unfold ci in Hx. apply filter_In in Hx. destruct Hx as [_ Hx]. unfold on_id in Hx. lia.
  - cbn [newFragmentation f_size f_high]. pose proof (bytes_in_filter i cs). fold ci in H. lia.
Qed.

(* ------------------------------------------------------------------ timeouts *)
(* a fragment arriving more than the timeout after the creation of the reassembler stored under
   its id is processed by a FRESH reassembler: what was stored plays no role in what is returned *)
Theorem timeout_discards : forall f c r0 f' out, FInv f -> call_ok c ->
  lookup (c_id c) (f_rs f) = Some r0 -> f_timeout f < c_now c - r_ctime r0 ->
  step f c = (f', out) ->
  out = conv (snd (rprocess (newReassembler (c_id c) (c_now c)) (c_first c) (c_last c) (c_more c) (c_pl c))).
Proof.
  intros f c r0 f' out I Hc El Hold Es.
  destruct (step_spec f c f' out I Hc Es) as (Eo & _).
  assert (Ea : acquired f (c_id c) (c_now c) = newReassembler (c_id c) (c_now c)).
  { unfold acquired. rewrite El. unfold tooOld.
    destruct (Z.ltb_spec (f_timeout f) (c_now c - r_ctime r0)); [reflexivity|lia]. }
  rewrite Ea in Eo. exact Eo.
Qed.

(* provenance: every fragment held by a reassembler was passed by a call of the history on the
   same id, no later than the timeout after the reassembler's creation, and the reassembler was
   created by a call of the history on that id (its first fragment) *)
Definition from_hist (hist : list call) (id t0 timeout : Z) (it : frag) : Prop :=
  exists c, In c hist /\ c_id c = id /\ c_first c = fr_off it /\ c_pl c = fr_pl it /\ c_now c - t0 <= timeout.
Definition created_by (hist : list call) (id t0 : Z) : Prop :=
  exists c0, In c0 hist /\ c_id c0 = id /\ c_now c0 = t0.
Definition ProvR (hist : list call) (timeout : Z) (r : reasm) : Prop :=
  created_by hist (r_id r) (r_ctime r) /\
  forall it, In it (r_heap r) -> from_hist hist (r_id r) (r_ctime r) timeout it.
Definition Prov (hist : list call) (f : fstate) : Prop :=
  forall r, In r (f_rs f) -> ProvR hist (f_timeout f) r.

Lemma ProvR_mono : forall hist c timeout r, ProvR hist timeout r -> ProvR (hist ++ [c]) timeout r.
Proof.
  intros hist c timeout r [[c0 [Hin0 H0]] Hh]. split.
  - exists c0. split; [apply in_or_app; now left|auto].
  - intros it Hit. destruct (Hh it Hit) as [c' [Hin' H']]. exists c'. split; [apply in_or_app; now left|auto].
Qed.

Lemma prov_step : forall hist f c f' out, FInv f -> 0 <= f_timeout f -> Prov hist f -> call_ok c ->
  step f c = (f', out) ->
  Prov (hist ++ [c]) f' /\
  (snd (fst out) = true ->
     exists t0 H, fst (reassemble H) = ROk (fst (fst out)) /\
       created_by (hist ++ [c]) (c_id c) t0 /\
       forall it, In it H -> from_hist (hist ++ [c]) (c_id c) t0 (f_timeout f) it).
Proof.
  intros hist f c f' out I Ht P Hc Es.
  destruct (step_spec f c f' out I Hc Es) as (Eo & _ & I' & _ & _ & Et & _ & _ & In' & _).
  set (r := acquired f (c_id c) (c_now c)) in *.
  destruct (rprocess r (c_first c) (c_last c) (c_more c) (c_pl c)) as [r' po] eqn:Ep.
  cbn [fst snd] in *.
  assert (Hin_c : In c (hist ++ [c])) by (apply in_or_app; right; now left).
  (* the reassembler the call works on *)
  assert (Pr : ProvR (hist ++ [c]) (f_timeout f) r /\ r_id r = c_id c /\ c_now c - r_ctime r <= f_timeout f /\ RWf r).
  { unfold r, acquired. destruct (lookup (c_id c) (f_rs f)) as [r0|] eqn:El.
    - destruct (lookup_some _ _ _ El) as [Hin0 Hid0].
      unfold tooOld. destruct (Z.ltb_spec (f_timeout f) (c_now c - r_ctime r0)) as [Hold|Hyoung].
      + split; [|cbn; split; [reflexivity|split; [lia|apply RWf_new]]].
        split; [exists c; cbn; auto|]. intros it [].
      + split; [apply ProvR_mono; apply P; auto|]. split; [auto|]. split; [lia|].
        pose proof (fi_wf _ I) as Hwf. rewrite Forall_forall in Hwf. auto.
    - split; [|cbn; split; [reflexivity|split; [lia|apply RWf_new]]].
      split; [exists c; cbn; auto|]. intros it []. }
  destruct Pr as (Pr & Rid & Ryoung & Wr).
  destruct Hc as [Hf Hl].
  destruct (rprocess_wf r _ _ _ _ r' po Wr Hf Hl Ep) as (_ & _ & Pid & Pct & _ & _ & _ & _ & Pwf & Pdone).
  assert (Hnew : from_hist (hist ++ [c]) (r_id r) (r_ctime r) (f_timeout f) (mkFrag (c_first c) (c_pl c))).
  { exists c. cbn. repeat split; auto. }
  split.
  - intros x Hx. rewrite Et.
    destruct (In' x Hx) as [(-> & Hd & He)|[->|Hx0]].
    + destruct (Pwf Hd He) as [_ Hheap]. destruct Pr as [Pc Ph]. split.
      * rewrite Pid, Pct. exact Pc.
      * intros it Hit. rewrite Pid, Pct. destruct (Hheap it Hit) as [->|Hit0]; [exact Hnew|auto].
    + exact Pr.
    + apply ProvR_mono. apply P. auto.
  - intros Hd. rewrite Eo in Hd. cbn [conv fst snd] in Hd.
    destruct (Pdone Hd) as [H [HR Hitems]].
    exists (r_ctime r), H. rewrite Eo. cbn [conv fst snd]. split; [exact HR|].
    destruct Pr as [Pc Ph]. rewrite <- Rid. split; [exact Pc|].
    intros it Hit. destruct (Hitems it Hit) as [->|Hit0]; [exact Hnew|auto].
Qed.

(* the state reached by a history, with the history itself *)
Lemma prov_run : forall cs hist f, FInv f -> 0 <= f_timeout f -> Prov hist f -> Forall call_ok cs ->
  Prov (hist ++ cs) (fst (run f cs)) /\ FInv (fst (run f cs)) /\ f_timeout (fst (run f cs)) = f_timeout f.
Proof.
  induction cs as [|c t IH]; intros hist f I Ht P Hok.
  - cbn [run fst]. rewrite app_nil_r. auto.
  - inversion Hok as [|? ? Hc Hokt]; subst. cbn [run].
    destruct (step f c) as [f' o] eqn:Es.
    destruct (prov_step hist f c f' o I Ht P Hc Es) as [P' _].
    destruct (step_spec f c f' o I Hc Es) as (_ & _ & I' & _ & _ & Et & _).
    destruct (IH (hist ++ [c]) f' I' ltac:(lia) P' Hokt) as (P'' & I'' & Et'').
    destruct (run f' t) as [f'' os]. cbn [fst] in *.
    rewrite <- app_assoc in P''. cbn [app] in P''. split; [exact P''|]. split; [exact I''|lia].
Qed.

(* no returned datagram combines fragments further apart than the timeout from its first
   fragment: whatever the history cs on a fresh Fragmentation, if the next call c returns a
   datagram then it is the reassembly of a set H of stored fragments, each passed by a call on the
   same id at most [timeout] after the call that created the reassembler *)
Theorem timeout_separates : forall high low timeout cs c, 0 <= timeout ->
  Forall call_ok cs -> call_ok c ->
  let f := fst (run (newFragmentation high low timeout) cs) in
  forall f' res done p, step f c = (f', (res, done, p)) -> done = true ->
  exists t0 H, fst (reassemble H) = ROk res /\
    created_by (cs ++ [c]) (c_id c) t0 /\
    forall it, In it H -> from_hist (cs ++ [c]) (c_id c) t0 timeout it.
Proof.
  intros high low timeout cs c Ht Hok Hc f f' res done p Es Hd.
  destruct (prov_run cs [] (newFragmentation high low timeout) (FInv_new _ _ _) Ht) as (P & I & Et); auto.
  { intros r []. }
  fold f in P, I, Et. cbn [app] in P.
  destruct (prov_step cs f c f' (res, done, p) I ltac:(cbn in *; lia) P Hc Es) as [_ Hdel].
  cbn [fst snd] in Hdel. specialize (Hdel Hd). cbn [newFragmentation f_timeout] in Et. rewrite Et in Hdel. exact Hdel.
Qed.

(* ------------------------------------------------------------------ ipv4.HandlePacket call site *)
(* a fragment carrying len >= 1 bytes at offset fo of a datagram payload D (|D| <= 65535): the call
   site computes last = fo + len - 1 without wrap and passes a fragment of D *)
Theorem ipv4_frag_args_spec : forall D fo len,
  zlen D <= 65535 -> 0 <= fo -> fo mod 8 = 0 -> 1 <= len -> fo + len <= zlen D ->
  let pl := slice D fo len in
  let more := fo + len <? zlen D in
  (more = true \/ fo <> 0) ->
  ipv4_frag_args fo more pl = Some (fo, fo + len - 1, more, pl) /\
  frag_of D (mkIn fo (fo + len - 1) more pl).
Proof.
  intros D fo len HD Hfo H8 Hlen Hend pl more Hfrag.
  assert (Hpl : zlen pl = len) by (apply zlen_slice; lia).
  unfold ipv4_frag_args. rewrite Hpl.
  assert (Hc : more || negb (fo =? 0) = true) by (destruct Hfrag as [->|Hne]; [reflexivity|]; destruct more; cbn; lia).
  rewrite Hc. split.
  - rewrite (u16_id len) by lia. rewrite (u16_id (fo + len)) by lia. rewrite u16_id by lia. reflexivity.
  - unfold frag_of. cbn [i_first i_last i_more i_pl]. repeat split; try lia.
    unfold pl. f_equal. lia.
Qed.

(* an EMPTY fragment at offset 8 with MF=1 reaches Process as first = 8, last = 7: the inconsistent
   input of process_error_reachable is reachable from the wire *)
Theorem ipv4_empty_fragment : ipv4_frag_args 8 true [] = Some (8, 7, true, []).
Proof. reflexivity. Qed.

(* ------------------------------------------------------------------ the fragment key *)
Lemma hash3words_range : forall a b c iv, 0 <= hash3words a b c iv < 2^32.
Proof.
  intros. unfold hash3words, mixstep, u32. apply Z.mod_pos_bound. reflexivity.
Qed.

(* headers that agree on identification, protocol, source and destination get the same key,
   whatever else they contain *)
Theorem key_respects_tuple : forall iv h1 h2,
  (forall i, In i [4; 5; 9; 12; 13; 14; 15; 16; 17; 18; 19]%nat -> byte_at h1 i = byte_at h2 i) ->
  ipv4FragmentHash iv h1 = ipv4FragmentHash iv h2.
Proof.
  intros iv h1 h2 H. unfold ipv4FragmentHash, ipv4_id, ipv4_proto, le32. cbn [Nat.add].
  rewrite !(H 4%nat), !(H 5%nat), !(H 9%nat), !(H 12%nat), !(H 13%nat), !(H 14%nat), !(H 15%nat),
    !(H 16%nat), !(H 17%nat), !(H 18%nat), !(H 19%nat) by (cbn; tauto).
  reflexivity.
Qed.

Theorem key_range : forall iv h, 0 <= ipv4FragmentHash iv h < 2^32.
Proof. intros. apply hash3words_range. Qed.

(* ------------------------------------------------------------------ reassembler level, fresh *)
Theorem reassembly_exact_reassembler : forall D id now fs,
  1 <= zlen D <= 65535 -> Forall (frag_of D) fs ->
  forall k, (k < length fs)%nat ->
    (forall j, (j < k)%nat -> ~ covers (firstn (S j) fs) (zlen D)) ->
    let o := nth k (run_r (newReassembler id now) fs) dpres in
    p_panic o = false /\ p_err o = false /\
    (covers (firstn (S k) fs) (zlen D) -> p_done o = true /\ p_res o = D) /\
    (~ covers (firstn (S k) fs) (zlen D) -> p_done o = false /\ p_res o = []).
Proof.
  intros D id now fs Hn Hall k Hk Hb.
  apply (run_r_spec D Hn fs (newReassembler id now) [] (RInv_new D Hn id now) Hall k Hk Hb).
Qed.

(* ------------------------------------------------------------------ the hypotheses are satisfiable
   A 20-byte datagram; the last fragment first, then the first fragment twice (duplicate), then
   a stretched middle fragment [8,18] overlapping the last one; another datagram's fragment in
   between.  The datagram is delivered exactly by the call that completes the coverage. *)
Definition exD : list Z := [10;11;12;13;14;15;16;17;18;19;20;21;22;23;24;25;26;27;28;29].
Definition exCalls : list call :=
  [ mkCall 7 16 19 false (slice exD 16 4) 0;
    mkCall 7 0 7 true (slice exD 0 8) 1;
    mkCall 9 0 0 true [99] 1;
    mkCall 7 0 7 true (slice exD 0 8) 2;
    mkCall 7 8 18 true (slice exD 8 11) 3 ].
Example reassembly_example :
  1 <= zlen exD <= 65535 /\
  Forall call_ok exCalls /\ bytes_in exCalls <= 100 /\
  Forall (fun c => frag_of exD (frag_in c)) (filter (on_id 7) exCalls) /\
  Forall (fun c => c_now c - 0 <= 10) (filter (on_id 7) exCalls) /\
  ~ covers (firstn 3 (map frag_in (filter (on_id 7) exCalls))) (zlen exD) /\
  covers (map frag_in (filter (on_id 7) exCalls)) (zlen exD) /\
  snd (run (newFragmentation 100 50 10) exCalls) =
    [([], false, false); ([], false, false); ([], false, false); ([], false, false); (exD, true, false)].
Proof.
  split; [vm_compute; split; discriminate|].
  split; [repeat constructor; vm_compute; discriminate|].
  split; [vm_compute; discriminate|].
  split; [repeat constructor; vm_compute; try discriminate; reflexivity|].
  split; [repeat constructor; vm_compute; discriminate|].
  split; [|split; [|vm_compute; reflexivity]].
  - intros Hc. destruct (Hc 10 ltac:(vm_compute; split; [discriminate|reflexivity])) as [g [Hin Hg]].
    cbn in Hin. destruct Hin as [<-|[<-|[<-|[]]]]; cbn in Hg; lia.
  - intros x Hx. change (zlen exD) with 20 in Hx.
    destruct (Z_lt_dec x 8); [|destruct (Z_lt_dec x 16)].
    + exists (frag_in (mkCall 7 0 7 true (slice exD 0 8) 1)). split; [cbn; auto|cbn; lia].
    + exists (frag_in (mkCall 7 8 18 true (slice exD 8 11) 3)). split; [cbn; auto 6|cbn; lia].
    + exists (frag_in (mkCall 7 16 19 false (slice exD 16 4) 0)). split; [cbn; auto|cbn; lia].
Qed.
