(* Two endpoints and the network (closed system of Proofs/TcpNetP.v): shared part of the
   bounded-domain completion theorems (Proofs/TcpSysLiveP.v).

   1. [isys_run_sys_run]: the incremental system of Model/TcpSys.v IS the closed system: its state
      after a move list is (run a0 ea, run_out a0 ea, run b0 eb, run_out b0 eb) for
      (ea, eb) = TcpNetP.sys_run a0 b0 ms.
   2. [pump_is_schedule]: whatever the fair pump with drops does is a schedule of that closed
      system: its final system state is the closed-system state under the move list it recorded.
   3. The finite domains, the verdict on a pumped run and how to read it.  The evaluations
      themselves (vm_compute over forallb, one file per group so that they compile in parallel)
      are in Proofs/TcpSysLive1P.v, TcpSysLive2P.v, TcpSysLiveZwP.v.

   PROOF-ENGINEERING NOTE: the kernel must never be asked to CONVERT two different-looking terms that
   contain a pumped run of symbolic inputs (it would execute the pump symbolically, for ever).
   Hence: the evaluated statements are written in exactly the shape the generic forallb lemmas
   produce, definitions are unfolded by REWRITING with equations proved by reflexivity, and the
   lemmas that read a verdict are stated for an abstract pumped state. *)
From Coq Require Import ZArith List Bool Lia.
From NP Require Import Model.Seqnum Model.Tcp Model.TcpHs Model.TcpEst Proofs.TcpNetP Model.TcpSys.
Import ListNotations.
Open Scope Z_scope.

(* ---------------------------------------------------------------- 1. incremental = closed system *)

Definition sys_of (a0 b0 : tcp) (s : list event * list event) : sys :=
  mkSys (run a0 (fst s)) (run_out a0 (fst s)) (run b0 (snd s)) (run_out b0 (snd s)).

Lemma run_snoc t es e : run t (es ++ [e]) = fst (step (run t es) e).
Proof. rewrite run_app. reflexivity. Qed.

Lemma run_out_snoc t es e : run_out t (es ++ [e]) = run_out t es ++ out (fst (step (run t es) e)).
Proof. rewrite run_out_app. cbn [run_out]. rewrite app_nil_r. reflexivity. Qed.

Lemma isys_step_sys_step a0 b0 s m :
  fst (isys_step (sys_of a0 b0 s) m) = sys_of a0 b0 (sys_step a0 b0 s m).
Proof.
  destruct s as [ea eb]. unfold sys_of. destruct m as [a|a|k ts te rto|k ts te rto];
    cbn [sys_step isys_step fst snd sA oA sB oB].
  - destruct (step (run a0 ea) (ev_of a)) as [t r] eqn:E. cbn [fst snd].
    rewrite run_snoc, run_out_snoc, E. reflexivity.
  - destruct (step (run b0 eb) (ev_of a)) as [t r] eqn:E. cbn [fst snd].
    rewrite run_snoc, run_out_snoc, E. reflexivity.
  - destruct (nth_error (run_out a0 ea) k) as [f|]; [|reflexivity].
    destruct (step (run b0 eb) (ESeg (seg_of f ts te) rto)) as [t r] eqn:E. cbn [fst snd].
    rewrite run_snoc, run_out_snoc, E. reflexivity.
  - destruct (nth_error (run_out b0 eb) k) as [f|]; [|reflexivity].
    destruct (step (run a0 ea) (ESeg (seg_of f ts te) rto)) as [t r] eqn:E. cbn [fst snd].
    rewrite run_snoc, run_out_snoc, E. reflexivity.
Qed.

Lemma isys_fold a0 b0 ms : forall s,
  fold_left (fun s m => fst (isys_step s m)) ms (sys_of a0 b0 s) =
  sys_of a0 b0 (fold_left (sys_step a0 b0) ms s).
Proof.
  induction ms as [|m ms IH]; intros s; cbn [fold_left]; [reflexivity|].
  rewrite isys_step_sys_step. apply IH.
Qed.

(* the incremental system after a move list is the closed system of TcpNetP after the same list:
   endpoint states = [run x0 evX], frames emitted so far = [run_out x0 evX] *)
Lemma isys_run_sys_run a0 b0 ms : isys_run a0 b0 ms = sys_of a0 b0 (sys_run a0 b0 ms).
Proof. unfold isys_run, sys_run. exact (isys_fold a0 b0 ms ([], [])). Qed.

(* ---------------------------------------------------------------- 2. the pump plays a schedule *)

Definition wf (a0 b0 : tcp) (p : pst) : Prop := p_sys p = isys_run a0 b0 (rev (p_moves p)).
(* q differs from p at most in the application / pointer / done bookkeeping *)
Definition same (p q : pst) : Prop := p_sys q = p_sys p /\ p_moves q = p_moves p.

Lemma wf_same a0 b0 p q : same p q -> wf a0 b0 p -> wf a0 b0 q.
Proof. intros [E1 E2] H. unfold wf in *. rewrite E1, E2. exact H. Qed.

Lemma wf_do_move a0 b0 p m : wf a0 b0 p -> wf a0 b0 (fst (do_move p m)).
Proof.
  unfold wf, do_move. intros H. destruct (isys_step (p_sys p) m) as [s r] eqn:E. cbn [fst p_sys p_moves rev].
  unfold isys_run in *. rewrite fold_left_app. cbn [fold_left]. rewrite <- H, E. reflexivity.
Qed.

Lemma wf_one_app a0 b0 forA p : wf a0 b0 p -> wf a0 b0 (fst (one_app forA p)).
Proof.
  intros H. unfold one_app.
  destruct (a_todo (if forA then p_appA p else p_appB p)) as [|o rest]; [exact H|].
  destruct (can_proceed _ o); [|exact H].
  pose proof (wf_do_move a0 b0 p (if forA then MAppA (aev_of o) else MAppB (aev_of o)) H) as H1.
  destruct (do_move p _) as [p1 r]. cbn [fst] in *.
  destruct forA; cbn [fst]; (eapply wf_same; [|exact H1]); split; reflexivity.
Qed.

Lemma wf_app_burst a0 b0 forA : forall fuel p any, wf a0 b0 p -> wf a0 b0 (fst (app_burst fuel forA p any)).
Proof.
  induction fuel as [|f IH]; intros p any H; cbn [app_burst]; [exact H|].
  pose proof (wf_one_app a0 b0 forA p H) as H1.
  destruct (one_app forA p) as [p1 ok]. cbn [fst] in H1. destruct ok; [apply IH; exact H1|exact H].
Qed.

Lemma wf_apps a0 b0 b p : wf a0 b0 p -> wf a0 b0 (fst (apps b p)).
Proof.
  intros H. unfold apps. destruct b.
  - pose proof (wf_app_burst a0 b0 true 64 p false H) as H1.
    destruct (app_burst 64 true p false) as [p1 x]. cbn [fst] in H1.
    pose proof (wf_app_burst a0 b0 false 64 p1 false H1) as H2.
    destruct (app_burst 64 false p1 false) as [p2 y]. exact H2.
  - pose proof (wf_one_app a0 b0 true p H) as H1.
    destruct (one_app true p) as [p1 x]. cbn [fst] in H1.
    pose proof (wf_one_app a0 b0 false p1 H1) as H2.
    destruct (one_app false p1) as [p2 y]. exact H2.
Qed.

Lemma wf_net_range a0 b0 orc ds fromA : forall n p, wf a0 b0 p -> wf a0 b0 (net_range orc ds fromA n p).
Proof.
  induction n as [|n IH]; intros p H; cbn [net_range]; [exact H|].
  apply IH.
  set (k := if fromA then p_nA p else p_nB p).
  assert (H1 : wf a0 b0 (if dropped ds fromA k then p
                        else fst (do_move p (if fromA then MDeliverB k (or_ts orc) (or_tsecr orc) (or_rto orc)
                                             else MDeliverA k (or_ts orc) (or_tsecr orc) (or_rto orc))))).
  { destruct (dropped ds fromA k); [exact H|apply wf_do_move; exact H]. }
  destruct fromA; (eapply wf_same; [|exact H1]); split; reflexivity.
Qed.

Lemma wf_net a0 b0 orc ds p : wf a0 b0 p -> wf a0 b0 (fst (net orc ds p)).
Proof. intros H. unfold net. cbn [fst]. apply wf_net_range. apply wf_net_range. exact H. Qed.

Lemma wf_rto_side a0 b0 forA p : wf a0 b0 p -> wf a0 b0 (fst (rto_side forA p)).
Proof.
  intros H. unfold rto_side.
  destruct ((estate _ =? stConnected) && negb (tstate _ =? tDisabled)); cbn [fst]; [apply wf_do_move|]; exact H.
Qed.

Lemma wf_pump a0 b0 orc ds b : forall fuel p, wf a0 b0 p -> wf a0 b0 (pump fuel orc ds b p).
Proof.
  induction fuel as [|f IH]; intros p H; cbn [pump]; [exact H|].
  pose proof (wf_apps a0 b0 b p H) as H1. destruct (apps b p) as [p1 x]. cbn [fst] in H1.
  pose proof (wf_net a0 b0 orc ds p1 H1) as H2. destruct (net orc ds p1) as [p2 y]. cbn [fst] in H2.
  destruct (x || y); [apply IH; exact H2|].
  pose proof (wf_rto_side a0 b0 true p2 H2) as H3. destruct (rto_side true p2) as [p3 u]. cbn [fst] in H3.
  pose proof (wf_rto_side a0 b0 false p3 H3) as H4. destruct (rto_side false p3) as [p4 v]. cbn [fst] in H4.
  destruct (u || v); [apply IH; exact H4|].
  eapply wf_same; [|exact H4]. split; reflexivity.
Qed.

(* the state a pumped run ends in is the state of the closed system of TcpNetP under the schedule
   the pump recorded: drops are frames the schedule never delivers, everything else it does is a
   move of that system *)
Lemma pump_is_schedule fuel orc a0 b0 sc ds :
  let p := pump_run fuel orc a0 b0 sc ds in
  p_sys p = sys_of a0 b0 (sys_run a0 b0 (rev (p_moves p))).
Proof.
  cbn zeta. rewrite <- isys_run_sys_run. apply wf_pump. reflexivity.
Qed.

(* ---------------------------------------------------------------- 3. the finite domains *)

(* what the network says about a delivered segment in these runs: a timestamp option with a non-zero
   echo (both stacks of this implementation negotiate timestamps), RTT sample at the 200 ms floor *)
Definition orc : oracle := mkOr true true minRTO.

Definition dflt : tcp * tcp := (fresh 0 0, fresh 0 0).
Definition pair_of (o : option (tcp * tcp)) : tcp * tcp := match o with Some p => p | None => dflt end.

(* two connections as Model/TcpEst.v establishes them:
   1: A's ISS 6 below 2^32, B's ISS 8 below 2^31, MTU 88 both ways, 4096-byte buffers, no SACK
   2: A's ISS 2^31-1, B's ISS 2^32-1, MTU 120 / 100, buffers 1000 / 4096 mixed, SACK negotiated *)
Definition opt1 := est_pair 4294967290 2147483640 88 88 4096 4096 4096 4096 false false.
Definition opt2 := est_pair 2147483647 4294967295 120 100 1000 4096 4096 1000 true true.
Definition cfg1 : tcp * tcp := pair_of opt1.
Definition cfg2 : tcp * tcp := pair_of opt2.
Definition configs : list (tcp * tcp) := [cfg1; cfg2].

(* 4 close orders x w1 in {0, mss, 2*mss+3 in two chunks} x w2 in {0, 5} *)
Definition scens (c : tcp * tcp) : list scen :=
  let mss := maxPayload (SN (fst c)) in
  flat_map (fun order =>
    flat_map (fun w1c => map (fun w2 => scenario order (fst w1c) (snd w1c) w2) [0; 5])
             [(0, 1%nat); (mss, 1%nat); (2 * mss + 3, 2%nat)])
    [0; 1; 2; 3].

Definition budget : nat := 200.   (* pump rounds *)

(* the numbers of frames A and B emit in the loss-free run of a scenario: "the packets of the
   exchange" *)
Definition nfr (c : tcp * tcp) (sc : scen) : nat * nat :=
  let p := pump_run budget orc (fst c) (snd c) sc [] in
  (length (oA (p_sys p)), length (oB (p_sys p))).

(* how many more frame indices per side the drop sets reach (frames that exist only in lossy runs:
   retransmissions and the acknowledgements they provoke); no run of the domains that ends
   closed/closed emits more than margin frames beyond the loss-free count on either side *)
Definition margin : nat := 4.

Definition frames_of (na nb : nat) (from cnt : nat -> nat) : list (bool * nat) :=
  map (fun k => (true, k)) (seq (from na) (cnt na)) ++ map (fun k => (false, k)) (seq (from nb) (cnt nb)).

(* the drop sets of a scenario: the empty set; every single packet of the exchange; every pair of
   packets of the exchange; every pair of a packet of the exchange and one of the next [margin]
   frames of either side (a retransmission, or an acknowledgement that exists only because of the
   first loss: "the same packet lost again").  Drop sets without a packet of the exchange are not
   listed: a frame beyond the loss-free count is never emitted unless a packet of the exchange was
   lost. *)
Definition dsets (c : tcp * tcp) (sc : scen) : list dropset :=
  let n := nfr c sc in
  let orig := frames_of (fst n) (snd n) (fun _ => 0%nat) (fun k => k) in
  let late := frames_of (fst n) (snd n) (fun k => k) (fun _ => margin) in
  [] :: map (fun x => [x]) orig ++ pairs_of orig ++ flat_map (fun x => map (fun y => [x; y]) late) orig.

(* ... and the single drops alone *)
Definition singles (c : tcp * tcp) (sc : scen) : list dropset :=
  let n := nfr c sc in
  [] :: map (fun x => [x]) (frames_of (fst n) (snd n) (fun _ => 0%nat) (fun k => k)).

(* the drop set contains the last frame emitted by an endpoint that reached the closed state *)
Definition lost_final (p : pst) (ds : dropset) : bool :=
  ((estate (sA (p_sys p)) =? stClosed) && dropped ds true (length (oA (p_sys p)) - 1)) ||
  ((estate (sB (p_sys p)) =? stClosed) && dropped ds false (length (oB (p_sys p)) - 1)).

Definition nrst (p : pst) : nat :=
  length (filter (fun f => has (f_flags f) fRst) (oA (p_sys p) ++ oB (p_sys p))).

(* one endpoint closed, the other failed: error state, exactly one reset emitted in the whole run *)
Definition explicit_failure (p : pst) : bool :=
  (((estate (sA (p_sys p)) =? stClosed) && (estate (sB (p_sys p)) =? stError)) ||
   ((estate (sB (p_sys p)) =? stClosed) && (estate (sA (p_sys p)) =? stError))) && Nat.eqb (nrst p) 1.

Definition closed_closed (ka kb : nat) (p : pst) : bool :=
  (estate (sA (p_sys p)) =? stClosed) && (estate (sB (p_sys p)) =? stClosed) &&
  no_rst (oA (p_sys p)) && no_rst (oB (p_sys p)) &&
  Nat.leb (length (oA (p_sys p))) ka && Nat.leb (length (oB (p_sys p))) kb.

(* the verdict on a finished pumped run *)
Definition verdict (ka kb : nat) (p : pst) (ds : dropset) : bool :=
  p_done p && delivered p &&
  ((closed_closed ka kb p && negb (lost_final p ds)) || (lost_final p ds && explicit_failure p)).

(* (the loss-free run of the scenario is evaluated once, not once per drop set) *)
Definition run_ok (c : tcp * tcp) (sc : scen) : dropset -> bool :=
  let n := nfr c sc in
  fun ds => verdict (margin + fst n) (margin + snd n) (pump_run budget orc (fst c) (snd c) sc ds) ds.

Lemma run_ok_unfold c sc ds :
  run_ok c sc ds =
  verdict (margin + fst (nfr c sc)) (margin + snd (nfr c sc)) (pump_run budget orc (fst c) (snd c) sc ds) ds.
Proof. reflexivity. Qed.

(* membership in two nested forallb's, for abstract lists and an abstract test (nothing is evaluated
   when this lemma is instantiated) *)
Lemma forallb2d {B C} (lb : list B) (lc : B -> list C) (chk : B -> C -> bool) :
  forallb (fun b => forallb (chk b) (lc b)) lb = true ->
  forall b c, In b lb -> In c (lc b) -> chk b c = true.
Proof.
  intros H b c Hb Hc.
  rewrite forallb_forall in H. specialize (H b Hb). cbv beta in H.
  rewrite forallb_forall in H. exact (H c Hc).
Qed.

Lemma delivered_spec p : delivered p = true ->
  a_rd (p_appB p) = a_wr (p_appA p) /\ a_rd (p_appA p) = a_wr (p_appB p) /\
  a_eof (p_appA p) = true /\ a_eof (p_appB p) = true /\
  a_fail (p_appA p) = false /\ a_fail (p_appB p) = false /\
  a_todo (p_appA p) = [] /\ a_todo (p_appB p) = [].
Proof.
  unfold delivered. intros H.
  repeat (apply andb_prop in H; destruct H as [H ?]).
  assert (Z : forall a b, zeqb a b = true -> a = b).
  { induction a as [|x a IH]; destruct b as [|y b]; cbn; intros E; try discriminate; [reflexivity|].
    apply andb_prop in E. destruct E as [E1 E2]. apply Z.eqb_eq in E1. rewrite E1, (IH b E2). reflexivity. }
  assert (N : forall (l : list pop), Nat.eqb (length l) 0 = true -> l = []) by (intros [|? ?]; cbn; [reflexivity|discriminate]).
  repeat split; auto using negb_true_iff.
  all: try (apply negb_true_iff; assumption).
Qed.

(* reading the boolean verdict (p is any pumped state: nothing is evaluated here) *)
Lemma verdict_spec (ka kb : nat) (p : pst) (ds : dropset) :
  verdict ka kb p ds = true ->
  p_done p = true /\
  a_rd (p_appB p) = a_wr (p_appA p) /\ a_rd (p_appA p) = a_wr (p_appB p) /\
  a_eof (p_appA p) = true /\ a_eof (p_appB p) = true /\
  ((estate (sA (p_sys p)) = stClosed /\ estate (sB (p_sys p)) = stClosed /\
    no_rst (oA (p_sys p)) = true /\ no_rst (oB (p_sys p)) = true /\
    (length (oA (p_sys p)) <= ka)%nat /\ (length (oB (p_sys p)) <= kb)%nat /\ lost_final p ds = false)
   \/
   (lost_final p ds = true /\ explicit_failure p = true)).
Proof.
  unfold verdict. intros H.
  apply andb_prop in H. destruct H as [H O]. apply andb_prop in H. destruct H as [D1 D2].
  destruct (delivered_spec p D2) as (R1 & R2 & E1 & E2 & _).
  split; [exact D1|]. split; [exact R1|]. split; [exact R2|]. split; [exact E1|]. split; [exact E2|].
  apply orb_prop in O. destruct O as [O|O]; apply andb_prop in O; destruct O as [O1 O2].
  - left. unfold closed_closed in O1.
    apply andb_prop in O1. destruct O1 as [O1 L2]. apply andb_prop in O1. destruct O1 as [O1 L1].
    apply andb_prop in O1. destruct O1 as [O1 N2]. apply andb_prop in O1. destruct O1 as [O1 N1].
    apply andb_prop in O1. destruct O1 as [C1 C2].
    apply Z.eqb_eq in C1. apply Z.eqb_eq in C2. apply Nat.leb_le in L1. apply Nat.leb_le in L2.
    apply negb_true_iff in O2. repeat split; assumption.
  - right. split; assumption.
Qed.

Lemma verdict_recovered (ka kb : nat) (p : pst) (ds : dropset) :
  verdict ka kb p ds = true ->
  lost_final p ds = false -> recovered p = true.
Proof.
  unfold verdict. intros H HL. rewrite HL in H. cbn [negb andb] in H. rewrite orb_false_r, andb_true_r in H.
  apply andb_prop in H. destruct H as [H O]. apply andb_prop in H. destruct H as [D1 D2].
  unfold closed_closed in O.
  apply andb_prop in O. destruct O as [O L2]. apply andb_prop in O. destruct O as [O L1].
  apply andb_prop in O. destruct O as [O N2]. apply andb_prop in O. destruct O as [O N1].
  apply andb_prop in O. destruct O as [C1 C2].
  unfold recovered. rewrite D1, D2, C1, C2, N1, N2. reflexivity.
Qed.


(* ---------------------------------------------------------------- the closing-window domain *)

(* a connection whose receiver's window CLOSES during the transfer: B's receive buffer is 64 bytes *)
Definition zw_cfg : option (tcp * tcp) := est_pair 4294967290 2147483640 88 88 4096 4096 64 4096 false false.
Definition zw_pair : tcp * tcp := pair_of zw_cfg.

(* 4 close orders x w1 = 80 (more than the 64-byte window) x w2 in {0, 5} *)
Definition zw_scens : list scen :=
  flat_map (fun order => map (fun w2 => scenario order 80 1 w2) [0; 5]) [0; 1; 2; 3].

(* the shape of the KNOWN finding C02-zero-window-stall (Corr/C02.v check 200): connected, data at
   writeNext, nothing in flight, zero send window, timer not running, room in the congestion window *)
Definition zw_stalled (t : tcp) : bool :=
  let s := SN t in
  (estate t =? stConnected) && (sndUna s =? sndNxt s) && negb (tstate s =? tEnabled) &&
  (outstanding s <? cwnd s) && (sndWnd s =? 0) &&
  match wunsent s with w :: _ => negb (len (w_data w) =? 0) | [] => false end.

Definition stalled (p : pst) : bool := zw_stalled (sA (p_sys p)) || zw_stalled (sB (p_sys p)).

Definition verdict_zw (ka kb : nat) (p : pst) (ds : dropset) : bool :=
  p_done p &&
  ((delivered p && (closed_closed ka kb p || (lost_final p ds && explicit_failure p))) || stalled p).

Definition run_ok_zw (sc : scen) : dropset -> bool :=
  let n := nfr zw_pair sc in
  fun ds => verdict_zw (margin + fst n) (margin + snd n) (pump_run budget orc (fst zw_pair) (snd zw_pair) sc ds) ds.

Lemma run_ok_zw_unfold sc ds :
  run_ok_zw sc ds =
  verdict_zw (margin + fst (nfr zw_pair sc)) (margin + snd (nfr zw_pair sc))
             (pump_run budget orc (fst zw_pair) (snd zw_pair) sc ds) ds.
Proof. reflexivity. Qed.

Lemma verdict_zw_spec (ka kb : nat) (p : pst) (ds : dropset) :
  verdict_zw ka kb p ds = true ->
  p_done p = true /\
  ((a_rd (p_appB p) = a_wr (p_appA p) /\ a_rd (p_appA p) = a_wr (p_appB p) /\
    a_eof (p_appA p) = true /\ a_eof (p_appB p) = true /\
    ((estate (sA (p_sys p)) = stClosed /\ estate (sB (p_sys p)) = stClosed /\
      no_rst (oA (p_sys p)) = true /\ no_rst (oB (p_sys p)) = true /\
      (length (oA (p_sys p)) <= ka)%nat /\ (length (oB (p_sys p)) <= kb)%nat)
     \/ (lost_final p ds = true /\ explicit_failure p = true)))
   \/ (zw_stalled (sA (p_sys p)) = true \/ zw_stalled (sB (p_sys p)) = true)).
Proof.
  unfold verdict_zw. intros H. apply andb_prop in H. destruct H as [D1 H]. split; [exact D1|].
  apply orb_prop in H. destruct H as [H|H].
  - left. apply andb_prop in H. destruct H as [D2 O].
    destruct (delivered_spec p D2) as (R1 & R2 & E1 & E2 & _).
    split; [exact R1|]. split; [exact R2|]. split; [exact E1|]. split; [exact E2|].
    apply orb_prop in O. destruct O as [O|O].
    + left. unfold closed_closed in O.
      apply andb_prop in O. destruct O as [O L2]. apply andb_prop in O. destruct O as [O L1].
      apply andb_prop in O. destruct O as [O N2]. apply andb_prop in O. destruct O as [O N1].
      apply andb_prop in O. destruct O as [C1 C2].
      apply Z.eqb_eq in C1. apply Z.eqb_eq in C2. apply Nat.leb_le in L1. apply Nat.leb_le in L2.
      repeat split; assumption.
    + right. apply andb_prop in O. destruct O as [O1 O2]. split; assumption.
  - right. unfold stalled in H. apply orb_prop in H. exact H.
Qed.
