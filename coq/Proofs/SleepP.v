(* Proofs about Model/Sleep.v (property C19). *)
From Coq Require Import ZArith Bool List Arith Lia.
From NP Require Import Model.Sleep.
Import ListNotations.

(* the variant WITHOUT the second load of sharedList loses a wake-up: one waker, attached and
   asserted by a completed Assert call, nobody in flight, and the sleeper parked for ever *)
Definition lost_wakeup_state (st : state) : Prop :=
  (exists c, pcs st 0 = PNwParked c) /\ wg st = GPark /\
  (exists w, In w (allw st) /\ ws st w = WAst /\ In w (shared st)) /\
  (forall t, t <> 0 -> pcs st t = PIdle /\ progs st t = []).

Lemma no_recheck_refuted_lemma :
  exists ps sched st evs,
    run_gen false (init (progs_of_list ps)) sched = Some (st, evs) /\ lost_wakeup_state st.
Proof.
  exists [[OAdd 0 7%Z; OFetch true]; [OAssert 0]].
  exists [0; 0; 0; 0; 0; 1; 1; 1; 1; 1; 1; 0; 0]%nat.
  eexists. eexists. split.
  - vm_compute. reflexivity.
  - split; [eexists; reflexivity|]. split; [reflexivity|]. split.
    + exists 0%nat. cbn. repeat split; auto.
    + intros t Ht. destruct t as [|[|t]]; [congruence| |]; cbn; split; try reflexivity.
      destruct t; reflexivity.
Qed.
