(* Proofs about Model/Sleep.v (property C19), part 4: the property theorems, from the inductive
   invariant [inv] (Proofs/SleepBaseP.v, SleepInvP.v, SleepInv2P.v). *)
From Coq Require Import ZArith Bool List Arith Lia.
From NP Require Import Model.Sleep Model.SleepSpec Proofs.SleepBaseP Proofs.SleepInvP Proofs.SleepInv2P Proofs.SleepStepP.
Import ListNotations.

(* states reachable from zero-valued Sleeper / Wakers under ANY client programs (any number of
   threads) and ANY schedule *)
Definition reachable (st : state) : Prop :=
  exists ps sched evs, run (init ps) sched = Some (st, evs).

Lemma run_inv : forall sched st st' evs, inv st -> run st sched = Some (st', evs) -> inv st'.
Proof.
  induction sched as [|t r IH]; intros st st' evs Hinv H; simpl in H.
  - inversion H; subst. assumption.
  - unfold run in *. simpl in H. destruct (step_gen true st t) as [[s1 e1]|] eqn:Hs; [|discriminate].
    destruct (run_gen true s1 r) as [[s2 e2]|] eqn:Hr; [|discriminate]. inversion H; subst.
    eapply IH; [|exact Hr]. eapply inv_step; eauto.
Qed.

Lemma reachable_inv : forall st, reachable st -> inv st.
Proof. intros st [ps [sched [evs H]]]. eapply run_inv; [apply inv_init|exact H]. Qed.

Lemma reachable_step : forall st t st' evs, reachable st -> step_ev st t = Some (st', evs) -> reachable st'.
Proof.
  intros st t st' evs [ps [sched [evs0 H]]] Hs. exists ps, (sched ++ [t]), (evs0 ++ evs).
  revert evs0 H. generalize (init ps). unfold run. induction sched as [|a r IH]; intros s0 evs0 H; simpl in *.
  - inversion H; subst. unfold step_ev in Hs. rewrite Hs. rewrite app_nil_r. reflexivity.
  - destruct (step_gen true s0 a) as [[s1 e1]|]; [|discriminate].
    destruct (run_gen true s1 r) as [[s2 e2]|] eqn:Hr; [|discriminate]. inversion H; subst.
    rewrite (IH s1 e2 Hr). rewrite app_assoc. reflexivity.
Qed.

(* ------------------------------------------------------------------ queued_once *)
Lemma held_only_0 : forall st w, inv st -> heldb w (pc_of st 0) = false -> countp (heldb w) (pcs st) = 0.
Proof.
  intros st w Hinv H0. destruct (countp (heldb w) (pcs st)) eqn:E; [reflexivity|].
  destruct (countp_exists (heldb w) (pcs st)) as [t [Ht Hh]]; [lia|].
  assert (t = 0).
  { apply (sleeper_is_0 _ st t Hinv). unfold pc_of. destruct (nth t (pcs st) PIdle); simpl in Hh; try discriminate. reflexivity. }
  subst. unfold pc_of in H0. congruence.
Qed.

Lemma no_pusher : forall st w, countp (pusherb w) (pcs st) = 0 -> forall t, pusherb w (pc_of st t) = false.
Proof.
  intros st w H t. destruct (pusherb w (pc_of st t)) eqn:E; [|reflexivity].
  destruct (Nat.lt_ge_cases t (length (pcs st))) as [Hlt|Hge].
  - exfalso. eapply countp_zero; eauto.
  - rewrite pc_of_out in E by lia. discriminate.
Qed.

Lemma queued_once_lemma : forall st, reachable st ->
  NoDup (shared st ++ local st) /\
  forall w, In w (shared st ++ local st) ->
    ws st w <> WSlp /\ (forall t, pusherb w (pc_of st t) = false) /\ heldb w (pc_of st 0) = false.
Proof.
  intros st Hr. pose proof (reachable_inv st Hr) as Hinv. split.
  - apply cnt_NoDup. intros w. pose proof (i_tok _ _ Hinv w) as Hw. unfold tok_ok, tok in Hw.
    rewrite cnt_app. destruct (attb st w); intuition lia.
  - intros w Hin. apply cnt_In in Hin. rewrite cnt_app in Hin.
    pose proof (i_tok _ _ Hinv w) as Hw. unfold tok_ok, tok in Hw.
    assert (Hs : ws st w <> WSlp /\ countp (heldb w) (pcs st) = 0 /\ countp (pusherb w) (pcs st) = 0).
    { destruct (attb st w); intuition lia. }
    destruct Hs as [Hs [Hh Hp]]. split; [assumption|]. split; [apply no_pusher; assumption|].
    destruct (heldb w (pc_of st 0)) eqn:E; [|reflexivity].
    exfalso. destruct (Nat.lt_ge_cases 0 (length (pcs st))).
    + eapply (countp_zero (heldb w)); eauto.
    + rewrite pc_of_out in E by lia. discriminate.
Qed.

(* ------------------------------------------------------------------ fetch_sound *)
Lemma fetch_sound_lemma : forall ps sched st evs,
  run (init ps) sched = Some (st, evs) -> fetch_monitor evs = true.
Proof.
  intros ps sched st evs H. unfold fetch_monitor.
  destruct (ghost_run sched (init ps) st evs mon0 (inv_init ps) (ghost_init ps) H) as [Hok _]. exact Hok.
Qed.

(* ------------------------------------------------------------------ no_lost_wakeup *)
Definition attached (st : state) (w : nat) : Prop := In w (allw st).
Definition enqueuing (st : state) (t w : nat) : Prop := pusherb w (pc_of st t) = true.
Definition signalling (st : state) (t : nat) : Prop := gwaitb (pc_of st t) = true.
Definition parked_in_fetch (st : state) : Prop := exists b, pc_of st 0 = PNwParked (CFetch b).

Lemma parked_wg : forall st c, inv st -> pc_of st 0 = PNwParked c -> wg st = GPark.
Proof.
  intros st c Hinv Hp. pose proof (i_wg _ _ Hinv) as H. rewrite Hp in H.
  destruct (wg st); simpl in H; congruence.
Qed.

Lemma no_lost_wakeup_lemma : forall st, reachable st -> parked_in_fetch st ->
  wg st = GPark /\ local st = [] /\
  forall w, attached st w -> ws st w = WAst ->
    (exists t, t <> 0 /\ enqueuing st t w) \/
    (In w (shared st) /\ exists t, t <> 0 /\ signalling st t).
Proof.
  intros st Hr [b Hp]. pose proof (reachable_inv st Hr) as Hinv.
  assert (Hloc : local st = []) by (apply (i_loc _ _ Hinv eq_refl); rewrite Hp; reflexivity).
  split; [eapply parked_wg; eauto|]. split; [assumption|].
  intros w Hatt Hast.
  pose proof (i_tok _ _ Hinv w) as Hw. unfold tok_ok, tok, attb in Hw.
  assert (Hm : mem w (allw st) = true) by (apply cnt_mem; apply cnt_In; exact Hatt).
  rewrite Hm, Hp in Hw. simpl in Hw. rewrite Hloc in Hw. simpl in Hw.
  rewrite (held_only_0 st w Hinv) in Hw by (rewrite Hp; reflexivity).
  destruct Hw as [[Hw _]|[_ Hw]]; [congruence|].
  destruct (countp (pusherb w) (pcs st)) eqn:Ep.
  - right. assert (Hin : In w (shared st)) by (apply cnt_In; lia). split; [assumption|].
    assert (Hne : shared st <> []) by (intros E; rewrite E in Hin; destruct Hin).
    assert (Hg : wg st <> G0) by (rewrite (parked_wg st _ Hinv Hp); discriminate).
    pose proof (i_win _ _ Hinv _ (or_intror Hp) Hg Hne) as Hgw.
    destruct (countp_exists _ _ Hgw) as [t [Ht Hs]]. exists t. split; [|exact Hs].
    intros ->. unfold pc_of in Hp. rewrite Hp in Hs. discriminate.
  - left. destruct (countp_exists (pusherb w) (pcs st)) as [t [Ht Hs]]; [lia|]. exists t. split; [|exact Hs].
    intros ->. unfold pc_of in Hp. rewrite Hp in Hs. discriminate.
Qed.

(* no thread other than the sleeper's is inside a call *)
Definition quiet (st : state) : Prop := forall t, t <> 0 -> pc_of st t = PIdle.

Lemma not_stuck_lemma : forall st, reachable st -> parked_in_fetch st -> quiet st ->
  forall w, attached st w -> ws st w <> WAst.
Proof.
  intros st Hr Hp Hq w Hatt Hast.
  destruct (no_lost_wakeup_lemma st Hr Hp) as [_ [_ H]].
  destruct (H w Hatt Hast) as [[t [Ht He]]|[_ [t [Ht Hs]]]].
  - unfold enqueuing in He. rewrite (Hq t Ht) in He. discriminate.
  - unfold signalling in Hs. rewrite (Hq t Ht) in Hs. discriminate.
Qed.

(* ------------------------------------------------------------------ nonblocking_fetch_complete *)
Lemma nonblocking_fetch_lemma : forall st st' evs t', reachable st ->
  step_ev st 0 = Some (st', evs) -> In (ERetFetchNone t') evs ->
  shared st = [] /\ local st = [] /\
  forall w, attached st w -> ws st w = WAst -> exists t, enqueuing st t w.
Proof.
  intros st st' evs t' Hr Hs Hin. pose proof (reachable_inv st Hr) as Hinv.
  destruct (step_shape st 0 st' evs Hinv Hs) as [H1 _]. destruct (H1 t' Hin) as [Hp Hsh].
  assert (Hloc : local st = []) by (apply (i_loc _ _ Hinv eq_refl); rewrite Hp; reflexivity).
  split; [assumption|]. split; [assumption|]. intros w Hatt Hast.
  pose proof (i_tok _ _ Hinv w) as Hw. unfold tok_ok, tok, attb in Hw.
  assert (Hm : mem w (allw st) = true) by (apply cnt_mem; apply cnt_In; exact Hatt).
  rewrite Hm, Hp in Hw. simpl in Hw. rewrite Hloc, Hsh in Hw. simpl in Hw.
  rewrite (held_only_0 st w Hinv) in Hw by (rewrite Hp; reflexivity).
  destruct Hw as [[Hw _]|[_ Hw]]; [congruence|].
  destruct (countp_exists (pusherb w) (pcs st)) as [t [Ht Hh]]; [lia|]. exists t. exact Hh.
Qed.

(* ------------------------------------------------------------------ done_detaches *)
(* the sleeper is back to its zero value, no waker refers to it, nobody is about to push on it *)
Definition detached_all (st : state) : Prop :=
  (forall w, ws st w <> WSlp) /\ shared st = [] /\ local st = [] /\ allw st = [] /\ wg st = G0 /\
  pc_of st 0 = PIdle /\ (forall t w, pusherb w (pc_of st t) = false).

Lemma cnt_zero_nil : forall l, (forall w, cnt w l = 0) -> l = [].
Proof. destruct l; intros H; [reflexivity|]. specialize (H n). simpl in H. rewrite Nat.eqb_refl in H. simpl in H. lia. Qed.

Lemma detached_of : forall st, inv st -> allw st = [] -> pc_of st 0 = PIdle -> detached_all st.
Proof.
  intros st Hinv Ha Hp.
  assert (Hw : forall w, ws st w <> WSlp /\ tok st w = 0).
  { intros w. pose proof (i_tok _ _ Hinv w) as Hw. unfold tok_ok, attb in Hw. rewrite Ha in Hw. simpl in Hw. exact Hw. }
  unfold tok in Hw. repeat split.
  - intros w. apply Hw.
  - apply cnt_zero_nil. intros w. destruct (Hw w). lia.
  - apply cnt_zero_nil. intros w. destruct (Hw w). lia.
  - assumption.
  - pose proof (i_wg _ _ Hinv) as H. rewrite Hp in H. destruct (wg st); simpl in H; congruence.
  - assumption.
  - intros t w. apply no_pusher. destruct (Hw w). lia.
Qed.

Lemma done_detaches_lemma : forall st st' evs t', reachable st ->
  step_ev st 0 = Some (st', evs) -> In (ERetDone t') evs -> detached_all st'.
Proof.
  intros st st' evs t' Hr Hs Hin. pose proof (reachable_inv st Hr) as Hinv.
  destruct (step_shape st 0 st' evs Hinv Hs) as [_ [H2 _]]. destruct (H2 t' Hin) as [Ha Hp].
  apply detached_of; [eapply inv_step; eauto|assumption|assumption].
Qed.

(* ... and it stays so whatever the other threads do, as long as thread 0 does not use it *)
Lemma detached_stays : forall sched st st' evs, reachable st -> detached_all st ->
  (forall t, In t sched -> t <> 0) -> run st sched = Some (st', evs) -> detached_all st'.
Proof.
  intros sched st st' evs Hr Hd Hsched Hrun.
  assert (Q : inv st /\ allw st = [] /\ pc_of st 0 = PIdle).
  { split; [apply reachable_inv; assumption|]. destruct Hd as [_ [_ [_ [Ha [_ [Hp _]]]]]]. auto. }
  clear Hr Hd. revert st st' evs Q Hsched Hrun.
  induction sched as [|t r IH]; intros st st' evs [Hinv [Ha Hp]] Hsched Hrun; unfold run in *; simpl in Hrun.
  - inversion Hrun; subst. apply detached_of; assumption.
  - destruct (step_gen true st t) as [[s1 e1]|] eqn:Hs; [|discriminate].
    destruct (run_gen true s1 r) as [[s2 e2]|] eqn:Hr; [|discriminate]. inversion Hrun; subst.
    assert (Ht : t <> 0) by (apply Hsched; left; reflexivity).
    destruct (step_shape st t s1 e1 Hinv Hs) as [_ [_ H3]]. destruct (H3 Ht) as [Ha1 Hp1].
    eapply IH; [| |exact Hr].
    + split; [eapply inv_step; eauto|]. split; [congruence|].
      destruct Hp1 as [Hp1|Hp1]; [congruence|]. rewrite Hp in Hp1. discriminate.
    + intros t0 Hin. apply Hsched. right. assumption.
Qed.

(* each waker can be attached again: AddWaker is enabled for every waker *)
Lemma detached_can_add : forall st w id r, detached_all st -> 0 < length (pcs st) ->
  prog_of st 0 = OAdd w id :: r ->
  exists st' evs, step_ev st 0 = Some (st', evs) /\ pc_of st' 0 = PAwLoad w /\ attached st' w.
Proof.
  intros st w id r [_ [_ [_ [Ha [_ [Hp _]]]]]] Hlt Hprog.
  unfold step_ev, step_gen. destruct (Nat.ltb_spec 0 (length (pcs st))); [|lia]. simpl.
  rewrite Hp, Hprog, Ha. simpl. eexists. eexists. split; [reflexivity|]. split.
  - rewrite pc_of_set_pc by (simpl; assumption). reflexivity.
  - left. reflexivity.
Qed.

(* ------------------------------------------------------------------ witnesses *)
(* the variant WITHOUT the second load of sharedList loses a wake-up: the waker is attached, its
   Assert call has returned, nobody is in flight, and the sleeper is parked for ever *)
Definition lost_wakeup (st : state) (evs : list event) : Prop :=
  parked_in_fetch st /\ (forall t, t <> 0 -> pc_of st t = PIdle /\ prog_of st t = []) /\
  exists t w, attached st w /\ ws st w = WAst /\ In (ERetAssert t w) evs.

Lemma no_recheck_refuted_lemma :
  exists ps sched st evs, run_gen false (init ps) sched = Some (st, evs) /\ lost_wakeup st evs.
Proof.
  exists [[OAdd 0 7%Z; OFetch true]; [OAssert 0]].
  exists [0; 0; 0; 0; 0; 1; 1; 1; 1; 1; 1; 0; 0].
  eexists. eexists. split; [vm_compute; reflexivity|].
  split; [exists true; reflexivity|]. split.
  - intros t Ht. destruct t as [|[|t]]; [congruence| |]; split; try reflexivity;
    unfold pc_of, prog_of; simpl; destruct t; reflexivity.
  - exists 1, 0. split; [left; reflexivity|]. split; [reflexivity|]. simpl. tauto.
Qed.

(* the same programs and schedule with the real code ([run]): the re-check sees the waker *)
Lemma recheck_saves : exists st evs,
  run (init [[OAdd 0 7%Z; OFetch true]; [OAssert 0]]) [0; 0; 0; 0; 0; 1; 1; 1; 1; 1; 1; 0; 0; 0; 0; 0] = Some (st, evs) /\
  In (ERetFetch 0 0 7%Z) evs.
Proof. eexists. eexists. split; [vm_compute; reflexivity|]. simpl. tauto. Qed.

(* the classic window: the assert lands between the sleeper's re-check and its gopark; whichever
   side moves first, the blocking Fetch returns the waker's id *)
Lemma classic_window_handled :
  exists pre st evs,
    run (init [[OAdd 0 7%Z; OFetch true]; [OAssert 0]]) pre = Some (st, evs) /\
    pc_of st 0 = PNwPark (CFetch true) /\ wg st = GPrep /\ shared st = [0] /\ ws st 0 = WAst /\
    (exists st1 e1, run st [1; 1; 0; 0; 0; 0] = Some (st1, e1) /\
       ~ In EPark e1 /\ In (ERetFetch 0 0 7%Z) e1) /\
    (exists st2 e2, run st [0; 1; 1; 0; 0; 0] = Some (st2, e2) /\
       In EPark e2 /\ In (EWake 1) e2 /\ In (ERetFetch 0 0 7%Z) e2).
Proof.
  exists [0; 0; 0; 0; 0; 0; 0; 1; 1; 1; 1; 1].
  eexists. eexists. split; [vm_compute; reflexivity|].
  split; [reflexivity|]. split; [reflexivity|]. split; [reflexivity|]. split; [reflexivity|]. split.
  - eexists. eexists. split; [vm_compute; reflexivity|]. split; [|simpl; tauto].
    simpl. intros H. repeat (destruct H as [H|H]; [discriminate H|]). exact H.
  - eexists. eexists. split; [vm_compute; reflexivity|]. simpl. tauto.
Qed.

(* "completed" must mean "pushed": an Assert call that found the waker already asserted returns
   at once, although the call that asserted it has not pushed yet; a Fetch(false) invoked after
   that return still reports nothing *)
Lemma nonblocking_fetch_api_refuted :
  exists ps sched st pre,
    run (init ps) sched = Some (st, pre ++ [ERetFetchNone 0]) /\
    In (ERetAdd 0 0) pre /\ In (ERetAssert 2 0) pre /\
    (forall t w id, ~ In (ERetFetch t w id) pre) /\ (forall t w b, ~ In (ERetClear t w b) pre) /\
    attached st 0 /\ ws st 0 = WAst /\ enqueuing st 1 0.
Proof.
  exists [[OAdd 0 7%Z; OFetch false]; [OAssert 0]; [OAssert 0]].
  exists [0; 0; 0; 1; 1; 1; 2; 2; 0; 0].
  eexists.
  exists [EInvoke 0 (OAdd 0 7%Z); ERetAdd 0 0; EInvoke 1 (OAssert 0); ESwitch 1 0 WSlp;
          EInvoke 2 (OAssert 0); ERetAssert 2 0; EInvoke 0 (OFetch false)].
  split; [vm_compute; reflexivity|].
  split; [simpl; tauto|]. split; [simpl; tauto|].
  split. { intros t w id H. simpl in H. repeat (destruct H as [H|H]; [discriminate H|]). exact H. }
  split. { intros t w b H. simpl in H. repeat (destruct H as [H|H]; [discriminate H|]). exact H. }
  split; [left; reflexivity|]. split; reflexivity.
Qed.

(* ------------------------------------------------------------------ the wake-up is only a few steps away *)
(* thread t runs alone for n steps *)
Fixpoint solo (st : state) (t n : nat) : option state :=
  match n with
  | O => Some st
  | S k => match step st t with Some s => solo s t k | None => None end
  end.

Lemma in_range : forall st t, pc_of st t <> PIdle -> t < length (pcs st).
Proof. intros st t H. destruct (Nat.lt_ge_cases t (length (pcs st))); [assumption|]. exfalso. apply H. apply pc_of_out. lia. Qed.

Ltac eval_step Hlt Hpc :=
  unfold step, step_ev, step_gen; rewrite (proj2 (Nat.ltb_lt _ _) Hlt); cbn [negb]; rewrite Hpc.

Lemma head_eqb_refl : forall v, head_eqb v v = true.
Proof. destruct v; simpl; [apply Nat.eqb_refl|reflexivity]. Qed.

(* a thread past its push, with the sleeper parked: at most 3 of its own steps to the goready *)
Lemma signal_wakes_lemma : forall st c t, reachable st ->
  pc_of st 0 = PNwParked c -> signalling st t ->
  exists n st', n <= 3 /\ solo st t n = Some st' /\ pc_of st' 0 = PNwLoad1 c /\ wg st' = G0 /\
               shared st' = shared st.
Proof.
  intros st c t Hr Hp Hs. pose proof (reachable_inv st Hr) as Hinv.
  pose proof (parked_wg st c Hinv Hp) as Hg.
  assert (Ht0 : t <> 0) by (intros ->; unfold signalling in Hs; rewrite Hp in Hs; discriminate).
  assert (Hlt : t < length (pcs st)) by (apply in_range; intros E; unfold signalling in Hs; rewrite E in Hs; discriminate).
  assert (H0 : 0 < length (pcs st)) by lia.
  (* the last step: CAS(waitingG, g, 0) succeeds and readies the sleeper *)
  assert (Last : forall s k w, pc_of s t = PEnqCasG k w GPark -> wg s = GPark -> pc_of s 0 = PNwParked c ->
                   t < length (pcs s) -> 0 < length (pcs s) ->
                   exists s', step s t = Some s' /\ pc_of s' 0 = PNwLoad1 c /\ wg s' = G0 /\ shared s' = shared s).
  { intros s k w Hpc Hgs Hps Hl Hl0. eexists. split.
    - eval_step Hl Hpc. rewrite Hgs. simpl.
      rewrite pc_of_set_pc by (simpl; exact Hl). destruct (Nat.eqb_spec 0 t); [congruence|].
      change (pc_of (set_wg s G0) 0) with (pc_of s 0). rewrite Hps. reflexivity.
    - split; [|split; reflexivity]. rewrite pc_of_set_pc; [reflexivity|].
      unfold set_pc, set_wg; simpl; rewrite length_lset; exact Hl0. }
  (* the load of waitingG sees the parked G *)
  assert (Load : forall s k w, pc_of s t = PEnqLoadG k w -> wg s = GPark -> t < length (pcs s) ->
                   step s t = Some (set_pc s t (PEnqCasG k w GPark))).
  { intros s k w Hpc Hgs Hl. eval_step Hl Hpc. rewrite Hgs. reflexivity. }
  assert (Next : forall s k w, pc_of s t = PEnqLoadG k w -> wg s = GPark -> pc_of s 0 = PNwParked c ->
                   t < length (pcs s) -> 0 < length (pcs s) ->
                   exists s', solo s t 2 = Some s' /\ pc_of s' 0 = PNwLoad1 c /\ wg s' = G0 /\ shared s' = shared s).
  { intros s k w Hpc Hgs Hps Hl Hl0. simpl. rewrite (Load s k w Hpc Hgs Hl).
    destruct (Last (set_pc s t (PEnqCasG k w GPark)) k w) as [s' [Hs' Hrest]].
    - rewrite pc_of_set_pc by exact Hl. rewrite Nat.eqb_refl. reflexivity.
    - exact Hgs.
    - rewrite pc_of_set_pc by exact Hl. destruct (Nat.eqb_spec 0 t); [congruence|exact Hps].
    - unfold set_pc; simpl; rewrite length_lset; exact Hl.
    - unfold set_pc; simpl; rewrite length_lset; exact Hl0.
    - exists s'. rewrite Hs'. auto. }
  unfold signalling in Hs. destruct (pc_of st t) eqn:Hpc; try discriminate Hs.
  - destruct (Next st fromAdd w Hpc Hg Hp Hlt H0) as [s' [Hs' Hrest]]. exists 2, s'. auto.
  - destruct g.
    + exfalso. eapply (i_casg _ _ Hinv); eauto.
    + (* a stale preparingG: the CAS fails, back to the load *)
      assert (Hstep : step st t = Some (set_pc st t (PEnqLoadG fromAdd w))).
      { eval_step Hlt Hpc. rewrite Hg. reflexivity. }
      destruct (Next (set_pc st t (PEnqLoadG fromAdd w)) fromAdd w) as [s' [Hs' Hrest]].
      * rewrite pc_of_set_pc by exact Hlt. rewrite Nat.eqb_refl. reflexivity.
      * exact Hg.
      * rewrite pc_of_set_pc by exact Hlt. destruct (Nat.eqb_spec 0 t); [congruence|exact Hp].
      * unfold set_pc; simpl; rewrite length_lset; exact Hlt.
      * unfold set_pc; simpl; rewrite length_lset; exact H0.
      * exists 3, s'. split; [lia|]. split; [|exact Hrest].
        change (solo st t 3) with (match step st t with Some s => solo s t 2 | None => None end).
        rewrite Hstep. exact Hs'.
    + destruct (Last st fromAdd w Hpc Hg Hp Hlt H0) as [s' [Hs' Hrest]]. exists 1, s'.
      split; [lia|]. split; [|exact Hrest]. simpl. rewrite Hs'. reflexivity.
Qed.

Lemma solo_add : forall a b st t s1, solo st t a = Some s1 -> solo st t (a + b) = solo s1 t b.
Proof.
  induction a; simpl; intros b st t s1 H; [inversion H; reflexivity|].
  destruct (step st t) as [s|]; [|discriminate]. apply IHa. assumption.
Qed.

Lemma step_reach : forall st t s, reachable st -> step st t = Some s -> reachable s.
Proof.
  intros st t s Hr H. unfold step in H. destruct (step_ev st t) as [[s' e]|] eqn:E; [|discriminate].
  inversion H; subst. eapply reachable_step; eauto.
Qed.

(* a thread before its push, with the sleeper parked, running alone: at most 3 steps to the push *)
Lemma enqueue_pushes : forall st c t w, reachable st ->
  pc_of st 0 = PNwParked c -> enqueuing st t w ->
  exists n s, n <= 3 /\ solo st t n = Some s /\ reachable s /\ pc_of s 0 = PNwParked c /\
              signalling s t /\ In w (shared s).
Proof.
  intros st c t w Hr Hp He.
  assert (Ht0 : t <> 0) by (intros ->; unfold enqueuing in He; rewrite Hp in He; discriminate).
  (* from the CAS with an up-to-date head *)
  assert (Push : forall s k, reachable s -> pc_of s 0 = PNwParked c ->
            pc_of s t = PEnqCas k w (hd_error (shared s)) ->
            exists s', step s t = Some s' /\ reachable s' /\ pc_of s' 0 = PNwParked c /\
                       signalling s' t /\ In w (shared s')).
  { intros s k Hrs Hps Hpc.
    assert (Hl : t < length (pcs s)) by (apply in_range; rewrite Hpc; discriminate).
    assert (Hst : step s t = Some (set_pc (set_shared s (w :: shared s)) t (PEnqLoadG k w))).
    { eval_step Hl Hpc. rewrite head_eqb_refl. reflexivity. }
    eexists. split; [exact Hst|]. split; [eapply step_reach; eauto|]. split; [|split].
    - rewrite pc_of_set_pc by (simpl; exact Hl). destruct (Nat.eqb_spec 0 t); [congruence|exact Hps].
    - unfold signalling. rewrite pc_of_set_pc by (simpl; exact Hl). rewrite Nat.eqb_refl. reflexivity.
    - left. reflexivity. }
  (* from the load *)
  assert (Load : forall s k, reachable s -> pc_of s 0 = PNwParked c -> pc_of s t = PEnqLoad k w ->
            exists s', solo s t 2 = Some s' /\ reachable s' /\ pc_of s' 0 = PNwParked c /\
                       signalling s' t /\ In w (shared s')).
  { intros s k Hrs Hps Hpc.
    assert (Hl : t < length (pcs s)) by (apply in_range; rewrite Hpc; discriminate).
    assert (Hst : step s t = Some (set_pc s t (PEnqCas k w (hd_error (shared s))))).
    { eval_step Hl Hpc. reflexivity. }
    destruct (Push (set_pc s t (PEnqCas k w (hd_error (shared s)))) k) as [s' [Hs' Hrest]].
    - eapply step_reach; eauto.
    - rewrite pc_of_set_pc by exact Hl. destruct (Nat.eqb_spec 0 t); [congruence|exact Hps].
    - rewrite pc_of_set_pc by exact Hl. rewrite Nat.eqb_refl. reflexivity.
    - exists s'. split; [|exact Hrest]. simpl. rewrite Hst. rewrite Hs'. reflexivity. }
  unfold enqueuing in He. destruct (pc_of st t) eqn:Hpc; try discriminate He; simpl in He; apply Nat.eqb_eq in He; subst w0.
  - destruct (Load st fromAdd Hr Hp Hpc) as [s' [Hs' Hrest]]. exists 2, s'. split; [lia|]. split; assumption.
  - assert (Hl : t < length (pcs st)) by (apply in_range; rewrite Hpc; discriminate).
    destruct (head_eqb (hd_error (shared st)) v) eqn:Hh.
    + assert (v = hd_error (shared st)).
      { destruct v, (hd_error (shared st)); simpl in Hh; try discriminate; [apply Nat.eqb_eq in Hh; subst|]; reflexivity. }
      subst v. destruct (Push st fromAdd Hr Hp Hpc) as [s' [Hs' Hrest]].
      exists 1, s'. split; [lia|]. split; [|exact Hrest]. simpl. rewrite Hs'. reflexivity.
    + assert (Hst : step st t = Some (set_pc st t (PEnqLoad fromAdd w))).
      { eval_step Hl Hpc. rewrite Hh. reflexivity. }
      destruct (Load (set_pc st t (PEnqLoad fromAdd w)) fromAdd) as [s' [Hs' Hrest]].
      * eapply step_reach; eauto.
      * rewrite pc_of_set_pc by exact Hl. destruct (Nat.eqb_spec 0 t); [congruence|exact Hp].
      * rewrite pc_of_set_pc by exact Hl. rewrite Nat.eqb_refl. reflexivity.
      * exists 3, s'. split; [lia|]. split; [|exact Hrest].
        change (solo st t 3) with (match step st t with Some s => solo s t 2 | None => None end).
        rewrite Hst. exact Hs'.
Qed.

Lemma enqueue_wakes_lemma : forall st c t w, reachable st ->
  pc_of st 0 = PNwParked c -> enqueuing st t w ->
  exists n st', n <= 6 /\ solo st t n = Some st' /\ pc_of st' 0 = PNwLoad1 c /\ wg st' = G0 /\ In w (shared st').
Proof.
  intros st c t w Hr Hp He.
  destruct (enqueue_pushes st c t w Hr Hp He) as [n1 [s1 [Hn1 [Hs1 [Hr1 [Hp1 [Hsig Hin]]]]]]].
  destruct (signal_wakes_lemma s1 c t Hr1 Hp1 Hsig) as [n2 [s2 [Hn2 [Hs2 [Hp2 [Hg2 Hsh2]]]]]].
  exists (n1 + n2), s2. split; [lia|]. split; [rewrite (solo_add n1 n2 st t s1 Hs1); exact Hs2|].
  split; [assumption|]. split; [assumption|]. rewrite Hsh2. assumption.
Qed.

(* no lost wake-up, with the distance: whenever the sleeper is parked in a blocking Fetch and an
   attached waker is asserted, some OTHER thread is in flight such that at most 6 of its own steps
   make the sleeper runnable again with a non-empty sharedList that contains the waker *)
Lemma wakeup_is_near_lemma : forall st b w, reachable st ->
  pc_of st 0 = PNwParked (CFetch b) -> attached st w -> ws st w = WAst ->
  exists t n st', t <> 0 /\ n <= 6 /\ solo st t n = Some st' /\
     pc_of st' 0 = PNwLoad1 (CFetch b) /\ wg st' = G0 /\ In w (shared st').
Proof.
  intros st b w Hr Hp Hatt Hast.
  destruct (no_lost_wakeup_lemma st Hr (ex_intro _ b Hp)) as [_ [_ H]].
  destruct (H w Hatt Hast) as [[t [Ht He]]|[Hin [t [Ht Hs]]]].
  - destruct (enqueue_wakes_lemma st _ t w Hr Hp He) as [n [st' [Hn [Hs' [Hp' [Hg' Hin']]]]]].
    exists t, n, st'. auto 10.
  - destruct (signal_wakes_lemma st _ t Hr Hp Hs) as [n [st' [Hn [Hs' [Hp' [Hg' Hsh]]]]]].
    exists t, n, st'. repeat split; try assumption; [lia|]. rewrite Hsh. assumption.
Qed.

(* no goroutine dies of a nil dereference, and commitSleep never finds a parked G already stored *)
Lemma no_panic_lemma : forall st, reachable st ->
  (forall t, pc_of st t <> PPanic) /\ (forall c, pc_of st 0 = PNwPark c -> wg st <> GPark).
Proof.
  intros st Hr. pose proof (reachable_inv st Hr) as Hinv. split; [apply (i_nopanic _ _ Hinv)|].
  intros c Hp Hg. pose proof (i_wg _ _ Hinv) as H. rewrite Hp, Hg in H. discriminate.
Qed.

(* non-vacuity of no_lost_wakeup / wakeup_is_near: a reachable state with the sleeper parked in a
   blocking Fetch, an attached asserted waker in sharedList, and its enqueuer about to signal *)
Lemma parked_with_asserted_reachable :
  exists st, reachable st /\ parked_in_fetch st /\ attached st 0 /\ ws st 0 = WAst /\
             In 0 (shared st) /\ signalling st 1.
Proof.
  eexists. split.
  - exists [[OAdd 0 7%Z; OFetch true]; [OAssert 0]], [0; 0; 0; 0; 0; 0; 0; 1; 1; 1; 1; 1; 0]. eexists.
    vm_compute. reflexivity.
  - split; [exists true; reflexivity|]. split; [left; reflexivity|]. split; [reflexivity|].
    split; [left; reflexivity|reflexivity].
Qed.

(* non-vacuity of done_detaches: Done races with an Assert, has to wait for it (parks), pulls the
   waker, returns; the waker stays asserted and a second AddWaker + Fetch delivers it *)
Lemma done_race_example :
  exists st evs,
    run (init [[OAdd 0 7%Z; ODone; OAdd 0 8%Z; OFetch true]; [OAssert 0]])
        [0; 0; 0; 1; 1; 1; 0; 0; 0; 0; 0; 0; 1; 1; 1; 1; 0; 0; 0; 0; 0; 0; 0; 0; 0; 0; 0] = Some (st, evs) /\
    In EPark evs /\ In (EPull 0) evs /\ In (ERetDone 0) evs /\ In (ERetFetch 0 0 8%Z) evs.
Proof. eexists. eexists. split; [vm_compute; reflexivity|]. simpl. tauto. Qed.
