(* Proofs about Model/Sleep.v (property C19), part 4: the property theorems, from the inductive
   invariant [inv] (Proofs/SleepBaseP.v, SleepInvP.v, SleepInv2P.v). *)
From Coq Require Import ZArith Bool List Arith Lia.
From NP Require Import Model.Sleep Model.SleepSpec Proofs.SleepBaseP Proofs.SleepInvP Proofs.SleepInv2P.
Import ListNotations.

(* states reachable from zero-valued Sleeper / Wakers under ANY client programs (any number of
   threads) and ANY schedule *)
Definition reachable (st : state) : Prop :=
  exists ps sched evs, run (init ps) sched = Some (st, evs).

Lemma run_inv : forall sched st st' evs, inv st -> run st sched = Some (st', evs) -> inv st'.
Proof.
  induction sched as [|t r IH]; intros st st' evs Hinv H; simpl in H.
  - inversion H; subst. assumption.
  - unfold run in *. simpl in H. destruct (step_gen true st t) as [[s1 e1]|] eqn:Hs; [|discriminate].
    destruct (run_gen true s1 r) as [[s2 e2]|] eqn:Hr; [|discriminate]. inversion H; subst.
    eapply IH; [|exact Hr]. eapply inv_step; eauto.
Qed.

Lemma reachable_inv : forall st, reachable st -> inv st.
Proof. intros st [ps [sched [evs H]]]. eapply run_inv; [apply inv_init|exact H]. Qed.

Lemma reachable_step : forall st t st' evs, reachable st -> step_ev st t = Some (st', evs) -> reachable st'.
Proof.
  intros st t st' evs [ps [sched [evs0 H]]] Hs. exists ps, (sched ++ [t]), (evs0 ++ evs).
  revert evs0 H. generalize (init ps). unfold run. induction sched as [|a r IH]; intros s0 evs0 H; simpl in *.
  - inversion H; subst. unfold step_ev in Hs. rewrite Hs. rewrite app_nil_r. reflexivity.
  - destruct (step_gen true s0 a) as [[s1 e1]|]; [|discriminate].
    destruct (run_gen true s1 r) as [[s2 e2]|] eqn:Hr; [|discriminate]. inversion H; subst.
    rewrite (IH s1 e2 Hr). rewrite app_assoc. reflexivity.
Qed.

(* ------------------------------------------------------------------ queued_once *)
Lemma held_only_0 : forall st w, inv st -> heldb w (pc_of st 0) = false -> countp (heldb w) (pcs st) = 0.
Proof.
  intros st w Hinv H0. destruct (countp (heldb w) (pcs st)) eqn:E; [reflexivity|].
  destruct (countp_exists (heldb w) (pcs st)) as [t [Ht Hh]]; [lia|].
  assert (t = 0).
  { apply (sleeper_is_0 _ st t Hinv). unfold pc_of. destruct (nth t (pcs st) PIdle); simpl in Hh; try discriminate. reflexivity. }
  subst. unfold pc_of in H0. congruence.
Qed.

Lemma no_pusher : forall st w, countp (pusherb w) (pcs st) = 0 -> forall t, pusherb w (pc_of st t) = false.
Proof.
  intros st w H t. destruct (pusherb w (pc_of st t)) eqn:E; [|reflexivity].
  destruct (Nat.lt_ge_cases t (length (pcs st))) as [Hlt|Hge].
  - exfalso. eapply countp_zero; eauto.
  - rewrite pc_of_out in E by lia. discriminate.
Qed.

Lemma queued_once_lemma : forall st, reachable st ->
  NoDup (shared st ++ local st) /\
  forall w, In w (shared st ++ local st) ->
    ws st w <> WSlp /\ (forall t, pusherb w (pc_of st t) = false) /\ heldb w (pc_of st 0) = false.
Proof.
  intros st Hr. pose proof (reachable_inv st Hr) as Hinv. split.
  - apply cnt_NoDup. intros w. pose proof (i_tok _ _ Hinv w) as Hw. unfold tok_ok, tok in Hw.
    rewrite cnt_app. destruct (attb st w); intuition lia.
  - intros w Hin. apply cnt_In in Hin. rewrite cnt_app in Hin.
    pose proof (i_tok _ _ Hinv w) as Hw. unfold tok_ok, tok in Hw.
    assert (Hs : ws st w <> WSlp /\ countp (heldb w) (pcs st) = 0 /\ countp (pusherb w) (pcs st) = 0).
    { destruct (attb st w); intuition lia. }
    destruct Hs as [Hs [Hh Hp]]. split; [assumption|]. split; [apply no_pusher; assumption|].
    destruct (heldb w (pc_of st 0)) eqn:E; [|reflexivity].
    exfalso. destruct (Nat.lt_ge_cases 0 (length (pcs st))).
    + eapply (countp_zero (heldb w)); eauto.
    + rewrite pc_of_out in E by lia. discriminate.
Qed.
