(* The RFC 815 invariant of one reassembler fed with fragments of a datagram D, and the main
   result at reassembler level: the datagram comes out exactly when the fragments seen so far
   cover it, and it is D byte for byte. *)
From Coq Require Import ZArith Bool List Lia Permutation ZifyBool.
From NP Require Import Model.Frag Proofs.FragListP Proofs.FragHeapP Proofs.FragHolesP.
Import ListNotations.
Open Scope Z_scope.

(* x is covered by one of the fragments *)
Definition cov (seen : list fragin) (x : Z) : Prop :=
  exists f, In f seen /\ i_first f <= x <= i_last f.

Lemma cov_dec : forall seen x, cov seen x \/ ~ cov seen x.
Proof.
  induction seen as [|f t IH]; intros x.
  - right. intros [f [[] _]].
  - destruct (IH x) as [[g [Hin Hx]]|Hn].
    + left. exists g. split; [now right|auto].
    + destruct (Z_le_dec (i_first f) x) as [A|A]; [destruct (Z_le_dec x (i_last f)) as [B|B]|].
      * left. exists f. split; [now left|lia].
      * right. intros [g [[<-|Hin] Hx]]; [lia|]. apply Hn. exists g. auto.
      * right. intros [g [[<-|Hin] Hx]]; [lia|]. apply Hn. exists g. auto.
Qed.

Lemma cov_app1 : forall seen f x, cov (seen ++ [f]) x <-> cov seen x \/ i_first f <= x <= i_last f.
Proof.
  intros seen f x. unfold cov. split.
  - intros [g [Hin Hx]]. apply in_app_or in Hin. destruct Hin as [Hin|[<-|[]]]; [left; eauto|right; auto].
  - intros [[g [Hin Hx]]|Hx].
    + exists g. split; [apply in_or_app; now left|auto].
    + exists f. split; [apply in_or_app; right; now left|auto].
Qed.

Lemma covers_cov : forall fs n, covers fs n <-> (forall x, 0 <= x < n -> cov fs x).
Proof. intros. reflexivity. Qed.

(* ------------------------------------------------------------------ a completed reassembler
   The state in which the call that delivered the datagram leaves the reassembler until
   Fragmentation.release marks it done: every hole deleted, the heap emptied by reassemble.
   Sequentially no call ever sees it (release follows in the same Process call); concurrently
   another goroutine holding the same *reassembler can (Model/FragConc.v).  Whatever the arguments,
   such a call fills no hole, stores nothing, passes the [r.deleted < len(r.holes)] test and takes
   the [r.heap.Len() == 0] return added by commit 3ed1739: it returns not-done with no bytes and
   leaves the reassembler as it was. *)
Record RComp (r : reasm) : Prop := {
  rc_done : r_done r = false;
  rc_all : Forall (fun h => h_del h = true) (r_holes r);
  rc_del : Z.of_nat (length (r_holes r)) <= r_deleted r;
  rc_heap : r_heap r = []
}.

Lemma uh_loop_all_deleted : forall hs first last more,
  Forall (fun h => h_del h = true) hs -> uh_loop hs first last more = (hs, [], 0, false).
Proof.
  induction hs as [|h t IH]; intros first last more Hall; [reflexivity|].
  inversion Hall as [|? ? Hh Ht]; subst.
  rewrite uh_loop_cons, (IH _ _ _ Ht), Hh. reflexivity.
Qed.

Lemma ndel_all_deleted : forall hs, Z.of_nat (length hs) <= ndel hs -> Forall (fun h => h_del h = true) hs.
Proof.
  induction hs as [|h t IH]; intros H; [constructor|].
  rewrite ndel_cons in H. cbn [length] in H. pose proof (ndel_bounds t) as Hb.
  destruct (h_del h) eqn:E; [|lia]. constructor; [exact E|apply IH; lia].
Qed.

Lemma rprocess_completed : forall r first last more pl, RComp r ->
  rprocess r first last more pl = (r, mkPres [] false 0 false false).
Proof.
  intros r first last more pl [Hd Hall Hdel Hheap].
  unfold rprocess, updateHoles. rewrite Hd, (uh_loop_all_deleted _ _ _ _ Hall).
  rewrite app_nil_r, Z.add_0_r.
  destruct r as [id sz holes del hp dn ct]. cbn [r_id r_size r_holes r_deleted r_heap r_done r_ctime] in *.
  subst hp dn.
  destruct (Z.ltb_spec del (Z.of_nat (length holes))) as [Hlt|_]; [lia|].
  reflexivity.
Qed.

(* a reassembler marked done (by Fragmentation.release): process returns at once *)
Lemma rprocess_done : forall r first last more pl, r_done r = true ->
  rprocess r first last more pl = (r, mkPres [] false 0 false false).
Proof. intros r first last more pl Hd. unfold rprocess. now rewrite Hd. Qed.

Lemma rprocess_completed_or_done : forall r first last more pl,
  RComp r \/ r_done r = true ->
  rprocess r first last more pl = (r, mkPres [] false 0 false false).
Proof. intros r first last more pl [H|H]; [apply rprocess_completed|apply rprocess_done]; exact H. Qed.

Section Datagram.
  Variable D : list Z.
  Let n := zlen D.
  Hypothesis Hn : 1 <= n <= 65535.

  (* a stored fragment is a non-empty slice of D *)
  Definition slice_of (it : frag) : Prop :=
    0 <= fr_off it /\ 1 <= zlen (fr_pl it) /\ fr_off it + zlen (fr_pl it) <= n /\
    fr_pl it = slice D (fr_off it) (zlen (fr_pl it)).
  Definition it_covers (it : frag) (x : Z) : Prop := fr_off it <= x < fr_off it + zlen (fr_pl it).

  (* -------------------------------------------------------------- reassemble *)
  Lemma reasm_loop_ok : forall fuel h size acc,
    (length h <= fuel)%nat -> heap_ok h (length h) -> Forall slice_of h ->
    0 <= size <= n -> acc = ztake size D ->
    (forall x, size <= x < n -> exists it, In it h /\ it_covers it x) ->
    reasm_loop fuel h size acc = (ROk D, []).
  Proof.
    induction fuel as [|f IH]; intros h size acc Hfuel Hok Hsl Hsz Hacc Hcov.
    - destruct h as [|a t]; [|simpl in Hfuel; lia].
      cbn [reasm_loop]. f_equal. f_equal.
      assert (size = n).
      { destruct (Z.eq_dec size n); auto. destruct (Hcov size ltac:(lia)) as [it [[] _]]. }
      subst acc size. apply ztake_all. lia.
    - destruct h as [|a t] eqn:Eh.
      + cbn [reasm_loop]. f_equal. f_equal.
        assert (size = n).
        { destruct (Z.eq_dec size n); auto. destruct (Hcov size ltac:(lia)) as [it [[] _]]. }
        subst acc size. apply ztake_all. lia.
      + rewrite <- Eh in *. assert (Hne : h <> []) by (rewrite Eh; discriminate).
        destruct (heap_pop_spec h Hne Hok) as (x & h' & Epop & Ex & Hperm & Hok' & Hmin & Hlen).
        assert (Hinx : In x h) by (eapply Permutation_in; [apply Permutation_sym; apply Hperm|now left]).
        assert (Hsx : slice_of x) by (rewrite Forall_forall in Hsl; auto).
        assert (Hsl' : Forall slice_of h').
        { rewrite Forall_forall in *. intros y Hy. apply Hsl.
          eapply Permutation_in; [apply Permutation_sym; apply Hperm|now right]. }
        destruct Hsx as (O0 & L1 & OL & Epl).
        set (off := fr_off x) in *. set (len := zlen (fr_pl x)) in *.
        assert (Hoff : off <= size).
        { destruct (Z.eq_dec size n) as [->|Hlt]; [lia|].
          destruct (Hcov size ltac:(lia)) as [it [Hin Hc]].
          assert (Hin' : In it (x :: h')) by (eapply Permutation_in; eauto).
          destruct Hin' as [<-|Hin']; [unfold it_covers in Hc; fold off in Hc; lia|].
          pose proof (Hmin it Hin'). unfold it_covers in Hc. fold off in H. lia. }
        (* coverage carries over to the rest once size has advanced to max size (off+len) *)
        assert (Hcov' : forall s', size <= s' -> off + len <= s' ->
                  forall y, s' <= y < n -> exists it, In it h' /\ it_covers it y).
        { intros s' H1 H2 y Hy. destruct (Hcov y ltac:(lia)) as [it [Hin Hc]].
          assert (Hin' : In it (x :: h')) by (eapply Permutation_in; eauto).
          destruct Hin' as [<-|Hin']; [unfold it_covers in Hc; fold off len in Hc; lia|]. eauto. }
        rewrite Eh. cbn [reasm_loop]. rewrite <- Eh. rewrite Epop. fold off.
        destruct (Z.ltb_spec off size) as [Hlt|Hge].
        * rewrite Epl. fold off len. rewrite trim_slice by lia.
          destruct (Z_le_dec (off + len - size) 0) as [Hz|Hz].
          -- rewrite ztake_nonpos by lia. cbn [zlen]. rewrite app_nil_r, Z.add_0_r.
             apply IH; auto; try lia. apply Hcov'; lia.
          -- assert (Hl : zlen (ztake (off + len - size) (zdrop size D)) = off + len - size).
             { rewrite zlen_ztake by lia. rewrite zlen_zdrop by lia. fold n. lia. }
             rewrite Hl. apply IH; auto; try lia.
             ++ subst acc. rewrite ztake_split by lia. reflexivity.
             ++ apply Hcov'; lia.
        * destruct (Z.ltb_spec size off) as [Hlt2|_]; [lia|].
          assert (off = size) by lia.
          apply IH; auto; try lia.
          -- fold len. rewrite Epl. unfold slice. rewrite H. subst acc.
             rewrite ztake_split by lia. reflexivity.
          -- fold len. apply Hcov'; lia.
  Qed.

  Lemma reassemble_ok : forall h,
    heap_ok h (length h) -> Forall slice_of h ->
    (forall x, 0 <= x < n -> exists it, In it h /\ it_covers it x) ->
    reassemble h = (ROk D, []).
  Proof.
    intros h Hok Hsl Hcov.
    assert (Hne : h <> []).
    { destruct (Hcov 0 ltac:(lia)) as [it [Hin _]]. intros ->. destruct Hin. }
    destruct (heap_pop_spec h Hne Hok) as (x & h' & Epop & Ex & Hperm & Hok' & Hmin & Hlen).
    unfold reassemble. rewrite Epop.
    assert (Hinx : In x h) by (eapply Permutation_in; [apply Permutation_sym; apply Hperm|now left]).
    assert (Hsx : slice_of x) by (rewrite Forall_forall in Hsl; auto).
    destruct Hsx as (O0 & L1 & OL & Epl).
    assert (H0 : fr_off x = 0).
    { destruct (Hcov 0 ltac:(lia)) as [it [Hin Hc]].
      assert (Hin' : In it (x :: h')) by (eapply Permutation_in; eauto).
      destruct Hin' as [<-|Hin']; [unfold it_covers in Hc; lia|].
      pose proof (Hmin it Hin'). unfold it_covers in Hc. lia. }
    rewrite H0. cbn [Z.eqb negb].
    apply reasm_loop_ok; auto; try lia.
    - rewrite Forall_forall in *. intros y Hy. apply Hsl.
      eapply Permutation_in; [apply Permutation_sym; apply Hperm|now right].
    - rewrite Epl at 1. rewrite H0. unfold slice. now rewrite zdrop_nonpos by lia.
    - intros y Hy. destruct (Hcov y ltac:(lia)) as [it [Hin Hc]].
      assert (Hin' : In it (x :: h')) by (eapply Permutation_in; eauto).
      destruct Hin' as [<-|Hin']; [unfold it_covers in Hc; lia|]. eauto.
  Qed.

  (* the result does not depend on how the heap array happens to be arranged (in particular on the
     order in which fragments with equal offsets are popped) *)
  Lemma reassemble_tie_independent : forall h1 h2,
    Permutation h1 h2 -> heap_ok h1 (length h1) -> heap_ok h2 (length h2) -> Forall slice_of h1 ->
    (forall x, 0 <= x < n -> exists it, In it h1 /\ it_covers it x) ->
    reassemble h1 = reassemble h2.
  Proof.
    intros h1 h2 Hp Hok1 Hok2 Hsl Hcov.
    rewrite (reassemble_ok h1), (reassemble_ok h2); auto.
    - rewrite Forall_forall in *. intros y Hy. apply Hsl. eapply Permutation_in; [apply Permutation_sym|]; eauto.
    - intros x Hx. destruct (Hcov x Hx) as [it [Hin Hc]]. exists it. split; auto. eapply Permutation_in; eauto.
  Qed.

  (* -------------------------------------------------------------- the invariant *)
  Record RInv (r : reasm) (seen : list fragin) : Prop := {
    ri_seen : Forall (frag_of D) seen;
    ri_done : r_done r = false;
    ri_wf : Forall hole_wf (r_holes r);
    ri_first : forall h, In h (r_holes r) -> h_del h = false -> h_first h < n;
    ri_del : r_deleted r = ndel (r_holes r);
    (* RFC 815: the live holes are exactly the uncovered positions of [0,E], E = 65535 until a
       fragment ending the datagram has been seen (then n-1 is covered) and n-1 afterwards *)
    ri_live : forall x, live_at (r_holes r) x <->
                (~ cov seen x /\ 0 <= x <= 65535 /\ (cov seen (n - 1) -> x <= n - 1));
    ri_heap_ok : heap_ok (r_heap r) (length (r_heap r));
    ri_slices : Forall slice_of (r_heap r);
    ri_cover : forall x, (exists it, In it (r_heap r) /\ it_covers it x) <-> cov seen x
  }.

  Lemma RInv_new : forall id now, RInv (newReassembler id now) [].
  Proof.
    intros id now. constructor; cbn; auto.
    - constructor; [|constructor]. unfold hole_wf; cbn. lia.
    - intros h [<-|[]] _. cbn. lia.
    - intros x. unfold live_at, cov. cbn. split.
      + intros [h [[<-|[]] [_ Hx]]]. cbn in Hx. split; [intros [f [[] _]]|]. split; [lia|]. intros [f [[] _]].
      + intros [_ [Hx _]]. eexists. split; [now left|]. cbn. lia.
    - intros p c Hc. lia.
    - intros x. split; [intros [it [[] _]]|intros [f [[] _]]].
  Qed.

  Lemma cov_le : forall seen x, Forall (frag_of D) seen -> cov seen x -> 0 <= x <= n - 1.
  Proof.
    intros seen x Hall [f [Hin Hx]]. rewrite Forall_forall in Hall.
    destruct (Hall f Hin) as (A & _ & B & C & _). fold n in C. lia.
  Qed.

  (* the state after updateHoles and the conditional Push satisfies the invariant for seen ++ [f] *)
  Lemma rinv_after : forall r seen f r1 used,
    RInv r seen -> frag_of D f ->
    updateHoles r (i_first f) (i_last f) (i_more f) = (r1, used) ->
    let r2 := if used then
                mkReasm (r_id r1) (r_size r1 + zlen (i_pl f)) (r_holes r1) (r_deleted r1)
                        (heap_push (r_heap r1) (mkFrag (i_first f) (i_pl f))) (r_done r1) (r_ctime r1)
              else r1 in
    RInv r2 (seen ++ [f]).
  Proof.
    intros r seen f r1 used I Hf E r2.
    destruct I as [Iseen Idone Iwf Ifirst Idel Ilive Ihok Isl Icov].
    pose proof Hf as Hf'.
    destruct Hf' as (F0 & F8 & Fab & Fbn & Fpl & Fmore). fold n in Fbn, Fmore.
    set (a := i_first f) in *. set (b := i_last f) in *.
    destruct (updateHoles_spec r a b (i_more f) r1 used ltac:(lia) ltac:(lia) Iwf Idel E)
      as (W1 & D1 & Eid & Esz & Ehp & Edn & Ect & Llen & U1 & U2 & L1).
    assert (First1 : forall h, In h (r_holes r1) -> h_del h = false -> h_first h < n).
    { apply (updateHoles_first (fun z => z < n) r a b (i_more f) r1 used);
        [lia | intros Hm; rewrite Hm in Fmore; lia | exact Iwf | exact Ifirst | exact E]. }
    assert (Seen' : Forall (frag_of D) (seen ++ [f])) by (apply Forall_app; split; auto).
    (* the live holes of r1 against the coverage of seen ++ [f] *)
    assert (Live1 : forall x, live_at (r_holes r1) x <->
              (~ cov (seen ++ [f]) x /\ 0 <= x <= 65535 /\ (cov (seen ++ [f]) (n - 1) -> x <= n - 1))).
    { intros x. rewrite L1. rewrite !cov_app1. fold a b. split.
      - intros [h [Hin [Hd [Hx R]]]].
        assert (Hl : live_at (r_holes r) x) by (exists h; auto).
        apply Ilive in Hl. destruct Hl as (C1 & C2 & C3).
        pose proof (Ifirst h Hin Hd) as Hfn.
        assert (Hnab : ~ (a <= x <= b)).
        { intros Hab. assert (Ho : overlaps h a b) by (unfold overlaps; lia). specialize (R Ho). lia. }
        split; [tauto|]. split; [auto|].
        intros [Hc|Hab]; [auto|].
        (* f ends the datagram: b = n-1, more = false *)
        assert (b = n - 1) by lia. assert (Hm : i_more f = false) by lia.
        destruct (Z_le_dec a (h_last h)) as [A|A]; [destruct (Z_le_dec (h_first h) b) as [B|B]|]; try lia.
        assert (Ho : overlaps h a b) by (unfold overlaps; lia). specialize (R Ho).
        rewrite Hm in R. destruct R as [R|[_ R]]; [lia|congruence].
      - intros (C1 & C2 & C3).
        assert (Hl : live_at (r_holes r) x).
        { apply Ilive. split; [tauto|]. split; [auto|]. intros Hc. apply C3. now left. }
        destruct Hl as [h [Hin [Hd Hx]]]. exists h. repeat split; auto; try lia. }
    assert (Hpl : zlen (i_pl f) = b - a + 1).
    { rewrite Fpl. fold a b. apply zlen_slice; lia. }
    destruct used.
    - (* the fragment filled part of a hole: it is stored *)
      destruct (heap_push_spec (r_heap r1) (mkFrag a (i_pl f))) as [Hok' Hperm'].
      { rewrite Ehp. auto. }
      subst r2. constructor; cbn; auto.
      + rewrite Edn. auto.
      + rewrite Forall_forall. intros y Hy.
        assert (Hy' : In y (mkFrag a (i_pl f) :: r_heap r1)).
        { eapply Permutation_in; [apply Permutation_sym; apply Hperm'|auto]. }
        destruct Hy' as [<-|Hy'].
        * unfold slice_of. cbn. rewrite Hpl. repeat split; try lia. rewrite Fpl at 1. fold a b. reflexivity.
        * rewrite Ehp in Hy'. rewrite Forall_forall in Isl. auto.
      + intros x. rewrite cov_app1. fold a b. rewrite <- Icov. split.
        * intros [it [Hin Hc]].
          assert (Hin' : In it (mkFrag a (i_pl f) :: r_heap r1)).
          { eapply Permutation_in; [apply Permutation_sym; apply Hperm'|auto]. }
          destruct Hin' as [<-|Hin'].
          -- right. unfold it_covers in Hc. cbn in Hc. lia.
          -- left. exists it. rewrite <- Ehp. auto.
        * intros [[it [Hin Hc]]|Hab].
          -- exists it. split; auto. eapply Permutation_in; [apply Hperm'|]. right. now rewrite Ehp.
          -- exists (mkFrag a (i_pl f)). split.
             ++ eapply Permutation_in; [apply Hperm'|]. now left.
             ++ unfold it_covers. cbn. lia.
    - (* nothing new: every byte of the fragment was already covered *)
      assert (Hsub : forall x, a <= x <= b -> cov seen x).
      { intros x Hx. destruct (cov_dec seen x) as [C|C]; auto. exfalso.
        assert (Hl : live_at (r_holes r) x).
        { apply Ilive. split; [auto|]. split; [lia|]. intros _. lia. }
        destruct Hl as [h [Hin [Hd Hxh]]].
        assert (Hu : false = true).
        { apply U1. exists h. repeat split; auto; unfold overlaps; lia. }
        congruence. }
      subst r2. constructor; auto.
      + rewrite Edn. auto.
      + rewrite Ehp. auto.
      + rewrite Ehp. auto.
      + intros x. rewrite Ehp, cov_app1, Icov. fold a b. split; [tauto|]. intros [C|C]; auto.
  Qed.

  (* no live hole <-> the fragments cover the datagram *)
  Lemma nolive_iff_covers : forall r seen, RInv r seen ->
    (r_deleted r <? Z.of_nat (length (r_holes r)) = false <-> covers seen n).
  Proof.
    intros r seen I. destruct I as [Iseen Idone Iwf Ifirst Idel Ilive Ihok Isl Icov].
    rewrite Idel. split.
    - intros Ht x Hx.
      assert (Hnl : forall y, ~ live_at (r_holes r) y).
      { intros y [h [Hin [Hd _]]].
        assert (ndel (r_holes r) < Z.of_nat (length (r_holes r))) by (apply ndel_lt_iff_live; eauto). lia. }
      assert (Hlast : cov seen (n - 1)).
      { destruct (cov_dec seen (n - 1)) as [C|C]; auto. exfalso.
        apply (Hnl 65535). apply Ilive. split.
        - intros C'. apply cov_le in C'; auto. lia.
        - split; [lia|]. intros C'. contradiction. }
      destruct (cov_dec seen x) as [C|C]; auto. exfalso.
      apply (Hnl x). apply Ilive. split; [auto|]. split; [lia|]. intros _. lia.
    - intros Hc.
      destruct (Z.ltb_spec (ndel (r_holes r)) (Z.of_nat (length (r_holes r)))) as [Hlt|]; auto. exfalso.
      apply ndel_lt_iff_live in Hlt. destruct Hlt as [h [Hin Hd]].
      rewrite Forall_forall in Iwf. destruct (Iwf h Hin) as (B1 & B2 & B3). specialize (B3 Hd).
      assert (Hl : live_at (r_holes r) (h_first h)) by (exists h; repeat split; auto; lia).
      apply Ilive in Hl. destruct Hl as (C1 & C2 & C3).
      assert (h_first h <= n - 1) by (apply C3; apply Hc; lia).
      apply C1. apply Hc. lia.
  Qed.

  (* one call of reassembler.process on a fragment of D *)
  Lemma rprocess_step : forall r seen f r' o,
    RInv r seen -> frag_of D f ->
    rprocess r (i_first f) (i_last f) (i_more f) (i_pl f) = (r', o) ->
    p_panic o = false /\ p_err o = false /\ 0 <= p_consumed o <= zlen (i_pl f) /\
    ((covers (seen ++ [f]) n /\ p_done o = true /\ p_res o = D /\ RComp r') \/
     (~ covers (seen ++ [f]) n /\ p_done o = false /\ p_res o = [] /\ RInv r' (seen ++ [f]))).
  Proof.
    intros r seen f r' o I Hf E.
    unfold rprocess in E. rewrite (ri_done _ _ I) in E.
    destruct (updateHoles r (i_first f) (i_last f) (i_more f)) as [r1 used] eqn:Eu.
    pose proof (rinv_after r seen f r1 used I Hf Eu) as I2. cbv zeta in I2.
    pose proof (zlen_nonneg (i_pl f)) as Hpl0.
    set (r2 := if used then
                mkReasm (r_id r1) (r_size r1 + zlen (i_pl f)) (r_holes r1) (r_deleted r1)
                        (heap_push (r_heap r1) (mkFrag (i_first f) (i_pl f))) (r_done r1) (r_ctime r1)
              else r1) in *.
    set (consumed := if used then zlen (i_pl f) else 0).
    assert (E2 : (if used then
               (mkReasm (r_id r1) (r_size r1 + zlen (i_pl f)) (r_holes r1) (r_deleted r1)
                        (heap_push (r_heap r1) (mkFrag (i_first f) (i_pl f))) (r_done r1) (r_ctime r1), zlen (i_pl f))
             else (r1, 0)) = (r2, consumed)) by (unfold r2, consumed; destruct used; reflexivity).
    rewrite E2 in E. clear E2.
    assert (Hc : 0 <= consumed <= zlen (i_pl f)) by (unfold consumed; destruct used; lia).
    pose proof (nolive_iff_covers r2 _ I2) as Hiff.
    destruct (r_deleted r2 <? Z.of_nat (length (r_holes r2))) eqn:Et.
    - injection E as <- <-. cbn [p_panic p_err p_consumed p_done p_res].
      split; [reflexivity|]. split; [reflexivity|]. split; [lia|].
      right. split; [intros Hcv; apply Hiff in Hcv; congruence|].
      split; [reflexivity|]. split; [reflexivity|exact I2].
    - assert (Hcv : covers (seen ++ [f]) n) by (apply Hiff; auto).
      (* position 0 is covered, so a fragment is stored: not the empty-heap branch *)
      destruct (length (r_heap r2) =? 0)%nat eqn:Eemp.
      { exfalso. apply Nat.eqb_eq, length_zero_iff_nil in Eemp.
        destruct (proj2 (ri_cover _ _ I2 0) (Hcv 0 ltac:(lia))) as [it [Hin _]].
        rewrite Eemp in Hin. destruct Hin. }
      rewrite (reassemble_ok (r_heap r2)) in E.
      + injection E as <- <-. cbn [p_panic p_err p_consumed p_done p_res].
        split; [reflexivity|]. split; [reflexivity|]. split; [lia|].
        left. split; [exact Hcv|]. split; [reflexivity|]. split; [reflexivity|].
        constructor; cbn [set_heap r_done r_holes r_deleted r_heap].
        * apply (ri_done _ _ I2).
        * apply ndel_all_deleted. rewrite <- (ri_del _ _ I2). lia.
        * lia.
        * reflexivity.
      + apply (ri_heap_ok _ _ I2).
      + apply (ri_slices _ _ I2).
      + intros x Hx. apply (ri_cover _ _ I2). apply Hcv. auto.
  Qed.
End Datagram.

(* ------------------------------------------------------------------ feeding a reassembler *)
(* the outputs of successive calls of reassembler.process (the reassembler is threaded through) *)
Fixpoint run_r (r : reasm) (fs : list fragin) : list pres :=
  match fs with
  | [] => []
  | f :: t =>
      let '(r', o) := rprocess r (i_first f) (i_last f) (i_more f) (i_pl f) in o :: run_r r' t
  end.

Definition dpres : pres := mkPres [] false 0 false false.

Lemma run_r_spec : forall D, 1 <= zlen D <= 65535 ->
  forall fs r seen, RInv D r seen -> Forall (frag_of D) fs ->
  forall k, (k < length fs)%nat ->
    (forall j, (j < k)%nat -> ~ covers (seen ++ firstn (S j) fs) (zlen D)) ->
    let o := nth k (run_r r fs) dpres in
    p_panic o = false /\ p_err o = false /\
    (covers (seen ++ firstn (S k) fs) (zlen D) -> p_done o = true /\ p_res o = D) /\
    (~ covers (seen ++ firstn (S k) fs) (zlen D) -> p_done o = false /\ p_res o = []).
Proof.
  intros D Hn. induction fs as [|f t IH]; intros r seen I Hall k Hk Hbefore; [simpl in Hk; lia|].
  inversion Hall as [|? ? Hf Ht]; subst.
  cbn [run_r].
  destruct (rprocess r (i_first f) (i_last f) (i_more f) (i_pl f)) as [r' o] eqn:E.
  destruct (rprocess_step D Hn r seen f r' o I Hf E) as (P1 & P2 & P3 & Hcase).
  destruct k as [|k].
  - cbn [nth firstn]. split; [auto|]. split; [auto|].
    destruct Hcase as [(C & Dn & R & _)|(C & Dn & R & _)]; split; intros; try tauto; auto.
  - cbn [nth].
    destruct Hcase as [(C & _)|(C & Dn & R & I')].
    + exfalso. apply (Hbefore 0%nat ltac:(lia)). cbn [firstn]. auto.
    + assert (Eq : forall j, seen ++ firstn (S (S j)) (f :: t) = (seen ++ [f]) ++ firstn (S j) t).
      { intros j. cbn [firstn]. rewrite <- app_assoc. reflexivity. }
      rewrite Eq. apply IH; auto.
      * simpl in Hk. lia.
      * intros j Hj. rewrite <- Eq. apply Hbefore. lia.
Qed.
