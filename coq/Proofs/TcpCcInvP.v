(* C05, part 2: the congestion-control invariant over all runs of Model.Tcp.step.
   Ghost counters computed from the event history (spec vocabulary, independent of the sender
   functions): A = write-list segments wholly covered by new acknowledgements, D = duplicate ACKs.
   Invariant [CC s B] with B = 10 + A + D:  1 <= cwnd <= B, 2 <= ssthresh, 0 <= outstanding <= B,
   rto >= 200 ms, plus the potential that makes it inductive for reno.go's congestion avoidance
   (sndCAAckCount is NOT reset when cwnd shrinks, so the next Update may add caCount/cwnd at once:
   the invariant carries cwnd + caCount/cwnd <= B). *)
From Coq Require Import ZArith List Bool Lia ZifyBool.
From RecordUpdate Require Import RecordSet.
From NP Require Import Model.Seqnum Model.GoHeap Model.Tcp Proofs.SeqnumP Proofs.TcpCcP.
Import ListNotations RecordSetNotations.
Open Scope Z_scope.

(* ------------------------------------------------------------------ spec vocabulary *)

(* number of leading write-list segments wholly covered by k newly acknowledged bytes *)
Fixpoint covered (l : list wseg) (k : Z) : Z :=
  match l with
  | [] => 0
  | w :: r => if 0 <? k then (if k <? wlogicalLen w then 0 else 1 + covered r (k - wlogicalLen w)) else 0
  end.

(* sequence space occupied by an inbound segment: 0 iff no data, no SYN, no FIN *)
Definition seglen (sg : seg) : Z := plogicalLen (s_flags sg) (s_data sg).

(* the segment reaches the sender's ACK processing: connection up, no RST, ACK flag set,
   and (when timestamps were negotiated) it carries the option *)
Definition processed (t : tcp) (sg : seg) : bool :=
  (estate t =? stConnected) && negb (has (s_flags sg) fRst) && has (s_flags sg) fAck &&
  negb (tsOk t && negb (s_ts sg)).

Definition wndOf (t : tcp) (sg : seg) : Z := u32 (Z.shiftl (s_wnd sg) (sndWndScale (SN t))).

(* duplicate ACK: occupies no sequence space, advertises the window already known, and its ack
   number is the left edge of the send window while data is outstanding - or, during fast
   recovery, the recovery point fr.first (equal to sndUna whenever the two are in step, see
   [isDup_strict]) *)
Definition isDup (s : sndr) (sg : seg) (wnd : Z) : bool :=
  (seglen sg =? 0) && (wnd =? sndWnd s) &&
  (((s_ack sg =? sndUna s) && negb (sndUna s =? sndNxt s)) || (frActive s && (s_ack sg =? frFirst s))).

Definition isDupStrict (s : sndr) (sg : seg) (wnd : Z) : bool :=
  (seglen sg =? 0) && (wnd =? sndWnd s) && (s_ack sg =? sndUna s) && negb (sndUna s =? sndNxt s).

Lemma isDup_strict s sg wnd :
  (frActive s = true -> frFirst s = sndUna s /\ sndUna s <> sndNxt s) -> isDup s sg wnd = isDupStrict s sg wnd.
Proof.
  intros H. unfold isDup, isDupStrict.
  destruct (seglen sg =? 0); cbn [andb]; [|reflexivity].
  destruct (wnd =? sndWnd s); cbn [andb]; [|reflexivity].
  destruct (frActive s); cbn [andb orb]; [|rewrite orb_false_r; reflexivity].
  destruct (H eq_refl) as (E & N). rewrite E.
  destruct (s_ack sg =? sndUna s); cbn; [|reflexivity].
  destruct (sndUna s =? sndNxt s) eqn:EQ; [lia|reflexivity].
Qed.

(* segments newly acknowledged by this ACK: it acknowledges new data (sndUna < ack <= sndNxt) *)
Definition ackedSegs (s : sndr) (sg : seg) : Z :=
  if inRange (u32 (s_ack sg - 1)) (sndUna s) (sndNxt s)
  then covered (wsent s ++ wunsent s) (size (sndUna s) (s_ack sg)) else 0.

Record ghost := mkG { gA : Z; gD : Z; gAckSeen : bool; gRto : Z }.
Definition g0 := mkG 0 0 false 0.

Definition gstep (t : tcp) (e : event) (g : ghost) : ghost :=
  match e with
  | ESeg sg _ =>
      if processed t sg then
        mkG (gA g + ackedSegs (SN t) sg)
            (gD g + (if isDup (SN t) sg (wndOf t sg) then 1 else 0)) true (gRto g)
      else g
  | ERto => if (estate t =? stConnected) && (tstate (SN t) =? tEnabled)
            then mkG (gA g) (gD g) (gAckSeen g) (gRto g + 1) else g
  | _ => g
  end.

Fixpoint grun (t : tcp) (g : ghost) (es : list event) : tcp * ghost :=
  match es with
  | [] => (t, g)
  | e :: r => grun (fst (step t e)) (gstep t e g) r
  end.

Lemma grun_run es : forall t g, fst (grun t g es) = run t es.
Proof. induction es as [|e r IH]; intros t g; cbn; [reflexivity|]. rewrite IH. reflexivity. Qed.

Definition bnd (g : ghost) : Z := InitialCwnd + gA g + gD g.

(* ------------------------------------------------------------------ the invariant *)

Definition CC (s : sndr) (B : Z) : Prop :=
  10 <= B /\ 1 <= cwnd s <= B /\ 2 <= ssthresh s /\ 0 <= outstanding s <= B /\ 0 <= caCount s < B /\
  minRTO <= rto s /\
  (if frActive s then ssthresh s + caCount s / ssthresh s <= B else cwnd s + caCount s / cwnd s <= B).

Lemma CC_mono s B B' : CC s B -> B <= B' -> CC s B'.
Proof.
  unfold CC. intros (H1 & H2 & H3 & H4 & H5 & H6 & H7) L.
  repeat split; try lia. destruct (frActive s) eqn:EF; lia.
Qed.

(* CC only looks at six fields *)
Lemma CC_ext s s' B :
  frActive s' = frActive s -> cwnd s' = cwnd s -> ssthresh s' = ssthresh s -> caCount s' = caCount s ->
  rto s' = rto s -> 0 <= outstanding s' <= Z.max (outstanding s) (cwnd s) -> CC s B -> CC s' B.
Proof.
  unfold CC. intros E1 E2 E3 E4 E5 O (H1 & H2 & H3 & H4 & H5 & H6 & H7).
  rewrite E1, E2, E3, E4, E5. repeat split; try lia.
Qed.

Lemma CC_ext_rto s s' B :
  frActive s' = frActive s -> cwnd s' = cwnd s -> ssthresh s' = ssthresh s -> caCount s' = caCount s ->
  minRTO <= rto s' -> 0 <= outstanding s' <= Z.max (outstanding s) (cwnd s) -> CC s B -> CC s' B.
Proof.
  unfold CC. intros E1 E2 E3 E4 E5 O (H1 & H2 & H3 & H4 & H5 & H6 & H7).
  rewrite E1, E2, E3, E4. repeat split; try lia.
Qed.

Lemma CC_core s s' B : core s' = core s -> CC s B -> CC s' B.
Proof.
  intros C H. coref C. eapply CC_ext; eauto. unfold CC in H. lia.
Qed.

Lemma CC_loop s s' B x :
  loopfields (s <| tstate := x |>) s' -> outstanding s <= outstanding s' <= Z.max (outstanding s) (cwnd s) ->
  CC s B -> CC s' B.
Proof.
  intros L O H. loopf L. cbn in *. eapply CC_ext; eauto. unfold CC in H. lia.
Qed.

(* ------------------------------------------------------------------ reno.go *)

Lemma div_add_le a n c : 0 <= a -> 0 <= n -> 1 <= c -> (a + n) / c <= a / c + n.
Proof.
  intros Ha Hn Hc.
  assert (H : (a + n) / c < a / c + n + 1); [|lia].
  apply Z.div_lt_upper_bound; [lia|].
  pose proof (Z.div_mod a c ltac:(lia)). pose proof (Z.mod_pos_bound a c ltac:(lia)). nia.
Qed.

Definition psi (s : sndr) : Z := cwnd s + caCount s / cwnd s.

Lemma renoCA_pot s n :
  1 <= cwnd s -> 0 <= caCount s -> 0 <= n ->
  let s' := renoCA s n in
  cwnd s <= cwnd s' /\ 0 <= caCount s' /\ psi s' <= psi s + n /\
  (caCount s' = caCount s \/ caCount s' < cwnd s') /\
  frActive s' = frActive s /\ ssthresh s' = ssthresh s /\ outstanding s' = outstanding s /\ rto s' = rto s.
Proof.
  intros Hc Ha Hn. unfold renoCA. cbv zeta. unfold psi.
  destruct (cwnd s <=? caCount s + n) eqn:E; cbn.
  - rewrite Z.quot_div_nonneg by lia.
    assert (Q : 0 <= (caCount s + n) / cwnd s) by (apply Z.div_pos; lia).
    rewrite Z.rem_mod_nonneg by lia.
    pose proof (Z.mod_pos_bound (caCount s + n) (cwnd s + (caCount s + n) / cwnd s) ltac:(lia)) as M.
    rewrite (Z.div_small ((caCount s + n) mod _)) by lia.
    pose proof (div_add_le (caCount s) n (cwnd s) Ha Hn Hc).
    repeat split; try lia.
  - assert (caCount s + n < cwnd s) by lia.
    rewrite (Z.div_small (caCount s + n)) by lia.
    assert (0 <= caCount s / cwnd s) by (apply Z.div_pos; lia).
    repeat split; try lia.
Qed.

Lemma renoUpdate_pot s n :
  1 <= cwnd s -> 0 <= caCount s -> 0 <= n -> 1 <= ssthresh s ->
  let s' := renoUpdate s n in
  cwnd s <= cwnd s' /\ 0 <= caCount s' /\ psi s' <= psi s + n /\
  (caCount s' = caCount s \/ caCount s' < cwnd s') /\
  frActive s' = frActive s /\ ssthresh s' = ssthresh s /\ outstanding s' = outstanding s /\ rto s' = rto s.
Proof.
  intros Hc Ha Hn Hs. unfold renoUpdate. cbv zeta.
  assert (P0 : 0 <= caCount s / cwnd s) by (apply Z.div_pos; lia).
  destruct (cwnd s <? ssthresh s) eqn:E; [|apply renoCA_pot; assumption].
  destruct (ssthresh s <=? cwnd s + n) eqn:E2.
  - destruct (n - (ssthresh s - cwnd s) =? 0) eqn:E3.
    + unfold psi. cbn. repeat split; try lia.
    + set (s2 := s <| caCount := 0 |> <| cwnd := ssthresh s |>).
      pose proof (renoCA_pot s2 (n - (ssthresh s - cwnd s))) as H. cbv zeta in H.
      assert (P2 : psi s2 = ssthresh s) by (unfold psi, s2; cbn; lia).
      rewrite P2 in H. unfold psi in *. cbn in H.
      destruct H as (H1 & H2 & H3 & H4 & H5 & H6 & H7 & H8); try lia.
  - destruct (n - (cwnd s + n - cwnd s) =? 0) eqn:E3; [|lia].
    unfold psi. cbn.
    assert (caCount s / (cwnd s + n) <= caCount s / cwnd s) by (apply Z.div_le_compat_l; lia).
    assert (0 <= caCount s / (cwnd s + n)) by (apply Z.div_pos; lia).
    repeat split; try lia.
Qed.

(* ------------------------------------------------------------------ the ACK loop *)

Lemma wlogicalLen_range w : 0 <= wlogicalLen w < 2^32.
Proof. unfold wlogicalLen, u32. apply Z.mod_pos_bound. lia. Qed.

Lemma covered_nonneg l : forall k, 0 <= covered l k.
Proof.
  induction l as [|w r IH]; intros k; cbn [covered]; [lia|].
  destruct (0 <? k); [|lia]. destruct (k <? wlogicalLen w); [lia|]. specialize (IH (k - wlogicalLen w)). lia.
Qed.

Lemma ackLoop_removed fuel : forall sent unsent k r,
  (length sent + length unsent < fuel)%nat -> 0 <= k < 2^32 ->
  snd (ackLoop fuel sent unsent k r) = r + covered (sent ++ unsent) k.
Proof.
  induction fuel as [|f IH]; intros sent unsent k r Hf Hk; [lia|].
  cbn [ackLoop]. destruct (0 <? k) eqn:EK; cbn [negb].
  2:{ destruct sent, unsent; cbn [app covered snd]; rewrite ?EK; lia. }
  destruct sent as [|w sent'].
  - destruct unsent as [|w unsent']; cbn [app covered snd]; [lia|]. rewrite EK.
    pose proof (wlogicalLen_range w) as R.
    destruct (k <? wlogicalLen w) eqn:EL; cbn [snd]; [lia|].
    rewrite IH; [|cbn in *; lia|unfold u32; rewrite Z.mod_small; lia].
    cbn [app]. unfold u32. rewrite Z.mod_small by lia. lia.
  - cbn [app covered]. rewrite EK.
    pose proof (wlogicalLen_range w) as R.
    destruct (k <? wlogicalLen w) eqn:EL; cbn [snd]; [lia|].
    rewrite IH; [|cbn in *; lia|unfold u32; rewrite Z.mod_small; lia].
    unfold u32. rewrite Z.mod_small by lia. lia.
Qed.

(* ------------------------------------------------------------------ checkDuplicateAck *)

Lemma enter_arith O B ca :
  10 <= B -> 0 <= O <= B -> 0 <= ca < B ->
  let h := (if Z.quot O 2 <? 2 then 2 else Z.quot O 2) in
  2 <= h /\ h + 3 <= B + 1 /\ h + ca / h <= B + 1 /\ 2 * h <= Z.max 4 O.
Proof.
  intros HB HO Hc. cbv zeta. rewrite Z.quot_div_nonneg by lia.
  assert (Q : 0 <= ca / 2 /\ 2 * (ca / 2) <= ca) by (pose proof (Z.div_mod ca 2 ltac:(lia)); pose proof (Z.mod_pos_bound ca 2 ltac:(lia)); lia).
  destruct (O / 2 <? 2) eqn:E.
  - repeat split; try lia.
  - pose proof (Z.div_mod O 2 ltac:(lia)). pose proof (Z.mod_pos_bound O 2 ltac:(lia)).
    assert (ca / (O / 2) <= ca / 2) by (apply Z.div_le_compat_l; lia).
    repeat split; try lia.
Qed.

Lemma cda_CC s sg wnd B :
  CC s B ->
  let r := checkDuplicateAck s (s_ack sg) (seglen sg) wnd in
  CC (fst r) (B + (if isDup s sg wnd then 1 else 0)) /\
  sndUna (fst r) = sndUna s /\ sndNxt (fst r) = sndNxt s /\ wsent (fst r) = wsent s /\
  wunsent (fst r) = wunsent s /\ tstate (fst r) = tstate s /\ rto (fst r) = rto s /\
  outstanding (fst r) = outstanding s.
Proof.
  intros H. cbv zeta.
  assert (M : CC s (B + (if isDup s sg wnd then 1 else 0))) by (eapply CC_mono; [exact H|destruct (isDup s sg wnd); lia]).
  unfold checkDuplicateAck.
  destruct (frActive s) eqn:EF.
  - destruct (negb (inRange _ _ _)); [cbn [fst]; auto 10|].
    destruct (lessThan (frLast s) (s_ack sg)).
    { cbn [fst]. split; [|cbn; auto 10].
      unfold CC in *. rewrite EF in *. cbn.
      destruct M as (H1 & H2 & H3 & H4 & H5 & H6 & H7).
      assert (0 <= caCount s / ssthresh s) by (apply Z.div_pos; lia).
      repeat split; try lia. }
    destruct (negb (seglen sg =? 0) || negb (sndWnd s =? wnd)) eqn:EP; [cbn [fst]; auto 10|].
    destruct (s_ack sg =? frFirst s) eqn:EA.
    + assert (D : isDup s sg wnd = true).
      { unfold isDup. rewrite EF, EA. cbn [andb]. rewrite orb_true_r.
        apply orb_false_iff in EP. destruct EP as [E1 E2].
        apply negb_false_iff in E1, E2. rewrite E1. rewrite Z.eqb_sym, E2. reflexivity. }
      rewrite D. destruct (cwnd s <? frMaxCwnd s); cbn [fst]; [|rewrite D in M; auto 10].
      split; [|cbn; auto 10].
      unfold CC in *. cbn. rewrite EF in *. lia.
    + cbn [fst]. split; [|cbn; auto 10]. eapply CC_ext; [| | | | | |exact M]; cbn; try reflexivity.
      unfold CC in M. lia.
  - destruct (negb (s_ack sg =? sndUna s) || negb (seglen sg =? 0) || negb (sndWnd s =? wnd) || (s_ack sg =? sndNxt s)) eqn:EP.
    { cbn [fst]. split; [|cbn; auto 10]. eapply CC_ext; [| | | | | |exact M]; cbn; try reflexivity. unfold CC in M. lia. }
    cbn [dupAck set].
    match goal with |- context [if ?c then _ else _] => destruct c end.
    { cbn [fst]. split; [|cbn; auto 10]. eapply CC_ext; [| | | | | |exact M]; cbn; try reflexivity. unfold CC in M. lia. }
    destruct (negb (lessThan _ _)).
    { cbn [fst]. split; [|cbn; auto 10]. eapply CC_ext; [| | | | | |exact M]; cbn; try reflexivity. unfold CC in M. lia. }
    assert (D : isDup s sg wnd = true).
    { unfold isDup.
      apply orb_false_iff in EP. destruct EP as [EP E4].
      apply orb_false_iff in EP. destruct EP as [EP E3].
      apply orb_false_iff in EP. destruct EP as [E1 E2].
      apply negb_false_iff in E1, E2, E3. rewrite E1, E2. rewrite Z.eqb_sym, E3. cbn [andb].
      assert (sndUna s =? sndNxt s = false) by lia. rewrite H0. reflexivity. }
    rewrite D. cbn [fst]. split; [|cbn; auto 10].
    unfold CC in *. cbn. rewrite EF in *.
    destruct H as (H1 & H2 & H3 & H4 & H5 & H6 & H7).
    pose proof (enter_arith (outstanding s) B (caCount s) H1 H4 H5) as A. cbv zeta in A.
    destruct A as (A1 & A2 & A3 & A4).
    repeat split; try lia.
Qed.

(* the fields checkDuplicateAck never touches, and its effect when it says "retransmit" *)

(* ------------------------------------------------------------------ after the ACK loop *)

Definition afterAck (s6 : sndr) (r : Z) : sndr :=
  let s7 := if frActive s6 then s6 else renoUpdate s6 r in
  if outstanding s7 <? 0 then s7 <| outstanding := 0 |> else s7.

Lemma afterAck_CC s s6 r B :
  CC s B -> 0 <= r ->
  frActive s6 = frActive s -> cwnd s6 = cwnd s -> ssthresh s6 = ssthresh s -> caCount s6 = caCount s ->
  minRTO <= rto s6 -> outstanding s6 = outstanding s - r ->
  CC (afterAck s6 r) (B + r).
Proof.
  intros (H1 & H2 & H3 & H4 & H5 & H6 & H7) Hr E1 E2 E3 E4 E5 E6. unfold afterAck. cbv zeta.
  destruct (frActive s6) eqn:EF.
  - rewrite <- E1 in H7.
    destruct (outstanding s6 <? 0) eqn:EO; unfold CC; cbn; rewrite ?EF, ?E2, ?E3, ?E4; repeat split; try lia.
  - pose proof (renoUpdate_pot s6 r) as P. cbv zeta in P.
    destruct P as (P1 & P2 & P3 & P4 & P5 & P6 & P7 & P8); try lia.
    rewrite <- E1 in H7. unfold psi in P3. rewrite E2, E4 in P3.
    assert (0 <= caCount (renoUpdate s6 r) / cwnd (renoUpdate s6 r)) by (apply Z.div_pos; lia).
    destruct (outstanding (renoUpdate s6 r) <? 0) eqn:EO; unfold CC; cbn; rewrite ?P5, ?EF, ?P6, ?E3;
      repeat split; try lia.
Qed.

(* ------------------------------------------------------------------ resendSegment *)

Lemma resendSegment_spec t :
  core (SN (resendSegment t)) = core ((SN t) <| rttSeq := sndNxt (SN t) |>) /\
  tsOk (resendSegment t) = tsOk t /\ estate (resendSegment t) = estate t /\
  match wsent (SN t) ++ wunsent (SN t) with
  | w :: _ => exists ak wn, out (resendSegment t) = out t ++ [mkF (w_seq w) ak (w_flags w) wn (w_data w)]
  | [] => out (resendSegment t) = out t
  end.
Proof.
  unfold resendSegment. cbv zeta. cbn [SN set wsent wunsent].
  change (wsent (SN t <| rttSeq := sndNxt (SN t) |>)) with (wsent (SN t)).
  change (wunsent (SN t <| rttSeq := sndNxt (SN t) |>)) with (wunsent (SN t)).
  destruct (wsent (SN t) ++ wunsent (SN t)) as [|w l].
  - repeat split.
  - rewrite sendSegment_SN, sendSegment_tsOk, sendSegment_estate.
    split; [reflexivity|]. split; [reflexivity|]. split; [reflexivity|].
    match goal with |- context [sendSegment ?a ?b ?c ?d] => destruct (sendSegment_out a b c d) as (ak & wn & E) end.
    exists ak, wn. rewrite E. reflexivity.
Qed.

(* ------------------------------------------------------------------ sender.handleRcvdSegment *)

Lemma isDup_ext s s' sg wnd :
  sndWnd s' = sndWnd s -> sndUna s' = sndUna s -> sndNxt s' = sndNxt s -> frActive s' = frActive s ->
  frFirst s' = frFirst s -> isDup s' sg wnd = isDup s sg wnd.
Proof. intros E1 E2 E3 E4 E5. unfold isDup. rewrite E1, E2, E3, E4, E5. reflexivity. Qed.

Lemma sndHandle_CC t sg wnd newRto B :
  CC (SN t) B ->
  CC (SN (sndHandle t sg wnd newRto false))
     (B + ackedSegs (SN t) sg + (if isDup (SN t) sg wnd then 1 else 0)).
Proof.
  intros H. unfold sndHandle. cbv zeta.
  set (clampRto := if newRto <? minRTO then minRTO else newRto).
  assert (HC : minRTO <= clampRto) by (subst clampRto; destruct (newRto <? minRTO) eqn:?; lia).
  set (s1 := if negb (tsOk t) && lessThan (rttSeq (SN t)) (s_ack sg)
             then (SN t) <| rto := clampRto |> <| rttSeq := sndNxt (SN t) |> else SN t).
  assert (S1 : CC s1 B /\ isDup s1 sg wnd = isDup (SN t) sg wnd /\ sndUna s1 = sndUna (SN t) /\
               sndNxt s1 = sndNxt (SN t) /\ wsent s1 = wsent (SN t) /\ wunsent s1 = wunsent (SN t)).
  { subst s1. destruct (negb (tsOk t) && lessThan (rttSeq (SN t)) (s_ack sg)); [|auto 10].
    split; [|cbn; auto 10]. eapply CC_ext_rto; [| | | | | |exact H]; try reflexivity; [exact HC|].
    cbn. unfold CC in H. lia. }
  destruct S1 as (C1 & D1 & U1 & N1 & W1 & X1).
  pose proof (cda_CC s1 sg wnd B C1) as CD. cbv zeta in CD. fold (seglen sg).
  destruct (checkDuplicateAck s1 (s_ack sg) (seglen sg) wnd) as [s2 rtx]. cbn [fst] in CD.
  destruct CD as (C2 & U2 & N2 & W2 & X2 & T2 & R2 & O2).
  rewrite D1 in C2. set (B1 := B + (if isDup (SN t) sg wnd then 1 else 0)) in *.
  cbn [sndUna sndNxt set].
  change (sndUna (s2 <| sndWnd := wnd |>)) with (sndUna s2).
  change (sndNxt (s2 <| sndWnd := wnd |>)) with (sndNxt s2).
  unfold ackedSegs. rewrite <- U1, <- N1, <- U2, <- N2, <- W1, <- X1, <- W2, <- X2.
  match goal with |- CC (SN (sendData ?x false)) _ => set (t5 := x) end.
  assert (C5 : CC (SN t5) (B1 + (if inRange (u32 (s_ack sg - 1)) (sndUna s2) (sndNxt s2)
                                 then covered (wsent s2 ++ wunsent s2) (size (sndUna s2) (s_ack sg)) else 0))).
  { assert (C4 : forall t4 : tcp,
       CC (SN t4) (B1 + (if inRange (u32 (s_ack sg - 1)) (sndUna s2) (sndNxt s2)
                                 then covered (wsent s2 ++ wunsent s2) (size (sndUna s2) (s_ack sg)) else 0)) ->
       CC (SN (if rtx then resendSegment t4 else t4))
          (B1 + (if inRange (u32 (s_ack sg - 1)) (sndUna s2) (sndNxt s2)
                                 then covered (wsent s2 ++ wunsent s2) (size (sndUna s2) (s_ack sg)) else 0))).
    { intros t4 H4. destruct rtx; [|exact H4].
      destruct (resendSegment_spec t4) as (RC1 & _). coref RC1. cbn in *.
      eapply CC_ext; [| | | | | |exact H4]; try assumption. unfold CC in H4. lia. }
    subst t5. apply C4. clear C4.
    destruct (inRange (u32 (s_ack sg - 1)) (sndUna s2) (sndNxt s2)) eqn:EI.
    2:{ cbn [SN set]. rewrite Z.add_0_r.
        eapply CC_ext; [| | | | | |exact C2]; cbn; try reflexivity. unfold CC in C2. lia. }
    set (sA := s2 <| sndWnd := wnd |> <| dupAck := 0 |>
                  <| tstate := if tstate (s2 <| sndWnd := wnd |>) =? tDisabled then tDisabled else tOrphaned |>).
    set (s5 := if tsOk t && s_tsecr sg then sA <| rto := clampRto |> else sA).
    assert (W5 : wsent s5 = wsent s2 /\ wunsent s5 = wunsent s2 /\ sndUna s5 = sndUna s2).
    { subst s5 sA. destruct (tsOk t && s_tsecr sg); cbn; auto. }
    destruct W5 as (W5 & X5 & U5). rewrite W5, X5, U5.
    pose proof (ackLoop_removed (S (length (wsent s2) + length (wunsent s2))) (wsent s2) (wunsent s2)
                  (size (sndUna s2) (s_ack sg)) 0 ltac:(lia)) as AR.
    destruct (ackLoop (S (length (wsent s2) + length (wunsent s2))) (wsent s2) (wunsent s2)
                (size (sndUna s2) (s_ack sg)) 0) as [[sent' unsent'] removed].
    cbn [snd] in AR. rewrite Z.add_0_l in AR.
    specialize (AR ltac:(unfold size, u32; apply Z.mod_pos_bound; lia)).
    rewrite <- AR. pose proof (covered_nonneg (wsent s2 ++ wunsent s2) (size (sndUna s2) (s_ack sg))) as CN.
    rewrite <- AR in CN.
    cbn [SN set].
    match goal with |- CC (if outstanding ?s7 <? 0 then _ else _) _ =>
      match s7 with (if frActive ?s6 then _ else _) => change (CC (afterAck s6 removed) (B1 + removed)) end end.
    apply afterAck_CC with (s := s2); try assumption; subst s5 sA;
      destruct (tsOk t && s_tsecr sg); cbn; try reflexivity; try lia; unfold CC in C2; lia. }
  pose proof (sendData_spec t5) as SD. cbv zeta in SD.
  destruct SD as (L & _ & _ & O & _).
  rewrite <- Z.add_assoc, (Z.add_comm (if inRange _ _ _ then _ else _)), Z.add_assoc.
  fold B1. eapply CC_loop; eauto.
Qed.

(* ------------------------------------------------------------------ retransmitTimerExpired *)

Lemma rtoExpired_CC t B : CC (SN t) B -> CC (SN (fst (rtoExpired t false))) B.
Proof.
  intros H. unfold rtoExpired. cbv zeta.
  destruct (tstate (SN t) =? tOrphaned).
  { cbn [fst SN set]. eapply CC_ext; [| | | | | |exact H]; try reflexivity. cbn. unfold CC in H. lia. }
  destruct (negb (tstate (SN t) =? tEnabled)); [exact H|].
  cbn [rto set].
  change (rto (SN t <| tstate := tDisabled |>)) with (rto (SN t)).
  destruct (maxRTO <=? rto (SN t)) eqn:EM.
  { cbn [fst SN set]. eapply CC_ext; [| | | | | |exact H]; try reflexivity. cbn. unfold CC in H. lia. }
  cbn [fst].
  match goal with |- CC (SN (sendData ?x false)) _ => set (t5 := x) end.
  assert (C5 : CC (SN t5) B).
  { subst t5. cbn [SN set].
    destruct H as (H1 & H2 & H3 & H4 & H5 & H6 & H7).
    assert (F : forall s1 : sndr, frActive (if frActive s1 then leaveFastRecovery s1 else s1) = false /\
                 caCount (if frActive s1 then leaveFastRecovery s1 else s1) = caCount s1 /\
                 rto (if frActive s1 then leaveFastRecovery s1 else s1) = rto s1 /\
                 outstanding (if frActive s1 then leaveFastRecovery s1 else s1) = outstanding s1).
    { intros s1. destruct (frActive s1) eqn:E; cbn; auto. }
    match goal with |- context [if frActive ?s1 then leaveFastRecovery ?s1 else ?s1] =>
      destruct (F s1) as (F1 & F2 & F3 & F4); set (s2 := if frActive s1 then leaveFastRecovery s1 else s1) in * end.
    cbn in F2, F3, F4.
    unfold CC. cbn -[Z.add Z.mul Z.div Z.quot]. rewrite F1, F2, F3, F4. rewrite Z.div_1_r.
    assert (2 <= (if Z.quot (outstanding (SN t)) 2 <? 2 then 2 else Z.quot (outstanding (SN t)) 2))
      by (destruct (Z.quot (outstanding (SN t)) 2 <? 2) eqn:?; lia).
    unfold minRTO in *. repeat split; try lia. }
  pose proof (sendData_spec t5) as SD. cbv zeta in SD.
  destruct SD as (L & _ & _ & O & _). eapply CC_loop; eauto.
Qed.

(* ------------------------------------------------------------------ one step, all runs *)

Lemma wndOf_out0 t sg : wndOf (t <| out := [] |>) sg = wndOf t sg.
Proof. reflexivity. Qed.

Lemma step_CC t e g :
  CC (SN t) (bnd g) -> CC (SN (fst (step t e))) (bnd (gstep t e g)).
Proof.
  intros H. unfold step. set (t0 := t <| out := [] |>).
  assert (H0 : CC (SN t0) (bnd g)) by exact H.
  destruct e as [sg newRto|d| | |].
  - (* ESeg *)
    cbn [fst gstep]. unfold handleSegment, processed.
    change (estate t) with (estate t0). change (tsOk t) with (tsOk t0).
    destruct (estate t0 =? stConnected) eqn:EC; cbn [negb andb]; [|exact H0].
    destruct (has (s_flags sg) fRst) eqn:ER; cbn [negb andb].
    { destruct (acceptable _ _ _); [exact H0|].
      destruct (tail_quiet t0) as (Q & _). eapply CC_core; eauto. }
    destruct (has (s_flags sg) fAck) eqn:EA; cbn [negb andb].
    2:{ destruct (tail_quiet t0) as (Q & _). eapply CC_core; eauto. }
    destruct (tsOk t0 && negb (s_ts sg)) eqn:ET; cbn [negb].
    { destruct (tail_quiet t0) as (Q & _). eapply CC_core; eauto. }
    match goal with |- CC (SN (loopExit (if _ then sendAck ?x else _))) _ => set (t1 := x) end.
    destruct (tail_quiet t1) as (Q & _). eapply CC_core; [exact Q|]. subst t1.
    destruct (rcvHandle_quiet t0 sg) as (QR & _).
    pose proof (sndHandle_CC (rcvHandle t0 sg) sg (wndOf t sg) newRto (bnd g)
                 (CC_core _ _ _ QR H0)) as SH.
    assert (EQ : ackedSegs (SN (rcvHandle t0 sg)) sg = ackedSegs (SN t) sg /\
                 isDup (SN (rcvHandle t0 sg)) sg (wndOf t sg) = isDup (SN t) sg (wndOf t sg)).
    { coref QR. change (SN t0) with (SN t) in *. split.
      - unfold ackedSegs. rewrite Hun, Hnx, Hwse, Hwun. reflexivity.
      - apply isDup_ext; assumption. }
    destruct EQ as (EQ1 & EQ2). rewrite EQ1, EQ2 in SH.
    unfold bnd in *. cbn [gA gD]. 
    replace (InitialCwnd + (gA g + ackedSegs (SN t) sg) + (gD g + (if isDup (SN t) sg (wndOf t sg) then 1 else 0)))
      with (InitialCwnd + gA g + gD g + ackedSegs (SN t) sg + (if isDup (SN t) sg (wndOf t sg) then 1 else 0)) by lia.
    exact SH.
  - (* EWrite *)
    cbn [gstep]. unfold appWrite.
    destruct (estate t0 =? stError); [exact H0|].
    destruct (negb (estate t0 =? stConnected)); [exact H0|].
    destruct (len d =? 0); [exact H0|].
    destruct (sndClosedE t0); [exact H0|]. cbv zeta.
    destruct (sndBufSize t0 - sndBufUsed t0 <=? 0); [exact H0|].
    match goal with |- context [sendData ?x false] => set (t1 := x) end.
    assert (C1 : CC (SN t1) (bnd g)).
    { subst t1. cbn [SN set]. eapply CC_ext; [| | | | | |exact H0]; try reflexivity. cbn. change (SN t0) with (SN t). unfold CC in H. lia. }
    pose proof (sendData_spec t1) as SD. cbv zeta in SD. destruct SD as (L & _ & _ & O & _).
    destruct (_ <? 0); cbn [fst]; eapply CC_loop; eauto.
  - (* ERead *)
    cbn [gstep]. pose proof (appRead_quiet t0) as Q.
    destruct (appRead t0) as [[t1 v] err]. cbn [fst] in *. destruct Q as (Q & _).
    eapply CC_core; eauto.
  - (* EShutW *)
    cbn [gstep]. unfold appShutdownWrite.
    destruct (negb (estate t0 =? stConnected)); [exact H0|].
    destruct (sndClosedE t0); [exact H0|]. cbv zeta.
    match goal with |- context [sendData ?x false] => set (t1 := x) end.
    assert (C1 : CC (SN t1) (bnd g)).
    { subst t1. cbn [SN set]. eapply CC_ext; [| | | | | |exact H0]; try reflexivity. cbn. change (SN t0) with (SN t). unfold CC in H. lia. }
    pose proof (sendData_spec t1) as SD. cbv zeta in SD. destruct SD as (L & _ & _ & O & _).
    cbn [fst]. rewrite loopExit_SN. cbn [SN set].
    eapply CC_ext; [| | | | | |eapply CC_loop; eauto]; try reflexivity.
    cbn. assert (CC (SN (sendData t1 false)) (bnd g)) as X by (eapply CC_loop; eauto). unfold CC in X. lia.
  - (* ERto *)
    assert (BG : bnd (gstep t ERto g) = bnd g).
    { cbn [gstep]. destruct (_ && _); reflexivity. }
    rewrite BG.
    destruct (negb (estate t0 =? stConnected)); [exact H0|].
    pose proof (rtoExpired_CC t0 (bnd g) H0) as R.
    destruct (rtoExpired t0 false) as [t1 alive]. cbn [fst] in *.
    destruct alive; [rewrite loopExit_SN; exact R|exact R].
Qed.

Theorem CC_run es : forall t g,
  CC (SN t) (bnd g) -> CC (SN (fst (grun t g es))) (bnd (snd (grun t g es))).
Proof.
  induction es as [|e r IH]; intros t g H; cbn [grun fst snd]; [exact H|].
  apply IH. apply step_CC. exact H.
Qed.

(* a freshly established sender (newSender): cwnd 10, ssthresh maxInt, nothing outstanding, rto 1 s *)
Definition fresh_sender (s : sndr) : Prop :=
  cwnd s = InitialCwnd /\ ssthresh s = maxInt /\ outstanding s = 0 /\ dupAck s = 0 /\ frActive s = false /\
  caCount s = 0 /\ rto s = 1000000000.

Lemma fresh_CC s : fresh_sender s -> CC s (bnd g0).
Proof.
  intros (H1 & H2 & H3 & H4 & H5 & H6 & H7). unfold CC, bnd, g0. cbn [gA gD].
  rewrite H1, H2, H3, H5, H6, H7. unfold InitialCwnd, maxInt, minRTO. cbn. lia.
Qed.

(* reno_cwnd_bound, for every history of a freshly established sender *)
Lemma reno_cwnd_bound t es :
  fresh_sender (SN t) ->
  let r := grun t g0 es in
  let s := SN (fst r) in
  let B := InitialCwnd + gA (snd r) + gD (snd r) in
  1 <= cwnd s <= B /\ 2 <= ssthresh s /\ 0 <= outstanding s <= B /\ minRTO <= rto s.
Proof.
  intros F. cbv zeta. pose proof (CC_run es t g0 (fresh_CC _ F)) as H. unfold CC, bnd in H. lia.
Qed.

(* rto_floor: the retransmission time-out never goes below 200 ms *)
Lemma rto_floor t g es : CC (SN t) (bnd g) -> minRTO <= rto (SN (run t es)).
Proof.
  intros H. pose proof (CC_run es t g H) as R. rewrite grun_run in R. unfold CC in R. lia.
Qed.
