(* Proofs about the ARP handler model (Model/Arp.v).
   The specification vocabulary ([is_request], [is_reply], [sender_ip], ..., [expected_reply]) is
   written with plain list slicing ([bytes_at p off len]) and literal byte strings, independently of
   the accessor functions of the model. *)
From Coq Require Import ZArith List Bool Lia.
From NP Require Import Model.Bytes Model.Arp.
Import ListNotations.
Open Scope Z_scope.

(* ------------------------------------------------------------------ specification vocabulary *)
(* RFC 826 layout for Ethernet/IPv4: htype(2) ptype(2) hlen(1) plen(1) op(2) sha(6) spa(4) tha(6) tpa(4) *)
Definition arp_eth_ipv4 (p : list Z) : Prop :=
  (28 <= length p)%nat /\ bytes_at p 0 6 = [0; 1; 8; 0; 6; 4].
Definition is_request (p : list Z) : Prop := arp_eth_ipv4 p /\ bytes_at p 6 2 = [0; 1].
Definition is_reply (p : list Z) : Prop := arp_eth_ipv4 p /\ bytes_at p 6 2 = [0; 2].
Definition sender_mac (p : list Z) : list Z := bytes_at p 8 6.
Definition sender_ip (p : list Z) : list Z := bytes_at p 14 4.
Definition target_mac (p : list Z) : list Z := bytes_at p 18 6.
Definition target_ip (p : list Z) : list Z := bytes_at p 24 4.
(* Go's copy into a 6-byte zeroed field: the first 6 bytes of m, zero padded *)
Definition pad6 (m : list Z) : list Z := firstn 6 (m ++ repeat 0 6).
Definition pad4 (m : list Z) : list Z := firstn 4 (m ++ repeat 0 4).
(* the reply the property asks for: op 2, sender = (my MAC, the requested IP),
   target = (requester's MAC, requester's IP) *)
Definition expected_reply (myMAC p : list Z) : list Z :=
  [0; 1; 8; 0; 6; 4; 0; 2] ++ pad6 myMAC ++ target_ip p ++ sender_mac p ++ sender_ip p.

(* ------------------------------------------------------------------ helpers *)
Lemma bytes_eqb_eq x : forall y, bytes_eqb x y = true <-> x = y.
Proof.
  induction x as [|a x IH]; intros [|b y]; cbn; split; intro H; try discriminate; try reflexivity.
  - apply andb_true_iff in H. destruct H as [H1 H2]. apply Z.eqb_eq in H1. apply IH in H2. congruence.
  - injection H as -> ->. rewrite Z.eqb_refl. cbn. apply IH. reflexivity.
Qed.

Lemma isLocal_In L a : isLocal L a = true <-> In a L.
Proof.
  unfold isLocal. rewrite existsb_exists. split.
  - intros [x [Hin Heq]]. apply bytes_eqb_eq in Heq. subst. exact Hin.
  - intros Hin. exists a. split; [exact Hin|]. apply bytes_eqb_eq. reflexivity.
Qed.

Lemma hdr_const op : 0 <= op < 256 ->
  (pkt <- SetIpv4OverEthernet (repeat 0 ARPSize) ;; SetOp pkt op) =
  Some ([0; 1; 8; 0; 6; 4; 0; op] ++ repeat 0 20).
Proof.
  intros Hop. cbv [SetIpv4OverEthernet SetOp ARPSize repeat obind upd app].
  replace (w8 IPv4AddressSize) with 4 by reflexivity.
  replace (w8 (op / 2^8)) with 0.
  2:{ unfold w8. rewrite Z.div_small by (change (2^8) with 256; lia). reflexivity. }
  replace (w8 op) with op.
  2:{ unfold w8. rewrite Z.mod_small; [reflexivity | change (2^8) with 256; lia]. }
  reflexivity.
Qed.

Ltac crunch := cbv [copy_into set_range firstn skipn length Nat.leb Nat.ltb Nat.add app obind
    HardwareAddressSender ProtocolAddressSender ProtocolAddressTarget HardwareAddressTarget
    getN repeat pad6 pad4 bytes_at sender_mac sender_ip target_mac target_ip expected_reply
    learn_of ARPSize].

(* a packet of at least 28 bytes, spelled out *)
Definition pk (b0 b1 b2 b3 b4 b5 b6 b7 s0 s1 s2 s3 s4 s5 i0 i1 i2 i3 t0 t1 t2 t3 t4 t5 j0 j1 j2 j3 : Z)
  (rest : list Z) : list Z :=
  b0 :: b1 :: b2 :: b3 :: b4 :: b5 :: b6 :: b7 :: s0 :: s1 :: s2 :: s3 :: s4 :: s5 ::
  i0 :: i1 :: i2 :: i3 :: t0 :: t1 :: t2 :: t3 :: t4 :: t5 :: j0 :: j1 :: j2 :: j3 :: rest.

Lemma len28 (p : list Z) : (28 <= length p)%nat ->
  exists b0 b1 b2 b3 b4 b5 b6 b7 s0 s1 s2 s3 s4 s5 i0 i1 i2 i3 t0 t1 t2 t3 t4 t5 j0 j1 j2 j3 rest,
    p = pk b0 b1 b2 b3 b4 b5 b6 b7 s0 s1 s2 s3 s4 s5 i0 i1 i2 i3 t0 t1 t2 t3 t4 t5 j0 j1 j2 j3 rest.
Proof.
  intros H.
  do 28 (destruct p as [|? p]; [cbn in H; lia|]).
  repeat eexists.
Qed.

Lemma build_reply_pk myMAC b0 b1 b2 b3 b4 b5 b6 b7 s0 s1 s2 s3 s4 s5 i0 i1 i2 i3 t0 t1 t2 t3 t4 t5 j0 j1 j2 j3 rest :
  let p := pk b0 b1 b2 b3 b4 b5 b6 b7 s0 s1 s2 s3 s4 s5 i0 i1 i2 i3 t0 t1 t2 t3 t4 t5 j0 j1 j2 j3 rest in
  build_reply myMAC p = Some (expected_reply myMAC p).
Proof.
  intros p. subst p. unfold build_reply, pk.
  pose proof (hdr_const ARPReply ltac:(unfold ARPReply; lia)) as Hc.
  cbv [obind] in Hc |- *.
  destruct (SetIpv4OverEthernet (repeat 0 ARPSize)) as [p1|]; [|discriminate].
  rewrite Hc. clear Hc.
  destruct myMAC as [|m0 [|m1 [|m2 [|m3 [|m4 [|m5 ?]]]]]]; crunch; reflexivity.
Qed.

Lemma learn_of_pk b0 b1 b2 b3 b4 b5 b6 b7 s0 s1 s2 s3 s4 s5 i0 i1 i2 i3 t0 t1 t2 t3 t4 t5 j0 j1 j2 j3 rest :
  let p := pk b0 b1 b2 b3 b4 b5 b6 b7 s0 s1 s2 s3 s4 s5 i0 i1 i2 i3 t0 t1 t2 t3 t4 t5 j0 j1 j2 j3 rest in
  learn_of p = Some (sender_ip p, sender_mac p).
Proof. intros p. subst p. unfold pk. crunch. reflexivity. Qed.

(* the handler on a spelled-out packet, as a decision tree on the header words *)
Lemma arp_handle_pk L myMAC srcMAC b0 b1 b2 b3 b4 b5 b6 b7 s0 s1 s2 s3 s4 s5 i0 i1 i2 i3 t0 t1 t2 t3 t4 t5 j0 j1 j2 j3 rest :
  let p := pk b0 b1 b2 b3 b4 b5 b6 b7 s0 s1 s2 s3 s4 s5 i0 i1 i2 i3 t0 t1 t2 t3 t4 t5 j0 j1 j2 j3 rest in
  arp_handle L myMAC srcMAC p =
  if (b0 * 256 + b1 =? 1) && (b2 * 256 + b3 =? 2048) && (b4 =? 6) && (b5 =? 4) then
    if b6 * 256 + b7 =? 1 then
      if isLocal L [j0; j1; j2; j3]
      then Done (Some (expected_reply myMAC p, srcMAC)) (Some (sender_ip p, sender_mac p))
      else Done None None
    else if b6 * 256 + b7 =? 2 then Done None (Some (sender_ip p, sender_mac p))
    else Done None None
  else Done None None.
Proof.
  intros p. unfold arp_handle.
  pose proof (build_reply_pk myMAC b0 b1 b2 b3 b4 b5 b6 b7 s0 s1 s2 s3 s4 s5 i0 i1 i2 i3 t0 t1 t2 t3 t4 t5 j0 j1 j2 j3 rest) as Hb.
  pose proof (learn_of_pk b0 b1 b2 b3 b4 b5 b6 b7 s0 s1 s2 s3 s4 s5 i0 i1 i2 i3 t0 t1 t2 t3 t4 t5 j0 j1 j2 j3 rest) as Hl.
  cbv zeta in Hb, Hl. fold p in Hb, Hl. rewrite Hb, Hl.
  assert (Hv : IsValid p =
    Some ((b0 * 256 + b1 =? 1) && (b2 * 256 + b3 =? 2048) && (b4 =? 6) && (b5 =? 4))).
  { subst p. unfold IsValid, pk, hardwareAddressSpace, protocolAddressSpace, hardwareAddressSize,
      protocolAddressSize, get16, get8, IPv4ProtocolNumber, IPv4AddressSize.
    cbv [length Nat.ltb Nat.leb ARPSize nth_error obind].
    destruct (b0 * 256 + b1 =? 1); cbn [negb andb]; [|reflexivity].
    destruct (b2 * 256 + b3 =? 2048); cbn [negb andb]; [|reflexivity].
    destruct (b4 =? 6); cbn [negb andb]; reflexivity. }
  rewrite Hv.
  destruct ((b0 * 256 + b1 =? 1) && (b2 * 256 + b3 =? 2048) && (b4 =? 6) && (b5 =? 4)); [|reflexivity].
  assert (Ho : Op p = Some (b6 * 256 + b7)).
  { subst p. unfold Op, pk, get16. cbv [nth_error obind]. reflexivity. }
  rewrite Ho. unfold ARPRequest, ARPReply.
  assert (Ht : ProtocolAddressTarget p = Some [j0; j1; j2; j3]).
  { subst p. unfold pk. crunch. reflexivity. }
  rewrite Ht.
  destruct (b6 * 256 + b7 =? 1); [|reflexivity].
  destruct (isLocal L [j0; j1; j2; j3]); reflexivity.
Qed.

Lemma short_ignored L myMAC srcMAC p :
  (length p < 28)%nat -> arp_handle L myMAC srcMAC p = Done None None.
Proof.
  intros H. unfold arp_handle, IsValid.
  destruct (Nat.ltb_spec (length p) ARPSize) as [_|Hge]; [reflexivity|].
  unfold ARPSize in Hge. lia.
Qed.

(* ------------------------------------------------------------------ theorems *)

(* the handler never reaches an out-of-range read or write, whatever the bytes and addresses *)
Theorem arp_never_panics L myMAC srcMAC p : arp_handle L myMAC srcMAC p <> Panic.
Proof.
  destruct (Nat.lt_ge_cases (length p) 28) as [Hs|Hl].
  - rewrite short_ignored by exact Hs. discriminate.
  - destruct (len28 p Hl) as (b0&b1&b2&b3&b4&b5&b6&b7&s0&s1&s2&s3&s4&s5&i0&i1&i2&i3&t0&t1&t2&t3&t4&t5&j0&j1&j2&j3&rest&->).
    rewrite arp_handle_pk.
    repeat match goal with |- context [if ?c then _ else _] => destruct c end; discriminate.
Qed.

Theorem nic_deliver_never_panics en L myMAC srcMAC p : nic_deliver_arp en L myMAC srcMAC p <> Panic.
Proof.
  unfold nic_deliver_arp.
  destruct (Nat.ltb_spec (length p) ARPSize) as [Hs|Hl]; [discriminate|].
  unfold ProtocolAddressSender, getN.
  destruct (Nat.leb_spec (14 + 4) (length p)) as [_|Hlt]; [|unfold ARPSize in Hl; lia].
  destruct en; [apply arp_never_panics|discriminate].
Qed.

(* what the NIC does in front of the handler changes nothing: runts are dropped by both *)
Theorem nic_deliver_is_handle L myMAC srcMAC p :
  nic_deliver_arp true L myMAC srcMAC p = arp_handle L myMAC srcMAC p.
Proof.
  unfold nic_deliver_arp.
  destruct (Nat.ltb_spec (length p) ARPSize) as [Hs|Hl].
  - unfold ARPSize in Hs. rewrite short_ignored by exact Hs. reflexivity.
  - unfold ProtocolAddressSender, getN.
    destruct (Nat.leb_spec (14 + 4) (length p)) as [_|Hlt]; [reflexivity|unfold ARPSize in Hl; lia].
Qed.

Ltac bytes_of H :=
  repeat match type of H with
  | Forall _ (_ :: _) => let h := fresh "Hb" in let t := fresh "Ht" in
      apply Forall_cons_iff in H; destruct H as [h t]; unfold is_byte in h; rename t into H
  end.

Lemma pk_bytes b0 b1 b2 b3 b4 b5 b6 b7 s0 s1 s2 s3 s4 s5 i0 i1 i2 i3 t0 t1 t2 t3 t4 t5 j0 j1 j2 j3 rest :
  bytes_ok (pk b0 b1 b2 b3 b4 b5 b6 b7 s0 s1 s2 s3 s4 s5 i0 i1 i2 i3 t0 t1 t2 t3 t4 t5 j0 j1 j2 j3 rest) ->
  (0 <= b0 < 256 /\ 0 <= b1 < 256 /\ 0 <= b2 < 256 /\ 0 <= b3 < 256) /\
  (0 <= b4 < 256 /\ 0 <= b5 < 256 /\ 0 <= b6 < 256 /\ 0 <= b7 < 256).
Proof.
  unfold bytes_ok, pk. intros H.
  do 8 (apply Forall_cons_iff in H; let h := fresh "Hb" in destruct H as [h H]; unfold is_byte in h).
  repeat split; lia.
Qed.

(* header classification of a spelled-out packet in the spec vocabulary *)
Lemma valid_pk b0 b1 b2 b3 b4 b5 b6 b7 s0 s1 s2 s3 s4 s5 i0 i1 i2 i3 t0 t1 t2 t3 t4 t5 j0 j1 j2 j3 rest :
  let p := pk b0 b1 b2 b3 b4 b5 b6 b7 s0 s1 s2 s3 s4 s5 i0 i1 i2 i3 t0 t1 t2 t3 t4 t5 j0 j1 j2 j3 rest in
  bytes_ok p ->
  ((b0 * 256 + b1 =? 1) && (b2 * 256 + b3 =? 2048) && (b4 =? 6) && (b5 =? 4) = true <-> arp_eth_ipv4 p) /\
  (b6 * 256 + b7 =? 1 = true <-> bytes_at p 6 2 = [0; 1]) /\
  (b6 * 256 + b7 =? 2 = true <-> bytes_at p 6 2 = [0; 2]) /\
  target_ip p = [j0; j1; j2; j3].
Proof.
  intros p Hok. apply pk_bytes in Hok. destruct Hok as [(H0&H1&H2&H3) (H4&H5&H6&H7)].
  unfold arp_eth_ipv4. subst p. unfold pk, target_ip, bytes_at. cbv [firstn skipn length].
  repeat split.
  - lia.
  - apply andb_true_iff in H as [H Hd]. apply andb_true_iff in H as [H Hc].
    apply andb_true_iff in H as [Ha Hb]. apply Z.eqb_eq in Ha, Hb, Hc, Hd.
    assert (b0 = 0) by lia. assert (b1 = 1) by lia. assert (b2 = 8) by lia. assert (b3 = 0) by lia.
    subst. reflexivity.
  - intros [_ Heq]. injection Heq as -> -> -> -> -> ->. reflexivity.
  - intros H. apply Z.eqb_eq in H. assert (b6 = 0) by lia. assert (b7 = 1) by lia. subst. reflexivity.
  - intros Heq. injection Heq as -> ->. reflexivity.
  - intros H. apply Z.eqb_eq in H. assert (b6 = 0) by lia. assert (b7 = 2) by lia. subst. reflexivity.
  - intros Heq. injection Heq as -> ->. reflexivity.
Qed.

Lemma not_request_and_reply p : is_request p -> is_reply p -> False.
Proof. intros [_ H1] [_ H2]. rewrite H1 in H2. discriminate. Qed.

(* C12, clause 1: a reply is produced iff the packet is a valid IPv4-over-Ethernet ARP request
   whose target protocol address is one of the local addresses *)
Theorem arp_reply_iff_target_local L myMAC srcMAC p : bytes_ok p ->
  ((exists r l, arp_handle L myMAC srcMAC p = Done (Some r) l) <->
   (is_request p /\ In (target_ip p) L)).
Proof.
  intros Hok.
  destruct (Nat.lt_ge_cases (length p) 28) as [Hs|Hl].
  { rewrite short_ignored by exact Hs. split.
    - intros (r & l & H). discriminate.
    - intros [[[Hlen _] _] _]. lia. }
  destruct (len28 p Hl) as (b0&b1&b2&b3&b4&b5&b6&b7&s0&s1&s2&s3&s4&s5&i0&i1&i2&i3&t0&t1&t2&t3&t4&t5&j0&j1&j2&j3&rest&->).
  rewrite arp_handle_pk.
  destruct (valid_pk b0 b1 b2 b3 b4 b5 b6 b7 s0 s1 s2 s3 s4 s5 i0 i1 i2 i3 t0 t1 t2 t3 t4 t5 j0 j1 j2 j3 rest Hok)
    as (Hv & Hq & Hr & Ht).
  unfold is_request. rewrite Ht, <- Hv, <- Hq, <- isLocal_In.
  destruct ((b0 * 256 + b1 =? 1) && (b2 * 256 + b3 =? 2048) && (b4 =? 6) && (b5 =? 4)).
  2:{ split; [intros (r & l & H); discriminate | intros [[H _] _]; discriminate]. }
  destruct (b6 * 256 + b7 =? 1).
  - destruct (isLocal L [j0; j1; j2; j3]).
    + split; [intros _; auto | intros _; eauto].
    + split; [intros (r & l & H); discriminate | intros [_ H]; discriminate].
  - split.
    + intros (r & l & H). destruct (b6 * 256 + b7 =? 2); discriminate.
    + intros [[_ H] _]. discriminate.
Qed.

(* C12, clause 1 (contents): the reply is exactly [expected_reply] (op 2, sender = my MAC and the
   requested IP, target = requester's MAC and IP), it is handed to the link layer for the
   requester's link address, and the requester's mapping is learned. *)
Theorem arp_reply_fields L myMAC srcMAC p pkt dst l :
  arp_handle L myMAC srcMAC p = Done (Some (pkt, dst)) l ->
  pkt = expected_reply myMAC p /\ dst = srcMAC /\ l = Some (sender_ip p, sender_mac p).
Proof.
  destruct (Nat.lt_ge_cases (length p) 28) as [Hs|Hl].
  { rewrite short_ignored by exact Hs. discriminate. }
  destruct (len28 p Hl) as (b0&b1&b2&b3&b4&b5&b6&b7&s0&s1&s2&s3&s4&s5&i0&i1&i2&i3&t0&t1&t2&t3&t4&t5&j0&j1&j2&j3&rest&->).
  rewrite arp_handle_pk.
  repeat match goal with |- context [if ?c then _ else _] => destruct c end; try discriminate.
  intros H. injection H as <- <- <-. auto.
Qed.

(* the reply read back field by field (Ethernet: 6-byte MAC) *)
Theorem expected_reply_fields myMAC p : length myMAC = 6%nat -> (28 <= length p)%nat ->
  let r := expected_reply myMAC p in
  length r = 28%nat /\ is_reply r /\
  sender_mac r = myMAC /\ sender_ip r = target_ip p /\
  target_mac r = sender_mac p /\ target_ip r = sender_ip p.
Proof.
  intros Hm Hl.
  destruct (len28 p Hl) as (b0&b1&b2&b3&b4&b5&b6&b7&s0&s1&s2&s3&s4&s5&i0&i1&i2&i3&t0&t1&t2&t3&t4&t5&j0&j1&j2&j3&rest&->).
  destruct myMAC as [|m0 [|m1 [|m2 [|m3 [|m4 [|m5 [|? ?]]]]]]]; try discriminate.
  unfold is_reply, arp_eth_ipv4, pk. crunch. cbn [length]. repeat split; lia.
Qed.

(* C12, clause 2: the sender's mapping is handed to the cache exactly for valid replies and for
   valid requests that were answered (target local).  In particular nothing is learned from a
   request for somebody else's address, and a reply is learned from whatever its target is. *)
Theorem arp_learns L myMAC srcMAC p : bytes_ok p ->
  ((exists r a, arp_handle L myMAC srcMAC p = Done r (Some a)) <->
   (is_reply p \/ (is_request p /\ In (target_ip p) L))).
Proof.
  intros Hok.
  destruct (Nat.lt_ge_cases (length p) 28) as [Hs|Hl].
  { rewrite short_ignored by exact Hs. split.
    - intros (r & a & H). discriminate.
    - intros [[[Hlen _] _] | [[[Hlen _] _] _]]; lia. }
  destruct (len28 p Hl) as (b0&b1&b2&b3&b4&b5&b6&b7&s0&s1&s2&s3&s4&s5&i0&i1&i2&i3&t0&t1&t2&t3&t4&t5&j0&j1&j2&j3&rest&->).
  rewrite arp_handle_pk.
  destruct (valid_pk b0 b1 b2 b3 b4 b5 b6 b7 s0 s1 s2 s3 s4 s5 i0 i1 i2 i3 t0 t1 t2 t3 t4 t5 j0 j1 j2 j3 rest Hok)
    as (Hv & Hq & Hr & Ht).
  unfold is_request, is_reply. rewrite Ht, <- Hv, <- Hq, <- Hr, <- isLocal_In.
  destruct ((b0 * 256 + b1 =? 1) && (b2 * 256 + b3 =? 2048) && (b4 =? 6) && (b5 =? 4)).
  2:{ split; [intros (r & a & H); discriminate | intros [[H _] | [[H _] _]]; discriminate]. }
  destruct (b6 * 256 + b7 =? 1) eqn:E1.
  - assert (E2 : b6 * 256 + b7 =? 2 = false) by (apply Z.eqb_eq in E1; apply Z.eqb_neq; lia).
    rewrite E2.
    destruct (isLocal L [j0; j1; j2; j3]).
    + split; [intros _; right; auto | intros _; eauto].
    + split; [intros (r & a & H); discriminate | intros [[_ H] | [_ H]]; discriminate].
  - destruct (b6 * 256 + b7 =? 2).
    + split; [intros _; left; auto | intros _; eauto].
    + split; [intros (r & a & H); discriminate | intros [[_ H] | [[_ H] _]]; discriminate].
Qed.

Theorem arp_learns_what L myMAC srcMAC p r a :
  arp_handle L myMAC srcMAC p = Done r (Some a) -> a = (sender_ip p, sender_mac p).
Proof.
  destruct (Nat.lt_ge_cases (length p) 28) as [Hs|Hl].
  { rewrite short_ignored by exact Hs. discriminate. }
  destruct (len28 p Hl) as (b0&b1&b2&b3&b4&b5&b6&b7&s0&s1&s2&s3&s4&s5&i0&i1&i2&i3&t0&t1&t2&t3&t4&t5&j0&j1&j2&j3&rest&->).
  rewrite arp_handle_pk.
  repeat match goal with |- context [if ?c then _ else _] => destruct c end; try discriminate;
  intros H; injection H as <- <-; reflexivity.
Qed.

(* everything else (short, wrong hardware/protocol type or sizes, other op codes, requests for
   foreign addresses) is ignored: no frame, nothing learned *)
Theorem arp_ignored L myMAC srcMAC p : bytes_ok p ->
  ~ is_reply p -> ~ (is_request p /\ In (target_ip p) L) ->
  arp_handle L myMAC srcMAC p = Done None None.
Proof.
  intros Hok Hnr Hnq.
  pose proof (arp_reply_iff_target_local L myMAC srcMAC p Hok) as H1.
  pose proof (arp_learns L myMAC srcMAC p Hok) as H2.
  pose proof (arp_never_panics L myMAC srcMAC p) as H3.
  destruct (arp_handle L myMAC srcMAC p) as [|[r|] [a|]]; try contradiction.
  - exfalso. apply Hnq. apply H1. eauto.
  - exfalso. apply Hnq. apply H1. eauto.
  - exfalso. destruct H2 as [H2 _]. destruct H2 as [H|H]; eauto.
  - reflexivity.
Qed.

(* our own request (LinkAddressRequest): op 1, sender = (my MAC, my IP), target IP = the address
   being resolved, broadcast *)
Theorem arp_request_wf addr localAddr myMAC :
  length myMAC = 6%nat -> length localAddr = 4%nat -> length addr = 4%nat ->
  exists h, link_address_request addr localAddr myMAC = Some (h, [255; 255; 255; 255; 255; 255]) /\
    h = [0; 1; 8; 0; 6; 4; 0; 1] ++ myMAC ++ localAddr ++ [0; 0; 0; 0; 0; 0] ++ addr /\
    is_request h /\ sender_mac h = myMAC /\ sender_ip h = localAddr /\ target_ip h = addr.
Proof.
  intros Hm Hl Ha.
  destruct myMAC as [|m0 [|m1 [|m2 [|m3 [|m4 [|m5 [|? ?]]]]]]]; try discriminate.
  destruct localAddr as [|l0 [|l1 [|l2 [|l3 [|? ?]]]]]; try discriminate.
  destruct addr as [|a0 [|a1 [|a2 [|a3 [|? ?]]]]]; try discriminate.
  unfold link_address_request.
  pose proof (hdr_const ARPRequest ltac:(unfold ARPRequest; lia)) as Hc.
  cbv [obind] in Hc |- *.
  destruct (SetIpv4OverEthernet (repeat 0 ARPSize)) as [p1|]; [|discriminate].
  rewrite Hc. clear Hc. unfold ARPRequest, broadcastMAC, is_request, arp_eth_ipv4. crunch.
  eexists. split; [reflexivity|]. cbn [length]. repeat split; lia.
Qed.

(* a peer running this handler answers our request iff it owns the address, and our handler then
   learns the peer's mapping from that answer (request -> reply -> learn round trip) *)
Theorem arp_round_trip addr localAddr myMAC peerMAC h :
  length myMAC = 6%nat -> length localAddr = 4%nat -> length addr = 4%nat -> length peerMAC = 6%nat ->
  bytes_ok myMAC -> bytes_ok localAddr -> bytes_ok addr -> bytes_ok peerMAC ->
  link_address_request addr localAddr myMAC = Some (h, broadcastMAC) ->
  exists rep,
    arp_handle [addr] peerMAC myMAC h = Done (Some (rep, myMAC)) (Some (localAddr, myMAC)) /\
    arp_handle [localAddr] myMAC peerMAC rep = Done None (Some (addr, peerMAC)).
Proof.
  intros Hm Hl Ha Hp Bm Bl Ba Bp.
  destruct myMAC as [|m0 [|m1 [|m2 [|m3 [|m4 [|m5 [|? ?]]]]]]]; try discriminate.
  destruct localAddr as [|l0 [|l1 [|l2 [|l3 [|? ?]]]]]; try discriminate.
  destruct addr as [|a0 [|a1 [|a2 [|a3 [|? ?]]]]]; try discriminate.
  destruct peerMAC as [|q0 [|q1 [|q2 [|q3 [|q4 [|q5 [|? ?]]]]]]]; try discriminate.
  unfold link_address_request.
  pose proof (hdr_const ARPRequest ltac:(unfold ARPRequest; lia)) as Hc.
  cbv [obind] in Hc |- *.
  destruct (SetIpv4OverEthernet (repeat 0 ARPSize)) as [p1|]; [|discriminate].
  rewrite Hc. clear Hc. unfold ARPRequest. crunch. intros H. injection H as <-.
  match goal with |- context [arp_handle _ _ _ ?x] =>
    change x with (pk 0 1 8 0 6 4 0 1 m0 m1 m2 m3 m4 m5 l0 l1 l2 l3 0 0 0 0 0 0 a0 a1 a2 a3 []) end.
  rewrite arp_handle_pk.
  assert (Hloc : isLocal [[a0; a1; a2; a3]] [a0; a1; a2; a3] = true)
    by (apply isLocal_In; left; reflexivity).
  rewrite Hloc. cbn [Z.mul Z.add Z.eqb Pos.eqb andb Pos.mul Pos.add].
  eexists. split.
  - unfold pk. crunch. reflexivity.
  - unfold pk. crunch.
    match goal with |- arp_handle _ _ _ ?x = _ =>
      change x with (pk 0 1 8 0 6 4 0 2 q0 q1 q2 q3 q4 q5 a0 a1 a2 a3 m0 m1 m2 m3 m4 m5 l0 l1 l2 l3 []) end.
    rewrite arp_handle_pk. cbn [Z.mul Z.add Z.eqb Pos.eqb andb Pos.mul Pos.add].
    unfold pk. crunch. reflexivity.
Qed.

(* the hypotheses of the theorems above are satisfiable by a real exchange *)
Example arp_example :
  arp_handle [[10; 0; 0; 1]] [2; 0; 0; 0; 0; 1] [2; 0; 0; 0; 0; 9]
    ([0; 1; 8; 0; 6; 4; 0; 1] ++ [2; 0; 0; 0; 0; 9] ++ [10; 0; 0; 9] ++ [0; 0; 0; 0; 0; 0] ++ [10; 0; 0; 1]) =
  Done (Some ([0; 1; 8; 0; 6; 4; 0; 2] ++ [2; 0; 0; 0; 0; 1] ++ [10; 0; 0; 1] ++ [2; 0; 0; 0; 0; 9] ++ [10; 0; 0; 9],
              [2; 0; 0; 0; 0; 9]))
       (Some ([10; 0; 0; 9], [2; 0; 0; 0; 0; 9])).
Proof. vm_compute. reflexivity. Qed.
