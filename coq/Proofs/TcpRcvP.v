(* C01, receive direction: the byte stream delivered by the receiver of Model/Tcp.v (rcv.go
   acceptable/consumeSegment/handleRcvdSegment + the pending heap, endpoint.go readyToRead/Read)
   is at all times a prefix of the peer's stream P, for ALL sequences of events, whatever the
   network does to segments short of altering them (drop, duplicate, reorder, delay, replay).

   Vocabulary (written independently of the model functions):
     slice_at P off d   d is the bytes of P at [off, off+|d|)
     is_slice P irs sq flags d   sq = seq_of irs off (= irs+1+off mod 2^32) for such an offset, and the
                        FIN bit is set only on a segment that ends exactly at |P|
     ev_ok P irs e      every arriving segment is such a slice (any other flag/ack/window/option
                        content, including RST and ACK-less segments); EWrite/ERead/EShutW/ERto free
     reads_run t es     the chunks returned by the successful reads of the run, in order
   Hypothesis |P| < 2^31: this is exactly what makes every slice "fresh" (within 2^31 of every
   receiver position, lemma slice_fresh), i.e. what makes lessThan/inWindow on sequence numbers
   agree with the order on offsets (SeqnumP.lessThan_offsets / inWindow_offsets); TCP without
   PAWS cannot do better.  No hypothesis on windows, buffer sizes, [acceptable] (a mere filter) or
   the order of the pending heap is needed: the heap is only known to hand back its own elements
   (Proofs/TcpHeapP.v).

   Invariant [Inv P irs rd t n]: rd = bytes read so far, n = stream offset named by rcvNxt
   (rcvNxt = seq_of irs n, or n+1 once the FIN is consumed, which requires n = |P|),
   rd ++ concat rcvList = firstn n P, no empty chunk queued, every pending segment is a slice. *)
From Coq Require Import ZArith List Bool Lia ZifyBool.
From RecordUpdate Require Import RecordSet.
From NP Require Import Model.Seqnum Model.GoHeap Model.Tcp Proofs.SeqnumP Proofs.TcpHeapP.
Import ListNotations RecordSetNotations.
Open Scope Z_scope.

(* ---------- list helpers ---------- *)
Lemma firstn_plus {A} (a b : nat) (l : list A) :
  firstn (a + b) l = firstn a l ++ firstn b (skipn a l).
Proof.
  revert l. induction a as [|a IH]; intros l; [reflexivity|].
  destruct l as [|x l]; cbn [Nat.add firstn skipn app].
  - rewrite firstn_nil. reflexivity.
  - rewrite IH. reflexivity.
Qed.

Lemma skipn_plus {A} (a b : nat) (l : list A) : skipn b (skipn a l) = skipn (a + b) l.
Proof.
  revert l. induction a as [|a IH]; intros l; [reflexivity|].
  destruct l as [|x l]; cbn [Nat.add skipn]; [apply skipn_nil|apply IH].
Qed.

(* ---------- specification vocabulary ---------- *)
Definition zlen (l : list Z) : Z := Z.of_nat (length l).
Definition slice_at (P : list Z) (off : Z) (d : list Z) : Prop :=
  0 <= off /\ off + zlen d <= zlen P /\ d = firstn (length d) (skipn (Z.to_nat off) P).
Definition fin_set (flags : Z) : Prop := Z.land flags 1 <> 0.
Definition is_slice (P : list Z) (irs sq flags : Z) (d : list Z) : Prop :=
  exists off, sq = seq_of irs off /\ slice_at P off d /\ (fin_set flags -> off + zlen d = zlen P).
Definition seg_slice (P : list Z) (irs : Z) (s : seg) : Prop :=
  is_slice P irs (s_seq s) (s_flags s) (s_data s).
Definition pseg_slice (P : list Z) (irs : Z) (p : pseg) : Prop :=
  is_slice P irs (p_seq p) (p_flags p) (p_data p).
Definition ev_ok (P : list Z) (irs : Z) (e : event) : Prop :=
  match e with ESeg s _ => seg_slice P irs s | _ => True end.

(* generalisation: segments that carry neither data nor FIN (pure ACKs, window updates, RSTs) may
   have ANY sequence number (e.g. the peer's ACKs after its FIN, at |P|+1; a RST at sndUna) *)
Definition ev_ok2 (P : list Z) (irs : Z) (e : event) : Prop :=
  match e with
  | ESeg s _ => (s_data s = [] /\ has (s_flags s) fFin = false) \/ seg_slice P irs s
  | _ => True
  end.

Lemma ev_ok_ok2 P irs e : ev_ok P irs e -> ev_ok2 P irs e.
Proof. destruct e; cbn; auto. Qed.

Lemma Forall_ev_ok_ok2 P irs es : Forall (ev_ok P irs) es -> Forall (ev_ok2 P irs) es.
Proof. apply Forall_impl. apply ev_ok_ok2. Qed.

Lemma len_zlen l : len l = zlen l. Proof. reflexivity. Qed.

Lemma has_fin fl : has fl fFin = true <-> fin_set fl.
Proof.
  unfold has, fFin, fin_set. destruct (Z.eqb_spec (Z.land fl 1) 0) as [E|E]; cbn [negb]; split; intros H.
  - discriminate.
  - exfalso. apply H. exact E.
  - exact E.
  - reflexivity.
Qed.

Lemma slice_append P n d :
  slice_at P n d -> firstn (Z.to_nat n) P ++ d = firstn (Z.to_nat (n + zlen d)) P.
Proof.
  intros (H0 & H1 & H2). unfold zlen in *.
  replace (Z.to_nat (n + Z.of_nat (length d))) with (Z.to_nat n + length d)%nat by lia.
  rewrite firstn_plus, <- H2. reflexivity.
Qed.

Lemma slice_trim P off d n :
  slice_at P off d -> off <= n < off + zlen d ->
  slice_at P n (dropZ (n - off) d) /\ n + zlen (dropZ (n - off) d) = off + zlen d /\
  dropZ (n - off) d <> [].
Proof.
  unfold slice_at, zlen, dropZ. intros (H0 & H1 & H2) Hn.
  assert (HL : length (skipn (Z.to_nat (n - off)) d) = (length d - Z.to_nat (n - off))%nat)
    by apply skipn_length.
  split; [|split].
  - split; [lia|]. split; [lia|]. rewrite HL. rewrite H2 at 1.
    rewrite skipn_firstn_comm, skipn_plus. f_equal. f_equal. lia.
  - lia.
  - intros E. rewrite E in HL. cbn [length] in HL. lia.
Qed.

Lemma seq_of_succ irs n : u32 (seq_of irs n + 1) = seq_of irs (n + 1).
Proof. unfold seq_of. word. Qed.

Lemma seq_of_inj irs a b : - 2^31 < a - b < 2^31 -> seq_of irs a = seq_of irs b -> a = b.
Proof. unfold seq_of. intros H. revert H. word. Qed.

(* ---------- the receive-side view of a state, and frame lemmas ---------- *)
Definition rview (t : tcp) := (rcvNxt (RC t), rclosed (RC t), pending (RC t), rcvList t).

Lemma rview_sendSegment t d f s : rview (sendSegment t d f s) = rview t.
Proof. unfold sendSegment, getSendParams, rview. cbn. reflexivity. Qed.

Lemma rview_sendAck t : rview (sendAck t) = rview t.
Proof. apply rview_sendSegment. Qed.

Lemma rview_setSN t s : rview (t <| SN := s |>) = rview t.
Proof. reflexivity. Qed.

Lemma rview_loopExit t : rview (loopExit t) = rview t.
Proof.
  unfold loopExit. destruct (rclosed (RC t) && sclosed (SN t) && (sndUna (SN t) =? sndNxtList (SN t)));
    [|reflexivity]. destruct (estate t =? stError); reflexivity.
Qed.

Lemma rview_resetConnection t : rview (resetConnection t) = rview t.
Proof. reflexivity. Qed.

Lemma rview_sendLoop fuel t e l : rview (sendLoop fuel t e l) = rview t.
Proof.
  revert t. induction fuel as [|f IH]; intros t; cbn [sendLoop]; [reflexivity|].
  destruct (wunsent (SN t)) as [|w rest]; [reflexivity|].
  destruct (negb (outstanding (SN t) <? cwnd (SN t))); [reflexivity|].
  set (w1 := if w_flags w =? 0 then _ else w).
  destruct (len (w_data w1) =? 0).
  - rewrite IH.
    match goal with |- rview (if ?c then _ else _) = _ => destruct c end;
      cbn zeta; rewrite ?rview_setSN, rview_sendSegment; reflexivity.
  - destruct (negb (lessThan (w_seq w1) e)); [reflexivity|].
    match goal with |- context [if ?c then (_, _) else (w1, rest)] => destruct c end;
      rewrite IH;
      match goal with |- rview (if ?c then _ else _) = _ => destruct c end;
      rewrite ?rview_setSN, rview_sendSegment; reflexivity.
Qed.

Lemma rview_sendData t idle : rview (sendData t idle) = rview t.
Proof.
  unfold sendData. cbn zeta.
  match goal with |- rview (if ?c then _ else _) = _ => destruct c end;
    rewrite ?rview_setSN, rview_sendLoop; reflexivity.
Qed.

Lemma rview_resendSegment t : rview (resendSegment t) = rview t.
Proof.
  unfold resendSegment. cbn zeta.
  match goal with |- rview (match ?l with _ => _ end) = _ => destruct l end;
    rewrite ?rview_sendSegment; reflexivity.
Qed.

Lemma rview_sndHandle t sg wnd nr idle : rview (sndHandle t sg wnd nr idle) = rview t.
Proof.
  unfold sndHandle. cbn zeta.
  destruct (checkDuplicateAck _ _ _ _) as [s2 rtx].
  rewrite rview_sendData.
  assert (E : forall t4, rview t4 = rview t -> rview (if rtx then resendSegment t4 else t4) = rview t)
    by (intros t4 H4; destruct rtx; [rewrite rview_resendSegment|]; exact H4).
  apply E.
  match goal with |- rview (if ?c then _ else _) = _ => destruct c end; [|reflexivity].
  destruct (ackLoop _ _ _ _ _) as [[sent' unsent'] removed]. reflexivity.
Qed.

Lemma rview_rtoExpired t idle : rview (fst (rtoExpired t idle)) = rview t.
Proof.
  unfold rtoExpired. cbn zeta.
  destruct (tstate (SN t) =? tOrphaned); [reflexivity|].
  destruct (negb (tstate (SN t) =? tEnabled)); [reflexivity|].
  match goal with |- rview (fst (if ?c then _ else _)) = _ => destruct c end; [reflexivity|].
  cbn [fst]. rewrite rview_sendData. reflexivity.
Qed.

Lemma rview_appWrite t d idle : rview (fst (appWrite t d idle)) = rview t.
Proof.
  unfold appWrite.
  destruct (estate t =? stError); [reflexivity|].
  destruct (negb (estate t =? stConnected)); [reflexivity|].
  destruct (len d =? 0); [reflexivity|].
  destruct (sndClosedE t); [reflexivity|].
  cbn zeta. destruct (sndBufSize t - sndBufUsed t <=? 0); [reflexivity|].
  cbn [fst]. rewrite rview_sendData. reflexivity.
Qed.

Lemma rview_appShutdownWrite t idle : rview (fst (appShutdownWrite t idle)) = rview t.
Proof.
  unfold appShutdownWrite.
  destruct (negb (estate t =? stConnected)); [reflexivity|].
  destruct (sndClosedE t); [reflexivity|].
  cbn zeta. cbn [fst]. rewrite rview_loopExit, rview_setSN, rview_sendData. reflexivity.
Qed.

(* ---------- the invariant ---------- *)
Record Inv (P : list Z) (irs : Z) (rd : list Z) (t : tcp) (n : Z) : Prop := mkInv {
  inv_n : 0 <= n <= zlen P;
  inv_nxt : rcvNxt (RC t) = seq_of irs (if rclosed (RC t) then n + 1 else n);
  inv_closed : rclosed (RC t) = true -> n = zlen P;
  inv_data : rd ++ concat (rcvList t) = firstn (Z.to_nat n) P;
  inv_chunks : Forall (fun c : list Z => c <> []) (rcvList t);
  inv_pend : Forall (pseg_slice P irs) (pending (RC t)) }.

Definition rcv_inv (P : list Z) (irs : Z) (rd : list Z) (t : tcp) : Prop := exists n, Inv P irs rd t n.

Lemma Inv_rview P irs rd t t' n : rview t' = rview t -> Inv P irs rd t n -> Inv P irs rd t' n.
Proof.
  unfold rview. intros E [H1 H2 H3 H4 H5 H6]. inversion E as [[E1 E2 E3 E4]].
  constructor; rewrite ?E1, ?E2, ?E3, ?E4; assumption.
Qed.

Lemma rcv_inv_rview P irs rd t t' : rview t' = rview t -> rcv_inv P irs rd t -> rcv_inv P irs rd t'.
Proof. intros E [n H]. exists n. eapply Inv_rview; eassumption. Qed.

(* ---------- consumeSegment ---------- *)
Definition cgo (flags : Z) (fromHeap : bool) (t : tcp) (segSeq segLen : Z) (data : list Z)
  : tcp * bool * list Z :=
  let t1 := t <| RC := (RC t) <| rcvNxt := add segSeq segLen |> |> in
  if has flags fFin then
    let t2 := t1 <| RC := (RC t1) <| rcvNxt := u32 (rcvNxt (RC t1) + 1) |> |> in
    let t3 := sendAck t2 in
    let first := if fromHeap && negb (Nat.eqb (length (pending (RC t3))) 0) then 1%nat else 0%nat in
    let t4 := t3 <| RC := (RC t3) <| rclosed := true |> <| pending := firstn first (pending (RC t3)) |> |>
                 <| rcvClosedE := true |> in
    (t4, true, data)
  else (t1, true, data).

Lemma consumeSegment_unfold t flags data segSeq segLen fh :
  consumeSegment t flags data segSeq segLen fh =
  let r := RC t in
  if 0 <? segLen then
    if negb (inWindow (rcvNxt r) segSeq segLen) then (t, false, data)
    else if lessThan segSeq (rcvNxt r) then
      let diff := size segSeq (rcvNxt r) in
      let data' := dropZ diff data in
      cgo flags fh (readyToRead t data') (add segSeq diff) (u32 (segLen - diff)) data'
    else cgo flags fh (readyToRead t data) segSeq segLen data
  else if negb (segSeq =? rcvNxt r) then (t, false, data)
  else cgo flags fh t segSeq segLen data.
Proof. reflexivity. Qed.

Lemma Forall_firstn {A} (Q : A -> Prop) k (l : list A) : Forall Q l -> Forall Q (firstn k l).
Proof.
  intros H. rewrite <- (firstn_skipn k l) in H. apply Forall_app in H. apply H.
Qed.

Lemma cgo_inv P irs rd t n1 flags fh segSeq segLen data :
  rclosed (RC t) = false ->
  Forall (pseg_slice P irs) (pending (RC t)) ->
  Forall (fun c : list Z => c <> []) (rcvList t) ->
  rd ++ concat (rcvList t) = firstn (Z.to_nat n1) P ->
  0 <= n1 <= zlen P ->
  (fin_set flags -> n1 = zlen P) ->
  add segSeq segLen = seq_of irs n1 ->
  forall t1 ok d', cgo flags fh t segSeq segLen data = (t1, ok, d') ->
  Inv P irs rd t1 n1 /\ ok = true.
Proof.
  intros Hc Hp Hch Hd Hn HF Hs t1 ok d' E. unfold cgo in E.
  destruct (has flags fFin) eqn:EF.
  - apply has_fin in EF. specialize (HF EF). cbn zeta in E.
    injection E as <- <- <-. split; [|reflexivity].
    constructor.
    + exact Hn.
    + cbn. rewrite Hs. apply seq_of_succ.
    + intros _. exact HF.
    + cbn. exact Hd.
    + cbn. exact Hch.
    + cbn. apply Forall_firstn. exact Hp.
  - cbn zeta in E. injection E as <- <- <-. split; [|reflexivity].
    constructor.
    + exact Hn.
    + cbn. rewrite Hc. exact Hs.
    + cbn. rewrite Hc. discriminate.
    + cbn. exact Hd.
    + cbn. exact Hch.
    + cbn. exact Hp.
Qed.

Lemma zlen_nonneg l : 0 <= zlen l. Proof. unfold zlen. lia. Qed.

Lemma concat_snoc (l : list (list Z)) d : concat (l ++ [d]) = concat l ++ d.
Proof. rewrite concat_app. cbn [concat]. rewrite app_nil_r. reflexivity. Qed.

Lemma consume_inv P irs rd t n flags data off fh :
  zlen P < 2^31 ->
  Inv P irs rd t n -> rclosed (RC t) = false ->
  slice_at P off data -> (fin_set flags -> off + zlen data = zlen P) ->
  forall t1 ok d', consumeSegment t flags data (seq_of irs off) (len data) fh = (t1, ok, d') ->
  rcv_inv P irs rd t1 /\ (ok = false -> t1 = t).
Proof.
  intros HP HI Hc HS HF t1 ok d' E. rewrite consumeSegment_unfold in E. cbn zeta in E.
  pose proof HI as [Hn Hnx _ Hd Hch Hpd]. rewrite Hc in Hnx. rewrite Hnx in E.
  pose proof HS as (Ho & Hl & Hdat). rewrite len_zlen in E.
  pose proof (zlen_nonneg data) as HL0.
  assert (HU : is_u32 (zlen data)) by (unfold is_u32; consts; lia).
  destruct (0 <? zlen data) eqn:E0.
  - rewrite inWindow_offsets in E by (try exact HU; unfold is_u32 in HU; consts; lia).
    destruct ((off <=? n) && (n <? off + zlen data)) eqn:EW; cbn [negb] in E.
    2:{ injection E as <- <- <-. split; [exists n; exact HI|reflexivity]. }
    rewrite lessThan_offsets in E by (consts; lia).
    destruct (off <? n) eqn:EL.
    + rewrite size_offsets in E by (consts; lia).
      destruct (slice_trim P off data n HS ltac:(lia)) as (HS' & Hlen' & Hne').
      eapply cgo_inv in E.
      * destruct E as [E ->]. split; [eexists; exact E|discriminate].
      * exact Hc.
      * exact Hpd.
      * cbn. apply Forall_app. split; [exact Hch|constructor; [exact Hne'|constructor]].
      * cbn. rewrite concat_snoc, app_assoc, Hd. apply slice_append. exact HS'.
      * rewrite Hlen'. lia.
      * intros Hf. rewrite Hlen'. apply HF. exact Hf.
      * rewrite seq_of_add. unfold u32. rewrite Z.mod_small by (consts; lia).
        rewrite seq_of_add. f_equal. lia.
    + assert (off = n) by lia. subst off.
      eapply cgo_inv in E.
      * destruct E as [E ->]. split; [eexists; exact E|discriminate].
      * exact Hc.
      * exact Hpd.
      * cbn. apply Forall_app. split; [exact Hch|constructor; [|constructor]].
        intros ->. cbn in E0. discriminate.
      * cbn. rewrite concat_snoc, app_assoc, Hd. apply slice_append. exact HS.
      * lia.
      * exact HF.
      * apply seq_of_add.
  - assert (HZ : zlen data = 0) by lia.
    destruct (seq_of irs off =? seq_of irs n) eqn:EQ; cbn [negb] in E.
    2:{ injection E as <- <- <-. split; [exists n; exact HI|reflexivity]. }
    apply Z.eqb_eq in EQ. apply seq_of_inj in EQ; [|consts; lia]. subst off.
    eapply cgo_inv in E.
    * destruct E as [E ->]. split; [eexists; exact E|discriminate].
    * exact Hc.
    * exact Hpd.
    * exact Hch.
    * exact Hd.
    * exact Hn.
    * intros Hf. specialize (HF Hf). lia.
    * rewrite seq_of_add. f_equal. lia.
Qed.

Lemma Inv_set_pending P irs rd t n h u :
  Inv P irs rd t n -> Forall (pseg_slice P irs) h ->
  Inv P irs rd (t <| RC := (RC t) <| pending := h |> <| pendUsed := u |> |>) n.
Proof. intros [H1 H2 H3 H4 H5 H6] Hh. constructor; cbn; assumption. Qed.

Lemma popIt_inv P irs rd (F : tcp -> tcp) t u :
  (forall t', rcv_inv P irs rd t' -> rcv_inv P irs rd (F t')) ->
  rcv_inv P irs rd t ->
  rcv_inv P irs rd
    match pop pless (pending (RC t)) with
    | Some (h', _) => F (t <| RC := (RC t) <| pending := h' |> <| pendUsed := u |> |>)
    | None => t
    end.
Proof.
  intros HF [n HI]. destruct (pop pless (pending (RC t))) as [[h' x]|] eqn:Ep; [|exists n; exact HI].
  apply HF. exists n. apply Inv_set_pending; [exact HI|].
  eapply pop_Forall; [exact Ep|]. apply (inv_pend _ _ _ _ _ HI).
Qed.

Lemma drain_inv P irs rd fuel t :
  zlen P < 2^31 -> rcv_inv P irs rd t -> rcv_inv P irs rd (drainPending fuel t).
Proof.
  intros HP. revert t. induction fuel as [|f IH]; intros t HR; cbn [drainPending]; [exact HR|].
  destruct (rclosed (RC t)) eqn:Hc; [exact HR|].
  destruct (pending (RC t)) as [|s rest] eqn:Epd; [exact HR|]. cbn zeta.
  destruct HR as [n HI].
  assert (Hs : pseg_slice P irs s).
  { pose proof (inv_pend _ _ _ _ _ HI) as Hp. rewrite Epd in Hp. inversion Hp; assumption. }
  destruct Hs as (off & Hseq & HS & HF).
  destruct (lessThan _ _).
  - rewrite <- Epd. apply popIt_inv; [exact IH|exists n; exact HI].
  - destruct (consumeSegment _ _ _ _ _ _) as [[t1 ok] d'] eqn:EC.
    rewrite Hseq in EC. eapply consume_inv in EC; try eassumption.
    destruct EC as [HR1 Hok]. destruct ok; [|exists n; exact HI].
    apply popIt_inv; [exact IH|exact HR1].
Qed.

Lemma rcvHandle_inv P irs rd t s :
  zlen P < 2^31 -> rcv_inv P irs rd t -> seg_slice P irs s -> rcv_inv P irs rd (rcvHandle t s).
Proof.
  intros HP HR Hs. unfold rcvHandle.
  destruct (rclosed (RC t)) eqn:Hc; [exact HR|]. cbn zeta.
  destruct (negb (acceptable _ _ _)).
  { eapply rcv_inv_rview; [apply rview_sendAck|exact HR]. }
  destruct Hs as (off & Hseq & HS & HF). destruct HR as [n HI].
  destruct (consumeSegment _ _ _ _ _ _) as [[t1 ok] d'] eqn:EC.
  rewrite Hseq in EC. eapply consume_inv in EC; try eassumption.
  destruct EC as [HR1 Hok]. destruct ok; cbn [negb].
  - apply drain_inv; assumption.
  - destruct ((0 <? len (s_data s)) || has (s_flags s) fFin); [|exists n; exact HI].
    eapply rcv_inv_rview; [apply rview_sendAck|].
    destruct (pendUsed (RC t) <? pendSize (RC t)); [|exists n; exact HI].
    exists n. destruct HI as [H1 H2 H3 H4 H5 H6]. constructor; cbn; try assumption.
    apply push_Forall; [exact H6|]. exists off. cbn. rewrite <- Hseq. auto.
Qed.

(* a segment without data and without FIN, whatever its sequence number: it is either not
   consumed (and then not parked either), or consumed with rcvNxt unchanged *)
Lemma rcvHandle_empty_inv P irs rd t s :
  zlen P < 2^31 -> rcv_inv P irs rd t -> s_data s = [] -> has (s_flags s) fFin = false ->
  rcv_inv P irs rd (rcvHandle t s).
Proof.
  intros HP HR Hd Hf. unfold rcvHandle.
  destruct (rclosed (RC t)) eqn:Hc; [exact HR|]. cbn zeta.
  destruct (negb (acceptable _ _ _)).
  { eapply rcv_inv_rview; [apply rview_sendAck|exact HR]. }
  rewrite consumeSegment_unfold, Hd. cbn zeta. change (0 <? len []) with false. cbv iota.
  destruct (s_seq s =? rcvNxt (RC t)) eqn:EQ; cbn [negb].
  2:{ rewrite Hf. cbn [orb negb]. exact HR. }
  unfold cgo. rewrite Hf. cbn zeta. cbn [negb]. apply drain_inv; [exact HP|].
  apply Z.eqb_eq in EQ. destruct HR as [n [H1 H2 H3 H4 H5 H6]]. exists n.
  constructor; cbn; try assumption.
  rewrite EQ, H2, seq_of_add. f_equal. lia.
Qed.

Lemma rcvHandle_inv2 P irs rd t s :
  zlen P < 2^31 -> rcv_inv P irs rd t ->
  (s_data s = [] /\ has (s_flags s) fFin = false) \/ seg_slice P irs s ->
  rcv_inv P irs rd (rcvHandle t s).
Proof.
  intros HP HR [[Hd Hf]|Hs]; [apply rcvHandle_empty_inv|apply rcvHandle_inv]; assumption.
Qed.

Lemma rcvHandle_closed t s : rclosed (RC t) = true -> rcvHandle t s = t.
Proof. intros H. unfold rcvHandle. rewrite H. reflexivity. Qed.

Lemma handleSegment_inv P irs rd t s nr idle :
  zlen P < 2^31 -> rcv_inv P irs rd t ->
  (s_data s = [] /\ has (s_flags s) fFin = false) \/ seg_slice P irs s ->
  rcv_inv P irs rd (handleSegment t s nr idle).
Proof.
  intros HP HR Hs. unfold handleSegment.
  destruct (negb (estate t =? stConnected)); [exact HR|].
  assert (A : forall t1, rcv_inv P irs rd t1 ->
     rcv_inv P irs rd (loopExit (if negb (rcvNxt (RC t1) =? maxSentAck (SN t1)) then sendAck t1 else t1))).
  { intros t1 H1. eapply rcv_inv_rview; [apply rview_loopExit|].
    destruct (negb _); [eapply rcv_inv_rview; [apply rview_sendAck|]|]; exact H1. }
  destruct (has (s_flags s) fRst).
  - destruct (acceptable _ _ _); [eapply rcv_inv_rview; [apply rview_resetConnection|exact HR]|]. apply A. exact HR.
  - cbn zeta. apply A.
    destruct (has (s_flags s) fAck); [|exact HR].
    destruct (tsOk t && negb (s_ts s)); [exact HR|].
    eapply rcv_inv_rview; [apply rview_sndHandle|]. apply rcvHandle_inv2; assumption.
Qed.

(* once the receiver is closed, segment processing never touches the receive side again,
   whatever the segment is *)
Lemma handleSegment_closed t s nr idle :
  rclosed (RC t) = true -> rview (handleSegment t s nr idle) = rview t.
Proof.
  intros Hc. unfold handleSegment.
  destruct (negb (estate t =? stConnected)); [reflexivity|].
  assert (A : forall t1, rview t1 = rview t ->
     rview (loopExit (if negb (rcvNxt (RC t1) =? maxSentAck (SN t1)) then sendAck t1 else t1)) = rview t).
  { intros t1 H1. rewrite rview_loopExit. destruct (negb _); [rewrite rview_sendAck|]; exact H1. }
  destruct (has (s_flags s) fRst).
  - destruct (acceptable _ _ _); [reflexivity|]. apply A. reflexivity.
  - cbn zeta. apply A.
    destruct (has (s_flags s) fAck); [|reflexivity].
    destruct (tsOk t && negb (s_ts s)); [reflexivity|].
    rewrite rview_sndHandle, rcvHandle_closed by exact Hc. reflexivity.
Qed.

(* ---------- application reads ---------- *)
Lemma appRead_cases t :
  (exists e, appRead t = (t, None, e)) \/
  (exists v rest t1 e, rcvList t = v :: rest /\ appRead t = (t1, Some v, e) /\
     rview t1 = (rcvNxt (RC t), rclosed (RC t), pending (RC t), rest)).
Proof.
  unfold appRead.
  destruct (negb (estate t =? stConnected) && negb (estate t =? stClosed) && (rcvBufUsed t =? 0));
    [left; eexists; reflexivity|].
  destruct (rcvBufUsed t =? 0); [left; eexists; reflexivity|].
  destruct (rcvList t) as [|v rest] eqn:EL; [left; eexists; reflexivity|].
  right. exists v, rest. eexists. exists 0. split; [reflexivity|]. split; [reflexivity|].
  cbn zeta.
  match goal with |- rview (if ?c then _ else _) = _ => destruct c end; [|reflexivity].
  rewrite rview_loopExit. unfold nonZeroWindow.
  match goal with |- rview (if ?c then _ else _) = _ => destruct c end;
    rewrite ?rview_sendAck; reflexivity.
Qed.

(* ---------- traces ---------- *)
Definition read_of (r : result) : list (list Z) := match r with RBytes b => [b] | _ => [] end.

(* the chunks returned by the successful ERead steps of a run, in order *)
Fixpoint reads_run (t : tcp) (es : list event) : list (list Z) :=
  match es with
  | [] => []
  | e :: r => read_of (snd (step t e)) ++ reads_run (fst (step t e)) r
  end.

Lemma run_cons t e es : run t (e :: es) = run (fst (step t e)) es.
Proof. reflexivity. Qed.

Lemma rview_clear_out t : rview (t <| out := [] |>) = rview t.
Proof. reflexivity. Qed.

Lemma step_cases t e :
  match e with
  | ESeg s nr => fst (step t e) = handleSegment (t <| out := [] |>) s nr false /\ read_of (snd (step t e)) = []
  | ERead =>
      (read_of (snd (step t e)) = [] /\ rview (fst (step t e)) = rview t) \/
      (exists v rest, rcvList t = v :: rest /\ read_of (snd (step t e)) = [v] /\
         rview (fst (step t e)) = (rcvNxt (RC t), rclosed (RC t), pending (RC t), rest))
  | _ => read_of (snd (step t e)) = [] /\ rview (fst (step t e)) = rview t
  end.
Proof.
  destruct e as [s nr|d| | |]; unfold step; cbn zeta.
  - split; reflexivity.
  - pose proof (rview_appWrite (t <| out := [] |>) d false) as H.
    destruct (appWrite _ d false) as [t1 k]. cbn [fst snd] in *. split; [destruct (k <? 0); reflexivity|].
    rewrite H. reflexivity.
  - destruct (appRead_cases (t <| out := [] |>)) as [[e E]|(v & rest & t1 & e & EL & E & EV)]; rewrite E; cbn [fst snd].
    + left. split; reflexivity.
    + right. exists v, rest. split; [exact EL|]. split; [reflexivity|]. exact EV.
  - pose proof (rview_appShutdownWrite (t <| out := [] |>) false) as H.
    destruct (appShutdownWrite _ false) as [t1 k]. cbn [fst snd] in *. split; [destruct (k <? 0); reflexivity|].
    rewrite H. reflexivity.
  - destruct (negb (estate (t <| out := [] |>) =? stConnected)); [split; reflexivity|].
    pose proof (rview_rtoExpired (t <| out := [] |>) false) as H.
    destruct (rtoExpired _ false) as [t1 alive]. cbn [fst snd] in *. split; [reflexivity|].
    destruct alive; rewrite ?rview_loopExit, ?rview_resetConnection, H; reflexivity.
Qed.

Lemma Inv_read P irs rd t t1 n v rest :
  rcvList t = v :: rest -> rview t1 = (rcvNxt (RC t), rclosed (RC t), pending (RC t), rest) ->
  Inv P irs rd t n -> Inv P irs (rd ++ v) t1 n /\ v <> [].
Proof.
  unfold rview. intros EL E [H1 H2 H3 H4 H5 H6]. inversion E as [[E1 E2 E3 E4]].
  rewrite EL in H4, H5. cbn [concat] in H4. inversion H5 as [|? ? Hv Hrest]; subst.
  split; [|exact Hv].
  constructor; rewrite ?E1, ?E2, ?E3, ?E4; try assumption.
  rewrite <- app_assoc. exact H4.
Qed.

Lemma step_inv P irs rd t e :
  zlen P < 2^31 -> ev_ok2 P irs e -> rcv_inv P irs rd t ->
  rcv_inv P irs (rd ++ concat (read_of (snd (step t e)))) (fst (step t e)) /\
  Forall (fun c : list Z => c <> []) (read_of (snd (step t e))).
Proof.
  intros HP He HR. pose proof (step_cases t e) as C.
  assert (N : forall t', read_of (snd (step t e)) = [] -> rcv_inv P irs rd t' ->
            rcv_inv P irs (rd ++ concat (read_of (snd (step t e)))) t' /\
            Forall (fun c : list Z => c <> []) (read_of (snd (step t e)))).
  { intros t' -> H. cbn [concat]. rewrite app_nil_r. split; [exact H|constructor]. }
  destruct e as [s nr|d| | |].
  - destruct C as [-> Hr]. apply N; [exact Hr|].
    apply handleSegment_inv; [exact HP| |exact He].
    eapply rcv_inv_rview; [apply rview_clear_out|exact HR].
  - destruct C as [Hr Hv]. apply N; [exact Hr|]. eapply rcv_inv_rview; eassumption.
  - destruct C as [[Hr Hv]|(v & rest & EL & Hr & Hv)].
    + apply N; [exact Hr|]. eapply rcv_inv_rview; eassumption.
    + rewrite Hr. cbn [concat]. rewrite app_nil_r. destruct HR as [n HI].
      destruct (Inv_read _ _ _ _ _ _ _ _ EL Hv HI) as [HI' Hne].
      split; [exists n; exact HI'|constructor; [exact Hne|constructor]].
  - destruct C as [Hr Hv]. apply N; [exact Hr|]. eapply rcv_inv_rview; eassumption.
  - destruct C as [Hr Hv]. apply N; [exact Hr|]. eapply rcv_inv_rview; eassumption.
Qed.

Lemma run_inv P irs es : zlen P < 2^31 -> Forall (ev_ok2 P irs) es ->
  forall rd t, rcv_inv P irs rd t ->
  rcv_inv P irs (rd ++ concat (reads_run t es)) (run t es) /\
  Forall (fun c : list Z => c <> []) (reads_run t es).
Proof.
  intros HP Hes. induction Hes as [|e es He Hes IH]; intros rd t HR.
  - cbn. rewrite app_nil_r. split; [exact HR|constructor].
  - rewrite run_cons. cbn [reads_run].
    destruct (step_inv P irs rd t e HP He HR) as [H1 H2].
    destruct (IH _ _ H1) as [H3 H4]. split.
    + rewrite concat_app, app_assoc. exact H3.
    + apply Forall_app. split; assumption.
Qed.

Lemma rview_proj t' a b c d : rview t' = (a, b, c, d) ->
  rcvNxt (RC t') = a /\ rclosed (RC t') = b /\ pending (RC t') = c /\ rcvList t' = d.
Proof. unfold rview. intros E. inversion E. auto. Qed.

(* closed receiver: frozen *)
Lemma step_closed t e : rclosed (RC t) = true ->
  rclosed (RC (fst (step t e))) = true /\ rcvNxt (RC (fst (step t e))) = rcvNxt (RC t) /\
  read_of (snd (step t e)) ++ rcvList (fst (step t e)) = rcvList t.
Proof.
  intros Hc. pose proof (step_cases t e) as C.
  assert (N : forall t', read_of (snd (step t e)) = [] -> rview t' = rview t ->
     rclosed (RC t') = true /\ rcvNxt (RC t') = rcvNxt (RC t) /\
     read_of (snd (step t e)) ++ rcvList t' = rcvList t).
  { intros t' -> E. destruct (rview_proj _ _ _ _ _ E) as (E1 & E2 & E3 & E4). cbn [app]. repeat split; congruence. }
  destruct e as [s nr|d| | |].
  - destruct C as [-> Hr]. apply N; [exact Hr|]. rewrite handleSegment_closed; [reflexivity|exact Hc].
  - destruct C as [Hr Hv]. apply N; assumption.
  - destruct C as [[Hr Hv]|(v & rest & EL & Hr & Hv)]; [apply N; assumption|].
    destruct (rview_proj _ _ _ _ _ Hv) as (E1 & E2 & E3 & E4). rewrite Hr, EL, E4. cbn [app]. repeat split; congruence.
  - destruct C as [Hr Hv]. apply N; assumption.
  - destruct C as [Hr Hv]. apply N; assumption.
Qed.

(* ---------- the theorems ---------- *)

(* a freshly established receiver (newReceiver: rcvNxt = irs + 1; nothing pending, queued or read) *)
Lemma rcv_inv_established P irs t :
  rcvNxt (RC t) = seq_of irs 0 -> rclosed (RC t) = false -> pending (RC t) = [] -> rcvList t = [] ->
  rcv_inv P irs [] t.
Proof.
  intros H1 H2 H3 H4. exists 0. constructor; rewrite ?H2, ?H3, ?H4.
  - pose proof (zlen_nonneg P). lia.
  - exact H1.
  - discriminate.
  - reflexivity.
  - constructor.
  - constructor.
Qed.

(* the invariant is inductive along every run of admissible events (general form [ev_ok2]:
   segments without data and FIN may carry any sequence number) *)
Theorem rcv_inv_run2 P irs rd0 t es :
  zlen P < 2^31 -> rcv_inv P irs rd0 t -> Forall (ev_ok2 P irs) es ->
  rcv_inv P irs (rd0 ++ concat (reads_run t es)) (run t es).
Proof. intros HP HR Hes. apply run_inv; assumption. Qed.

(* main statement: bytes read ++ bytes queued = the first n bytes of the peer's stream, where n is
   the offset named by rcvNxt *)
Theorem rcv_stream_prefix2 P irs rd0 t es :
  zlen P < 2^31 -> rcv_inv P irs rd0 t -> Forall (ev_ok2 P irs) es ->
  exists n, 0 <= n <= zlen P /\
    rcvNxt (RC (run t es)) = seq_of irs (if rclosed (RC (run t es)) then n + 1 else n) /\
    (rclosed (RC (run t es)) = true -> n = zlen P) /\
    rd0 ++ concat (reads_run t es) ++ concat (rcvList (run t es)) = firstn (Z.to_nat n) P.
Proof.
  intros HP HR Hes. destruct (rcv_inv_run2 P irs rd0 t es HP HR Hes) as [n [H1 H2 H3 H4 H5 H6]].
  exists n. repeat split; try assumption; try lia. rewrite app_assoc. exact H4.
Qed.

Theorem rcv_reads_prefix2 P irs rd0 t es :
  zlen P < 2^31 -> rcv_inv P irs rd0 t -> Forall (ev_ok2 P irs) es ->
  exists rest, rd0 ++ concat (reads_run t es) ++ rest = P.
Proof.
  intros HP HR Hes. destruct (rcv_stream_prefix2 P irs rd0 t es HP HR Hes) as (n & _ & _ & _ & H).
  exists (concat (rcvList (run t es)) ++ skipn (Z.to_nat n) P).
  rewrite <- (firstn_skipn (Z.to_nat n) P) at 2. rewrite <- H, <- !app_assoc. reflexivity.
Qed.

Theorem rcv_no_empty_chunk2 P irs rd0 t es :
  zlen P < 2^31 -> rcv_inv P irs rd0 t -> Forall (ev_ok2 P irs) es ->
  Forall (fun c : list Z => c <> []) (reads_run t es) /\
  Forall (fun c : list Z => c <> []) (rcvList (run t es)).
Proof.
  intros HP HR Hes. destruct (run_inv P irs es HP Hes rd0 t HR) as [[n HI] H2].
  split; [exact H2|]. apply (inv_chunks _ _ _ _ _ HI).
Qed.

(* once the FIN has been consumed the whole stream, and nothing else, has been delivered *)
Theorem rcv_eof_complete2 P irs rd0 t es :
  zlen P < 2^31 -> rcv_inv P irs rd0 t -> Forall (ev_ok2 P irs) es ->
  rclosed (RC (run t es)) = true ->
  rd0 ++ concat (reads_run t es) ++ concat (rcvList (run t es)) = P.
Proof.
  intros HP HR Hes Hc. destruct (rcv_stream_prefix2 P irs rd0 t es HP HR Hes) as (n & _ & _ & Hn & H).
  rewrite H, (Hn Hc). unfold zlen. rewrite Nat2Z.id. apply firstn_all.
Qed.

(* the same under the stricter [ev_ok] (every segment a slice): corollaries *)
Theorem rcv_inv_run P irs rd0 t es :
  zlen P < 2^31 -> rcv_inv P irs rd0 t -> Forall (ev_ok P irs) es ->
  rcv_inv P irs (rd0 ++ concat (reads_run t es)) (run t es).
Proof. intros HP HR Hes. apply (rcv_inv_run2 P irs); [| |apply Forall_ev_ok_ok2]; assumption. Qed.

Theorem rcv_stream_prefix P irs rd0 t es :
  zlen P < 2^31 -> rcv_inv P irs rd0 t -> Forall (ev_ok P irs) es ->
  exists n, 0 <= n <= zlen P /\
    rcvNxt (RC (run t es)) = seq_of irs (if rclosed (RC (run t es)) then n + 1 else n) /\
    (rclosed (RC (run t es)) = true -> n = zlen P) /\
    rd0 ++ concat (reads_run t es) ++ concat (rcvList (run t es)) = firstn (Z.to_nat n) P.
Proof. intros HP HR Hes. apply (rcv_stream_prefix2 P irs); [| |apply Forall_ev_ok_ok2]; assumption. Qed.

Theorem rcv_reads_prefix P irs rd0 t es :
  zlen P < 2^31 -> rcv_inv P irs rd0 t -> Forall (ev_ok P irs) es ->
  exists rest, rd0 ++ concat (reads_run t es) ++ rest = P.
Proof. intros HP HR Hes. apply (rcv_reads_prefix2 P irs); [| |apply Forall_ev_ok_ok2]; assumption. Qed.

Theorem rcv_no_empty_chunk P irs rd0 t es :
  zlen P < 2^31 -> rcv_inv P irs rd0 t -> Forall (ev_ok P irs) es ->
  Forall (fun c : list Z => c <> []) (reads_run t es) /\
  Forall (fun c : list Z => c <> []) (rcvList (run t es)).
Proof. intros HP HR Hes. apply (rcv_no_empty_chunk2 P irs rd0); [| |apply Forall_ev_ok_ok2]; assumption. Qed.

Theorem rcv_eof_complete P irs rd0 t es :
  zlen P < 2^31 -> rcv_inv P irs rd0 t -> Forall (ev_ok P irs) es ->
  rclosed (RC (run t es)) = true ->
  rd0 ++ concat (reads_run t es) ++ concat (rcvList (run t es)) = P.
Proof. intros HP HR Hes Hc. apply (rcv_eof_complete2 P irs); [| |apply Forall_ev_ok_ok2|]; assumption. Qed.

(* after end-of-stream nothing is ever appended to the receive queue, whatever arrives (no
   hypothesis on the events): the queue only shrinks by what the reads return *)
Theorem rcv_closed_frozen t es :
  rclosed (RC t) = true ->
  rclosed (RC (run t es)) = true /\ rcvNxt (RC (run t es)) = rcvNxt (RC t) /\
  reads_run t es ++ rcvList (run t es) = rcvList t.
Proof.
  revert t. induction es as [|e es IH]; intros t Hc.
  - cbn. auto.
  - rewrite run_cons. cbn [reads_run]. destruct (step_closed t e Hc) as (H1 & H2 & H3).
    destruct (IH _ H1) as (I1 & I2 & I3). split; [exact I1|]. split; [congruence|].
    rewrite <- app_assoc, I3. exact H3.
Qed.

(* "fresh": under the length bound every slice of P is within 2^31 of every receiver position, so
   sequence-number comparisons agree with offset comparisons *)
Lemma slice_fresh P off d n :
  zlen P < 2^31 -> slice_at P off d -> 0 <= n <= zlen P -> - 2^31 < off - n < 2^31.
Proof. intros HP (H0 & H1 & _) Hn. pose proof (zlen_nonneg d). lia. Qed.

(* ---------- the hypotheses are satisfiable: a concrete run across the 2^32 wrap ---------- *)
Definition ex_P : list Z := [10; 11; 12; 13; 14; 15; 16; 17; 18; 19].
Definition ex_irs : Z := 4294967290.        (* offsets >= 5 wrap around 2^32 *)
Definition ex_t0 : tcp :=
  mkTcp (mkRcvr 4294967291 65530 0 false [] 0 65535)
        (mkSndr 0 false 0 0 0 10 1000000 0 0 65535 1001 1001 1001 false [] [] 0 1000000000 1460 0
                4294967291 1001)
        [] 0 65535 false 65535 0 false 0 false [].
Definition ex_seg (off flags : Z) (d : list Z) : seg :=
  mkSeg (seq_of ex_irs off) 1001 flags 65535 d false false.
(* offset 6..10 first, then 2..7 (overlaps both neighbours), then 0..4 fills the hole; a stale
   replay of the middle one; a read; the FIN; three more reads *)
Definition ex_es : list event :=
  [ ESeg (ex_seg 6 fAck [16; 17; 18; 19]) 0;
    ESeg (ex_seg 2 (Z.lor fAck fPsh) [12; 13; 14; 15; 16]) 0;
    ERead;
    ESeg (ex_seg 0 fAck [10; 11; 12; 13]) 0;
    ESeg (ex_seg 2 (Z.lor fAck fPsh) [12; 13; 14; 15; 16]) 0;
    ERead;
    ESeg (ex_seg 10 (Z.lor fAck fFin) []) 0;
    ERead; ERead; ERead ].

Ltac ex_slice off :=
  exists off; split; [reflexivity|]; split;
  [ split; [lia|]; split; [vm_compute; discriminate|reflexivity]
  | let H := fresh "H" in intros H; try reflexivity; exfalso; apply H; reflexivity ].

Example ex_hyps :
  zlen ex_P < 2^31 /\ rcv_inv ex_P ex_irs [] ex_t0 /\ Forall (ev_ok ex_P ex_irs) ex_es.
Proof.
  split; [vm_compute; reflexivity|]. split; [apply rcv_inv_established; reflexivity|].
  unfold ex_es. repeat (constructor; try exact I).
  - ex_slice 6.
  - ex_slice 2.
  - ex_slice 0.
  - ex_slice 2.
  - ex_slice 10.
Qed.

Example ex_run :
  reads_run ex_t0 ex_es = [[10; 11; 12; 13]; [14; 15; 16]; [17; 18; 19]] /\
  rcvList (run ex_t0 ex_es) = [] /\ rclosed (RC (run ex_t0 ex_es)) = true /\
  rcvNxt (RC (run ex_t0 ex_es)) = seq_of ex_irs 11.
Proof. vm_compute. repeat split; reflexivity. Qed.

(* ---------- the slice hypothesis matters ---------- *)
(* a segment whose payload consists of genuine bytes of P (its slice at offset 3) but whose
   sequence number names offset 0 is delivered as if it were the start of the stream: the model
   (like the code) believes the sequence number *)
Definition data_of_P (P : list Z) (e : event) : Prop :=
  match e with ESeg s _ => exists off, slice_at P off (s_data s) | _ => True end.

Lemma rcv_needs_slice_refuted :
  exists P irs t es, zlen P < 2^31 /\ rcv_inv P irs [] t /\ Forall (data_of_P P) es /\
    ~ exists rest, concat (reads_run t es) ++ rest = P.
Proof.
  exists ex_P, ex_irs, ex_t0, [ESeg (ex_seg 0 fAck [13; 14]) 0; ERead].
  split; [vm_compute; reflexivity|]. split; [apply rcv_inv_established; reflexivity|]. split.
  - constructor; [|constructor; [exact I|constructor]].
    exists 3. split; [lia|]. split; [vm_compute; discriminate|reflexivity].
  - intros [rest H]. vm_compute in H. discriminate H.
Qed.
