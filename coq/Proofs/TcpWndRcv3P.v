(* C04, part 4: acceptance and delivery (clause 5), the reopening read (clause 6). *)
From Coq Require Import ZArith List Bool Lia ZifyBool.
From RecordUpdate Require Import RecordSet.
From NP Require Import Model.Seqnum Model.GoHeap Model.Tcp Proofs.SeqnumP Proofs.TcpWndP Proofs.TcpWndHeapP
  Proofs.TcpWndRcvP Proofs.TcpWndRcv2P.
Import ListNotations RecordSetNotations.
Open Scope Z_scope.

(* ------------------------------------------------------------------ clause 5: acceptance and delivery *)
Definition extends (t t' : tcp) : Prop := exists rest, rcvList t' = rcvList t ++ rest.
Lemma extends_refl t : extends t t. Proof. exists []. rewrite app_nil_r. reflexivity. Qed.
Lemma extends_trans a b c : extends a b -> extends b c -> extends a c.
Proof. intros (r1 & H1) (r2 & H2). exists (r1 ++ r2). rewrite H2, H1, app_assoc. reflexivity. Qed.
Lemma extends_same a b : rcvList b = rcvList a -> extends a b.
Proof. intros H. exists []. rewrite app_nil_r. exact H. Qed.

Lemma consumeGo_rcvList fl fh t q l d : rcvList (fst (fst (consumeGo fl fh t q l d))) = rcvList t.
Proof.
  unfold consumeGo. cbv zeta. destruct (has fl fFin); cbn [fst]; [|reflexivity].
  unfold sendAck. rewrite sendSegment_eq. reflexivity.
Qed.

Lemma consumeSegment_extends t fl d sq sl fh : extends t (fst (fst (consumeSegment t fl d sq sl fh))).
Proof.
  rewrite consumeSegment_eq.
  destruct (0 <? sl).
  - destruct (negb (inWindow _ _ _)); [apply extends_refl|].
    destruct (lessThan sq _); cbv zeta; rewrite consumeGo_rcvList || idtac;
      (eexists; rewrite consumeGo_rcvList; unfold readyToRead; cbn; reflexivity).
  - destruct (negb (sq =? _)); [apply extends_refl|]. apply extends_same. apply consumeGo_rcvList.
Qed.

Lemma drainPending_extends fuel : forall t, extends t (drainPending fuel t).
Proof.
  induction fuel as [|fuel IH]; intros t; [apply extends_refl|]. rewrite drainPending_S.
  destruct (rclosed (RC t)); [apply extends_refl|].
  destruct (pending (RC t)) as [|hd rest]; [apply extends_refl|].
  assert (Pop : forall t0 dd, extends t0 (popIt fuel hd t0 dd)).
  { intros t0 dd. unfold popIt. destruct (pop pless (pending (RC t0))) as [[h' x]|]; [|apply extends_refl].
    eapply extends_trans; [|apply IH]. apply extends_same. reflexivity. }
  destruct (lessThan _ _); [apply Pop|].
  pose proof (consumeSegment_extends t (p_flags hd) (p_data hd) (p_seq hd) (len (p_data hd)) true) as Hc.
  destruct (consumeSegment t (p_flags hd) (p_data hd) (p_seq hd) (len (p_data hd)) true) as [[t1 ok] d'].
  cbn [fst] in Hc. destruct ok; [|apply extends_refl]. eapply extends_trans; [exact Hc|apply Pop].
Qed.

(* in-order data that starts inside a non-empty window is acceptable, consumed and queued at once *)
Lemma rcvHandle_inorder t sg :
  rclosed (RC t) = false -> is_u32 (rcvNxt (RC t)) ->
  s_seq sg = rcvNxt (RC t) -> 0 < len (s_data sg) < 2^31 ->
  size (rcvNxt (RC t)) (rcvAcc (RC t)) <> 0 ->
  acceptable (RC t) (s_seq sg) (len (s_data sg)) = true /\
  snd (fst (consumeSegment t (s_flags sg) (s_data sg) (s_seq sg) (len (s_data sg)) false)) = true /\
  exists rest, rcvList (rcvHandle t sg) = rcvList t ++ [s_data sg] ++ rest.
Proof.
  intros Hcl Hu Hseq Hlen Hw.
  assert (Hacc : acceptable (RC t) (s_seq sg) (len (s_data sg)) = true).
  { unfold acceptable. cbv zeta. destruct (size _ _ =? 0) eqn:E; [lia|].
    apply orb_true_iff. left. rewrite Hseq. unfold inWindow, inRange, add.
    apply Z.ltb_lt. pose proof (size_is_u32 (rcvNxt (RC t)) (rcvAcc (RC t))) as Hsz.
    revert Hw Hsz Hu. generalize (size (rcvNxt (RC t)) (rcvAcc (RC t))). intros z. word. }
  assert (Hcons : consumeSegment t (s_flags sg) (s_data sg) (s_seq sg) (len (s_data sg)) false =
                  consumeGo (s_flags sg) false (readyToRead t (s_data sg)) (s_seq sg) (len (s_data sg)) (s_data sg)).
  { rewrite consumeSegment_eq.
    assert ((0 <? len (s_data sg)) = true) as -> by lia.
    assert (inWindow (rcvNxt (RC t)) (s_seq sg) (len (s_data sg)) = true) as ->.
    { rewrite Hseq. unfold inWindow, inRange, add. apply Z.ltb_lt. revert Hlen Hu. clear. intros. word. }
    cbn [negb]. rewrite Hseq, lessThan_irrefl. reflexivity. }
  split; [exact Hacc|]. split.
  { rewrite Hcons. unfold consumeGo. cbv zeta. destruct (has _ fFin); reflexivity. }
  unfold rcvHandle. rewrite Hcl, Hacc. cbn [negb]. rewrite Hcons.
  assert (Hok : snd (fst (consumeGo (s_flags sg) false (readyToRead t (s_data sg)) (s_seq sg) (len (s_data sg)) (s_data sg))) = true)
    by (unfold consumeGo; cbv zeta; destruct (has _ fFin); reflexivity).
  pose proof (consumeGo_rcvList (s_flags sg) false (readyToRead t (s_data sg)) (s_seq sg) (len (s_data sg)) (s_data sg)) as Hl.
  destruct (consumeGo _ _ _ _ _ _) as [[t1 ok] d']. cbn [fst snd] in *. subst ok. cbn [negb].
  destruct (drainPending_extends (S (length (pending (RC t1)))) t1) as (rest & Hr).
  exists rest. rewrite Hr, Hl. unfold readyToRead. cbn. rewrite <- app_assoc. reflexivity.
Qed.

(* a segment whose sequence range does not contain rcvNxt delivers nothing *)
Lemma rcvHandle_outside t sg :
  0 < len (s_data sg) ->
  acceptable (RC t) (s_seq sg) (len (s_data sg)) = false \/
  inWindow (rcvNxt (RC t)) (s_seq sg) (len (s_data sg)) = false ->
  rcvList (rcvHandle t sg) = rcvList t /\ rcvNxt (RC (rcvHandle t sg)) = rcvNxt (RC t) /\
  rcvBufUsed (rcvHandle t sg) = rcvBufUsed t.
Proof.
  intros Hlen Hw. unfold rcvHandle.
  destruct (rclosed (RC t)); [repeat split|].
  destruct (acceptable _ _ _) eqn:Eacc; cbn [negb]; [|unfold sendAck; rewrite sendSegment_eq; repeat split].
  destruct Hw as [Hw|Hw]; [discriminate|].
  rewrite consumeSegment_eq.
  assert ((0 <? len (s_data sg)) = true) as -> by lia. rewrite Hw. cbn [negb].
  rewrite orb_true_l. cbv zeta.
  destruct (pendUsed (RC t) <? pendSize (RC t)); unfold sendAck; rewrite sendSegment_eq; repeat split.
Qed.

Lemma rcvList_sends t t' : sends t t' -> rcvList t' = rcvList t.
Proof. intros H. destruct (sends_rc_same _ _ H) as (_&_&_&_&_&_&L&_). exact L. Qed.

Lemma rcvList_loopExit t : rcvList (loopExit t) = rcvList t.
Proof. destruct (loopExit_neutral t) as (_&_&_&L&_). exact L. Qed.

Lemma rcvList_tail t : rcvList (loopExit (if negb (rcvNxt (RC t) =? maxSentAck (SN t)) then sendAck t else t)) = rcvList t.
Proof.
  rewrite rcvList_loopExit. destruct (negb _); [|reflexivity]. apply rcvList_sends, sendAck_sends.
Qed.

(* where the delivery queue of handleSegments comes from *)
Lemma handleSegment_rcvList t sg r idle :
  rcvList (handleSegment t sg r idle) = rcvList t \/
  (estate t = stConnected /\ has (s_flags sg) fRst = false /\ has (s_flags sg) fAck = true /\
   (tsOk t && negb (s_ts sg)) = false /\
   rcvList (handleSegment t sg r idle) = rcvList (rcvHandle t sg)).
Proof.
  unfold handleSegment.
  destruct (estate t =? stConnected) eqn:Ee; cbn [negb]; [|left; reflexivity].
  destruct (has (s_flags sg) fRst) eqn:Er.
  { left. destruct (acceptable _ _ _); [reflexivity|apply rcvList_tail]. }
  cbv zeta. rewrite rcvList_tail.
  destruct (has (s_flags sg) fAck) eqn:Ea; [|left; reflexivity].
  destruct (tsOk t && negb (s_ts sg)) eqn:Et; [left; reflexivity|].
  right. repeat split; try reflexivity; [lia|]. apply rcvList_sends, sndHandle_sends.
Qed.

Theorem inorder_step t sg r :
  estate t = stConnected -> has (s_flags sg) fRst = false -> has (s_flags sg) fAck = true ->
  (tsOk t && negb (s_ts sg)) = false ->
  rclosed (RC t) = false -> is_u32 (rcvNxt (RC t)) ->
  s_seq sg = rcvNxt (RC t) -> 0 < len (s_data sg) < 2^31 ->
  size (rcvNxt (RC t)) (rcvAcc (RC t)) <> 0 ->
  acceptable (RC t) (s_seq sg) (len (s_data sg)) = true /\
  exists rest, rcvList (fst (step t (ESeg sg r))) = rcvList t ++ [s_data sg] ++ rest.
Proof.
  intros He Hr Ha Ht Hc Hu Hs Hl Hw. unfold step. cbn [fst].
  set (t0 := t <| out := [] |>).
  assert (He0 : estate t0 = stConnected) by exact He.
  assert (Ht0 : (tsOk t0 && negb (s_ts sg)) = false) by exact Ht.
  destruct (rcvHandle_inorder t0 sg Hc Hu Hs Hl Hw) as (A & _ & rest & R).
  split; [exact A|]. exists rest. change (rcvList t) with (rcvList t0). rewrite <- R.
  unfold handleSegment. rewrite He0. change (stConnected =? stConnected) with true. cbn [negb].
  rewrite Hr. cbv zeta. rewrite rcvList_tail, Ha, Ht0.
  apply rcvList_sends, sndHandle_sends.
Qed.

Theorem outside_step t sg r :
  0 < len (s_data sg) ->
  acceptable (RC t) (s_seq sg) (len (s_data sg)) = false \/
  inWindow (rcvNxt (RC t)) (s_seq sg) (len (s_data sg)) = false ->
  rcvList (fst (step t (ESeg sg r))) = rcvList t.
Proof.
  intros Hl Hw. unfold step. cbn [fst]. set (t0 := t <| out := [] |>).
  assert (Hw0 : acceptable (RC t0) (s_seq sg) (len (s_data sg)) = false \/
                inWindow (rcvNxt (RC t0)) (s_seq sg) (len (s_data sg)) = false) by exact Hw.
  destruct (handleSegment_rcvList t0 sg r false) as [H|(_&_&_&_&H)]; rewrite H; [reflexivity|].
  destruct (rcvHandle_outside t0 sg Hl Hw0) as (Q & _). exact Q.
Qed.

(* in offsets: a segment lying wholly before rcvNxt or wholly at/after the right edge rcvAcc *)
Lemma wholly_outside (r : rcvr) b n a o l :
  rcvNxt r = seq_of b n -> rcvAcc r = seq_of b a ->
  0 < l < 2^31 -> n <= a <= n + 2^30 -> - 2^30 <= o - n <= 2^30 ->
  (o + l <= n \/ a <= o) ->
  acceptable r (seq_of b o) l = false \/ inWindow (rcvNxt r) (seq_of b o) l = false.
Proof.
  intros Hn Ha Hl Hna Hb Hout. rewrite Hn.
  assert (Hiw : inWindow (seq_of b n) (seq_of b o) l = (o <=? n) && (n <? o + l)).
  { apply inWindow_offsets.
    - unfold is_u32. consts. change (2^31) with 2147483648 in *. lia.
    - consts. change (2^31) with 2147483648 in *. change (2^30) with 1073741824 in *. lia. }
  rewrite Hiw.
  destruct (Z.eq_dec o n) as [->|Hne]; [|right; destruct Hout; lia].
  destruct Hout as [Hout|Hout]; [right; lia|].
  left. assert (a = n) by lia. subst a.
  unfold acceptable. cbv zeta. rewrite Hn, Ha.
  assert (size (seq_of b n) (seq_of b n) = 0) as -> by (rewrite size_offsets; consts; lia).
  cbn. apply andb_false_iff. left. lia.
Qed.

(* ------------------------------------------------------------------ clause 6: the reopening read *)
(* the first read after which the window stops being "zero" sends a window update unless the
   window already advertised is still open *)
Lemma appRead_reopen t v rest :
  estate t = stConnected -> rcvList t = v :: rest -> rcvBufUsed t <> 0 ->
  let t1 := t <| rcvList := rest |> <| rcvBufUsed := rcvBufUsed t - len v |> in
  zeroReceiveWindow t = true -> zeroReceiveWindow t1 = false ->
  snd (fst (appRead t)) = Some v /\
  out (fst (fst (appRead t))) =
    out t ++ (if Z.shiftr (u32 (rcvAcc (RC t) - rcvNxt (RC t))) (rcvWndScale (RC t)) =? 0
              then [mkF (sndNxt (SN t)) (rcvNxt (RC t)) fAck
                        (adv_wnd (rcvNxt (RC t)) (newAcc t1) (rcvWndScale (RC t))) []]
              else []).
Proof.
  intros He Hv Hu. cbv zeta. intros Hz Hz1. unfold appRead.
  rewrite He. change (stConnected =? stConnected) with true. cbn [negb andb].
  assert ((rcvBufUsed t =? 0) = false) as -> by lia.
  rewrite Hv. cbv zeta. rewrite Hz.
  set (t1 := t <| rcvList := rest |> <| rcvBufUsed := rcvBufUsed t - len v |>) in *.
  rewrite Hz1. change (estate t1) with (estate t). rewrite He.
  change (stConnected =? stConnected) with true. cbn [negb andb fst snd].
  split; [reflexivity|]. rewrite loopExit_out. unfold nonZeroWindow.
  change (rcvAcc (RC t1)) with (rcvAcc (RC t)). change (rcvNxt (RC t1)) with (rcvNxt (RC t)).
  change (rcvWndScale (RC t1)) with (rcvWndScale (RC t)).
  destruct (Z.shiftr _ _ =? 0); cbn [negb].
  - unfold sendAck. rewrite sendSegment_eq. reflexivity.
  - rewrite app_nil_r. reflexivity.
Qed.

(* under the invariant that update carries a non-zero window *)
Lemma reopen_nonzero b n a t v rest :
  RInvAt b n a t -> rcvList t = v :: rest ->
  let t1 := t <| rcvList := rest |> <| rcvBufUsed := rcvBufUsed t - len v |> in
  zeroReceiveWindow t1 = false ->
  0 < adv_wnd (rcvNxt (RC t)) (newAcc t1) (rcvWndScale (RC t)).
Proof.
  intros (Hn & HN & Ha & Hs & Hna & Hsz & HU & HJ & HP) Hv. cbv zeta. intros Hz.
  set (t1 := t <| rcvList := rest |> <| rcvBufUsed := rcvBufUsed t - len v |>) in *.
  set (s := rcvWndScale (RC t)) in *.
  pose proof (len_nonneg v) as Hv0. pose proof (len_nonneg (concat rest)) as Hr0.
  assert (HU1 : rcvBufUsed t1 = len (concat rest)).
  { subst t1. cbn. rewrite HU, Hv. cbn [concat]. rewrite len_app. lia. }
  unfold zeroReceiveWindow in Hz. change (rcvBufSize t1) with (rcvBufSize t) in Hz.
  change (rcvWndScale (RC t1)) with s in Hz.
  destruct (rcvBufSize t <=? rcvBufUsed t1) eqn:E1; [discriminate|].
  set (avail := rcvBufSize t - rcvBufUsed t1) in *.
  assert (Hav : 0 < avail <= P30) by (subst avail; unfold P30 in *; lia).
  assert (Hsh : 1 <= Z.shiftr avail s).
  { pose proof (Z.shiftr_nonneg avail s). lia. }
  assert (Hna1 : newAcc t1 = seq_of b (Z.max a (n + avail))).
  { unfold newAcc. change (rcvNxt (RC t1)) with (rcvNxt (RC t)). change (rcvAcc (RC t1)) with (rcvAcc (RC t)).
    unfold receiveBufferAvailable. change (rcvBufSize t1) with (rcvBufSize t). rewrite E1. fold avail.
    rewrite Hn, Ha. rewrite (u32_small avail) by (unfold P30 in *; consts; lia).
    rewrite seq_of_add. rewrite lessThan_offsets by (unfold P30 in *; consts; lia).
    destruct (a <? n + avail) eqn:E; f_equal; lia. }
  unfold adv_wnd. rewrite Hna1, Hn.
  change (u32 (seq_of b (Z.max a (n + avail)) - seq_of b n)) with (size (seq_of b n) (seq_of b (Z.max a (n + avail)))).
  rewrite size_offsets by (unfold P30 in *; consts; lia).
  assert (Z.shiftr avail s <= Z.shiftr (Z.max a (n + avail) - n) s).
  { rewrite !Z.shiftr_div_pow2 by lia. apply Z.div_le_mono; [apply Z.pow_pos_nonneg; lia|lia]. }
  lia.
Qed.
