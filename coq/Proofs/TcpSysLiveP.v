(* Bounded-domain completion theorems for the closed system of Proofs/TcpNetP.v (two Model.Tcp
   endpoints and a network that hands an endpoint a copy of any frame the other has emitted).

   1. [isys_run_sys_run]: the incremental system of Model/TcpSys.v IS the closed system: its state
      after a move list is (run a0 ea, run_out a0 ea, run b0 eb, run_out b0 eb) for
      (ea, eb) = TcpNetP.sys_run a0 b0 ms.
   2. [pump_is_schedule]: whatever the fair pump with drops does is a schedule of that closed
      system: its final system state is the closed-system state under the move list it recorded.
   3. FINITE-DOMAIN theorems, proved by evaluating the pump (vm_compute over forallb, lifted with
      forallb_forall).  They are statements about an explicit finite list of connections, scenarios
      and drop sets - NOT the unbounded liveness claim ("eventually" under every fair network); the
      unbounded safety / progress theorems of C02 are in Proofs/TcpClose*P.v and stay as they are.
        domain: 3 connections established by Model/TcpEst.v ([est_pair]: initial sequence numbers
                adjacent to 2^32 and 2^31 on either side and ordinary ones; MTU 80..120; buffers
                1000..4096; timestamps on; SACK off / on)
              x 4 close orders (A first / B first / simultaneous / duplex; half-close then data the
                other way when w2 > 0)
              x w1 in {0, 1, mss, 2*mss+3 in two chunks} x w2 in {0, 5}            (96 scenarios)
              x EVERY drop set of at most two frames among the first K = 12 frames of either side
                (301 drop sets; no run that ends closed/closed emits more than 12 frames per side,
                so in those runs the drop sets range over every frame)             (28 896 pumped runs)
      Loss of handshake packets is outside this domain (the runs start from established states).
      Outcome, for every element of the domain: the pump stops within the move budget, everything
      written is delivered, followed by end of stream, in both directions, and EITHER both endpoints
      end closed and no reset was emitted, OR the drop set contains the last frame emitted by an
      endpoint that reached the closed state (the acknowledgement completing the exchange: there
      is no TIME-WAIT state, a closed endpoint ignores every later segment) and then its peer fails
      explicitly at the retransmission limit (error state, exactly one reset).
      A second domain (end of the file) repeats the enumeration for a connection whose receiver's
      window closes during the transfer (64-byte receive buffer; 9 632 runs): same outcomes, plus the
      known zero-window stall when a window update is lost.
      Refuted: "every single drop is recovered to closed/closed" (witness: the final ACK), and -
      the KNOWN finding C02-zero-window-stall on two endpoints - "a lost window update is recovered"
      (witness: a 64-byte receive buffer, 80 bytes written, the window-reopening ACK dropped: both
      endpoints stay connected for ever, 16 bytes queued, no timer). *)
From Coq Require Import ZArith List Bool Lia.
From NP Require Import Model.Seqnum Model.Tcp Model.TcpHs Model.TcpEst Proofs.TcpNetP Model.TcpSys.
Import ListNotations.
Open Scope Z_scope.

(* ---------------------------------------------------------------- 1. incremental = closed system *)

Definition sys_of (a0 b0 : tcp) (s : list event * list event) : sys :=
  mkSys (run a0 (fst s)) (run_out a0 (fst s)) (run b0 (snd s)) (run_out b0 (snd s)).

Lemma run_snoc t es e : run t (es ++ [e]) = fst (step (run t es) e).
Proof. rewrite run_app. reflexivity. Qed.

Lemma run_out_snoc t es e : run_out t (es ++ [e]) = run_out t es ++ out (fst (step (run t es) e)).
Proof. rewrite run_out_app. cbn [run_out]. rewrite app_nil_r. reflexivity. Qed.

Lemma isys_step_sys_step a0 b0 s m :
  fst (isys_step (sys_of a0 b0 s) m) = sys_of a0 b0 (sys_step a0 b0 s m).
Proof.
  destruct s as [ea eb]. unfold sys_of. destruct m as [a|a|k ts te rto|k ts te rto];
    cbn [sys_step isys_step fst snd sA oA sB oB].
  - destruct (step (run a0 ea) (ev_of a)) as [t r] eqn:E. cbn [fst snd].
    rewrite run_snoc, run_out_snoc, E. reflexivity.
  - destruct (step (run b0 eb) (ev_of a)) as [t r] eqn:E. cbn [fst snd].
    rewrite run_snoc, run_out_snoc, E. reflexivity.
  - destruct (nth_error (run_out a0 ea) k) as [f|]; [|reflexivity].
    destruct (step (run b0 eb) (ESeg (seg_of f ts te) rto)) as [t r] eqn:E. cbn [fst snd].
    rewrite run_snoc, run_out_snoc, E. reflexivity.
  - destruct (nth_error (run_out b0 eb) k) as [f|]; [|reflexivity].
    destruct (step (run a0 ea) (ESeg (seg_of f ts te) rto)) as [t r] eqn:E. cbn [fst snd].
    rewrite run_snoc, run_out_snoc, E. reflexivity.
Qed.

Lemma isys_fold a0 b0 ms : forall s,
  fold_left (fun s m => fst (isys_step s m)) ms (sys_of a0 b0 s) =
  sys_of a0 b0 (fold_left (sys_step a0 b0) ms s).
Proof.
  induction ms as [|m ms IH]; intros s; cbn [fold_left]; [reflexivity|].
  rewrite isys_step_sys_step. apply IH.
Qed.

(* the incremental system after a move list is the closed system of TcpNetP after the same list:
   endpoint states = [run x0 evX], frames emitted so far = [run_out x0 evX] *)
Lemma isys_run_sys_run a0 b0 ms : isys_run a0 b0 ms = sys_of a0 b0 (sys_run a0 b0 ms).
Proof. unfold isys_run, sys_run. exact (isys_fold a0 b0 ms ([], [])). Qed.

(* ---------------------------------------------------------------- 2. the pump plays a schedule *)

Definition wf (a0 b0 : tcp) (p : pst) : Prop := p_sys p = isys_run a0 b0 (rev (p_moves p)).
(* q differs from p at most in the application / pointer / done bookkeeping *)
Definition same (p q : pst) : Prop := p_sys q = p_sys p /\ p_moves q = p_moves p.

Lemma wf_same a0 b0 p q : same p q -> wf a0 b0 p -> wf a0 b0 q.
Proof. intros [E1 E2] H. unfold wf in *. rewrite E1, E2. exact H. Qed.

Lemma wf_do_move a0 b0 p m : wf a0 b0 p -> wf a0 b0 (fst (do_move p m)).
Proof.
  unfold wf, do_move. intros H. destruct (isys_step (p_sys p) m) as [s r] eqn:E. cbn [fst p_sys p_moves rev].
  unfold isys_run in *. rewrite fold_left_app. cbn [fold_left]. rewrite <- H, E. reflexivity.
Qed.

Lemma wf_one_app a0 b0 forA p : wf a0 b0 p -> wf a0 b0 (fst (one_app forA p)).
Proof.
  intros H. unfold one_app.
  destruct (a_todo (if forA then p_appA p else p_appB p)) as [|o rest]; [exact H|].
  destruct (can_proceed _ o); [|exact H].
  pose proof (wf_do_move a0 b0 p (if forA then MAppA (aev_of o) else MAppB (aev_of o)) H) as H1.
  destruct (do_move p _) as [p1 r]. cbn [fst] in *.
  destruct forA; cbn [fst]; (eapply wf_same; [|exact H1]); split; reflexivity.
Qed.

Lemma wf_app_burst a0 b0 forA : forall fuel p any, wf a0 b0 p -> wf a0 b0 (fst (app_burst fuel forA p any)).
Proof.
  induction fuel as [|f IH]; intros p any H; cbn [app_burst]; [exact H|].
  pose proof (wf_one_app a0 b0 forA p H) as H1.
  destruct (one_app forA p) as [p1 ok]. cbn [fst] in H1. destruct ok; [apply IH; exact H1|exact H].
Qed.

Lemma wf_apps a0 b0 b p : wf a0 b0 p -> wf a0 b0 (fst (apps b p)).
Proof.
  intros H. unfold apps. destruct b.
  - pose proof (wf_app_burst a0 b0 true 64 p false H) as H1.
    destruct (app_burst 64 true p false) as [p1 x]. cbn [fst] in H1.
    pose proof (wf_app_burst a0 b0 false 64 p1 false H1) as H2.
    destruct (app_burst 64 false p1 false) as [p2 y]. exact H2.
  - pose proof (wf_one_app a0 b0 true p H) as H1.
    destruct (one_app true p) as [p1 x]. cbn [fst] in H1.
    pose proof (wf_one_app a0 b0 false p1 H1) as H2.
    destruct (one_app false p1) as [p2 y]. exact H2.
Qed.

Lemma wf_net_range a0 b0 orc ds fromA : forall n p, wf a0 b0 p -> wf a0 b0 (net_range orc ds fromA n p).
Proof.
  induction n as [|n IH]; intros p H; cbn [net_range]; [exact H|].
  apply IH.
  set (k := if fromA then p_nA p else p_nB p).
  assert (H1 : wf a0 b0 (if dropped ds fromA k then p
                        else fst (do_move p (if fromA then MDeliverB k (or_ts orc) (or_tsecr orc) (or_rto orc)
                                             else MDeliverA k (or_ts orc) (or_tsecr orc) (or_rto orc))))).
  { destruct (dropped ds fromA k); [exact H|apply wf_do_move; exact H]. }
  destruct fromA; (eapply wf_same; [|exact H1]); split; reflexivity.
Qed.

Lemma wf_net a0 b0 orc ds p : wf a0 b0 p -> wf a0 b0 (fst (net orc ds p)).
Proof. intros H. unfold net. cbn [fst]. apply wf_net_range. apply wf_net_range. exact H. Qed.

Lemma wf_rto_side a0 b0 forA p : wf a0 b0 p -> wf a0 b0 (fst (rto_side forA p)).
Proof.
  intros H. unfold rto_side.
  destruct ((estate _ =? stConnected) && negb (tstate _ =? tDisabled)); cbn [fst]; [apply wf_do_move|]; exact H.
Qed.

Lemma wf_pump a0 b0 orc ds b : forall fuel p, wf a0 b0 p -> wf a0 b0 (pump fuel orc ds b p).
Proof.
  induction fuel as [|f IH]; intros p H; cbn [pump]; [exact H|].
  pose proof (wf_apps a0 b0 b p H) as H1. destruct (apps b p) as [p1 x]. cbn [fst] in H1.
  pose proof (wf_net a0 b0 orc ds p1 H1) as H2. destruct (net orc ds p1) as [p2 y]. cbn [fst] in H2.
  destruct (x || y); [apply IH; exact H2|].
  pose proof (wf_rto_side a0 b0 true p2 H2) as H3. destruct (rto_side true p2) as [p3 u]. cbn [fst] in H3.
  pose proof (wf_rto_side a0 b0 false p3 H3) as H4. destruct (rto_side false p3) as [p4 v]. cbn [fst] in H4.
  destruct (u || v); [apply IH; exact H4|].
  eapply wf_same; [|exact H4]. split; reflexivity.
Qed.

(* the state a pumped run ends in is the state of the closed system of TcpNetP under the schedule
   the pump recorded: drops are frames the schedule never delivers, everything else it does is a
   move of that system *)
Lemma pump_is_schedule fuel orc a0 b0 sc ds :
  let p := pump_run fuel orc a0 b0 sc ds in
  p_sys p = sys_of a0 b0 (sys_run a0 b0 (rev (p_moves p))).
Proof.
  cbn zeta. rewrite <- isys_run_sys_run. apply wf_pump. reflexivity.
Qed.

(* ---------------------------------------------------------------- 3. the finite domain *)

(* what the network says about a delivered segment in these runs: a timestamp option with a non-zero
   echo (both stacks of this implementation negotiate timestamps), RTT sample at the 200 ms floor *)
Definition orc : oracle := mkOr true true minRTO.

Definition opt_pairs : list (option (tcp * tcp)) :=
  [est_pair 4294967290 2147483640 88 88 4096 4096 4096 4096 false false;
   est_pair 2147483647 4294967295 100 80 1000 4096 4096 1000 false false;
   est_pair 12345678 3445650051 120 120 2048 2048 2048 2048 true true].

Definition configs : list (tcp * tcp) :=
  flat_map (fun o => match o with Some p => [p] | None => [] end) opt_pairs.

Definition scens (c : tcp * tcp) : list scen :=
  let mss := maxPayload (SN (fst c)) in
  flat_map (fun order =>
    flat_map (fun w1c => map (fun w2 => scenario order (fst w1c) (snd w1c) w2) [0; 5])
             [(0, 1%nat); (1, 1%nat); (mss, 1%nat); (2 * mss + 3, 2%nat)])
    [0; 1; 2; 3].

Definition K : nat := 12.
Definition budget : nat := 200.   (* pump rounds *)

(* the drop set contains the last frame emitted by an endpoint that reached the closed state *)
Definition lost_final (p : pst) (ds : dropset) : bool :=
  ((estate (sA (p_sys p)) =? stClosed) && dropped ds true (length (oA (p_sys p)) - 1)) ||
  ((estate (sB (p_sys p)) =? stClosed) && dropped ds false (length (oB (p_sys p)) - 1)).

Definition nrst (p : pst) : nat :=
  length (filter (fun f => has (f_flags f) fRst) (oA (p_sys p) ++ oB (p_sys p))).

(* one endpoint closed, the other failed: error state, exactly one reset emitted in the whole run *)
Definition explicit_failure (p : pst) : bool :=
  (((estate (sA (p_sys p)) =? stClosed) && (estate (sB (p_sys p)) =? stError)) ||
   ((estate (sB (p_sys p)) =? stClosed) && (estate (sA (p_sys p)) =? stError))) && Nat.eqb (nrst p) 1.

Definition closed_closed (p : pst) : bool :=
  (estate (sA (p_sys p)) =? stClosed) && (estate (sB (p_sys p)) =? stClosed) &&
  no_rst (oA (p_sys p)) && no_rst (oB (p_sys p)) &&
  Nat.leb (length (oA (p_sys p))) K && Nat.leb (length (oB (p_sys p))) K.

(* the verdict on a finished pumped run *)
Definition verdict (p : pst) (ds : dropset) : bool :=
  p_done p && delivered p &&
  ((closed_closed p && negb (lost_final p ds)) || (lost_final p ds && explicit_failure p)).

Definition check (c : tcp * tcp) (sc : scen) (ds : dropset) : bool :=
  verdict (pump_run budget orc (fst c) (snd c) sc ds) ds.

(* membership in three nested forallb's, for abstract lists and an abstract test (nothing is
   evaluated when this lemma is instantiated) *)
Lemma forallb3 {A B C} (la : list A) (fb : A -> list B) (lc : list C) (chk : A -> B -> C -> bool) :
  forallb (fun a => forallb (fun b => forallb (chk a b) lc) (fb a)) la = true ->
  forall a b c, In a la -> In b (fb a) -> In c lc -> chk a b c = true.
Proof.
  intros H a b c Ha Hb Hc.
  rewrite forallb_forall in H. specialize (H a Ha). cbv beta in H.
  rewrite forallb_forall in H. specialize (H b Hb). cbv beta in H.
  rewrite forallb_forall in H. exact (H c Hc).
Qed.

(* THE computation: 3 x 32 x 301 pumped runs of the model, evaluated once by the kernel's VM *)
Lemma check_all_true :
  forallb (fun a => forallb (fun b => forallb (check a b) (drop_sets K)) (scens a)) configs = true.
Proof. vm_cast_no_check (eq_refl true). Qed.

(* the domain is what the header says it is *)
Example domain_size :
  length configs = 3%nat /\ Forall (fun c => length (scens c) = 32%nat) configs /\ length (drop_sets K) = 301%nat.
Proof. vm_compute. repeat constructor. Qed.

Example domain_initial_sequence_numbers :
  map (fun c => (sndUna (SN (fst c)), sndUna (SN (snd c)), maxPayload (SN (fst c)), maxPayload (SN (snd c)), tsOk (fst c))) configs =
  [(4294967291, 2147483641, 36, 36, true); (2147483648, 0, 40, 28, true); (12345679, 3445650052, 40, 40, true)].
Proof. vm_compute. reflexivity. Qed.

Lemma delivered_spec p : delivered p = true ->
  a_rd (p_appB p) = a_wr (p_appA p) /\ a_rd (p_appA p) = a_wr (p_appB p) /\
  a_eof (p_appA p) = true /\ a_eof (p_appB p) = true /\
  a_fail (p_appA p) = false /\ a_fail (p_appB p) = false /\
  a_todo (p_appA p) = [] /\ a_todo (p_appB p) = [].
Proof.
  unfold delivered. intros H.
  repeat (apply andb_prop in H; destruct H as [H ?]).
  assert (Z : forall a b, zeqb a b = true -> a = b).
  { induction a as [|x a IH]; destruct b as [|y b]; cbn; intros E; try discriminate; [reflexivity|].
    apply andb_prop in E. destruct E as [E1 E2]. apply Z.eqb_eq in E1. rewrite E1, (IH b E2). reflexivity. }
  assert (N : forall (l : list pop), Nat.eqb (length l) 0 = true -> l = []) by (intros [|? ?]; cbn; [reflexivity|discriminate]).
  repeat split; auto using negb_true_iff.
  all: try (apply negb_true_iff; assumption).
Qed.

(* used by rewriting: the kernel must never be asked to CONVERT terms that contain a pumped run of
   symbolic inputs (it would execute the pump symbolically) *)
Lemma check_unfold c sc ds : check c sc ds = verdict (pump_run budget orc (fst c) (snd c) sc ds) ds.
Proof. reflexivity. Qed.

Lemma check_lookup c sc ds : In c configs -> In sc (scens c) -> In ds (drop_sets K) -> check c sc ds = true.
Proof. exact (forallb3 configs scens (drop_sets K) check check_all_true c sc ds). Qed.

(* reading the boolean verdict (p is any pumped state: nothing is evaluated here) *)
Lemma verdict_spec (p : pst) (ds : dropset) :
  verdict p ds = true ->
  p_done p = true /\
  a_rd (p_appB p) = a_wr (p_appA p) /\ a_rd (p_appA p) = a_wr (p_appB p) /\
  a_eof (p_appA p) = true /\ a_eof (p_appB p) = true /\
  ((estate (sA (p_sys p)) = stClosed /\ estate (sB (p_sys p)) = stClosed /\
    no_rst (oA (p_sys p)) = true /\ no_rst (oB (p_sys p)) = true /\
    (length (oA (p_sys p)) <= K)%nat /\ (length (oB (p_sys p)) <= K)%nat /\ lost_final p ds = false)
   \/
   (lost_final p ds = true /\ explicit_failure p = true)).
Proof.
  unfold verdict. intros H.
  apply andb_prop in H. destruct H as [H O]. apply andb_prop in H. destruct H as [D1 D2].
  destruct (delivered_spec p D2) as (R1 & R2 & E1 & E2 & _).
  split; [exact D1|]. split; [exact R1|]. split; [exact R2|]. split; [exact E1|]. split; [exact E2|].
  apply orb_prop in O. destruct O as [O|O]; apply andb_prop in O; destruct O as [O1 O2].
  - left. unfold closed_closed in O1.
    apply andb_prop in O1. destruct O1 as [O1 L2]. apply andb_prop in O1. destruct O1 as [O1 L1].
    apply andb_prop in O1. destruct O1 as [O1 N2]. apply andb_prop in O1. destruct O1 as [O1 N1].
    apply andb_prop in O1. destruct O1 as [C1 C2].
    apply Z.eqb_eq in C1. apply Z.eqb_eq in C2. apply Nat.leb_le in L1. apply Nat.leb_le in L2.
    apply negb_true_iff in O2. repeat split; assumption.
  - right. split; assumption.
Qed.

Lemma verdict_recovered (p : pst) (ds : dropset) :
  verdict p ds = true ->
  lost_final p ds = false -> recovered p = true.
Proof.
  unfold verdict. intros H HL. rewrite HL in H. cbn [negb andb] in H. rewrite orb_false_r, andb_true_r in H.
  apply andb_prop in H. destruct H as [H O]. apply andb_prop in H. destruct H as [D1 D2].
  unfold closed_closed in O.
  apply andb_prop in O. destruct O as [O L2]. apply andb_prop in O. destruct O as [O L1].
  apply andb_prop in O. destruct O as [O N2]. apply andb_prop in O. destruct O as [O N1].
  apply andb_prop in O. destruct O as [C1 C2].
  unfold recovered. rewrite D1, D2, C1, C2, N1, N2. reflexivity.
Qed.

(* the bounded-domain theorem: every drop set of at most two frames (among the first 12 of either
   side), every scenario and connection of the list *)
Theorem single_and_double_drops_outcome_bounded :
  forall c sc ds, In c configs -> In sc (scens c) -> In ds (drop_sets K) ->
  let p := pump_run budget orc (fst c) (snd c) sc ds in
  (* the pump stopped within the move budget because nothing could happen any more *)
  p_done p = true /\
  (* everything written was delivered, then end of stream, in both directions *)
  a_rd (p_appB p) = a_wr (p_appA p) /\ a_rd (p_appA p) = a_wr (p_appB p) /\
  a_eof (p_appA p) = true /\ a_eof (p_appB p) = true /\
  (* and either both endpoints ended closed, without any reset (and with at most K frames each) ... *)
  ((estate (sA (p_sys p)) = stClosed /\ estate (sB (p_sys p)) = stClosed /\
    no_rst (oA (p_sys p)) = true /\ no_rst (oB (p_sys p)) = true /\
    (length (oA (p_sys p)) <= K)%nat /\ (length (oB (p_sys p)) <= K)%nat /\ lost_final p ds = false)
   \/
   (* ... or the last frame of an endpoint that closed was dropped, and its peer failed explicitly *)
   (lost_final p ds = true /\ explicit_failure p = true)).
Proof.
  intros c sc ds Hc Hs Hd.
  pose proof (check_lookup c sc ds Hc Hs Hd) as H. rewrite check_unfold in H.
  cbv zeta. exact (verdict_spec _ _ H).
Qed.

(* the same, read as a recovery statement: whenever the run did not lose the last frame of an
   endpoint that closed, it ends closed/closed with everything delivered and no reset *)
Theorem single_and_double_drops_recovered_bounded :
  forall c sc ds, In c configs -> In sc (scens c) -> In ds (drop_sets K) ->
  let p := pump_run budget orc (fst c) (snd c) sc ds in
  lost_final p ds = false -> recovered p = true.
Proof.
  intros c sc ds Hc Hs Hd.
  pose proof (check_lookup c sc ds Hc Hs Hd) as H. rewrite check_unfold in H.
  cbv zeta. exact (verdict_recovered _ _ H).
Qed.

(* ---------------------------------------------------------------- refutations (witnesses) *)

Definition cfg1 : tcp * tcp := nth 0 configs (fresh 0 0, fresh 0 0).

(* NOT every single drop is recovered to closed/closed: A first, 75 bytes in two chunks, 5 bytes back;
   A's 7th frame (index 6) is its acknowledgement of B's FIN, after which A is closed.  Dropping it
   leaves B retransmitting its FIN to an endpoint that ignores it; after 10 expiries B fails. *)
Theorem single_drop_final_ack_refuted :
  exists c sc ds, In c configs /\ In sc (scens c) /\ ds = [(true, 6%nat)] /\
    let p := pump_run budget orc (fst c) (snd c) sc ds in
    p_done p = true /\ delivered p = true /\
    estate (sA (p_sys p)) = stClosed /\ estate (sB (p_sys p)) = stError /\
    length (oA (p_sys p)) = 7%nat /\
    (* B's ten retransmission time-outs: nine FIN retransmissions, then the reset *)
    length (filter (fun m => match m with MAppB ARto => true | _ => false end) (p_moves p)) = 10%nat /\
    nrst p = 1%nat.
Proof.
  exists cfg1, (scenario 0 75 2 5), [(true, 6%nat)].
  split; [vm_compute; left; reflexivity|].
  split; [vm_compute; do 7 right; left; reflexivity|].
  split; [reflexivity|]. vm_compute. repeat split; reflexivity.
Qed.

(* the KNOWN finding C02-zero-window-stall on two endpoints: B's receive buffer is 64 bytes, A writes
   80; B's third frame (index 2) is the acknowledgement that re-opens the window after B's
   application has read.  Dropping that one frame leaves both endpoints connected for ever: A has 16
   bytes queued behind a zero window, nothing in flight, no timer; the pump stops with nothing left
   to do (no frame to deliver, no application call that can proceed, no timer to fire). *)
Definition zw_cfg : option (tcp * tcp) := est_pair 4294967290 2147483640 88 88 4096 4096 64 4096 false false.

Definition zw_stalled (t : tcp) : bool :=
  let s := SN t in
  (estate t =? stConnected) && (sndUna s =? sndNxt s) && negb (tstate s =? tEnabled) &&
  (outstanding s <? cwnd s) && (sndWnd s =? 0) &&
  match wunsent s with w :: _ => negb (len (w_data w) =? 0) | [] => false end.

Theorem window_update_drop_stalls_refuted :
  exists a0 b0, zw_cfg = Some (a0, b0) /\
    recovered (pump_run budget orc a0 b0 (scenario 0 80 1 5) []) = true /\
    let p := pump_run budget orc a0 b0 (scenario 0 80 1 5) [(false, 2%nat)] in
    p_done p = true /\ delivered p = false /\
    estate (sA (p_sys p)) = stConnected /\ estate (sB (p_sys p)) = stConnected /\
    zw_stalled (sA (p_sys p)) = true /\
    tstate (SN (sA (p_sys p))) <> tEnabled /\ tstate (SN (sB (p_sys p))) <> tEnabled /\
    len (a_rd (p_appB p)) = 64 /\ len (a_wr (p_appA p)) = 80.
Proof.
  destruct zw_cfg as [[a0 b0]|] eqn:E; [|vm_compute in E; discriminate].
  exists a0, b0. split; [reflexivity|].
  vm_compute in E. injection E as <- <-.
  vm_compute. repeat split; try reflexivity; discriminate.
Qed.

(* ---------------------------------------------------------------- the closing-window domain *)

(* The same enumeration for a connection whose receiver's window CLOSES during the transfer (B's
   receive buffer is 64 bytes) - the drop sets now also hit window updates.
     domain: the connection [zw_cfg] x 4 close orders x w1 in {64 = exactly the window, 65, 80,
             100 in two chunks} x w2 in {0, 5} (32 scenarios) x every drop set of at most two frames
             among the first 12 of either side (301)                                  (9 632 pumped runs)
   Outcome for every element: the pump stops within the budget and EITHER everything is delivered
   with end of stream both ways and both endpoints end closed without a reset (or, the last frame of
   an endpoint that closed being lost, its peer fails explicitly) OR the run ends in the KNOWN
   zero-window stall: an endpoint stays connected with data queued behind a zero window, nothing in
   flight and no timer running (there is no persist timer; 381 of the 9 632 runs). *)
Definition zw_pair : tcp * tcp := match zw_cfg with Some p => p | None => (fresh 0 0, fresh 0 0) end.

Definition zw_scens : list scen :=
  flat_map (fun order =>
    flat_map (fun w1c => map (fun w2 => scenario order (fst w1c) (snd w1c) w2) [0; 5])
             [(64, 1%nat); (65, 1%nat); (80, 1%nat); (100, 2%nat)])
    [0; 1; 2; 3].

Definition stalled (p : pst) : bool := zw_stalled (sA (p_sys p)) || zw_stalled (sB (p_sys p)).

Definition verdict_zw (p : pst) (ds : dropset) : bool :=
  p_done p &&
  ((delivered p && (closed_closed p || (lost_final p ds && explicit_failure p))) || stalled p).

Definition check_zw (sc : scen) (ds : dropset) : bool :=
  verdict_zw (pump_run budget orc (fst zw_pair) (snd zw_pair) sc ds) ds.

Lemma check_zw_unfold sc ds :
  check_zw sc ds = verdict_zw (pump_run budget orc (fst zw_pair) (snd zw_pair) sc ds) ds.
Proof. reflexivity. Qed.

Lemma forallb2 {B C} (lb : list B) (lc : list C) (chk : B -> C -> bool) :
  forallb (fun b => forallb (chk b) lc) lb = true -> forall b c, In b lb -> In c lc -> chk b c = true.
Proof.
  intros H b c Hb Hc.
  rewrite forallb_forall in H. specialize (H b Hb). cbv beta in H.
  rewrite forallb_forall in H. exact (H c Hc).
Qed.

Lemma check_zw_all_true : forallb (fun b => forallb (check_zw b) (drop_sets K)) zw_scens = true.
Proof. vm_cast_no_check (eq_refl true). Qed.

Lemma verdict_zw_spec (p : pst) (ds : dropset) :
  verdict_zw p ds = true ->
  p_done p = true /\
  ((a_rd (p_appB p) = a_wr (p_appA p) /\ a_rd (p_appA p) = a_wr (p_appB p) /\
    a_eof (p_appA p) = true /\ a_eof (p_appB p) = true /\
    ((estate (sA (p_sys p)) = stClosed /\ estate (sB (p_sys p)) = stClosed /\
      no_rst (oA (p_sys p)) = true /\ no_rst (oB (p_sys p)) = true)
     \/ (lost_final p ds = true /\ explicit_failure p = true)))
   \/ (zw_stalled (sA (p_sys p)) = true \/ zw_stalled (sB (p_sys p)) = true)).
Proof.
  unfold verdict_zw. intros H. apply andb_prop in H. destruct H as [D1 H]. split; [exact D1|].
  apply orb_prop in H. destruct H as [H|H].
  - left. apply andb_prop in H. destruct H as [D2 O].
    destruct (delivered_spec p D2) as (R1 & R2 & E1 & E2 & _).
    split; [exact R1|]. split; [exact R2|]. split; [exact E1|]. split; [exact E2|].
    apply orb_prop in O. destruct O as [O|O].
    + left. unfold closed_closed in O.
      apply andb_prop in O. destruct O as [O L2]. apply andb_prop in O. destruct O as [O L1].
      apply andb_prop in O. destruct O as [O N2]. apply andb_prop in O. destruct O as [O N1].
      apply andb_prop in O. destruct O as [C1 C2].
      apply Z.eqb_eq in C1. apply Z.eqb_eq in C2. repeat split; assumption.
    + right. apply andb_prop in O. destruct O as [O1 O2]. split; assumption.
  - right. unfold stalled in H. apply orb_prop in H. exact H.
Qed.

Theorem closing_window_drops_outcome_bounded :
  forall sc ds, In sc zw_scens -> In ds (drop_sets K) ->
  let p := pump_run budget orc (fst zw_pair) (snd zw_pair) sc ds in
  p_done p = true /\
  ((a_rd (p_appB p) = a_wr (p_appA p) /\ a_rd (p_appA p) = a_wr (p_appB p) /\
    a_eof (p_appA p) = true /\ a_eof (p_appB p) = true /\
    ((estate (sA (p_sys p)) = stClosed /\ estate (sB (p_sys p)) = stClosed /\
      no_rst (oA (p_sys p)) = true /\ no_rst (oB (p_sys p)) = true)
     \/ (lost_final p ds = true /\ explicit_failure p = true)))
   \/ (zw_stalled (sA (p_sys p)) = true \/ zw_stalled (sB (p_sys p)) = true)).
Proof.
  intros sc ds Hs Hd.
  pose proof (forallb2 zw_scens (drop_sets K) check_zw check_zw_all_true sc ds Hs Hd) as H.
  rewrite check_zw_unfold in H. cbv zeta. exact (verdict_zw_spec _ _ H).
Qed.

Example zw_domain_size : length zw_scens = 32%nat /\ zw_cfg <> None.
Proof. split; [reflexivity|vm_compute; discriminate]. Qed.
