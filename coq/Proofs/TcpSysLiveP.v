(* Bounded-domain completion theorems for the closed system of Proofs/TcpNetP.v (two Model.Tcp
   endpoints and a network that hands an endpoint a copy of any frame the other has emitted).
   Definitions, the link to TcpNetP.sys_run and the reading lemmas are in Proofs/TcpSysLiveBaseP.v; the
   evaluations (vm_compute over forallb) in Proofs/TcpSysLive1P.v, TcpSysLive2P.v, TcpSysLiveZwP.v
   (compiled in parallel); this file combines them.

   These are FINITE-DOMAIN theorems, proved by evaluating the fair pump with drops (Model/TcpSys.v)
   on the model.  They are statements about an explicit finite list of connections, scenarios and
   drop sets - NOT the unbounded liveness claim ("eventually" under every fair network); the
   unbounded safety / progress theorems of C02 are in Proofs/TcpClose*P.v and stay as they are.
   Loss of HANDSHAKE packets is outside the domain (the runs start from established states).

     connection 1 (A's / B's initial sequence numbers 6 below 2^32 / 8 below 2^31, MTU 88, 4096-byte
           buffers, timestamps, no SACK; established by Model/TcpEst.v est_pair)
           x 4 close orders (A first / B first / simultaneous / duplex; half-close then data the
             other way when w2 > 0)
           x w1 in {0, mss, 2*mss+3 in two chunks} x w2 in {0, 5}                    (24 scenarios)
           x EVERY drop set of [dsets]: the empty set, every single packet of the (loss-free)
             exchange, every pair of packets of the exchange, every pair of a packet of the exchange
             and one of the next 4 frames of either side (frames that exist only in lossy runs:
             the retransmission, i.e. the same packet lost again, or a provoked acknowledgement)
                                                                              (2 708 pumped runs)
       Outcome, for every element: the pump stops within the move budget; everything written is
       delivered, followed by end of stream, in both directions; and EITHER both endpoints end
       closed, no reset was emitted, and neither side emitted more than 4 frames beyond its
       loss-free count (so the drop sets reached every frame of the run), OR the drop set contains
       the last frame emitted by an endpoint that reached the closed state (the acknowledgement
       completing the exchange: there is no TIME-WAIT state, a closed endpoint ignores every later
       segment) and then its peer fails explicitly at the retransmission limit (error state,
       exactly one reset).
     connection 2 (2^31-1 / 2^32-1, MTU 120 / 100, buffers 1000 / 4096, timestamps, SACK): the same 24
           scenarios x every SINGLE packet of the exchange dropped (224 runs): same outcome.
     closing-window connection (receiver's buffer 64 bytes) x 4 close orders x w1 = 80 x w2 in
           {0, 5} (8 scenarios) x the drop sets of [dsets] (1 404 runs; the drop sets also hit
           window updates): as above, or the run ends in the KNOWN zero-window stall (an endpoint
           connected with data queued behind a zero window, nothing in flight, no timer).
     Refuted: "every single drop is recovered to closed/closed" (witness: the final ACK), and - the
       known finding on two endpoints - "a lost window update is recovered". *)
From Coq Require Import ZArith List Bool Lia.
From NP Require Import Model.Seqnum Model.Tcp Model.TcpHs Model.TcpEst Proofs.TcpNetP Model.TcpSys.
From NP Require Import Proofs.TcpSysLiveBaseP Proofs.TcpSysLive1P Proofs.TcpSysLive2P Proofs.TcpSysLiveZwP.
Import ListNotations.
Open Scope Z_scope.

(* the domains are what the header says they are, and the connections are real results of est_pair *)
Example domain_connections : opt1 = Some cfg1 /\ opt2 = Some cfg2 /\ zw_cfg = Some zw_pair.
Proof. vm_compute. repeat split; reflexivity. Qed.

Example domain_size :
  Forall (fun c => length (scens c) = 24%nat) configs /\ length zw_scens = 8%nat /\
  fold_left Nat.add (map (fun sc => length (dsets cfg1 sc)) (scens cfg1)) 0%nat = 2708%nat /\
  fold_left Nat.add (map (fun sc => length (singles cfg2 sc)) (scens cfg2)) 0%nat = 224%nat /\
  fold_left Nat.add (map (fun sc => length (dsets zw_pair sc)) zw_scens) 0%nat = 1404%nat.
Proof. vm_compute. repeat constructor. Qed.

Example domain_initial_sequence_numbers :
  map (fun c => (sndUna (SN (fst c)), sndUna (SN (snd c)), maxPayload (SN (fst c)), maxPayload (SN (snd c)), tsOk (fst c))) configs =
  [(4294967291, 2147483641, 36, 36, true); (2147483648, 0, 40, 20, true)].
Proof. vm_compute. reflexivity. Qed.

(* the bounded-domain theorem: connection 1, every scenario, every drop set of at most two frames
   with at least one packet of the loss-free exchange *)
Theorem single_and_double_drops_outcome_bounded :
  forall sc ds, In sc (scens cfg1) -> In ds (dsets cfg1 sc) ->
  let p := pump_run budget orc (fst cfg1) (snd cfg1) sc ds in
  (* the pump stopped within the move budget because nothing could happen any more *)
  p_done p = true /\
  (* everything written was delivered, then end of stream, in both directions *)
  a_rd (p_appB p) = a_wr (p_appA p) /\ a_rd (p_appA p) = a_wr (p_appB p) /\
  a_eof (p_appA p) = true /\ a_eof (p_appB p) = true /\
  (* and either both endpoints ended closed, without any reset (and each side emitted at most
     margin frames more than in the loss-free run) ... *)
  ((estate (sA (p_sys p)) = stClosed /\ estate (sB (p_sys p)) = stClosed /\
    no_rst (oA (p_sys p)) = true /\ no_rst (oB (p_sys p)) = true /\
    (length (oA (p_sys p)) <= margin + fst (nfr cfg1 sc))%nat /\
    (length (oB (p_sys p)) <= margin + snd (nfr cfg1 sc))%nat /\ lost_final p ds = false)
   \/
   (* ... or the last frame of an endpoint that closed was dropped, and its peer failed explicitly *)
   (lost_final p ds = true /\ explicit_failure p = true)).
Proof.
  intros sc ds Hs Hd.
  pose proof (forallb2d (scens cfg1) (dsets cfg1) (run_ok cfg1) all_runs_ok_cfg1 sc ds Hs Hd) as H.
  rewrite run_ok_unfold in H. cbv zeta. exact (verdict_spec _ _ _ _ H).
Qed.

(* the same, read as a recovery statement: whenever the run did not lose the last frame of an
   endpoint that closed, it ends closed/closed with everything delivered and no reset *)
Theorem single_and_double_drops_recovered_bounded :
  forall sc ds, In sc (scens cfg1) -> In ds (dsets cfg1 sc) ->
  let p := pump_run budget orc (fst cfg1) (snd cfg1) sc ds in
  lost_final p ds = false -> recovered p = true.
Proof.
  intros sc ds Hs Hd.
  pose proof (forallb2d (scens cfg1) (dsets cfg1) (run_ok cfg1) all_runs_ok_cfg1 sc ds Hs Hd) as H.
  rewrite run_ok_unfold in H. cbv zeta. exact (verdict_recovered _ _ _ _ H).
Qed.

(* connection 2 (other initial sequence numbers, MTUs, buffers, SACK): every single drop *)
Theorem single_drops_outcome_bounded_conn2 :
  forall sc ds, In sc (scens cfg2) -> In ds (singles cfg2 sc) ->
  let p := pump_run budget orc (fst cfg2) (snd cfg2) sc ds in
  p_done p = true /\
  a_rd (p_appB p) = a_wr (p_appA p) /\ a_rd (p_appA p) = a_wr (p_appB p) /\
  a_eof (p_appA p) = true /\ a_eof (p_appB p) = true /\
  ((estate (sA (p_sys p)) = stClosed /\ estate (sB (p_sys p)) = stClosed /\
    no_rst (oA (p_sys p)) = true /\ no_rst (oB (p_sys p)) = true /\
    (length (oA (p_sys p)) <= margin + fst (nfr cfg2 sc))%nat /\
    (length (oB (p_sys p)) <= margin + snd (nfr cfg2 sc))%nat /\ lost_final p ds = false)
   \/
   (lost_final p ds = true /\ explicit_failure p = true)).
Proof.
  intros sc ds Hs Hd.
  pose proof (forallb2d (scens cfg2) (singles cfg2) (run_ok cfg2) all_singles_ok_cfg2 sc ds Hs Hd) as H.
  rewrite run_ok_unfold in H. cbv zeta. exact (verdict_spec _ _ _ _ H).
Qed.

(* the closing-window connection: the drop sets also hit window updates *)
Theorem closing_window_drops_outcome_bounded :
  forall sc ds, In sc zw_scens -> In ds (dsets zw_pair sc) ->
  let p := pump_run budget orc (fst zw_pair) (snd zw_pair) sc ds in
  p_done p = true /\
  ((a_rd (p_appB p) = a_wr (p_appA p) /\ a_rd (p_appA p) = a_wr (p_appB p) /\
    a_eof (p_appA p) = true /\ a_eof (p_appB p) = true /\
    ((estate (sA (p_sys p)) = stClosed /\ estate (sB (p_sys p)) = stClosed /\
      no_rst (oA (p_sys p)) = true /\ no_rst (oB (p_sys p)) = true /\
      (length (oA (p_sys p)) <= margin + fst (nfr zw_pair sc))%nat /\
      (length (oB (p_sys p)) <= margin + snd (nfr zw_pair sc))%nat)
     \/ (lost_final p ds = true /\ explicit_failure p = true)))
   \/ (zw_stalled (sA (p_sys p)) = true \/ zw_stalled (sB (p_sys p)) = true)).
Proof.
  intros sc ds Hs Hd.
  pose proof (forallb2d zw_scens (dsets zw_pair) run_ok_zw all_runs_ok_zw sc ds Hs Hd) as H.
  rewrite run_ok_zw_unfold in H. cbv zeta. exact (verdict_zw_spec _ _ _ _ H).
Qed.

(* ---------------------------------------------------------------- refutations (witnesses) *)

(* NOT every single drop is recovered to closed/closed: A first, 75 bytes in two chunks, 5 bytes back;
   A's 7th frame (index 6) is its acknowledgement of B's FIN, after which A is closed.  Dropping it
   leaves B retransmitting its FIN to an endpoint that ignores it; after 10 expiries B fails. *)
Theorem single_drop_final_ack_refuted :
  exists sc ds, In sc (scens cfg1) /\ In ds (dsets cfg1 sc) /\ ds = [(true, 6%nat)] /\
    let p := pump_run budget orc (fst cfg1) (snd cfg1) sc ds in
    p_done p = true /\ delivered p = true /\
    estate (sA (p_sys p)) = stClosed /\ estate (sB (p_sys p)) = stError /\
    length (oA (p_sys p)) = 7%nat /\
    (* B's ten retransmission time-outs: nine FIN retransmissions, then the reset *)
    length (filter (fun m => match m with MAppB ARto => true | _ => false end) (p_moves p)) = 10%nat /\
    nrst p = 1%nat.
Proof.
  exists (scenario 0 75 2 5), [(true, 6%nat)].
  split; [vm_compute; do 5 right; left; reflexivity|].
  split; [vm_compute; do 7 right; left; reflexivity|].
  split; [reflexivity|]. vm_compute. repeat split; reflexivity.
Qed.

(* the KNOWN finding C02-zero-window-stall on two endpoints: B's receive buffer is 64 bytes, A writes
   80; B's third frame (index 2) is the acknowledgement that re-opens the window after B's
   application has read.  Dropping that one frame leaves both endpoints connected for ever: A has 16
   bytes queued behind a zero window, nothing in flight, no timer; the pump stops with nothing left
   to do (no frame to deliver, no application call that can proceed, no timer to fire). *)
Theorem window_update_drop_stalls_refuted :
  exists a0 b0, zw_cfg = Some (a0, b0) /\
    recovered (pump_run budget orc a0 b0 (scenario 0 80 1 5) []) = true /\
    let p := pump_run budget orc a0 b0 (scenario 0 80 1 5) [(false, 2%nat)] in
    p_done p = true /\ delivered p = false /\
    estate (sA (p_sys p)) = stConnected /\ estate (sB (p_sys p)) = stConnected /\
    zw_stalled (sA (p_sys p)) = true /\
    tstate (SN (sA (p_sys p))) <> tEnabled /\ tstate (SN (sB (p_sys p))) <> tEnabled /\
    len (a_rd (p_appB p)) = 64 /\ len (a_wr (p_appA p)) = 80.
Proof.
  destruct zw_cfg as [[a0 b0]|] eqn:E; [|vm_compute in E; discriminate].
  exists a0, b0. split; [reflexivity|].
  vm_compute in E. injection E as <- <-.
  vm_compute. repeat split; try reflexivity; discriminate.
Qed.
