(* Lemmas about Model/Checksum.v (protocol/header/checksum.go). *)
From Coq Require Import ZArith List Bool Lia ZifyBool.
From NP Require Import Model.Bytes Model.Checksum Proofs.BytesP.
Import ListNotations.
Open Scope Z_scope.

Ltac consts :=
  change (2^32) with 4294967296 in *; change (2^16) with 65536 in *; change (2^8) with 256 in *.
Ltac wunf := unfold w8, w16, w32, is_u16, is_byte in *; consts.

(* induction two bytes at a time *)
Lemma pair_ind (P : list Z -> Prop) :
  P [] -> (forall a, P [a]) -> (forall a b t, P t -> P (a :: b :: t)) -> forall l, P l.
Proof.
  intros H0 H1 H2. fix IH 1. intros [|a [|b t]]; [exact H0|apply H1|apply H2, IH].
Qed.

(* ---------- ChecksumCombine ---------- *)
Lemma combine_spec a b : is_u16 a -> is_u16 b -> checksumCombine a b = ocadd a b.
Proof.
  intros Ha Hb. unfold checksumCombine, ocadd. cbv zeta. wunf.
  destruct (Z.ltb_spec (a + b) 65536) as [L|L]; Z.div_mod_to_equations; lia.
Qed.

Lemma ocadd_u16 a b : is_u16 a -> is_u16 b -> is_u16 (ocadd a b).
Proof. unfold ocadd, is_u16. cbv zeta. intros Ha Hb. destruct (Z.ltb_spec (a + b) 65536); lia. Qed.

Lemma ocadd_comm a b : ocadd a b = ocadd b a.
Proof. unfold ocadd. rewrite (Z.add_comm a b). reflexivity. Qed.

(* ---------- oc_norm ---------- *)
Lemma oc_norm_props x : 0 <= x ->
  is_u16 (oc_norm x) /\ oc_norm x mod 65535 = x mod 65535 /\ (oc_norm x = 0 <-> x = 0).
Proof.
  intros Hx. unfold oc_norm, is_u16. destruct (Z.eqb_spec x 0) as [->|Hne].
  - repeat split; reflexivity || lia.
  - repeat split; try (Z.div_mod_to_equations; lia).
Qed.

Lemma oc_norm_u16 x : 0 <= x -> is_u16 (oc_norm x).
Proof. intros H. apply (oc_norm_props x H). Qed.

Lemma oc_norm_id x : is_u16 x -> oc_norm x = x.
Proof.
  unfold oc_norm, is_u16. intros H. destruct (Z.eqb_spec x 0) as [->|Hne]; [reflexivity|].
  Z.div_mod_to_equations; lia.
Qed.

Lemma oc_norm_add x y : 0 <= x -> 0 <= y -> oc_norm (oc_norm x + y) = oc_norm (x + y).
Proof.
  intros Hx Hy. unfold oc_norm.
  destruct (Z.eqb_spec x 0) as [->|Hne]; [reflexivity|].
  destruct (Z.eqb_spec ((x - 1) mod 65535 + 1 + y) 0) as [E|E];
  destruct (Z.eqb_spec (x + y) 0) as [F|F]; try (Z.div_mod_to_equations; lia).
Qed.

Lemma oc_norm_carry x s : 65536 <= x -> 0 <= s -> oc_norm (x - 65535 + s) = oc_norm (x + s).
Proof.
  intros Hx Hs. unfold oc_norm.
  destruct (Z.eqb_spec (x - 65535 + s) 0) as [E|E]; [lia|].
  destruct (Z.eqb_spec (x + s) 0) as [F|F]; [lia|].
  Z.div_mod_to_equations; lia.
Qed.

Lemma oc_norm_complement x : 0 <= x -> oc_norm (x + lnot16 (oc_norm x)) = 65535.
Proof.
  intros Hx. unfold lnot16, oc_norm at 2.
  destruct (Z.eqb_spec x 0) as [->|Hne]; [reflexivity|].
  unfold oc_norm.
  destruct (Z.eqb_spec (x + (65535 - ((x - 1) mod 65535 + 1))) 0) as [E|E];
    Z.div_mod_to_equations; lia.
Qed.

Lemma combine_fold v : 0 <= v < 2^32 -> checksumCombine (w16 v) (w16 (v / 2^16)) = oc_norm v.
Proof.
  intros Hv. rewrite combine_spec by (wunf; Z.div_mod_to_equations; lia).
  unfold ocadd, oc_norm. cbv zeta. wunf.
  destruct (Z.eqb_spec v 0) as [->|Hne]; [reflexivity|].
  destruct (Z.ltb_spec (v mod 65536 + (v / 65536) mod 65536) 65536) as [L|L];
    Z.div_mod_to_equations; lia.
Qed.

(* ---------- the words of a buffer ---------- *)
Lemma be_words_u16 l : bytes_ok l -> Forall is_u16 (be_words l).
Proof.
  induction l as [|a|a b t IH] using pair_ind; intros H; cbn [be_words].
  - constructor.
  - inversion H as [|? ? Ha _]; subst. constructor; [|constructor]. wunf. lia.
  - inversion H as [|? ? Ha H']; subst. inversion H' as [|? ? Hb Ht]; subst.
    constructor; [wunf; lia|apply IH, Ht].
Qed.

Lemma words_len l :
  (2 * length (be_words l) = length l + (if Nat.odd (length l) then 1 else 0))%nat.
Proof.
  induction l as [|a|a b t IH] using pair_ind; [reflexivity|reflexivity|].
  cbn [be_words length]. change (Nat.odd (S (S (length t)))) with (Nat.odd (length t)). lia.
Qed.

Lemma zsum_app a b : zsum (a ++ b) = zsum a + zsum b.
Proof. induction a as [|x a IH]; cbn [zsum app fold_right] in *; [reflexivity|]. unfold zsum in *. lia. Qed.

Lemma zsum_bound ws : Forall is_u16 ws -> 0 <= zsum ws <= 65535 * Z.of_nat (length ws).
Proof.
  induction 1 as [|w ws Hw _ IH]; cbn [zsum fold_right length]; [lia|].
  unfold zsum in IH. unfold is_u16 in Hw. lia.
Qed.

Lemma be_words_app_even a b :
  Nat.even (length a) = true -> be_words (a ++ b) = be_words a ++ be_words b.
Proof.
  induction a as [|x|x y t IH] using pair_ind; intros He.
  - reflexivity.
  - discriminate He.
  - cbn [app be_words]. f_equal. apply IH. exact He.
Qed.

Lemma odd_split (l : list Z) : Nat.odd (length l) = true ->
  exists pre x, l = pre ++ [x] /\ Nat.even (length pre) = true.
Proof.
  intros Ho. induction l as [|a l _] using rev_ind; [discriminate Ho|].
  exists l, a. split; [reflexivity|].
  rewrite app_length in Ho. cbn [length] in Ho. rewrite Nat.add_1_r, Nat.odd_succ in Ho. exact Ho.
Qed.

(* ---------- the summation loop ---------- *)
Lemma sum_pairs_nowrap l : forall v,
  Nat.even (length l) = true -> bytes_ok l -> 0 <= v ->
  v + 65535 * Z.of_nat (length (be_words l)) < 2^32 ->
  sum_pairs l v = v + zsum (be_words l).
Proof.
  induction l as [|a|a b t IH] using pair_ind; intros v He Hb Hv Hbound.
  - cbn [sum_pairs be_words zsum fold_right]. lia.
  - discriminate He.
  - inversion Hb as [|? ? Ha Hb']; subst. inversion Hb' as [|? ? Hb2 Ht]; subst.
    cbn [sum_pairs be_words zsum fold_right length] in *.
    pose proof (zsum_bound _ (be_words_u16 t Ht)) as Hz. unfold zsum in Hz.
    assert (E : w32 (v + w32 (w32 (a * 2^8) + b)) = v + (a * 256 + b)).
    { wunf. Z.div_mod_to_equations. lia. }
    rewrite E. rewrite IH; [unfold zsum; lia|exact He|exact Ht|wunf; lia|wunf; lia].
Qed.

(* ---------- Checksum = closed form, on every buffer of at most 131072 bytes ---------- *)
Definition total (buf : list Z) (init : Z) : Z := init + zsum (be_words buf).

Lemma total_nonneg buf init : bytes_ok buf -> 0 <= init -> 0 <= total buf init.
Proof. intros Hb Hi. pose proof (zsum_bound _ (be_words_u16 buf Hb)). unfold total. lia. Qed.

Lemma checksum_closed buf init :
  bytes_ok buf -> is_u16 init -> Z.of_nat (length buf) <= 131072 ->
  checksum buf init = oc_norm (total buf init).
Proof.
  intros Hb Hi Hlen. unfold checksum, total.
  pose proof (words_len buf) as Hw.
  pose proof (zsum_bound _ (be_words_u16 buf Hb)) as Hz.
  assert (Ei : w32 init = init) by (wunf; Z.div_mod_to_equations; lia). rewrite Ei.
  destruct (Nat.odd (length buf)) eqn:Ho.
  - destruct (odd_split buf Ho) as (pre & x & -> & Hev).
    apply Forall_app in Hb as [Hpre Hx]. inversion Hx as [|? ? Hx0 _]; subst.
    rewrite app_length in *. cbn [length] in *.
    replace (length pre + 1 - 1)%nat with (length pre) by lia.
    rewrite app_nth2, Nat.sub_diag by lia. cbn [nth].
    rewrite firstn_app, firstn_all, Nat.sub_diag, app_nil_r. cbn [firstn].
    rewrite be_words_app_even in * by exact Hev. cbn [be_words] in *.
    rewrite zsum_app in *. rewrite app_length in Hw. cbn [zsum fold_right length] in *.
    pose proof (zsum_bound _ (be_words_u16 pre Hpre)) as Hzp.
    assert (E : w32 (init + w32 (x * 2^8)) = init + x * 256).
    { wunf. Z.div_mod_to_equations. lia. }
    rewrite E. rewrite sum_pairs_nowrap; [|exact Hev|exact Hpre|wunf; lia|wunf; lia].
    rewrite combine_fold; [f_equal; lia|wunf; lia].
  - rewrite firstn_all.
    assert (Hev : Nat.even (length buf) = true).
    { unfold Nat.odd in Ho. destruct (Nat.even (length buf)); [reflexivity|discriminate Ho]. }
    rewrite sum_pairs_nowrap; [|exact Hev|exact Hb|wunf; lia|wunf; lia].
    apply combine_fold. wunf. lia.
Qed.

(* ---------- RFC 1071 definition = the same closed form ---------- *)
Lemma rfc_fold_closed ws : forall init, is_u16 init -> Forall is_u16 ws ->
  fold_left ocadd ws init = oc_norm (init + zsum ws).
Proof.
  induction ws as [|w ws IH]; intros init Hi Hws; cbn [fold_left zsum fold_right].
  - rewrite Z.add_0_r. symmetry. apply oc_norm_id, Hi.
  - inversion Hws as [|? ? Hw Hws']; subst.
    rewrite IH by (try apply ocadd_u16; assumption).
    pose proof (zsum_bound _ Hws') as Hz. fold (zsum ws).
    unfold ocadd. cbv zeta. destruct (Z.ltb_spec (init + w) 65536) as [L|L].
    + f_equal. lia.
    + rewrite oc_norm_carry by lia. f_equal. lia.
Qed.

Lemma checksum_rfc1071 buf init :
  bytes_ok buf -> is_u16 init -> Z.of_nat (length buf) <= 131072 ->
  checksum buf init = rfc1071_sum buf init.
Proof.
  intros Hb Hi Hlen. rewrite checksum_closed by assumption.
  unfold rfc1071_sum, total. symmetry. apply rfc_fold_closed; [exact Hi|apply be_words_u16, Hb].
Qed.

(* value characterisation: the result is the unique value in 0..65535 that is congruent to the
   integer total modulo 65535 and is 0 exactly when every summand is 0 *)
Lemma checksum_value buf init :
  bytes_ok buf -> is_u16 init -> Z.of_nat (length buf) <= 131072 ->
  is_u16 (checksum buf init) /\
  checksum buf init mod 65535 = (init + zsum (be_words buf)) mod 65535 /\
  (checksum buf init = 0 <-> init = 0 /\ zsum (be_words buf) = 0).
Proof.
  intros Hb Hi Hlen. rewrite checksum_closed by assumption.
  pose proof (total_nonneg buf init Hb ltac:(unfold is_u16 in Hi; lia)) as Ht.
  destruct (oc_norm_props _ Ht) as (H1 & H2 & H3).
  pose proof (zsum_bound _ (be_words_u16 buf Hb)) as Hz. unfold total in *. unfold is_u16 in Hi.
  split; [exact H1|]. split; [exact H2|]. split.
  - intros H. apply H3 in H. lia.
  - intros [A B]. apply H3. lia.
Qed.

Lemma checksum_u16 buf init :
  bytes_ok buf -> is_u16 init -> Z.of_nat (length buf) <= 131072 -> is_u16 (checksum buf init).
Proof. intros Hb Hi Hl. apply (checksum_value buf init Hb Hi Hl). Qed.

(* the length bound is exact: one more byte and the uint32 accumulator can wrap *)
Lemma checksum_overflow_refuted :
  exists buf init, bytes_ok buf /\ is_u16 init /\ Z.of_nat (length buf) = 131073 /\
    checksum buf init <> rfc1071_sum buf init.
Proof.
  exists (repeat 255 (Z.to_nat 131073)), 65535. split; [|split; [|split]].
  - apply Forall_forall. intros x Hx. apply repeat_spec in Hx. subst. unfold is_byte. lia.
  - unfold is_u16. lia.
  - rewrite repeat_length. apply Z2Nat.id. lia.
  - assert (E1 : checksum (repeat 255 (Z.to_nat 131073)) 65535 = 65279) by (vm_compute; reflexivity).
    assert (E2 : rfc1071_sum (repeat 255 (Z.to_nat 131073)) 65535 = 65280) by (vm_compute; reflexivity).
    rewrite E1, E2. discriminate.
Qed.

(* ---------- chunked summation ---------- *)
Lemma total_app_even a b init :
  Nat.even (length a) = true -> total (a ++ b) init = total a init + zsum (be_words b).
Proof. intros He. unfold total. rewrite be_words_app_even, zsum_app by exact He. lia. Qed.

Lemma checksum_two_chunks c1 c2 init :
  bytes_ok c1 -> bytes_ok c2 -> is_u16 init -> Nat.even (length c1) = true ->
  Z.of_nat (length (c1 ++ c2)) <= 131072 ->
  checksum c2 (checksum c1 init) = checksum (c1 ++ c2) init.
Proof.
  intros H1 H2 Hi He Hl. rewrite app_length in Hl.
  assert (Hc1 : is_u16 (checksum c1 init)) by (apply checksum_u16; try assumption; lia).
  rewrite (checksum_closed c2) by (try assumption; lia).
  rewrite (checksum_closed c1) by (try assumption; lia).
  rewrite (checksum_closed (c1 ++ c2)); [|apply Forall_app; split; assumption|exact Hi|rewrite app_length; lia].
  rewrite total_app_even by exact He. unfold total at 1.
  pose proof (zsum_bound _ (be_words_u16 c2 H2)).
  apply oc_norm_add; [apply total_nonneg; [exact H1|unfold is_u16 in Hi; lia]|lia].
Qed.

Fixpoint nonfinal_even (chunks : list (list Z)) : Prop :=
  match chunks with
  | [] => True
  | c :: rest => match rest with [] => True | _ => Nat.even (length c) = true /\ nonfinal_even rest end
  end.

Lemma checksum_chunks_concat chunks : forall init,
  Forall bytes_ok chunks -> is_u16 init -> nonfinal_even chunks ->
  Z.of_nat (length (concat chunks)) <= 131072 ->
  checksum_chunks chunks init = checksum (concat chunks) init.
Proof.
  unfold checksum_chunks.
  induction chunks as [|c rest IH]; intros init Hb Hi Hne Hl.
  - cbn [fold_left concat]. rewrite checksum_closed; [|constructor|exact Hi|cbn; lia].
    unfold total. cbn [be_words zsum fold_right]. rewrite Z.add_0_r. symmetry. apply oc_norm_id, Hi.
  - inversion Hb as [|? ? Hc Hrest]; subst. cbn [fold_left concat] in *.
    destruct rest as [|c2 rest'].
    + cbn [fold_left concat]. rewrite app_nil_r. reflexivity.
    + destruct Hne as [He Hne']. rewrite app_length in Hl.
      rewrite IH; [|exact Hrest|apply checksum_u16; try assumption; lia|exact Hne'|lia].
      apply checksum_two_chunks; try assumption.
      * apply Forall_concat. exact Hrest.
      * rewrite app_length. lia.
Qed.

(* an odd-length chunk that is not the last one breaks it (every caller that sums a
   VectorisedView view by view relies on non-final views having even length) *)
Lemma checksum_odd_chunk_refuted :
  exists c1 c2 init, bytes_ok c1 /\ bytes_ok c2 /\ is_u16 init /\
    checksum c2 (checksum c1 init) <> checksum (c1 ++ c2) init.
Proof.
  exists [1], [2], 0. repeat split; try (repeat constructor; unfold is_byte; lia); try (unfold is_u16; lia).
  vm_compute. discriminate.
Qed.

(* PseudoHeaderChecksum is the RFC sum over src ++ dst ++ [0; protocol] for even-length addresses *)
Lemma pseudoHeaderChecksum_spec proto src dst :
  bytes_ok src -> bytes_ok dst -> is_byte proto ->
  Nat.even (length src) = true -> Nat.even (length dst) = true ->
  Z.of_nat (length src + length dst) <= 131070 ->
  pseudoHeaderChecksum proto src dst = rfc1071_sum (src ++ dst ++ [0; proto]) 0.
Proof.
  intros Hs Hd Hp Es Ed Hl. unfold pseudoHeaderChecksum.
  assert (Hp' : w8 proto = proto) by (wunf; Z.div_mod_to_equations; lia). rewrite Hp'.
  assert (H0 : is_u16 0) by (unfold is_u16; lia).
  assert (Hpb : bytes_ok [0; proto]) by (repeat constructor; unfold is_byte in *; lia).
  rewrite (checksum_two_chunks src dst) by (try assumption; rewrite app_length; lia).
  rewrite (checksum_two_chunks (src ++ dst) [0; proto]);
    [|apply Forall_app; split; assumption|exact Hpb|exact H0| |rewrite !app_length; cbn [length]; lia].
  - rewrite <- app_assoc. apply checksum_rfc1071; [|exact H0|rewrite !app_length; cbn [length]; lia].
    apply Forall_app; split; [exact Hs|apply Forall_app; split; assumption].
  - rewrite app_length, Nat.even_add, Es, Ed. reflexivity.
Qed.

(* ---------- a packet carrying the complemented sum verifies ---------- *)
Lemma lnot16_bytes c : is_u16 c ->
  is_byte (lnot16 c / 256) /\ is_byte (lnot16 c mod 256) /\
  lnot16 c / 256 * 256 + lnot16 c mod 256 = lnot16 c.
Proof. unfold is_u16, is_byte, lnot16. intros H. Z.div_mod_to_equations; lia. Qed.

Lemma total_field pre h l post init :
  Nat.even (length pre) = true ->
  total (pre ++ [h; l] ++ post) init = total (pre ++ [0; 0] ++ post) init + (h * 256 + l).
Proof.
  intros He. rewrite !total_app_even by exact He.
  change ([h; l] ++ post) with (h :: l :: post). change ([0; 0] ++ post) with (0 :: 0 :: post).
  cbn [be_words zsum fold_right]. lia.
Qed.

Lemma checksum_verifies_split pre post init :
  bytes_ok pre -> bytes_ok post -> is_u16 init -> Nat.even (length pre) = true ->
  Z.of_nat (length pre + 2 + length post) <= 131072 ->
  let c := checksum (pre ++ [0; 0] ++ post) init in
  checksum (pre ++ [lnot16 c / 256; lnot16 c mod 256] ++ post) init = 65535.
Proof.
  intros Hpre Hpost Hi He Hl c.
  assert (Hb0 : bytes_ok (pre ++ [0; 0] ++ post)).
  { apply Forall_app; split; [exact Hpre|]. repeat constructor; try (unfold is_byte; lia). exact Hpost. }
  assert (Hl0 : Z.of_nat (length (pre ++ [0; 0] ++ post)) <= 131072).
  { rewrite !app_length. cbn [length]. lia. }
  assert (Hc : is_u16 c) by (apply checksum_u16; assumption).
  destruct (lnot16_bytes c Hc) as (B1 & B2 & B3).
  rewrite checksum_closed.
  - rewrite total_field by exact He. rewrite B3. subst c. rewrite checksum_closed by assumption.
    apply oc_norm_complement. apply total_nonneg; [exact Hb0|unfold is_u16 in Hi; lia].
  - apply Forall_app; split; [exact Hpre|]. cbn [app].
    constructor; [exact B1|constructor; [exact B2|exact Hpost]].
  - exact Hi.
  - rewrite !app_length. cbn [length]. lia.
Qed.

(* the same, stated with the write primitive: zero the aligned 16-bit field at byte offset k,
   compute the checksum, store its complement in the field; the whole buffer then sums to 0xffff *)
Lemma checksum_verifies pkt k init pkt0 pkt' :
  bytes_ok pkt -> is_u16 init -> Nat.even k = true -> Z.of_nat (length pkt) <= 131072 ->
  put16 pkt k 0 = Some pkt0 ->
  put16 pkt k (lnot16 (checksum pkt0 init)) = Some pkt' ->
  checksum pkt' init = 65535.
Proof.
  intros Hb Hi He Hl H0 H1.
  destruct (Nat.lt_ge_cases (S k) (length pkt)) as [L|L]; [|rewrite put16_none in H0 by exact L; discriminate H0].
  rewrite put16_some in H0, H1 by exact L.
  assert (E0 : pkt0 = firstn k pkt ++ [0; 0] ++ skipn (k + 2) pkt) by (symmetry; injection H0 as H0; exact H0).
  clear H0. subst pkt0.
  assert (Hpre : bytes_ok (firstn k pkt)) by apply Forall_firstn, Hb.
  assert (Hpost : bytes_ok (skipn (k + 2) pkt)) by apply Forall_skipn, Hb.
  assert (Lpre : length (firstn k pkt) = k) by (rewrite firstn_length; lia).
  assert (Lpost : length (skipn (k + 2) pkt) = (length pkt - (k + 2))%nat) by apply skipn_length.
  set (c := checksum (firstn k pkt ++ [0; 0] ++ skipn (k + 2) pkt) init) in *.
  assert (Hc : is_u16 c).
  { apply checksum_u16; [|exact Hi|].
    - apply Forall_app; split; [exact Hpre|]. cbn [app].
      constructor; [unfold is_byte; lia|constructor; [unfold is_byte; lia|exact Hpost]].
    - rewrite !app_length, Lpre, Lpost. cbn [length]. lia. }
  destruct (lnot16_bytes c Hc) as (B1 & B2 & B3).
  assert (E1 : pkt' = firstn k pkt ++ [lnot16 c / 256; lnot16 c mod 256] ++ skipn (k + 2) pkt).
  { injection H1 as H1. rewrite <- H1. unfold w8. change (2^8) with 256.
    rewrite (Z.mod_small (lnot16 c / 256)) by (unfold is_byte in B1; lia). reflexivity. }
  subst pkt'. apply checksum_verifies_split; try assumption.
  - rewrite Lpre. exact He.
  - rewrite Lpre, Lpost. lia.
Qed.
