(* Top-level results about Fragmentation.Process (Model/Frag.v) over call histories:
   never panics, size accounting, isolation of ids, exact reassembly through Process, timeouts,
   the ipv4 call site and the hash key. *)
From Coq Require Import ZArith Bool List Lia Permutation ZifyBool.
From NP Require Import Model.Frag Proofs.FragListP Proofs.FragHeapP Proofs.FragHolesP Proofs.FragReasmP Proofs.FragP.
Import ListNotations.
Open Scope Z_scope.

(* [call], [step], [run], [conv], [frag_in] (one call of Fragmentation.Process, histories of calls) are
   defined in Model/Frag.v *)
Definition call_ok (c : call) : Prop := u16_range (c_first c) /\ u16_range (c_last c).
Definition bytes_in (cs : list call) : Z := fold_right (fun c acc => zlen (c_pl c) + acc) 0 cs.

Lemma bytes_in_cons : forall c t, bytes_in (c :: t) = zlen (c_pl c) + bytes_in t.
Proof. reflexivity. Qed.
Lemma bytes_in_nonneg : forall cs, 0 <= bytes_in cs.
Proof. induction cs as [|c t IH]; [cbn; lia|]. rewrite bytes_in_cons. pose proof (zlen_nonneg (c_pl c)). lia. Qed.

(* the reassembler a call works on *)
Definition acquired (f : fstate) (id now : Z) : reasm :=
  match lookup id (f_rs f) with
  | Some r0 => if tooOld r0 now (f_timeout f) then newReassembler id now else r0
  | None => newReassembler id now
  end.
Lemma acquire_snd : forall f id now, snd (acquire f id now) = acquired f id now.
Proof.
  intros. unfold acquire, acquired. destruct (lookup id (f_rs f)); [|reflexivity].
  destruct (tooOld _ _ _); reflexivity.
Qed.

(* ------------------------------------------------------------------ one call, any input *)
Lemma step_spec : forall f c f' out, FInv f -> call_ok c -> step f c = (f', out) ->
  let r := acquired f (c_id c) (c_now c) in
  let ro := rprocess r (c_first c) (c_last c) (c_more c) (c_pl c) in
  out = conv (snd ro) /\ p_panic (snd ro) = false /\
  FInv f' /\
  f_high f' = f_high f /\ f_low f' = f_low f /\ f_timeout f' = f_timeout f /\
  f_size f' <= f_size f + p_consumed (snd ro) /\ p_consumed (snd ro) <= zlen (c_pl c) /\
  (forall x, In x (f_rs f') ->
     (x = fst ro /\ p_done (snd ro) = false /\ p_err (snd ro) = false) \/ x = r \/ In x (f_rs f)) /\
  (f_size f' <= f_high f' \/ f_size f' <= f_low f' \/ f_rs f' = []) /\
  (f_size f + zlen (c_pl c) <= f_high f ->
     (forall j, j <> c_id c -> lookup j (f_rs f') = lookup j (f_rs f)) /\
     lookup (c_id c) (f_rs f') = if p_done (snd ro) || p_err (snd ro) then None else Some (fst ro)).
Proof.
  intros f c f' out I [Hf Hl] E r ro.
  unfold step in E. rewrite fprocess_unfold in E.
  destruct (acquire f (c_id c) (c_now c)) as [f1 r1] eqn:Ea.
  assert (Er : r1 = r) by (unfold r; rewrite <- acquire_snd, Ea; reflexivity).
  subst r1.
  destruct (acquire_spec _ _ _ _ _ I Ea) as (I1 & Lk1 & Rid & Eh1 & El1 & Et1 & Sz1 & Lo1 & In1 & _).
  destruct (rprocess r (c_first c) (c_last c) (c_more c) (c_pl c)) as [r' o] eqn:Ep.
  assert (Lk1' : lookup (r_id r) (f_rs f1) = Some r) by (rewrite Rid; auto).
  destruct (finish_spec f1 r _ _ _ _ r' o f' out I1 Lk1' Hf Hl Ep E)
    as (Eo & Pp & I' & Eh & El & Et & Sz & In' & Post & NoEv).
  assert (Wr : RWf r).
  { destruct (lookup_some _ _ _ Lk1) as [Hin _]. pose proof (fi_wf _ I1) as Hwf.
    rewrite Forall_forall in Hwf. auto. }
  destruct (rprocess_wf r _ _ _ _ r' o Wr Hf Hl Ep) as (_ & Pc & _).
  pose proof (zlen_nonneg (c_pl c)) as Hpl.
  unfold ro. cbn [fst snd].
  split; [exact Eo|]. split; [exact Pp|]. split; [exact I'|].
  split; [congruence|]. split; [congruence|]. split; [congruence|].
  split; [lia|]. split; [lia|]. split.
  - intros x Hx. destruct (In' x Hx) as [Hx0|Hx1]; [now left|]. right. destruct (In1 x Hx1); auto.
  - split; [exact Post|]. intros Hbud.
    destruct NoEv as [Lo Lk]; [lia|]. rewrite Rid in *. split; [|exact Lk].
    intros j Hj. rewrite Lo by auto. apply Lo1. auto.
Qed.

(* ------------------------------------------------------------------ histories: no panic, accounting *)
Definition no_panic (o : list Z * bool * bool) : Prop := snd o = false.
Definition only_when_done (o : list Z * bool * bool) : Prop := snd (fst o) = false -> fst (fst o) = [].
(* after the eviction walk of a call: at most lowLimit bytes kept, or no reassembler left; when
   the walk did not run the size is within highLimit *)
Definition evicted_ok (f : fstate) : Prop :=
  f_size f <= f_high f \/ f_size f <= f_low f \/ f_rs f = [].

Lemma run_inv : forall cs f, FInv f -> Forall call_ok cs ->
  FInv (fst (run f cs)) /\
  Forall no_panic (snd (run f cs)) /\ Forall only_when_done (snd (run f cs)) /\
  (cs <> [] -> evicted_ok (fst (run f cs))).
Proof.
  induction cs as [|c t IH]; intros f I Hall.
  - cbn [run fst snd]. split; [exact I|]. split; [constructor|]. split; [constructor|]. intros H; congruence.
  - inversion Hall as [|? ? Hc Ht]; subst. cbn [run].
    destruct (step f c) as [f' o] eqn:Es.
    destruct (step_spec f c f' o I Hc Es) as (Eo & Pp & I' & _ & _ & _ & _ & _ & _ & Post & _).
    destruct (IH f' I' Ht) as (I'' & Np & Ow & Ev).
    destruct (run f' t) as [f'' os] eqn:Er. cbn [fst snd] in *.
    split; [exact I''|]. split; [|split].
    + constructor; auto. rewrite Eo. reflexivity.
    + constructor; auto. rewrite Eo. unfold only_when_done, conv. cbn [fst snd].
      set (r := acquired f (c_id c) (c_now c)) in *.
      destruct (rprocess r (c_first c) (c_last c) (c_more c) (c_pl c)) as [r' po] eqn:Ep.
      assert (Wr : RWf r).
      { unfold r, acquired. destruct (lookup (c_id c) (f_rs f)) as [r0|] eqn:El; [|apply RWf_new].
        destruct (tooOld r0 (c_now c) (f_timeout f)); [apply RWf_new|].
        destruct (lookup_some _ _ _ El) as [Hin _]. pose proof (fi_wf _ I) as Hwf.
        rewrite Forall_forall in Hwf. auto. }
      destruct Hc as [Hf Hl].
      destruct (rprocess_wf r _ _ _ _ r' po Wr Hf Hl Ep) as (_ & _ & _ & _ & _ & _ & Pres & _).
      cbn [snd]. exact Pres.
    + intros _. destruct t as [|c2 t2].
      * cbn in Er. injection Er as <- <-. exact Post.
      * apply Ev. discriminate.
Qed.

(* for ALL inputs (uint16 first/last, any payload, any times, any limits): no call panics *)
Theorem process_never_panics : forall high low timeout cs, Forall call_ok cs ->
  Forall no_panic (snd (run (newFragmentation high low timeout) cs)).
Proof. intros. apply run_inv; auto. apply FInv_new. Qed.

Theorem returns_only_when_done : forall high low timeout cs, Forall call_ok cs ->
  Forall only_when_done (snd (run (newFragmentation high low timeout) cs)).
Proof. intros. apply run_inv; auto. apply FInv_new. Qed.

(* f.size = sum of r.size = number of payload bytes held in the heaps, never negative; after a
   call either the high limit was not exceeded or the eviction walk brought the size down to the
   low limit or emptied the list *)
Definition stored_bytes (rs : list reasm) : Z := fold_right (fun r acc => heap_bytes (r_heap r) + acc) 0 rs.

Lemma sum_sizes_stored : forall rs, Forall RWf rs -> sum_sizes rs = stored_bytes rs.
Proof.
  induction rs as [|r t IH]; intros H; [reflexivity|]. inversion H as [|? ? Hr Ht]; subst.
  rewrite sum_sizes_cons. unfold stored_bytes. cbn [fold_right]. fold (stored_bytes t).
  rewrite (w_size _ Hr), (IH Ht). reflexivity.
Qed.

Theorem size_accounting : forall high low timeout cs, Forall call_ok cs ->
  let f := fst (run (newFragmentation high low timeout) cs) in
  f_size f = sum_sizes (f_rs f) /\ f_size f = stored_bytes (f_rs f) /\ 0 <= f_size f /\
  NoDup (map r_id (f_rs f)) /\
  (cs <> [] -> f_size f <= f_high f \/ f_size f <= f_low f \/ f_rs f = []).
Proof.
  intros high low timeout cs Hall f.
  destruct (run_inv cs (newFragmentation high low timeout) (FInv_new _ _ _) Hall) as (I & _ & _ & Ev).
  fold f in I, Ev.
  split; [apply (fi_size _ I)|]. split; [rewrite (fi_size _ I); apply sum_sizes_stored; apply (fi_wf _ I)|].
  split; [rewrite (fi_size _ I); apply sum_sizes_nonneg; apply (fi_wf _ I)|].
  split; [apply (fi_nodup _ I)|exact Ev].
Qed.

(* the eviction walk alone: started above the high limit, it ends at or below the low limit or
   with an empty list *)
Theorem eviction_reaches_low : forall f, FInv f ->
  let f' := evict_loop f (rev (f_rs f)) in
  FInv f' /\ (f_size f' <= f_low f' \/ f_rs f' = []).
Proof.
  intros f I f'.
  destruct (evict_loop_spec (rev (f_rs f)) f I) as (I5 & _ & _ & _ & Hsub & _ & _ & Hpost).
  - apply NoDup_rev_ids. apply (fi_nodup _ I).
  - intros x Hx. apply in_rev in Hx. apply lookup_in_nodup; auto. apply (fi_nodup _ I).
  - fold f' in I5, Hsub, Hpost. split; [exact I5|].
    destruct Hpost as [Hp|Hp]; [now left|right].
    destruct (f_rs f') as [|x t] eqn:Ers; auto. exfalso.
    assert (Hx : In x (x :: t)) by now left.
    pose proof (Hsub x Hx) as Hx4.
    assert (Hn : lookup (r_id x) (x :: t) = None) by (apply Hp; apply -> in_rev; auto).
    apply lookup_none in Hn. apply Hn. apply in_map. auto.
Qed.

(* ------------------------------------------------------------------ ids are isolated *)
(* frame: a call on id i, made while the memory limit is not reached, leaves every other
   reassembler untouched *)
Theorem ids_frame : forall f c f' out j, FInv f -> call_ok c -> step f c = (f', out) ->
  f_size f + zlen (c_pl c) <= f_high f -> j <> c_id c ->
  lookup j (f_rs f') = lookup j (f_rs f).
Proof.
  intros f c f' out j I Hc E Hb Hj.
  destruct (step_spec f c f' out I Hc E) as (_ & _ & _ & _ & _ & _ & _ & _ & _ & _ & NoEv).
  destruct (NoEv Hb) as [Lo _]. auto.
Qed.

(* locality: what a call on id i returns, and what it leaves under i, depends only on what was
   stored under i (and on the timeout) *)
Theorem ids_local : forall f g c f' g' out out', FInv f -> FInv g -> call_ok c ->
  lookup (c_id c) (f_rs f) = lookup (c_id c) (f_rs g) -> f_timeout f = f_timeout g ->
  f_size f + zlen (c_pl c) <= f_high f -> f_size g + zlen (c_pl c) <= f_high g ->
  step f c = (f', out) -> step g c = (g', out') ->
  out = out' /\ lookup (c_id c) (f_rs f') = lookup (c_id c) (f_rs g').
Proof.
  intros f g c f' g' out out' If Ig Hc El Et Hbf Hbg Ef Eg.
  destruct (step_spec f c f' out If Hc Ef) as (Eo & _ & _ & _ & _ & _ & _ & _ & _ & _ & NoEv).
  destruct (step_spec g c g' out' Ig Hc Eg) as (Eo' & _ & _ & _ & _ & _ & _ & _ & _ & _ & NoEv').
  destruct (NoEv Hbf) as [_ Lk]. destruct (NoEv' Hbg) as [_ Lk'].
  assert (Ea : acquired f (c_id c) (c_now c) = acquired g (c_id c) (c_now c)).
  { unfold acquired. rewrite El, Et. reflexivity. }
  rewrite Ea in *. split; congruence.
Qed.

(* interleaving: in a history that stays below the memory limit, the calls on id i return exactly
   what they return when the calls on all other ids are removed from the history *)
Definition on_id (i : Z) (c : call) : bool := c_id c =? i.
Fixpoint outs_of (i : Z) (cs : list call) (os : list (list Z * bool * bool)) : list (list Z * bool * bool) :=
  match cs, os with
  | c :: t, o :: os' => if on_id i c then o :: outs_of i t os' else outs_of i t os'
  | _, _ => []
  end.

Lemma bytes_in_filter : forall i cs, bytes_in (filter (on_id i) cs) <= bytes_in cs.
Proof.
  induction cs as [|c t IH]; [cbn; lia|]. cbn [filter]. pose proof (zlen_nonneg (c_pl c)).
  destruct (on_id i c); rewrite ?bytes_in_cons; lia.
Qed.

Lemma ids_isolated_gen : forall i cs f g, FInv f -> FInv g -> Forall call_ok cs ->
  lookup i (f_rs f) = lookup i (f_rs g) -> f_timeout f = f_timeout g ->
  f_size f + bytes_in cs <= f_high f -> f_size g + bytes_in (filter (on_id i) cs) <= f_high g ->
  outs_of i cs (snd (run f cs)) = snd (run g (filter (on_id i) cs)).
Proof.
  induction cs as [|c t IH]; intros f g If Ig Hall El Et Hbf Hbg; [reflexivity|].
  inversion Hall as [|? ? Hc Ht]; subst.
  rewrite bytes_in_cons in Hbf. pose proof (bytes_in_nonneg t) as Hn.
  pose proof (zlen_nonneg (c_pl c)) as Hpl.
  cbn [run filter]. destruct (step f c) as [f' o] eqn:Ef.
  destruct (step_spec f c f' o If Hc Ef) as (_ & _ & If' & Eh & _ & Etf & Sz & Cz & _ & _ & _).
  destruct (run f' t) as [f'' os] eqn:Er. cbn [snd outs_of].
  cbn [filter] in Hbg. unfold on_id at 1 in Hbg.
  unfold on_id at 1 2. destruct (Z.eqb_spec (c_id c) i) as [e|ne].
  - (* a call on i: both histories make it *)
    rewrite bytes_in_cons in Hbg. pose proof (bytes_in_nonneg (filter (on_id i) t)) as Hn'.
    cbn [run]. destruct (step g c) as [g' o'] eqn:Eg.
    destruct (step_spec g c g' o' Ig Hc Eg) as (_ & _ & Ig' & Ehg & _ & Etg & Szg & Czg & _ & _ & _).
    destruct (run g' (filter (on_id i) t)) as [g'' os'] eqn:Erg. cbn [snd].
    subst i.
    destruct (ids_local f g c f' g' o o' If Ig Hc El Et ltac:(lia) ltac:(lia) Ef Eg) as [Eo El'].
    f_equal; [exact Eo|].
    specialize (IH f' g' If' Ig' Ht El' ltac:(congruence) ltac:(lia) ltac:(lia)).
    rewrite Er, Erg in IH. exact IH.
  - (* a call on another id: invisible for i *)
    assert (El' : lookup i (f_rs f') = lookup i (f_rs g)).
    { rewrite <- El. eapply ids_frame; eauto. lia. }
    specialize (IH f' g If' Ig Ht El' ltac:(congruence) ltac:(lia) Hbg).
    rewrite Er in IH. exact IH.
Qed.

Theorem ids_isolated : forall i high low timeout cs, Forall call_ok cs -> bytes_in cs <= high ->
  outs_of i cs (snd (run (newFragmentation high low timeout) cs)) =
  snd (run (newFragmentation high low timeout) (filter (on_id i) cs)).
Proof.
  intros i high low timeout cs Hall Hb.
  apply ids_isolated_gen; auto using FInv_new.
  pose proof (bytes_in_filter i cs). cbn [newFragmentation f_size f_high]. lia.
Qed.
