(* Bounded-domain evaluation, the closing-window connection (see Proofs/TcpSysLiveBaseP.v,
   Proofs/TcpSysLiveP.v): every scenario of [zw_scens] x every drop set of [dsets], pumped on the
   model inside the kernel's VM (1 404 runs). *)
From Coq Require Import ZArith List Bool.
From NP Require Import Model.Seqnum Model.Tcp Model.TcpHs Model.TcpEst Proofs.TcpNetP Model.TcpSys Proofs.TcpSysLiveBaseP.
Import ListNotations.
Open Scope Z_scope.

Lemma all_runs_ok_zw : forallb (fun b => forallb (run_ok_zw b) (dsets zw_pair b)) zw_scens = true.
Proof. vm_cast_no_check (eq_refl true). Qed.
