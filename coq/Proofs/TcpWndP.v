(* C04, part 1: what the sender (snd.go) emits versus the window the peer has offered and the
   segment-size limit.  Everything here holds for ALL states (no invariant): it is a property of
   the send loop itself.  The history-dependent part (retransmissions) is in TcpWndSndP.v, the
   receiver side in TcpWndRcvP.v. *)
From Coq Require Import ZArith List Bool Lia ZifyBool.
From RecordUpdate Require Import RecordSet.
From NP Require Import Model.Seqnum Model.GoHeap Model.Tcp Proofs.SeqnumP.
Import ListNotations RecordSetNotations.
Open Scope Z_scope.

(* ------------------------------------------------------------------ lists of bytes *)
Lemma len_nonneg l : 0 <= len l.
Proof. unfold len. lia. Qed.

Lemma len_nil_iff l : len l = 0 <-> l = [].
Proof. unfold len. destruct l; cbn [length]; split; intros H; try reflexivity; try discriminate; lia. Qed.

Lemma len_takeZ a l : 0 <= a -> len (takeZ a l) <= a.
Proof. intros Ha. unfold len, takeZ. rewrite firstn_length. lia. Qed.

Lemma len_takeZ_exact a l : 0 <= a <= len l -> len (takeZ a l) = a.
Proof. unfold len, takeZ. intros Ha. rewrite firstn_length. lia. Qed.

Lemma len_takeZ_le a l : len (takeZ a l) <= len l.
Proof. unfold len, takeZ. rewrite firstn_length. lia. Qed.

Lemma len_dropZ a l : 0 <= a -> len (dropZ a l) = Z.max 0 (len l - a).
Proof. intros Ha. unfold len, dropZ. rewrite skipn_length. lia. Qed.

Lemma len_dropZ_le a l : len (dropZ a l) <= len l.
Proof. unfold len, dropZ. rewrite skipn_length. lia. Qed.

Lemma len_app a b : len (a ++ b) = len a + len b.
Proof. unfold len. rewrite app_length. lia. Qed.

(* ------------------------------------------------------------------ the single emission point *)
(* spec vocabulary (independent of the model functions): the advertised window a frame should
   carry for a receiver whose next expected number is nxt, right edge acc and shift s *)
Definition adv_wnd (nxt acc s : Z) : Z := Z.min 65535 (Z.shiftr (u32 (acc - nxt)) s).

Definition newAcc (t : tcp) : Z :=
  let acc := add (rcvNxt (RC t)) (u32 (receiveBufferAvailable t)) in
  if lessThan (rcvAcc (RC t)) acc then acc else rcvAcc (RC t).

Lemma sendSegment_eq t d fl sq :
  sendSegment t d fl sq =
  t <| RC := (RC t) <| rcvAcc := newAcc t |> |>
    <| SN := (SN t) <| maxSentAck := rcvNxt (RC t) |> |>
    <| out := out t ++ [mkF sq (rcvNxt (RC t)) fl (adv_wnd (rcvNxt (RC t)) (newAcc t) (rcvWndScale (RC t))) d] |>.
Proof.
  unfold sendSegment, getSendParams, newAcc, adv_wnd, size. cbn.
  destruct (65535 <? _) eqn:E; [rewrite Z.min_l by lia|rewrite Z.min_r by lia]; reflexivity.
Qed.

#[global] Arguments sendSegment : simpl never.

(* ------------------------------------------------------------------ clause 1/2: the send loop *)
(* a data frame whose bytes end at or before endv and which is not longer than limit *)
Definition okf (endv limit : Z) (f : frame) : Prop :=
  f_data f = [] \/
  (lessThan (f_seq f) endv = true /\ len (f_data f) <= size (f_seq f) endv /\ len (f_data f) <= limit).

(* fields of the sender that the send loop never changes *)
Definition snd_same (t t' : tcp) : Prop :=
  sndUna (SN t') = sndUna (SN t) /\ sndWnd (SN t') = sndWnd (SN t) /\
  maxPayload (SN t') = maxPayload (SN t) /\ sndWndScale (SN t') = sndWndScale (SN t).

Lemma snd_same_refl t : snd_same t t.
Proof. repeat split. Qed.
Lemma snd_same_trans a b c : snd_same a b -> snd_same b c -> snd_same a c.
Proof. unfold snd_same. intros (A1&A2&A3&A4) (B1&B2&B3&B4). repeat split; congruence. Qed.

Lemma sendLoop_spec fuel : forall t endv limit, 0 <= limit ->
  exists l, out (sendLoop fuel t endv limit) = out t ++ l /\ Forall (okf endv limit) l /\
            snd_same t (sendLoop fuel t endv limit).
Proof.
  induction fuel as [|fuel IH]; intros t endv limit Hl.
  - exists []. cbn [sendLoop]. rewrite app_nil_r. repeat split. constructor.
  - cbn [sendLoop].
    destruct (wunsent (SN t)) as [|w rest] eqn:Ew.
    { exists []. rewrite app_nil_r. repeat split. constructor. }
    destruct (negb (outstanding (SN t) <? cwnd (SN t))).
    { exists []. rewrite app_nil_r. repeat split. constructor. }
    set (w1 := if w_flags w =? 0 then _ else w).
    destruct (len (w_data w1) =? 0) eqn:Elen.
    + (* FIN *)
      match goal with |- context [sendLoop fuel ?T endv limit] => destruct (IH T endv limit Hl) as (l & Ho & Hf & Hs) end.
      eexists. split; [rewrite Ho|split].
      * match goal with |- context [if ?c then _ else _] => destruct c end;
          cbn; rewrite sendSegment_eq; cbn; rewrite <- app_assoc; reflexivity.
      * constructor; [left; reflexivity|exact Hf].
      * eapply snd_same_trans; [|exact Hs].
        match goal with |- context [if ?c then _ else _] => destruct c end;
          cbn; rewrite sendSegment_eq; cbn; repeat split.
    + destruct (negb (lessThan (w_seq w1) endv)) eqn:Ewin.
      { exists []. rewrite app_nil_r. cbn. repeat split. constructor. }
      apply negb_false_iff in Ewin.
      set (available0 := size (w_seq w1) endv).
      set (available := if limit <? available0 then limit else available0).
      assert (Hav : available <= available0 /\ available <= limit)
        by (subst available; destruct (limit <? available0) eqn:E; lia).
      destruct (available <? len (w_data w1)) eqn:Esplit.
      * match goal with |- context [sendLoop fuel ?T endv limit] => destruct (IH T endv limit Hl) as (l & Ho & Hf & Hs) end.
        eexists. split; [rewrite Ho|split].
        -- match goal with |- context [if ?c then _ else _] => destruct c end;
             cbn; rewrite sendSegment_eq; cbn; rewrite <- app_assoc; reflexivity.
        -- constructor; [|exact Hf]. right. cbn.
           assert (0 <= available).
           { subst available. destruct (limit <? available0); [lia|]. subst available0. unfold size, u32.
             apply Z.mod_pos_bound. reflexivity. }
           pose proof (len_takeZ available (w_data w1) H) as Ht.
           split; [exact Ewin|]. fold available0. lia.
        -- eapply snd_same_trans; [|exact Hs].
           match goal with |- context [if ?c then _ else _] => destruct c end;
             cbn; rewrite sendSegment_eq; cbn; repeat split.
      * match goal with |- context [sendLoop fuel ?T endv limit] => destruct (IH T endv limit Hl) as (l & Ho & Hf & Hs) end.
        eexists. split; [rewrite Ho|split].
        -- match goal with |- context [if ?c then _ else _] => destruct c end;
             cbn; rewrite sendSegment_eq; cbn; rewrite <- app_assoc; reflexivity.
        -- constructor; [|exact Hf]. right. cbn.
           split; [exact Ewin|]. fold available0. lia.
        -- eapply snd_same_trans; [|exact Hs].
           match goal with |- context [if ?c then _ else _] => destruct c end;
             cbn; rewrite sendSegment_eq; cbn; repeat split.
Qed.
