(* C04, part 1: what the sender (snd.go) emits versus the window the peer has offered and the
   segment-size limit.  Everything here holds for ALL states (no invariant): it is a property of
   the send loop itself.  The history-dependent part (retransmissions) is in TcpWndSndP.v, the
   receiver side in TcpWndRcvP.v. *)
From Coq Require Import ZArith List Bool Lia ZifyBool.
From RecordUpdate Require Import RecordSet.
From NP Require Import Model.Seqnum Model.GoHeap Model.Tcp Proofs.SeqnumP.
Import ListNotations RecordSetNotations.
Open Scope Z_scope.

(* ------------------------------------------------------------------ lists of bytes *)
Lemma len_nonneg l : 0 <= len l.
Proof. unfold len. lia. Qed.

Lemma len_nil_iff l : len l = 0 <-> l = [].
Proof. unfold len. destruct l; cbn [length]; split; intros H; try reflexivity; try discriminate; lia. Qed.

Lemma len_takeZ a l : 0 <= a -> len (takeZ a l) <= a.
Proof. intros Ha. unfold len, takeZ. rewrite firstn_length. lia. Qed.

Lemma len_takeZ_exact a l : 0 <= a <= len l -> len (takeZ a l) = a.
Proof. unfold len, takeZ. intros Ha. rewrite firstn_length. lia. Qed.

Lemma len_takeZ_le a l : len (takeZ a l) <= len l.
Proof. unfold len, takeZ. rewrite firstn_length. lia. Qed.

Lemma len_dropZ a l : 0 <= a -> len (dropZ a l) = Z.max 0 (len l - a).
Proof. intros Ha. unfold len, dropZ. rewrite skipn_length. lia. Qed.

Lemma len_dropZ_le a l : len (dropZ a l) <= len l.
Proof. unfold len, dropZ. rewrite skipn_length. lia. Qed.

Lemma len_app a b : len (a ++ b) = len a + len b.
Proof. unfold len. rewrite app_length. lia. Qed.

(* ------------------------------------------------------------------ the single emission point *)
(* spec vocabulary (independent of the model functions): the advertised window a frame should
   carry for a receiver whose next expected number is nxt, right edge acc and shift s *)
Definition adv_wnd (nxt acc s : Z) : Z := Z.min 65535 (Z.shiftr (u32 (acc - nxt)) s).

Definition newAcc (t : tcp) : Z :=
  let acc := add (rcvNxt (RC t)) (u32 (receiveBufferAvailable t)) in
  if lessThan (rcvAcc (RC t)) acc then acc else rcvAcc (RC t).

Lemma sendSegment_eq t d fl sq :
  sendSegment t d fl sq =
  t <| RC := (RC t) <| rcvAcc := newAcc t |> |>
    <| SN := (SN t) <| maxSentAck := rcvNxt (RC t) |> |>
    <| out := out t ++ [mkF sq (rcvNxt (RC t)) fl (adv_wnd (rcvNxt (RC t)) (newAcc t) (rcvWndScale (RC t))) d] |>.
Proof.
  unfold sendSegment, getSendParams, newAcc, adv_wnd, size. cbn.
  destruct (65535 <? _) eqn:E; [rewrite Z.min_l by lia|rewrite Z.min_r by lia]; reflexivity.
Qed.

#[global] Arguments sendSegment : simpl never.

(* ------------------------------------------------------------------ clause 1/2: the send loop *)
(* a data frame whose bytes end at or before endv and which is not longer than limit *)
Definition okf (endv limit : Z) (f : frame) : Prop :=
  f_data f = [] \/
  (lessThan (f_seq f) endv = true /\ len (f_data f) <= size (f_seq f) endv /\ len (f_data f) <= limit).

(* fields of the sender that the send loop never changes *)
Definition snd_same (t t' : tcp) : Prop :=
  sndUna (SN t') = sndUna (SN t) /\ sndWnd (SN t') = sndWnd (SN t) /\
  maxPayload (SN t') = maxPayload (SN t) /\ sndWndScale (SN t') = sndWndScale (SN t).

Lemma snd_same_refl t : snd_same t t.
Proof. repeat split. Qed.
Lemma snd_same_trans a b c : snd_same a b -> snd_same b c -> snd_same a c.
Proof. unfold snd_same. intros (A1&A2&A3&A4) (B1&B2&B3&B4). repeat split; congruence. Qed.

Lemma sendLoop_spec fuel : forall t endv limit, 0 <= limit ->
  exists l, out (sendLoop fuel t endv limit) = out t ++ l /\ Forall (okf endv limit) l /\
            snd_same t (sendLoop fuel t endv limit).
Proof.
  induction fuel as [|fuel IH]; intros t endv limit Hl.
  - exists []. cbn [sendLoop]. rewrite app_nil_r. repeat split. constructor.
  - cbn [sendLoop].
    destruct (wunsent (SN t)) as [|w rest] eqn:Ew.
    { exists []. rewrite app_nil_r. repeat split. constructor. }
    destruct (negb (outstanding (SN t) <? cwnd (SN t))).
    { exists []. rewrite app_nil_r. repeat split. constructor. }
    set (w1 := if w_flags w =? 0 then _ else w).
    destruct (len (w_data w1) =? 0) eqn:Elen.
    + (* FIN *)
      match goal with |- context [sendLoop fuel ?T endv limit] => destruct (IH T endv limit Hl) as (l & Ho & Hf & Hs) end.
      eexists. split; [rewrite Ho|split].
      * match goal with |- context [if ?c then _ else _] => destruct c end;
          cbn; rewrite sendSegment_eq; cbn; rewrite <- app_assoc; reflexivity.
      * constructor; [left; reflexivity|exact Hf].
      * eapply snd_same_trans; [|exact Hs].
        match goal with |- context [if ?c then _ else _] => destruct c end;
          cbn; rewrite sendSegment_eq; cbn; repeat split.
    + destruct (negb (lessThan (w_seq w1) endv)) eqn:Ewin.
      { exists []. rewrite app_nil_r. cbn. repeat split. constructor. }
      apply negb_false_iff in Ewin.
      set (available0 := size (w_seq w1) endv).
      set (available := if limit <? available0 then limit else available0).
      assert (Hav : available <= available0 /\ available <= limit)
        by (subst available; destruct (limit <? available0) eqn:E; lia).
      destruct (available <? len (w_data w1)) eqn:Esplit.
      * match goal with |- context [sendLoop fuel ?T endv limit] => destruct (IH T endv limit Hl) as (l & Ho & Hf & Hs) end.
        eexists. split; [rewrite Ho|split].
        -- match goal with |- context [if ?c then _ else _] => destruct c end;
             cbn; rewrite sendSegment_eq; cbn; rewrite <- app_assoc; reflexivity.
        -- constructor; [|exact Hf]. right. cbn.
           assert (0 <= available).
           { subst available. destruct (limit <? available0); [lia|]. subst available0. unfold size, u32.
             apply Z.mod_pos_bound. reflexivity. }
           pose proof (len_takeZ available (w_data w1) H) as Ht.
           split; [exact Ewin|]. fold available0. lia.
        -- eapply snd_same_trans; [|exact Hs].
           match goal with |- context [if ?c then _ else _] => destruct c end;
             cbn; rewrite sendSegment_eq; cbn; repeat split.
      * match goal with |- context [sendLoop fuel ?T endv limit] => destruct (IH T endv limit Hl) as (l & Ho & Hf & Hs) end.
        eexists. split; [rewrite Ho|split].
        -- match goal with |- context [if ?c then _ else _] => destruct c end;
             cbn; rewrite sendSegment_eq; cbn; rewrite <- app_assoc; reflexivity.
        -- constructor; [|exact Hf]. right. cbn.
           split; [exact Ewin|]. fold available0. lia.
        -- eapply snd_same_trans; [|exact Hs].
           match goal with |- context [if ?c then _ else _] => destruct c end;
             cbn; rewrite sendSegment_eq; cbn; repeat split.
Qed.

(* ------------------------------------------------------------------ emission bookkeeping *)
(* frames appended between two states *)
Definition emits (P : frame -> Prop) (t t' : tcp) : Prop :=
  exists l, out t' = out t ++ l /\ Forall P l.

Lemma emits_refl P t : emits P t t.
Proof. exists []. rewrite app_nil_r. split; [reflexivity|constructor]. Qed.
Lemma emits_trans P a b c : emits P a b -> emits P b c -> emits P a c.
Proof.
  intros (l1 & H1 & F1) (l2 & H2 & F2). exists (l1 ++ l2). rewrite H2, H1, app_assoc.
  split; [reflexivity|apply Forall_app; split; assumption].
Qed.
Lemma emits_weaken (P Q : frame -> Prop) a b : (forall f, P f -> Q f) -> emits P a b -> emits Q a b.
Proof. intros H (l & H1 & F). exists l. split; [exact H1|]. eapply Forall_impl; [exact H|exact F]. Qed.
Lemma emits_same_out P a b : out b = out a -> emits P a b.
Proof. intros H. exists []. rewrite app_nil_r. split; [exact H|constructor]. Qed.

(* the sender state up to maxSentAck *)
Definition sn_eq (t t' : tcp) : Prop := exists m, SN t' = (SN t) <| maxSentAck := m |>.
Lemma sn_eq_refl t : sn_eq t t.
Proof. exists (maxSentAck (SN t)). destruct (SN t); reflexivity. Qed.
Lemma sn_eq_trans a b c : sn_eq a b -> sn_eq b c -> sn_eq a c.
Proof. intros (m1 & H1) (m2 & H2). exists m2. rewrite H2, H1. reflexivity. Qed.
Lemma sn_eq_same a b : SN b = SN a -> sn_eq a b.
Proof. intros H. exists (maxSentAck (SN a)). rewrite H. destruct (SN a); reflexivity. Qed.

Definition nodata (f : frame) : Prop := f_data f = [].
Definition ackonly (t t' : tcp) : Prop := emits nodata t t' /\ sn_eq t t'.
Lemma ackonly_refl t : ackonly t t. Proof. split; [apply emits_refl|apply sn_eq_refl]. Qed.
Lemma ackonly_trans a b c : ackonly a b -> ackonly b c -> ackonly a c.
Proof. intros (A1 & A2) (B1 & B2). split; [eapply emits_trans|eapply sn_eq_trans]; eassumption. Qed.
Lemma ackonly_silent a b : out b = out a -> SN b = SN a -> ackonly a b.
Proof. intros H1 H2. split; [apply emits_same_out; exact H1|apply sn_eq_same; exact H2]. Qed.

Lemma sendAck_ackonly t : ackonly t (sendAck t).
Proof.
  unfold sendAck. rewrite sendSegment_eq. split.
  - eexists. cbn. split; [reflexivity|]. constructor; [reflexivity|constructor].
  - eexists. cbn. reflexivity.
Qed.

Lemma ackonly_upd (g : tcp -> tcp) :
  (forall X, out (g X) = out X) -> (forall X, SN (g X) = SN X) -> forall X, ackonly X (g X).
Proof. intros H1 H2 X. apply ackonly_silent; [apply H1|apply H2]. Qed.

Ltac ack_step :=
  match goal with
  | |- ackonly ?t ?t => apply ackonly_refl
  | |- ackonly _ (sendAck ?X) => apply (ackonly_trans _ X); [|apply sendAck_ackonly]
  | |- ackonly _ (set ?F ?f ?X) =>
      apply (ackonly_trans _ X); [|apply (ackonly_upd (set F f)); intros; reflexivity]
  end.
Ltac split_ifs := repeat match goal with |- context [if ?c then _ else _] => destruct c end.

Lemma consumeSegment_ackonly t fl d sq sl fh :
  ackonly t (fst (fst (consumeSegment t fl d sq sl fh))).
Proof.
  unfold consumeSegment, readyToRead. cbv zeta.
  destruct (0 <? sl); [destruct (negb (inWindow (rcvNxt (RC t)) sq sl)); [|destruct (lessThan sq (rcvNxt (RC t)))]
                      |destruct (negb (sq =? rcvNxt (RC t)))];
  destruct (has fl fFin); cbn [fst]; repeat ack_step.
Qed.

(* the local function popIt of drainPending, named *)
Definition popIt (f : nat) (s : pseg) (t : tcp) (data : list Z) : tcp :=
  match pop pless (pending (RC t)) with
  | Some (h', _) =>
      drainPending f (t <| RC := (RC t) <| pending := h' |>
                           <| pendUsed := u32 (pendUsed (RC t) - plogicalLen (p_flags s) data) |> |>)
  | None => t
  end.

Lemma drainPending_S f t :
  drainPending (S f) t =
  if rclosed (RC t) then t else
  match pending (RC t) with
  | [] => t
  | s :: _ =>
      if lessThan (add (p_seq s) (u32 (len (p_data s) - 1))) (rcvNxt (RC t)) then popIt f s t (p_data s)
      else
        let '(t1, ok, data') := consumeSegment t (p_flags s) (p_data s) (p_seq s) (len (p_data s)) true in
        if ok then popIt f s t1 data' else t
  end.
Proof. reflexivity. Qed.

Lemma drainPending_ackonly fuel : forall t, ackonly t (drainPending fuel t).
Proof.
  induction fuel as [|fuel IH]; intros t; [apply ackonly_refl|]. rewrite drainPending_S.
  destruct (rclosed (RC t)); [apply ackonly_refl|].
  destruct (pending (RC t)) as [|s rest] eqn:Ep; [apply ackonly_refl|].
  assert (Pop : forall t0 d, ackonly t0 (popIt fuel s t0 d)).
  { intros t0 d. unfold popIt. destruct (pop pless (pending (RC t0))) as [[h' x]|]; [|apply ackonly_refl].
    eapply ackonly_trans; [|apply IH]. apply (ackonly_upd (set RC _)); intros; reflexivity. }
  destruct (lessThan _ _); [apply Pop|].
  pose proof (consumeSegment_ackonly t (p_flags s) (p_data s) (p_seq s) (len (p_data s)) true) as Hc.
  destruct (consumeSegment t (p_flags s) (p_data s) (p_seq s) (len (p_data s)) true) as [[t1 ok] d'].
  cbn [fst] in Hc. destruct ok; [|apply ackonly_refl]. eapply ackonly_trans; [exact Hc|apply Pop].
Qed.

Lemma rcvHandle_ackonly t sg : ackonly t (rcvHandle t sg).
Proof.
  unfold rcvHandle. destruct (rclosed (RC t)); [apply ackonly_refl|].
  destruct (negb (acceptable _ _ _)); [apply sendAck_ackonly|].
  pose proof (consumeSegment_ackonly t (s_flags sg) (s_data sg) (s_seq sg) (len (s_data sg)) false) as Hc.
  destruct (consumeSegment t (s_flags sg) (s_data sg) (s_seq sg) (len (s_data sg)) false) as [[t1 ok] d'].
  cbn [fst] in Hc. destruct ok; cbn [negb].
  - eapply ackonly_trans; [exact Hc|apply drainPending_ackonly].
  - destruct (_ || _); [|apply ackonly_refl].
    destruct (pendUsed (RC t) <? pendSize (RC t)); repeat ack_step.
Qed.

Lemma nonZeroWindow_ackonly t : ackonly t (nonZeroWindow t).
Proof. unfold nonZeroWindow. destruct (negb _); [apply ackonly_refl|apply sendAck_ackonly]. Qed.

Lemma loopExit_out t : out (loopExit t) = out t.
Proof. unfold loopExit. split_ifs; reflexivity. Qed.
Lemma loopExit_SN t : SN (loopExit t) = SN t.
Proof. unfold loopExit. split_ifs; reflexivity. Qed.
Lemma loopExit_ackonly t : ackonly t (loopExit t).
Proof. apply ackonly_silent; [apply loopExit_out|apply loopExit_SN]. Qed.

(* ------------------------------------------------------------------ sender bookkeeping *)
(* the part of the sender record that congestion control never touches *)
Definition core_same (s s' : sndr) : Prop :=
  sndWnd s' = sndWnd s /\ sndUna s' = sndUna s /\ sndNxt s' = sndNxt s /\ sndNxtList s' = sndNxtList s /\
  sclosed s' = sclosed s /\ wsent s' = wsent s /\ wunsent s' = wunsent s /\
  maxPayload s' = maxPayload s /\ sndWndScale s' = sndWndScale s /\ maxSentAck s' = maxSentAck s.

Ltac core_tac := unfold core_same; cbn; repeat split; reflexivity.

Lemma core_same_refl s : core_same s s. Proof. core_tac. Qed.
Lemma core_same_trans a b c : core_same a b -> core_same b c -> core_same a c.
Proof. unfold core_same. intros A B. repeat split; destruct A as (?&?&?&?&?&?&?&?&?&?), B as (?&?&?&?&?&?&?&?&?&?); congruence. Qed.

Lemma renoCA_core s n : core_same s (renoCA s n).
Proof. unfold renoCA. destruct (cwnd s <=? _); core_tac. Qed.
Lemma renoUpdate_core s n : core_same s (renoUpdate s n).
Proof.
  unfold renoUpdate. destruct (cwnd s <? ssthresh s); [|apply renoCA_core].
  destruct (ssthresh s <=? cwnd s + n); cbv zeta beta iota.
  - destruct (_ =? 0); [core_tac|]. eapply core_same_trans; [|apply renoCA_core]. core_tac.
  - destruct (_ =? 0); [core_tac|]. eapply core_same_trans; [|apply renoCA_core]. core_tac.
Qed.
Lemma reduceSsthresh_core s : core_same s (reduceSsthresh s).
Proof. unfold reduceSsthresh. core_tac. Qed.
Lemma enterFR_core s : core_same s (enterFastRecovery s).
Proof. unfold enterFastRecovery. core_tac. Qed.
Lemma leaveFR_core s : core_same s (leaveFastRecovery s).
Proof. unfold leaveFastRecovery. core_tac. Qed.

Lemma checkDuplicateAck_core s ack ll wnd : core_same s (fst (checkDuplicateAck s ack ll wnd)).
Proof.
  unfold checkDuplicateAck.
  destruct (frActive s).
  - destruct (negb (inRange _ _ _)); [apply core_same_refl|].
    destruct (lessThan _ _); [apply leaveFR_core|].
    destruct (_ || _); [apply core_same_refl|].
    destruct (ack =? frFirst s); cbn [fst]; [destruct (cwnd s <? frMaxCwnd s); core_tac|core_tac].
  - destruct (_ || _); cbn [fst]; [core_tac|].
    cbv zeta. destruct (_ <? nDupAckThreshold); cbn [fst]; [core_tac|].
    destruct (negb (lessThan _ _)); cbn [fst]; [core_tac|].
    eapply core_same_trans; [|core_tac].
    eapply core_same_trans; [|apply enterFR_core].
    eapply core_same_trans; [|apply reduceSsthresh_core]. core_tac.
Qed.

(* a fast retransmission is triggered only by a pure ACK that repeats the window in force *)
Lemma checkDuplicateAck_rtx s ack ll wnd :
  snd (checkDuplicateAck s ack ll wnd) = true -> ll = 0 /\ sndWnd s = wnd.
Proof.
  unfold checkDuplicateAck.
  destruct (frActive s).
  - destruct (negb (inRange _ _ _)); [discriminate|].
    destruct (lessThan _ _); [discriminate|].
    destruct (negb (ll =? 0) || negb (sndWnd s =? wnd)) eqn:E; [discriminate|].
    intros _. lia.
  - destruct (negb (ack =? sndUna s) || negb (ll =? 0) || negb (sndWnd s =? wnd) || (ack =? sndNxt s)) eqn:E;
      [discriminate|]. intros _. lia.
Qed.

(* ------------------------------------------------------------------ sendData / sndHandle *)
Definition frame_ok (t : tcp) (f : frame) : Prop :=
  okf (add (sndUna (SN t)) (sndWnd (SN t))) (maxPayload (SN t)) f.

Lemma frame_ok_same t t' f : snd_same t t' -> frame_ok t f -> frame_ok t' f.
Proof. unfold snd_same, frame_ok. intros (A&B&C&D) H. rewrite A, B, C. exact H. Qed.

Lemma nodata_frame_ok t f : nodata f -> frame_ok t f.
Proof. intros H. left. exact H. Qed.

Lemma ackonly_snd_same t t' : ackonly t t' -> snd_same t t'.
Proof. intros (_ & m & H). unfold snd_same. rewrite H. cbn. repeat split. Qed.

Lemma sendData_spec t idle : 0 <= maxPayload (SN t) ->
  emits (frame_ok t) t (sendData t idle) /\ snd_same t (sendData t idle).
Proof.
  intros Hm. unfold sendData. cbv zeta.
  set (s1 := if _ : bool then _ else SN t).
  assert (Hs1 : sndUna s1 = sndUna (SN t) /\ sndWnd s1 = sndWnd (SN t) /\ maxPayload s1 = maxPayload (SN t)
                /\ sndWndScale s1 = sndWndScale (SN t)).
  { subst s1. destruct (_ && _); cbn; repeat split. }
  destruct Hs1 as (U & W & M & Sc).
  set (t1 := t <| SN := s1 |>).
  destruct (sendLoop_spec (S (wbytes (wunsent s1))) t1 (add (sndUna s1) (sndWnd s1)) (maxPayload s1))
    as (l & Ho & Hf & Hs); [lia|].
  set (t2 := sendLoop _ t1 _ _) in *.
  assert (E : emits (frame_ok t) t t2).
  { exists l. split; [exact Ho|]. unfold frame_ok. rewrite <- U, <- W, <- M. exact Hf. }
  assert (S2 : snd_same t t2).
  { eapply snd_same_trans; [|exact Hs]. unfold snd_same, t1. cbn. repeat split; assumption. }
  destruct (negb (tstate (SN t2) =? tEnabled) && _).
  - split.
    + destruct E as (l' & E1 & E2). exists l'. split; [cbn; exact E1|exact E2].
    + eapply snd_same_trans; [exact S2|]. unfold snd_same. cbn. repeat split.
  - split; assumption.
Qed.

Lemma resendSegment_spec t : emits (fun _ => True) t (resendSegment t) /\ snd_same t (resendSegment t)
  /\ (exists l, out (resendSegment t) = out t ++ l /\ (length l <= 1)%nat).
Proof.
  unfold resendSegment. cbv zeta.
  destruct (wsent _ ++ wunsent _) as [|w r].
  - split; [apply emits_same_out; reflexivity|]. split; [unfold snd_same; cbn; repeat split|].
    exists []. rewrite app_nil_r. split; [reflexivity|cbn; lia].
  - rewrite sendSegment_eq. split; [|split].
    + eexists. cbn. split; [reflexivity|]. constructor; [exact I|constructor].
    + unfold snd_same. cbn. repeat split.
    + eexists. cbn. split; [reflexivity|cbn; lia].
Qed.

(* sndHandle in named pieces *)
Definition clampRto (newRto : Z) : Z := if newRto <? minRTO then minRTO else newRto.

Definition rttStart (t : tcp) (ack newRto : Z) : sndr :=
  let s0 := SN t in
  if negb (tsOk t) && lessThan (rttSeq s0) ack
  then s0 <| rto := clampRto newRto |> <| rttSeq := sndNxt s0 |> else s0.

(* the "if ack-1 in [sndUna, sndNxt)" block: acknowledged data leaves the write list *)
Definition ackProcess (t3 : tcp) (ack : Z) (tsecr : bool) (crto : Z) : tcp :=
  let s3 := SN t3 in
  if inRange (u32 (ack - 1)) (sndUna s3) (sndNxt s3) then
    let s4 := s3 <| dupAck := 0 |> <| tstate := if tstate s3 =? tDisabled then tDisabled else tOrphaned |> in
    let s5 := if tsOk t3 && tsecr then s4 <| rto := crto |> else s4 in
    let acked := size (sndUna s5) ack in
    let '(sent', unsent', removed) :=
      ackLoop (S (length (wsent s5) + length (wunsent s5))) (wsent s5) (wunsent s5) acked 0 in
    let s6 := s5 <| sndUna := ack |> <| wsent := sent' |> <| wunsent := unsent' |>
                 <| outstanding := outstanding s5 - removed |> in
    let s7 := if frActive s6 then s6 else renoUpdate s6 removed in
    let s8 := if outstanding s7 <? 0 then s7 <| outstanding := 0 |> else s7 in
    t3 <| SN := s8 |> <| sndBufUsed := sndBufUsed t3 - acked |>
  else t3.

Lemma sndHandle_eq t sg wnd newRto idle :
  sndHandle t sg wnd newRto idle =
  let '(s2, rtx) := checkDuplicateAck (rttStart t (s_ack sg) newRto) (s_ack sg)
                                      (plogicalLen (s_flags sg) (s_data sg)) wnd in
  let t4 := ackProcess (t <| SN := s2 <| sndWnd := wnd |> |>) (s_ack sg) (s_tsecr sg) (clampRto newRto) in
  sendData (if rtx then resendSegment t4 else t4) idle.
Proof. reflexivity. Qed.

Lemma rttStart_core t ack r : core_same (SN t) (rttStart t ack r).
Proof. unfold rttStart. cbv zeta. destruct (_ && _); core_tac. Qed.

Lemma ackProcess_facts t3 ack tsecr crto :
  out (ackProcess t3 ack tsecr crto) = out t3 /\
  maxPayload (SN (ackProcess t3 ack tsecr crto)) = maxPayload (SN t3) /\
  sndWndScale (SN (ackProcess t3 ack tsecr crto)) = sndWndScale (SN t3) /\
  sndWnd (SN (ackProcess t3 ack tsecr crto)) = sndWnd (SN t3).
Proof.
  unfold ackProcess. cbv zeta.
  destruct (inRange _ _ _); [|repeat split].
  set (s5 := if _ : bool then _ else _).
  assert (H5 : maxPayload s5 = maxPayload (SN t3) /\ sndWndScale s5 = sndWndScale (SN t3) /\ sndWnd s5 = sndWnd (SN t3)).
  { subst s5. destruct (_ && _); cbn; repeat split. }
  destruct (ackLoop _ _ _ _ _) as [[sent' unsent'] removed].
  set (s6 := s5 <| sndUna := ack |> <| wsent := sent' |> <| wunsent := unsent' |> <| outstanding := _ |>).
  assert (H6 : maxPayload s6 = maxPayload s5 /\ sndWndScale s6 = sndWndScale s5 /\ sndWnd s6 = sndWnd s5)
    by (subst s6; cbn; repeat split).
  set (s7 := if frActive s6 then s6 else _).
  assert (H7 : maxPayload s7 = maxPayload s6 /\ sndWndScale s7 = sndWndScale s6 /\ sndWnd s7 = sndWnd s6).
  { subst s7. destruct (frActive s6); [repeat split|].
    destruct (renoUpdate_core s6 removed) as (?&?&?&?&?&?&?&?&?&?). repeat split; assumption. }
  destruct (outstanding s7 <? 0); cbn; (split; [reflexivity|]); lia.
Qed.

Lemma sndHandle_spec t sg wnd newRto idle : 0 <= maxPayload (SN t) ->
  let t' := sndHandle t sg wnd newRto idle in
  emits (fun f => frame_ok t' f \/ (plogicalLen (s_flags sg) (s_data sg) = 0 /\ sndWnd (SN t) = wnd)) t t' /\
  maxPayload (SN t') = maxPayload (SN t) /\ sndWndScale (SN t') = sndWndScale (SN t) /\ sndWnd (SN t') = wnd.
Proof.
  intros Hm. rewrite sndHandle_eq. cbv zeta.
  pose proof (checkDuplicateAck_core (rttStart t (s_ack sg) newRto) (s_ack sg)
                (plogicalLen (s_flags sg) (s_data sg)) wnd) as Hc.
  pose proof (checkDuplicateAck_rtx (rttStart t (s_ack sg) newRto) (s_ack sg)
                (plogicalLen (s_flags sg) (s_data sg)) wnd) as Hr.
  destruct (checkDuplicateAck _ _ _ _) as [s2 rtx]. cbn [fst snd] in Hc, Hr.
  pose proof (rttStart_core t (s_ack sg) newRto) as H1.
  pose proof (core_same_trans _ _ _ H1 Hc) as H2. clear Hc.
  destruct H2 as (_&_&_&_&_&_&_&Mp&Sc&_).
  destruct H1 as (W1&_).
  set (t3 := t <| SN := s2 <| sndWnd := wnd |> |>).
  destruct (ackProcess_facts t3 (s_ack sg) (s_tsecr sg) (clampRto newRto)) as (O4 & M4 & S4 & W4).
  set (t4 := ackProcess t3 _ _ _) in *.
  assert (M4' : maxPayload (SN t4) = maxPayload (SN t)) by (rewrite M4; subst t3; cbn; exact Mp).
  assert (S4' : sndWndScale (SN t4) = sndWndScale (SN t)) by (rewrite S4; subst t3; cbn; exact Sc).
  assert (W4' : sndWnd (SN t4) = wnd) by (rewrite W4; subst t3; cbn; reflexivity).
  assert (O4' : out t4 = out t) by (rewrite O4; subst t3; cbn; reflexivity).
  destruct rtx.
  - destruct (resendSegment_spec t4) as (E5 & S5 & _).
    set (t5 := resendSegment t4) in *.
    destruct S5 as (U5 & W5 & M5 & Sc5).
    destruct (sendData_spec t5 idle) as (E6 & S6); [lia|].
    set (t6 := sendData t5 idle) in *.
    destruct S6 as (U6 & W6 & M6 & Sc6).
    split; [|repeat split; congruence].
    destruct (Hr eq_refl) as (L0 & Wd).
    destruct E5 as (l5 & O5 & _). destruct E6 as (l6 & O6 & F6).
    exists (l5 ++ l6). split; [rewrite O6, O5, O4', app_assoc; reflexivity|].
    apply Forall_app. split.
    + apply Forall_forall. intros f _. right. split; [exact L0|]. rewrite <- W1. exact Wd.
    + eapply Forall_impl; [|exact F6]. intros f Hf. left.
      apply (frame_ok_same t5 t6); [repeat split; assumption|exact Hf].
  - destruct (sendData_spec t4 idle) as (E6 & S6); [lia|].
    set (t6 := sendData t4 idle) in *.
    split; [|destruct S6 as (U6 & W6 & M6 & Sc6); repeat split; congruence].
    destruct E6 as (l6 & O6 & F6). exists l6. split; [rewrite O6, O4'; reflexivity|].
    eapply Forall_impl; [|exact F6]. intros f Hf. left. apply (frame_ok_same t4 t6); assumption.
Qed.

(* ------------------------------------------------------------------ one event *)
Definition cfg_same (t t' : tcp) : Prop :=
  maxPayload (SN t') = maxPayload (SN t) /\ sndWndScale (SN t') = sndWndScale (SN t).

Lemma snd_same_cfg t t' : snd_same t t' -> cfg_same t t'.
Proof. intros (_&_&A&B). split; assumption. Qed.

Lemma emits_then_ackonly (P : Prop) t t1 t' :
  emits (fun f => frame_ok t1 f \/ P) t t1 -> ackonly t1 t' -> emits (fun f => frame_ok t' f \/ P) t t'.
Proof.
  intros E A. pose proof (ackonly_snd_same _ _ A) as S. destruct A as (A & _).
  eapply emits_trans.
  - eapply emits_weaken; [|exact E]. intros f [H|H]; [left; eapply frame_ok_same; eassumption|right; exact H].
  - eapply emits_weaken; [|exact A]. intros f H. left. apply nodata_frame_ok. exact H.
Qed.

Lemma ackonly_emits_ok (P : Prop) t t' : ackonly t t' -> emits (fun f => frame_ok t' f \/ P) t t'.
Proof. intros A. eapply emits_then_ackonly; [apply emits_refl|exact A]. Qed.

Lemma resetConnection_ackonly t : ackonly t (resetConnection t).
Proof.
  unfold resetConnection. split.
  - eexists. cbn. split; [reflexivity|]. constructor; [reflexivity|constructor].
  - apply sn_eq_same. reflexivity.
Qed.

Definition pure_same_window (t : tcp) (sg : seg) : Prop :=
  plogicalLen (s_flags sg) (s_data sg) = 0 /\
  u32 (Z.shiftl (s_wnd sg) (sndWndScale (SN t))) = sndWnd (SN t).

Lemma abortOnReset_ackonly t : ackonly t (abortOnReset t).
Proof. apply ackonly_silent; reflexivity. Qed.

Lemma handleSegment_spec t sg r idle : 0 <= maxPayload (SN t) ->
  let t' := handleSegment t sg r idle in
  emits (fun f => frame_ok t' f \/ pure_same_window t sg) t t' /\ cfg_same t t'.
Proof.
  intros Hm. unfold handleSegment.
  destruct (negb (estate t =? stConnected)).
  { split; [apply emits_refl|split; reflexivity]. }
  destruct (has (s_flags sg) fRst).
  { destruct (acceptable _ _ _).
    - pose proof (abortOnReset_ackonly t) as A. split; [apply ackonly_emits_ok; exact A|].
      apply snd_same_cfg, ackonly_snd_same, A.
    - assert (A : ackonly t (loopExit (if negb (rcvNxt (RC t) =? maxSentAck (SN t)) then sendAck t else t))).
      { eapply ackonly_trans; [|apply loopExit_ackonly].
        destruct (negb (rcvNxt (RC t) =? maxSentAck (SN t))); [apply sendAck_ackonly|apply ackonly_refl]. }
      split; [apply ackonly_emits_ok; exact A|apply snd_same_cfg, ackonly_snd_same, A]. }
  cbv zeta.
  set (t1 := if has (s_flags sg) fAck then _ else t).
  assert (H1 : emits (fun f => frame_ok t1 f \/ pure_same_window t sg) t t1 /\ cfg_same t t1).
  { subst t1. destruct (has (s_flags sg) fAck); [|split; [apply emits_refl|split; reflexivity]].
    destruct (tsOk t && negb (s_ts sg)); [split; [apply emits_refl|split; reflexivity]|].
    pose proof (rcvHandle_ackonly t sg) as A. pose proof (ackonly_snd_same _ _ A) as (U&W&M&Sc).
    set (tr := rcvHandle t sg) in *.
    destruct (sndHandle_spec tr sg (u32 (Z.shiftl (s_wnd sg) (sndWndScale (SN t)))) r idle) as (E & M2 & S2 & W2); [lia|].
    split; [|split; congruence].
    eapply emits_trans.
    - eapply emits_weaken; [|exact (proj1 A)]. intros f Hf. left. apply nodata_frame_ok. exact Hf.
    - eapply emits_weaken; [|exact E]. intros f [Hf|(L0 & Wd)]; [left; exact Hf|right].
      split; [exact L0|]. rewrite <- W. symmetry. exact Wd. }
  destruct H1 as (E1 & C1).
  assert (A : ackonly t1 (loopExit (if negb (rcvNxt (RC t1) =? maxSentAck (SN t1)) then sendAck t1 else t1))).
  { eapply ackonly_trans; [|apply loopExit_ackonly].
    destruct (negb (rcvNxt (RC t1) =? maxSentAck (SN t1))); [apply sendAck_ackonly|apply ackonly_refl]. }
  split; [eapply emits_then_ackonly; eassumption|].
  destruct (snd_same_cfg _ _ (ackonly_snd_same _ _ A)) as (X & Y). destruct C1 as (X1 & Y1).
  split; congruence.
Qed.

Lemma appWrite_spec t d idle : 0 <= maxPayload (SN t) ->
  let t' := fst (appWrite t d idle) in emits (frame_ok t') t t' /\ cfg_same t t'.
Proof.
  intros Hm. unfold appWrite.
  destruct (estate t =? stError); [split; [apply emits_refl|split; reflexivity]|].
  destruct (negb (estate t =? stConnected)); [split; [apply emits_refl|split; reflexivity]|].
  destruct (len d =? 0); [split; [apply emits_refl|split; reflexivity]|].
  destruct (sndClosedE t); [split; [apply emits_refl|split; reflexivity]|].
  cbv zeta. destruct (_ <=? 0); [split; [apply emits_refl|split; reflexivity]|].
  cbn [fst].
  match goal with |- context [sendData ?T idle] => set (t1 := T) end.
  destruct (sendData_spec t1 idle) as (E & S); [subst t1; cbn; exact Hm|].
  split.
  - destruct E as (l & O & F). exists l. split; [rewrite O; subst t1; cbn; reflexivity|].
    eapply Forall_impl; [|exact F]. intros f Hf. eapply frame_ok_same; eassumption.
  - destruct S as (_&_&M&Sc). split; [rewrite M|rewrite Sc]; subst t1; cbn; reflexivity.
Qed.

Lemma appShutdownWrite_spec t idle : 0 <= maxPayload (SN t) ->
  let t' := fst (appShutdownWrite t idle) in emits (frame_ok t') t t' /\ cfg_same t t'.
Proof.
  intros Hm. unfold appShutdownWrite.
  destruct (negb (estate t =? stConnected)); [split; [apply emits_refl|split; reflexivity]|].
  destruct (sndClosedE t); [split; [apply emits_refl|split; reflexivity]|].
  cbv zeta. cbn [fst].
  match goal with |- context [sendData ?T idle] => set (t1 := T) end.
  destruct (sendData_spec t1 idle) as (E & S); [subst t1; cbn; exact Hm|].
  set (t2 := sendData t1 idle) in *.
  assert (S' : snd_same t2 (loopExit (t2 <| SN := (SN t2) <| sclosed := true |> |>))).
  { unfold snd_same. rewrite loopExit_SN. cbn. repeat split. }
  split.
  - destruct E as (l & O & F). exists l. split; [rewrite loopExit_out; cbn; rewrite O; subst t1; cbn; reflexivity|].
    eapply Forall_impl; [|exact F]. intros f Hf. eapply frame_ok_same; [exact S'|]. eapply frame_ok_same; eassumption.
  - destruct S as (_&_&M&Sc). destruct S' as (_&_&M'&Sc').
    split; [rewrite M', M|rewrite Sc', Sc]; subst t1; cbn; reflexivity.
Qed.

Lemma rtoExpired_spec t idle : 0 <= maxPayload (SN t) ->
  let t' := fst (rtoExpired t idle) in emits (frame_ok t') t t' /\ cfg_same t t'.
Proof.
  intros Hm. unfold rtoExpired. cbv zeta.
  destruct (tstate (SN t) =? tOrphaned); [split; [apply emits_same_out; reflexivity|split; reflexivity]|].
  destruct (negb (tstate (SN t) =? tEnabled)); [split; [apply emits_refl|split; reflexivity]|].
  destruct (maxRTO <=? _); [split; [apply emits_same_out; reflexivity|split; reflexivity]|].
  cbn [fst].
  match goal with |- context [sendData ?T idle] => set (t1 := T) end.
  assert (S1 : snd_same t t1).
  { subst t1. unfold snd_same, reduceSsthresh. destruct (frActive _); cbn; repeat split. }
  destruct (sendData_spec t1 idle) as (E & S); [destruct S1 as (_&_&M&_); rewrite M; exact Hm|].
  split.
  - destruct E as (l & O & F). exists l. split; [rewrite O; subst t1; cbn; reflexivity|].
    eapply Forall_impl; [|exact F]. intros f Hf. eapply frame_ok_same; eassumption.
  - apply snd_same_cfg. eapply snd_same_trans; eassumption.
Qed.

Lemma appRead_ackonly t : ackonly t (fst (fst (appRead t))).
Proof.
  unfold appRead.
  destruct (_ && _ && _); [apply ackonly_refl|].
  destruct (rcvBufUsed t =? 0); [apply ackonly_refl|].
  destruct (rcvList t) as [|v rest]; [apply ackonly_refl|].
  cbv zeta. cbn [fst].
  match goal with |- context [nonZeroWindow ?T] => set (t1 := T) end.
  assert (A1 : ackonly t t1) by (subst t1; repeat ack_step).
  destruct (_ && _ && _); [|exact A1].
  eapply ackonly_trans; [exact A1|]. eapply ackonly_trans; [apply nonZeroWindow_ackonly|apply loopExit_ackonly].
Qed.

Definition fast_rexmit_event (t : tcp) (e : event) : Prop :=
  exists sg r, e = ESeg sg r /\ pure_same_window t sg.

Lemma step_frames t e : 0 <= maxPayload (SN t) ->
  let t' := fst (step t e) in
  Forall (fun f => frame_ok t' f \/ fast_rexmit_event t e) (out t') /\ cfg_same t t'.
Proof.
  intros Hm. unfold step. set (t0 := t <| out := [] |>).
  assert (Hm0 : 0 <= maxPayload (SN t0)) by exact Hm.
  assert (Fin : forall t', emits (fun f => frame_ok t' f \/ fast_rexmit_event t e) t0 t' -> cfg_same t0 t' ->
                Forall (fun f => frame_ok t' f \/ fast_rexmit_event t e) (out t') /\ cfg_same t t').
  { intros t' (l & O & F) C. split; [rewrite O; exact F|exact C]. }
  destruct e as [sg r|d| | |]; cbn [fst].
  - destruct (handleSegment_spec t0 sg r false Hm0) as (E & C). apply Fin; [|exact C].
    eapply emits_weaken; [|exact E]. intros f [H|H]; [left; exact H|right; exists sg, r; split; [reflexivity|exact H]].
  - destruct (appWrite_spec t0 d false Hm0) as (E & C).
    destruct (appWrite t0 d false) as [t1 n]. cbn [fst] in *. apply Fin; [|exact C].
    eapply emits_weaken; [|exact E]. intros f H; left; exact H.
  - pose proof (appRead_ackonly t0) as A. destruct (appRead t0) as [[t1 v] err]. cbn [fst] in *.
    apply Fin; [apply ackonly_emits_ok; exact A|apply snd_same_cfg, ackonly_snd_same, A].
  - destruct (appShutdownWrite_spec t0 false Hm0) as (E & C).
    destruct (appShutdownWrite t0 false) as [t1 n]. cbn [fst] in *. apply Fin; [|exact C].
    eapply emits_weaken; [|exact E]. intros f H; left; exact H.
  - destruct (negb (estate t0 =? stConnected)); cbn [fst]; [apply Fin; [apply emits_refl|split; reflexivity]|].
    destruct (rtoExpired_spec t0 false Hm0) as (E & C).
    destruct (rtoExpired t0 false) as [t1 alive]. cbn [fst] in *.
    assert (A : ackonly t1 (if alive then loopExit t1 else resetConnection t1))
      by (destruct alive; [apply loopExit_ackonly|apply resetConnection_ackonly]).
    apply Fin.
    + eapply emits_then_ackonly; [|exact A]. eapply emits_weaken; [|exact E]. intros f H; left; exact H.
    + destruct (snd_same_cfg _ _ (ackonly_snd_same _ _ A)) as (X&Y). destruct C as (X1&Y1). split; congruence.
Qed.
