(* Lemmas about Model/Echo.v (ICMP echo responders of ipv4/icmp.go and ipv6/icmp.go). *)
From Coq Require Import ZArith List Bool Lia ZifyBool.
From NP Require Import Model.Bytes Model.Checksum Model.HdrIP Model.Echo Proofs.BytesP Proofs.ChecksumP.
Import ListNotations.
Open Scope Z_scope.

(* ------------------------------------------------------------------ what is used from Proofs/ChecksumP.v
   (restated so that a change in the shared library shows up here, in one place) *)
Lemma dep_checksum_closed buf init :
  bytes_ok buf -> is_u16 init -> Z.of_nat (length buf) <= 131072 ->
  checksum buf init = oc_norm (init + zsum (be_words buf)).
Proof. exact (checksum_closed buf init). Qed.
Lemma dep_checksum_rfc1071 buf init :
  bytes_ok buf -> is_u16 init -> Z.of_nat (length buf) <= 131072 ->
  checksum buf init = rfc1071_sum buf init.
Proof. exact (checksum_rfc1071 buf init). Qed.
Lemma dep_checksum_u16 buf init :
  bytes_ok buf -> is_u16 init -> Z.of_nat (length buf) <= 131072 -> is_u16 (checksum buf init).
Proof. exact (checksum_u16 buf init). Qed.
Lemma dep_oc_norm_add x y : 0 <= x -> 0 <= y -> oc_norm (oc_norm x + y) = oc_norm (x + y).
Proof. exact (oc_norm_add x y). Qed.
Lemma dep_oc_norm_complement x : 0 <= x -> oc_norm (x + lnot16 (oc_norm x)) = 65535.
Proof. exact (oc_norm_complement x). Qed.
Lemma dep_oc_norm_u16 x : 0 <= x -> is_u16 (oc_norm x).
Proof. exact (oc_norm_u16 x). Qed.
Lemma dep_be_words_app_even a b :
  Nat.even (length a) = true -> be_words (a ++ b) = be_words a ++ be_words b.
Proof. exact (be_words_app_even a b). Qed.
Lemma dep_zsum_app a b : zsum (a ++ b) = zsum a + zsum b.
Proof. exact (zsum_app a b). Qed.
Lemma dep_zsum_words_nonneg l : bytes_ok l -> 0 <= zsum (be_words l).
Proof. intros H. pose proof (zsum_bound _ (be_words_u16 l H)). lia. Qed.
Lemma dep_lnot16_bytes c : is_u16 c ->
  is_byte (lnot16 c / 256) /\ is_byte (lnot16 c mod 256) /\
  lnot16 c / 256 * 256 + lnot16 c mod 256 = lnot16 c.
Proof. exact (lnot16_bytes c). Qed.

Ltac consts :=
  change (2^32) with 4294967296 in *; change (2^16) with 65536 in *; change (2^8) with 256 in *.

Ltac bok :=
  repeat match goal with
         | |- bytes_ok _ => unfold bytes_ok
         | |- Forall _ (_ :: _) => constructor
         | |- Forall _ [] => constructor
         | |- Forall _ (_ ++ _) => apply Forall_app; split
         end; try assumption; try (unfold is_byte in *; lia).

Lemma u16_0 : is_u16 0.
Proof. unfold is_u16. lia. Qed.

(* the words of a buffer, summed as integers *)
Definition wz (l : list Z) : Z := zsum (be_words l).
Lemma wz_app_even a b : Nat.even (length a) = true -> wz (a ++ b) = wz a + wz b.
Proof. intros He. unfold wz. rewrite dep_be_words_app_even, dep_zsum_app by exact He. reflexivity. Qed.
Lemma wz_nonneg l : bytes_ok l -> 0 <= wz l.
Proof. apply dep_zsum_words_nonneg. Qed.

(* ------------------------------------------------------------------ VectorisedView *)
Lemma trimFront_concat views : forall n, concat (vv_trimFront views n) = skipn n (concat views).
Proof.
  induction views as [|v rest IH]; intros n; cbn [vv_trimFront concat].
  - symmetry. apply skipn_nil.
  - destruct (Nat.eqb_spec n 0) as [->|Hn]; [reflexivity|].
    rewrite skipn_app.
    destruct (Nat.ltb_spec n (length v)) as [Hlt|Hge].
    + cbn [concat]. replace (n - length v)%nat with 0%nat by lia. reflexivity.
    + rewrite IH. rewrite (skipn_all2 v) by lia. reflexivity.
Qed.

Lemma trimFront_ok views : forall n, Forall bytes_ok views -> Forall bytes_ok (vv_trimFront views n).
Proof.
  induction views as [|v rest IH]; intros n H; cbn [vv_trimFront]; [constructor|].
  inversion H as [|? ? Hv Hrest]; subst.
  destruct (n =? 0)%nat; [exact H|].
  destruct (n <? length v)%nat.
  - constructor; [apply Forall_skipn, Hv|exact Hrest].
  - apply IH, Hrest.
Qed.

Lemma concat_ok views : Forall bytes_ok views -> bytes_ok (concat views).
Proof. intros H. apply Forall_concat. exact H. Qed.

Lemma first_le_concat views : (length (vv_first views) <= length (concat views))%nat.
Proof. destruct views as [|v rest]; cbn [vv_first concat length]; [lia|]. rewrite app_length. lia. Qed.

Lemma first_prefix views : exists t, concat views = vv_first views ++ t.
Proof. destruct views as [|v rest]; [exists []; reflexivity|exists (concat rest); reflexivity]. Qed.

Lemma nth_first views i : (i < length (vv_first views))%nat ->
  nth i (concat views) 0 = nth i (vv_first views) 0.
Proof. intros H. destruct (first_prefix views) as [t ->]. apply app_nth1, H. Qed.

(* ------------------------------------------------------------------ handleICMP (ipv4) *)
Lemma get8_0 v : (1 <= length v)%nat -> get8 v 0 = Some (nth 0 v 0).
Proof. destruct v as [|x t]; cbn [length]; [lia|reflexivity]. Qed.

Lemma handleICMP4_no_panic views : handleICMP4 views <> None.
Proof.
  unfold handleICMP4. cbv zeta.
  destruct (Nat.ltb_spec (length (vv_first views)) 4) as [H|H]; [discriminate|].
  rewrite get8_0 by lia. cbn [obind].
  repeat match goal with |- context [if ?c then _ else _] => destruct c end; discriminate.
Qed.

Lemma handleICMP4_echo views :
  (6 <= length (vv_first views))%nat -> nth 0 (vv_first views) 0 = 8 ->
  handleICMP4 views = Some (A4Echo (skipn 4 (concat views))).
Proof.
  intros Hl Ht. unfold handleICMP4, vv_toView. cbv zeta.
  destruct (Nat.ltb_spec (length (vv_first views)) 4) as [H|H]; [lia|].
  rewrite get8_0 by lia. cbn [obind]. rewrite Ht. cbn [Z.eqb Pos.eqb].
  destruct (Nat.ltb_spec (length (vv_first views)) 6) as [H'|H']; [lia|].
  rewrite trimFront_concat. reflexivity.
Qed.

Lemma handleICMP4_echo_inv views data :
  handleICMP4 views = Some (A4Echo data) ->
  (6 <= length (vv_first views))%nat /\ nth 0 (vv_first views) 0 = 8 /\ data = skipn 4 (concat views).
Proof.
  unfold handleICMP4, vv_toView. cbv zeta. intros H.
  destruct (Nat.ltb_spec (length (vv_first views)) 4) as [H4|H4]; [discriminate H|].
  rewrite get8_0 in H by lia. cbn [obind] in H.
  destruct (Z.eqb_spec (nth 0 (vv_first views) 0) 8) as [E8|N8].
  - destruct (Nat.ltb_spec (length (vv_first views)) 6) as [H6|H6]; [discriminate H|].
    injection H as <-. rewrite trimFront_concat. repeat split; [exact H6|exact E8].
  - repeat match type of H with context [if ?c then _ else _] => destruct c end; discriminate H.
Qed.

(* anything whose first view is shorter than 6 bytes, or whose type is not 8, never reaches the queue *)
Lemma handleICMP4_not_echo views :
  (length (vv_first views) < 6)%nat \/ nth 0 (vv_first views) 0 <> 8 ->
  forall data, handleICMP4 views <> Some (A4Echo data).
Proof.
  intros H data E. apply handleICMP4_echo_inv in E. destruct E as (A & B & _). lia.
Qed.

(* ------------------------------------------------------------------ sendPing4 *)
Lemma sendPing4_eq code d0 d1 rest :
  sendPing4 code (d0 :: d1 :: rest) =
  Some ([0; w8 code;
         w8 (lnot16 (checksum [0; w8 code; 0; 0; d0; d1] (checksum rest 0)) / 2^8);
         w8 (lnot16 (checksum [0; w8 code; 0; 0; d0; d1] (checksum rest 0)));
         d0; d1], rest).
Proof. reflexivity. Qed.

Lemma sendPing4_short code data : (length data < 2)%nat -> sendPing4 code data = None.
Proof. destruct data as [|a [|b t]]; cbn [length]; intros H; try lia; reflexivity. Qed.

Lemma skipn_ge2 (data : list Z) : (2 <= length data)%nat ->
  exists d0 d1 rest, data = d0 :: d1 :: rest.
Proof. destruct data as [|a [|b t]]; cbn [length]; intros H; try lia. eauto. Qed.

(* the reply message of sendPing4: type 0, the given code, everything behind the checksum field
   copied from the request, and a checksum that verifies (RFC 1071 sum of the message = 0xffff),
   for odd and even lengths alike *)
Lemma sendPing4_spec code data h p :
  bytes_ok data -> is_byte code -> Z.of_nat (length data) <= 65535 ->
  sendPing4 code data = Some (h, p) ->
  length h = 6%nat /\ length (h ++ p) = (4 + length data)%nat /\
  nth 0 (h ++ p) 0 = 0 /\ nth 1 (h ++ p) 0 = code /\ skipn 4 (h ++ p) = data /\
  p = skipn 2 data /\ bytes_ok (h ++ p) /\ rfc1071_sum (h ++ p) 0 = 65535.
Proof.
  intros Hd Hc Hl H.
  destruct (Nat.lt_ge_cases (length data) 2) as [Hs|Hs]; [rewrite sendPing4_short in H by exact Hs; discriminate H|].
  destruct (skipn_ge2 data Hs) as (d0 & d1 & rest & ->).
  rewrite sendPing4_eq in H. injection H as <- <-.
  inversion Hd as [|? ? Hd0 Hd']; subst. inversion Hd' as [|? ? Hd1 Hrest]; subst.
  cbn [length] in Hl.
  assert (Ec : w8 code = code) by (unfold w8, is_byte in *; consts; Z.div_mod_to_equations; lia).
  rewrite Ec.
  set (b0 := [0; code; 0; 0; d0; d1]).
  set (c := checksum b0 (checksum rest 0)).
  assert (Hb0 : bytes_ok b0) by (subst b0; bok).
  assert (Hpost : bytes_ok (d0 :: d1 :: rest)) by bok.
  assert (Hpre : bytes_ok [0; code]) by bok.
  assert (Hr16 : is_u16 (checksum rest 0)) by (apply dep_checksum_u16; [exact Hrest|exact u16_0|lia]).
  (* the two-step sum of the code = the sum over the message with a zero checksum field *)
  assert (Ecc : c = checksum ([0; code] ++ [0; 0] ++ d0 :: d1 :: rest) 0).
  { subst c. rewrite (dep_checksum_closed rest 0) by (try assumption; try exact u16_0; lia).
    rewrite (dep_checksum_closed b0);
      [|exact Hb0|apply dep_oc_norm_u16; pose proof (wz_nonneg rest Hrest); unfold wz in *; lia|subst b0; cbn [length]; lia].
    rewrite dep_checksum_closed;
      [|cbn [app]; bok|exact u16_0|cbn [app length]; lia].
    change ([0; code] ++ [0; 0] ++ d0 :: d1 :: rest) with (b0 ++ rest).
    rewrite dep_be_words_app_even by reflexivity. rewrite dep_zsum_app.
    pose proof (wz_nonneg rest Hrest) as Hn1. pose proof (wz_nonneg b0 Hb0) as Hn2. unfold wz in *.
    rewrite Z.add_0_l. rewrite dep_oc_norm_add by lia. f_equal. lia. }
  assert (Hc16 : is_u16 c).
  { subst c. apply dep_checksum_u16; [exact Hb0|exact Hr16|cbn [length b0]; lia]. }
  destruct (dep_lnot16_bytes c Hc16) as (B1 & B2 & B3).
  change (Z.pow_pos 2 8) with 256.
  assert (E1 : w8 (lnot16 c / 256) = lnot16 c / 256)
    by (unfold w8, is_byte in *; consts; Z.div_mod_to_equations; lia).
  assert (E2 : w8 (lnot16 c) = lnot16 c mod 256) by (unfold w8; consts; reflexivity).
  rewrite E1, E2.
  cbn [app length nth skipn].
  repeat split; try reflexivity.
  - bok.
  - change ([0; code; lnot16 c / 256; lnot16 c mod 256; d0; d1] ++ rest)
      with ([0; code] ++ [lnot16 c / 256; lnot16 c mod 256] ++ d0 :: d1 :: rest).
    rewrite <- dep_checksum_rfc1071;
      [|cbn [app]; bok|exact u16_0|cbn [app length]; lia].
    rewrite Ecc.
    apply (checksum_verifies_split [0; code] (d0 :: d1 :: rest) 0 Hpre Hpost u16_0); [reflexivity|].
    cbn [length]. lia.
Qed.

(* ------------------------------------------------------------------ the bounded queue *)
Lemma subseq_refl {A} (l : list A) : subseq l l.
Proof. induction l as [|x l IH]; [constructor|apply ss_take, IH]. Qed.

Lemma subseq_app_skip {A} (a l l' : list A) : subseq a l -> subseq a (l ++ l').
Proof.
  induction 1 as [|x a l _ IH|x a l _ IH]; cbn [app].
  - induction l' as [|y l' IH]; [constructor|apply ss_skip, IH].
  - apply ss_skip, IH.
  - apply ss_take, IH.
Qed.

Lemma subseq_snoc {A} (a l : list A) x : subseq a l -> subseq (a ++ [x]) (l ++ [x]).
Proof.
  induction 1 as [|y a l _ IH|y a l _ IH]; cbn [app].
  - apply ss_take, ss_nil.
  - apply ss_skip, IH.
  - apply ss_take, IH.
Qed.

Lemma subseq_length {A} (a l : list A) : subseq a l -> (length a <= length l)%nat.
Proof. induction 1; cbn [length]; lia. Qed.

Lemma Forall2_len {A B} (R : A -> B -> Prop) l m : Forall2 R l m -> length l = length m.
Proof. induction 1; cbn [length]; congruence. Qed.

Lemma is_echo_request4_iff views :
  is_echo_request4 views = true <->
  handleICMP4 views = Some (A4Echo (echo_body (concat views))).
Proof.
  unfold is_echo_request4, echo_body. split.
  - intros H. apply andb_true_iff in H as [A B]. apply handleICMP4_echo; lia.
  - intros H. apply handleICMP4_echo_inv in H as (A & B & _). apply andb_true_iff. split; lia.
Qed.

Lemma not_echo_request4 views : is_echo_request4 views = false ->
  forall data, handleICMP4 views <> Some (A4Echo data).
Proof.
  intros H data E. apply handleICMP4_echo_inv in E as (A & B & ->).
  assert (is_echo_request4 views = true) by (unfold is_echo_request4; apply andb_true_iff; split; lia).
  congruence.
Qed.

(* a queued request carries data the replier can answer without panicking *)
Definition req_ok (rq : ereq) : Prop :=
  bytes_ok (q_data rq) /\ (2 <= length (q_data rq))%nat /\ Z.of_nat (length (q_data rq)) <= 65535.

Lemma echo_body_ok views : views_ok views -> is_echo_request4 views = true ->
  forall r, req_ok (mkReq r (echo_body (concat views))).
Proof.
  intros [Hb Hl] He r. unfold req_ok, echo_body. cbn [q_data].
  apply andb_true_iff in He as [A _]. pose proof (first_le_concat views) as Hf.
  rewrite skipn_length. split; [apply Forall_skipn, concat_ok, Hb|]. split; lia.
Qed.

Lemma emit4_reply rq : req_ok rq -> exists p, emit4 rq = Some p /\ is_reply_to rq p.
Proof.
  intros (Hb & H2 & Hl). unfold emit4.
  destruct (sendPing4 0 (q_data rq)) as [[h p]|] eqn:E.
  - cbn [obind fst snd]. eexists. split; [reflexivity|].
    assert (H0 : is_byte 0) by (unfold is_byte; lia).
    destruct (sendPing4_spec 0 (q_data rq) h p Hb H0 Hl E) as (_ & _ & T & C & B & _ & _ & S).
    unfold is_reply_to, p_msg, echo_body. cbn [p_src p_dst p_proto p_hdr p_payload]. tauto.
  - destruct (skipn_ge2 _ H2) as (d0 & d1 & rest & Ed). rewrite Ed, sendPing4_eq in E. discriminate E.
Qed.

Definition inv (ops : list op4) (s : ep4) : Prop :=
  crashed s = false /\ (length (pending s) <= q4_cap)%nat /\ Forall req_ok (pending s) /\
  exists ans, subseq (ans ++ pending s) (requests ops) /\ Forall2 is_reply_to ans (sent s).

Lemma requests_app a b : requests (a ++ b) = requests a ++ requests b.
Proof. unfold requests. apply flat_map_app. Qed.

Lemma inv_init : inv [] ep4_init.
Proof.
  unfold inv, ep4_init, q4_cap. cbn [crashed pending sent length]. repeat split; try lia; try constructor.
  exists []. split; constructor.
Qed.

Lemma inv_step ops s o : inv ops s -> op_ok o -> inv (ops ++ [o]) (step4 s o).
Proof.
  intros (Hc & Hl & Hok & ans & Hss & Hrep) Ho. unfold inv. rewrite requests_app.
  destruct o as [r views|]; cbn [step4].
  - cbn [op_ok] in Ho.
    destruct (is_echo_request4 views) eqn:He.
    + pose proof (proj1 (is_echo_request4_iff views) He) as E. rewrite E.
      assert (Er : requests [Arrive r views] = [mkReq r (echo_body (concat views))])
        by (unfold requests; cbn [flat_map]; rewrite He; reflexivity).
      rewrite Er.
      destruct (Nat.ltb_spec (length (pending s)) q4_cap) as [Hroom|Hfull].
      * unfold inv. cbn [crashed pending sent]. rewrite app_length. cbn [length].
        split; [exact Hc|]. split; [lia|]. split.
        { apply Forall_app. split; [exact Hok|]. constructor; [|constructor]. apply echo_body_ok; assumption. }
        exists ans. split; [|exact Hrep]. rewrite app_assoc. apply subseq_snoc, Hss.
      * unfold inv. split; [exact Hc|]. split; [exact Hl|]. split; [exact Hok|].
        exists ans. split; [|exact Hrep]. apply subseq_app_skip, Hss.
    + assert (Es : match handleICMP4 views with
                   | None => mkEp4 (pending s) (sent s) true
                   | Some (A4Echo data) =>
                       if (length (pending s) <? q4_cap)%nat
                       then mkEp4 (pending s ++ [mkReq r data]) (sent s) (crashed s) else s
                   | Some _ => s
                   end = s).
      { destruct (handleICMP4 views) as [[]|] eqn:E; try reflexivity.
        - exfalso. exact (not_echo_request4 views He _ E).
        - exfalso. exact (handleICMP4_no_panic views E). }
      rewrite Es. unfold inv. split; [exact Hc|]. split; [exact Hl|]. split; [exact Hok|].
      exists ans. split; [|exact Hrep]. apply subseq_app_skip, Hss.
  - assert (Er : requests [Drain] = []) by reflexivity. rewrite Er, app_nil_r.
    destruct (pending s) as [|rq rest] eqn:Ep.
    + unfold inv. rewrite Ep. split; [exact Hc|]. split; [exact Hl|]. split; [exact Hok|].
      exists ans. split; assumption.
    + inversion Hok as [|? ? Hrq Hrest]; subst.
      destruct (emit4_reply rq Hrq) as (p & Ee & Hp). rewrite Ee.
      unfold inv. cbn [crashed pending sent]. cbn [length] in Hl.
      split; [exact Hc|]. split; [lia|]. split; [exact Hrest|].
      exists (ans ++ [rq]). split.
      * rewrite <- app_assoc. exact Hss.
      * apply Forall2_app; [exact Hrep|]. constructor; [exact Hp|constructor].
Qed.

Lemma inv_run ops : Forall op_ok ops -> inv ops (run4 ep4_init ops).
Proof.
  induction ops as [|o ops IH] using rev_ind; intros H.
  - exact inv_init.
  - apply Forall_app in H as [H1 H2]. inversion H2 as [|? ? Ho _]; subst.
    unfold run4. rewrite fold_left_app. cbn [fold_left]. apply inv_step; [apply IH, H1|exact Ho].
Qed.

(* C13 "at most one reply, never unsolicited": over every history of arrivals and replier
   iterations, no panic, and the packets sent so far answer, one to one and in order, an initial
   part of an order-preserving sub-list of the requests that arrived; the rest of that sub-list is
   exactly what waits in the channel (at most 10) *)
Lemma echo4_at_most_one_l ops : Forall op_ok ops ->
  let s := run4 ep4_init ops in
  crashed s = false /\ (length (pending s) <= 10)%nat /\
  exists acc, subseq acc (requests ops) /\
              Forall2 is_reply_to (firstn (length (sent s)) acc) (sent s) /\
              pending s = skipn (length (sent s)) acc.
Proof.
  intros H s. destruct (inv_run ops H) as (Hc & Hl & _ & ans & Hss & Hrep). fold s in Hc, Hl, Hss, Hrep.
  split; [exact Hc|]. split; [exact Hl|]. exists (ans ++ pending s).
  pose proof (Forall2_len _ _ _ Hrep) as El. rewrite <- El.
  split; [exact Hss|]. split.
  - rewrite firstn_app, Nat.sub_diag, firstn_all. cbn [firstn]. rewrite app_nil_r. exact Hrep.
  - rewrite skipn_app, Nat.sub_diag, skipn_all. reflexivity.
Qed.

(* in particular there are never more replies than requests *)
Lemma echo4_replies_le_requests ops : Forall op_ok ops ->
  (length (sent (run4 ep4_init ops)) + length (pending (run4 ep4_init ops)) <= length (requests ops))%nat.
Proof.
  intros H. destruct (inv_run ops H) as (_ & _ & _ & ans & Hss & Hrep).
  apply subseq_length in Hss. rewrite app_length in Hss. rewrite <- (Forall2_len _ _ _ Hrep). exact Hss.
Qed.

(* enqueue iff fewer than 10 pending *)
Lemma arrive_enqueue s r views : is_echo_request4 views = true ->
  step4 s (Arrive r views) =
  if (length (pending s) <? 10)%nat
  then mkEp4 (pending s ++ [mkReq r (echo_body (concat views))]) (sent s) (crashed s) else s.
Proof.
  intros He. cbn [step4]. rewrite (proj1 (is_echo_request4_iff views) He). reflexivity.
Qed.

Lemma arrive_other s r views : is_echo_request4 views = false -> step4 s (Arrive r views) = s.
Proof.
  intros He. cbn [step4]. destruct (handleICMP4 views) as [[]|] eqn:E; try reflexivity.
  - exfalso. exact (not_echo_request4 views He _ E).
  - exfalso. exact (handleICMP4_no_panic views E).
Qed.

(* the replier empties the channel: one reply per waiting request, in FIFO order *)
Lemma drain_all : forall pend snt cr, Forall req_ok pend ->
  exists ps, run4 (mkEp4 pend snt cr) (repeat Drain (length pend)) = mkEp4 [] (snt ++ ps) cr /\
             Forall2 is_reply_to pend ps.
Proof.
  induction pend as [|rq rest IH]; intros snt cr H.
  - exists []. rewrite app_nil_r. split; [reflexivity|constructor].
  - inversion H as [|? ? Hrq Hrest]; subst.
    destruct (emit4_reply rq Hrq) as (p & Ee & Hp).
    destruct (IH (snt ++ [p]) cr Hrest) as (ps & Er & Hps).
    exists (p :: ps). split; [|constructor; assumption].
    cbn [length repeat run4 fold_left step4 pending sent crashed]. rewrite Ee.
    unfold run4 in Er. rewrite Er. rewrite <- app_assoc. reflexivity.
Qed.

(* C13 "while fewer than ten requests are pending every request is answered": in any reachable
   state with fewer than 10 requests waiting, an echo request is put into the channel, and once
   the replier has gone through the channel it has been answered exactly once, after the
   earlier ones; nothing else was sent and nothing is left *)
Lemma echo4_answered_when_room_l ops r views :
  Forall op_ok ops -> views_ok views -> is_echo_request4 views = true ->
  let s := run4 ep4_init ops in
  (length (pending s) < 10)%nat ->
  exists ps p,
    run4 s (Arrive r views :: repeat Drain (S (length (pending s)))) = mkEp4 [] (sent s ++ ps ++ [p]) false /\
    Forall2 is_reply_to (pending s) ps /\
    is_reply_to (mkReq r (echo_body (concat views))) p.
Proof.
  intros Hops Hv He s Hroom.
  destruct (inv_run ops Hops) as (Hc & _ & Hok & _). fold s in Hc, Hok.
  assert (Hok' : Forall req_ok (pending s ++ [mkReq r (echo_body (concat views))])).
  { apply Forall_app. split; [exact Hok|]. constructor; [|constructor]. apply echo_body_ok; assumption. }
  destruct (drain_all _ (sent s) (crashed s) Hok') as (ps & Er & Hps).
  apply Forall2_app_inv_l in Hps as (ps1 & ps2 & H1 & H2 & ->).
  inversion H2 as [|? p ? ? Hp Hnil]; subst. inversion Hnil; subst.
  exists ps1, p. split; [|split; assumption].
  unfold run4 at 1. cbn [fold_left]. rewrite arrive_enqueue by exact He.
  destruct (Nat.ltb_spec (length (pending s)) 10) as [_|Hx]; [|lia].
  rewrite app_length in Er. cbn [length] in Er. rewrite Nat.add_1_r in Er.
  unfold run4 in Er. rewrite Er, Hc. reflexivity.
Qed.

(* ... and with 10 waiting it is dropped without a trace *)
Lemma echo4_dropped_when_full_l s r views :
  is_echo_request4 views = true -> (10 <= length (pending s))%nat -> step4 s (Arrive r views) = s.
Proof.
  intros He Hfull. rewrite arrive_enqueue by exact He.
  destruct (Nat.ltb_spec (length (pending s)) 10); [lia|reflexivity].
Qed.

(* the per-request function of the design: the reply of [echo4] is what the state machine sends *)
Lemma echo4_fun views n : views_ok views ->
  match echo4 views n with
  | Panic => False
  | Ok EIgnored => is_echo_request4 views = false
  | Ok EDropped => is_echo_request4 views = true /\ (10 <= n)%nat
  | Ok (EReply m) =>
      is_echo_request4 views = true /\ (n < 10)%nat /\
      forall r, exists p, emit4 (mkReq r (echo_body (concat views))) = Some p /\ p_msg p = m
  end.
Proof.
  intros Hv. unfold echo4. destruct (is_echo_request4 views) eqn:He.
  - rewrite (proj1 (is_echo_request4_iff views) He). unfold q4_cap.
    destruct (Nat.ltb_spec n 10) as [Hn|Hn]; [|split; [reflexivity|exact Hn]].
    destruct (emit4_reply _ (echo_body_ok views Hv He (mkRoute [] []))) as (p0 & E0 & _).
    unfold emit4 in E0. cbn [q_data] in E0.
    destruct (sendPing4 0 (echo_body (concat views))) as [hp|] eqn:E; [|discriminate E0].
    split; [reflexivity|]. split; [exact Hn|]. intros r. unfold emit4. cbn [q_data q_route].
    rewrite E. cbn [obind]. eexists. split; [reflexivity|]. reflexivity.
  - destruct (handleICMP4 views) as [[]|] eqn:E; try reflexivity.
    + exfalso. exact (not_echo_request4 views He _ E).
    + exact (handleICMP4_no_panic views E).
Qed.

(* ------------------------------------------------------------------ IPv6 *)
Lemma dep_oc_norm_id x : is_u16 x -> oc_norm x = x.
Proof. exact (oc_norm_id x). Qed.

(* chunked summation in closed form, for ANY chunking: each chunk contributes the integer sum of
   its own big-endian words (an odd chunk is padded on its own) *)
Definition wsum (chunks : vv) : Z := fold_right (fun c a => wz c + a) 0 chunks.

Lemma wsum_nonneg chunks : Forall bytes_ok chunks -> 0 <= wsum chunks.
Proof.
  induction 1 as [|c rest Hc _ IH]; cbn [wsum fold_right]; [lia|].
  pose proof (wz_nonneg c Hc). unfold wsum in IH. lia.
Qed.

Lemma wsum_app a b : wsum (a ++ b) = wsum a + wsum b.
Proof.
  induction a as [|c a IH]; [reflexivity|]. cbn [app].
  change (wsum (c :: a ++ b)) with (wz c + wsum (a ++ b)).
  change (wsum (c :: a)) with (wz c + wsum a). rewrite IH. lia.
Qed.

Lemma checksum_chunks_app a b init :
  checksum_chunks (a ++ b) init = checksum_chunks b (checksum_chunks a init).
Proof. unfold checksum_chunks. apply fold_left_app. Qed.

Lemma checksum_chunks_cons c rest init :
  checksum_chunks (c :: rest) init = checksum_chunks rest (checksum c init).
Proof. reflexivity. Qed.
Lemma checksum_chunks_nil init : checksum_chunks [] init = init.
Proof. reflexivity. Qed.

Definition small (c : list Z) : Prop := Z.of_nat (length c) <= 131072.

Lemma checksum_chunks_closed chunks : forall init,
  Forall bytes_ok chunks -> Forall small chunks -> is_u16 init ->
  checksum_chunks chunks init = oc_norm (init + wsum chunks).
Proof.
  induction chunks as [|c rest IH]; intros init Hb Hs Hi.
  - cbn [checksum_chunks fold_left wsum fold_right]. rewrite Z.add_0_r. symmetry. apply dep_oc_norm_id, Hi.
  - inversion Hb as [|? ? Hc Hrest]; subst. inversion Hs as [|? ? Sc Srest]; subst.
    rewrite checksum_chunks_cons.
    rewrite IH; [|exact Hrest|exact Srest|apply dep_checksum_u16; assumption].
    rewrite dep_checksum_closed by assumption.
    cbn [wsum fold_right]. fold (wsum rest). fold (wz c).
    pose proof (wz_nonneg c Hc). pose proof (wsum_nonneg rest Hrest). unfold is_u16 in Hi.
    rewrite dep_oc_norm_add by lia. f_equal. lia.
Qed.

(* Checksum of the empty buffer: the accumulator comes back unchanged.  (Used by Proofs/NdpP.v: the
   neighbour discovery messages are summed with an empty payload, and since /repo commit 1404d7f
   icmpChecksum calls header.Checksum once on vv.ToView(), also when that is empty.) *)
Lemma checksum_is_u16 buf init : is_u16 (checksum buf init).
Proof.
  unfold checksum. destruct (Nat.odd (length buf)); cbv zeta; unfold checksumCombine, w16, is_u16;
    cbv zeta; consts; apply Z.mod_pos_bound; lia.
Qed.

Lemma checksum_nil init : is_u16 init -> checksum [] init = init.
Proof.
  intros H. unfold is_u16 in H.
  change (checksum [] init) with (checksumCombine (w16 (w32 init)) (w16 (w32 init / 2^16))).
  unfold checksumCombine, w16, w32. cbv zeta. consts.
  rewrite (Z.mod_small init 4294967296) by lia.
  rewrite (Z.div_small init 65536) by lia.
  rewrite (Z.mod_small init 65536) by lia.
  change (0 mod 65536) with 0. rewrite Z.add_0_r.
  rewrite (Z.mod_small init 4294967296) by lia.
  rewrite (Z.div_small init 65536) by lia. rewrite Z.add_0_r.
  rewrite (Z.mod_small init 4294967296) by lia.
  apply Z.mod_small. lia.
Qed.

Lemma handleICMP6_eq r c k1 k2 i0 i1 s0 s1 tl rest :
  let v := 128 :: c :: k1 :: k2 :: i0 :: i1 :: s0 :: s1 :: tl in
  let rest' := vv_trimFront (v :: rest) 8 in
  let n := w32 (8 + vv_size rest') in
  let x := checksum [129; c; 0; 0; i0; i1; s0; s1]
             (checksum (concat rest')
                (checksum [0; 0; 0; 58]
                   (checksum [w8 (n / 2^24); w8 (n / 2^16); w8 (n / 2^8); w8 n]
                      (checksum (r_remote r) (checksum (r_local r) 0))))) in
  handleICMP6 r (v :: rest) =
  Some (A6Reply (mkPacket (r_local r) (r_remote r) 255 58
                   [129; c; w8 (lnot16 x / 2^8); w8 (lnot16 x); i0; i1; s0; s1] (concat rest'))).
Proof. reflexivity. Qed.

Lemma handleICMP6_no_panic r views : handleICMP6 r views <> None.
Proof.
  destruct (Nat.lt_ge_cases (length (vv_first views)) 4) as [H4|H4].
  - unfold handleICMP6. cbv zeta. destruct (Nat.ltb_spec (length (vv_first views)) 4); [discriminate|lia].
  - destruct (Z.eq_dec (nth 0 (vv_first views) 0) 128) as [E|N].
    + destruct (Nat.lt_ge_cases (length (vv_first views)) 8) as [H8|H8].
      * unfold handleICMP6. cbv zeta. destruct (Nat.ltb_spec (length (vv_first views)) 4); [discriminate|].
        rewrite get8_0 by lia. cbn [obind]. rewrite E. cbn [Z.eqb Pos.eqb].
        destruct (Nat.ltb_spec (length (vv_first views)) 8); [discriminate|lia].
      * destruct views as [|v rest]; [cbn [vv_first length] in H8; lia|]. cbn [vv_first] in *.
        destruct v as [|t [|c [|k1 [|k2 [|i0 [|i1 [|s0 [|s1 tl]]]]]]]]; cbn [length] in H8; try lia.
        cbn [nth] in E. subst t. rewrite handleICMP6_eq. discriminate.
    + unfold handleICMP6. cbv zeta. destruct (Nat.ltb_spec (length (vv_first views)) 4); [discriminate|].
      rewrite get8_0 by lia. cbn [obind].
      destruct (Z.eqb_spec (nth 0 (vv_first views) 0) 128) as [E|_]; [contradiction|].
      repeat match goal with |- context [if ?c then _ else _] => destruct c end; discriminate.
Qed.

Lemma handleICMP6_not_echo r views : is_echo_request6 views = false ->
  forall p, handleICMP6 r views <> Some (A6Reply p).
Proof.
  intros He p. unfold is_echo_request6 in He. unfold handleICMP6. cbv zeta.
  destruct (Nat.ltb_spec (length (vv_first views)) 4) as [H4|H4]; [discriminate|].
  rewrite get8_0 by lia. cbn [obind].
  destruct (Z.eqb_spec (nth 0 (vv_first views) 0) 128) as [E|N].
  - destruct (Nat.ltb_spec (length (vv_first views)) 8) as [H8|H8]; [discriminate|].
    exfalso. apply andb_false_iff in He as [A|A]; lia.
  - repeat match goal with |- context [if ?c then _ else _] => destruct c end; discriminate.
Qed.

Lemma be32_ok n : bytes_ok (be32 n).
Proof. unfold be32. bok; unfold is_byte; Z.div_mod_to_equations; lia. Qed.

(* the ipv6 echo reply, for EVERY split of the message into views whose first view holds the
   8-byte header: type 129, code copied, everything behind the checksum field copied, from the
   pinged address to the requester, and an ICMPv6 checksum (RFC 4443 2.3: over the RFC 2460
   pseudo-header and the message) that verifies - odd-length views included, since the payload
   is summed as one byte string (vv.ToView()) *)
Lemma handleICMP6_echo r views :
  views_ok views -> bytes_ok (r_local r) -> bytes_ok (r_remote r) ->
  length (r_local r) = 16%nat -> length (r_remote r) = 16%nat ->
  is_echo_request6 views = true ->
  exists p, handleICMP6 r views = Some (A6Reply p) /\
    p_src p = r_local r /\ p_dst p = r_remote r /\ p_proto p = 58 /\
    length (p_msg p) = length (concat views) /\
    nth 0 (p_msg p) 0 = 129 /\ nth 1 (p_msg p) 0 = nth 1 (concat views) 0 /\
    echo_body (p_msg p) = echo_body (concat views) /\
    rfc1071_sum (pseudo6 (r_local r) (r_remote r) (Z.of_nat (length (p_msg p))) ++ p_msg p) 0 = 65535.
Proof.
  intros [Hb Hlen] HL HR LL LR He.
  apply andb_true_iff in He as [H8 Ht]. apply Nat.leb_le in H8. apply Z.eqb_eq in Ht.
  destruct views as [|v rest]; [cbn [vv_first length] in H8; lia|]. cbn [vv_first] in *.
  destruct v as [|t [|c [|k1 [|k2 [|i0 [|i1 [|s0 [|s1 tl]]]]]]]]; cbn [length] in H8; try lia.
  cbn [nth] in Ht. subst t. rewrite handleICMP6_eq. cbv zeta.
  set (v := 128 :: c :: k1 :: k2 :: i0 :: i1 :: s0 :: s1 :: tl) in *.
  set (rest' := vv_trimFront (v :: rest) 8).
  assert (EP : concat rest' = skipn 8 (concat (v :: rest))) by apply trimFront_concat.
  assert (Hrest' : Forall bytes_ok rest') by (apply trimFront_ok, Hb).
  assert (HP : bytes_ok (concat rest')) by (apply concat_ok, Hrest').
  assert (Ecat : concat (v :: rest) = [128; c; k1; k2; i0; i1; s0; s1] ++ concat rest').
  { rewrite EP. cbn [concat]. subst v. reflexivity. }
  assert (Hv : bytes_ok [128; c; k1; k2; i0; i1; s0; s1]).
  { pose proof (concat_ok _ Hb) as Hc. rewrite Ecat in Hc. apply Forall_app in Hc. tauto. }
  assert (Lcat : length (concat (v :: rest)) = (8 + length (concat rest'))%nat)
    by (rewrite Ecat, app_length; reflexivity).
  set (np := length (concat rest')) in *.
  assert (En : w32 (8 + vv_size rest') = 8 + Z.of_nat np).
  { unfold vv_size, w32. fold np. consts. apply Z.mod_small. lia. }
  rewrite En. set (n := 8 + Z.of_nat np) in *.
  set (upper := [w8 (n / 2^24); w8 (n / 2^16); w8 (n / 2^8); w8 n]).
  assert (Eu : upper = be32 n).
  { subst upper. unfold be32, w8. change (2^24) with 16777216. consts. reflexivity. }
  set (h0 := [129; c; 0; 0; i0; i1; s0; s1]).
  set (x := checksum h0 _).
  eexists. split; [reflexivity|].
  unfold p_msg, echo_body. cbn [p_src p_dst p_proto p_hdr p_payload].
  split; [reflexivity|]. split; [reflexivity|]. split; [reflexivity|].
  split; [rewrite app_length; cbn [length]; fold np; lia|].
  split; [reflexivity|].
  split; [rewrite Ecat; reflexivity|].
  split; [rewrite Ecat; reflexivity|].
  (* the chain of partial sums is one chunked sum, the whole echo data being ONE chunk *)
  assert (Ex : x = checksum_chunks ([r_local r; r_remote r; upper; [0; 0; 0; 58]] ++ [concat rest'] ++ [h0]) 0).
  { subst x. rewrite !checksum_chunks_app, !checksum_chunks_cons, !checksum_chunks_nil. reflexivity. }
  pose proof (proj1 (Forall_forall _ _) Hv) as Hmem.
  assert (Bc : is_byte c) by (apply Hmem; cbn [In]; tauto).
  assert (Bi0 : is_byte i0) by (apply Hmem; cbn [In]; tauto).
  assert (Bi1 : is_byte i1) by (apply Hmem; cbn [In]; tauto).
  assert (Bs0 : is_byte s0) by (apply Hmem; cbn [In]; tauto).
  assert (Bs1 : is_byte s1) by (apply Hmem; cbn [In]; tauto).
  assert (Hh0 : bytes_ok h0) by (subst h0; bok).
  assert (Hup : bytes_ok upper) by (rewrite Eu; apply be32_ok).
  assert (H58 : bytes_ok [0; 0; 0; 58]) by bok.
  assert (Hall : Forall bytes_ok ([r_local r; r_remote r; upper; [0; 0; 0; 58]] ++ [concat rest'] ++ [h0])) by bok.
  assert (Hsm : Forall small ([r_local r; r_remote r; upper; [0; 0; 0; 58]] ++ [concat rest'] ++ [h0])).
  { apply Forall_app; split; [|apply Forall_app; split];
      repeat (apply Forall_cons; [unfold small; rewrite ?LL, ?LR; try subst upper; try subst h0; cbn [length]; fold np; lia|]); apply Forall_nil. }
  rewrite (checksum_chunks_closed _ 0 Hall Hsm u16_0) in Ex.
  rewrite !wsum_app in Ex. cbn [wsum fold_right] in Ex. rewrite Z.add_0_l in Ex.
  pose proof (wz_nonneg _ HL) as N1. pose proof (wz_nonneg _ HR) as N2.
  pose proof (wz_nonneg _ Hup) as N3. pose proof (wz_nonneg _ H58) as N4.
  pose proof (wz_nonneg _ HP) as N5. pose proof (wz_nonneg _ Hh0) as N6.
  set (T := wz (r_local r) + (wz (r_remote r) + (wz upper + (wz [0; 0; 0; 58] + 0))) + (wz (concat rest') + 0 + (wz h0 + 0))) in Ex.
  assert (HT : 0 <= T) by (subst T; lia).
  assert (Hx16 : is_u16 x) by (rewrite Ex; apply dep_oc_norm_u16, HT).
  destruct (dep_lnot16_bytes x Hx16) as (B1 & B2 & B3).
  assert (E1 : w8 (lnot16 x / 2^8) = lnot16 x / 256)
    by (unfold w8, is_byte in *; consts; Z.div_mod_to_equations; lia).
  assert (E2 : w8 (lnot16 x) = lnot16 x mod 256) by (unfold w8; consts; reflexivity).
  rewrite E1, E2.
  replace (Z.of_nat (length ([129; c; lnot16 x / 256; lnot16 x mod 256; i0; i1; s0; s1] ++ concat rest'))) with n
    by (rewrite app_length; cbn [length]; fold np; subst n; lia).
  unfold pseudo6. rewrite <- Eu. rewrite <- !app_assoc.
  set (hdr := [129; c; lnot16 x / 256; lnot16 x mod 256; i0; i1; s0; s1]).
  assert (Hhdr : bytes_ok hdr) by (subst hdr; bok).
  rewrite <- dep_checksum_rfc1071; [|bok|exact u16_0|subst upper hdr; rewrite !app_length, LL, LR; cbn [length]; fold np; lia].
  rewrite dep_checksum_closed; [|bok|exact u16_0|subst upper hdr; rewrite !app_length, LL, LR; cbn [length]; fold np; lia].
  fold (wz (r_local r ++ r_remote r ++ upper ++ [0; 0; 0; 58] ++ hdr ++ concat rest')).
  rewrite wz_app_even by (rewrite LL; reflexivity).
  rewrite wz_app_even by (rewrite LR; reflexivity).
  rewrite wz_app_even by reflexivity.
  rewrite wz_app_even by reflexivity.
  rewrite wz_app_even by reflexivity.
  assert (Eh : wz hdr = wz h0 + lnot16 x).
  { subst hdr h0. unfold wz. cbn [be_words zsum fold_right]. lia. }
  rewrite Eh, Z.add_0_l.
  replace (wz (r_local r) + (wz (r_remote r) + (wz upper + (wz [0; 0; 0; 58] + (wz h0 + lnot16 x + wz (concat rest'))))))
    with (T + lnot16 (oc_norm T)) by (rewrite <- Ex; subst T; lia).
  apply dep_oc_norm_complement, HT.
Qed.

(* the code before /repo commit 1404d7f (fixed finding C13-echo6-odd-chunk, candidate F7) summed
   the echo data view by view: for echo data delivered as views of 3 + 4 bytes its reply mirrors
   the request but does NOT pass the RFC 4443 pseudo-header verification; the repaired code's reply
   to the same input does *)
Lemma echo6_odd_chunk_old_refuted_l :
  exists r views p_old p,
    views_ok views /\ bytes_ok (r_local r) /\ bytes_ok (r_remote r) /\
    length (r_local r) = 16%nat /\ length (r_remote r) = 16%nat /\
    is_echo_request6 views = true /\ map (@length Z) (vv_trimFront views 8) = [3; 4]%nat /\
    echo6_reply_old r views = Some p_old /\
    nth 0 (p_msg p_old) 0 = 129 /\ echo_body (p_msg p_old) = echo_body (concat views) /\
    rfc1071_sum (pseudo6 (r_local r) (r_remote r) (Z.of_nat (length (p_msg p_old))) ++ p_msg p_old) 0 <> 65535 /\
    handleICMP6 r views = Some (A6Reply p) /\
    rfc1071_sum (pseudo6 (r_local r) (r_remote r) (Z.of_nat (length (p_msg p))) ++ p_msg p) 0 = 65535.
Proof.
  pose (a := [254; 128; 0; 0; 0; 0; 0; 0; 0; 0; 0; 0; 0; 0; 0; 1]).
  pose (b := [254; 128; 0; 0; 0; 0; 0; 0; 0; 0; 0; 0; 0; 0; 0; 2]).
  pose (views := [[128; 0; 0; 0; 0; 1; 0; 2; 1; 2; 3]; [4; 5; 6; 7]]).
  assert (Hbyte : forall l, forallb is_byteb l = true -> bytes_ok l) by exact bytes_okb_ok.
  eexists (mkRoute a b), views, _, _.
  split; [split; [apply Forall_forall; intros l [<-|[<-|[]]]; apply Hbyte; reflexivity|vm_compute; discriminate]|].
  split; [apply Hbyte; reflexivity|]. split; [apply Hbyte; reflexivity|].
  split; [reflexivity|]. split; [reflexivity|]. split; [reflexivity|]. split; [reflexivity|].
  split; [vm_compute; reflexivity|].
  split; [reflexivity|]. split; [reflexivity|].
  split; [vm_compute; discriminate|].
  split; [vm_compute; reflexivity|].
  vm_compute. reflexivity.
Qed.

(* ------------------------------------------------------------------ one request on an idle endpoint *)
Lemma echo4_mirrors_l r views :
  views_ok views -> is_echo_request4 views = true ->
  exists p,
    run4 ep4_init [Arrive r views; Drain] = mkEp4 [] [p] false /\
    is_reply_to (mkReq r (echo_body (concat views))) p /\
    length (p_msg p) = length (concat views) /\
    echo4 views 0 = Ok (EReply (p_msg p)).
Proof.
  intros Hv He.
  assert (Hq : req_ok (mkReq r (echo_body (concat views)))) by (apply echo_body_ok; assumption).
  destruct (emit4_reply _ Hq) as (p & Ee & Hp).
  exists p. split; [|split; [exact Hp|]].
  - unfold run4. cbn [fold_left]. rewrite arrive_enqueue by exact He.
    cbn [ep4_init pending sent crashed length Nat.ltb Nat.leb app step4]. rewrite Ee. reflexivity.
  - unfold emit4 in Ee. cbn [q_data q_route] in Ee.
    destruct (sendPing4 0 (echo_body (concat views))) as [[h pl]|] eqn:E; [|discriminate Ee].
    cbn [obind fst snd] in Ee. injection Ee as <-.
    destruct Hq as (Hb & H2 & Hl). cbn [q_data] in *.
    assert (H0 : is_byte 0) by (unfold is_byte; lia).
    destruct (sendPing4_spec 0 _ h pl Hb H0 Hl E) as (_ & Len & _).
    unfold p_msg. cbn [p_hdr p_payload]. split.
    + rewrite Len. unfold echo_body in *. rewrite skipn_length in *. lia.
    + unfold echo4. rewrite (proj1 (is_echo_request4_iff views) He).
      cbn [Nat.ltb Nat.leb q4_cap]. rewrite E. reflexivity.
Qed.

(* what is not an echo request for the code leaves the endpoint untouched: messages whose first
   view is shorter than 6 bytes, and every other ICMP type *)
Lemma echo4_ignored_l s r views :
  (length (vv_first views) < 6)%nat \/ nth 0 (vv_first views) 0 <> 8 -> step4 s (Arrive r views) = s.
Proof.
  intros H. apply arrive_other. unfold is_echo_request4. apply andb_false_iff.
  destruct H as [H|H]; [left; apply Nat.leb_gt; exact H|right; apply Z.eqb_neq; exact H].
Qed.

Lemma echo6_ignored_l r views :
  (length (vv_first views) < 8)%nat \/ nth 0 (vv_first views) 0 <> 128 -> echo6 r views = Ok EIgnored.
Proof.
  intros H. unfold echo6.
  assert (He : is_echo_request6 views = false).
  { unfold is_echo_request6. apply andb_false_iff.
    destruct H as [H|H]; [left; apply Nat.leb_gt; exact H|right; apply Z.eqb_neq; exact H]. }
  destruct (handleICMP6 r views) as [[]|] eqn:E; try reflexivity.
  - exfalso. exact (handleICMP6_not_echo r views He _ E).
  - exfalso. exact (handleICMP6_no_panic r views E).
Qed.

(* a complete, correct echo request whose 8-byte ICMP header straddles two views is ignored by
   both families (the length tests look at the first view only) *)
Lemma echo_split_header_refuted_l :
  exists v4 v6 a b,
    views_ok v4 /\ (8 <= length (concat v4))%nat /\ nth 0 (concat v4) 0 = 8 /\ nth 1 (concat v4) 0 = 0 /\
    rfc1071_sum (concat v4) 0 = 65535 /\
    (forall s r, step4 s (Arrive r v4) = s) /\
    views_ok v6 /\ (8 <= length (concat v6))%nat /\ nth 0 (concat v6) 0 = 128 /\ nth 1 (concat v6) 0 = 0 /\
    length a = 16%nat /\ length b = 16%nat /\
    rfc1071_sum (pseudo6 b a (Z.of_nat (length (concat v6))) ++ concat v6) 0 = 65535 /\
    echo6 (mkRoute a b) v6 = Ok EIgnored.
Proof.
  exists [[8; 0; 247; 255]; [0; 0; 0; 0]], [[128; 0; 130; 184]; [0; 0; 0; 0]],
         [254; 128; 0; 0; 0; 0; 0; 0; 0; 0; 0; 0; 0; 0; 0; 1],
         [254; 128; 0; 0; 0; 0; 0; 0; 0; 0; 0; 0; 0; 0; 0; 2].
  assert (Hbyte : forall l, forallb is_byteb l = true -> bytes_ok l) by exact bytes_okb_ok.
  split; [split; [apply Forall_forall; intros l [<-|[<-|[]]]; apply Hbyte; reflexivity|vm_compute; discriminate]|].
  split; [cbn; lia|]. split; [reflexivity|]. split; [reflexivity|]. split; [vm_compute; reflexivity|].
  split; [intros s r; apply echo4_ignored_l; left; cbn; lia|].
  split; [split; [apply Forall_forall; intros l [<-|[<-|[]]]; apply Hbyte; reflexivity|vm_compute; discriminate]|].
  split; [cbn; lia|]. split; [reflexivity|]. split; [reflexivity|]. split; [reflexivity|]. split; [reflexivity|].
  split; [vm_compute; reflexivity|].
  apply echo6_ignored_l. left. cbn. lia.
Qed.

(* ------------------------------------------------------------------ the way in: addresses *)
Lemma bytes_eqb_eq a : forall b, bytes_eqb a b = true <-> a = b.
Proof.
  induction a as [|x a IH]; intros [|y b]; cbn [bytes_eqb]; split; intros H; try discriminate H; try reflexivity.
  - apply andb_true_iff in H as [H1 H2]. apply Z.eqb_eq in H1. apply IH in H2. congruence.
  - injection H as -> ->. apply andb_true_iff. split; [apply Z.eqb_refl|apply IH; reflexivity].
Qed.

Lemma owns_In owned a : owns owned a = true <-> In a owned.
Proof.
  unfold owns. rewrite existsb_exists. split.
  - intros (x & Hin & He). apply bytes_eqb_eq in He. subst. exact Hin.
  - intros Hin. exists a. split; [exact Hin|apply bytes_eqb_eq; reflexivity].
Qed.

Ltac peel H :=
  repeat match type of H with
         | context [obind ?e _] => destruct e eqn:?; cbn [obind] in H; [|discriminate H]
         | context [if ?c then _ else _] => destruct c eqn:?; try discriminate H
         end.

(* a packet reaches handleICMP only through an endpoint of an address the NIC owns, and the
   route it comes with has that address as local and the packet's source as remote address *)
Lemma nic4_route_l owned views r v : nic4_deliver owned views = Some (NICMP r v) ->
  ipv4_destinationAddress (vv_first views) = Some (r_local r) /\
  ipv4_sourceAddress (vv_first views) = Some (r_remote r) /\ In (r_local r) owned.
Proof.
  unfold nic4_deliver. cbv zeta. intros H. peel H.
  injection H as <- <-. cbn [r_local r_remote].
  split; [reflexivity|]. split; [reflexivity|]. apply owns_In.
  match goal with Ho : negb (owns _ _) = false |- _ => apply negb_false_iff in Ho; exact Ho end.
Qed.

Lemma nic6_route_l owned views r v : nic6_deliver owned views = Some (NICMP r v) ->
  ipv6_destinationAddress (vv_first views) = Some (r_local r) /\
  ipv6_sourceAddress (vv_first views) = Some (r_remote r) /\ In (r_local r) owned.
Proof.
  unfold nic6_deliver. cbv zeta. intros H. peel H.
  injection H as <- <-. cbn [r_local r_remote].
  split; [reflexivity|]. split; [reflexivity|]. apply owns_In.
  match goal with Ho : negb (owns _ _) = false |- _ => apply negb_false_iff in Ho; exact Ho end.
Qed.

(* a packet whose destination address is not one of the NIC's never reaches a network endpoint *)
Lemma echo_foreign_ignored_l owned views dst :
  ~ In dst owned ->
  (ipv4_destinationAddress (vv_first views) = Some dst -> nic4_deliver owned views = Some NDrop) /\
  (ipv6_destinationAddress (vv_first views) = Some dst -> nic6_deliver owned views = Some NDrop).
Proof.
  intros Hn.
  assert (Ho : owns owned dst = false).
  { destruct (owns owned dst) eqn:E; [|reflexivity]. apply owns_In in E. contradiction. }
  split; intros Hd.
  - unfold nic4_deliver. cbv zeta. destruct (length (vv_first views) <? 20)%nat eqn:L; [reflexivity|].
    apply Nat.ltb_ge in L. rewrite Hd.
    unfold ipv4_sourceAddress, getN. destruct (Nat.leb_spec (12 + 4) (length (vv_first views))); [|lia].
    cbn [obind]. rewrite Ho. reflexivity.
  - unfold nic6_deliver. cbv zeta. destruct (length (vv_first views) <? 40)%nat eqn:L; [reflexivity|].
    apply Nat.ltb_ge in L. rewrite Hd.
    unfold ipv6_sourceAddress, getN. destruct (Nat.leb_spec (8 + 16) (length (vv_first views))); [|lia].
    cbn [obind]. rewrite Ho. reflexivity.
Qed.

(* satisfiability of the hypotheses by non-trivial inputs *)
Example echo4_example :
  let views := [[8; 0; 0; 0; 18; 52; 0; 1; 104]; [105; 33]] in
  views_ok views /\ is_echo_request4 views = true /\
  echo4 views 3 = Ok (EReply [0; 0; 100; 97; 18; 52; 0; 1; 104; 105; 33]) /\
  echo4 views 10 = Ok EDropped.
Proof.
  cbv zeta. split; [split; [apply Forall_forall; intros l [<-|[<-|[]]]; apply bytes_okb_ok; reflexivity|vm_compute; discriminate]|].
  split; [reflexivity|]. split; vm_compute; reflexivity.
Qed.

Example queue_example :
  let rq k := Arrive (mkRoute [10; 0; 0; 1] [10; 0; 0; 2]) [[8; 0; 0; 0; 0; 7; 0; k]] in
  let ops := map rq [1; 2; 3; 4; 5; 6; 7; 8; 9; 10; 11; 12] ++ [Drain; rq 13; rq 14] in
  Forall op_ok ops /\
  map (fun q => nth 3 (q_data q) 0) (pending (run4 ep4_init ops)) = [2; 3; 4; 5; 6; 7; 8; 9; 10; 13] /\
  map (fun p => nth 7 (p_msg p) 0) (sent (run4 ep4_init ops)) = [1].
Proof.
  cbv zeta. split; [|split; vm_compute; reflexivity].
  apply Forall_forall. intros o Hin. cbn [map app] in Hin.
  repeat (destruct Hin as [<-|Hin];
    [first [exact I|split; [apply Forall_forall; intros l [<-|[]]; apply bytes_okb_ok; reflexivity|vm_compute; discriminate]]|]).
  destruct Hin.
Qed.

Lemma no_panic_l r views : handleICMP4 views <> None /\ handleICMP6 r views <> None.
Proof. split; [apply handleICMP4_no_panic|apply handleICMP6_no_panic]. Qed.

(* the hypotheses of the IPv6 clause hold for multi-view messages with odd views: echo data in
   views of 1 + 1 + 3 bytes behind a header that shares its view with the first data byte *)
Example echo6_example :
  let a := [254; 128; 0; 0; 0; 0; 0; 0; 0; 0; 0; 0; 0; 0; 0; 1] in
  let b := [32; 1; 13; 184; 0; 0; 0; 0; 0; 0; 0; 0; 0; 0; 0; 9] in
  let views := [[128; 0; 0; 0; 0; 1; 0; 2; 1]; [2]; [3; 4; 5]] in
  views_ok views /\ is_echo_request6 views = true /\
  map (@length Z) (vv_trimFront views 8) = [1; 1; 3]%nat /\
  exists p, handleICMP6 (mkRoute a b) views = Some (A6Reply p) /\
            p_msg p = [129; 0; 73; 107; 0; 1; 0; 2; 1; 2; 3; 4; 5] /\
            rfc1071_sum (pseudo6 a b 13 ++ p_msg p) 0 = 65535.
Proof.
  cbv zeta. split; [split; [apply Forall_forall; intros l [<-|[<-|[<-|[]]]]; apply bytes_okb_ok; reflexivity|vm_compute; discriminate]|].
  split; [reflexivity|]. split; [reflexivity|].
  eexists. split; [vm_compute; reflexivity|]. split; vm_compute; reflexivity.
Qed.
