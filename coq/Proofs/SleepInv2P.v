(* Proofs about Model/Sleep.v (property C19), part 3: the sleeper's steps that move wakers between
   the lists (swap, pop, Done's two loops), the invocation steps, and the assembled theorem
   [inv_step]: [inv] is an inductive invariant of [step_ev]; [inv_init]: it holds initially. *)
From Coq Require Import ZArith Bool List Arith Lia.
From NP Require Import Model.Sleep Proofs.SleepBaseP Proofs.SleepInvP.
Import ListNotations.

Lemma step_PFSwap : forall st t st' evs b w,
  inv st -> pc_of st t = PFSwap b w -> step_ev st t = Some (st', evs) -> inv st'.
Proof. intros st t st' evs b w Hinv Hpc H. is0 Hinv Hpc t. start Hinv Hpc H. Qed.

(* ------------------------------------------------------------------ Done's second loop *)
Lemma lset_lset : forall {A} (l : list A) i x y, lset (lset l i x) i y = lset l i y.
Proof. induction l; simpl; intros; [reflexivity|]. destruct i; simpl; [reflexivity|]. f_equal. apply IHl. Qed.

Lemma enter_next_set_pc : forall st q c, enter_next (set_pc st 0 q) 0 c = enter_next st 0 c.
Proof.
  intros. unfold enter_next. destruct c.
  - unfold set_pc, set_local. simpl. destruct (local st); rewrite lset_lset; reflexivity.
  - unfold set_pc, set_local, set_allw. simpl. destruct (drain (local st) pend) as [[l2 p2] pl].
    destruct p2; rewrite lset_lset; reflexivity.
Qed.

Lemma remove1_In : forall x w l, In x (remove1 w l) -> In x l.
Proof.
  induction l; simpl; intros; [assumption|].
  destruct (Nat.eqb a w); [right; assumption|]. destruct H; [left; assumption|right; auto].
Qed.

Lemma remove1_NoDup : forall w l, NoDup l -> NoDup (remove1 w l).
Proof.
  induction 1; simpl; [constructor|].
  destruct (Nat.eqb x w); [assumption|]. constructor; [|assumption].
  intros Hin. apply H. eapply remove1_In; eauto.
Qed.

Lemma mem_remove1_same : forall w l, NoDup l -> mem w (remove1 w l) = false.
Proof.
  intros. apply cnt_mem_false. pose proof (cnt_remove1 w w l). pose proof (NoDup_cnt l H w).
  rewrite Nat.eqb_refl in H0. simpl in H0. destruct (mem w l) eqn:E; simpl in H0.
  - lia.
  - apply cnt_mem_false in E. lia.
Qed.

Lemma mem_remove1_other : forall w x l, x <> w -> mem w (remove1 x l) = mem w l.
Proof.
  intros. pose proof (cnt_remove1 w x l). destruct (Nat.eqb_spec x w); [congruence|]. simpl in H0.
  destruct (mem w l) eqn:E.
  - apply cnt_mem. apply cnt_mem in E. lia.
  - apply cnt_mem_false. apply cnt_mem_false in E. lia.
Qed.

(* one thread-local iteration of  for pending != nil { pulled := s.nextWaker(true); ... } *)
Lemma pull_one : forall st w l' pend,
  ginv false st -> pc_of st 0 = PNwLoad1 (CDone pend) -> 0 < length (pcs st) -> local st = w :: l' ->
  ginv false (set_pc (set_local st l') 0 (PNwLoad1 (CDone (remove1 w pend)))).
Proof.
  intros st w l' pend Hinv Hpc Hlt Hloc. leaf Hinv Hpc Hlt.
  - intros w0; pose proof (i_tok w0) as Hw; rewrite Hloc in Hw; cbn [cnt] in Hw.
    tok_eqs w0 Hpc Hlt; pc0simp Hpc Hlt.
    destruct (Nat.eqb_spec w w0) as [->|Hne].
    + rewrite (mem_remove1_same w0 pend i_dl). rewrite andb_false_r.
      unfold tok_ok in *. cbn [b2n] in *.
      destruct (mem w0 (allw st) && mem w0 pend); intuition lia.
    + rewrite (mem_remove1_other w0 w pend Hne). cbn [b2n] in *.
      unfold tok_ok in *. destruct (mem w0 (allw st) && mem w0 pend); intuition lia.
  - pc0simp Hpc Hlt. apply remove1_NoDup. assumption.
  - pc0simp Hpc Hlt. intros w0 Hin. apply i_dp. eapply remove1_In; eauto.
Qed.

Lemma done_end : forall st l,
  local st = l -> ginv false st -> pc_of st 0 = PNwLoad1 (CDone []) -> 0 < length (pcs st) ->
  inv (set_pc (set_allw (set_local st l) []) 0 PIdle).
Proof.
  intros st l Hloc Hinv Hpc Hlt. subst l. leaf Hinv Hpc Hlt.
  - intros w0; pose proof (i_tok w0) as Hw. tok_eqs w0 Hpc Hlt; pc0simp Hpc Hlt.
    unfold mem in *. simpl in *. rewrite andb_false_r in Hw. unfold tok_ok in *. intuition lia.
  - constructor.
Qed.

(* Done's second loop as far as it runs on localList alone, then either the end of Done or the
   first atomic operation of nextWaker *)
Lemma done_drain : forall loc st pend,
  local st = loc -> ginv false st -> pc_of st 0 = PNwLoad1 (CDone pend) -> 0 < length (pcs st) ->
  inv (fst (enter_next st 0 (CDone pend))).
Proof.
  induction loc as [|w l' IH]; intros st pend Hloc Hinv Hpc Hlt.
  - unfold enter_next. rewrite Hloc. destruct pend as [|x pend'].
    + simpl. apply done_end; assumption.
    + simpl. assert (E : set_pc (set_local st []) 0 (PNwLoad1 (CDone (x :: pend'))) = st).
      { destruct st. unfold set_pc, set_local, pc_of in *. simpl in *. subst. f_equal.
        clear -Hpc Hlt. destruct pcs; simpl in *; [lia|]. congruence. }
      rewrite E. clear E. destruct Hinv. constructor; try assumption.
      intros _ _. assumption.
  - unfold enter_next. rewrite Hloc. destruct pend as [|x pend'].
    + simpl. apply done_end; assumption.
    + pose proof (pull_one st w l' (x :: pend') Hinv Hpc Hlt Hloc) as Hone.
      set (st1 := set_pc (set_local st l') 0 (PNwLoad1 (CDone (remove1 w (x :: pend'))))) in *.
      assert (Hl1 : local st1 = l') by reflexivity.
      assert (Hp1 : pc_of st1 0 = PNwLoad1 (CDone (remove1 w (x :: pend')))).
      { unfold st1. rewrite pc_of_set_pc by (simpl; exact Hlt). reflexivity. }
      assert (Hlt1 : 0 < length (pcs st1)) by (unfold st1, set_pc; simpl; rewrite length_lset; exact Hlt).
      specialize (IH st1 _ Hl1 Hone Hp1 Hlt1).
      unfold enter_next in IH. rewrite Hl1 in IH.
      change (drain (w :: l') (x :: pend')) with
        (let '(l2, p2, pl) := drain l' (remove1 w (x :: pend')) in (l2, p2, w :: pl)).
      destruct (drain l' (remove1 w (x :: pend'))) as [[l2 p2] pl].
      unfold st1 in IH. unfold set_pc, set_local, set_allw in *. simpl in *.
      destruct p2; simpl in *; rewrite lset_lset in IH; exact IH.
Qed.



Lemma rev_append_nil : forall {A} (a b : list A), rev_append a b = [] -> a = [] /\ b = [].
Proof. induction a; simpl; intros; [auto|]. apply IHa in H. destruct H. discriminate. Qed.

Lemma some_pair_fst : forall {A B} (r : A * B) a b, Some r = Some (a, b) -> a = fst r.
Proof. intros A B r a b H. injection H as H. rewrite H. reflexivity. Qed.

Ltac some_fst H := apply some_pair_fst in H; rewrite H; clear H.

Ltac openstep H Hpc :=
  unfold step_ev, step_gen in H;
  match type of H with (if negb (Nat.ltb ?t ?n) then _ else _) = _ =>
    destruct (Nat.ltb_spec t n) as [Hlt|Hlt]; cbn [negb] in H; [|discriminate H] end;
  rewrite Hpc in H.

(* what the sleeper sees after the swap: ginv (without the localList clause) at the loop head *)
Lemma swapped : forall st c,
  inv st -> pc_of st 0 = PNwSwap c -> 0 < length (pcs st) ->
  ginv false (set_pc (set_local (set_shared st []) (rev_append (shared st) (local st))) 0 (PNwLoad1 c)).
Proof.
  intros st c Hinv Hpc Hlt. leaf Hinv Hpc Hlt.
  intros w0; pose proof (i_tok w0); tok_eqs w0 Hpc Hlt; pc0simp Hpc Hlt.
  rewrite cnt_rev_append. cbn [cnt]. destruct c; tok_finish.
Qed.

Lemma step_PNwSwap : forall st t st' evs c,
  inv st -> pc_of st t = PNwSwap c -> step_ev st t = Some (st', evs) -> inv st'.
Proof.
  intros st t st' evs c Hinv Hpc H. is0 Hinv Hpc t. openstep H Hpc.
  pose proof (swapped st c Hinv Hpc Hlt) as Hsw.
  set (st1 := set_local (set_shared st []) (rev_append (shared st) (local st))) in *.
  destruct (local st1) eqn:El.
  { exfalso. unfold st1 in El. simpl in El. apply rev_append_nil in El. destruct El as [El _].
    eapply (i_swap _ _ Hinv); eauto. }
  unfold some2 in H. rewrite <- (enter_next_set_pc st1 (PNwLoad1 c)) in H.
  set (V := set_pc st1 0 (PNwLoad1 c)) in *.
  assert (HpV : pc_of V 0 = PNwLoad1 c).
  { unfold V. rewrite pc_of_set_pc by (simpl; exact Hlt). reflexivity. }
  assert (HlV : 0 < length (pcs V)) by (unfold V, set_pc; simpl; rewrite length_lset; exact Hlt).
  destruct c as [b|pend].
  - (* Fetch: take the front of localList *)
    assert (Hloc : local V = n :: l) by exact El.
    unfold enter_next in H. rewrite Hloc in H. inversion H; subst; clear H.
    clearbody V. clear Hinv Hpc Hlt El st1 st. 
    leaf Hsw HpV HlV.
  - (* Done: pull as long as pending and localList are both non-empty *)
    some_fst H. eapply done_drain; eauto.
Qed.

(* Done, first loop: the next waker of allWakers, or the second loop *)
Lemma done_next_inv : forall st rest pend,
  ginv false (set_pc st 0 (match rest with w :: r => PDLoad r pend w | [] => PNwLoad1 (CDone pend) end)) ->
  0 < length (pcs st) ->
  inv (fst (done_next st 0 rest pend)).
Proof.
  intros st rest pend Hg Hlt. unfold done_next. destruct rest as [|w r].
  - rewrite <- (enter_next_set_pc st (PNwLoad1 (CDone pend))). eapply done_drain; eauto.
    + rewrite pc_of_set_pc by exact Hlt. reflexivity.
    + unfold set_pc; simpl; rewrite length_lset; exact Hlt.
  - simpl. destruct Hg. constructor; try assumption.
    intros _. rewrite pc_of_set_pc by exact Hlt. simpl. discriminate.
Qed.

Ltac nodup_cnt H :=
  apply cnt_NoDup; let x := fresh "x" in intros x; pose proof (NoDup_cnt _ H x);
  cbn [cnt app] in *; rewrite ?cnt_app in *; cbn [cnt app] in *; lia.

Lemma mem_cons : forall w x l, mem w (x :: l) = Nat.eqb x w || mem w l.
Proof. intros. unfold mem. simpl. rewrite (Nat.eqb_sym w x). reflexivity. Qed.

Lemma mem_nil : forall w, mem w [] = false.
Proof. reflexivity. Qed.

Ltac bool_eq :=
  rewrite ?mem_cons, ?mem_nil;
  repeat match goal with |- context [Nat.eqb ?a ?b] => destruct (Nat.eqb a b) end;
  repeat match goal with |- context [mem ?a ?b] => destruct (mem a b) end; reflexivity.

Lemma step_PDLoad : forall st t st' evs rest pend w,
  inv st -> pc_of st t = PDLoad rest pend w -> step_ev st t = Some (st', evs) -> inv st'.
Proof.
  intros st t st' evs rest pend w Hinv Hpc H. is0 Hinv Hpc t. openstep H Hpc.
  assert (Hmove : ws st w <> WSlp -> inv (fst (done_next st 0 rest (w :: pend)))).
  { intros Ews. apply done_next_inv; [|exact Hlt].
    destruct rest as [|w' r]; leaf Hinv Hpc Hlt.
    - intros w0; pose proof (i_tok w0) as Hw; tok_eqs w0 Hpc Hlt; pc0simp Hpc Hlt.
      replace (mem w0 (w :: pend)) with (Nat.eqb w w0 || mem w0 [] || mem w0 pend) by bool_eq.
      tok_finish.
    - pc0simp Hpc Hlt. intros w0 [<-|Hin]; [assumption|]. apply i_dp. assumption.
    - intros w0; pose proof (i_tok w0) as Hw; tok_eqs w0 Hpc Hlt; pc0simp Hpc Hlt.
      replace (Nat.eqb w' w0 || mem w0 r || mem w0 (w :: pend))
        with (Nat.eqb w w0 || mem w0 (w' :: r) || mem w0 pend) by bool_eq.
      tok_finish.
    - pc0simp Hpc Hlt. nodup_cnt i_dl.
    - pc0simp Hpc Hlt. intros w0 [<-|Hin]; [assumption|]. apply i_dp. assumption. }
  destruct (ws st w) eqn:Ews; unfold some2 in H.
  - some_fst H. apply Hmove. discriminate.
  - inversion H; subst; clear H. leaf Hinv Hpc Hlt.
  - some_fst H. apply Hmove. discriminate.
Qed.

Lemma nodup_head_out : forall w l, NoDup (w :: l) -> mem w l = false.
Proof. intros. inversion H; subst. apply cnt_mem_false. destruct (cnt w l) eqn:E; [reflexivity|]. exfalso. apply H2. apply cnt_In. lia. Qed.

Lemma mem_app : forall w a b, mem w (a ++ b) = mem w a || mem w b.
Proof. intros. unfold mem. apply existsb_app. Qed.

Lemma step_PDCas : forall st t st' evs rest pend w,
  inv st -> pc_of st t = PDCas rest pend w -> step_ev st t = Some (st', evs) -> inv st'.
Proof.
  intros st t st' evs rest pend w Hinv Hpc H. is0 Hinv Hpc t. openstep H Hpc.
  destruct (ws st w) eqn:Ews; unfold some2 in H.
  - inversion H; subst; clear H. leaf Hinv Hpc Hlt.
  - some_fst H. apply done_next_inv; [|simpl; exact Hlt].
    assert (Hout : mem w (rest ++ pend) = false).
    { apply nodup_head_out. pose proof (i_dl _ _ Hinv) as Hd. rewrite Hpc in Hd. exact Hd. }
    rewrite mem_app in Hout. apply orb_false_iff in Hout. destruct Hout as [Hr Hp].
    destruct rest as [|w' r]; leaf Hinv Hpc Hlt.
    + intros w0; pose proof (i_tok w0) as Hw; tok_eqs w0 Hpc Hlt; pc0simp Hpc Hlt.
      unfold upd. rewrite mem_nil in *. destruct (Nat.eqb_spec w0 w) as [->|Hne].
      * rewrite Nat.eqb_refl in Hw. rewrite Hp. rewrite andb_false_r. cbn [orb] in Hw. rewrite andb_true_r in Hw.
        rewrite Ews in Hw. unfold tok_ok in *. destruct (mem w (allw st)); intuition (try congruence; try lia).
      * destruct (Nat.eqb_spec w w0); [congruence|]. cbn [orb] in Hw. tok_finish.
    + pc0simp Hpc Hlt. inversion i_dl; assumption.
    + intros w0; pose proof (i_tok w0) as Hw; tok_eqs w0 Hpc Hlt; pc0simp Hpc Hlt.
      unfold upd. destruct (Nat.eqb_spec w0 w) as [->|Hne].
      * rewrite Nat.eqb_refl in Hw. cbn [orb] in Hw. rewrite andb_true_r in Hw.
        rewrite mem_cons in Hr. apply orb_false_iff in Hr. destruct Hr as [Hr1 Hr2].
        rewrite Hr1, Hr2, Hp. cbn [orb]. rewrite andb_false_r.
        rewrite Ews in Hw. unfold tok_ok in *. destruct (mem w (allw st)); intuition (try congruence; try lia).
      * destruct (Nat.eqb_spec w w0); [congruence|]. cbn [orb] in Hw.
        replace (Nat.eqb w' w0 || mem w0 r || mem w0 pend) with (mem w0 (w' :: r) || mem w0 pend) by bool_eq.
        tok_finish.
    + pc0simp Hpc Hlt. inversion i_dl; assumption.
  - inversion H; subst; clear H. leaf Hinv Hpc Hlt.
Qed.

Lemma step_PIdle : forall st t st' evs,
  inv st -> pc_of st t = PIdle -> step_ev st t = Some (st', evs) -> inv st'.
Proof.
  intros st t st' evs Hinv Hpc H. openstep H Hpc.
  destruct (prog_of st t) as [|o rest] eqn:Hprog; [discriminate|].
  destruct o.
  - destruct (Nat.eqb t 0 && negb (mem w (allw st))) eqn:G; [|discriminate].
    apply andb_prop in G. destruct G as [G1 G2]. apply Nat.eqb_eq in G1. subst t.
    apply negb_true_iff in G2.
    inversion H; subst; clear H. leaf Hinv Hpc Hlt.
    + intros w0; pose proof (i_tok w0) as Hw; tok_eqs w0 Hpc Hlt; pc0simp Hpc Hlt.
      rewrite mem_cons. destruct (Nat.eqb_spec w w0) as [->|Hne].
      * rewrite G2 in Hw. cbn [negb orb andb] in *. tok_finish.
      * cbn [negb orb andb] in *. rewrite andb_true_r in *. tok_finish.
    + constructor; [|assumption]. intros Hin. apply cnt_In in Hin. apply cnt_mem_false in G2. lia.
    + pc0simp Hpc Hlt. intros w0 [HH|[? HH]]; [|discriminate]. inversion HH; subst.
      rewrite mem_cons, Nat.eqb_refl. reflexivity.
  - destruct (Nat.eqb_spec t 0); [subst t|discriminate].
    unfold enter_next in H. cbn [local set_prog] in H.
    destruct (local st) eqn:Hloc; inversion H; subst; clear H; leaf Hinv Hpc Hlt.
  - destruct (Nat.eqb_spec t 0); [subst t|discriminate].
    destruct (done_next (set_prog st 0 rest) 0 (allw st) []) as [st2 evs2] eqn:Hdn.
    inversion H; subst; clear H.
    change st' with (fst (st', evs2)). rewrite <- Hdn. apply done_next_inv; [|simpl; exact Hlt].
    destruct (allw st) as [|w r] eqn:Hall; leaf Hinv Hpc Hlt.
    + intros w0; pose proof (i_tok w0) as Hw; tok_eqs w0 Hpc Hlt; pc0simp Hpc Hlt.
      rewrite ?Hall in *. rewrite mem_nil in *. cbn [andb] in *. tok_finish.
    + intros w0; pose proof (i_tok w0) as Hw; tok_eqs w0 Hpc Hlt; pc0simp Hpc Hlt.
      rewrite ?Hall in *. rewrite andb_true_r in Hw.
      replace (mem w0 (w :: r) && (Nat.eqb w w0 || mem w0 r || mem w0 [])) with (mem w0 (w :: r)) by bool_eq.
      tok_finish.
    + pc0simp Hpc Hlt. rewrite app_nil_r. rewrite Hall in *. assumption.
  - inversion H; subst; clear H. leaf Hinv Hpc Hlt.
  - inversion H; subst; clear H. leaf Hinv Hpc Hlt.
  - inversion H; subst; clear H. leaf Hinv Hpc Hlt.
Qed.

Theorem inv_step : forall st t st' evs, inv st -> step_ev st t = Some (st', evs) -> inv st'.
Proof.
  intros st t st' evs Hinv H.
  destruct (pc_of st t) eqn:Hpc.
  - eapply step_PIdle; eauto.
  - eapply step_PAwLoad; eauto.
  - eapply step_PAwCas; eauto.
  - eapply step_PNwLoad1; eauto.
  - eapply step_PNwStoreP; eauto.
  - eapply step_PNwLoad2; eauto.
  - eapply step_PNwStore0; eauto.
  - eapply step_PNwPark; eauto.
  - unfold step_ev, step_gen in H. rewrite Hpc in H. destruct (negb _); discriminate.
  - eapply step_PNwSwap; eauto.
  - eapply step_PFSwap; eauto.
  - eapply step_PDLoad; eauto.
  - eapply step_PDCas; eauto.
  - eapply step_PEnqLoad; eauto.
  - eapply step_PEnqCas; eauto.
  - eapply step_PEnqLoadG; eauto.
  - eapply step_PEnqCasG; eauto.
  - eapply step_PAsLoad; eauto.
  - eapply step_PAsSwap; eauto.
  - eapply step_PClLoad; eauto.
  - eapply step_PClCas; eauto.
  - eapply step_PIsLoad; eauto.
  - unfold step_ev, step_gen in H. rewrite Hpc in H. destruct (negb _); discriminate.
Qed.

Lemma nth_map_const : forall {A} (l : list A) t, nth t (map (fun _ => PIdle) l) PIdle = PIdle.
Proof. induction l; destruct t; simpl; auto. Qed.

Lemma countp_idle : forall {A} f (l : list A), f PIdle = false -> countp f (map (fun _ => PIdle) l) = 0.
Proof. induction l; simpl; intros; [reflexivity|]. rewrite H. simpl. auto. Qed.

Theorem inv_init : forall ps, inv (init ps).
Proof.
  intros ps. constructor; unfold init, attb, tok, pc_of; simpl; try rewrite !nth_map_const; simpl.
  - intros w. rewrite !countp_idle by reflexivity. simpl. split; [discriminate|reflexivity].
  - constructor.
  - intros. rewrite nth_map_const. reflexivity.
  - apply map_length.
  - reflexivity.
  - discriminate.
  - intros c [?|?]; discriminate.
  - intros c [?|?]; discriminate.
  - intros. rewrite nth_map_const in H. discriminate.
  - discriminate.
  - intros w [?|[? ?]]; discriminate.
  - constructor.
  - intros w [].
  - intros. rewrite nth_map_const. discriminate.
Qed.

