(* Proofs about the transition system Model/Tmutex.v (pkg/tmutex): invariants over ALL reachable
   states (any number of threads, any client programs, any schedule), TryLock soundness and
   non-blocking, no lost wake-up, deadlock freedom, termination of every schedule for finite
   client programs, and the refutation of a naive Unlock variant. *)
From Coq Require Import ZArith Bool List Lia ZifyBool.
From NP Require Import Model.Tmutex.
Import ListNotations.
Open Scope Z_scope.

(* ------------------------------------------------------------------ reachability *)
Inductive reachable_from (progs : list (list op)) : state -> Prop :=
| R_init : reachable_from progs (init progs)
| R_step : forall s i s', reachable_from progs s -> step s i = Some s' -> reachable_from progs s'.

Definition reachable (s : state) : Prop := exists progs, reachable_from progs s.

(* ------------------------------------------------------------------ list utilities *)
Lemma nth_error_upd_same {A} : forall (l : list A) i a x,
  nth_error l i = Some a -> nth_error (upd l i x) i = Some x.
Proof.
  induction l as [|b l IH]; intros [|i] a x H; cbn in *; try discriminate; eauto.
Qed.

Lemma nth_error_upd_other {A} : forall (l : list A) i j x,
  i <> j -> nth_error (upd l i x) j = nth_error l j.
Proof.
  induction l as [|b l IH]; intros [|i] [|j] x H; cbn; auto; try congruence.
Qed.

Lemma length_upd {A} : forall (l : list A) i x, length (upd l i x) = length l.
Proof. induction l as [|b l IH]; intros [|i] x; cbn; auto. Qed.

Lemma Forall_upd {A} (P : A -> Prop) : forall l i x, Forall P l -> P x -> Forall P (upd l i x).
Proof.
  induction l as [|b l IH]; intros [|i] x Hl Hx; cbn; auto; inversion Hl; subst; constructor; auto.
Qed.

Lemma Forall_nth_error {A} (P : A -> Prop) : forall l i a, Forall P l -> nth_error l i = Some a -> P a.
Proof.
  intros l i a Hl Hn. rewrite Forall_forall in Hl. apply Hl. eapply nth_error_In; eauto.
Qed.

Lemma b2z_range b : 0 <= b2z b <= 1.
Proof. destruct b; cbn; lia. Qed.

Lemma sumf_upd : forall f l i a x,
  nth_error l i = Some a -> sumf f (upd l i x) = sumf f l - f a + f x.
Proof.
  induction l as [|b l IH]; intros [|i] a x H; cbn in *; try discriminate.
  - inversion H; subst; lia.
  - rewrite (IH _ _ _ H); lia.
Qed.

Lemma sumf_nonneg f l : (forall t, 0 <= f t) -> 0 <= sumf f l.
Proof. intros Hf. induction l as [|b l IH]; cbn; [lia|]. specialize (Hf b). lia. Qed.

Lemma sumf_ge_elem f : forall l i a,
  (forall t, 0 <= f t) -> nth_error l i = Some a -> f a <= sumf f l.
Proof.
  induction l as [|b l IH]; intros [|i] a Hf H; cbn in *; try discriminate.
  - inversion H; subst. pose proof (sumf_nonneg f l Hf). lia.
  - pose proof (IH _ _ Hf H). specialize (Hf b). lia.
Qed.

Lemma sumf_ge_two f : forall l i j a b,
  (forall t, 0 <= f t) -> i <> j -> nth_error l i = Some a -> nth_error l j = Some b ->
  f a + f b <= sumf f l.
Proof.
  induction l as [|c l IH]; intros [|i] [|j] a b Hf Hij Ha Hb; cbn in *; try discriminate.
  - congruence.
  - inversion Ha; subst. pose proof (sumf_ge_elem f _ _ _ Hf Hb). lia.
  - inversion Hb; subst. pose proof (sumf_ge_elem f _ _ _ Hf Ha). lia.
  - assert (i <> j) by congruence. pose proof (IH _ _ _ _ Hf H Ha Hb). specialize (Hf c). lia.
Qed.

Lemma sumf_pos_exists f : forall l, 0 < sumf f l -> exists i a, nth_error l i = Some a /\ 0 < f a.
Proof.
  induction l as [|b l IH]; cbn; intros H; [lia|].
  destruct (Z_lt_dec 0 (f b)) as [Hb|Hb].
  - exists O, b. auto.
  - destruct IH as (i & a & Hn & Ha); [lia|]. exists (S i), a. auto.
Qed.

Lemma sumf_map_init f progs : (forall p, f (init_thread p) = 0) -> sumf f (map init_thread progs) = 0.
Proof. intros Hf. induction progs as [|p l IH]; cbn; auto. rewrite Hf, IH. reflexivity. Qed.

Lemma pc_eqb_true a b : pc_eqb a b = true -> a = b.
Proof. destruct a, b; cbn; congruence. Qed.

Lemma fP_pos p t : 0 < b2z (pc_eqb (t_pc t) p) -> t_pc t = p.
Proof. destruct (pc_eqb (t_pc t) p) eqn:E; cbn; [intros _; apply pc_eqb_true; auto | lia]. Qed.

Lemma fH_pos t : 0 < b2z (t_held t) -> t_held t = true.
Proof. destruct (t_held t); cbn; [auto | lia]. Qed.

(* ------------------------------------------------------------------ the client ([next_op]) *)
Lemma next_op_lock : forall p h r, next_op h p = Some (OLock, r) -> h = false.
Proof.
  induction p as [|o p IH]; cbn; intros h r H; [discriminate|].
  destruct o, h; try discriminate; eauto; try (inversion H; fail).
Qed.

Lemma next_op_unlock : forall p h r, next_op h p = Some (OUnlock, r) -> h = true.
Proof.
  induction p as [|o p IH]; cbn; intros h r H; [discriminate|].
  destruct o, h; try discriminate; eauto; try (inversion H; fail).
Qed.

Lemma next_op_suffix : forall p h o r, next_op h p = Some (o, r) -> exists pre, p = pre ++ o :: r.
Proof.
  induction p as [|a p IH]; cbn; intros h o r H; [discriminate|].
  destruct a, h; try (inversion H; subst; exists []; reflexivity);
    destruct (IH _ _ _ H) as (pre & ->); eexists (_ :: pre); reflexivity.
Qed.

Lemma last_app_cons {A} : forall (pre : list A) o r d, last (pre ++ o :: r) d = last (o :: r) d.
Proof.
  induction pre as [|a pre IH]; intros o r d; [reflexivity|].
  change ((a :: pre) ++ o :: r) with (a :: (pre ++ o :: r)).
  destruct (pre ++ o :: r) eqn:E.
  - destruct pre; discriminate.
  - rewrite <- E. cbn [last]. rewrite E. rewrite <- E. apply IH.
Qed.

Lemma next_op_held_ends_unlock : forall p, last p OLock = OUnlock -> next_op true p <> None.
Proof.
  induction p as [|o p IH]; cbn [last next_op]; intros H; [discriminate|].
  destruct o; try discriminate.
  destruct p as [|o' p']; [discriminate|]. apply IH. exact H.
Qed.

(* ------------------------------------------------------------------ inversion of a step *)
Lemma step_ev_inv : forall s i s' ev, step_ev s i = Some (s', ev) ->
  exists th v' ch' th', nth_error (s_thr s) i = Some th /\
    tstep (s_v s) (s_ch s) th = Some (v', ch', th', ev) /\
    s' = mkState v' ch' (upd (s_thr s) i th').
Proof.
  intros s i s' ev H. unfold step_ev, step_ev_gen in H.
  destruct (nth_error (s_thr s) i) as [th|] eqn:Hn; [|discriminate].
  destruct (tstep_gen sig_real (s_v s) (s_ch s) th) as [[[[v' ch'] th'] ev']|] eqn:Ht; [|discriminate].
  inversion H; subst. exists th, v', ch', th'. auto.
Qed.

Lemma step_inv : forall s i s', step s i = Some s' ->
  exists th v' ch' th' ev, nth_error (s_thr s) i = Some th /\
    tstep (s_v s) (s_ch s) th = Some (v', ch', th', ev) /\
    s' = mkState v' ch' (upd (s_thr s) i th').
Proof.
  intros s i s' H. unfold step, step_gen in H. fold step_ev in H.
  destruct (step_ev s i) as [[s1 ev]|] eqn:E; [|discriminate].
  cbn in H. inversion H; subst.
  destruct (step_ev_inv _ _ _ _ E) as (th & v' & ch' & th' & Hn & Ht & Hs).
  exists th, v', ch', th', ev. auto.
Qed.

Lemma step_ev_intro : forall s i th v' ch' th' ev,
  nth_error (s_thr s) i = Some th -> tstep (s_v s) (s_ch s) th = Some (v', ch', th', ev) ->
  step_ev s i = Some (mkState v' ch' (upd (s_thr s) i th'), ev).
Proof.
  intros s i th v' ch' th' ev Hn Ht. unfold step_ev, step_ev_gen. rewrite Hn.
  unfold tstep in Ht. rewrite Ht. reflexivity.
Qed.

Lemma step_intro : forall s i th v' ch' th' ev,
  nth_error (s_thr s) i = Some th -> tstep (s_v s) (s_ch s) th = Some (v', ch', th', ev) ->
  step s i = Some (mkState v' ch' (upd (s_thr s) i th')).
Proof.
  intros. unfold step, step_gen. fold step_ev. erewrite step_ev_intro; eauto. reflexivity.
Qed.

Lemma step_of_step_ev s i s' ev : step_ev s i = Some (s', ev) -> step s i = Some s'.
Proof. intros H. unfold step, step_gen. fold step_ev. rewrite H. reflexivity. Qed.

(* case analysis of one thread-local step *)
Ltac tstep_cases Ht :=
  unfold tstep, tstep_gen, sig_real in Ht;
  repeat match type of Ht with
         | context [match ?x with _ => _ end] => destruct x eqn:?
         end;
  try discriminate Ht; inversion Ht; subst; clear Ht.

Ltac held_facts :=
  try match goal with H : next_op _ _ = Some (OLock, _) |- _ =>
        let F := fresh "Hheld" in pose proof (next_op_lock _ _ _ H) as F; rewrite F in * end;
  try match goal with H : next_op _ _ = Some (OUnlock, _) |- _ =>
        let F := fresh "Hheld" in pose proof (next_op_unlock _ _ _ H) as F; rewrite F in * end.

Ltac pc_facts :=
  repeat match goal with H : t_pc _ = _ |- _ => rewrite H in * end.

(* ------------------------------------------------------------------ the invariant *)
Definition I_mutex (s : state) : Prop :=
  (holders s = 0 /\ s_v s = 1) \/ (holders s = 1 /\ s_v s <= 0).

Definition I_wake (s : state) : Prop :=
  0 < at_pc PLrecv s ->
  s_ch s = true \/ 0 < at_pc PUsend s \/ 0 < at_pc PLload s + at_pc PLswap s \/
  (holders s = 1 /\ s_v s < 0).

(* a holder is never inside Lock/Unlock, and its TryLock returns at once *)
Definition I_holder_idle (s : state) : Prop :=
  Forall (fun th => t_held th = true -> t_pc th = PIdle) (s_thr s).

Definition Inv (s : state) : Prop := I_mutex s /\ I_wake s /\ I_holder_idle s.

Lemma Inv_init progs : Inv (init progs).
Proof.
  unfold Inv, I_mutex, I_wake, I_holder_idle, holders, at_pc, init; cbn [s_thr s_v s_ch].
  rewrite !sumf_map_init by reflexivity.
  repeat split; try lia.
  apply Forall_forall. intros th Hin. apply in_map_iff in Hin. destruct Hin as (p & <- & _). cbn. discriminate.
Qed.

Lemma Inv_step s i s' : Inv s -> step s i = Some s' -> Inv s'.
Proof.
  intros (HM & HW & HK) Hs.
  destruct (step_inv _ _ _ Hs) as (th & v' & ch' & th' & ev & Hn & Ht & ->).
  pose proof (sumf_ge_elem (fun t => b2z (t_held t)) _ _ _ (fun t => proj1 (b2z_range _)) Hn) as Hge.
  cbn beta in Hge.
  pose proof (b2z_range (t_held th)) as Hb.
  pose proof (sumf_nonneg (fun t => b2z (t_held t)) (s_thr s) (fun t => proj1 (b2z_range _))) as N0.
  pose proof (sumf_nonneg (fun t => b2z (pc_eqb (t_pc t) PLrecv)) (s_thr s) (fun t => proj1 (b2z_range _))) as N1.
  pose proof (sumf_nonneg (fun t => b2z (pc_eqb (t_pc t) PUsend)) (s_thr s) (fun t => proj1 (b2z_range _))) as N2.
  pose proof (sumf_nonneg (fun t => b2z (pc_eqb (t_pc t) PLload)) (s_thr s) (fun t => proj1 (b2z_range _))) as N3.
  pose proof (sumf_nonneg (fun t => b2z (pc_eqb (t_pc t) PLswap)) (s_thr s) (fun t => proj1 (b2z_range _))) as N4.
  pose proof (Forall_nth_error _ _ _ _ HK Hn) as HKth. cbn beta in HKth.
  unfold Inv, I_mutex, I_wake, I_holder_idle, holders, at_pc in *.
  cbn [s_thr s_v s_ch] in *.
  rewrite !(sumf_upd _ _ _ _ _ Hn). cbn beta.
  split; [|split].
  - (* I_mutex *)
    tstep_cases Ht; held_facts; pc_facts; cbn [t_held t_pc pc_eqb b2z] in *; lia.
  - (* I_wake *)
    tstep_cases Ht; held_facts; pc_facts; cbn [t_held t_pc pc_eqb b2z] in *;
      destruct (s_ch s); intuition lia.
  - (* I_holder_idle *)
    apply Forall_upd; [exact HK|].
    tstep_cases Ht; held_facts; pc_facts; cbn [t_held t_pc pc_eqb b2z] in *;
      try (intros; reflexivity); try (intros; discriminate); try assumption.
    all: try (intros Hh; rewrite Hh in *; cbn [b2z] in *; first [ lia | specialize (HKth eq_refl); discriminate ]).
Qed.

Lemma reachable_from_Inv progs s : reachable_from progs s -> Inv s.
Proof. induction 1; [apply Inv_init | eapply Inv_step; eauto]. Qed.

Lemma reachable_Inv s : reachable s -> Inv s.
Proof. intros (progs & H). eapply reachable_from_Inv; eauto. Qed.

(* reachable = some schedule from some initial state *)
Lemma run_app : forall sched1 sched2 s, run s (sched1 ++ sched2) =
  match run s sched1 with Some s' => run s' sched2 | None => None end.
Proof.
  induction sched1 as [|i r IH]; intros sched2 s; [reflexivity|].
  unfold run in *. cbn [app run_gen]. destruct (step_gen sig_real s i); [apply IH | reflexivity].
Qed.

Lemma run_cons s i r : run s (i :: r) = match step s i with Some s' => run s' r | None => None end.
Proof. reflexivity. Qed.

Lemma reachable_from_run progs : forall sched s s',
  reachable_from progs s -> run s sched = Some s' -> reachable_from progs s'.
Proof.
  induction sched as [|i r IH]; intros s s' Hr H.
  - inversion H; subst; auto.
  - rewrite run_cons in H. destruct (step s i) as [s1|] eqn:E; [|discriminate].
    eapply IH; [eapply R_step; eauto | exact H].
Qed.

Lemma reachable_from_iff_run progs s :
  reachable_from progs s <-> exists sched, run (init progs) sched = Some s.
Proof.
  split.
  - induction 1 as [|s i s' Hr (sched & IH) Hs].
    + exists []. reflexivity.
    + exists (sched ++ [i]). rewrite run_app, IH, run_cons, Hs. reflexivity.
  - intros (sched & H). eapply reachable_from_run; [apply R_init | exact H].
Qed.

(* ------------------------------------------------------------------ mutual exclusion *)
Lemma mutex_inv s : reachable s ->
  (holders s = 0 /\ s_v s = 1) \/ (holders s = 1 /\ s_v s <= 0).
Proof. intros H. apply reachable_Inv in H. apply H. Qed.

Lemma mutual_exclusion s : reachable s -> holders s <= 1.
Proof. intros H. destruct (mutex_inv s H); lia. Qed.

Lemma mutual_exclusion_threads s i j a b : reachable s ->
  nth_error (s_thr s) i = Some a -> nth_error (s_thr s) j = Some b ->
  t_held a = true -> t_held b = true -> i = j.
Proof.
  intros Hr Ha Hb Hha Hhb.
  destruct (Nat.eq_dec i j) as [|Hij]; [assumption|exfalso].
  pose proof (mutual_exclusion s Hr) as Hm. unfold holders in Hm.
  pose proof (sumf_ge_two (fun t => b2z (t_held t)) _ _ _ _ _ (fun t => proj1 (b2z_range _)) Hij Ha Hb) as H2.
  cbn beta in H2. rewrite Hha, Hhb in H2. cbn in H2. lia.
Qed.

(* v = 1 exactly when the mutex is free *)
Lemma free_iff_v1 s : reachable s -> (holders s = 0 <-> s_v s = 1).
Proof. intros H. destruct (mutex_inv s H); lia. Qed.

(* ------------------------------------------------------------------ TryLock *)
Definition thread_at (s : state) (i : nat) (P : thread -> Prop) : Prop :=
  exists th, nth_error (s_thr s) i = Some th /\ P th.

Lemma trylock_sound s i s' : reachable s -> step_ev s i = Some (s', EvTryT) ->
  thread_at s i (fun th => t_pc th = PTcas) /\ s_v s = 1 /\ s_v s' = 0 /\
  holders s = 0 /\ holders s' = 1 /\
  thread_at s' i (fun th => t_held th = true /\ t_pc th = PIdle /\ exists r, t_res th = true :: r).
Proof.
  intros Hr Hs.
  assert (Hr' : reachable s').
  { destruct Hr as (progs & Hr). exists progs. eapply R_step; eauto. eapply step_of_step_ev; eauto. }
  pose proof (mutex_inv _ Hr) as HM. pose proof (mutex_inv _ Hr') as HM'.
  destruct (step_ev_inv _ _ _ _ Hs) as (th & v' & ch' & th' & Hn & Ht & ->).
  cbn [s_v] in *.
  unfold EvTryT, EvLock, EvNone, EvTryF, EvUnlock in *.
  tstep_cases Ht; try discriminate.
  assert (s_v s = 1) by lia.
  repeat split; try lia.
  - exists th. auto.
  - exists (mkThread PIdle true (t_prog th) (true :: t_res th)). split.
    + cbn [s_thr]. eapply nth_error_upd_same; eauto.
    + cbn. eauto.
Qed.

(* TryLock never takes a blocking step: both of its steps are enabled in every state *)
Lemma trylock_nonblocking s i th :
  nth_error (s_thr s) i = Some th ->
  (t_pc th = PIdle -> (exists r, next_op (t_held th) (t_prog th) = Some (OTryLock, r)) ->
     exists s' ev, step_ev s i = Some (s', ev) /\
       ((ev = EvTryF /\ thread_at s' i (fun t => t_pc t = PIdle)) \/
        (ev = EvNone /\ thread_at s' i (fun t => t_pc t = PTcas)))) /\
  (t_pc th = PTcas ->
     exists s' ev, step_ev s i = Some (s', ev) /\ (ev = EvTryT \/ ev = EvTryF) /\
       thread_at s' i (fun t => t_pc t = PIdle)).
Proof.
  intros Hn. split.
  - intros Hpc (r & Hop).
    destruct (s_v s <=? 0) eqn:Hv.
    + eexists _, EvTryF. split.
      * eapply step_ev_intro; eauto. unfold tstep, tstep_gen. rewrite Hpc, Hop, Hv. reflexivity.
      * left. split; auto. eexists. split; [cbn [s_thr]; eapply nth_error_upd_same; eauto | reflexivity].
    + eexists _, EvNone. split.
      * eapply step_ev_intro; eauto. unfold tstep, tstep_gen. rewrite Hpc, Hop, Hv. reflexivity.
      * right. split; auto. eexists. split; [cbn [s_thr]; eapply nth_error_upd_same; eauto | reflexivity].
  - intros Hpc.
    destruct (s_v s =? 1) eqn:Hv.
    + eexists _, EvTryT. split; [|split].
      * eapply step_ev_intro; eauto. unfold tstep, tstep_gen. rewrite Hpc, Hv. reflexivity.
      * auto.
      * eexists. split; [cbn [s_thr]; eapply nth_error_upd_same; eauto | reflexivity].
    + eexists _, EvTryF. split; [|split].
      * eapply step_ev_intro; eauto. unfold tstep, tstep_gen. rewrite Hpc, Hv. reflexivity.
      * auto.
      * eexists. split; [cbn [s_thr]; eapply nth_error_upd_same; eauto | reflexivity].
Qed.

(* the mutex is free and the caller's two steps are not interleaved with anybody else's *)
Lemma trylock_succeeds_when_free s i th r : reachable s -> holders s = 0 ->
  nth_error (s_thr s) i = Some th -> t_pc th = PIdle ->
  next_op (t_held th) (t_prog th) = Some (OTryLock, r) ->
  exists s1 s2, step_ev s i = Some (s1, EvNone) /\ step_ev s1 i = Some (s2, EvTryT) /\
    holders s2 = 1 /\ thread_at s2 i (fun t => t_held t = true /\ exists q, t_res t = true :: q).
Proof.
  intros Hr Hfree Hn Hpc Hop.
  assert (Hv : s_v s = 1) by (apply (free_iff_v1 s Hr); assumption).
  set (th1 := mkThread PTcas (t_held th) r (t_res th)).
  set (s1 := mkState (s_v s) (s_ch s) (upd (s_thr s) i th1)).
  assert (H1 : step_ev s i = Some (s1, EvNone)).
  { eapply step_ev_intro; eauto. unfold tstep, tstep_gen. rewrite Hpc, Hop, Hv. reflexivity. }
  assert (Hn1 : nth_error (s_thr s1) i = Some th1) by (cbn [s_thr s1]; eapply nth_error_upd_same; eauto).
  set (th2 := mkThread PIdle true r (true :: t_res th)).
  set (s2 := mkState 0 (s_ch s1) (upd (s_thr s1) i th2)).
  assert (H2 : step_ev s1 i = Some (s2, EvTryT)).
  { eapply step_ev_intro; eauto. unfold tstep, tstep_gen. cbn [t_pc th1 s1 s_v]. rewrite Hv. reflexivity. }
  exists s1, s2. split; [exact H1|]. split; [exact H2|].
  assert (Hr2 : reachable s2).
  { destruct Hr as (progs & Hr). exists progs.
    eapply R_step; [eapply R_step; [exact Hr|]|]; eapply step_of_step_ev; eauto. }
  split.
  - destruct (mutex_inv _ Hr2) as [[_ Hbad]|[Hh _]]; [cbn in Hbad; lia | exact Hh].
  - exists th2. split; [cbn [s_thr s2]; eapply nth_error_upd_same; eauto | cbn; eauto].
Qed.

(* ------------------------------------------------------------------ no lost wake-up *)
Lemma no_lost_wakeup s : reachable s -> 0 < at_pc PLrecv s ->
  s_ch s = true \/ 0 < at_pc PUsend s \/ 0 < at_pc PLload s + at_pc PLswap s \/
  (holders s = 1 /\ s_v s < 0).
Proof. intros H. apply reachable_Inv in H. apply H. Qed.

Lemma not_stuck s : reachable s -> ~ stuck s.
Proof.
  intros Hr (H0 & H1 & H2 & H3 & H4 & H5).
  destruct (no_lost_wakeup s Hr H5) as [E|[E|[E|[E _]]]]; try lia; try congruence.
Qed.

(* frame: a step of thread j does not touch thread i *)
Lemma step_other s j s' i : step s j = Some s' -> j <> i ->
  nth_error (s_thr s') i = nth_error (s_thr s) i.
Proof.
  intros Hs Hij. destruct (step_inv _ _ _ Hs) as (th & v' & ch' & th' & ev & Hn & Ht & ->).
  cbn [s_thr]. apply nth_error_upd_other. exact Hij.
Qed.

Lemma run_others : forall sched s s' i, run s sched = Some s' -> (forall j, In j sched -> j <> i) ->
  nth_error (s_thr s') i = nth_error (s_thr s) i.
Proof.
  induction sched as [|j r IH]; intros s s' i H Hall.
  - inversion H; subst; reflexivity.
  - rewrite run_cons in H. destruct (step s j) as [s1|] eqn:E; [|discriminate].
    rewrite (IH _ _ _ H) by (intros k Hk; apply Hall; right; exact Hk).
    eapply step_other; eauto. apply Hall. left. reflexivity.
Qed.

(* An Unlock that swaps out a non-zero value goes on to the send, and whatever the other threads
   do in between, its next step is enabled, completes the Unlock and leaves a token in the channel *)
Lemma unlock_with_waiters_signals s i th r s1 :
  nth_error (s_thr s) i = Some th -> t_pc th = PIdle ->
  next_op (t_held th) (t_prog th) = Some (OUnlock, r) -> s_v s <> 0 ->
  step s i = Some s1 ->
  thread_at s1 i (fun t => t_pc t = PUsend) /\
  forall sched s2, (forall j, In j sched -> j <> i) -> run s1 sched = Some s2 ->
    exists s3, step_ev s2 i = Some (s3, EvUnlock) /\ s_ch s3 = true /\
               thread_at s3 i (fun t => t_pc t = PIdle /\ t_held t = false).
Proof.
  intros Hn Hpc Hop Hv Hs.
  destruct (step_inv _ _ _ Hs) as (th0 & v' & ch' & th' & ev & Hn0 & Ht & ->).
  rewrite Hn in Hn0. inversion Hn0; subst th0. clear Hn0.
  unfold tstep, tstep_gen, sig_real in Ht. rewrite Hpc, Hop in Ht.
  destruct (s_v s =? 0) eqn:E; [lia|]. cbn [negb] in Ht. inversion Ht; subst. clear Ht.
  assert (Hn1 : nth_error (upd (s_thr s) i (mkThread PUsend false r (t_res th))) i =
                Some (mkThread PUsend false r (t_res th))) by (eapply nth_error_upd_same; eauto).
  split.
  - eexists. split; [cbn [s_thr]; exact Hn1 | reflexivity].
  - intros sched s2 Hall Hrun.
    pose proof (run_others _ _ _ i Hrun Hall) as Hsame. cbn [s_thr] in Hsame. rewrite Hn1 in Hsame.
    eexists. split; [|split].
    + eapply step_ev_intro; [exact Hsame|]. unfold tstep, tstep_gen. cbn [t_pc]. reflexivity.
    + reflexivity.
    + eexists. split; [cbn [s_thr]; eapply nth_error_upd_same; eauto | cbn; auto].
Qed.

(* in a reachable state, a holder that unlocks while a thread is asleep and nobody else can wake
   it finds v < 0, hence signals *)
Lemma sleeper_forces_signal s : reachable s -> 0 < at_pc PLrecv s -> s_ch s = false ->
  at_pc PUsend s = 0 -> at_pc PLload s + at_pc PLswap s = 0 -> holders s = 1 /\ s_v s < 0.
Proof.
  intros Hr H1 H2 H3 H4. destruct (no_lost_wakeup s Hr H1) as [E|[E|[E|E]]]; try lia; congruence.
Qed.

(* ------------------------------------------------------------------ a free mutex with sleepers
   can always be taken by one of the slow-path contenders, in at most 3 of its own steps *)
Definition in_slow_path (t : thread) : Prop := t_pc t = PLrecv \/ t_pc t = PLload \/ t_pc t = PLswap.

Lemma acquire_from_swap s i th : nth_error (s_thr s) i = Some th -> t_pc th = PLswap -> s_v s = 1 ->
  exists s', run s [i] = Some s' /\ thread_at s' i (fun t => t_held t = true).
Proof.
  intros Hn Hpc Hv.
  assert (Hs : step s i = Some (mkState (-1) (s_ch s) (upd (s_thr s) i (mkThread PIdle true (t_prog th) (t_res th))))).
  { eapply step_intro; eauto. unfold tstep, tstep_gen. rewrite Hpc, Hv. reflexivity. }
  eexists. split; [rewrite run_cons, Hs; reflexivity|].
  eexists. split; [cbn [s_thr]; eapply nth_error_upd_same; eauto | reflexivity].
Qed.

Lemma acquire_from_load s i th : nth_error (s_thr s) i = Some th -> t_pc th = PLload -> s_v s = 1 ->
  exists s', run s [i; i] = Some s' /\ thread_at s' i (fun t => t_held t = true).
Proof.
  intros Hn Hpc Hv.
  set (th1 := mkThread PLswap (t_held th) (t_prog th) (t_res th)).
  assert (Hs : step s i = Some (mkState (s_v s) (s_ch s) (upd (s_thr s) i th1))).
  { eapply step_intro; eauto. unfold tstep, tstep_gen. rewrite Hpc, Hv. reflexivity. }
  destruct (acquire_from_swap (mkState (s_v s) (s_ch s) (upd (s_thr s) i th1)) i th1) as (s' & Hr & Hh).
  - cbn [s_thr]. eapply nth_error_upd_same; eauto.
  - reflexivity.
  - exact Hv.
  - exists s'. split; [rewrite run_cons, Hs; exact Hr | exact Hh].
Qed.

Lemma acquire_from_recv s i th : nth_error (s_thr s) i = Some th -> t_pc th = PLrecv -> s_v s = 1 ->
  s_ch s = true ->
  exists s', run s [i; i; i] = Some s' /\ thread_at s' i (fun t => t_held t = true).
Proof.
  intros Hn Hpc Hv Hch.
  set (th1 := mkThread PLload (t_held th) (t_prog th) (t_res th)).
  assert (Hs : step s i = Some (mkState (s_v s) false (upd (s_thr s) i th1))).
  { eapply step_intro; eauto. unfold tstep, tstep_gen. rewrite Hpc, Hch. reflexivity. }
  destruct (acquire_from_load (mkState (s_v s) false (upd (s_thr s) i th1)) i th1) as (s' & Hr & Hh).
  - cbn [s_thr]. eapply nth_error_upd_same; eauto.
  - reflexivity.
  - exact Hv.
  - exists s'. split; [rewrite run_cons, Hs; exact Hr | exact Hh].
Qed.

Lemma free_mutex_wakes_sleeper s : reachable s ->
  holders s = 0 -> at_pc PUsend s = 0 -> 0 < at_pc PLrecv s ->
  exists i sched s', thread_at s i in_slow_path /\ (forall j, In j sched -> j = i) /\
    (length sched <= 3)%nat /\ run s sched = Some s' /\ thread_at s' i (fun t => t_held t = true).
Proof.
  intros Hr Hfree Hsend Hsleep.
  assert (Hv : s_v s = 1) by (apply (free_iff_v1 s Hr); assumption).
  destruct (no_lost_wakeup s Hr Hsleep) as [Hch|[E|[E|[E _]]]]; try lia.
  - unfold at_pc in Hsleep. destruct (sumf_pos_exists _ _ Hsleep) as (i & a & Hn & Ha).
    apply fP_pos in Ha.
    destruct (acquire_from_recv s i a Hn Ha Hv Hch) as (s' & Hrun & Hh).
    exists i, [i; i; i], s'.
    split; [exists a; split; auto; left; auto|].
    split; [cbn; intros j [?|[?|[?|[]]]]; auto|].
    split; [cbn; lia|]. split; assumption.
  - destruct (Z_lt_dec 0 (at_pc PLload s)) as [Hl|Hl].
    + unfold at_pc in Hl. destruct (sumf_pos_exists _ _ Hl) as (i & a & Hn & Ha).
      apply fP_pos in Ha.
      destruct (acquire_from_load s i a Hn Ha Hv) as (s' & Hrun & Hh).
      exists i, [i; i], s'.
      split; [exists a; split; auto; right; left; auto|].
      split; [cbn; intros j [?|[?|[]]]; auto|].
      split; [cbn; lia|]. split; assumption.
    + assert (Hw : 0 < at_pc PLswap s) by lia.
      unfold at_pc in Hw. destruct (sumf_pos_exists _ _ Hw) as (i & a & Hn & Ha).
      apply fP_pos in Ha.
      destruct (acquire_from_swap s i a Hn Ha Hv) as (s' & Hrun & Hh).
      exists i, [i], s'.
      split; [exists a; split; auto; right; right; auto|].
      split; [cbn; intros j [?|[]]; auto|].
      split; [cbn; lia|]. split; assumption.
Qed.

(* ------------------------------------------------------------------ deadlock freedom *)
(* shape of the remaining program: it still ends with an Unlock, or it is exhausted and the
   thread neither holds the mutex nor is inside Lock/TryLock *)
Definition J (th : thread) : Prop :=
  last (t_prog th) OLock = OUnlock \/
  (t_prog th = [] /\ t_held th = false /\ (t_pc th = PIdle \/ t_pc th = PUsend)).

Lemma J_init p : ends_unlock p -> J (init_thread p).
Proof. intros [->|H]; [right; cbn; auto | left; exact H]. Qed.

Lemma J_tstep v ch th v' ch' th' ev : tstep v ch th = Some (v', ch', th', ev) -> J th -> J th'.
Proof.
  intros Ht HJ. unfold J in *.
  tstep_cases Ht; cbn [t_prog t_held t_pc].
  all: try match goal with H : next_op _ _ = Some (_, _) |- _ =>
             destruct (next_op_suffix _ _ _ _ H) as (pre & Hpre) end.
  all: destruct HJ as [HJ | (HJ1 & HJ2 & [HJ3|HJ3])].
  all: try (left; exact HJ).
  all: try congruence.
  all: try (rewrite HJ1 in Hpre; destruct pre; discriminate Hpre).
  all: try (right; auto; fail).
  all: rewrite Hpre, last_app_cons in HJ.
  all: match goal with H : next_op _ _ = Some (_, ?r) |- _ => destruct r end.
  all: try (left; exact HJ).
  all: try (cbn in HJ; discriminate HJ).
  all: right; auto.
Qed.

Lemma reachable_from_J progs s : Forall ends_unlock progs -> reachable_from progs s -> Forall J (s_thr s).
Proof.
  intros Hp Hr. induction Hr as [|s i s' Hr IH Hs].
  - cbn. induction Hp; cbn; constructor; auto using J_init.
  - destruct (step_inv _ _ _ Hs) as (th & v' & ch' & th' & ev & Hn & Ht & ->).
    cbn [s_thr]. apply Forall_upd; [exact IH|].
    eapply J_tstep; [exact Ht|]. eapply Forall_nth_error; eauto.
Qed.

Lemma finished_dec th : {finished th} + {~ finished th}.
Proof.
  unfold finished. destruct (t_pc th); try (right; intros [E _]; discriminate).
  destruct (next_op (t_held th) (t_prog th)); [right; intros [_ E]; discriminate | left; auto].
Qed.

(* the only disabled situations: program exhausted, or asleep on an empty channel *)
Lemma tstep_enabled v ch th : ~ finished th -> (t_pc th = PLrecv -> ch = true) ->
  exists r, tstep v ch th = Some r.
Proof.
  intros Hf Hr. unfold finished in Hf. unfold tstep, tstep_gen.
  destruct (t_pc th) eqn:Hpc.
  - destruct (next_op (t_held th) (t_prog th)) as [[[] r]|] eqn:Hop.
    + destruct (v - 1 =? 0); eauto.
    + destruct (v <=? 0); eauto.
    + destruct (sig_real v); eauto.
    + exfalso. apply Hf. auto.
  - destruct (0 <=? v); eauto.
  - destruct (v =? 1); eauto.
  - rewrite Hr by reflexivity. eauto.
  - destruct (v =? 1); eauto.
  - eauto.
Qed.

Lemma thread_enabled s i th : nth_error (s_thr s) i = Some th -> ~ finished th ->
  (t_pc th = PLrecv -> s_ch s = true) -> exists s', step s i = Some s'.
Proof.
  intros Hn Hf Hr. destruct (tstep_enabled (s_v s) (s_ch s) th Hf Hr) as ([[[v' ch'] th'] ev] & Ht).
  eexists. eapply step_intro; eauto.
Qed.

Lemma deadlock_free progs s : Forall ends_unlock progs -> reachable_from progs s ->
  (exists th, In th (s_thr s) /\ ~ finished th) -> exists i s', step s i = Some s'.
Proof.
  intros Hp Hr (th & Hin & Hnf).
  pose proof (reachable_from_Inv _ _ Hr) as (HM & HW & HK).
  pose proof (reachable_from_J _ _ Hp Hr) as HJ.
  destruct (In_nth_error _ _ Hin) as (i & Hn).
  destruct (pc_eqb (t_pc th) PLrecv) eqn:Hpc.
  2:{ exists i. eapply thread_enabled; eauto. intros E. rewrite E in Hpc. discriminate. }
  apply pc_eqb_true in Hpc.
  destruct (s_ch s) eqn:Hch.
  { exists i. eapply thread_enabled; eauto. }
  (* th sleeps on an empty channel: somebody else must be able to move *)
  assert (Hsleep : 0 < at_pc PLrecv s).
  { unfold at_pc.
    pose proof (sumf_ge_elem (fun t => b2z (pc_eqb (t_pc t) PLrecv)) _ _ _ (fun t => proj1 (b2z_range _)) Hn) as G.
    cbn beta in G. rewrite Hpc in G. cbn in G. lia. }
  assert (Hpick : forall p, p <> PLrecv -> p <> PIdle -> 0 < at_pc p s -> exists j s', step s j = Some s').
  { intros p Hp' Hp'' Hpos. unfold at_pc in Hpos. destruct (sumf_pos_exists _ _ Hpos) as (j & a & Hnj & Ha).
    apply fP_pos in Ha. exists j. eapply thread_enabled; eauto.
    - intros [E _]. congruence.
    - intros E. congruence. }
  destruct (HW Hsleep) as [E|[E|[E|[E1 E2]]]].
  - congruence.
  - apply (Hpick PUsend); [discriminate | discriminate | exact E].
  - destruct (Z_lt_dec 0 (at_pc PLload s)).
    + apply (Hpick PLload); [discriminate | discriminate | assumption].
    + apply (Hpick PLswap); [discriminate | discriminate | lia].
  - (* the holder can run its next call *)
    assert (Hh : 0 < holders s) by lia. unfold holders in Hh.
    destruct (sumf_pos_exists _ _ Hh) as (j & a & Hnj & Ha). apply fH_pos in Ha.
    pose proof (Forall_nth_error _ _ _ _ HK Hnj Ha) as Hidle.
    exists j. eapply thread_enabled; eauto.
    + intros [_ Hnone].
      destruct (Forall_nth_error _ _ _ _ HJ Hnj) as [HJa | (HJ1 & HJ2 & _)]; [|congruence].
      rewrite Ha in Hnone. eapply next_op_held_ends_unlock; eauto.
    + intros E. congruence.
Qed.

(* ------------------------------------------------------------------ every schedule is finite
   (finite client programs): a ranking function that decreases with every step.  A sleeper's
   loop iteration consumes a token; tokens are only produced by Unlock calls, which are finite. *)
Fixpoint countU (p : list op) : Z :=
  match p with [] => 0 | OUnlock :: r => 1 + countU r | _ :: r => countU r end.
Definition pcw (p : pc) : Z :=
  match p with PIdle => 0 | PLload => 3 | PLswap => 2 | PLrecv => 1 | PTcas => 1 | PUsend => 1 end.
Definition mu_thread (t : thread) : Z :=
  3 * (countU (t_prog t) + b2z (pc_eqb (t_pc t) PUsend)) + 4 * Z.of_nat (length (t_prog t)) + pcw (t_pc t).
Definition mu (s : state) : Z := 3 * b2z (s_ch s) + sumf mu_thread (s_thr s).

Lemma countU_range p : 0 <= countU p <= Z.of_nat (length p).
Proof. induction p as [|o p IH]; cbn [countU length]; [lia|]. destruct o; lia. Qed.

Lemma mu_thread_nonneg t : 0 <= mu_thread t.
Proof.
  unfold mu_thread. pose proof (countU_range (t_prog t)). pose proof (b2z_range (pc_eqb (t_pc t) PUsend)).
  assert (0 <= pcw (t_pc t)) by (destruct (t_pc t); cbn; lia). lia.
Qed.

Lemma mu_nonneg s : 0 <= mu s.
Proof.
  unfold mu. pose proof (b2z_range (s_ch s)). pose proof (sumf_nonneg mu_thread (s_thr s) mu_thread_nonneg). lia.
Qed.

Lemma next_op_measure : forall p h o r, next_op h p = Some (o, r) ->
  Z.of_nat (length r) + 1 <= Z.of_nat (length p) /\
  countU r + (match o with OUnlock => 1 | _ => 0 end) <= countU p.
Proof.
  induction p as [|a p IH]; cbn [next_op]; intros h o r H; [discriminate|].
  destruct a, h; try (inversion H; subst; cbn [countU length]; lia);
    destruct (IH _ _ _ H); cbn [countU length]; lia.
Qed.

Lemma step_decreases s i s' : step s i = Some s' -> mu s' + 1 <= mu s.
Proof.
  intros Hs. destruct (step_inv _ _ _ Hs) as (th & v' & ch' & th' & ev & Hn & Ht & ->).
  unfold mu. cbn [s_thr s_ch]. rewrite (sumf_upd _ _ _ _ _ Hn).
  unfold mu_thread.
  tstep_cases Ht; pc_facts; cbn [t_prog t_pc pc_eqb b2z pcw];
    try match goal with H : next_op _ _ = Some _ |- _ => destruct (next_op_measure _ _ _ _ H) end;
    try (destruct (s_ch s); cbn [b2z]); lia.
Qed.

Lemma run_length : forall sched s s', run s sched = Some s' -> Z.of_nat (length sched) + mu s' <= mu s.
Proof.
  induction sched as [|i r IH]; intros s s' H.
  - inversion H; subst. cbn. lia.
  - rewrite run_cons in H. destruct (step s i) as [s1|] eqn:E; [|discriminate].
    pose proof (step_decreases _ _ _ E). pose proof (IH _ _ H). cbn [length]. lia.
Qed.

Definition total_ops (progs : list (list op)) : Z := Z.of_nat (length (concat progs)).

Lemma mu_init progs : mu (init progs) <= 7 * total_ops progs.
Proof.
  unfold mu, init, total_ops. cbn [s_ch s_thr b2z].
  induction progs as [|p l IH]; cbn [map sumf concat]; [cbn; lia|].
  rewrite app_length, Nat2Z.inj_add. unfold mu_thread at 1. cbn [init_thread t_prog t_pc pc_eqb b2z pcw].
  pose proof (countU_range p). lia.
Qed.

(* every run from an initial state has at most 7 * (number of API calls in the programs) steps *)
Lemma run_length_bounded progs sched s : run (init progs) sched = Some s ->
  Z.of_nat (length sched) <= 7 * total_ops progs.
Proof.
  intros H. pose proof (run_length _ _ _ H). pose proof (mu_nonneg s). pose proof (mu_init progs). lia.
Qed.

Lemma step_gen_oob sig s i : (length (s_thr s) <= i)%nat -> step_gen sig s i = None.
Proof.
  intros H. unfold step_gen, step_ev_gen.
  replace (nth_error (s_thr s) i) with (@None thread); [reflexivity|].
  symmetry. apply nth_error_None. exact H.
Qed.

Lemma step_oob s i : (length (s_thr s) <= i)%nat -> step s i = None.
Proof. apply step_gen_oob. Qed.

Lemma step_dec_upto s : forall n,
  (forall i, (i < n)%nat -> step s i = None) \/ (exists i s', step s i = Some s').
Proof.
  induction n as [|n [IH|IH]].
  - left. intros i Hi. lia.
  - destruct (step s n) as [s'|] eqn:E.
    + right. eauto.
    + left. intros i Hi. destruct (Nat.eq_dec i n) as [->|]; [exact E | apply IH; lia].
  - right. exact IH.
Qed.

Lemma step_dec s : (forall i, step s i = None) \/ (exists i s', step s i = Some s').
Proof.
  destruct (step_dec_upto s (length (s_thr s))) as [H|H]; [left|right; exact H].
  intros i. destruct (Nat.lt_ge_cases i (length (s_thr s))); [apply H; assumption | apply step_oob; assumption].
Qed.

(* every run can be extended to a maximal one *)
Lemma runs_terminate s : exists sched s', run s sched = Some s' /\ forall i, step s' i = None.
Proof.
  assert (G : forall n s, mu s <= Z.of_nat n ->
              exists sched s', run s sched = Some s' /\ forall i, step s' i = None).
  { induction n as [|n IH]; intros s0 Hm.
    - exists [], s0. split; [reflexivity|]. intros i. destruct (step s0 i) as [s1|] eqn:E; [|reflexivity].
      pose proof (step_decreases _ _ _ E). pose proof (mu_nonneg s1). lia.
    - destruct (step_dec s0) as [Hnone|(i & s1 & E)].
      + exists [], s0. split; [reflexivity | exact Hnone].
      + pose proof (step_decreases _ _ _ E).
        destruct (IH s1) as (sched & s' & Hr & Hmax); [lia|].
        exists (i :: sched), s'. split; [rewrite run_cons, E; exact Hr | exact Hmax]. }
  apply (G (Z.to_nat (mu s))). pose proof (mu_nonneg s). lia.
Qed.

(* Liveness for finite client programs that end by unlocking, under EVERY schedule (no fairness
   needed): a run has at most 7 * total_ops steps; when nothing more can run, every program is
   finished, i.e. every Lock call that was issued has returned; and every run prefix can be
   extended to such a complete run. *)
Lemma lock_returns_finite progs sched s : Forall ends_unlock progs ->
  run (init progs) sched = Some s ->
  Z.of_nat (length sched) <= 7 * total_ops progs /\
  ((forall i, step s i = None) -> Forall finished (s_thr s)) /\
  (exists more s', run s more = Some s' /\ Forall finished (s_thr s')).
Proof.
  intros Hp Hrun.
  assert (Hr : reachable_from progs s) by (apply reachable_from_iff_run; eauto).
  assert (Hmax : forall s0, reachable_from progs s0 -> (forall i, step s0 i = None) -> Forall finished (s_thr s0)).
  { intros s0 Hr0 Hnone. apply Forall_forall. intros th Hin.
    destruct (finished_dec th) as [F|F]; [exact F|exfalso].
    destruct (deadlock_free progs s0 Hp Hr0) as (i & s' & E); [eauto|].
    rewrite Hnone in E. discriminate. }
  split; [eapply run_length_bounded; eauto|]. split; [apply Hmax; exact Hr|].
  destruct (runs_terminate s) as (more & s' & Hm & Hnone).
  exists more, s'. split; [exact Hm|]. apply Hmax; [|exact Hnone].
  eapply reachable_from_run; eauto.
Qed.

(* ------------------------------------------------------------------ the invariant has teeth:
   an Unlock that signals only when the value swapped out is below -1 loses the wake-up of a single
   sleeper *)
Definition LU := [OLock; OUnlock].
Definition TU := [OTryLock; OUnlock].

Lemma naive_unlock_refuted :
  exists progs sched s, Forall ends_unlock progs /\
    run_gen sig_naive (init progs) sched = Some s /\
    stuck s /\ (forall i, step_gen sig_naive s i = None) /\ ~ Forall finished (s_thr s).
Proof.
  exists [LU; LU], [0; 1; 1; 0]%nat.
  eexists. split; [|split; [vm_compute; reflexivity|]].
  - repeat constructor; right; reflexivity.
  - split; [|split].
    + unfold stuck. vm_compute. repeat split; congruence.
    + intros [|[|i]]; try reflexivity. apply step_gen_oob. cbn. lia.
    + intros F. cbn [s_thr] in F. inversion F as [|? ? F1 F2]; subst. inversion F2 as [|? ? F3 F4]; subst.
      destruct F3 as [E _]. discriminate E.
Qed.

(* the same schedule on the real algorithm signals, and the run completes *)
Lemma real_unlock_same_schedule :
  exists s, run (init [LU; LU]) [0; 1; 1; 0; 0; 1; 1; 1; 1; 1]%nat = Some s /\
            forallb finishedb (s_thr s) = true /\ s_v s = 1.
Proof. eexists. split; [vm_compute; reflexivity|]. split; reflexivity. Qed.

(* ------------------------------------------------------------------ non-vacuity *)
(* three threads: T0 holds, T1 and T2 asleep in the slow path, v = -2 *)
Lemma contended_reachable :
  exists s, reachable s /\ at_pc PLrecv s = 2 /\ holders s = 1 /\ s_v s = -2 /\ s_ch s = false.
Proof.
  destruct (run (init [LU; LU; LU]) [0; 1; 1; 2; 2]%nat) as [s|] eqn:E; [|vm_compute in E; discriminate].
  exists s. split.
  - exists [LU; LU; LU]. apply reachable_from_iff_run. eauto.
  - vm_compute in E. inversion E; subst. vm_compute. auto.
Qed.

(* ... and the full contended run: both sleepers are woken one after the other, everybody finishes *)
Lemma contended_run_completes :
  exists s, run (init [LU; LU; LU]) [0; 1; 1; 2; 2; 0; 0; 1; 1; 1; 1; 1; 2; 2; 2; 2; 2]%nat = Some s /\
            forallb finishedb (s_thr s) = true /\ s_v s = 1 /\ s_ch s = true /\
            (forall i, step s i = None).
Proof.
  eexists. split; [vm_compute; reflexivity|]. repeat split.
  intros [|[|[|i]]]; try reflexivity. apply step_oob. cbn. lia.
Qed.

(* a free mutex with a sleeper and a pending token is reachable (hypotheses of
   free_mutex_wakes_sleeper are satisfiable) *)
Lemma free_with_sleeper_reachable :
  exists s, reachable s /\ holders s = 0 /\ at_pc PUsend s = 0 /\ 0 < at_pc PLrecv s.
Proof.
  destruct (run (init [LU; LU]) [0; 1; 1; 0; 0]%nat) as [s|] eqn:E; [|vm_compute in E; discriminate].
  exists s. split.
  - exists [LU; LU]. apply reachable_from_iff_run. eauto.
  - vm_compute in E. inversion E; subst. vm_compute. auto.
Qed.

(* TryLock success is reachable while another thread is mid-slow-path *)
Lemma trylock_true_reachable :
  exists s s', reachable s /\ step_ev s 1%nat = Some (s', EvTryT).
Proof.
  destruct (run (init [LU; TU]) [0; 0; 1]%nat) as [s|] eqn:E; [|vm_compute in E; discriminate].
  exists s. eexists. split.
  - exists [LU; TU]. apply reachable_from_iff_run. eauto.
  - vm_compute in E. inversion E; subst. vm_compute. reflexivity.
Qed.
